# Build of the verification framework: Coq development (full .vo build), extraction, OCaml driver.
# `make setup` is incremental: the driver is re-extracted and re-linked only when a compiled theory,
# Extract.v or driver.ml is newer than it, and it is replaced atomically (checks may run concurrently).
SHELL := /bin/bash
COQDIR := coq
BUILD := build
VOFILES := $(patsubst %.v,%.vo,$(shell grep '^theories/' $(COQDIR)/_CoqProject | sed 's|^|$(COQDIR)/|'))
.PHONY: setup coq driver clean selftest

setup: coq
	@$(MAKE) --no-print-directory $(BUILD)/driver

coq:
	cd $(COQDIR) && ( [ -f Makefile.coq ] && [ Makefile.coq -nt _CoqProject ] || coq_makefile -f _CoqProject -o Makefile.coq >/dev/null 2>&1 ) && timeout 3000 $(MAKE) -f Makefile.coq -j16

driver: $(BUILD)/driver

$(BUILD)/driver: $(COQDIR)/extract/Extract.v $(COQDIR)/extract/driver.ml $(VOFILES)
	mkdir -p $(BUILD)/x.$$$$ && cd $(BUILD)/x.$$$$ && \
	timeout 600 coqc -Q ../../$(COQDIR)/theories MS ../../$(COQDIR)/extract/Extract.v >/dev/null && \
	rm -f ../../$(COQDIR)/extract/Extract.vo ../../$(COQDIR)/extract/Extract.glob ../../$(COQDIR)/extract/.Extract.aux ../../$(COQDIR)/extract/Extract.vok ../../$(COQDIR)/extract/Extract.vos && \
	cp ../../$(COQDIR)/extract/driver.ml driver.ml && \
	timeout 600 ocamlfind ocamlopt -O3 -w -a model.mli model.ml driver.ml -o driver && \
	printf 'B new abcd 10 L\nB add 03:2:L:6 80:1:R:7\n' | ./driver | tr '\n' ' ' | grep -q 'OK 03cd:10:L:6 OK 07:3:L:5' && \
	mv -f driver ../driver && cd .. && rm -rf x.$$$$ && echo "driver built, self-test ok"

clean:
	rm -rf $(BUILD); cd $(COQDIR) && rm -f Makefile.coq Makefile.coq.conf .*.aux */*.vo */*.vok */*.vos */*.glob */.*.aux .lia.cache
