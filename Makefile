# Build of the verification framework: Coq development (full .vo build), extraction, OCaml driver.
SHELL := /bin/bash
COQDIR := coq
BUILD := build
.PHONY: setup coq driver clean selftest

setup: coq driver selftest

coq:
	cd $(COQDIR) && coq_makefile -f _CoqProject -o Makefile.coq >/dev/null 2>&1 && timeout 3000 $(MAKE) -f Makefile.coq -j16

driver: coq
	mkdir -p $(BUILD)
	cd $(BUILD) && timeout 600 coqc -Q ../$(COQDIR)/theories MS ../$(COQDIR)/extract/Extract.v >/dev/null && rm -f ../$(COQDIR)/extract/Extract.vo ../$(COQDIR)/extract/Extract.glob ../$(COQDIR)/extract/.Extract.aux
	cp $(COQDIR)/extract/driver.ml $(BUILD)/driver.ml
	cd $(BUILD) && timeout 600 ocamlfind ocamlopt -O3 -w -a model.mli model.ml driver.ml -o driver

selftest: driver
	@printf 'B new abcd 10 L\nB add 03:2:L:6 80:1:R:7\n' | $(BUILD)/driver | tr '\n' ' ' | grep -q 'OK 03cd:10:L:6 OK 07:3:L:5' && echo "driver self-test ok"

clean:
	rm -rf $(BUILD); cd $(COQDIR) && rm -f Makefile.coq Makefile.coq.conf .*.aux */*.vo */*.vok */*.vos */*.glob */.*.aux .lia.cache
