(* Extraction of the executable model for the correspondence check.
   Only ExtrOcamlBasic is used: bool, option, unit, list, prod, sumbool, sumor are mapped to the
   OCaml types; Z, N, positive, nat stay the extracted Coq datatypes.  No Extract Constant. *)
From Coq Require Extraction ExtrOcamlBasic.
From MS Require Import PyBase Buffer Bits Schc Compute Parsers Json CoapSemantic SchcBytes ParserBytes ComputeBytes ManagerBytes CoapSemanticBytes BufferHeap.
Extraction Language OCaml.
Extraction "model.ml"
  b_new b_copy b_shift b_pad b_value b_getitem b_getitem_int b_add b_and b_or b_xor b_invert
  b_setitem b_setitem_int b_chunks b_eq b_eq_bytes b_hash_key b_iter b_len lsb_bytes prefix_value
  key_match dict_get dict_set dict_of_list
  compress decompress match_packet_descriptor match_schc_packet cm_compress cm_decompress
  schc_compress schc_decompress compute_functions encode_length decode_var field_match rule_matches
  ipv6_payload_length ipv4_total_length ipv4_checksum udp_length udp_checksum sctp_checksum crc32c
  factory parse_coap parse_sctp parse_udp parse_ipv4 parse_ipv6
  buf_to_json buf_from_json mm_to_json mm_from_json field_to_json field_from_json header_to_json header_from_json pdesc_to_json pdesc_from_json
  rfd_to_json rfd_from_json rule_to_json rule_from_json context_to_json context_from_json
  parse_coap_semantic coap_unparse packet_parse
  bcompress bdecompress bdecompress_c bfactory bfield_match bmatch_schc_loop
  bmatch_packet_descriptor bmatch_schc_packet bcm_compress bcm_decompress bschc_compress bschc_decompress
  bparse_coap_semantic bcoap_unparse
  hstep hrun hop_pure.
