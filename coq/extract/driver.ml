(* driver.ml -- line protocol between the Python harness and the extracted Coq model.
   One case per input line: "<op> <arg> ..."; one result line per case. *)
open Model

let rec pos_of_int n = if n = 1 then XH else if n land 1 = 1 then XI (pos_of_int (n lsr 1)) else XO (pos_of_int (n lsr 1))
let z_of_int n = if n = 0 then Z0 else if n > 0 then Zpos (pos_of_int n) else Zneg (pos_of_int (-n))
let rec int_of_pos = function XH -> 1 | XO p -> 2 * int_of_pos p | XI p -> 2 * int_of_pos p + 1
let int_of_z = function Z0 -> 0 | Zpos p -> int_of_pos p | Zneg p -> - (int_of_pos p)
let rec nat_of_int n = if n <= 0 then O else S (nat_of_int (n - 1))
let rec int_of_nat = function O -> 0 | S n -> 1 + int_of_nat n

(* arbitrary-size non-negative Z -> hex string (little helper, no Zarith available) *)
let rec bits_of_pos = function XH -> [1] | XO p -> 0 :: bits_of_pos p | XI p -> 1 :: bits_of_pos p  (* lsb first *)
let hex_of_z z =
  let bits, sign = match z with Z0 -> [], "" | Zpos p -> bits_of_pos p, "" | Zneg p -> bits_of_pos p, "-" in
  let rec nibbles = function
    | [] -> []
    | [a] -> [a]
    | [a;b] -> [a + 2*b]
    | [a;b;c] -> [a + 2*b + 4*c]
    | a::b::c::d::r -> (a + 2*b + 4*c + 8*d) :: nibbles r in
  let ns = List.rev (nibbles bits) in
  if ns = [] then "0" else sign ^ String.concat "" (List.map (Printf.sprintf "%x") ns)

let bytes_of_hex s =
  if s = "-" then [] else
  let n = String.length s / 2 in
  List.init n (fun i -> z_of_int (int_of_string ("0x" ^ String.sub s (2*i) 2)))
let hex_of_bytes l =
  if l = [] then "-" else String.concat "" (List.map (fun z -> let v = int_of_z z in if v < 0 || v > 255 then Printf.sprintf "[%d]" v else Printf.sprintf "%02x" v) l)

let side_of_string = function "L" -> LEFT | "R" -> RIGHT | s -> failwith ("side " ^ s)
let string_of_side = function LEFT -> "L" | RIGHT -> "R"

(* buffer literal: hex:len:side:pl *)
let buf_of_string s =
  match String.split_on_char ':' s with
  | [h; l; sd; pl] -> { content = bytes_of_hex h; blen = z_of_int (int_of_string l); bside = side_of_string sd; bpl = z_of_int (int_of_string pl) }
  | _ -> failwith ("buf " ^ s)
let string_of_buf b = Printf.sprintf "%s:%d:%s:%d" (hex_of_bytes b.content) (int_of_z b.blen) (string_of_side b.bside) (int_of_z b.bpl)

let exn_name = function
  | IndexError -> "IndexError" | TypeError -> "TypeError" | OverflowError -> "OverflowError" | KeyError -> "KeyError"
  | ValueError -> "ValueError" | StopIteration -> "StopIteration" | UnboundLocalError -> "UnboundLocalError"
  | AssertionError -> "AssertionError" | NotImplementedError -> "NotImplementedError" | ZeroDivisionError -> "ZeroDivisionError"
  | AttributeError -> "AttributeError" | ParserError -> "ParserError" | UnparserError -> "UnparserError"
  | RuleIDMatchError -> "RuleIDMatchError" | RuleDescriptorMatchError -> "RuleDescriptorMatchError" | Unmodelled -> "Unmodelled"

let show f = function Ok a -> "OK " ^ f a | Exc e -> "EXC " ^ exn_name e | Diverge -> "DIVERGE"
let opt_z s = if s = "N" then None else Some (z_of_int (int_of_string s))
let zi s = z_of_int (int_of_string s)
let bool_of s = s = "1"
let string_of_bool01 b = if b then "1" else "0"

let run_buffer op a =
  match op, a with
  | "new", [h; l; sd] -> show string_of_buf (b_new (bytes_of_hex h) (zi l) (side_of_string sd))
  | "copy", [b] -> show string_of_buf (b_copy (buf_of_string b))
  | "shift", [b; s; ip] -> show string_of_buf (b_shift (buf_of_string b) (zi s) (bool_of ip))
  | "pad", [b; sd; ip] -> show string_of_buf (b_pad (buf_of_string b) (side_of_string sd) (bool_of ip))
  | "value", [b] -> show hex_of_z (b_value (buf_of_string b))
  | "getitem", [b; s; e] -> show string_of_buf (b_getitem (buf_of_string b) (opt_z s) (opt_z e))
  | "getint", [b; i] -> show string_of_buf (b_getitem_int (buf_of_string b) (zi i))
  | "add", [x; y] -> show string_of_buf (b_add (buf_of_string x) (buf_of_string y))
  | "and", [x; y] -> show string_of_buf (b_and (buf_of_string x) (buf_of_string y))
  | "or", [x; y] -> show string_of_buf (b_or (buf_of_string x) (buf_of_string y))
  | "xor", [x; y] -> show string_of_buf (b_xor (buf_of_string x) (buf_of_string y))
  | "invert", [x] -> show string_of_buf (b_invert (buf_of_string x))
  | "setitem", [b; s; e; v] -> show string_of_buf (b_setitem (buf_of_string b) (opt_z s) (opt_z e) (buf_of_string v))
  | "setint", [b; i; v] -> show string_of_buf (b_setitem_int (buf_of_string b) (zi i) (buf_of_string v))
  | "chunks", [b; n; p] -> show (fun l -> String.concat "," (List.map string_of_buf l)) (b_chunks (buf_of_string b) (zi n) (bool_of p))
  | "eq", [x; y] -> show string_of_bool01 (b_eq (buf_of_string x) (buf_of_string y))
  | "eqbytes", [x; h] -> "OK " ^ string_of_bool01 (b_eq_bytes (buf_of_string x) (bytes_of_hex h))
  | "hash2", [x; y] -> show string_of_bool01 (match b_hash_key (buf_of_string x), b_hash_key (buf_of_string y) with
                                              | Ok a, Ok b -> Ok (a = b) | Exc e, _ -> Exc e | _, Exc e -> Exc e | _, _ -> Diverge)
  | "hashkey", [x; h] -> show string_of_bool01 (match b_hash_key (buf_of_string x) with Ok a -> Ok (a = bytes_of_hex h) | Exc e -> Exc e | Diverge -> Diverge)
  | "indict", probe :: keys ->
    let kv = List.mapi (fun i k -> (buf_of_string k, i)) keys in
    show (function None -> "-1" | Some i -> string_of_int i)
      (match dict_of_list [] kv with Ok d -> dict_get d (buf_of_string probe) | Exc e -> Exc e | Diverge -> Diverge)
  | "hash", [x] -> show hex_of_bytes (b_hash_key (buf_of_string x))
  | "iter", [x] -> show (fun l -> "b" ^ String.concat "" (List.map (fun z -> string_of_int (int_of_z z)) l)) (b_iter (buf_of_string x))
  | "len", [x] -> "OK " ^ string_of_int (int_of_z (b_len (buf_of_string x)))
  | "lsb", [x; n] -> show string_of_buf (lsb_bytes (buf_of_string x) (zi n))
  | "prefixval", [x] -> show hex_of_z (prefix_value (buf_of_string x))
  | _ -> "BADOP " ^ op

let () =
  try
    while true do
      let line = input_line stdin in
      let toks = List.filter (fun s -> s <> "") (String.split_on_char ' ' line) in
      let out =
        match toks with
        | [] -> "EMPTY"
        | "B" :: op :: args -> (try run_buffer op args with Failure m -> "FAIL " ^ m | Stack_overflow -> "FAIL stack")
        | op :: _ -> "BADLAYER " ^ op in
      print_string out; print_newline ()
    done
  with End_of_file -> ()
