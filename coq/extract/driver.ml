(* driver.ml -- line protocol between the Python harness and the extracted Coq model.
   One case per input line: "<op> <arg> ..."; one result line per case. *)
open Model

let rec pos_of_int n = if n = 1 then XH else if n land 1 = 1 then XI (pos_of_int (n lsr 1)) else XO (pos_of_int (n lsr 1))
let z_of_int n = if n = 0 then Z0 else if n > 0 then Zpos (pos_of_int n) else Zneg (pos_of_int (-n))
let rec int_of_pos = function XH -> 1 | XO p -> 2 * int_of_pos p | XI p -> 2 * int_of_pos p + 1
let int_of_z = function Z0 -> 0 | Zpos p -> int_of_pos p | Zneg p -> - (int_of_pos p)
let rec nat_of_int n = if n <= 0 then O else S (nat_of_int (n - 1))
let rec int_of_nat = function O -> 0 | S n -> 1 + int_of_nat n

(* arbitrary-size non-negative Z -> hex string (little helper, no Zarith available) *)
let rec bits_of_pos = function XH -> [1] | XO p -> 0 :: bits_of_pos p | XI p -> 1 :: bits_of_pos p  (* lsb first *)
let hex_of_z z =
  let bits, sign = match z with Z0 -> [], "" | Zpos p -> bits_of_pos p, "" | Zneg p -> bits_of_pos p, "-" in
  let rec nibbles = function
    | [] -> []
    | [a] -> [a]
    | [a;b] -> [a + 2*b]
    | [a;b;c] -> [a + 2*b + 4*c]
    | a::b::c::d::r -> (a + 2*b + 4*c + 8*d) :: nibbles r in
  let ns = List.rev (nibbles bits) in
  if ns = [] then "0" else sign ^ String.concat "" (List.map (Printf.sprintf "%x") ns)

let bytes_of_hex s =
  if s = "-" then [] else
  let n = String.length s / 2 in
  List.init n (fun i -> z_of_int (int_of_string ("0x" ^ String.sub s (2*i) 2)))
let hex_of_bytes l =
  if l = [] then "-" else String.concat "" (List.map (fun z -> let v = int_of_z z in if v < 0 || v > 255 then Printf.sprintf "[%d]" v else Printf.sprintf "%02x" v) l)

let side_of_string = function "L" -> LEFT | "R" -> RIGHT | s -> failwith ("side " ^ s)
let string_of_side = function LEFT -> "L" | RIGHT -> "R"

(* buffer literal: hex:len:side:pl *)
let buf_of_string s =
  match String.split_on_char ':' s with
  | [h; l; sd; pl] -> { content = bytes_of_hex h; blen = z_of_int (int_of_string l); bside = side_of_string sd; bpl = z_of_int (int_of_string pl) }
  | _ -> failwith ("buf " ^ s)
let string_of_buf b = Printf.sprintf "%s:%d:%s:%d" (hex_of_bytes b.content) (int_of_z b.blen) (string_of_side b.bside) (int_of_z b.bpl)

let exn_name = function
  | IndexError -> "IndexError" | TypeError -> "TypeError" | OverflowError -> "OverflowError" | KeyError -> "KeyError"
  | ValueError -> "ValueError" | StopIteration -> "StopIteration" | UnboundLocalError -> "UnboundLocalError"
  | AssertionError -> "AssertionError" | NotImplementedError -> "NotImplementedError" | ZeroDivisionError -> "ZeroDivisionError"
  | AttributeError -> "AttributeError" | ParserError -> "ParserError" | UnparserError -> "UnparserError"
  | RuleIDMatchError -> "RuleIDMatchError" | RuleDescriptorMatchError -> "RuleDescriptorMatchError" | Unmodelled -> "Unmodelled"

let show f = function Ok a -> "OK " ^ f a | Exc e -> "EXC " ^ exn_name e | Diverge -> "DIVERGE"
let opt_z s = if s = "N" then None else Some (z_of_int (int_of_string s))
let zi s = z_of_int (int_of_string s)
let bool_of s = s = "1"
let string_of_bool01 b = if b then "1" else "0"

let run_buffer op a =
  match op, a with
  | "new", [h; l; sd] -> show string_of_buf (b_new (bytes_of_hex h) (zi l) (side_of_string sd))
  | "copy", [b] -> show string_of_buf (b_copy (buf_of_string b))
  | "shift", [b; s; ip] -> show string_of_buf (b_shift (buf_of_string b) (zi s) (bool_of ip))
  | "pad", [b; sd; ip] -> show string_of_buf (b_pad (buf_of_string b) (side_of_string sd) (bool_of ip))
  | "value", [b] -> show hex_of_z (b_value (buf_of_string b))
  | "getitem", [b; s; e] -> show string_of_buf (b_getitem (buf_of_string b) (opt_z s) (opt_z e))
  | "getint", [b; i] -> show string_of_buf (b_getitem_int (buf_of_string b) (zi i))
  | "add", [x; y] -> show string_of_buf (b_add (buf_of_string x) (buf_of_string y))
  | "and", [x; y] -> show string_of_buf (b_and (buf_of_string x) (buf_of_string y))
  | "or", [x; y] -> show string_of_buf (b_or (buf_of_string x) (buf_of_string y))
  | "xor", [x; y] -> show string_of_buf (b_xor (buf_of_string x) (buf_of_string y))
  | "invert", [x] -> show string_of_buf (b_invert (buf_of_string x))
  | "setitem", [b; s; e; v] -> show string_of_buf (b_setitem (buf_of_string b) (opt_z s) (opt_z e) (buf_of_string v))
  | "setint", [b; i; v] -> show string_of_buf (b_setitem_int (buf_of_string b) (zi i) (buf_of_string v))
  | "chunks", [b; n; p] -> show (fun l -> String.concat "," (List.map string_of_buf l)) (b_chunks (buf_of_string b) (zi n) (bool_of p))
  | "eq", [x; y] -> show string_of_bool01 (b_eq (buf_of_string x) (buf_of_string y))
  | "eqbytes", [x; h] -> "OK " ^ string_of_bool01 (b_eq_bytes (buf_of_string x) (bytes_of_hex h))
  | "hash2", [x; y] -> show string_of_bool01 (match b_hash_key (buf_of_string x), b_hash_key (buf_of_string y) with
                                              | Ok a, Ok b -> Ok (a = b) | Exc e, _ -> Exc e | _, Exc e -> Exc e | _, _ -> Diverge)
  | "hashkey", [x; h] -> show string_of_bool01 (match b_hash_key (buf_of_string x) with Ok a -> Ok (a = bytes_of_hex h) | Exc e -> Exc e | Diverge -> Diverge)
  | "indict", probe :: keys ->
    let kv = List.mapi (fun i k -> (buf_of_string k, i)) keys in
    show (function None -> "-1" | Some i -> string_of_int i)
      (match dict_of_list [] kv with Ok d -> dict_get d (buf_of_string probe) | Exc e -> Exc e | Diverge -> Diverge)
  | "hash", [x] -> show hex_of_bytes (b_hash_key (buf_of_string x))
  | "iter", [x] -> show (fun l -> "b" ^ String.concat "" (List.map (fun z -> string_of_int (int_of_z z)) l)) (b_iter (buf_of_string x))
  | "len", [x] -> "OK " ^ string_of_int (int_of_z (b_len (buf_of_string x)))
  | "lsb", [x; n] -> show string_of_buf (lsb_bytes (buf_of_string x) (zi n))
  | "prefixval", [x] -> show hex_of_z (prefix_value (buf_of_string x))
  | _ -> "BADOP " ^ op


(* ---- layer 2: SCHC core over bit lists ------------------------------------------------------ *)
let bits_of_string s = if s = "-" then [] else List.init (String.length s) (fun i -> s.[i] = '1')
let string_of_bits l = if l = [] then "-" else String.concat "" (List.map (fun b -> if b then "1" else "0") l)

let toks : string array ref = ref [||]
let cur = ref 0
let next () = let t = !toks.(!cur) in incr cur; t
let next_int () = int_of_string (next ())
let next_bits () = bits_of_string (next ())
let rec repeat_read n f = if n <= 0 then [] else let x = f () in x :: repeat_read (n - 1) f

let proto_of = function "4" -> P_IPv4 | "6" -> P_IPv6 | "U" -> P_UDP | "C" -> P_CoAP | "S" -> P_SCTP | _ -> P_Other
let string_of_proto = function P_IPv4 -> "4" | P_IPv6 -> "6" | P_UDP -> "U" | P_CoAP -> "C" | P_SCTP -> "S" | P_Other -> "O"
let read_fid () = let p = proto_of (next ()) in let i = next_int () in { fproto = p; fidx = z_of_int i }
let dir_of = function "U" -> Up | "D" -> Dw | _ -> Bi
(* rule nature token: "C" compression, "F" fragmentation, anything else ("N") no-compression *)
let nature_of = function "C" -> Compression | "F" -> Fragmentation | _ -> NoCompression
let read_dir_opt () = match next () with "N" -> None | d -> Some (dir_of d)
let read_tv () =
  match next () with
  | "b" -> TVbuf (next_bits ())
  | _ -> let k = next_int () in TVmap (repeat_read k (fun () -> let v = next_bits () in let i = next_bits () in (v, i)))
let read_rfd () =
  let id = read_fid () in
  let len = next_int () in
  let pos = next_int () in
  let d = dir_of (next ()) in
  let m = (match next () with "e" -> MO_equal | "i" -> MO_ignore | "m" -> MO_msb | _ -> MO_mapping) in
  let c = (match next () with "n" -> NotSent | "l" -> LSB | "m" -> MappingSent | "v" -> ValueSent | _ -> Compute) in
  let t = read_tv () in
  { r_id = id; r_len = z_of_int len; r_pos = z_of_int pos; r_dir = d; r_tv = t; r_mo = m; r_cda = c }
let read_rule () =
  let _ = next () in (* "R" *)
  let id = next_bits () in
  let nat = nature_of (next ()) in
  let n = next_int () in
  { rule_id = id; rule_nature = nat; rule_fds = repeat_read n read_rfd }
let read_rules () = let n = next_int () in repeat_read n read_rule
let read_field () =
  let id = read_fid () in let pos = next_int () in let v = next_bits () in
  { f_id = id; f_val = v; f_pos = z_of_int pos }
let read_pdesc () =
  let _ = next () in (* "P" *)
  let d = dir_of (next ()) in
  let n = next_int () in
  let fs = repeat_read n read_field in
  let pl = next_bits () in
  { pd_dir = d; pd_fields = fs; pd_payload = pl }
let read_fields () =   (* decompressed field list: n (proto idx bits)* *)
  let n = next_int () in
  repeat_read n (fun () -> let id = read_fid () in let v = next_bits () in (id, v))

let rec index_of x l i = match l with [] -> -1 | y :: r -> if y == x then i else index_of x r (i + 1)
let rec show_gen rules g = match g with
  | GDone -> []
  | GYield (r, rest) -> string_of_int (index_of r rules 0) :: show_gen rules rest
  | GRaise e -> ["!" ^ exn_name e]

let run_schc op =
  match op with
  | "compress" -> let pd = read_pdesc () in let r = read_rule () in let d = read_dir_opt () in
    show string_of_bits (compress pd r d)
  | "decompress" -> let s = next_bits () in let r = read_rule () in let d = read_dir_opt () in
    show string_of_bits (decompress compute_functions s r d)
  | "match" -> let pd = read_pdesc () in let rules = read_rules () in
    "OK " ^ String.concat "," (show_gen rules (match_packet_descriptor rules pd))
  | "matchschc" -> let s = next_bits () in let rules = read_rules () in
    show (fun r -> string_of_int (index_of r rules 0)) (match_schc_packet rules s)
  | "cmcompress" ->   (* pre-parsed packet: the parser is the constant function returning the given fields *)
    let pd = read_pdesc () in let st = (match next () with "F" -> FIRST | _ -> BEST) in let rules = read_rules () in
    show string_of_bits (cm_compress (fun _ -> Ok (pd.pd_fields, pd.pd_payload)) rules [] pd.pd_dir st)
  | "cmdecompress" -> let s = next_bits () in let d = read_dir_opt () in let rules = read_rules () in
    show string_of_bits (cm_decompress compute_functions rules s d)
  | "encodelength" -> let n = next_int () in show string_of_bits (encode_length (z_of_int n))
  | "decodevar" -> let s = next_bits () in let (r, c) = decode_var s in "OK " ^ string_of_bits r ^ " " ^ string_of_int (int_of_z c)
  | "compute" -> let which = next () in let fs = read_fields () in let pos = next_int () in
    let f = (match which with "ipv6len" -> ipv6_payload_length | "ipv4len" -> ipv4_total_length | "ipv4csum" -> ipv4_checksum
                            | "udplen" -> udp_length | "udpcsum" -> udp_checksum | _ -> sctp_checksum) in
    show string_of_bits (f fs (z_of_int pos))
  | "schc" ->   (* front end: contexts given as pre-parsed outcomes: per context either a pdesc or a parser error *)
    let what = next () in
    let packet = next_bits () in
    let n = next_int () in
    let ctxs = repeat_read n (fun () ->
      let parsed = (match next () with
                    | "ok" -> let pd = read_pdesc () in Ok (pd.pd_fields, pd.pd_payload)
                    | _ -> Exc ParserError) in
      let rules = read_rules () in
      { ctx_parse = (fun _ -> parsed); ctx_rules = rules }) in
    if what = "compress" then show string_of_bits (schc_compress ctxs packet)
    else show string_of_bits (schc_decompress compute_functions ctxs packet)
  | "parse" ->    (* stack id, packet bits -> fields and payload *)
    let name = next () in
    let parser = (match name with
                  | "CoAP-semantic" -> packet_parse [parse_coap_semantic]
                  | _ -> factory (match name with "IPv6-UDP-CoAP" -> IPv6_UDP_CoAP | "IPv4-UDP-CoAP" -> IPv4_UDP_CoAP | "IPv4" -> S_IPv4
                                  | "IPv6" -> S_IPv6 | "UDP" -> S_UDP | "CoAP" -> S_CoAP | _ -> S_SCTP)) in
    let b = next_bits () in
    show (fun (fs, pl) ->
            String.concat " " (List.map (fun f -> Printf.sprintf "%s%d/%d/%s" (string_of_proto f.f_id.fproto) (int_of_z f.f_id.fidx) (int_of_z f.f_pos) (string_of_bits f.f_val)) fs)
            ^ " | " ^ string_of_bits pl)
      (parser b)
  | "parsesem" ->
    let b = next_bits () in
    show (fun (fs, n) ->
            String.concat " " (List.map (fun f -> Printf.sprintf "%s%d/%d/%s" (string_of_proto f.f_id.fproto) (int_of_z f.f_id.fidx) (int_of_z f.f_pos) (string_of_bits f.f_val)) fs)
            ^ " | " ^ string_of_int (int_of_z n))
      (parse_coap_semantic b)
  | "unparse" ->
    let fs = read_fields () in
    show (fun l -> String.concat " " (List.map (fun (f, v) -> Printf.sprintf "%s%d/%s" (string_of_proto f.fproto) (int_of_z f.fidx) (string_of_bits v)) l))
      (coap_unparse fs)
  | "cmcompressp" ->   (* full manager path with the model parser *)
    let st = (match next () with "IPv6-UDP-CoAP" -> IPv6_UDP_CoAP | "IPv4-UDP-CoAP" -> IPv4_UDP_CoAP | "IPv4" -> S_IPv4
              | "IPv6" -> S_IPv6 | "UDP" -> S_UDP | "CoAP" -> S_CoAP | _ -> S_SCTP) in
    let b = next_bits () in let d = dir_of (next ()) in
    let strat = (match next () with "F" -> FIRST | _ -> BEST) in let rules = read_rules () in
    show string_of_bits (cm_compress (factory st) rules b d strat)
  | _ -> "BADOP " ^ op


(* ---- JSON layer ------------------------------------------------------------------------------- *)
let key_name = function
  | K_content -> "content" | K_length -> "length" | K_padding -> "padding" | K_index -> "index" | K_value -> "value" | K_id -> "id"
  | K_position -> "position" | K_fields -> "fields" | K_direction -> "direction" | K_payload -> "payload" | K_raw -> "raw"
  | K_target_value -> "target_value" | K_matching_operator -> "matching_operator" | K_cda -> "compression_decompression_action"
  | K_nature -> "nature" | K_field_descriptors -> "field_descriptors" | K_description -> "description"
  | K_interface_id -> "interface_id" | K_parser_id -> "parser_id" | K_ruleset -> "ruleset"
let rec show_json = function
  | JHex bs -> "\"" ^ (if bs = [] then "" else hex_of_bytes bs) ^ "\""
  | JNum n -> string_of_int (int_of_z n)
  | JSide LEFT -> "\"left\"" | JSide RIGHT -> "\"right\""
  | JDir Up -> "\"Up\"" | JDir Dw -> "\"Dw\"" | JDir Bi -> "\"Bi\""
  | JMo MO_equal -> "\"equal\"" | JMo MO_ignore -> "\"ignore\"" | JMo MO_msb -> "\"MSB\"" | JMo MO_mapping -> "\"match-mapping\""
  | JCda NotSent -> "\"not-sent\"" | JCda LSB -> "\"least-significant-bits\"" | JCda MappingSent -> "\"mapping-sent\""
  | JCda ValueSent -> "\"value-sent\"" | JCda Compute -> "\"compute\""
  | JNature Compression -> "\"compression\"" | JNature NoCompression -> "\"no-compression\""
  | JNature Fragmentation -> "\"fragmentation\""
  | JFid f -> "\"f" ^ string_of_proto f.fproto ^ string_of_int (int_of_z f.fidx) ^ "\""
  | JText t -> "\"t" ^ string_of_int (int_of_z t) ^ "\""
  | JList l -> "[" ^ String.concat "," (List.map show_json l) ^ "]"
  | JObj l -> "{" ^ String.concat "," (List.map (fun (k, v) -> key_name k ^ ":" ^ show_json v) l) ^ "}"

let next_buf () = buf_of_string (next ())
let read_jtv () =
  match next () with
  | "b" -> JTVbuf (next_buf ())
  | _ -> let k = next_int () in JTVmap (repeat_read k (fun () -> let v = next_buf () in let i = next_buf () in (v, i)))
let read_jrfd () =
  let id = read_fid () in
  let len = next_int () in
  let pos = next_int () in
  let d = dir_of (next ()) in
  let m = (match next () with "e" -> MO_equal | "i" -> MO_ignore | "m" -> MO_msb | _ -> MO_mapping) in
  let c = (match next () with "n" -> NotSent | "l" -> LSB | "m" -> MappingSent | "v" -> ValueSent | _ -> Compute) in
  let t = read_jtv () in
  { j_id = id; j_len = z_of_int len; j_pos = z_of_int pos; j_dir = d; j_tv = t; j_mo = m; j_cda = c }
let read_jrule () =
  let _ = next () in
  let id = next_buf () in
  let nat = nature_of (next ()) in
  let n = next_int () in
  { jr_id = id; jr_nature = nat; jr_fds = repeat_read n read_jrfd }
let read_jcontext () =
  let a = next_int () in let b = next_int () in let c = next_int () in let d = next_int () in
  let n = next_int () in
  { jc_id = z_of_int a; jc_description = z_of_int b; jc_interface = z_of_int c; jc_parser = z_of_int d; jc_rules = repeat_read n read_jrule }
let read_jfield () = let id = read_fid () in let pos = next_int () in let v = next_buf () in { jf_id = id; jf_val = v; jf_pos = z_of_int pos }
let read_jpdesc () =
  let d = dir_of (next ()) in
  let n = next_int () in
  let fs = repeat_read n read_jfield in
  let pl = next_buf () in let raw = next_buf () in
  { jp_dir = d; jp_fields = fs; jp_payload = pl; jp_raw = raw }

(* result: <json text> <reloaded == original: 1/0> <re-serialisation identical: 1/0> *)
let rt to_json from_json x =
  match to_json x with
  | Ok j -> (match from_json j with
             | Ok x' -> "OK " ^ show_json j ^ " " ^ (if x' = x then "1" else "0") ^ " " ^ (match to_json x' with Ok j' -> if j' = j then "1" else "0" | _ -> "0")
             | Exc e -> "OK " ^ show_json j ^ " LOADEXC:" ^ exn_name e ^ " 0"
             | Diverge -> "DIVERGE")
  | Exc e -> "EXC " ^ exn_name e
  | Diverge -> "DIVERGE"

(* ---- layer Y: SCHC core and parsers over byte-level Buffers (SchcBytes.v, ParserBytes.v) ------------- *)
let next_buf () = buf_of_string (next ())
let read_btv () =
  match next () with
  | "b" -> BTVbuf (next_buf ())
  | _ -> let k = next_int () in BTVmap (repeat_read k (fun () -> let v = next_buf () in let i = next_buf () in (v, i)))
let read_brfd () =
  let id = read_fid () in
  let len = next_int () in
  let pos = next_int () in
  let d = dir_of (next ()) in
  let m = (match next () with "e" -> MO_equal | "i" -> MO_ignore | "m" -> MO_msb | _ -> MO_mapping) in
  let c = (match next () with "n" -> NotSent | "l" -> LSB | "m" -> MappingSent | "v" -> ValueSent | _ -> Compute) in
  let t = read_btv () in
  { br_id = id; br_len = z_of_int len; br_pos = z_of_int pos; br_dir = d; br_tv = t; br_mo = m; br_cda = c }
let read_brule () =
  let _ = next () in
  let id = next_buf () in
  let nat = nature_of (next ()) in
  let n = next_int () in
  { brule_id = id; brule_nature = nat; brule_fds = repeat_read n read_brfd }
let read_bpdesc () =
  let _ = next () in
  let d = dir_of (next ()) in
  let n = next_int () in
  let fs = repeat_read n (fun () -> let id = read_fid () in let pos = next_int () in let v = next_buf () in { bf_id = id; bf_val = v; bf_pos = z_of_int pos }) in
  let pl = next_buf () in
  { bpd_dir = d; bpd_fields = fs; bpd_payload = pl }
let stack_of = function "IPv6-UDP-CoAP" -> IPv6_UDP_CoAP | "IPv4-UDP-CoAP" -> IPv4_UDP_CoAP | "IPv4" -> S_IPv4
                        | "IPv6" -> S_IPv6 | "UDP" -> S_UDP | "CoAP" -> S_CoAP | _ -> S_SCTP
let run_bytes op =
  match op with
  | "bcompress" -> let pd = read_bpdesc () in let r = read_brule () in let d = read_dir_opt () in
    show string_of_buf (bcompress pd r d)
  | "bdecompress" -> let s = next_buf () in let r = read_brule () in let d = read_dir_opt () in
    show string_of_buf (bdecompress_c s r d)      (* byte-level decompress including the compute stage (ComputeBytes.v) *)
  | "bparse" -> let st = stack_of (next ()) in let b = next_buf () in
    show (fun (fs, pl) ->
            String.concat " " (List.map (fun f -> Printf.sprintf "%s%d/%d/%s" (string_of_proto f.bf_id.fproto) (int_of_z f.bf_id.fidx) (int_of_z f.bf_pos) (string_of_buf f.bf_val)) fs)
            ^ " | " ^ string_of_buf pl)
      (bfactory st b)
  | "bcmcompress" ->   (* stack, packet buffer, direction, strategy, rules: ContextManager.compress on byte-level Buffers *)
    let st = stack_of (next ()) in let b = next_buf () in let d = dir_of (next ()) in
    let strat = (match next () with "F" -> FIRST | _ -> BEST) in
    let n = next_int () in let rules = repeat_read n read_brule in
    show string_of_buf (bcm_compress (bfactory st) rules b d strat)
  | "bcmdecompress" -> let s = next_buf () in let d = read_dir_opt () in
    let n = next_int () in let rules = repeat_read n read_brule in
    show string_of_buf (bcm_decompress rules s d)
  | "bmatch" -> let pd = read_bpdesc () in let n = next_int () in let rules = repeat_read n read_brule in
    "OK " ^ String.concat "," (show_gen rules (bmatch_packet_descriptor rules pd))
  | "bparsesem" -> let b = next_buf () in     (* semantic CoAP header parser on a byte-level Buffer *)
    show (fun (fs, n) ->
            String.concat " " (List.map (fun f -> Printf.sprintf "%s%d/%d/%s" (string_of_proto f.bf_id.fproto) (int_of_z f.bf_id.fidx) (int_of_z f.bf_pos) (string_of_buf f.bf_val)) fs)
            ^ " | " ^ string_of_int (int_of_z n))
      (bparse_coap_semantic b)
  | "bunparse" -> let n = next_int () in
    let fl = repeat_read n (fun () -> let id = read_fid () in let v = next_buf () in (id, v)) in
    show (fun l -> String.concat " " (List.map (fun (i, v) -> Printf.sprintf "%s%d/%s" (string_of_proto i.fproto) (int_of_z i.fidx) (string_of_buf v)) l)) (bcoap_unparse fl)
  | "bmatchschc" -> let s = next_buf () in let n = next_int () in let rules = repeat_read n read_brule in
    show (function None -> "-1" | Some r -> string_of_int (index_of r rules 0)) (bmatch_schc_loop rules s)
  | _ -> "BADOP " ^ op

(* ---- layer H: programs of Buffer operations on a heap of mutable objects (BufferHeap.v) -------------------
   input : H prog <k> <k buffer literals> <n> <n operations>
   Operands are HANDLES: indices into the list of objects the caller holds -- the k initial ones, then every object a call
   returned that the caller did not hold yet, in order (temporaries of the model's heap have no handle).
   output: one group per step, separated by " ; ":  <outcome> @ <state of every object the caller holds after the step>
           outcome = R<handle> | L<handle,handle,..> | I<hex> | B<0/1> | Y<hex bytes> | E<exception> | DIVERGE
           (a handle equal to the number of handles before the step, or above, designates a new object) *)
let run_heap op =
  match op with
  | "prog" ->
    let k = next_int () in
    let h0 = repeat_read k next_buf in
    let n = next_int () in
    let known = ref (List.init k (fun i -> nat_of_int i)) in       (* handle -> model reference *)
    let heap = ref h0 in
    let r () = let i = next_int () in if i < List.length !known then List.nth !known i else nat_of_int (List.length !heap + 7) in   (* a handle the model has not handed out: a dangling reference (Unmodelled) *)
    let oz () = opt_z (next ()) in
    let handle x =
      let rec find i = function [] -> (known := !known @ [x]; i) | y :: t -> if y = x then i else find (i + 1) t in
      find 0 !known in
    let groups = repeat_read n (fun () ->
      let o = match next () with
      | "new" -> let c = bytes_of_hex (next ()) in let l = zi (next ()) in let sd = side_of_string (next ()) in HNew (c, l, sd)
      | "copy" -> HCopy (r ())
      | "shift" -> let x = r () in let s = zi (next ()) in let ip = bool_of (next ()) in HShift (x, s, ip)
      | "pad" -> let x = r () in let sd = side_of_string (next ()) in let ip = bool_of (next ()) in HPad (x, sd, ip)
      | "value" -> HValue (r ())
      | "getitem" -> let x = r () in let s = oz () in let e = oz () in HGetitem (x, s, e)
      | "getint" -> let x = r () in let i = zi (next ()) in HGetint (x, i)
      | "add" -> let a = r () in let b = r () in HAdd (a, b)
      | "and" -> let a = r () in let b = r () in HAnd (a, b)
      | "or" -> let a = r () in let b = r () in HOr (a, b)
      | "xor" -> let a = r () in let b = r () in HXor (a, b)
      | "invert" -> HInvert (r ())
      | "setitem" -> let x = r () in let s = oz () in let e = oz () in let v = r () in HSetitem (x, s, e, v)
      | "setint" -> let x = r () in let i = zi (next ()) in let v = r () in HSetint (x, i, v)
      | "chunks" -> let x = r () in let n = zi (next ()) in let p = bool_of (next ()) in HChunks (x, n, p)
      | "eq" -> let a = r () in let b = r () in HEq (a, b)
      | "hash" -> HHash (r ())
      | "iter" -> HIter (r ())
      | "len" -> HLen (r ())
      | s -> failwith ("hop " ^ s) in
      let (out, h') = hstep o !heap in
      heap := h';
      let shown = match out with
        | Ok (ORef x) -> "R" ^ string_of_int (handle x)
        | Ok (ORefs l) -> "L" ^ String.concat "," (List.map (fun x -> string_of_int (handle x)) l)
        | Ok (OInt z) -> "I" ^ hex_of_z z
        | Ok (OBool b) -> "B" ^ string_of_bool01 b
        | Ok (OBytes l) -> "Y" ^ hex_of_bytes l
        | Exc e -> "E" ^ exn_name e
        | Diverge -> "DIVERGE" in
      shown ^ " @ " ^ String.concat " " (List.map (fun x -> string_of_buf (List.nth h' (int_of_nat x))) !known)) in
    "OK " ^ String.concat " ; " groups
  | _ -> "BADOP " ^ op

let run_json op =
  match op with
  | "buffer" -> rt (fun b -> Ok (buf_to_json b)) buf_from_json (next_buf ())
  | "mapping" -> let k = next_int () in
    let fw = repeat_read k (fun () -> let v = next_buf () in let i = next_buf () in (v, i)) in
    rt mm_to_json mm_from_json fw
  | "rfd" -> rt rfd_to_json rfd_from_json (read_jrfd ())
  | "rule" -> rt rule_to_json rule_from_json (read_jrule ())
  | "context" -> rt context_to_json context_from_json (read_jcontext ())
  | "pdesc" -> rt (fun p -> Ok (pdesc_to_json p)) pdesc_from_json (read_jpdesc ())
  | "field" -> rt (fun f -> Ok (field_to_json f)) field_from_json (read_jfield ())
  | "header" -> let t = next_int () in let len = next_int () in let n = next_int () in
    rt (fun h -> Ok (header_to_json h)) header_from_json { jh_id = z_of_int t; jh_length = z_of_int len; jh_fields = repeat_read n read_jfield }
  | _ -> "BADOP " ^ op

let () =
  try
    while true do
      let line = input_line stdin in
      let ltoks = List.filter (fun s -> s <> "") (String.split_on_char ' ' line) in
      let out =
        match ltoks with
        | [] -> "EMPTY"
        | "B" :: op :: args -> (try run_buffer op args with Failure m -> "FAIL " ^ m | Stack_overflow -> "FAIL stack")
        | "S" :: op :: args -> (toks := Array.of_list args; cur := 0;
                                try run_schc op with Failure m -> "FAIL " ^ m | Stack_overflow -> "FAIL stack" | Invalid_argument m -> "FAIL " ^ m)
        | "H" :: op :: args -> (toks := Array.of_list args; cur := 0;
                                try run_heap op with Failure m -> "FAIL " ^ m | Stack_overflow -> "FAIL stack" | Invalid_argument m -> "FAIL " ^ m)
        | "Y" :: op :: args -> (toks := Array.of_list args; cur := 0;
                                try run_bytes op with Failure m -> "FAIL " ^ m | Stack_overflow -> "FAIL stack" | Invalid_argument m -> "FAIL " ^ m)
        | "J" :: op :: args -> (toks := Array.of_list args; cur := 0;
                                try run_json op with Failure m -> "FAIL " ^ m | Invalid_argument m -> "FAIL " ^ m)
        | op :: _ -> "BADLAYER " ^ op in
      print_string out; print_newline ()
    done
  with End_of_file -> ()
