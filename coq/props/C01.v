(* C01 -- Compress then decompress returns the original packet, bit for bit.
   Model: Schc.compress / decompress / match_packet_descriptor / cm_compress / cm_decompress, with
   Parsers.factory as parser and Compute.compute_functions as compute table.
   rule_ok_dec is the domain of the property: every selected descriptor is one of the lossless
   pairings (equal/not-sent, ignore/value-sent, MSB/LSB, match-mapping/mapping-sent, ignore/compute),
   its length is 0 (variable) or the field's length, field sizes are below 65536 bits, mappings have
   distinct values and prefix-free indices, target values have the type their action expects.
   Only statements; proofs in theories/SchcRoundtrip.v (built on SchcCodec, SchcRules, ParserTiling). *)
From Coq Require Import ZArith List Bool.
From MS Require Import PyBase Bits Schc SchcSpec SchcCodec SchcRules SchcRoundtrip Parsers ParserTiling Compute.
Import ListNotations.
Open Scope Z_scope.

(* a rule that applies to the packet and is lossless by construction: compress succeeds, and decompressing its output
   with the same rule gives back the fields and the payload (rules without compute fields) *)
Theorem c01_roundtrip_plain ct d pd r : pd_dir pd = d -> rule_ok_dec ct d pd r -> spec_rule_applies pd r = true ->
  forallb (fun rf => match r_cda rf with Compute => false | _ => true end) (select_fds (Some d) (rule_fds r)) = true ->
  exists s, compress pd r (Some d) = Ok s /\
            decompress ct s r (Some d) = Ok (concat (map f_val (pd_fields pd)) ++ pd_payload pd).
Proof. exact (c01_roundtrip_nocompute ct d pd r). Qed.
(* with compute fields: provided the compute stage regenerates the values the packet carried (which is what C09
   establishes for packets whose lengths and checksums are correct) *)
Theorem c01_roundtrip_compute ct d pd r : pd_dir pd = d -> rule_ok_dec ct d pd r -> spec_rule_applies pd r = true ->
  let rfs := select_fds (Some d) (rule_fds r) in
  let ids := map r_id rfs in
  ce_sorted (centries_of ct 0 rfs) = true ->
  run_computes (centries_of ct 0 rfs) (combine ids (map2 pre_value rfs (pd_fields pd)) ++ [(payload_fid, pd_payload pd)])
    = Ok (combine ids (map f_val (pd_fields pd)) ++ [(payload_fid, pd_payload pd)]) ->
  exists s, compress pd r (Some d) = Ok s /\
            decompress ct s r (Some d) = Ok (concat (map f_val (pd_fields pd)) ++ pd_payload pd).
Proof. exact (c01_roundtrip ct d pd r). Qed.
Theorem c01_no_compression ct d pd r : rule_nature r = NoCompression -> rule_fds r = [] ->
  exists s, compress pd r (Some d) = Ok s /\ decompress ct s r (Some d) = Ok (concat (map f_val (pd_fields pd)) ++ pd_payload pd).
Proof. exact (c01_roundtrip_nocompression ct d pd r). Qed.
(* through a context manager: rule chosen with either strategy, found again from its id (prefix-free ids) *)
Theorem c01_manager ct parse rules packet d st fs pl :
  parse packet = Ok (fs, pl) -> concat (map f_val fs) ++ pl = packet ->
  prefix_free rules -> forallb rule_typed rules = true ->
  (forall r, In r rules -> spec_rule_applies (mkpdesc d fs pl) r = true ->
     (rule_nature r = NoCompression /\ rule_fds r = []) \/
     (rule_ok_dec ct d (mkpdesc d fs pl) r /\
      let rfs := select_fds (Some d) (rule_fds r) in
      ce_sorted (centries_of ct 0 rfs) = true /\
      run_computes (centries_of ct 0 rfs) (combine (map r_id rfs) (map2 pre_value rfs fs) ++ [(payload_fid, pl)])
        = Ok (combine (map r_id rfs) (map f_val fs) ++ [(payload_fid, pl)]))) ->
  forall s, cm_compress parse rules packet d st = Ok s -> cm_decompress ct rules s (Some d) = Ok packet.
Proof. exact (c01_manager_rules ct parse rules packet d st fs pl). Qed.
(* the tiling premise is discharged by C07 for every parser configuration of the registry *)
Theorem c01_stack_tiles s b fs pl : factory s b = Ok (fs, pl) -> concat (map f_val fs) ++ pl = b.
Proof. exact (packet_tiles s b fs pl). Qed.
(* and the matcher offers exactly the applying rules (C04), in order *)
Theorem c01_matcher rules pd : forallb rule_typed rules = true ->
  match_packet_descriptor rules pd = gen_of_list (filter (spec_rule_applies pd) rules).
Proof. exact (match_packet_descriptor_spec rules pd). Qed.

(* non-vacuity: a UDP packet, a rule using four of the pairings, round trip through the manager *)
Example c01_ex :
  let pkt := bits_of 16 4660 ++ bits_of 16 7 ++ bits_of 16 12 ++ bits_of 16 0 ++ bits_of 32 1090519041 in
  let r := mkrule [true;false] Compression
    [mkrfd (mkfid P_UDP 0) 16 0 Bi (TVbuf (bits_of 8 18)) MO_msb LSB;
     mkrfd (mkfid P_UDP 1) 16 0 Bi (TVmap [(bits_of 16 9, [false]); (bits_of 16 7, [true])]) MO_mapping MappingSent;
     mkrfd (mkfid P_UDP 2) 16 0 Bi (TVbuf (bits_of 16 12)) MO_equal NotSent;
     mkrfd (mkfid P_UDP 3) 0 0 Bi (TVbuf []) MO_ignore ValueSent] in
  match cm_compress (factory S_UDP) [r] pkt Up FIRST with
  | Ok s => zlen s <? zlen pkt
  | _ => false
  end = true /\
  (do s <- cm_compress (factory S_UDP) [r] pkt Up FIRST ;; cm_decompress compute_functions [r] s (Some Up)) = Ok pkt.
Proof. vm_compute. split; reflexivity. Qed.

Print Assumptions c01_roundtrip_plain.
Print Assumptions c01_roundtrip_compute.
Print Assumptions c01_no_compression.
Print Assumptions c01_manager.
Print Assumptions c01_stack_tiles.
Print Assumptions c01_matcher.
