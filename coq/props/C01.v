(* C01 -- Compress then decompress returns the original packet, bit for bit.
   Model: Schc.compress / decompress / match_packet_descriptor / cm_compress / cm_decompress, with
   Parsers.factory as parser and Compute.compute_functions as compute table.
   rule_ok_dec is the domain of the property: every selected descriptor is one of the lossless
   pairings (equal/not-sent, ignore/value-sent, MSB/LSB, match-mapping/mapping-sent, ignore/compute),
   its length is 0 (variable) or the field's length, field sizes are below 65536 bits, mappings have
   distinct values and prefix-free indices, target values have the type their action expects.
   Only statements; proofs in theories/SchcRoundtrip.v (built on SchcCodec, SchcRules, ParserTiling). *)
From Coq Require Import ZArith List Bool.
From MS Require Import PyBase Bits Schc SchcSpec SchcCodec SchcRules SchcRoundtrip Parsers ParserTiling Compute RfcChecksum StackRoundtrip Buffer BufferAbs SchcBytes SchcRefine ParserBytes ParserRefine EndToEnd ComputeBytes ComputeRefine ManagerBytes ManagerRefine StackRoundtripSctp.
Import ListNotations.
Open Scope Z_scope.

(* a rule that applies to the packet and is lossless by construction: compress succeeds, and decompressing its output
   with the same rule gives back the fields and the payload (rules without compute fields) *)
Theorem c01_roundtrip_plain ct d pd r : pd_dir pd = d -> rule_ok_dec ct d pd r -> spec_rule_applies pd r = true ->
  forallb (fun rf => match r_cda rf with Compute => false | _ => true end) (select_fds (Some d) (rule_fds r)) = true ->
  exists s, compress pd r (Some d) = Ok s /\
            decompress ct s r (Some d) = Ok (concat (map f_val (pd_fields pd)) ++ pd_payload pd).
Proof. exact (c01_roundtrip_nocompute ct d pd r). Qed.
(* with compute fields: provided the compute stage, run in the order list.sort puts the compute entries in, regenerates
   the values the packet carried (which is what C09 establishes for packets whose lengths and checksums are correct) *)
Theorem c01_roundtrip_compute_sort ct d pd r ces : pd_dir pd = d -> rule_ok_dec ct d pd r -> spec_rule_applies pd r = true ->
  let rfs := select_fds (Some d) (rule_fds r) in
  let ids := map r_id rfs in
  py_sort_ces (centries_of ct 0 rfs) = Some ces ->
  run_computes ces (combine ids (map2 pre_value rfs (pd_fields pd)) ++ [(payload_fid, pd_payload pd)])
    = Ok (combine ids (map f_val (pd_fields pd)) ++ [(payload_fid, pd_payload pd)]) ->
  exists s, compress pd r (Some d) = Ok s /\
            decompress ct s r (Some d) = Ok (concat (map f_val (pd_fields pd)) ++ pd_payload pd).
Proof. exact (c01_roundtrip_sort ct d pd r ces). Qed.
(* entries already in the order of the comparison, fewer than 64 of them: the compute stage runs in rule order *)
Theorem c01_roundtrip_compute ct d pd r : pd_dir pd = d -> rule_ok_dec ct d pd r -> spec_rule_applies pd r = true ->
  let rfs := select_fds (Some d) (rule_fds r) in
  let ids := map r_id rfs in
  ce_sorted (centries_of ct 0 rfs) = true ->
  (length (centries_of ct 0 rfs) < 64)%nat ->
  run_computes (centries_of ct 0 rfs) (combine ids (map2 pre_value rfs (pd_fields pd)) ++ [(payload_fid, pd_payload pd)])
    = Ok (combine ids (map f_val (pd_fields pd)) ++ [(payload_fid, pd_payload pd)]) ->
  exists s, compress pd r (Some d) = Ok s /\
            decompress ct s r (Some d) = Ok (concat (map f_val (pd_fields pd)) ++ pd_payload pd).
Proof. exact (c01_roundtrip ct d pd r). Qed.
Theorem c01_no_compression ct d pd r : rule_nature r = NoCompression -> rule_fds r = [] ->
  exists s, compress pd r (Some d) = Ok s /\ decompress ct s r (Some d) = Ok (concat (map f_val (pd_fields pd)) ++ pd_payload pd).
Proof. exact (c01_roundtrip_nocompression ct d pd r). Qed.
(* through a context manager: rule chosen with either strategy, found again from its id (prefix-free ids) *)
Theorem c01_manager ct parse rules packet d st fs pl :
  parse packet = Ok (fs, pl) -> concat (map f_val fs) ++ pl = packet ->
  prefix_free rules -> forallb rule_typed rules = true ->
  (forall r, In r rules -> spec_rule_applies (mkpdesc d fs pl) r = true ->
     (rule_nature r = NoCompression /\ rule_fds r = []) \/
     (rule_ok_dec ct d (mkpdesc d fs pl) r /\
      let rfs := select_fds (Some d) (rule_fds r) in
      ce_sorted (centries_of ct 0 rfs) = true /\ (length (centries_of ct 0 rfs) < 64)%nat /\
      run_computes (centries_of ct 0 rfs) (combine (map r_id rfs) (map2 pre_value rfs fs) ++ [(payload_fid, pl)])
        = Ok (combine (map r_id rfs) (map f_val fs) ++ [(payload_fid, pl)]))) ->
  forall s, cm_compress parse rules packet d st = Ok s -> cm_decompress ct rules s (Some d) = Ok packet.
Proof. exact (c01_manager_rules ct parse rules packet d st fs pl). Qed.
(* the tiling premise is discharged by C07 for every parser configuration of the registry *)
Theorem c01_stack_tiles s b fs pl : factory s b = Ok (fs, pl) -> concat (map f_val fs) ++ pl = b.
Proof. exact (packet_tiles s b fs pl). Qed.
(* and the matcher offers exactly the applying rules (C04), in order *)
Theorem c01_matcher rules pd : forallb rule_typed rules = true ->
  match_packet_descriptor rules pd = gen_of_list (filter (spec_rule_applies pd) rules).
Proof. exact (match_packet_descriptor_spec rules pd). Qed.

(* the premise of c01_roundtrip_compute (the compute functions restore the computed fields) discharged for the two
   IP/UDP stacks: the packet's computable fields carry the values RFC 8200 / RFC 791 / RFC 768 define (v6_correct, v4_correct,
   stated with the independent checksum specification RfcChecksum), the rule may mark ANY subset of them as compute,
   any fields may follow the UDP header (CoAP) *)
Theorem c01_stack_ipv6_udp d pd r :
  pd_dir pd = d -> rule_ok_dec compute_functions d pd r -> spec_rule_applies pd r = true ->
  v6_shape (pd_fields pd) -> v6_correct (pd_fields pd) (pd_payload pd) ->
  exists s, compress pd r (Some d) = Ok s /\
            decompress compute_functions s r (Some d) = Ok (concat (map f_val (pd_fields pd)) ++ pd_payload pd).
Proof. exact (c01_roundtrip_ipv6_udp d pd r). Qed.
Theorem c01_stack_ipv4_udp d pd r :
  pd_dir pd = d -> rule_ok_dec compute_functions d pd r -> spec_rule_applies pd r = true ->
  v4_shape (pd_fields pd) -> v4_correct (pd_fields pd) (pd_payload pd) ->
  exists s, compress pd r (Some d) = Ok s /\
            decompress compute_functions s r (Some d) = Ok (concat (map f_val (pd_fields pd)) ++ pd_payload pd).
Proof. exact (c01_roundtrip_ipv4_udp d pd r). Qed.
(* non-vacuity of the two: concrete packets with rules computing lengths and checksums *)
Example c01_stack_ex6 : v6_shape ex6_fields /\ v6_correct ex6_fields ex6_pl.
Proof. exact (conj ex6_shape ex6_correct). Qed.
Example c01_stack_ex4 : v4_shape ex4_fields /\ v4_correct ex4_fields ex4_pl.
Proof. exact (conj ex4_shape ex4_correct). Qed.

(* END TO END AT THE BYTE LEVEL: from the raw packet bytes (a canonical left-padded Buffer, as the constructor builds it),
   through the byte-level parsers (ParserBytes.v), byte-level compress and decompress (SchcBytes.v, every Buffer operation as
   buffer.py performs it): the decompressed Buffer is canonical, has the bits of the packet and compares equal (__eq__) to it.
   Rules without compute actions (the byte-level decompress model stops at compute; see c01_stack_* for compute at bit level). *)
Theorem c01_bytes_roundtrip ct s b bfs bpl r d :
  canon b -> bside b = LEFT -> canon_rule r -> bfactory s b = Ok (bfs, bpl) ->
  let pd := abs_pdesc abs (mkbpdesc d bfs bpl) in
  let r' := abs_rule abs r in
  rule_ok_dec ct d pd r' -> spec_rule_applies pd r' = true ->
  forallb (fun rf => match r_cda rf with Compute => false | _ => true end) (select_fds (Some d) (rule_fds r')) = true ->
  exists x y, bcompress (mkbpdesc d bfs bpl) r (Some d) = Ok x /\ canon x /\
              bdecompress x r (Some d) = Ok y /\ canon y /\ abs y = abs b /\ b_eq y b = Ok true.
Proof. exact (bytes_roundtrip_plain ct s b bfs bpl r d). Qed.
Theorem c01_bytes_no_compression s b bfs bpl r d :
  canon b -> bside b = LEFT -> canon_rule r -> bfactory s b = Ok (bfs, bpl) ->
  brule_nature r = NoCompression -> brule_fds r = [] ->
  exists x y, bcompress (mkbpdesc d bfs bpl) r (Some d) = Ok x /\ canon x /\
              bdecompress x r (Some d) = Ok y /\ canon y /\ abs y = abs b /\ b_eq y b = Ok true.
Proof. exact (bytes_roundtrip_nocompression s b bfs bpl r d). Qed.
(* ... and with computed fields: the byte-level decompress with its compute stage (ComputeBytes.v: the compute functions written
   with chunks / value / + on Buffers, the sort of the compute entries as list.sort performs it) regenerates lengths and checksums *)
Theorem c01_bytes_ipv6_udp s b bfs bpl r d :
  canon b -> bside b = LEFT -> canon_rule r -> bfactory s b = Ok (bfs, bpl) ->
  let pd := abs_pdesc abs (mkbpdesc d bfs bpl) in
  let r' := abs_rule abs r in
  rule_ok_dec compute_functions d pd r' -> spec_rule_applies pd r' = true ->
  v6_shape (pd_fields pd) -> v6_correct (pd_fields pd) (pd_payload pd) ->
  exists x y, bcompress (mkbpdesc d bfs bpl) r (Some d) = Ok x /\ canon x /\
              bdecompress_c x r (Some d) = Ok y /\ canon y /\ abs y = abs b /\ b_eq y b = Ok true.
Proof. exact (bytes_roundtrip_ipv6_udp s b bfs bpl r d). Qed.
Theorem c01_bytes_ipv4_udp s b bfs bpl r d :
  canon b -> bside b = LEFT -> canon_rule r -> bfactory s b = Ok (bfs, bpl) ->
  let pd := abs_pdesc abs (mkbpdesc d bfs bpl) in
  let r' := abs_rule abs r in
  rule_ok_dec compute_functions d pd r' -> spec_rule_applies pd r' = true ->
  v4_shape (pd_fields pd) -> v4_correct (pd_fields pd) (pd_payload pd) ->
  exists x y, bcompress (mkbpdesc d bfs bpl) r (Some d) = Ok x /\ canon x /\
              bdecompress_c x r (Some d) = Ok y /\ canon y /\ abs y = abs b /\ b_eq y b = Ok true.
Proof. exact (bytes_roundtrip_ipv4_udp s b bfs bpl r d). Qed.
Example c01_bytes_ex : exists bfs bpl x y,
  bfactory S_UDP ex_packet = Ok (bfs, bpl) /\
  bcompress (mkbpdesc Up bfs bpl) ex_rule (Some Up) = Ok x /\ canon x /\
  bdecompress x ex_rule (Some Up) = Ok y /\ canon y /\ abs y = abs ex_packet /\ b_eq y ex_packet = Ok true.
Proof. exact bytes_roundtrip_ex. Qed.

(* non-vacuity: a UDP packet, a rule using four of the pairings, round trip through the manager *)
Example c01_ex :
  let pkt := bits_of 16 4660 ++ bits_of 16 7 ++ bits_of 16 12 ++ bits_of 16 0 ++ bits_of 32 1090519041 in
  let r := mkrule [true;false] Compression
    [mkrfd (mkfid P_UDP 0) 16 0 Bi (TVbuf (bits_of 8 18)) MO_msb LSB;
     mkrfd (mkfid P_UDP 1) 16 0 Bi (TVmap [(bits_of 16 9, [false]); (bits_of 16 7, [true])]) MO_mapping MappingSent;
     mkrfd (mkfid P_UDP 2) 16 0 Bi (TVbuf (bits_of 16 12)) MO_equal NotSent;
     mkrfd (mkfid P_UDP 3) 0 0 Bi (TVbuf []) MO_ignore ValueSent] in
  match cm_compress (factory S_UDP) [r] pkt Up FIRST with
  | Ok s => zlen s <? zlen pkt
  | _ => false
  end = true /\
  (do s <- cm_compress (factory S_UDP) [r] pkt Up FIRST ;; cm_decompress compute_functions [r] s (Some Up)) = Ok pkt.
Proof. vm_compute. split; reflexivity. Qed.

(* ... and through the byte-level context manager: parse the packet Buffer, pick a rule with either strategy, compress; find the rule
   again from the id that leads the SCHC packet, decompress with the compute stage: the packet Buffer comes back *)
Theorem c01_bytes_manager s rules b d st bfs bpl :
  canon b -> bside b = LEFT -> Forall canon_rule rules -> bfactory s b = Ok (bfs, bpl) ->
  let fs := map (abs_field abs) bfs in
  let pl := abs bpl in
  let rules' := map (abs_rule abs) rules in
  prefix_free rules' -> forallb rule_typed rules' = true ->
  (forall r, In r rules' -> spec_rule_applies (mkpdesc d fs pl) r = true ->
     (rule_nature r = NoCompression /\ rule_fds r = []) \/
     (rule_ok_dec compute_functions d (mkpdesc d fs pl) r /\
      let rfs := select_fds (Some d) (rule_fds r) in
      ce_sorted (centries_of compute_functions 0 rfs) = true /\ (length (centries_of compute_functions 0 rfs) < 64)%nat /\
      run_computes (centries_of compute_functions 0 rfs) (combine (map r_id rfs) (map2 pre_value rfs fs) ++ [(payload_fid, pl)])
        = Ok (combine (map r_id rfs) (map f_val fs) ++ [(payload_fid, pl)]))) ->
  forall x, bcm_compress (bfactory s) rules b d st = Ok x ->
  canon x /\ exists y, bcm_decompress rules x (Some d) = Ok y /\ canon y /\ abs y = abs b /\ b_eq y b = Ok true.
Proof. exact (bytes_manager_roundtrip_factory s rules b d st bfs bpl). Qed.

Print Assumptions c01_roundtrip_plain.
Print Assumptions c01_roundtrip_compute_sort.
Print Assumptions c01_roundtrip_compute.
Print Assumptions c01_no_compression.
(* the same for the stacks that carry SCTP: bare SCTP (CRC-32c checksum over the packet with the checksum field zeroed, RFC 9260),
   IPv6 / IPv4 in front of SCTP, and SCTP carried in UDP (the library designates it by UDP port 132) under IPv6 / IPv4, where the UDP
   checksum is the one over the datagram carrying the CORRECT SCTP checksum: list.sort runs the SCTP checksum first (StackRoundtripSctp.v
   proves the sorted order for every subset of computed fields).  Any subset of the computable fields may be computed. *)
Theorem c01_stack_sctp d pd r :
  pd_dir pd = d -> rule_ok_dec compute_functions d pd r -> spec_rule_applies pd r = true ->
  sctp_shape (pd_fields pd) -> sctp_correct (pd_fields pd) (pd_payload pd) ->
  exists s, compress pd r (Some d) = Ok s /\
            decompress compute_functions s r (Some d) = Ok (concat (map f_val (pd_fields pd)) ++ pd_payload pd).
Proof. exact (c01_roundtrip_sctp d pd r). Qed.
Theorem c01_stack_ipv6_sctp d pd r :
  pd_dir pd = d -> rule_ok_dec compute_functions d pd r -> spec_rule_applies pd r = true ->
  v6s_shape (pd_fields pd) -> v6s_correct (pd_fields pd) (pd_payload pd) ->
  exists s, compress pd r (Some d) = Ok s /\
            decompress compute_functions s r (Some d) = Ok (concat (map f_val (pd_fields pd)) ++ pd_payload pd).
Proof. exact (c01_roundtrip_ipv6_sctp d pd r). Qed.
Theorem c01_stack_ipv4_sctp d pd r :
  pd_dir pd = d -> rule_ok_dec compute_functions d pd r -> spec_rule_applies pd r = true ->
  v4s_shape (pd_fields pd) -> v4s_correct (pd_fields pd) (pd_payload pd) ->
  exists s, compress pd r (Some d) = Ok s /\
            decompress compute_functions s r (Some d) = Ok (concat (map f_val (pd_fields pd)) ++ pd_payload pd).
Proof. exact (c01_roundtrip_ipv4_sctp d pd r). Qed.
Theorem c01_stack_ipv6_udp_sctp d pd r :
  pd_dir pd = d -> rule_ok_dec compute_functions d pd r -> spec_rule_applies pd r = true ->
  v6us_shape (pd_fields pd) -> v6us_correct (pd_fields pd) (pd_payload pd) ->
  exists s, compress pd r (Some d) = Ok s /\
            decompress compute_functions s r (Some d) = Ok (concat (map f_val (pd_fields pd)) ++ pd_payload pd).
Proof. exact (c01_roundtrip_ipv6_udp_sctp d pd r). Qed.
Theorem c01_stack_ipv4_udp_sctp d pd r :
  pd_dir pd = d -> rule_ok_dec compute_functions d pd r -> spec_rule_applies pd r = true ->
  v4us_shape (pd_fields pd) -> v4us_correct (pd_fields pd) (pd_payload pd) ->
  exists s, compress pd r (Some d) = Ok s /\
            decompress compute_functions s r (Some d) = Ok (concat (map f_val (pd_fields pd)) ++ pd_payload pd).
Proof. exact (c01_roundtrip_ipv4_udp_sctp d pd r). Qed.
(* ... and from the raw packet Buffer through the byte-level parser, compress and decompress with its compute stage *)
Theorem c01_bytes_stack_sctp s b bfs bpl r d :
  canon b -> bside b = LEFT -> canon_rule r -> bfactory s b = Ok (bfs, bpl) ->
  let pd := abs_pdesc abs (mkbpdesc d bfs bpl) in
  let r' := abs_rule abs r in
  rule_ok_dec compute_functions d pd r' -> spec_rule_applies pd r' = true ->
  sctp_shape (pd_fields pd) -> sctp_correct (pd_fields pd) (pd_payload pd) ->
  exists x y, bcompress (mkbpdesc d bfs bpl) r (Some d) = Ok x /\ canon x /\
              bdecompress_c x r (Some d) = Ok y /\ canon y /\ abs y = abs b /\ b_eq y b = Ok true.
Proof. exact (c01_bytes_sctp s b bfs bpl r d). Qed.
Theorem c01_bytes_stack_ipv6_sctp s b bfs bpl r d :
  canon b -> bside b = LEFT -> canon_rule r -> bfactory s b = Ok (bfs, bpl) ->
  let pd := abs_pdesc abs (mkbpdesc d bfs bpl) in
  let r' := abs_rule abs r in
  rule_ok_dec compute_functions d pd r' -> spec_rule_applies pd r' = true ->
  v6s_shape (pd_fields pd) -> v6s_correct (pd_fields pd) (pd_payload pd) ->
  exists x y, bcompress (mkbpdesc d bfs bpl) r (Some d) = Ok x /\ canon x /\
              bdecompress_c x r (Some d) = Ok y /\ canon y /\ abs y = abs b /\ b_eq y b = Ok true.
Proof. exact (c01_bytes_ipv6_sctp s b bfs bpl r d). Qed.
Theorem c01_bytes_stack_ipv4_sctp s b bfs bpl r d :
  canon b -> bside b = LEFT -> canon_rule r -> bfactory s b = Ok (bfs, bpl) ->
  let pd := abs_pdesc abs (mkbpdesc d bfs bpl) in
  let r' := abs_rule abs r in
  rule_ok_dec compute_functions d pd r' -> spec_rule_applies pd r' = true ->
  v4s_shape (pd_fields pd) -> v4s_correct (pd_fields pd) (pd_payload pd) ->
  exists x y, bcompress (mkbpdesc d bfs bpl) r (Some d) = Ok x /\ canon x /\
              bdecompress_c x r (Some d) = Ok y /\ canon y /\ abs y = abs b /\ b_eq y b = Ok true.
Proof. exact (c01_bytes_ipv4_sctp s b bfs bpl r d). Qed.
Theorem c01_bytes_stack_ipv6_udp_sctp s b bfs bpl r d :
  canon b -> bside b = LEFT -> canon_rule r -> bfactory s b = Ok (bfs, bpl) ->
  let pd := abs_pdesc abs (mkbpdesc d bfs bpl) in
  let r' := abs_rule abs r in
  rule_ok_dec compute_functions d pd r' -> spec_rule_applies pd r' = true ->
  v6us_shape (pd_fields pd) -> v6us_correct (pd_fields pd) (pd_payload pd) ->
  exists x y, bcompress (mkbpdesc d bfs bpl) r (Some d) = Ok x /\ canon x /\
              bdecompress_c x r (Some d) = Ok y /\ canon y /\ abs y = abs b /\ b_eq y b = Ok true.
Proof. exact (c01_bytes_ipv6_udp_sctp s b bfs bpl r d). Qed.
Theorem c01_bytes_stack_ipv4_udp_sctp s b bfs bpl r d :
  canon b -> bside b = LEFT -> canon_rule r -> bfactory s b = Ok (bfs, bpl) ->
  let pd := abs_pdesc abs (mkbpdesc d bfs bpl) in
  let r' := abs_rule abs r in
  rule_ok_dec compute_functions d pd r' -> spec_rule_applies pd r' = true ->
  v4us_shape (pd_fields pd) -> v4us_correct (pd_fields pd) (pd_payload pd) ->
  exists x y, bcompress (mkbpdesc d bfs bpl) r (Some d) = Ok x /\ canon x /\
              bdecompress_c x r (Some d) = Ok y /\ canon y /\ abs y = abs b /\ b_eq y b = Ok true.
Proof. exact (c01_bytes_ipv4_udp_sctp s b bfs bpl r d). Qed.
(* non-vacuity: concrete packets meeting shape and correctness for each of the five stacks *)
Example c01_stack_sctp_ex : sctp_shape exs_fields /\ sctp_correct exs_fields exs_pl.
Proof. exact (conj exs_shape exs_correct). Qed.
Example c01_stack_ipv6_udp_sctp_ex : v6us_shape ex6us_fields /\ v6us_correct ex6us_fields exs_pl.
Proof. exact (conj ex6us_shape ex6us_correct). Qed.

Print Assumptions c01_stack_ipv6_udp.
Print Assumptions c01_stack_ipv4_udp.
Print Assumptions c01_bytes_roundtrip.
Print Assumptions c01_bytes_no_compression.
Print Assumptions c01_bytes_ipv6_udp.
Print Assumptions c01_bytes_ipv4_udp.
Print Assumptions c01_manager.
Print Assumptions c01_stack_tiles.
Print Assumptions c01_matcher.
Print Assumptions c01_bytes_manager.
Print Assumptions c01_stack_sctp.
Print Assumptions c01_bytes_stack_sctp.
Print Assumptions c01_stack_ipv6_sctp.
Print Assumptions c01_bytes_stack_ipv6_sctp.
Print Assumptions c01_stack_ipv4_sctp.
Print Assumptions c01_bytes_stack_ipv4_sctp.
Print Assumptions c01_stack_ipv6_udp_sctp.
Print Assumptions c01_bytes_stack_ipv6_udp_sctp.
Print Assumptions c01_stack_ipv4_udp_sctp.
Print Assumptions c01_bytes_stack_ipv4_udp_sctp.
