(* C02 -- SCHC packet layout produced by compress follows RFC 8724 section 7.
   Model: Schc.compress (compressor.py + actions/compression.py).  SchcSpec.layout is the declarative
   layout: rule id, one residue per rule field in rule order (empty for not-sent and compute, the value
   for value-sent, the bits after the MSB pattern for LSB, the mapping index for mapping-sent; value-sent
   and LSB residues of variable-length fields preceded by their size on 4/12/28 bits), then the payload.
   Only statements; proofs in theories/SchcCodec.v. *)
From Coq Require Import ZArith List Bool.
From MS Require Import PyBase Buffer Bits BufferAbs Schc SchcSpec SchcCodec SchcBytes SchcRefine EndToEnd.
Import ListNotations.
Open Scope Z_scope.

Theorem c02_layout pd r d s : layout pd r d = Some s -> compress pd r d = Ok s.
Proof. exact (compress_layout pd r d s). Qed.
Theorem c02_fields pfs rfs acc rs :
  spec_residues (map f_val pfs) rfs = Some rs -> compress_fields pfs rfs acc = Ok (acc ++ rs).
Proof. exact (compress_fields_spec pfs rfs acc rs). Qed.
(* a no-compression rule yields rule id followed by the packet (fields then payload) *)
Theorem c02_no_compression pd r d : rule_nature r = NoCompression ->
  compress pd r d = Ok (rule_id r ++ concat (map f_val (pd_fields pd)) ++ pd_payload pd).
Proof. exact (compress_no_compression pd r d). Qed.
(* a fragmentation rule is neither branch of compress: the bare rule id, without the packet (layout is None for such a rule:
   RFC 8724 section 7 has no compressed-packet layout for it; the matcher never offers it, C04) *)
Theorem c02_fragmentation pd r d : rule_nature r = Fragmentation -> compress pd r d = Ok (rule_id r).
Proof. exact (compress_fragmentation pd r d). Qed.
(* the size announcement is the RFC 8724 7.4.2 one *)
Theorem c02_size n : 0 <= n < 65536 -> encode_length n = Ok (spec_size n).
Proof. exact (encode_length_spec n). Qed.

(* composition with the byte-level Buffer model: the compressor written with the Buffer operations (SchcBytes.bcompress: b_add,
   lsb_bytes, dict_get on byte-level buffers of either padding side) returns a canonical buffer denoting exactly the RFC layout *)
Theorem c02_layout_bytes pd r d s : canon_pdesc pd -> canon_rule r ->
  layout (abs_pdesc abs pd) (abs_rule abs r) d = Some s ->
  exists x, bcompress pd r d = Ok x /\ canon x /\ abs x = s.
Proof. exact (bcompress_layout pd r d s). Qed.
Theorem c02_size_bytes n p : encode_length n = Ok p -> exists x, bencode_length n = Ok x /\ canon x /\ abs x = p.
Proof. exact (bencode_length_refines n p). Qed.
Theorem c02_fragmentation_bytes pd r d : canon (brule_id r) -> brule_nature r = Fragmentation ->
  exists x, bcompress pd r d = Ok x /\ canon x /\ abs x = abs (brule_id r).
Proof. exact (bcompress_fragmentation pd r d). Qed.

(* non-vacuity: a two-field rule (LSB variable length, mapping) on a concrete packet *)
Example c02_ex :
  let f1 := mkfield (mkfid P_Other 1) [true;false;true;true;false] 0 in
  let f2 := mkfield (mkfid P_Other 2) [false;true] 0 in
  let r := mkrule [true;true] Compression
             [mkrfd (mkfid P_Other 1) 0 0 Bi (TVbuf [true;false]) MO_msb LSB;
              mkrfd (mkfid P_Other 2) 2 0 Bi (TVmap [([true;true],[false]); ([false;true],[true;false])]) MO_mapping MappingSent] in
  layout (mkpdesc Up [f1; f2] [true]) r None = Some ([true;true] ++ ([false;false;true;true] ++ [true;true;false]) ++ [true;false] ++ [true]).
Proof. vm_compute. reflexivity. Qed.

Print Assumptions c02_layout.
Print Assumptions c02_fields.
Print Assumptions c02_no_compression.
Print Assumptions c02_fragmentation.
Print Assumptions c02_fragmentation_bytes.
Print Assumptions c02_size.
Print Assumptions c02_layout_bytes.
Print Assumptions c02_size_bytes.
