(* C03 -- Decompress rebuilds the packet from any well-formed SCHC packet.
   Model: Schc.decompress (decompressor.py).  The SCHC packet is described by the specification
   (SchcSpec.spec_residues), not by the library's compressor.  wf_field says when a (descriptor,
   value) pair is legal: lengths fixed or variable (< 65536), MSB pattern a prefix of the value,
   mapping with distinct values and prefix-free indices of any widths, compute placeholder.
   Only statements; proofs in theories/SchcCodec.v. *)
From Coq Require Import ZArith List Bool.
From MS Require Import PyBase Buffer Bits BufferAbs Schc SchcSpec SchcCodec SchcBytes SchcRefine Compute ComputeBytes ComputeRefine.
Import ListNotations.
Open Scope Z_scope.

(* one field: the value is rebuilt and exactly the prescribed residue bits are consumed, whatever follows *)
Theorem c03_field ct pos rf v res rest :
  wf_field ct rf v = true -> spec_residue v rf = Some res ->
  exists ce, decompress_field ct pos rf (res ++ rest) = Ok (v, zlen res, ce) /\
             py_slice (res ++ rest) (Some (zlen res)) None = rest.
Proof. exact (decompress_field_spec ct pos rf v res rest). Qed.
(* all fields in rule order, the remaining bits are the payload *)
Theorem c03_fields ct rfs vs pos rs rest :
  length vs = length rfs -> forallb2 (fun rf v => wf_field ct rf v) rfs vs = true ->
  spec_residues vs rfs = Some rs ->
  decompress_fields ct pos rfs (rs ++ rest) = Ok (combine (map r_id rfs) vs, centries_of ct pos rfs, rest).
Proof. exact (decompress_fields_spec ct rfs vs pos rs rest). Qed.
(* whole packet, rules without compute fields *)
Theorem c03_decompress_nocompute ct r d vs rs payload :
  let rfs := select_fds d (rule_fds r) in
  length vs = length rfs -> forallb2 (fun rf v => wf_field ct rf v) rfs vs = true ->
  forallb (fun rf => match r_cda rf with Compute => false | _ => true end) rfs = true ->
  spec_residues vs rfs = Some rs ->
  decompress ct (rule_id r ++ rs ++ payload) r d = Ok (concat vs ++ payload).
Proof. exact (decompress_layout_nocompute ct r d vs rs payload). Qed.
(* whole packet, general: compute fields are regenerated over the rebuilt field list (what they compute is C09),
   in the order list.sort puts the compute entries in (Schc.py_sort_ces: CPython's algorithm for fewer than 64 entries) *)
Theorem c03_decompress_sort ct r d vs rs payload ces :
  let rfs := select_fds d (rule_fds r) in
  length vs = length rfs -> forallb2 (fun rf v => wf_field ct rf v) rfs vs = true ->
  spec_residues vs rfs = Some rs -> py_sort_ces (centries_of ct 0 rfs) = Some ces ->
  decompress ct (rule_id r ++ rs ++ payload) r d =
    (do fs' <- run_computes ces (combine (map r_id rfs) vs ++ [(payload_fid, payload)]) ;;
     Ok (concat (map snd fs'))).
Proof. exact (decompress_layout_sort ct r d vs rs payload ces). Qed.
(* entries already in the order of the comparison (fewer than 64 of them): run in rule order *)
Theorem c03_decompress ct r d vs rs payload :
  let rfs := select_fds d (rule_fds r) in
  length vs = length rfs -> forallb2 (fun rf v => wf_field ct rf v) rfs vs = true ->
  spec_residues vs rfs = Some rs -> ce_sorted (centries_of ct 0 rfs) = true ->
  (length (centries_of ct 0 rfs) < 64)%nat ->
  decompress ct (rule_id r ++ rs ++ payload) r d =
    (do fs' <- run_computes (centries_of ct 0 rfs) (combine (map r_id rfs) vs ++ [(payload_fid, payload)]) ;;
     Ok (concat (map snd fs'))).
Proof. exact (decompress_layout ct r d vs rs payload). Qed.
Theorem c03_no_compression ct r d pkt : rule_fds r = [] -> decompress ct (rule_id r ++ pkt) r d = Ok pkt.
Proof. exact (decompress_nocompression ct r d pkt). Qed.

(* composition with the byte-level Buffer model: the decompressor written with the Buffer operations (SchcBytes.bdecompress:
   b_getitem with Python slice clamping, prefix_value, b_eq, b_add) rebuilds the same bits, for SCHC buffers of either padding side *)
Theorem c03_decompress_bytes ct s r d p : canon s -> canon_rule r ->
  forallb (fun rf => match br_cda rf with Compute => false | _ => true end) (bselect_fds d (brule_fds r)) = true ->
  decompress ct (abs s) (abs_rule abs r) d = Ok p ->
  exists x, bdecompress s r d = Ok x /\ canon x /\ abs x = p.
Proof. exact (bdecompress_refines ct s r d p). Qed.
Theorem c03_decode_var_bytes s : canon s ->
  exists r n, bdecode_var s = Ok (r, n) /\ canon r /\ decode_var (abs s) = (abs r, n).
Proof. exact (bdecode_var_refines s). Qed.

(* non-vacuity: mapping with indices of mixed width, hit on the last entry, then a variable-length value *)
Example c03_ex :
  let rf1 := mkrfd (mkfid P_Other 1) 2 0 Bi (TVmap [([true;true],[false]); ([false;true],[true;false]); ([false;false],[true;true])]) MO_mapping MappingSent in
  let rf2 := mkrfd (mkfid P_Other 2) 0 0 Bi (TVbuf []) MO_ignore ValueSent in
  let ct := (fun _ : fid => @None (compute_fn * list fid)) in
  wf_field ct rf1 [false;false] = true /\ wf_field ct rf2 [true;false;true] = true /\
  decompress ct ([true] ++ ([true;true] ++ [false;false;true;true] ++ [true;false;true]) ++ [false])
             (mkrule [true] Compression [rf1; rf2]) None = Ok ([false;false] ++ [true;false;true] ++ [false]).
Proof. vm_compute. repeat split; reflexivity. Qed.

(* the byte-level decompress with the compute stage (ComputeBytes.bdecompress_c) refines the bit-level one for EVERY rule:
   same packet, or the same exception *)
Theorem c03_decompress_bytes_compute s r d p : canon s -> canon_rule r ->
  decompress compute_functions (abs s) (abs_rule abs r) d = Ok p ->
  exists x, bdecompress_c s r d = Ok x /\ canon x /\ abs x = p.
Proof. exact (bdecompress_c_refines s r d p). Qed.
Theorem c03_decompress_bytes_exception s r d e : canon s -> canon_rule r ->
  decompress compute_functions (abs s) (abs_rule abs r) d = Exc e -> bdecompress_c s r d = Exc e.
Proof. exact (bdecompress_c_exc s r d e). Qed.

Print Assumptions c03_field.
Print Assumptions c03_fields.
Print Assumptions c03_decompress_nocompute.
Print Assumptions c03_decompress_sort.
Print Assumptions c03_decompress.
Print Assumptions c03_no_compression.
Print Assumptions c03_decompress_bytes.
Print Assumptions c03_decode_var_bytes.
Print Assumptions c03_decompress_bytes_compute.
Print Assumptions c03_decompress_bytes_exception.
