(* C04 -- A rule is offered for a packet iff every field satisfies its matching operator.
   Model: Schc.match_packet_descriptor (ruler.py, matching/operators.py).  SchcSpec.spec_rule_applies is
   the predicate of the statement: the descriptors marked with the packet direction or Bi are as many as
   the packet fields, carry the same ids in order, and every operator holds (equal: same bits and
   length; ignore; MSB(x): field at least x bits, first x bits equal the pattern, non-zero rule length
   equals the field length; match-mapping: value among the mapped values); no-compression always;
   fragmentation never.
   Only statements; proofs in theories/SchcRules.v. *)
From Coq Require Import ZArith List Bool.
From MS Require Import PyBase Buffer Bits BufferAbs Schc SchcSpec SchcRules SchcBytes SchcRefine Compute ParserBytes ParserRefine ComputeBytes ComputeRefine ManagerBytes ManagerRefine.
Import ListNotations.
Open Scope Z_scope.

(* soundness, completeness and order in one equation: the generator yields exactly the applying rules, in rule-set order *)
Theorem c04_match rules pd : forallb rule_typed rules = true ->
  match_packet_descriptor rules pd = gen_of_list (filter (spec_rule_applies pd) rules).
Proof. exact (match_packet_descriptor_spec rules pd). Qed.
Theorem c04_rule pd r : rule_typed r = true -> rule_matches pd r = Ok (spec_rule_applies pd r).
Proof. exact (rule_matches_spec pd r). Qed.
Theorem c04_field pf rf : rfd_typed rf = true -> field_match pf rf = Ok (spec_field_applies pf rf).
Proof. exact (field_match_spec pf rf). Qed.
Theorem c04_no_compression pd r : rule_nature r = NoCompression -> spec_rule_applies pd r = true.
Proof. exact (nocompression_always_applies pd r). Qed.
(* a fragmentation rule (RuleNature.FRAGMENTATION) is neither branch of the matcher's loop body: it does not apply, is not
   yielded (whatever its descriptors: no typing premise), and the matcher behaves as if it were not in the rule set *)
Theorem c04_fragmentation pd r : rule_nature r = Fragmentation -> spec_rule_applies pd r = false.
Proof. exact (fragmentation_never_applies pd r). Qed.
Theorem c04_fragmentation_rule pd r : rule_nature r = Fragmentation -> rule_matches pd r = Ok false.
Proof. exact (fragmentation_never_matches pd r). Qed.
Theorem c04_fragmentation_never_yielded rules pd r :
  In r (gen_list (match_packet_descriptor rules pd)) -> rule_nature r <> Fragmentation.
Proof. exact (fragmentation_never_yielded rules pd r). Qed.
Theorem c04_fragmentation_skipped rules pd :
  match_packet_descriptor rules pd = match_packet_descriptor (filter not_fragmentation rules) pd.
Proof. exact (match_packet_descriptor_skips_fragmentation rules pd). Qed.

(* composition with the byte-level Buffer model: the operators written with Buffer.__eq__, shift and dict lookup agree with the
   bit-level ones on canonical buffers of either padding side (same result, same exception) *)
Theorem c04_field_bytes pf rf : canon (bf_val pf) -> canon_rfd rf ->
  bfield_match pf rf = field_match (abs_field abs pf) (abs_rfd abs rf).
Proof. exact (bfield_match_refines pf rf). Qed.

Example c04_ex :
  let f := mkfield (mkfid P_Other 1) [true] 0 in
  let long := mkrfd (mkfid P_Other 1) 0 0 Bi (TVbuf [true;false;false]) MO_msb LSB in
  let ok := mkrfd (mkfid P_Other 1) 0 0 Bi (TVbuf [true]) MO_msb LSB in
  field_match f long = Ok false /\ field_match f ok = Ok true.
Proof. vm_compute. split; reflexivity. Qed.

(* the matcher written on byte-level Buffers (ManagerBytes.v: Ruler.match_packet_descriptor with the Buffer comparisons the code
   performs) yields the rules whose denotations the bit-level matcher yields, in the same order, and ends the same way *)
Theorem c04_match_bytes rules pd : canon_pdesc pd -> Forall canon_rule rules ->
  map (abs_rule abs) (gen_list (bmatch_packet_descriptor rules pd)) =
    gen_list (match_packet_descriptor (map (abs_rule abs) rules) (abs_pdesc abs pd)) /\
  gen_raises (bmatch_packet_descriptor rules pd) =
    gen_raises (match_packet_descriptor (map (abs_rule abs) rules) (abs_pdesc abs pd)) /\
  incl (gen_list (bmatch_packet_descriptor rules pd)) rules.
Proof. exact (bmatch_packet_descriptor_lists rules pd). Qed.
Theorem c04_rule_matches_bytes pd r : canon_pdesc pd -> canon_rule r ->
  brule_matches pd r = rule_matches (abs_pdesc abs pd) (abs_rule abs r).
Proof. exact (brule_matches_refines pd r). Qed.
(* the same at the byte level, for any buffers (canonical or not) *)
Theorem c04_fragmentation_rule_bytes pd r : brule_nature r = Fragmentation -> brule_matches pd r = Ok false.
Proof. exact (bfragmentation_never_matches pd r). Qed.
Theorem c04_fragmentation_never_yielded_bytes rules pd r :
  In r (gen_list (bmatch_packet_descriptor rules pd)) -> brule_nature r <> Fragmentation.
Proof. exact (bfragmentation_never_yielded rules pd r). Qed.
Theorem c04_fragmentation_skipped_bytes rules pd :
  bmatch_packet_descriptor rules pd = bmatch_packet_descriptor (filter bnot_fragmentation rules) pd.
Proof. exact (bmatch_packet_descriptor_skips_fragmentation rules pd). Qed.

(* non-vacuity: a fragmentation rule whose descriptors would match (and an ill-typed one) is passed over *)
Example c04_fragmentation_ex :
  let f := mkfield (mkfid P_Other 1) [true] 0 in
  let ok := mkrfd (mkfid P_Other 1) 0 0 Bi (TVbuf [true]) MO_msb LSB in
  let bad := mkrfd (mkfid P_Other 1) 0 0 Bi (TVmap []) MO_equal NotSent in
  let pd := mkpdesc Up [f] [] in
  match_packet_descriptor [mkrule [true] Fragmentation [ok]; mkrule [false] Fragmentation [bad]; mkrule [true;true] Compression [ok]] pd
    = GYield (mkrule [true;true] Compression [ok]) GDone /\
  match_packet_descriptor [mkrule [false] Compression [bad]] pd = GRaise AssertionError.
Proof. vm_compute. split; reflexivity. Qed.

Print Assumptions c04_match.
Print Assumptions c04_rule.
Print Assumptions c04_field.
Print Assumptions c04_no_compression.
Print Assumptions c04_fragmentation.
Print Assumptions c04_fragmentation_rule.
Print Assumptions c04_fragmentation_never_yielded.
Print Assumptions c04_fragmentation_skipped.
Print Assumptions c04_fragmentation_rule_bytes.
Print Assumptions c04_fragmentation_never_yielded_bytes.
Print Assumptions c04_fragmentation_skipped_bytes.
Print Assumptions c04_field_bytes.
Print Assumptions c04_match_bytes.
Print Assumptions c04_rule_matches_bytes.
