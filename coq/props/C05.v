(* C05 -- Buffer slicing, concatenation, padding and iteration act on the bit sequence.
   Model: theories/Buffer.v (byte-level model of binary/buffer.py).  abs b is the bit sequence a
   buffer denotes, canon b the canonical form (minimal byte count, zero padding bits).
   Only statements; proofs are in theories/BufferSpec.v and the Buf*.v files it builds on. *)
From Coq Require Import ZArith List Bool.
From MS Require Import PyBase Buffer Bits ByteFacts BufferAbs BufferSpec BufferHeap BufferHeapSpec BufferHeapBits.
Import ListNotations.
Open Scope Z_scope.

(* construction: any byte string, any length; LEFT keeps the last L bits of the zero-extended content *)
Theorem c05_new_left c L : bytes_ok c -> 0 <= L ->
  exists r, b_new c L LEFT = Ok r /\ canon r /\ bside r = LEFT /\ blen r = L /\ abs r = bits_of (Z.to_nat L) (val c).
Proof. exact (new_left_bits c L). Qed.
(* RIGHT keeps the first L bits of the content zero-extended on the right *)
Theorem c05_new_right c L : bytes_ok c -> 0 <= L ->
  exists r, b_new c L RIGHT = Ok r /\ canon r /\ bside r = RIGHT /\ blen r = L /\
            abs r = firstn (Z.to_nat L) (bits_of (8 * length c) (val c) ++ repeat false (Z.to_nat L)).
Proof. exact (new_right_bits c L). Qed.
(* iteration yields the bits, len() their number *)
Theorem c05_iter b : canon b -> b_iter b = Ok (map Z.b2z (abs b)) /\ b_len b = Z.of_nat (length (abs b)).
Proof. exact (iter_bits b). Qed.
(* slicing with 0 <= start <= stop (stops clamped like Python lists) *)
Theorem c05_getitem b s e : canon b -> 0 <= s <= e ->
  exists r, b_getitem b (Some s) (Some e) = Ok r /\ canon r /\ bside r = bside b /\
            abs r = firstn (Z.to_nat (e - s)) (skipn (Z.to_nat s) (abs b)).
Proof. exact (getitem_bits b s e). Qed.
Theorem c05_getitem_from b s : canon b -> 0 <= s ->
  exists r, b_getitem b (Some s) None = Ok r /\ canon r /\ bside r = bside b /\ abs r = skipn (Z.to_nat s) (abs b).
Proof. exact (getitem_from_bits b s). Qed.
Theorem c05_getitem_to b e : canon b -> 0 <= e ->
  exists r, b_getitem b None (Some e) = Ok r /\ canon r /\ bside r = bside b /\ abs r = firstn (Z.to_nat e) (abs b).
Proof. exact (getitem_to_bits b e). Qed.
(* single-bit indexing *)
Theorem c05_index b i : canon b -> 0 <= i < blen b ->
  exists r, b_getitem_int b i = Ok r /\ canon r /\ bside r = bside b /\ abs r = [nth (Z.to_nat i) (abs b) false].
Proof. exact (getint_bits b i). Qed.
(* concatenation, whatever the two padding sides and alignments (nine branches of __add__) *)
Theorem c05_add l r : canon l -> canon r ->
  exists x, b_add l r = Ok x /\ canon x /\ bside x = bside l /\ abs x = abs l ++ abs r.
Proof. exact (add_bits l r). Qed.
(* slice assignment and single-bit assignment *)
Theorem c05_setitem b s e v : canon b -> canon v -> 0 <= s <= e -> e <= blen b ->
  exists r, b_setitem b (Some s) (Some e) v = Ok r /\ canon r /\ bside r = bside b /\
            abs r = firstn (Z.to_nat s) (abs b) ++ abs v ++ skipn (Z.to_nat e) (abs b).
Proof. exact (setitem_bits b s e v). Qed.
Theorem c05_setint b i v : canon b -> canon v -> 0 <= i < blen b ->
  exists r, b_setitem_int b i v = Ok r /\ canon r /\ bside r = bside b /\
            abs r = firstn (Z.to_nat i) (abs b) ++ abs v ++ skipn (Z.to_nat (i + 1)) (abs b).
Proof. exact (setint_bits b i v). Qed.
(* re-padding keeps the bits and gives the requested side; copying is the identity *)
Theorem c05_pad b sd ip : canon b -> exists r, b_pad b sd ip = Ok r /\ canon r /\ bside r = sd /\ abs r = abs b.
Proof. exact (pad_bits b sd ip). Qed.
Theorem c05_copy b : canon b -> b_copy b = Ok b.
Proof. exact (copy_bits b). Qed.
(* a canonical buffer is determined by its side and its bits *)
Theorem c05_abs_inj a b : canon a -> canon b -> bside a = bside b -> abs a = abs b -> a = b.
Proof. exact (abs_inj a b). Qed.

(* non-vacuity: a canonical right-padded and a canonical left-padded buffer, concatenated *)
Example c05_ex :
  let a := mkbuf [171; 192] 10 RIGHT 6 in let b := mkbuf [5] 3 LEFT 5 in
  b_add a b = Ok (mkbuf [171; 232] 13 RIGHT 3) /\ b_iter b = Ok [1; 0; 1].
Proof. vm_compute. split; reflexivity. Qed.

(* the same on Buffer OBJECTS (heap model BufferHeap.v): for every heap and references in it, operands may be one object; what the method returns, and what became of the objects that were there *)
Theorem c05_getitem_objects r s e h b : nth_error h r = Some b -> canon b -> 0 <= s <= e ->
  exists v, h_getitem r (Some s) (Some e) h = (Ok (length h), h ++ [v]) /\ canon v /\ bside v = bside b /\
            abs v = firstn (Z.to_nat (e - s)) (skipn (Z.to_nat s) (abs b)).
Proof. exact (obj_getitem r s e h b). Qed.
Theorem c05_add_objects l r h lb rb : nth_error h l = Some lb -> nth_error h r = Some rb -> canon lb -> canon rb ->
  exists x v h', h_add l r h = (Ok x, h') /\ extends h h' /\ nth_error h' x = Some v /\ canon v /\ bside v = bside lb /\
                 abs v = abs lb ++ abs rb.
Proof. exact (obj_add l r h lb rb). Qed.
Theorem c05_setitem_objects r s e v h b vb : nth_error h r = Some b -> nth_error h v = Some vb -> canon b -> canon vb ->
  0 <= s <= e -> e <= blen b ->
  exists w h', h_setitem r (Some s) (Some e) v h = (Ok r, h') /\ nth_error h' r = Some w /\ canon w /\ bside w = bside b /\
               abs w = firstn (Z.to_nat s) (abs b) ++ abs vb ++ skipn (Z.to_nat e) (abs b).
Proof. exact (obj_setitem r s e v h b vb). Qed.
Theorem c05_copy_objects r h b : nth_error h r = Some b -> canon b -> h_copy r h = (Ok (length h), h ++ [b]).
Proof. exact (obj_copy r h b). Qed.
Theorem c05_index_objects r i h b : nth_error h r = Some b -> canon b -> 0 <= i < blen b ->
  exists v, h_getitem_int r i h = (Ok (length h), h ++ [v]) /\ canon v /\ bside v = bside b /\
            abs v = [nth (Z.to_nat i) (abs b) false].
Proof. exact (obj_index r i h b). Qed.
Theorem c05_setint_objects r i v h b vb : nth_error h r = Some b -> nth_error h v = Some vb -> canon b -> canon vb -> 0 <= i < blen b ->
  exists w h', h_setitem_int r i v h = (Ok r, h') /\ nth_error h' r = Some w /\ canon w /\ bside w = bside b /\
               abs w = firstn (Z.to_nat i) (abs b) ++ abs vb ++ skipn (Z.to_nat (i + 1)) (abs b).
Proof. exact (obj_setint r i v h b vb). Qed.
Theorem c05_pad_copy_objects r sd h b : nth_error h r = Some b -> canon b ->
  exists v, h_pad r sd false h = (Ok (length h), h ++ [v]) /\ canon v /\ bside v = sd /\ abs v = abs b.
Proof. exact (obj_pad_copy r sd h b). Qed.
Print Assumptions c05_new_left.
Print Assumptions c05_new_right.
Print Assumptions c05_iter.
Print Assumptions c05_getitem.
Print Assumptions c05_getitem_from.
Print Assumptions c05_getitem_to.
Print Assumptions c05_index.
Print Assumptions c05_add.
Print Assumptions c05_setitem.
Print Assumptions c05_setint.
Print Assumptions c05_pad.
Print Assumptions c05_copy.
Print Assumptions c05_abs_inj.
Print Assumptions c05_getitem_objects.
Print Assumptions c05_add_objects.
Print Assumptions c05_setitem_objects.
Print Assumptions c05_copy_objects.
Print Assumptions c05_index_objects.
Print Assumptions c05_setint_objects.
Print Assumptions c05_pad_copy_objects.
