(* C06 -- Buffer shifts, bitwise operators, value() and chunking follow the bit model.
   Model: theories/Buffer.v.  Only statements; proofs in theories/BufferSpec.v. *)
From Coq Require Import ZArith List Bool.
From MS Require Import PyBase Buffer Bits ByteFacts BufferAbs BufferSpec Compute BufferHeap BufferHeapSpec BufferHeapBits.
Import ListNotations.
Open Scope Z_scope.

(* shift(-s): s zero bits appended; shift(s): the s last bits dropped (all when s >= length); either padding side, in place or not *)
Theorem c06_shift_left b s ip : canon b -> 0 <= s ->
  exists r, b_shift b (- s) ip = Ok r /\ canon r /\ bside r = bside b /\ abs r = abs b ++ repeat false (Z.to_nat s).
Proof. exact (shift_left_bits b s ip). Qed.
Theorem c06_shift_right b s ip : canon b -> 0 <= s ->
  exists r, b_shift b s ip = Ok r /\ canon r /\ bside r = bside b /\ abs r = firstn (Z.to_nat (blen b - s)) (abs b).
Proof. exact (shift_right_bits b s ip). Qed.
(* and / or / xor are bit-wise on operands of equal length, ValueError otherwise; invert flips every bit *)
Theorem c06_and a b : canon a -> canon b -> blen a = blen b ->
  exists x, b_and a b = Ok x /\ canon x /\ bside x = bside a /\ abs x = map2 andb (abs a) (abs b).
Proof. exact (and_bits a b). Qed.
Theorem c06_or a b : canon a -> canon b -> blen a = blen b ->
  exists x, b_or a b = Ok x /\ canon x /\ bside x = bside a /\ abs x = map2 orb (abs a) (abs b).
Proof. exact (or_bits a b). Qed.
Theorem c06_xor a b : canon a -> canon b -> blen a = blen b ->
  exists x, b_xor a b = Ok x /\ canon x /\ bside x = bside a /\ abs x = map2 xorb (abs a) (abs b).
Proof. exact (xor_bits a b). Qed.
Theorem c06_len_mismatch f a b : blen a <> blen b -> b_bitwise f a b = Exc ValueError.
Proof. exact (bitwise_len_mismatch f a b). Qed.
Theorem c06_invert b : canon b -> exists x, b_invert b = Ok x /\ canon x /\ bside x = bside b /\ abs x = map negb (abs b).
Proof. exact (invert_bits b). Qed.
(* value(): the unsigned big-endian integer the bits spell *)
Theorem c06_value b : canon b -> b_value b = Ok (Z_of_bits (abs b)).
Proof. exact (value_bits b). Qed.
(* chunks(n): consecutive n-bit pieces, the last one zero-extended when padding is requested (Compute.chunks is the plain list function) *)
Theorem c06_chunks b n padding : canon b -> 0 < n ->
  exists cs, b_chunks b n padding = Ok cs /\ Forall canon cs /\ map abs cs = chunks (Z.to_nat n) padding (abs b).
Proof. exact (chunks_bits b n padding). Qed.

Example c06_ex :
  b_shift (mkbuf [171; 192] 10 RIGHT 6) 3 false = Ok (mkbuf [170] 7 RIGHT 1) /\
  b_value (mkbuf [171; 192] 10 RIGHT 6) = Ok 687 /\
  chunks 4 true [true; false; true; true; true] = [[true; false; true; true]; [true; false; false; false]].
Proof. vm_compute. repeat split; reflexivity. Qed.

(* the same on Buffer OBJECTS (heap model BufferHeap.v): not in place a new object and the heap otherwise as it was; in place the receiver holds the result and no other object changed; the operands of & | ^ may be one object *)
Theorem c06_shift_left_objects r s ip h b : nth_error h r = Some b -> canon b -> 0 <= s ->
  exists v, canon v /\ bside v = bside b /\ abs v = abs b ++ repeat false (Z.to_nat s) /\
            h_shift r (- s) ip h = (if ip then (Ok r, upd h r v) else (Ok (length h), h ++ [v])).
Proof. exact (obj_shift_left r s ip h b). Qed.
Theorem c06_shift_right_objects r s ip h b : nth_error h r = Some b -> canon b -> 0 <= s ->
  exists v, canon v /\ bside v = bside b /\ abs v = firstn (Z.to_nat (blen b - s)) (abs b) /\
            h_shift r s ip h = (if ip then (Ok r, upd h r v) else (Ok (length h), h ++ [v])).
Proof. exact (obj_shift_right r s ip h b). Qed.
Theorem c06_and_objects a b h ab bb : nth_error h a = Some ab -> nth_error h b = Some bb -> canon ab -> canon bb -> blen ab = blen bb ->
  exists x v h', h_and a b h = (Ok x, h') /\ extends h h' /\ nth_error h' x = Some v /\ canon v /\ bside v = bside ab /\
                 abs v = map2 andb (abs ab) (abs bb).
Proof. exact (obj_and a b h ab bb). Qed.
Theorem c06_or_objects a b h ab bb : nth_error h a = Some ab -> nth_error h b = Some bb -> canon ab -> canon bb -> blen ab = blen bb ->
  exists x v h', h_or a b h = (Ok x, h') /\ extends h h' /\ nth_error h' x = Some v /\ canon v /\ bside v = bside ab /\
                 abs v = map2 orb (abs ab) (abs bb).
Proof. exact (obj_or a b h ab bb). Qed.
Theorem c06_xor_objects a b h ab bb : nth_error h a = Some ab -> nth_error h b = Some bb -> canon ab -> canon bb -> blen ab = blen bb ->
  exists x v h', h_xor a b h = (Ok x, h') /\ extends h h' /\ nth_error h' x = Some v /\ canon v /\ bside v = bside ab /\
                 abs v = map2 xorb (abs ab) (abs bb).
Proof. exact (obj_xor a b h ab bb). Qed.
Theorem c06_invert_objects r h b : nth_error h r = Some b -> canon b ->
  exists x v h', h_invert r h = (Ok x, h') /\ nth_error h' x = Some v /\ canon v /\ bside v = bside b /\ abs v = map negb (abs b).
Proof. exact (obj_invert r h b). Qed.
Theorem c06_value_objects r h b : nth_error h r = Some b -> canon b ->
  fst (h_value r h) = Ok (Z_of_bits (abs b)) /\ extends h (snd (h_value r h)).
Proof. exact (obj_value r h b). Qed.
Theorem c06_chunks_objects r n p h b : nth_error h r = Some b -> canon b -> 0 < n ->
  exists l vs h', h_chunks r n p h = (Ok l, h') /\ extends h h' /\ Forall2 (fun x v => nth_error h' x = Some v) l vs /\
                  Forall canon vs /\ map abs vs = Compute.chunks (Z.to_nat n) p (abs b).
Proof. exact (obj_chunks r n p h b). Qed.
Print Assumptions c06_shift_left.
Print Assumptions c06_shift_right.
Print Assumptions c06_and.
Print Assumptions c06_or.
Print Assumptions c06_xor.
Print Assumptions c06_len_mismatch.
Print Assumptions c06_invert.
Print Assumptions c06_value.
Print Assumptions c06_chunks.
Print Assumptions c06_shift_left_objects.
Print Assumptions c06_shift_right_objects.
Print Assumptions c06_and_objects.
Print Assumptions c06_or_objects.
Print Assumptions c06_xor_objects.
Print Assumptions c06_invert_objects.
Print Assumptions c06_value_objects.
Print Assumptions c06_chunks_objects.
