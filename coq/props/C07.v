(* C07 -- Parsed fields tile the packet: nothing lost, nothing invented, order kept.
   Model: theories/Parsers.v (ipv4.py, ipv6.py, udp.py, coap.py, sctp.py, parser.py, registry.py).
   For EVERY bit string b (well-formed or not): whenever a parser accepts, the field values in order are
   exactly the first (header length) bits of b; for a stack parser fields ++ payload = b.
   Only statements; proofs in theories/ParserTiling.v. *)
From Coq Require Import ZArith List Bool.
From MS Require Import PyBase Bits Schc Parsers ParserTiling SchcSpec SchcCodec Buffer BufferAbs SchcBytes ParserBytes ParserRefine EndToEnd.
Import ListNotations.
Open Scope Z_scope.

Theorem c07_coap b h : parse_coap b = Ok h -> tiles b h.
Proof. exact (coap_tiles b h). Qed.
Theorem c07_sctp b h : parse_sctp b = Ok h -> tiles b h /\ snd h = zlen b.
Proof. exact (sctp_tiles b h). Qed.
Theorem c07_udp pr b h : parse_udp pr b = Ok h -> tiles b h.
Proof. exact (udp_tiles pr b h). Qed.
Theorem c07_ipv6 pr b h : parse_ipv6 pr b = Ok h -> tiles b h.
Proof. exact (ipv6_tiles pr b h). Qed.
Theorem c07_ipv4 pr b h : parse_ipv4 pr b = Ok h -> tiles b h.
Proof. exact (ipv4_tiles pr b h). Qed.
(* the reported header length is the total length of the fields *)
Theorem c07_header_length b h : tiles b h -> zlen (concat (map f_val (fst h))) = snd h.
Proof. exact (tiles_length b h). Qed.
(* every parser configuration of the registry: fields then payload give back the buffer *)
Theorem c07_packet s b fs pl : factory s b = Ok (fs, pl) -> concat (map f_val fs) ++ pl = b.
Proof. exact (packet_tiles s b fs pl). Qed.
(* consequently a no-compression rule reproduces the packet *)
Theorem c07_no_compression ct s b fs pl r d : factory s b = Ok (fs, pl) -> rule_nature r = NoCompression -> rule_fds r = [] ->
  exists c, compress (mkpdesc Up fs pl) r d = Ok c /\ decompress ct c r d = Ok b.
Proof. exact (packet_no_compression ct s b fs pl r d). Qed.

(* the same at the byte level: the byte-level parsers (ParserBytes.v: every slice, comparison and integer read as buffer.py
   performs it on bytes) applied to a canonical left-padded packet Buffer give field Buffers and a payload Buffer whose bits,
   in order, are the bits of the packet; the lengths add up *)
Theorem c07_packet_bytes s b bfs bpl : canon b -> bside b = LEFT -> bfactory s b = Ok (bfs, bpl) ->
  concat (map (fun f => abs (bf_val f)) bfs) ++ abs bpl = abs b.
Proof. exact (bfactory_tiles s b bfs bpl). Qed.
Theorem c07_packet_bytes_length s b bfs bpl : canon b -> bside b = LEFT -> bfactory s b = Ok (bfs, bpl) ->
  fold_right (fun f n => blen (bf_val f) + n) 0 bfs + blen bpl = blen b.
Proof. exact (bfactory_tiles_length s b bfs bpl). Qed.
(* the byte-level parsers refine the bit-level ones: same outcome (fields, payload or exception) *)
Theorem c07_bytes_refine s b : canon b -> bside b = LEFT -> same_outcome pkt_rel (bfactory s b) (factory s (abs b)).
Proof. exact (bfactory_refines s b). Qed.
Example c07_bytes_ex : exists bfs bpl, bfactory S_UDP ex_packet = Ok (bfs, bpl) /\
  concat (map (fun f => abs (bf_val f)) bfs) ++ abs bpl = abs ex_packet /\ length bfs = 4%nat /\ blen bpl = 24.
Proof. exact bfactory_tiles_ex. Qed.

Example c07_ex : exists fs pl, factory S_UDP (bits_of 64 0 ++ [true;false;true]) = Ok (fs, pl) /\ pl = [true;false;true].
Proof. eexists. eexists. vm_compute. split; reflexivity. Qed.

Print Assumptions c07_coap.
Print Assumptions c07_sctp.
Print Assumptions c07_udp.
Print Assumptions c07_ipv6.
Print Assumptions c07_ipv4.
Print Assumptions c07_header_length.
Print Assumptions c07_packet.
Print Assumptions c07_packet_bytes.
Print Assumptions c07_packet_bytes_length.
Print Assumptions c07_bytes_refine.
Print Assumptions c07_no_compression.
