(* C08 -- Parsers cut headers at the field boundaries their RFCs define.
   Model: theories/Parsers.v.  RFC side: theories/RfcHeaders.v (structured well-formed messages, their
   wire encoding, and the field list -- identifiers, order, occurrence positions, bit lengths, values --
   that RFC 8200 / 791 (IHL = 5) / 768 / 7252 section 3-3.1 / 9260 section 3 prescribe), written
   independently of the model.  Only statements; proofs in theories/ParserRfc.v and ParserRfcSctp.v. *)
From Coq Require Import ZArith List Bool.
From MS Require Import PyBase Buffer Bits BufferAbs Schc Parsers RfcHeaders ParserRfc ParserRfcSctp SchcBytes ParserBytes BytesC08C17C18.
Import ListNotations.
Open Scope Z_scope.

Theorem c08_ipv6_header h rest : ipv6_wf h -> parse_ipv6 false (ipv6_encode h ++ rest) = Ok (ipv6_fields h, 320).
Proof. exact (c08_ipv6 h rest). Qed.
Theorem c08_ipv4_header h rest : ipv4_wf h -> parse_ipv4 false (ipv4_encode h ++ rest) = Ok (ipv4_fields h, 160).
Proof. exact (c08_ipv4 h rest). Qed.
Theorem c08_udp_header h rest : udp_wf h -> parse_udp false (udp_encode h ++ rest) = Ok (udp_fields h, 64).
Proof. exact (c08_udp h rest). Qed.
(* CoAP: token 0..8 bytes, any option list with deltas and lengths in the classes 0..12, 13..268, >= 269, optional payload *)
Theorem c08_coap_message m : coap_wf m -> parse_coap (coap_encode m) = Ok (coap_fields m, coap_header_len m).
Proof. exact (c08_coap m). Qed.
(* SCTP: common header, every chunk type, parameters, 32-bit padding *)
Theorem c08_sctp_packet p : sctp_wf p -> parse_sctp (sctp_encode p) = Ok (sctp_fields p, zlen (sctp_encode p)).
Proof. exact (c08_sctp p). Qed.
(* the explicit stacks *)
Theorem c08_stack_v6 h u m : ipv6_wf h -> udp_wf u -> coap_wf m ->
  factory IPv6_UDP_CoAP (ipv6_encode h ++ udp_encode u ++ coap_encode m) =
  Ok (ipv6_fields h ++ udp_fields u ++ coap_fields m, match c_payload m with Some p => p | None => [] end).
Proof. exact (c08_stack_ipv6_udp_coap h u m). Qed.
Theorem c08_stack_v4 h u m : ipv4_wf h -> udp_wf u -> coap_wf m ->
  factory IPv4_UDP_CoAP (ipv4_encode h ++ udp_encode u ++ coap_encode m) =
  Ok (ipv4_fields h ++ udp_fields u ++ coap_fields m, match c_payload m with Some p => p | None => [] end).
Proof. exact (c08_stack_ipv4_udp_coap h u m). Qed.
(* next-protocol prediction chains to the parser designated by next header / protocol / destination port and agrees with the explicit stacks *)
Theorem c08_predict_v6_udp_coap h u m : ipv6_wf h -> udp_wf u -> coap_wf m ->
  Z_of_bits (v6_nh h) = 17 -> Z_of_bits (u_dport u) = 5683 ->
  factory S_IPv6 (ipv6_encode h ++ udp_encode u ++ coap_encode m) =
  factory IPv6_UDP_CoAP (ipv6_encode h ++ udp_encode u ++ coap_encode m).
Proof. exact (c08_predict_ipv6_udp_coap h u m). Qed.
Theorem c08_predict_v4_udp_coap h u m : ipv4_wf h -> udp_wf u -> coap_wf m ->
  Z_of_bits (v4_proto h) = 17 -> Z_of_bits (u_dport u) = 5683 ->
  factory S_IPv4 (ipv4_encode h ++ udp_encode u ++ coap_encode m) =
  factory IPv4_UDP_CoAP (ipv4_encode h ++ udp_encode u ++ coap_encode m).
Proof. exact (c08_predict_ipv4_udp_coap h u m). Qed.
Theorem c08_predict_udp u m : udp_wf u -> coap_wf m -> Z_of_bits (u_dport u) = 5683 ->
  factory S_UDP (udp_encode u ++ coap_encode m) =
  Ok (udp_fields u ++ coap_fields m, match c_payload m with Some p => p | None => [] end).
Proof. exact (c08_predict_udp_coap u m). Qed.
Theorem c08_predict_v6_sctp h p : ipv6_wf h -> sctp_wf p -> Z_of_bits (v6_nh h) = 132 ->
  factory S_IPv6 (ipv6_encode h ++ sctp_encode p) = Ok (ipv6_fields h ++ sctp_fields p, []).
Proof. exact (c08_predict_ipv6_sctp h p). Qed.
Theorem c08_predict_v4_sctp h p : ipv4_wf h -> sctp_wf p -> Z_of_bits (v4_proto h) = 132 ->
  factory S_IPv4 (ipv4_encode h ++ sctp_encode p) = Ok (ipv4_fields h ++ sctp_fields p, []).
Proof. exact (c08_predict_ipv4_sctp h p). Qed.

(* non-vacuity: a CoAP message with a 300-byte option value at delta 269 and a payload is well-formed *)
Example c08_ex :
  let m := mk_coap [false;true] [false;false] 1 (bits_of 8 1) (bits_of 16 7) (bits_of 8 9)
             [mk_opt 269 (bits_of 2400 5)] (Some [true]) in
  zlen (c_token m) = 8 * c_tkl m /\ (0 <=? o_delta (mk_opt 269 (bits_of 2400 5))) = true /\
  match parse_coap (coap_encode m) with Ok (fs, n) => n =? zlen (coap_encode m) - 1 | _ => false end = true.
Proof. vm_compute. repeat split; reflexivity. Qed.

(* ---- the same at the byte level: the byte-level parsers (ParserBytes.v, compared raw with the code) applied to ANY canonical
   left-padded Buffer whose bits are the encoded message return canonical field Buffers with exactly the RFC ids, positions and
   bits (bfields_are bfs fs := Forall canon_bfield bfs /\ map (abs_field abs) bfs = fs), and the payload Buffer likewise ---- *)
Theorem c08_ipv6_header_bytes h rest b : ipv6_wf h -> canon b -> bside b = LEFT -> abs b = ipv6_encode h ++ rest ->
  exists bfs, bparse_ipv6 false b = Ok (bfs, 320) /\ bfields_are bfs (ipv6_fields h).
Proof. exact (c08b_ipv6_header h rest b). Qed.
Theorem c08_ipv4_header_bytes h rest b : ipv4_wf h -> canon b -> bside b = LEFT -> abs b = ipv4_encode h ++ rest ->
  exists bfs, bparse_ipv4 false b = Ok (bfs, 160) /\ bfields_are bfs (ipv4_fields h).
Proof. exact (c08b_ipv4_header h rest b). Qed.
Theorem c08_udp_header_bytes h rest b : udp_wf h -> canon b -> bside b = LEFT -> abs b = udp_encode h ++ rest ->
  exists bfs, bparse_udp false b = Ok (bfs, 64) /\ bfields_are bfs (udp_fields h).
Proof. exact (c08b_udp_header h rest b). Qed.
Theorem c08_coap_message_bytes m b : coap_wf m -> canon b -> bside b = LEFT -> abs b = coap_encode m ->
  exists bfs, bparse_coap b = Ok (bfs, coap_header_len m) /\ bfields_are bfs (coap_fields m).
Proof. exact (c08b_coap_message m b). Qed.
Theorem c08_sctp_packet_bytes p b : sctp_wf p -> canon b -> bside b = LEFT -> abs b = sctp_encode p ->
  exists bfs, bparse_sctp b = Ok (bfs, blen b) /\ bfields_are bfs (sctp_fields p).
Proof. exact (c08b_sctp_packet p b). Qed.
Theorem c08_stack_v6_bytes h u m b : ipv6_wf h -> udp_wf u -> coap_wf m ->
  canon b -> bside b = LEFT -> abs b = ipv6_encode h ++ udp_encode u ++ coap_encode m ->
  exists bfs bpl, bfactory IPv6_UDP_CoAP b = Ok (bfs, bpl) /\
                  bfields_are bfs (ipv6_fields h ++ udp_fields u ++ coap_fields m) /\ bpayload_is bpl (coap_payload_bits m).
Proof. exact (c08b_stack_v6 h u m b). Qed.
Theorem c08_stack_v4_bytes h u m b : ipv4_wf h -> udp_wf u -> coap_wf m ->
  canon b -> bside b = LEFT -> abs b = ipv4_encode h ++ udp_encode u ++ coap_encode m ->
  exists bfs bpl, bfactory IPv4_UDP_CoAP b = Ok (bfs, bpl) /\
                  bfields_are bfs (ipv4_fields h ++ udp_fields u ++ coap_fields m) /\ bpayload_is bpl (coap_payload_bits m).
Proof. exact (c08b_stack_v4 h u m b). Qed.
Theorem c08_predict_udp_bytes u m b : udp_wf u -> coap_wf m -> Z_of_bits (u_dport u) = 5683 ->
  canon b -> bside b = LEFT -> abs b = udp_encode u ++ coap_encode m ->
  exists bfs bpl, bfactory S_UDP b = Ok (bfs, bpl) /\
                  bfields_are bfs (udp_fields u ++ coap_fields m) /\ bpayload_is bpl (coap_payload_bits m).
Proof. exact (c08b_predict_udp u m b). Qed.
Theorem c08_predict_v6_sctp_bytes h p b : ipv6_wf h -> sctp_wf p -> Z_of_bits (v6_nh h) = 132 ->
  canon b -> bside b = LEFT -> abs b = ipv6_encode h ++ sctp_encode p ->
  exists bfs bpl, bfactory S_IPv6 b = Ok (bfs, bpl) /\
                  bfields_are bfs (ipv6_fields h ++ sctp_fields p) /\ bpayload_is bpl [] /\ blen bpl = 0.
Proof. exact (c08b_predict_v6_sctp h p b). Qed.
Theorem c08_predict_v4_sctp_bytes h p b : ipv4_wf h -> sctp_wf p -> Z_of_bits (v4_proto h) = 132 ->
  canon b -> bside b = LEFT -> abs b = ipv4_encode h ++ sctp_encode p ->
  exists bfs bpl, bfactory S_IPv4 b = Ok (bfs, bpl) /\
                  bfields_are bfs (ipv4_fields h ++ sctp_fields p) /\ bpayload_is bpl [] /\ blen bpl = 0.
Proof. exact (c08b_predict_v4_sctp h p b). Qed.

Print Assumptions c08_ipv6_header.
Print Assumptions c08_ipv4_header.
Print Assumptions c08_udp_header.
Print Assumptions c08_coap_message.
Print Assumptions c08_sctp_packet.
Print Assumptions c08_stack_v6.
Print Assumptions c08_stack_v4.
Print Assumptions c08_predict_v6_udp_coap.
Print Assumptions c08_predict_v4_udp_coap.
Print Assumptions c08_predict_udp.
Print Assumptions c08_predict_v6_sctp.
Print Assumptions c08_predict_v4_sctp.
Print Assumptions c08_ipv6_header_bytes.
Print Assumptions c08_ipv4_header_bytes.
Print Assumptions c08_udp_header_bytes.
Print Assumptions c08_coap_message_bytes.
Print Assumptions c08_sctp_packet_bytes.
Print Assumptions c08_stack_v6_bytes.
Print Assumptions c08_stack_v4_bytes.
Print Assumptions c08_predict_udp_bytes.
Print Assumptions c08_predict_v6_sctp_bytes.
Print Assumptions c08_predict_v4_sctp_bytes.
