(* C09 -- Compute actions regenerate lengths and checksums exactly as the RFCs define.
   Model: theories/Compute.v (ipv6.py, ipv4.py, udp.py, sctp.py compute functions, crypto/crc.py).
   RFC side: theories/RfcChecksum.v (one's complement sum as arithmetic modulo 65535, pseudo-headers,
   bit-serial CRC-32c), written independently of the model.  fs is the decompressed field list; the
   field being computed still holds its zero placeholder, which is the "checksum field zero" convention.
   Only statements; proofs in theories/ComputeSpec.v. *)
From Coq Require Import ZArith List Bool.
From MS Require Import PyBase Buffer Bits BufferAbs Schc Crc32cTable Compute RfcChecksum ComputeSpec PySort SchcSpec SchcCodec ComputeBytes ComputeRefine UdpSctpOrder.
Import ListNotations.
Open Scope Z_scope.

(* lengths in bytes: after the IPv6 header, from the IPv4 version nibble, from the UDP source port *)
Theorem c09_ipv6_len fs pos : 0 <= pos -> nbytes (concat (skipn (Z.to_nat (pos + 5)) (vals fs))) < 65536 ->
  ipv6_payload_length fs pos = Ok (bits_of 16 (nbytes (concat (skipn (Z.to_nat (pos + 5)) (vals fs))))).
Proof. exact (c09_ipv6_length fs pos). Qed.
Theorem c09_udp_len fs pos : 2 <= pos < zlen fs -> nbytes (concat (skipn (Z.to_nat (pos - 2)) (vals fs))) < 65536 ->
  udp_length fs pos = Ok (bits_of 16 (nbytes (concat (skipn (Z.to_nat (pos - 2)) (vals fs))))).
Proof. exact (c09_udp_length fs pos). Qed.
Theorem c09_ipv4_len fs pos : 3 <= pos < zlen fs -> zlen (nth (Z.to_nat (pos - 3)) (vals fs) []) = 4 ->
  let dgram := concat (skipn (Z.to_nat (pos - 3)) (vals fs)) in
  zlen dgram mod 8 = 0 -> nbytes dgram < 65536 ->
  ipv4_total_length fs pos = Ok (bits_of 16 (nbytes dgram)).
Proof. exact (c09_ipv4_length fs pos). Qed.
(* IPv4 header checksum (RFC 791 / RFC 1071) over the twelve header fields *)
Theorem c09_ipv4_csum fs pos : 9 <= pos -> pos + 3 <= zlen fs ->
  let hdr := concat (firstn 12 (skipn (Z.to_nat (pos - 9)) (vals fs))) in
  (length hdr mod 16 = 0)%nat ->
  ipv4_checksum fs pos = Ok (bits_of 16 (rfc_ipv4_header_checksum hdr)).
Proof. exact (c09_ipv4_checksum fs pos). Qed.
(* UDP checksum over the IPv6 (RFC 8200 8.1) and IPv4 (RFC 768) pseudo-header, UDP header and payload; odd payloads zero padded, zero sent as 0xFFFF *)
Theorem c09_udp_csum_v6 fs pos sp src dst : 4 <= pos < zlen fs -> 1 <= sp -> sp + 1 <= pos - 4 ->
  fproto (nth (Z.to_nat (pos - 4)) (ids fs) payload_fid) = P_IPv6 ->
  nth (Z.to_nat sp) (ids fs) payload_fid = IPV6_SRC_ADDRESS ->
  (forall j, sp < j <= pos - 4 -> nth (Z.to_nat j) (ids fs) payload_fid <> IPV6_SRC_ADDRESS) ->
  nth (Z.to_nat sp) (vals fs) [] = src -> nth (Z.to_nat (sp + 1)) (vals fs) [] = dst ->
  (length src mod 16 = 0)%nat -> (length dst mod 16 = 0)%nat ->
  let udp := concat (skipn (Z.to_nat (pos - 3)) (vals fs)) in
  nbytes udp < 2 ^ 32 ->
  udp_checksum fs pos = Ok (bits_of 16 (rfc_udp_checksum (pseudo_v6 src dst (nbytes udp)) udp)).
Proof. exact (c09_udp_checksum_v6 fs pos sp src dst). Qed.
Theorem c09_udp_csum_v4 fs pos sp src dst : 4 <= pos < zlen fs -> 1 <= sp -> sp + 1 <= pos - 4 ->
  fproto (nth (Z.to_nat (pos - 4)) (ids fs) payload_fid) = P_IPv4 ->
  nth (Z.to_nat sp) (ids fs) payload_fid = IPV4_SRC_ADDRESS ->
  (forall j, sp < j <= pos - 4 -> nth (Z.to_nat j) (ids fs) payload_fid <> IPV4_SRC_ADDRESS) ->
  nth (Z.to_nat sp) (vals fs) [] = src -> nth (Z.to_nat (sp + 1)) (vals fs) [] = dst ->
  (length src mod 16 = 0)%nat -> (length dst mod 16 = 0)%nat ->
  let udp := concat (skipn (Z.to_nat (pos - 3)) (vals fs)) in
  nbytes udp < 65536 ->
  udp_checksum fs pos = Ok (bits_of 16 (rfc_udp_checksum (pseudo_v4 src dst (nbytes udp)) udp)).
Proof. exact (c09_udp_checksum_v4 fs pos sp src dst). Qed.
(* the end-around-carry fold of the code is the one's complement sum (arithmetic modulo 65535) *)
Theorem c09_fold_padded b : ones_sum (chunks 16 true b) = ones_complement_sum b.
Proof. exact (ones_sum_padded b). Qed.
(* SCTP: every table entry is the bit-serial CRC-32c of its index; the table-driven loop is the bit-serial register;
   the field is the complemented register, least significant byte first (RFC 9260 appendix A) *)
Theorem c09_crc_table i : 0 <= i < 256 -> nth (Z.to_nat i) crc32c_table 0 = crc_byte_step 0 i.
Proof. exact (crc_table_correct i). Qed.
Theorem c09_crc b : b <> [] -> crc32c b 4294967295 = crc32c_register (bytes_of_bits b).
Proof. exact (crc32c_correct b). Qed.
Theorem c09_sctp_crc fs pos : 3 <= pos < zlen fs ->
  let pkt := concat (skipn (Z.to_nat (pos - 3)) (vals fs)) in
  pkt <> [] -> sctp_checksum fs pos = Ok (rfc_sctp_checksum_field pkt).
Proof. exact (c09_sctp_checksum fs pos). Qed.

(* non-vacuity: published check values of the RFC-side definitions *)
Example c09_ex_crc : crc32c_value [49; 50; 51; 52; 53; 54; 55; 56; 57] = 3808858755.
Proof. exact crc32c_check_value. Qed.

(* the compute functions as the code writes them on Buffers (ComputeBytes.v: reduce with +, chunks, value, to_bytes) refine the
   bit-level ones above, function by function and as a table (same keys, same dependency sets): same value or same exception *)
Theorem c09_bytes_table : table_refines bcompute_functions compute_functions.
Proof. exact bcompute_functions_refines. Qed.
Theorem c09_bytes_udp_checksum : fn_refines budp_checksum udp_checksum.
Proof. exact budp_checksum_refines. Qed.
Theorem c09_bytes_ipv4_checksum : fn_refines bipv4_checksum ipv4_checksum.
Proof. exact bipv4_checksum_refines. Qed.
Theorem c09_bytes_sctp_checksum : fn_refines bsctp_checksum sctp_checksum.
Proof. exact bsctp_checksum_refines. Qed.
(* the order in which the functions run is the order Python's list.sort gives the entries (PySort.v: count_run + binary insertion,
   validated against CPython on 99 entry lists in SortExamples.v).  A checksum that covers another computed checksum runs after it:
   for a rule in packet order computing the UDP length, the UDP checksum and the checksum of an SCTP packet carried in the datagram,
   the SCTP checksum is regenerated BEFORE the UDP checksum (what the fix of udp.py restores) *)
Theorem c09_udp_after_sctp pre mid post ulen uck sck :
  no_compute pre = true -> no_compute mid = true -> no_compute post = true ->
  r_cda ulen = Compute -> r_id ulen = UDP_LENGTH ->
  r_cda uck = Compute -> r_id uck = UDP_CHECKSUM ->
  r_cda sck = Compute -> r_id sck = SCTP_CHECKSUM ->
  let p := zlen pre in
  let q := p + 2 + zlen mid in
  py_sort_ces (centries_of compute_functions 0 (pre ++ [ulen; uck] ++ mid ++ [sck] ++ post)) =
  Some [mkcentry p UDP_LENGTH udp_length [];
        mkcentry q SCTP_CHECKSUM sctp_checksum SCTP_ALL_BUT_CHECKSUM;
        mkcentry (p + 1) UDP_CHECKSUM udp_checksum UDP_CHECKSUM_DEPS].
Proof. exact (udp_sctp_rule_order pre mid post ulen uck sck). Qed.
(* already sorted lists are left alone, the sort never fails below 64 entries and only permutes *)
Theorem c09_sort_sorted ces : ce_sorted ces = true -> (length ces < 64)%nat -> py_sort_ces ces = Some ces.
Proof. exact (py_sort_sorted ces). Qed.
Theorem c09_sort_total ces : (length ces < 64)%nat -> exists out, py_sort_ces ces = Some out.
Proof. exact (py_sort_ces_total ces). Qed.

Print Assumptions c09_ipv6_len.
Print Assumptions c09_udp_len.
Print Assumptions c09_ipv4_len.
Print Assumptions c09_ipv4_csum.
Print Assumptions c09_udp_csum_v6.
Print Assumptions c09_udp_csum_v4.
Print Assumptions c09_fold_padded.
Print Assumptions c09_crc_table.
Print Assumptions c09_crc.
Print Assumptions c09_sctp_crc.
Print Assumptions c09_bytes_table.
Print Assumptions c09_bytes_udp_checksum.
Print Assumptions c09_bytes_ipv4_checksum.
Print Assumptions c09_bytes_sctp_checksum.
Print Assumptions c09_udp_after_sctp.
Print Assumptions c09_sort_sorted.
Print Assumptions c09_sort_total.
