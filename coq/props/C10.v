(* C10 -- Rule selection: FIRST takes the first matching rule, BEST the shortest result.
   Model: Schc.cm_compress (manager.py).  Only statements; proofs in theories/SchcRules.v. *)
From Coq Require Import ZArith List Bool.
From MS Require Import PyBase Bits Schc SchcSpec SchcRules Buffer BufferAbs Compute SchcBytes SchcRefine ParserBytes ParserRefine ComputeBytes ComputeRefine ManagerBytes ManagerRefine Parsers ManagerDefault ManagerDefaultBytes.
Import ListNotations.
Open Scope Z_scope.

(* FIRST: the first rule of the set, in order, that applies *)
Theorem c10_first parse rules packet d fs pl :
  parse packet = Ok (fs, pl) -> forallb rule_typed rules = true ->
  let pd := mkpdesc d fs pl in
  cm_compress parse rules packet d FIRST =
    match filter (spec_rule_applies pd) rules with
    | r :: _ => compress pd r (Some d)
    | [] => Exc RuleDescriptorMatchError
    end.
Proof. exact (cm_compress_first parse rules packet d fs pl). Qed.
(* BEST: the output of an applying rule, no applying rule gives a shorter one *)
Theorem c10_best parse rules packet d fs pl :
  parse packet = Ok (fs, pl) -> forallb rule_typed rules = true ->
  let pd := mkpdesc d fs pl in
  let cands := filter (spec_rule_applies pd) rules in
  (forall r, In r cands -> exists s, compress pd r (Some d) = Ok s) ->
  match cands with
  | [] => cm_compress parse rules packet d BEST = Exc RuleDescriptorMatchError
  | _ => exists r s, In r cands /\ compress pd r (Some d) = Ok s /\ cm_compress parse rules packet d BEST = Ok s /\
                     (forall r' s', In r' cands -> compress pd r' (Some d) = Ok s' -> zlen s <= zlen s')
  end.
Proof. exact (cm_compress_best parse rules packet d fs pl). Qed.
(* ties go to the earliest rule: strictly shorter than every applying rule before it *)
Theorem c10_best_earliest parse rules packet d fs pl :
  parse packet = Ok (fs, pl) -> forallb rule_typed rules = true ->
  let pd := mkpdesc d fs pl in
  let cands := filter (spec_rule_applies pd) rules in
  (forall r, In r cands -> exists s, compress pd r (Some d) = Ok s) -> cands <> [] ->
  exists pre r post s, cands = pre ++ r :: post /\ compress pd r (Some d) = Ok s /\
    cm_compress parse rules packet d BEST = Ok s /\
    (forall r' s', In r' pre  -> compress pd r' (Some d) = Ok s' -> zlen s <  zlen s') /\
    (forall r' s', In r' post -> compress pd r' (Some d) = Ok s' -> zlen s <= zlen s').
Proof. exact (cm_compress_best_earliest parse rules packet d fs pl). Qed.
(* BEST is never longer than FIRST *)
Theorem c10_best_le_first parse rules packet d fs pl s1 s2 :
  parse packet = Ok (fs, pl) -> forallb rule_typed rules = true ->
  (forall r, In r (filter (spec_rule_applies (mkpdesc d fs pl)) rules) -> exists s, compress (mkpdesc d fs pl) r (Some d) = Ok s) ->
  cm_compress parse rules packet d FIRST = Ok s1 -> cm_compress parse rules packet d BEST = Ok s2 -> zlen s2 <= zlen s1.
Proof. exact (cm_compress_best_le_first parse rules packet d fs pl s1 s2). Qed.
(* a no-compression rule always applies, so a rule set containing one compresses every parsable packet *)
Theorem c10_default_applies pd r : rule_nature r = NoCompression -> spec_rule_applies pd r = true.
Proof. exact (nocompression_always_applies pd r). Qed.
(* a fragmentation rule never applies (C04), hence is never selected: the outcome of ContextManager.compress, under either strategy,
   result or exception, is that of the rule set without its fragmentation rules (no typing premise: their descriptors are never
   read); a rule set of fragmentation rules only compresses nothing *)
Theorem c10_fragmentation_never_applies pd r : rule_nature r = Fragmentation -> spec_rule_applies pd r = false.
Proof. exact (fragmentation_never_applies pd r). Qed.
Theorem c10_fragmentation_never_selected parse rules packet d st :
  cm_compress parse rules packet d st = cm_compress parse (filter not_fragmentation rules) packet d st.
Proof. exact (cm_compress_ignores_fragmentation parse rules packet d st). Qed.
Theorem c10_only_fragmentation parse rules packet d st p :
  parse packet = Ok p -> Forall (fun r => rule_nature r = Fragmentation) rules ->
  cm_compress parse rules packet d st = Exc RuleDescriptorMatchError.
Proof. exact (cm_compress_only_fragmentation parse rules packet d st p). Qed.

Example c10_ex :
  let r1 := mkrule [true;true;false] NoCompression [] in let r2 := mkrule [false] NoCompression [] in
  let parse := (fun b : bits => Ok ([mkfield (mkfid P_Other 1) b 0], @nil bool)) in
  cm_compress parse [r1; r2] [true;false] Up FIRST = Ok [true;true;false;true;false] /\
  cm_compress parse [r1; r2] [true;false] Up BEST = Ok [false;true;false].
Proof. vm_compute. split; reflexivity. Qed.

(* ContextManager.compress on byte-level Buffers (byte-level parser, matcher, compressor; FIRST and BEST) has the outcome of the
   bit-level manager: the theorems above transfer to it *)
Theorem c10_manager_bytes bparse parse rules packet d st :
  parser_refines bparse parse -> Forall canon_rule rules -> canon packet -> bside packet = LEFT ->
  cm_compress parse (map (abs_rule abs) rules) (abs packet) d st <> Exc Unmodelled ->
  same_outcome bval_rel (bcm_compress bparse rules packet d st)
                        (cm_compress parse (map (abs_rule abs) rules) (abs packet) d st).
Proof. exact (bcm_compress_refines bparse parse rules packet d st). Qed.
Theorem c10_factory_refines s : parser_refines (bfactory s) (Parsers.factory s).
Proof. exact (bfactory_parser_refines s). Qed.
Theorem c10_fragmentation_never_selected_bytes bparse rules packet d st :
  bcm_compress bparse rules packet d st = bcm_compress bparse (filter bnot_fragmentation rules) packet d st.
Proof. exact (bcm_compress_ignores_fragmentation bparse rules packet d st). Qed.

(* non-vacuity: the fragmentation rule has the shortest output (its bare id) and comes first, yet neither strategy takes it *)
Example c10_fragmentation_ex :
  let r0 := mkrule [true] Fragmentation [] in
  let r1 := mkrule [true;true;false] NoCompression [] in let r2 := mkrule [false] NoCompression [] in
  let parse := (fun b : bits => Ok ([mkfield (mkfid P_Other 1) b 0], @nil bool)) in
  compress (mkpdesc Up [mkfield (mkfid P_Other 1) [true;false] 0] []) r0 (Some Up) = Ok [true] /\
  cm_compress parse [r0; r1; r2] [true;false] Up FIRST = Ok [true;true;false;true;false] /\
  cm_compress parse [r0; r1; r2] [true;false] Up BEST = Ok [false;true;false] /\
  cm_compress parse [r0] [true;false] Up FIRST = Exc RuleDescriptorMatchError.
Proof. vm_compute. repeat split; reflexivity. Qed.

(* a rule set with a no-compression rule compresses every parsable packet: under BEST to at most rule-id length + packet length bits
   (with a parser of the registry, whose fields and payload tile the packet: literally the packet's length), under FIRST by the first
   applying rule (ManagerDefault.default_ex: 138 bits by a rule of variable-length fields listed first, 91 = 3 + 88 under BEST) *)
Theorem c10_default_best parse rules packet d fs pl r0 :
  parse packet = Ok (fs, pl) -> forallb rule_typed rules = true ->
  (forall r, In r (filter (spec_rule_applies (mkpdesc d fs pl)) rules) -> exists s, compress (mkpdesc d fs pl) r (Some d) = Ok s) ->
  In r0 rules -> rule_nature r0 = NoCompression ->
  exists s, cm_compress parse rules packet d BEST = Ok s /\ zlen s <= zlen (rule_id r0) + zlen (concat (map f_val fs) ++ pl).
Proof. exact (cm_compress_default_best parse rules packet d fs pl r0). Qed.
Theorem c10_default_best_stack st rules packet d fs pl r0 :
  Parsers.factory st packet = Ok (fs, pl) -> forallb rule_typed rules = true ->
  (forall r, In r (filter (spec_rule_applies (mkpdesc d fs pl)) rules) -> exists s, compress (mkpdesc d fs pl) r (Some d) = Ok s) ->
  In r0 rules -> rule_nature r0 = NoCompression ->
  exists s, cm_compress (Parsers.factory st) rules packet d BEST = Ok s /\ zlen s <= zlen (rule_id r0) + zlen packet.
Proof. exact (cm_compress_default_best_stack st rules packet d fs pl r0). Qed.
Theorem c10_default_first parse rules packet d fs pl r0 :
  parse packet = Ok (fs, pl) -> forallb rule_typed rules = true ->
  (forall r, In r (filter (spec_rule_applies (mkpdesc d fs pl)) rules) -> exists s, compress (mkpdesc d fs pl) r (Some d) = Ok s) ->
  In r0 rules -> rule_nature r0 = NoCompression ->
  exists s, cm_compress parse rules packet d FIRST = Ok s.
Proof. exact (cm_compress_default_first parse rules packet d fs pl r0). Qed.

(* the same on Buffers: ContextManager.compress with a byte-level parser of the registry *)
Theorem c10_default_best_bytes st rules packet d fs pl r0 :
  Forall canon_rule rules -> canon packet -> bside packet = LEFT ->
  let arules := map (abs_rule abs) rules in
  Parsers.factory st (abs packet) = Ok (fs, pl) -> forallb rule_typed arules = true ->
  (forall r, In r (filter (spec_rule_applies (mkpdesc d fs pl)) arules) -> exists s, compress (mkpdesc d fs pl) r (Some d) = Ok s) ->
  In r0 rules -> brule_nature r0 = NoCompression ->
  exists x, bcm_compress (bfactory st) rules packet d BEST = Ok x /\ canon x /\ blen x <= blen (brule_id r0) + blen packet.
Proof. exact (bcm_compress_default_best_stack st rules packet d fs pl r0). Qed.

Print Assumptions c10_first.
Print Assumptions c10_best.
Print Assumptions c10_best_earliest.
Print Assumptions c10_best_le_first.
Print Assumptions c10_default_applies.
Print Assumptions c10_fragmentation_never_applies.
Print Assumptions c10_fragmentation_never_selected.
Print Assumptions c10_only_fragmentation.
Print Assumptions c10_fragmentation_never_selected_bytes.
Print Assumptions c10_manager_bytes.
Print Assumptions c10_factory_refines.
Print Assumptions c10_default_best.
Print Assumptions c10_default_best_stack.
Print Assumptions c10_default_first.
Print Assumptions c10_default_best_bytes.
