(* C11 -- A SCHC packet is dispatched to the rule whose ID it starts with.
   Model: Schc.match_schc_packet (ruler.py).  Only statements; proofs in theories/SchcRules.v. *)
From Coq Require Import ZArith List Bool.
From MS Require Import PyBase Buffer Bits BufferAbs Schc SchcSpec SchcRules SchcBytes SchcRefine Compute ParserBytes ParserRefine ComputeBytes ComputeRefine ManagerBytes ManagerRefine.
Import ListNotations.
Open Scope Z_scope.

(* prefix-free ids of any lengths: the rule whose id leads the string is returned, whatever follows *)
Theorem c11_dispatch rules r rest : prefix_free rules -> In r rules ->
  match_schc_packet rules (rule_id r ++ rest) = Ok r.
Proof. exact (match_schc_packet_dispatch rules r rest). Qed.
(* no id is a prefix (including strings shorter than every id): the rule-ID error *)
Theorem c11_none rules s :
  (forall r, In r rules -> is_prefix (rule_id r) s = false) -> match_schc_packet rules s = Exc RuleIDMatchError.
Proof. exact (match_schc_packet_none rules s). Qed.
(* whatever the rule set: a returned rule's id is a prefix of the packet and no earlier rule's id is *)
Theorem c11_first rules s r : match_schc_packet rules s = Ok r ->
  exists pre post, rules = pre ++ r :: post /\ is_prefix (rule_id r) s = true /\
                   forall r', In r' pre -> is_prefix (rule_id r') s = false.
Proof. exact (match_schc_packet_first rules s r). Qed.
(* every SCHC packet produced with rule r is decompressed with r *)
Theorem c11_manager ct rules r rest d : prefix_free rules -> In r rules ->
  cm_decompress ct rules (rule_id r ++ rest) d = decompress ct (rule_id r ++ rest) r d.
Proof. exact (cm_decompress_dispatch ct rules r rest d). Qed.

(* composition with the byte-level Buffer model: the lookup written with b_getitem and b_eq finds the same rule *)
Theorem c11_dispatch_bytes rules s : canon s -> Forall canon_rule rules ->
  exists o, bmatch_schc_loop rules s = Ok o /\
            option_map (abs_rule abs) o = match_schc_loop (map (abs_rule abs) rules) (abs s) /\
            match o with Some r => In r rules | None => True end.
Proof. exact (bmatch_schc_loop_refines rules s). Qed.

Example c11_ex :
  let r1 := mkrule [true;true;false] NoCompression [] in let r2 := mkrule [true;false] NoCompression [] in
  match_schc_packet [r1; r2] [true;false;true;true] = Ok r2 /\ match_schc_packet [r1; r2] [true] = Exc RuleIDMatchError.
Proof. vm_compute. split; reflexivity. Qed.
(* the dispatch does not look at the nature: a fragmentation rule whose id leads the packet is returned (c11_dispatch covers
   it), and ContextManager.decompress then strips the id and decodes its (normally absent) descriptors *)
Example c11_fragmentation_ex :
  let r1 := mkrule [true;true;false] Fragmentation [] in let r2 := mkrule [true;false] NoCompression [] in
  match_schc_packet [r1; r2] [true;true;false;true] = Ok r1 /\
  cm_decompress (fun _ => None) [r1; r2] [true;true;false;true;false] (Some Up) = Ok [true;false].
Proof. vm_compute. split; reflexivity. Qed.

(* rule-id dispatch on byte-level Buffers (Ruler.match_schc_packet with Buffer slices and ==) *)
Theorem c11_found_bytes rules r s rest : bprefix_free rules -> Forall canon_rule rules ->
  In r rules -> canon s -> abs s = abs (brule_id r) ++ rest ->
  bmatch_schc_packet rules s = Ok r.
Proof. exact (bytes_dispatch rules r s rest). Qed.
Theorem c11_manager_bytes rules r s rest d : bprefix_free rules -> Forall canon_rule rules ->
  In r rules -> canon s -> abs s = abs (brule_id r) ++ rest ->
  bcm_decompress rules s d = bdecompress_c s r d.
Proof. exact (bytes_dispatch_manager rules r s rest d). Qed.
Theorem c11_compressed_bytes rules r pd d x : bprefix_free rules -> Forall canon_rule rules -> In r rules ->
  canon_pdesc pd -> compress (abs_pdesc abs pd) (abs_rule abs r) d <> Exc Unmodelled ->
  bcompress pd r d = Ok x -> bmatch_schc_packet rules x = Ok r.
Proof. exact (bytes_dispatch_compressed rules r pd d x). Qed.

Print Assumptions c11_dispatch.
Print Assumptions c11_none.
Print Assumptions c11_first.
Print Assumptions c11_manager.
Print Assumptions c11_dispatch_bytes.
Print Assumptions c11_found_bytes.
Print Assumptions c11_manager_bytes.
Print Assumptions c11_compressed_bytes.
