(* C12 -- Contexts, rules and buffers survive the JSON round trip unchanged in behaviour.
   Model: theories/Json.v (__json__ / __from_json_object__ of Buffer, MatchMapping, FieldDescriptor,
   PacketDescriptor, RuleFieldDescriptor, RuleDescriptor, Context over a JSON tree; loading a Buffer
   goes through the byte-level constructor b_new).  json.dumps/loads, bytes.hex/fromhex and the
   str <-> enum conversions are trusted.  The reloaded object is EQUAL to the original (Leibniz equality
   of the model records), hence indistinguishable in use and serialised identically.
   Only statements; proofs in theories/JsonSpec.v. *)
From Coq Require Import ZArith List Bool.
From MS Require Import PyBase Buffer BufferAbs Schc Json JsonSpec.
Import ListNotations.
Open Scope Z_scope.

Theorem c12_buffer b : canon b -> buf_from_json (buf_to_json b) = Ok b.
Proof. exact (buf_json_roundtrip b). Qed.
Theorem c12_mapping fw : mapping_ok fw -> exists j, mm_to_json fw = Ok j /\ mm_from_json j = Ok fw.
Proof. exact (mm_json_roundtrip fw). Qed.
Theorem c12_field f : jfield_ok f -> field_from_json (field_to_json f) = Ok f.
Proof. exact (field_json_roundtrip f). Qed.
Theorem c12_header h : jheader_ok h -> header_from_json (header_to_json h) = Ok h.
Proof. exact (header_json_roundtrip h). Qed.
Theorem c12_packet p : jpdesc_ok p -> pdesc_from_json (pdesc_to_json p) = Ok p.
Proof. exact (pdesc_json_roundtrip p). Qed.
Theorem c12_rfd f : jrfd_ok f -> exists j, rfd_to_json f = Ok j /\ rfd_from_json j = Ok f.
Proof. exact (rfd_json_roundtrip f). Qed.
Theorem c12_rule r : jrule_ok r -> exists j, rule_to_json r = Ok j /\ rule_from_json j = Ok r.
Proof. exact (rule_json_roundtrip r). Qed.
Theorem c12_context c : jcontext_ok c -> exists j, context_to_json c = Ok j /\ context_from_json j = Ok c.
Proof. exact (context_json_roundtrip c). Qed.
Theorem c12_stable c : jcontext_ok c ->
  exists j c', context_to_json c = Ok j /\ context_from_json j = Ok c' /\ context_to_json c' = Ok j.
Proof. exact (context_json_stable c). Qed.
(* fragmentation rules are outside the round trip (jrule_ok excludes them): RuleDescriptor.__json__ raises NotImplementedError on
   such a rule whatever its id and descriptors; __from_json_object__ raises NotImplementedError on every object whose 'nature' is
   neither 'compression' nor 'no-compression', so no loaded rule is a fragmentation rule; a context holding a fragmentation
   rule (after rules that serialise) is not serialisable *)
Theorem c12_fragmentation_to_json r : jr_nature r = Fragmentation -> rule_to_json r = Exc NotImplementedError.
Proof. exact (rule_to_json_fragmentation r). Qed.
Theorem c12_fragmentation_from_json j v : jget j K_nature = Ok v ->
  v <> JNature Compression -> v <> JNature NoCompression -> rule_from_json j = Exc NotImplementedError.
Proof. exact (rule_from_json_fragmentation j v). Qed.
Theorem c12_loaded_not_fragmentation j r : rule_from_json j = Ok r -> jr_nature r <> Fragmentation.
Proof. exact (rule_from_json_not_fragmentation j r). Qed.
Theorem c12_fragmentation_context c pre r post :
  jc_rules c = pre ++ r :: post -> Forall jrule_ok pre -> jr_nature r = Fragmentation ->
  context_to_json c = Exc NotImplementedError.
Proof. exact (context_to_json_fragmentation c pre r post). Qed.
Example c12_fragmentation_ex :
  let b := mkbuf [192] 3 RIGHT 5 in
  rule_to_json (mkjrule b Fragmentation []) = Exc NotImplementedError /\
  rule_from_json (JObj [(K_id, buf_to_json b); (K_nature, JNature Fragmentation)]) = Exc NotImplementedError.
Proof. vm_compute. split; reflexivity. Qed.

(* non-vacuity: a right-padded non byte-aligned buffer and a match-mapping / value-sent descriptor *)
Example c12_ex :
  let b := mkbuf [160] 3 RIGHT 5 in
  let f := mkjrfd (mkfid P_UDP 1) 3 0 Up (JTVmap [(b, mkbuf [1] 1 LEFT 7)]) MO_mapping ValueSent in
  buf_from_json (buf_to_json b) = Ok b /\ (do j <- rfd_to_json f ;; rfd_from_json j) = Ok f.
Proof. vm_compute. split; reflexivity. Qed.

Print Assumptions c12_buffer.
Print Assumptions c12_mapping.
Print Assumptions c12_field.
Print Assumptions c12_header.
Print Assumptions c12_packet.
Print Assumptions c12_rfd.
Print Assumptions c12_rule.
Print Assumptions c12_context.
Print Assumptions c12_stable.
Print Assumptions c12_fragmentation_to_json.
Print Assumptions c12_fragmentation_from_json.
Print Assumptions c12_loaded_not_fragmentation.
Print Assumptions c12_fragmentation_context.
