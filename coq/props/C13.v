(* C13 -- Buffer equality is bit equality and hashing agrees with it.
   Model: theories/Buffer.v (b_eq, b_hash_key, dict_get/dict_set: CPython dict lookup by hash then ==).
   Only statements; proofs in theories/BufferSpec.v. *)
From Coq Require Import ZArith List Bool.
From MS Require Import PyBase Buffer Bits ByteFacts BufferAbs BufferSpec Schc BufferHeap BufferHeapSpec BufferHeapBits SchcBytes SchcRefine MappingBytes.
Import ListNotations.
Open Scope Z_scope.

(* a == b exactly when same length and same bits, whatever the two padding sides *)
Theorem c13_eq a b : canon a -> canon b -> b_eq a b = Ok (bits_eqb (abs a) (abs b)).
Proof. exact (eq_bits a b). Qed.
Theorem c13_eqb_iff x y : bits_eqb x y = true <-> x = y.
Proof. exact (bits_eqb_eq x y). Qed.
(* equal buffers hash alike (the hash is that of one byte string determined by the bits) *)
Theorem c13_hash a b : canon a -> canon b -> abs a = abs b -> exists h, b_hash_key a = Ok h /\ b_hash_key b = Ok h.
Proof. exact (hash_bits a b). Qed.
(* a dictionary keyed by buffers behaves as one keyed by their bit sequences: a key is found through any equal buffer *)
Theorem c13_dict_get {V} (d : list (buf * V)) p : Forall (fun kv => canon (fst kv)) d -> canon p ->
  dict_get d p = Ok (assoc_get (abs_keys d) (abs p)).
Proof. exact (dict_get_bits d p). Qed.
Theorem c13_dict_set {V} (d : list (buf * V)) k (v : V) : Forall (fun kv => canon (fst kv)) d -> canon k ->
  exists d', dict_set d k v = Ok d' /\ Forall (fun kv => canon (fst kv)) d' /\ abs_keys d' = assoc_set (abs_keys d) (abs k) v.
Proof. exact (dict_set_bits d k v). Qed.

Example c13_ex :
  b_eq (mkbuf [1] 1 LEFT 7) (mkbuf [128] 1 RIGHT 7) = Ok true /\
  b_hash_key (mkbuf [1] 1 LEFT 7) = b_hash_key (mkbuf [128] 1 RIGHT 7) /\
  dict_get [(mkbuf [128] 1 RIGHT 7, 5)] (mkbuf [1] 1 LEFT 7) = Ok (Some 5).
Proof. vm_compute. repeat split; reflexivity. Qed.

(* the same on Buffer OBJECTS (heap model BufferHeap.v): == and hash() of objects in any heap, the two possibly the same object; no object is changed by comparing or hashing *)
Theorem c13_eq_objects a b h ab bb : nth_error h a = Some ab -> nth_error h b = Some bb -> canon ab -> canon bb ->
  fst (h_eq a b h) = Ok (bits_eqb (abs ab) (abs bb)) /\ extends h (snd (h_eq a b h)).
Proof. exact (obj_eq a b h ab bb). Qed.
Theorem c13_hash_objects a b h ab bb : nth_error h a = Some ab -> nth_error h b = Some bb -> canon ab -> canon bb -> abs ab = abs bb ->
  exists k, fst (h_hash_key a h) = Ok k /\ fst (h_hash_key b h) = Ok k /\
            extends h (snd (h_hash_key a h)) /\ extends h (snd (h_hash_key b h)).
Proof. exact (obj_hash a b h ab bb). Qed.
(* match-mapping lookups (SchcBytes.bfield_match: `field.value in target_values.forward`) on canonical keys and a canonical value of ANY
   padding sides: found exactly when some key has the bits of the value *)
Theorem c13_match_mapping_bytes pf rf fw : canon (bf_val pf) -> canon_rfd rf ->
  br_mo rf = MO_mapping -> br_tv rf = BTVmap fw -> bf_id pf = br_id rf ->
  bfield_match pf rf = Ok (existsb (fun kv => bits_eqb (abs (fst kv)) (abs (bf_val pf))) fw).
Proof. exact (match_mapping_bytes pf rf fw). Qed.
Theorem c13_match_mapping_found pf rf fw k i : canon (bf_val pf) -> canon_rfd rf ->
  br_mo rf = MO_mapping -> br_tv rf = BTVmap fw -> bf_id pf = br_id rf ->
  In (k, i) fw -> abs k = abs (bf_val pf) -> bfield_match pf rf = Ok true.
Proof. exact (match_mapping_found pf rf fw k i). Qed.
Print Assumptions c13_eq.
Print Assumptions c13_eqb_iff.
Print Assumptions c13_hash.
Print Assumptions c13_dict_get.
Print Assumptions c13_dict_set.
Print Assumptions c13_eq_objects.
Print Assumptions c13_hash_objects.
Print Assumptions c13_match_mapping_bytes.
Print Assumptions c13_match_mapping_found.
