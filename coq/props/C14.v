(* C14 -- Parsers terminate on any input and reject bad input only with ParserError.
   Model: theories/Parsers.v.  Every loop of the model runs on explicit fuel (bit length + 1) and
   returns Diverge when the fuel runs out; the theorems say that for EVERY bit string the outcome is a
   descriptor or ParserError -- in particular never Diverge (each CoAP option consumes >= 8 bits, each
   SCTP chunk and parameter >= 32 bits) and never another exception.
   Only statements; proofs in theories/ParserTiling.v. *)
From Coq Require Import ZArith List Bool.
From MS Require Import PyBase Bits Schc Parsers ParserTiling Buffer BufferAbs SchcBytes ParserBytes ParserRefine EndToEnd.
Import ListNotations.
Open Scope Z_scope.

Theorem c14_coap b : parser_outcome (parse_coap b).
Proof. exact (coap_total b). Qed.
Theorem c14_sctp b : parser_outcome (parse_sctp b).
Proof. exact (sctp_total b). Qed.
Theorem c14_udp pr b : parser_outcome (parse_udp pr b).
Proof. exact (udp_total pr b). Qed.
Theorem c14_ipv6 pr b : parser_outcome (parse_ipv6 pr b).
Proof. exact (ipv6_total pr b). Qed.
Theorem c14_ipv4 pr b : parser_outcome (parse_ipv4 pr b).
Proof. exact (ipv4_total pr b). Qed.
Theorem c14_stack s b : parser_outcome (factory s b).
Proof. exact (factory_total s b). Qed.
(* the same at the byte level (ParserBytes.v): on every canonical left-padded packet Buffer the byte-level parsers return a
   packet descriptor or raise ParserError; they never diverge and raise nothing else *)
Theorem c14_stack_bytes s b : canon b -> bside b = LEFT -> parser_outcome (bfactory s b).
Proof. exact (bfactory_total s b). Qed.
Theorem c14_bytes_same_exception s b e : canon b -> bside b = LEFT -> bfactory s b = Exc e -> factory s (abs b) = Exc e.
Proof. exact (bfactory_exc_inv s b e). Qed.

(* non-vacuity: the former endless loop (common header followed by a zero-length chunk) is rejected *)
Example c14_ex : parse_sctp (bits_of 96 1 ++ bits_of 32 0) = Exc ParserError /\ parse_coap (bits_of 8 0) = Exc ParserError.
Proof. vm_compute. split; reflexivity. Qed.

Print Assumptions c14_coap.
Print Assumptions c14_sctp.
Print Assumptions c14_udp.
Print Assumptions c14_ipv6.
Print Assumptions c14_ipv4.
Print Assumptions c14_stack.
Print Assumptions c14_stack_bytes.
Print Assumptions c14_bytes_same_exception.
