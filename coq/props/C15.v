(* C15 -- Failures raise the library's own errors, so contexts can fall through.
   Model: Schc.cm_compress / cm_decompress (manager.py), Schc.schc_compress / schc_decompress
   (/repo/microschc.py).  Only statements; proofs in theories/SchcRules.v. *)
From Coq Require Import ZArith List Bool.
From MS Require Import PyBase Bits Schc SchcSpec SchcRules EndToEnd Buffer BufferAbs Compute SchcBytes SchcRefine ParserBytes ParserRefine ComputeBytes ComputeRefine ManagerBytes ManagerRefine SchcRoundtrip FrontRoundtrip FrontRoundtripBytes.
Import ListNotations.
Open Scope Z_scope.

(* no rule applies: the rule-match error, under both strategies *)
Theorem c15_nomatch_first parse rules packet d fs pl :
  parse packet = Ok (fs, pl) -> forallb rule_typed rules = true ->
  filter (spec_rule_applies (mkpdesc d fs pl)) rules = [] ->
  cm_compress parse rules packet d FIRST = Exc RuleDescriptorMatchError.
Proof. exact (cm_compress_nomatch_first parse rules packet d fs pl). Qed.
Theorem c15_nomatch_best parse rules packet d fs pl :
  parse packet = Ok (fs, pl) -> forallb rule_typed rules = true ->
  filter (spec_rule_applies (mkpdesc d fs pl)) rules = [] ->
  cm_compress parse rules packet d BEST = Exc RuleDescriptorMatchError.
Proof. exact (cm_compress_nomatch_best parse rules packet d fs pl). Qed.
(* an unparsable packet: the parser's error (ParserError by C14) *)
Theorem c15_unparsable parse rules packet d st e : parse packet = Exc e -> cm_compress parse rules packet d st = Exc e.
Proof. exact (cm_compress_parse_error parse rules packet d st e). Qed.
(* no rule id leads the SCHC packet: the rule-ID error *)
Theorem c15_noid ct rules s d :
  (forall r, In r rules -> is_prefix (rule_id r) s = false) -> cm_decompress ct rules s d = Exc RuleIDMatchError.
Proof. exact (cm_decompress_noid ct rules s d). Qed.
(* the front end tries the contexts in order, skips those that signal such an error ... *)
Theorem c15_front_skip c cs p : falls_through (cm_compress (ctx_parse c) (ctx_rules c) p Up FIRST) = true ->
  schc_compress (c :: cs) p = schc_compress cs p.
Proof. exact (schc_compress_skip c cs p). Qed.
Theorem c15_front_take c cs p : falls_through (cm_compress (ctx_parse c) (ctx_rules c) p Up FIRST) = false ->
  schc_compress (c :: cs) p = cm_compress (ctx_parse c) (ctx_rules c) p Up FIRST.
Proof. exact (schc_compress_take c cs p). Qed.
(* ... and returns the packet unchanged when none applies *)
Theorem c15_front_passthrough ctxs p :
  Forall (fun c => falls_through (cm_compress (ctx_parse c) (ctx_rules c) p Up FIRST) = true) ctxs -> schc_compress ctxs p = Ok p.
Proof. exact (schc_compress_passthrough ctxs p). Qed.
Theorem c15_front_decompress_skip ct c cs p : cm_decompress ct (ctx_rules c) p (Some Up) = Exc RuleIDMatchError ->
  schc_decompress ct (c :: cs) p = schc_decompress ct cs p.
Proof. exact (schc_decompress_skip ct c cs p). Qed.
Theorem c15_front_decompress_take ct c cs p : cm_decompress ct (ctx_rules c) p (Some Up) <> Exc RuleIDMatchError ->
  schc_decompress ct (c :: cs) p = cm_decompress ct (ctx_rules c) p (Some Up).
Proof. exact (schc_decompress_take ct c cs p). Qed.
Theorem c15_front_decompress_passthrough ct ctxs p :
  Forall (fun c => cm_decompress ct (ctx_rules c) p (Some Up) = Exc RuleIDMatchError) ctxs -> schc_decompress ct ctxs p = Ok p.
Proof. exact (schc_decompress_passthrough ct ctxs p). Qed.

Example c15_ex :
  let r := mkrule [true] Compression [mkrfd (mkfid P_Other 1) 1 0 Bi (TVbuf [true]) MO_equal NotSent] in
  let parse := (fun b : bits => Ok ([mkfield (mkfid P_Other 1) b 0], @nil bool)) in
  cm_compress parse [r] [false] Up FIRST = Exc RuleDescriptorMatchError /\
  cm_compress parse [r] [false] Up BEST = Exc RuleDescriptorMatchError /\
  schc_compress [mkctx parse [r]] [false] = Ok [false].
Proof. vm_compute. repeat split; reflexivity. Qed.

(* the same error behaviour on byte-level Buffers: manager and front end *)
Theorem c15_nomatch_bytes s rules b d st bfs bpl :
  canon b -> bside b = LEFT -> Forall canon_rule rules -> bfactory s b = Ok (bfs, bpl) ->
  forallb rule_typed (map (abs_rule abs) rules) = true ->
  filter (spec_rule_applies (abs_pdesc abs (mkbpdesc d bfs bpl))) (map (abs_rule abs) rules) = [] ->
  bcm_compress (bfactory s) rules b d st = Exc RuleDescriptorMatchError.
Proof. exact (bytes_nomatch_factory s rules b d st bfs bpl). Qed.
Theorem c15_noid_bytes rules s d : Forall canon_rule rules -> canon s ->
  (forall r, In r rules -> is_prefix (abs (brule_id r)) (abs s) = false) ->
  bmatch_schc_packet rules s = Exc RuleIDMatchError /\ bcm_decompress rules s d = Exc RuleIDMatchError.
Proof. exact (bytes_noid rules s d). Qed.
Theorem c15_front_compress_bytes bctxs ctxs packet : Forall2 ctx_rel bctxs ctxs -> canon packet -> bside packet = LEFT ->
  schc_compress ctxs (abs packet) <> Exc Unmodelled ->
  same_outcome bval_rel (bschc_compress bctxs packet) (schc_compress ctxs (abs packet)).
Proof. exact (bschc_compress_refines bctxs ctxs packet). Qed.
Theorem c15_front_decompress_bytes bctxs ctxs packet : Forall2 ctx_rules_rel bctxs ctxs -> canon packet ->
  same_outcome bval_rel (bschc_decompress bctxs packet) (schc_decompress compute_functions ctxs (abs packet)).
Proof. exact (bschc_decompress_refines bctxs ctxs packet). Qed.

(* "what it compresses it also decompresses back": when the contexts before the one that takes the packet claim no prefix of the SCHC
   packet (rule ids prefix-free across the contexts of an interface) and that context's manager round-trips (C01) *)
Theorem c15_front_roundtrip ct pre c post p s :
  Forall (fun c' => falls_through (cm_compress (ctx_parse c') (ctx_rules c') p Up FIRST) = true) pre ->
  cm_compress (ctx_parse c) (ctx_rules c) p Up FIRST = Ok s ->
  Forall (fun c' => forall r, In r (ctx_rules c') -> is_prefix (rule_id r) s = false) pre ->
  cm_decompress ct (ctx_rules c) s (Some Up) = Ok p ->
  schc_compress (pre ++ c :: post) p = Ok s /\ schc_decompress ct (pre ++ c :: post) s = Ok p.
Proof. exact (front_roundtrip ct pre c post p s). Qed.
Theorem c15_front_roundtrip_c01 ct pre c post p fs pl :
  Forall (fun c' => falls_through (cm_compress (ctx_parse c') (ctx_rules c') p Up FIRST) = true) pre ->
  ctx_parse c p = Ok (fs, pl) -> concat (map f_val fs) ++ pl = p ->
  prefix_free (ctx_rules c) -> forallb rule_typed (ctx_rules c) = true ->
  (forall r, In r (ctx_rules c) -> spec_rule_applies (mkpdesc Up fs pl) r = true ->
     (rule_nature r = NoCompression /\ rule_fds r = []) \/
     (rule_ok_dec ct Up (mkpdesc Up fs pl) r /\
      let rfs := select_fds (Some Up) (rule_fds r) in
      ce_sorted (centries_of ct 0 rfs) = true /\ (length (centries_of ct 0 rfs) < 64)%nat /\
      run_computes (centries_of ct 0 rfs) (combine (map r_id rfs) (map2 pre_value rfs fs) ++ [(payload_fid, pl)])
        = Ok (combine (map r_id rfs) (map f_val fs) ++ [(payload_fid, pl)]))) ->
  forall s, cm_compress (ctx_parse c) (ctx_rules c) p Up FIRST = Ok s ->
  Forall (fun c' => forall r, In r (ctx_rules c') -> is_prefix (rule_id r) s = false) pre ->
  schc_compress (pre ++ c :: post) p = Ok s /\ schc_decompress ct (pre ++ c :: post) s = Ok p.
Proof. exact (front_roundtrip_c01 ct pre c post p fs pl). Qed.
(* the same on Buffers (the byte-level front end): canonical Buffers with the same bits; == of the result and the packet is True *)
Theorem c15_front_roundtrip_bytes bctxs ctxs packet s : Forall2 ctx_rel bctxs ctxs -> canon packet -> bside packet = LEFT ->
  schc_compress ctxs (abs packet) = Ok s -> schc_decompress compute_functions ctxs s = Ok (abs packet) ->
  exists x y, bschc_compress bctxs packet = Ok x /\ canon x /\ abs x = s /\
              bschc_decompress bctxs x = Ok y /\ canon y /\ abs y = abs packet /\ b_eq y packet = Ok true.
Proof. exact (bfront_roundtrip bctxs ctxs packet s). Qed.
Theorem c15_front_roundtrip_ctx_bytes bpre bc bpost pre c post packet s :
  Forall2 ctx_rel (bpre ++ bc :: bpost) (pre ++ c :: post) -> canon packet -> bside packet = LEFT ->
  Forall (fun c' => falls_through (cm_compress (ctx_parse c') (ctx_rules c') (abs packet) Up FIRST) = true) pre ->
  cm_compress (ctx_parse c) (ctx_rules c) (abs packet) Up FIRST = Ok s ->
  Forall (fun c' => forall r, In r (ctx_rules c') -> is_prefix (rule_id r) s = false) pre ->
  cm_decompress compute_functions (ctx_rules c) s (Some Up) = Ok (abs packet) ->
  exists x y, bschc_compress (bpre ++ bc :: bpost) packet = Ok x /\ canon x /\ abs x = s /\
              bschc_decompress (bpre ++ bc :: bpost) x = Ok y /\ canon y /\ abs y = abs packet /\ b_eq y packet = Ok true.
Proof. exact (bfront_roundtrip_ctx bpre bc bpost pre c post packet s). Qed.
Print Assumptions c15_nomatch_first.
Print Assumptions c15_nomatch_best.
Print Assumptions c15_unparsable.
Print Assumptions c15_noid.
Print Assumptions c15_front_skip.
Print Assumptions c15_front_take.
Print Assumptions c15_front_passthrough.
Print Assumptions c15_front_decompress_skip.
Print Assumptions c15_front_decompress_take.
Print Assumptions c15_front_decompress_passthrough.
Print Assumptions c15_nomatch_bytes.
Print Assumptions c15_noid_bytes.
Print Assumptions c15_front_compress_bytes.
Print Assumptions c15_front_decompress_bytes.
Print Assumptions c15_front_roundtrip.
Print Assumptions c15_front_roundtrip_c01.
Print Assumptions c15_front_roundtrip_bytes.
Print Assumptions c15_front_roundtrip_ctx_bytes.
