(* C16 -- Operations are pure: inputs never modified, results independent of history.
   Two models.  (I) theories/BufferHeap.v: the Buffer class as MUTABLE OBJECTS -- a heap of records, every method written
   with the attribute reads, attribute assignments, constructor calls and inner method calls the Python source has, returning
   references.  About it the theorems below say, for ALL heaps, references, arguments and outcomes (exceptions included):
   an operation that is not explicitly in place only appends new objects to the heap (no existing object changes in any
   attribute: bits, length, padding side, padding length), an in-place operation changes at most its receiver, the object
   returned by an operation that is not in place is a new one (never an operand), programs of any length inherit this, and
   every method computes exactly the value the value-level model Buffer.v computes -- also when operands are the same object.
   This model is run against the implementation step by step (harness/bufheap.py: outcome, identity of the returned object,
   attributes of every object held).  (II) the value-level statements kept from before: the value computed by shift/pad does
   not depend on working in place or on a copy, copying is the identity, a context manager answers every call of any history
   as a fresh one does (true by construction of the functional model: ContextManager methods assign nothing).
   (I b, I c) the same for compress, decompress with its compute stage, field matching, rule-id dispatch, the parsers of all seven
   configurations, the context manager and the front end, written over references into the same heap.
   Still partial by nature above the Buffer objects: that the Python lists and records of rules, contexts and descriptors and the
   module-level tables of the real process are untouched is established by the harness (snapshots, long-lived against fresh objects). *)
From Coq Require Import ZArith List Bool.
From MS Require Import PyBase Buffer Bits ByteFacts BufferAbs BufferSpec Schc SchcBytes ParserBytes ComputeBytes ManagerBytes Effects BufferHeap BufferHeapSpec SchcHeap ParserHeap ManagerHeap ComputeHeap.
Import ListNotations.
Open Scope Z_scope.

(* ---- (I) objects ------------------------------------------------------------------------------ *)
Theorem c16_pure_frame o h r h' : hop_pure o = true -> hstep o h = (r, h') -> exists ext, h' = h ++ ext.
Proof. exact (hstep_pure_frame o h r h'). Qed.
Theorem c16_pure_keeps o h r h' y : hop_pure o = true -> hstep o h = (r, h') -> (y < length h)%nat -> nth_error h' y = nth_error h y.
Proof. exact (hstep_pure_keeps o h r h' y). Qed.
Theorem c16_inplace_frame o r h x h' : hop_receiver o = Some r -> hstep o h = (x, h') ->
  (length h <= length h')%nat /\ forall y, (y < length h)%nat -> y <> r -> nth_error h' y = nth_error h y.
Proof. exact (hstep_inplace_frame o r h x h'). Qed.
Theorem c16_pure_fresh o h x h' : hop_pure o = true -> hstep o h = (Ok x, h') ->
  fresh_out h x /\ (match x with ORef y => (y < length h')%nat | ORefs l => Forall (fun y => (y < length h')%nat) l /\ NoDup l | _ => True end).
Proof. exact (hstep_pure_fresh o h x h'). Qed.
Theorem c16_inplace_result o r h x h' : hop_receiver o = Some r -> hstep o h = (Ok (ORef x), h') ->
  x = r \/ ((length h <= x)%nat /\ exists sd, o = HPad r sd true).
Proof. exact (hstep_inplace_result o r h x h'). Qed.
Theorem c16_program_pure ops h : forallb hop_pure ops = true -> Forall (fun rh => extends h (snd rh)) (hrun ops h).
Proof. exact (hrun_pure_frame ops h). Qed.
Theorem c16_program_frame ops h y : (y < length h)%nat -> Forall (fun o => hop_receiver o <> Some y) ops ->
  Forall (fun rh => nth_error (snd rh) y = nth_error h y) (hrun ops h).
Proof. exact (hrun_frame ops h y). Qed.
(* the heap methods compute what Buffer.v computes (operands may be one and the same object) *)
Theorem c16_add_refines h l r lb rb : nth_error h l = Some lb -> nth_error h r = Some rb ->
  match h_add l r h with
  | (Ok x, h') => exists v, b_add lb rb = Ok v /\ nth_error h' x = Some v
  | (Exc e, _) => b_add lb rb = Exc e
  | (Diverge, _) => b_add lb rb = Diverge
  end.
Proof. exact (h_add_refines h l r lb rb). Qed.
Theorem c16_setitem_refines r s e v h b vb : nth_error h r = Some b -> nth_error h v = Some vb ->
  match h_setitem r s e v h with
  | (Ok x, h') => x = r /\ exists w, b_setitem b s e vb = Ok w /\ nth_error h' r = Some w
  | (Exc x, _) => b_setitem b s e vb = Exc x
  | (Diverge, _) => b_setitem b s e vb = Diverge
  end.
Proof. exact (h_setitem_refines r s e v h b vb). Qed.
Theorem c16_value_refines r h b : nth_error h r = Some b -> fst (h_value r h) = b_value b /\ extends h (snd (h_value r h)).
Proof. exact (h_value_refines r h b). Qed.
Theorem c16_chunks_refines r n p h b : nth_error h r = Some b ->
  match h_chunks r n p h with
  | (Ok l, h') => extends h h' /\ exists vs, b_chunks b n p = Ok vs /\ Forall2 (fun x v => nth_error h' x = Some v) l vs
  | (Exc e, h') => extends h h' /\ b_chunks b n p = Exc e
  | (Diverge, h') => extends h h' /\ b_chunks b n p = Diverge
  end.
Proof. exact (h_chunks_refines r n p h b). Qed.
(* pad in place on a buffer of the other side: the receiver is assigned AND a second object with the same attributes is returned *)
Example c16_pad_inplace_ex : hstep (HPad 0%nat LEFT true) [mkbuf [160] 3 RIGHT 5] = (Ok (ORef 1%nat), [mkbuf [5] 3 LEFT 5; mkbuf [5] 3 LEFT 5]).
Proof. vm_compute. reflexivity. Qed.
Example c16_alias_ex : fst (hstep (HAdd 0%nat 0%nat) [mkbuf [160] 3 RIGHT 5]) = Ok (ORef 1%nat) /\ b_add (mkbuf [160] 3 RIGHT 5) (mkbuf [160] 3 RIGHT 5) = Ok (mkbuf [180] 6 RIGHT 2).
Proof. vm_compute. split; reflexivity. Qed.

(* ---- (I b) compress / decompress / matching / rule-id dispatch on the objects of the heap (SchcHeap.v: the functions of
   compressor.py, decompressor.py (field stage), ruler.py, operators.py, actions/compression.py written over object references:
   packet field values, payload, rule ids, target values, mapping keys and indices are objects the caller shares) --------------
   For every heap, every input (in scope or not) and every outcome: no existing object changes (only new objects are appended);
   the Buffer returned on success is a new object; and on in-scope inputs the outcome is the one the value-level functions of
   SchcBytes.v give on the dereferenced inputs (which are the functions run raw against the code and proved to refine Schc.v). *)
Theorem c16_compress_frame pd r d h res h' : h_compress pd r d h = (res, h') -> extends h h'.
Proof. exact (h_compress_frame pd r d h res h'). Qed.
Theorem c16_compress_fresh pd r d h x h' : h_compress pd r d h = (Ok x, h') -> (length h <= x < length h')%nat.
Proof. exact (h_compress_fresh pd r d h x h'). Qed.
Theorem c16_compress_refines pd r d h bpd br : deref_pdesc h pd = Some bpd -> deref_rule h r = Some br ->
  match h_compress pd r d h with
  | (Ok x, h') => exists v, bcompress bpd br d = Ok v /\ nth_error h' x = Some v
  | (Exc e, _) => bcompress bpd br d = Exc e
  | (Diverge, _) => bcompress bpd br d = Diverge
  end.
Proof. exact (h_compress_refines pd r d h bpd br). Qed.
Theorem c16_decompress_frame s r d h res h' : h_decompress s r d h = (res, h') -> extends h h'.
Proof. exact (h_decompress_frame s r d h res h'). Qed.
Theorem c16_decompress_fresh s r d h x h' : h_decompress s r d h = (Ok x, h') -> (length h <= x < length h')%nat.
Proof. exact (h_decompress_fresh s r d h x h'). Qed.
Theorem c16_decompress_refines s r d h sb br : nth_error h s = Some sb -> deref_rule h r = Some br ->
  match h_decompress s r d h with
  | (Ok x, h') => exists v, bdecompress sb br d = Ok v /\ nth_error h' x = Some v
  | (Exc e, _) => bdecompress sb br d = Exc e
  | (Diverge, _) => bdecompress sb br d = Diverge
  end.
Proof. exact (h_decompress_refines s r d h sb br). Qed.
Theorem c16_field_match_frame pf rf h res h' : h_field_match pf rf h = (res, h') -> extends h h'.
Proof. exact (h_field_match_frame pf rf h res h'). Qed.
Theorem c16_field_match_refines pf rf h bpf brf : deref_field h pf = Some bpf -> deref_rfd h rf = Some brf ->
  fst (h_field_match pf rf h) = bfield_match bpf brf.
Proof. exact (h_field_match_refines pf rf h bpf brf). Qed.
Theorem c16_match_schc_packet_frame rules s h res h' : h_match_schc_packet rules s h = (res, h') -> extends h h'.
Proof. exact (h_match_schc_packet_frame rules s h res h'). Qed.

(* ---- (I c) parsing, the context manager, the front end and the compute stage of decompress on the objects of the heap
   (ParserHeap.v, ManagerHeap.v, ComputeHeap.v): the packet Buffer, the SCHC packet Buffer and every Buffer of every rule are objects
   the caller shares.  For every heap, every input and every outcome only new objects are appended; what is returned is new (fields,
   payload and raw of a parse are pairwise distinct new objects, never the packet itself; the front end alone may hand the caller's own
   packet back, when no context accepts it: `return packet`); and the outcome is the one of the byte-level functions of ParserBytes /
   ManagerBytes / ComputeBytes on the dereferenced inputs. *)
Theorem c16_parse_frame s b h res h' : h_factory s b h = (res, h') -> extends h h'.
Proof. exact (h_factory_frame s b h res h'). Qed.
Theorem c16_parse_fresh s b h fs pl raw h' : h_factory s b h = (Ok (fs, pl, raw), h') ->
  let l := raw :: map of_val fs ++ [pl] in
  sorted_in (length h) l (length h') /\ NoDup l /\ Forall (fun x => (length h <= x < length h')%nat) l /\
  (b < length h)%nat /\ ~ In b l.
Proof. exact (h_factory_fresh s b h fs pl raw h'). Qed.
Theorem c16_parse_refines s b h bb : nth_error h b = Some bb ->
  match h_factory s b h with
  | (Ok (fs, pl, raw), h') =>
    exists bfs plb rawb, bfactory s bb = Ok (bfs, plb) /\ deref_list (deref_field h') fs = Some bfs /\
                         nth_error h' pl = Some plb /\ b_copy bb = Ok rawb /\ nth_error h' raw = Some rawb
  | (Exc e, _) => bfactory s bb = Exc e
  | (Diverge, _) => bfactory s bb = Diverge
  end.
Proof. exact (h_factory_refines s b h bb). Qed.
Theorem c16_manager_compress_frame s rules packet d st h res h' : h_cm_compress s rules packet d st h = (res, h') -> extends h h'.
Proof. exact (h_cm_compress_frame s rules packet d st h res h'). Qed.
Theorem c16_manager_compress_fresh s rules packet d st h x h' : h_cm_compress s rules packet d st h = (Ok x, h') -> (length h <= x < length h')%nat.
Proof. exact (h_cm_compress_fresh s rules packet d st h x h'). Qed.
Theorem c16_manager_compress_refines s rules packet d st h brules pb :
  deref_list (deref_rule h) rules = Some brules -> nth_error h packet = Some pb ->
  match h_cm_compress s rules packet d st h with
  | (Ok x, h') => exists v, bcm_compress (bfactory s) brules pb d st = Ok v /\ nth_error h' x = Some v
  | (Exc e, _) => bcm_compress (bfactory s) brules pb d st = Exc e
  | (Diverge, _) => bcm_compress (bfactory s) brules pb d st = Diverge
  end.
Proof. exact (h_cm_compress_refines s rules packet d st h brules pb). Qed.
Theorem c16_decompress_compute_frame s r d h res h' : h_decompress_c s r d h = (res, h') -> extends h h'.
Proof. exact (h_decompress_c_frame s r d h res h'). Qed.
Theorem c16_decompress_compute_fresh s r d h x h' : h_decompress_c s r d h = (Ok x, h') -> (length h <= x < length h')%nat.
Proof. exact (h_decompress_c_fresh s r d h x h'). Qed.
Theorem c16_decompress_compute_refines s r d h sb br : nth_error h s = Some sb -> deref_rule h r = Some br ->
  match h_decompress_c s r d h with
  | (Ok x, h') => exists v, bdecompress_c sb br d = Ok v /\ nth_error h' x = Some v
  | (Exc e, _) => bdecompress_c sb br d = Exc e
  | (Diverge, _) => bdecompress_c sb br d = Diverge
  end.
Proof. exact (h_decompress_c_refines s r d h sb br). Qed.
Theorem c16_manager_decompress_frame rules s d h res h' : h_cm_decompress rules s d h = (res, h') -> extends h h'.
Proof. exact (h_cm_decompress_c_frame rules s d h res h'). Qed.
Theorem c16_manager_decompress_fresh rules s d h x h' : h_cm_decompress rules s d h = (Ok x, h') -> (length h <= x < length h')%nat.
Proof. exact (h_cm_decompress_c_fresh rules s d h x h'). Qed.
Theorem c16_manager_decompress_refines rules s d h brules sb :
  deref_list (deref_rule h) rules = Some brules -> nth_error h s = Some sb ->
  match h_cm_decompress rules s d h with
  | (Ok x, h') => exists v, bcm_decompress brules sb d = Ok v /\ nth_error h' x = Some v
  | (Exc e, _) => bcm_decompress brules sb d = Exc e
  | (Diverge, _) => bcm_decompress brules sb d = Diverge
  end.
Proof. exact (h_cm_decompress_c_refines rules s d h brules sb). Qed.
Theorem c16_front_compress_frame ctxs packet h res h' : h_schc_compress ctxs packet h = (res, h') -> extends h h'.
Proof. exact (h_schc_compress_frame ctxs packet h res h'). Qed.
Theorem c16_front_compress_result packet ctxs h x h' : h_schc_compress ctxs packet h = (Ok x, h') -> x = packet \/ (length h <= x < length h')%nat.
Proof. exact (h_schc_compress_result packet ctxs h x h'). Qed.
Theorem c16_front_decompress_frame ctxs packet h res h' : h_schc_decompress ctxs packet h = (res, h') -> extends h h'.
Proof. exact (h_schc_decompress_c_frame ctxs packet h res h'). Qed.
Theorem c16_front_decompress_result packet ctxs h x h' : h_schc_decompress ctxs packet h = (Ok x, h') -> x = packet \/ (length h <= x < length h')%nat.
Proof. exact (h_schc_decompress_c_result packet ctxs h x h'). Qed.

(* ---- (II) values ------------------------------------------------------------------------------- *)
Theorem c16_shift_inplace_irrelevant b s : canon b -> b_shift b s true = b_shift b s false.
Proof. exact (shift_inplace_irrelevant b s). Qed.
Theorem c16_pad_inplace_irrelevant b sd : canon b -> b_pad b sd true = b_pad b sd false.
Proof. exact (pad_inplace_irrelevant b sd). Qed.
Theorem c16_copy_identity b : canon b -> b_copy b = Ok b.
Proof. exact (copy_bits b). Qed.
Theorem c16_shift_effect b s : canon b ->
  exists r, eff_shift b s false = Ok (b, r) /\ eff_shift b s true = Ok (r, r).
Proof. exact (eff_shift_copy b s). Qed.
Theorem c16_pad_effect b sd : canon b ->
  exists r, eff_pad b sd false = Ok (b, r) /\ exists r', eff_pad b sd true = Ok (r', r) /\ abs r' = abs b /\ abs r = abs b.
Proof. exact (eff_pad_copy b sd). Qed.
Theorem c16_history ct m h : run ct m h = map (fun c => snd (step ct m c)) h.
Proof. exact (run_fresh ct m h). Qed.
Theorem c16_history_split ct m h1 h2 : run ct m (h1 ++ h2) = run ct m h1 ++ run ct m h2.
Proof. exact (run_app ct m h1 h2). Qed.

Example c16_ex : eff_shift (mkbuf [171; 192] 10 RIGHT 6) 3 false = Ok (mkbuf [171; 192] 10 RIGHT 6, mkbuf [170] 7 RIGHT 1).
Proof. vm_compute. reflexivity. Qed.

Print Assumptions c16_pure_frame.
Print Assumptions c16_pure_keeps.
Print Assumptions c16_inplace_frame.
Print Assumptions c16_pure_fresh.
Print Assumptions c16_inplace_result.
Print Assumptions c16_program_pure.
Print Assumptions c16_program_frame.
Print Assumptions c16_add_refines.
Print Assumptions c16_setitem_refines.
Print Assumptions c16_value_refines.
Print Assumptions c16_chunks_refines.
Print Assumptions c16_compress_frame.
Print Assumptions c16_compress_fresh.
Print Assumptions c16_compress_refines.
Print Assumptions c16_decompress_frame.
Print Assumptions c16_decompress_fresh.
Print Assumptions c16_decompress_refines.
Print Assumptions c16_field_match_frame.
Print Assumptions c16_field_match_refines.
Print Assumptions c16_match_schc_packet_frame.
Print Assumptions c16_parse_frame.
Print Assumptions c16_parse_fresh.
Print Assumptions c16_parse_refines.
Print Assumptions c16_manager_compress_frame.
Print Assumptions c16_manager_compress_fresh.
Print Assumptions c16_manager_compress_refines.
Print Assumptions c16_decompress_compute_frame.
Print Assumptions c16_decompress_compute_fresh.
Print Assumptions c16_decompress_compute_refines.
Print Assumptions c16_manager_decompress_frame.
Print Assumptions c16_manager_decompress_fresh.
Print Assumptions c16_manager_decompress_refines.
Print Assumptions c16_front_compress_frame.
Print Assumptions c16_front_compress_result.
Print Assumptions c16_front_decompress_frame.
Print Assumptions c16_front_decompress_result.
Print Assumptions c16_shift_inplace_irrelevant.
Print Assumptions c16_pad_inplace_irrelevant.
Print Assumptions c16_copy_identity.
Print Assumptions c16_shift_effect.
Print Assumptions c16_pad_effect.
Print Assumptions c16_history.
Print Assumptions c16_history_split.
