(* C16 -- Operations are pure: inputs never modified, results independent of history.
   Partial by nature (see DESIGN.md): a functional model has no heap, so what a theorem can carry is
   (1) the value computed by shift/pad does not depend on working in place or on a copy, and copying
   is the identity on canonical buffers; (2) in the effect model of theories/Effects.v the receiver of
   a copying call is returned unchanged and the receiver of an in-place call is the result; (3) a
   context manager answers every call of any history exactly as a fresh manager does.  That the real
   Python objects are untouched is established by the harness (snapshots of every reachable Buffer
   before/after each call, long-lived manager against fresh ones), not by these theorems. *)
From Coq Require Import ZArith List Bool.
From MS Require Import PyBase Buffer Bits ByteFacts BufferAbs BufferSpec Schc Effects.
Import ListNotations.
Open Scope Z_scope.

Theorem c16_shift_inplace_irrelevant b s : canon b -> b_shift b s true = b_shift b s false.
Proof. exact (shift_inplace_irrelevant b s). Qed.
Theorem c16_pad_inplace_irrelevant b sd : canon b -> b_pad b sd true = b_pad b sd false.
Proof. exact (pad_inplace_irrelevant b sd). Qed.
Theorem c16_copy_identity b : canon b -> b_copy b = Ok b.
Proof. exact (copy_bits b). Qed.
Theorem c16_shift_effect b s : canon b ->
  exists r, eff_shift b s false = Ok (b, r) /\ eff_shift b s true = Ok (r, r).
Proof. exact (eff_shift_copy b s). Qed.
Theorem c16_pad_effect b sd : canon b ->
  exists r, eff_pad b sd false = Ok (b, r) /\ exists r', eff_pad b sd true = Ok (r', r) /\ abs r' = abs b /\ abs r = abs b.
Proof. exact (eff_pad_copy b sd). Qed.
Theorem c16_history ct m h : run ct m h = map (fun c => snd (step ct m c)) h.
Proof. exact (run_fresh ct m h). Qed.
Theorem c16_history_split ct m h1 h2 : run ct m (h1 ++ h2) = run ct m h1 ++ run ct m h2.
Proof. exact (run_app ct m h1 h2). Qed.

Example c16_ex : eff_shift (mkbuf [171; 192] 10 RIGHT 6) 3 false = Ok (mkbuf [171; 192] 10 RIGHT 6, mkbuf [170] 7 RIGHT 1).
Proof. vm_compute. reflexivity. Qed.

Print Assumptions c16_shift_inplace_irrelevant.
Print Assumptions c16_pad_inplace_irrelevant.
Print Assumptions c16_copy_identity.
Print Assumptions c16_shift_effect.
Print Assumptions c16_pad_effect.
Print Assumptions c16_history.
Print Assumptions c16_history_split.
