(* C17 -- Variable-length size prefix is a bijection with RFC 8724 widths.
   Model: Schc.encode_length / Schc.decode_var (compressor._encode_length,
   decompressor._decode_variable_length_residue).  Only statements; proofs are in theories/SchcCodec.v. *)
From Coq Require Import ZArith List Bool.
From MS Require Import PyBase Buffer Bits BufferAbs Schc SchcSpec SchcCodec SchcBytes BytesC08C17C18.
Import ListNotations.
Open Scope Z_scope.

(* a residue of n bits is announced by spec_size n: 4 bits for 0..14, 1111+8 bits for 15..254, 1111 1111 1111+16 bits up to 65535 *)
Theorem c17_encode n : 0 <= n < 65536 -> encode_length n = Ok (spec_size n).
Proof. exact (encode_length_spec n). Qed.
Theorem c17_width n : 0 <= n < 65536 -> zlen (spec_size n) = (if n <? 15 then 4 else if n <? 255 then 12 else 28).
Proof. exact (spec_size_len n). Qed.
(* decoding returns the n residue bits and consumes exactly width + n bits, whatever follows *)
Theorem c17_roundtrip n r rest : 0 <= n < 65536 -> zlen r = n ->
  decode_var (spec_size n ++ r ++ rest) = (r, spec_size_width n + n).
Proof. exact (decode_var_spec n r rest). Qed.
(* the announcement is injective: no size's announcement is a prefix of another's *)
Theorem c17_injective n m : 0 <= n < 65536 -> 0 <= m < 65536 -> is_prefix (spec_size n) (spec_size m) = true -> n = m.
Proof. exact (spec_size_prefix_free n m). Qed.
(* field level: a variable-length value-sent or LSB field is rebuilt from its residue and exactly the residue is consumed *)
Theorem c17_field ct pos rf v res rest :
  wf_field ct rf v = true -> spec_residue v rf = Some res ->
  exists ce, decompress_field ct pos rf (res ++ rest) = Ok (v, zlen res, ce) /\
             py_slice (res ++ rest) (Some (zlen res)) None = rest.
Proof. exact (decompress_field_spec ct pos rf v res rest). Qed.
(* sizes beyond 16 bits are refused by the compressor *)
Theorem c17_overflow n : 65536 <= n -> encode_length n = Exc AssertionError.
Proof. exact (encode_length_overflow n). Qed.

(* ---- the same at the byte level (SchcBytes.bencode_length / bdecode_var, the functions compared raw with the code) ---- *)
Theorem c17_encode_bytes n : 0 <= n < 65536 ->
  exists p, bencode_length n = Ok p /\ canon p /\ bside p = LEFT /\ abs p = spec_size n /\
            blen p = (if n <? 15 then 4 else if n <? 255 then 12 else 28).
Proof. exact (c17b_encode n). Qed.
Theorem c17_overflow_bytes n : 65536 <= n -> bencode_length n = Exc AssertionError.
Proof. exact (c17b_overflow n). Qed.
(* whatever the padding side of what follows, and also when fewer than n bits follow (then what is there comes back) *)
Theorem c17_roundtrip_bytes n p rest s : 0 <= n < 65536 -> canon rest ->
  bencode_length n = Ok p -> b_add p rest = Ok s ->
  exists r, bdecode_var s = Ok (r, spec_size_width n + n) /\ canon r /\ blen r = Z.min n (blen rest) /\
            abs r = firstn (Z.to_nat n) (abs rest).
Proof. exact (c17b_roundtrip_any n p rest s). Qed.
Theorem c17_injective_bytes n m p q : 0 <= n < 65536 -> 0 <= m < 65536 ->
  bencode_length n = Ok p -> bencode_length m = Ok q -> is_prefix (abs p) (abs q) = true -> n = m.
Proof. exact (c17b_prefix_free n m p q). Qed.

(* non-vacuity: the three width classes, and a variable-length LSB field meeting the hypotheses of c17_field *)
Example c17_ex_widths : encode_length 14 = Ok [true;true;true;false] /\ zlen (spec_size 15) = 12 /\ zlen (spec_size 255) = 28.
Proof. vm_compute. repeat split; reflexivity. Qed.
Example c17_ex_field :
  let rf := mkrfd (mkfid P_Other 1) 0 0 Bi (TVbuf [true;false]) MO_msb LSB in
  wf_field (fun _ => None) rf [true;false;true;true;false] = true /\
  spec_residue [true;false;true;true;false] rf = Some ([false;false;true;true] ++ [true;true;false]).
Proof. vm_compute. split; reflexivity. Qed.

Print Assumptions c17_encode.
Print Assumptions c17_width.
Print Assumptions c17_roundtrip.
Print Assumptions c17_injective.
Print Assumptions c17_field.
Print Assumptions c17_overflow.
Print Assumptions c17_encode_bytes.
Print Assumptions c17_overflow_bytes.
Print Assumptions c17_roundtrip_bytes.
Print Assumptions c17_injective_bytes.
