(* C18 -- Direction indicators select the same field descriptors in all three stages.
   Model: Schc.select_fds used by compress and decompress, Schc.rule_matches (filter by the packet
   direction).  Only statements; proofs in theories/SchcRules.v (selection) and SchcRoundtrip.v (round trip). *)
From Coq Require Import ZArith List Bool.
From MS Require Import PyBase Buffer Bits BufferAbs Schc SchcSpec SchcRules SchcRoundtrip SchcBytes SchcRefine ManagerBytes BytesC08C17C18.
Import ListNotations.
Open Scope Z_scope.

(* the descriptors used for direction d: exactly those marked d or Bi, in rule order *)
Theorem c18_select d fds : select_fds (Some d) fds = filter (fun f => dir_eqb (r_dir f) d || dir_eqb (r_dir f) Bi) fds.
Proof. exact (select_fds_spec d fds). Qed.
(* the matcher uses the same selection as compress and decompress *)
Theorem c18_matcher pd r : rule_nature r = Compression -> rule_typed r = true ->
  rule_matches pd r = Ok (forallb2 spec_field_applies (pd_fields pd) (select_fds (Some (pd_dir pd)) (rule_fds r))).
Proof. exact (matcher_uses_select pd r). Qed.
(* so a rule with Up/Dw alternatives restores packets of direction d through its d/Bi descriptors *)
Theorem c18_roundtrip ct d pd r : pd_dir pd = d -> rule_ok_dec ct d pd r -> spec_rule_applies pd r = true ->
  forallb (fun rf => match r_cda rf with Compute => false | _ => true end) (select_fds (Some d) (rule_fds r)) = true ->
  exists s, compress pd r (Some d) = Ok s /\
            decompress ct s r (Some d) = Ok (concat (map f_val (pd_fields pd)) ++ pd_payload pd).
Proof. exact (c01_roundtrip_nocompute ct d pd r). Qed.

(* ---- the same at the byte level (SchcBytes / ManagerBytes, the functions compared raw with the code) ---- *)
Theorem c18_select_bytes d fds :
  bselect_fds (Some d) fds = filter (fun f => dir_eqb (br_dir f) d || dir_eqb (br_dir f) Bi) fds.
Proof. exact (c18b_select d fds). Qed.
Theorem c18_matcher_bytes pd r : canon_pdesc pd -> canon_rule r -> rule_typed (abs_rule abs r) = true ->
  brule_matches pd r = Ok (spec_rule_applies (abs_pdesc abs pd) (abs_rule abs r)).
Proof. exact (c18b_matcher_applies pd r). Qed.
Theorem c18_roundtrip_bytes ct d pd r : canon_pdesc pd -> canon_rule r -> bpd_dir pd = d ->
  rule_ok_dec ct d (abs_pdesc abs pd) (abs_rule abs r) ->
  spec_rule_applies (abs_pdesc abs pd) (abs_rule abs r) = true ->
  bno_compute d r = true ->
  exists x y, bcompress pd r (Some d) = Ok x /\ canon x /\
              bdecompress x r (Some d) = Ok y /\ canon y /\ abs y = bpacket_bits pd.
Proof. exact (c18b_roundtrip ct d pd r). Qed.

(* non-vacuity: a field with an Up descriptor (equal/not-sent) and a Dw descriptor (ignore/value-sent), downlink packet *)
Example c18_ex :
  let up := mkrfd (mkfid P_Other 1) 2 0 Up (TVbuf [true;true]) MO_equal NotSent in
  let dw := mkrfd (mkfid P_Other 1) 2 0 Dw (TVbuf []) MO_ignore ValueSent in
  let r := mkrule [true] Compression [up; dw] in
  let pd := mkpdesc Dw [mkfield (mkfid P_Other 1) [false;true] 0] [] in
  rule_matches pd r = Ok true /\ compress pd r (Some Dw) = Ok [true;false;true] /\
  decompress (fun _ => None) [true;false;true] r (Some Dw) = Ok [false;true].
Proof. vm_compute. repeat split; reflexivity. Qed.

Print Assumptions c18_select.
Print Assumptions c18_matcher.
Print Assumptions c18_roundtrip.
Print Assumptions c18_select_bytes.
Print Assumptions c18_matcher_bytes.
Print Assumptions c18_roundtrip_bytes.
