(* C19 -- CoAP semantic option view is a lossless re-encoding of the options.
   Model: theories/CoapSemantic.v (coap.py _parse_options in semantic mode, CoAPParser.unparse).
   RFC side: RfcHeaders.coap_msg (any option list: numbers known or unknown to the library, deltas and
   value lengths in all three encoding classes incl. exactly 13 and 269, repeated options, with and
   without payload).  Only statements; proofs in theories/CoapSemanticSpec.v (bits) and
   theories/CoapSemanticRefine.v (bytes). *)
From Coq Require Import ZArith List Bool.
From MS Require Import PyBase Buffer Bits BufferAbs Schc Parsers RfcHeaders CoapSemantic ParserRfc CoapSemanticSpec
  SchcBytes SchcRefine ParserBytes ParserRefine ComputeRefine CoapSemanticBytes CoapSemanticRefine.
Import ListNotations.
Open Scope Z_scope.

(* semantic parsing exposes one field per option, named after its number, carrying its value *)
Theorem c19_semantic m : coap_wf m -> parse_coap_semantic (coap_encode m) = Ok (coap_semantic_fields m, coap_header_len m).
Proof. exact (c19_semantic_parse m). Qed.
(* un-parsing these fields gives the syntactic field sequence: delta, length, extended delta / length, value *)
Theorem c19_unparse_fields m : coap_wf m -> coap_unparse (pairs (coap_semantic_fields m)) = Ok (pairs (coap_fields m)).
Proof. exact (c19_unparse m). Qed.
(* as the property states it *)
Theorem c19_lossless_view m : coap_wf m ->
  exists sem syn n, parse_coap_semantic (coap_encode m) = Ok (sem, n) /\ parse_coap (coap_encode m) = Ok (syn, n) /\
                    coap_unparse (pairs sem) = Ok (pairs syn).
Proof. exact (c19_lossless m). Qed.

(* composition with the byte-level Buffer model.  The semantic parser written with the Buffer operations
   (CoapSemanticBytes.bparse_coap_semantic: every slice, comparison and integer read as buffer.py performs it on bytes)
   returns, on EVERY canonical left-padded Buffer (well-formed message or not), the outcome of the bit-level one: the same
   exception, or canonical left-padded field Buffers denoting the same fields and the same header length *)
Theorem c19_bytes_parse b : canon b -> bside b = LEFT ->
  same_outcome hdr_rel (bparse_coap_semantic b) (parse_coap_semantic (abs b)).
Proof. exact (bparse_coap_semantic_refines b). Qed.
(* the un-parser written with the Buffer operations (CoapSemanticBytes.bcoap_unparse: to_bytes, Buffer construction) returns,
   on EVERY list of canonical field values (identifiers known or not, in any order), the outcome of the bit-level one: the
   same exception (incl. those of the finally clause of coap.py, which both levels have), or canonical Buffers denoting
   the same (id, value) pairs; no side condition *)
Theorem c19_bytes_unparse bfs : canonf bfs ->
  same_outcome unp_rel (bcoap_unparse bfs) (coap_unparse (absf bfs)).
Proof. exact (bcoap_unparse_refines bfs). Qed.
(* the property on packet bytes, no abstraction left in the conclusion: on a canonical left-padded Buffer holding the bits
   of a well-formed message, byte-level semantic parse then byte-level unparse returns exactly the (id, value) Buffers of
   the byte-level syntactic parse *)
Theorem c19_bytes_lossless m b : coap_wf m -> canon b -> bside b = LEFT -> abs b = coap_encode m ->
  exists bsem bsyn n, bparse_coap_semantic b = Ok (bsem, n) /\ bparse_coap b = Ok (bsyn, n) /\
                      bcoap_unparse (bpairs bsem) = Ok (bpairs bsyn) /\
                      absf (bpairs bsyn) = pairs (coap_fields m) /\ n = coap_header_len m.
Proof. exact (bc19_lossless m b). Qed.

(* non-vacuity: delta 13 with an empty value, then the unknown option number 23, then a 12-byte value at delta 269 *)
Example c19_ex :
  let m := mk_coap [false;true] [false;false] 0 (bits_of 8 1) (bits_of 16 7) []
             [mk_opt 13 []; mk_opt 10 (bits_of 8 1); mk_opt 269 (bits_of 96 3)] None in
  match parse_coap_semantic (coap_encode m), parse_coap (coap_encode m) with
  | Ok (sem, _), Ok (syn, _) => match coap_unparse (pairs sem) with Ok u => (length u =? length syn)%nat | _ => false end
  | _, _ => false
  end = true.
Proof. vm_compute. reflexivity. Qed.

Print Assumptions c19_semantic.
Print Assumptions c19_unparse_fields.
Print Assumptions c19_lossless_view.
Print Assumptions c19_bytes_parse.
Print Assumptions c19_bytes_unparse.
Print Assumptions c19_bytes_lossless.
