(* C20 -- Decompression is total: any bit string gives a buffer or the rule-ID error.
   Model: Schc.decompress / cm_decompress with Compute.compute_functions.
   rule_total_ok is the well-formedness of a rule for decompression: target values have the type their
   action expects and compute fields name a computable field with its protocol length (cda_typed), the
   field ids begin like one of the supported stacks so that each compute function finds the fields it
   reads (stack_shaped), and the statically known bits of the rule are bounded (so that a rebuilt packet
   stays below the 16-bit length fields).  For EVERY bit string shorter than 65000 bytes the outcome is
   a buffer or RuleIDMatchError.  Only statements; proofs in theories/SchcTotal.v. *)
From Coq Require Import ZArith List Bool.
From MS Require Import PyBase Buffer Bits BufferAbs Schc SchcSpec SchcRules Compute SchcTotal SchcBytes SchcRefine ComputeBytes TotalBytes ManagerBytes TotalManagerBytes.
Import ListNotations.
Open Scope Z_scope.

(* field extraction never fails, whatever bits arrive (any compute table) *)
Theorem c20_fields ct rfs : forallb (cda_typed ct) rfs = true -> forall s pos,
  exists fs rest, decompress_fields ct pos rfs s = Ok (fs, centries_of ct pos rfs, rest) /\ map fst fs = map r_id rfs.
Proof. exact (decompress_fields_total ct rfs). Qed.
Theorem c20_nocompute_total ct r d s : forallb (cda_typed ct) (select_fds d (rule_fds r)) = true ->
  forallb (fun rf => match r_cda rf with Compute => false | _ => true end) (select_fds d (rule_fds r)) = true ->
  exists p, decompress ct s r d = Ok p.
Proof. exact (c20_nocompute ct r d s). Qed.
(* with the library's compute functions on stack-shaped rules *)
Theorem c20_rule_total r d s :
  forallb (cda_typed compute_functions) (select_fds d (rule_fds r)) = true ->
  stack_shaped (select_fds d (rule_fds r)) -> zlen s < 8 * 65000 ->
  (forall rf, In rf (select_fds d (rule_fds r)) -> r_cda rf = Compute -> r_len rf = compute_len (r_id rf)) ->
  static_bits (select_fds d (rule_fds r)) <= 4280 ->
  exists p, decompress compute_functions s r d = Ok p.
Proof. exact (c20_total r d s). Qed.
(* a receiver feeding any frame to a context manager gets a buffer or the rule-ID error *)
Theorem c20_manager_total rules s d : (forall r, In r rules -> rule_total_ok d r) -> zlen s < 8 * 65000 ->
  (exists p, cm_decompress compute_functions rules s d = Ok p) \/
  cm_decompress compute_functions rules s d = Exc RuleIDMatchError.
Proof. exact (c20_manager rules s d). Qed.
(* (the empty rule set included: it raises the rule-ID error since the fix of the unbound loop variable in Ruler.match_schc_packet) *)
(* the same for the byte-level decompressor with its compute stage, on a canonical SCHC packet Buffer and a canonical rule *)
Theorem c20_rule_total_bytes s r d : canon s -> canon_rule r ->
  forallb (cda_typed compute_functions) (select_fds d (rule_fds (abs_rule abs r))) = true ->
  stack_shaped (select_fds d (rule_fds (abs_rule abs r))) -> blen s < 8 * 65000 ->
  (forall rf, In rf (select_fds d (rule_fds (abs_rule abs r))) -> r_cda rf = Compute -> r_len rf = compute_len (r_id rf)) ->
  static_bits (select_fds d (rule_fds (abs_rule abs r))) <= 4280 ->
  exists x, bdecompress_c s r d = Ok x /\ canon x.
Proof. exact (bdecompress_c_total s r d). Qed.
(* the byte-level context manager on a rule set of canonical rules that are well-formed for decompression
   (brules_total_ok d rules := Forall canon_rule rules /\ forall r, In r rules -> rule_total_ok d (abs_rule abs r)) *)
Theorem c20_manager_total_bytes rules s d : brules_total_ok d rules -> canon s -> blen s < 8 * 65000 ->
  (exists x, bcm_decompress rules s d = Ok x /\ canon x) \/ bcm_decompress rules s d = Exc RuleIDMatchError.
Proof. exact (bcm_decompress_total rules s d). Qed.
(* and the front end /repo/microschc.py SCHC.decompress: a Buffer comes back, never an exception *)
Theorem c20_front_total_bytes ctxs s : Forall (fun c => brules_total_ok (Some Up) (bctx_rules c)) ctxs -> canon s ->
  blen s < 8 * 65000 -> exists x, bschc_decompress ctxs s = Ok x /\ canon x.
Proof. exact (bschc_decompress_total ctxs s). Qed.
Print Assumptions c20_fields.
Print Assumptions c20_nocompute_total.
Print Assumptions c20_rule_total.
Print Assumptions c20_manager_total.
Print Assumptions c20_rule_total_bytes.
Print Assumptions c20_manager_total_bytes.
Print Assumptions c20_front_total_bytes.
