(* Bits.v -- bit sequences (list bool, most significant bit first) and their numbers.  *)
From Coq Require Import ZArith List Bool Lia.
Import ListNotations.
Open Scope Z_scope.

Definition bits := list bool.

(* the n low bits of x, most significant first *)
Fixpoint bits_of (n : nat) (x : Z) : bits :=
  match n with O => [] | S k => Z.testbit x (Z.of_nat k) :: bits_of k x end.

Fixpoint Z_of_bits_acc (acc : Z) (l : bits) : Z :=
  match l with [] => acc | b :: r => Z_of_bits_acc (2 * acc + Z.b2z b) r end.
Definition Z_of_bits (l : bits) : Z := Z_of_bits_acc 0 l.

Lemma bits_of_length n x : length (bits_of n x) = n.
Proof. induction n; cbn; auto. Qed.

Lemma bits_of_ext n x y : (forall i, 0 <= i < Z.of_nat n -> Z.testbit x i = Z.testbit y i) -> bits_of n x = bits_of n y.
Proof.
  induction n as [|n IH]; intros H; cbn [bits_of]; auto.
  f_equal. apply H; lia. apply IH. intros i Hi. apply H. lia.
Qed.

Lemma bits_of_mod n x : bits_of n (x mod 2 ^ Z.of_nat n) = bits_of n x.
Proof. apply bits_of_ext. intros i Hi. apply Z.mod_pow2_bits_low. lia. Qed.

Lemma bits_of_mod_ge n m x : Z.of_nat n <= m -> bits_of n (x mod 2 ^ m) = bits_of n x.
Proof. intros H. apply bits_of_ext. intros i Hi. apply Z.mod_pow2_bits_low. lia. Qed.

(* concatenation: the number X * 2^b + Y with Y < 2^b *)
Lemma bits_of_app a b X Y : 0 <= Y < 2 ^ Z.of_nat b ->
  bits_of (a + b) (X * 2 ^ Z.of_nat b + Y) = bits_of a X ++ bits_of b Y.
Proof.
  intros HY. induction a as [|a IH]; cbn [Nat.add bits_of app].
  - apply bits_of_ext. intros i Hi.
    rewrite <- (Z.mod_pow2_bits_low _ (Z.of_nat b)) by lia.
    rewrite Z.add_comm, Z.mod_add by (apply Z.pow_nonzero; lia).
    rewrite Z.mod_small by lia. reflexivity.
  - f_equal; [|exact IH].
    replace (Z.of_nat (a + b)) with (Z.of_nat a + Z.of_nat b) by lia.
    rewrite <- Z.div_pow2_bits by lia.
    rewrite Z.div_add_l by (apply Z.pow_nonzero; lia).
    rewrite Z.div_small by lia. f_equal. lia.
Qed.

Lemma bits_of_firstn k n x : (k <= n)%nat -> firstn k (bits_of n x) = bits_of k (x / 2 ^ Z.of_nat (n - k)).
Proof.
  revert n. induction k as [|k IH]; intros n H; [reflexivity|].
  destruct n as [|n]; [lia|]. cbn [bits_of firstn]. f_equal.
  - rewrite Z.div_pow2_bits by lia. f_equal. lia.
  - rewrite IH by lia. f_equal.
Qed.

Lemma bits_of_skipn k n x : (k <= n)%nat -> skipn k (bits_of n x) = bits_of (n - k) x.
Proof.
  revert n. induction k as [|k IH]; intros n H; [now rewrite Nat.sub_0_r|].
  destruct n as [|n]; [lia|]. cbn [bits_of skipn]. rewrite IH by lia. reflexivity.
Qed.

Lemma bits_of_zero n : bits_of n 0 = repeat false n.
Proof. induction n; cbn; [reflexivity|]. rewrite Z.testbit_0_l. now f_equal. Qed.

Lemma Z_of_bits_acc_app acc l : Z_of_bits_acc acc l = acc * 2 ^ Z.of_nat (length l) + Z_of_bits l.
Proof.
  unfold Z_of_bits. revert acc. induction l as [|b l IH]; intros acc; cbn [Z_of_bits_acc length].
  - rewrite Z.pow_0_r. lia.
  - rewrite IH. rewrite (IH (2 * 0 + _)). rewrite Nat2Z.inj_succ, Z.pow_succ_r by lia. ring.
Qed.

Lemma Z_of_bits_range l : 0 <= Z_of_bits l < 2 ^ Z.of_nat (length l).
Proof.
  induction l as [|b l IH].
  - cbn. lia.
  - unfold Z_of_bits. cbn [Z_of_bits_acc length]. rewrite Z_of_bits_acc_app.
    rewrite Nat2Z.inj_succ, Z.pow_succ_r by lia. destruct b; cbn [Z.b2z]; lia.
Qed.

Lemma Z_of_bits_of n x : Z_of_bits (bits_of n x) = x mod 2 ^ Z.of_nat n.
Proof.
  induction n as [|n IH].
  - cbn. now rewrite Z.mod_1_r.
  - unfold Z_of_bits. cbn [bits_of Z_of_bits_acc]. rewrite Z_of_bits_acc_app, bits_of_length, IH.
    rewrite Nat2Z.inj_succ, Z.pow_succ_r by lia.
    set (P := 2 ^ Z.of_nat n). assert (0 < P) by (apply Z.pow_pos_nonneg; lia).
    rewrite Z.testbit_spec' by lia. fold P.
    assert (x mod (2 * P) = (x / P mod 2) * P + x mod P).
    { rewrite (Z.mul_comm 2 P). rewrite Z.rem_mul_r by lia. ring. }
    rewrite H0. destruct (Z.eq_dec (x / P mod 2) 1) as [->|]; [cbn; lia|].
    assert (x / P mod 2 = 0) as -> by (pose proof (Z.mod_pos_bound (x/P) 2); lia). cbn. lia.
Qed.

Lemma bits_of_Z_of_bits l : bits_of (length l) (Z_of_bits l) = l.
Proof.
  induction l as [|b l IH]; [reflexivity|].
  unfold Z_of_bits. cbn [Z_of_bits_acc]. rewrite Z_of_bits_acc_app.
  change (length (b :: l)) with (1 + length l)%nat.
  rewrite bits_of_app by apply Z_of_bits_range. rewrite IH.
  destruct b; reflexivity.
Qed.

Lemma bits_of_inj n x y : 0 <= x < 2 ^ Z.of_nat n -> 0 <= y < 2 ^ Z.of_nat n -> bits_of n x = bits_of n y -> x = y.
Proof.
  intros Hx Hy H. rewrite <- (Z.mod_small x (2 ^ Z.of_nat n)), <- (Z.mod_small y (2 ^ Z.of_nat n)) by lia.
  rewrite <- !Z_of_bits_of. now rewrite H.
Qed.
