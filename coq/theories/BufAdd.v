(* BufAdd.v -- refinement of Buffer.__add__ (b_add): concatenation of bit sequences, i.e.
   num (l + r) = num l * 2 ^ blen r + num r, for canonical operands, all nine branches. *)
From Coq Require Import ZArith Znumtheory List Bool Lia.
From MS Require Import PyBase Buffer Bits ByteFacts BufferAbs BufNew.
Import ListNotations.
Open Scope Z_scope.

(* what b_pad does; proved elsewhere -- taken here as an explicit premise *)
Definition pad_ok : Prop := forall b sd ip, canon b ->
  exists r, b_pad b sd ip = Ok r /\ canon r /\ bside r = sd /\ blen r = blen b /\ num r = num b.

(* ---- powers of two ------------------------------------------------------------------------- *)
Lemma pow2_pos n : 0 <= n -> 0 < 2 ^ n.
Proof. intros. apply Z.pow_pos_nonneg; lia. Qed.

Lemma pow2_split a b : 0 <= a -> 0 <= b -> 2 ^ (a + b) = 2 ^ a * 2 ^ b.
Proof. intros. apply Z.pow_add_r; lia. Qed.

Lemma pow256_pos' n : 0 <= n -> 0 < 256 ^ n.
Proof. intros. apply Z.pow_pos_nonneg; lia. Qed.

Lemma pow256_succ n : 0 <= n -> 256 ^ (n + 1) = 256 ^ n * 256.
Proof. intros. rewrite Z.pow_add_r by lia. reflexivity. Qed.

Lemma pow_256_split s : 0 <= s <= 8 -> 256 = 2 ^ s * 2 ^ (8 - s).
Proof. intros. rewrite <- Z.pow_add_r by lia. replace (s + (8 - s)) with 8 by lia. reflexivity. Qed.

(* ---- the two carry loops of __add__ ----------------------------------------------------------- *)
Lemma shr_stream_spec s bs : 0 <= s < 8 -> bytes_ok bs -> forall c, 0 <= c <= 256 - 2 ^ (8 - s) ->
  zlen (fst (shr_stream s c bs)) = zlen bs /\ bytes_ok (fst (shr_stream s c bs)) /\
  0 <= snd (shr_stream s c bs) <= 256 - 2 ^ (8 - s) /\
  val (fst (shr_stream s c bs)) * 256 + snd (shr_stream s c bs) = val bs * 2 ^ (8 - s) + c * 256 ^ zlen bs.
Proof.
  intros Hs. pose proof (pow_256_split s ltac:(lia)) as H256.
  pose proof (pow2_pos s ltac:(lia)) as Hq. pose proof (pow2_pos (8 - s) ltac:(lia)) as Hp.
  induction bs as [|b r IH]; intros Hb c Hc.
  - cbn [shr_stream fst snd val]. rewrite zlen_nil, Z.pow_0_r. repeat split; try lia. constructor.
  - apply bytes_ok_cons in Hb as [Hb Hr]. cbn [shr_stream].
    rewrite byte_shiftr, low_mask, byte_shiftl by lia.
    set (q := 2 ^ s) in *. set (p := 2 ^ (8 - s)) in *.
    pose proof (Z.div_mod b q ltac:(lia)) as Hdm. pose proof (Z.mod_pos_bound b q ltac:(lia)) as Hm.
    assert (0 <= b / q) as Hd0 by (apply Z.div_pos; lia).
    assert (b / q < p) as Hd1 by (apply Z.div_lt_upper_bound; lia).
    assert (0 <= b mod q * p <= 256 - p) as Hc' by nia.
    specialize (IH Hr (b mod q * p) Hc'). destruct (shr_stream s (b mod q * p) r) as [out cf].
    cbn [fst snd] in *. destruct IH as (IL & IO & IC & IE).
    rewrite !zlen_cons, !val_cons, IL. repeat split; try lia.
    + apply bytes_ok_cons. split; [lia|auto].
    + pose proof (zlen_nonneg r). replace (1 + zlen r) with (zlen r + 1) by lia. rewrite pow256_succ by lia.
      set (P := 256 ^ zlen r) in *.
      transitivity ((b / q + c) * P * 256 + (val r * p + b mod q * p * P)); [lia|].
      transitivity ((q * (b / q) + b mod q) * P * p + val r * p + c * (P * 256)); [|rewrite <- Hdm; ring].
      rewrite H256. ring.
Qed.

Lemma shl_stream_rev_spec s rbs : 0 <= s < 8 -> bytes_ok rbs -> forall c acc, bytes_ok acc -> 0 <= c < 2 ^ s ->
  zlen (fst (shl_stream_rev s c rbs acc)) = zlen acc + zlen rbs /\ bytes_ok (fst (shl_stream_rev s c rbs acc)) /\
  0 <= snd (shl_stream_rev s c rbs acc) < 2 ^ s /\
  val (fst (shl_stream_rev s c rbs acc)) + snd (shl_stream_rev s c rbs acc) * 256 ^ (zlen acc + zlen rbs) =
  val (rev rbs) * 2 ^ s * 256 ^ zlen acc + c * 256 ^ zlen acc + val acc.
Proof.
  intros Hs. pose proof (pow_256_split s ltac:(lia)) as H256.
  pose proof (pow2_pos s ltac:(lia)) as Hq. pose proof (pow2_pos (8 - s) ltac:(lia)) as Hp.
  induction rbs as [|b r IH]; intros Hb c acc Ha Hc.
  - cbn [shl_stream_rev fst snd val rev]. rewrite zlen_nil, Z.add_0_r. repeat split; auto; try lia.
  - apply bytes_ok_cons in Hb as [Hb Hr]. cbn [shl_stream_rev rev].
    rewrite byte_shiftl, land_255, byte_shiftr by lia.
    set (q := 2 ^ s) in *. set (p := 2 ^ (8 - s)) in *.
    assert ((b * q) mod 256 = b mod p * q) as Hmm.
    { rewrite H256, (Z.mul_comm q p). apply Z.mul_mod_distr_r; lia. }
    rewrite Hmm.
    pose proof (Z.div_mod b p ltac:(lia)) as Hdm. pose proof (Z.mod_pos_bound b p ltac:(lia)) as Hm.
    assert (0 <= b / p) as Hd0 by (apply Z.div_pos; lia).
    assert (b / p < q) as Hd1 by (apply Z.div_lt_upper_bound; lia).
    assert (0 <= b mod p * q + c < 256) as Hsb by nia.
    assert (bytes_ok ((b mod p * q + c) :: acc)) as Ha' by (apply bytes_ok_cons; auto).
    specialize (IH Hr (b / p) _ Ha' (conj Hd0 Hd1)).
    destruct (shl_stream_rev s (b / p) r ((b mod p * q + c) :: acc)) as [out cf].
    cbn [fst snd] in *. destruct IH as (IL & IO & IC & IE).
    rewrite zlen_cons in *. rewrite val_cons in IE. rewrite val_app, val_single.
    change (zlen [b]) with 1. rewrite Z.pow_1_r.
    pose proof (zlen_nonneg r). pose proof (zlen_nonneg acc).
    replace (zlen acc + (1 + zlen r)) with (1 + zlen acc + zlen r) by lia.
    repeat split; auto; try lia.
    rewrite IE. replace (1 + zlen acc) with (zlen acc + 1) by lia. rewrite pow256_succ by lia.
    set (P := 256 ^ zlen acc) in *.
    transitivity (val (rev r) * q * P * 256 + ((b / p) * 256 + b mod p * q) * P + c * P + val acc); [ring|].
    transitivity (val (rev r) * 256 * q * P + (p * (b / p) + b mod p) * q * P + c * P + val acc); [|rewrite <- Hdm; ring].
    rewrite H256. ring.
Qed.

(* ---- facts about canonical buffers ------------------------------------------------------------ *)
Lemma canon_facts b : canon b ->
  0 <= blen b /\ 0 <= bpl b < 8 /\ blen b + bpl b = 8 * zlen (content b) /\ bytes_ok (content b) /\
  0 <= num b < 2 ^ blen b /\
  val (content b) = num b * (match bside b with LEFT => 1 | RIGHT => 2 ^ bpl b end) /\
  bpl b = calc_pl (blen b).
Proof.
  intros (HL & Hpl & Hlen & Hok & Hside).
  destruct (calc_pl_spec (blen b)) as [k [Hk Hk']]. pose proof (calc_pl_range (blen b)) as Hr.
  rewrite <- Hpl in *. rewrite <- Hk' in Hlen. rewrite Hlen.
  pose proof (val_bound _ Hok) as Hb. rewrite Hlen in Hb.
  assert (0 <= k) as Hk0 by lia.
  pose proof (pow2_pos (bpl b) ltac:(lia)) as Hp. pose proof (pow2_pos (blen b) ltac:(lia)) as HpL.
  assert (256 ^ k = 2 ^ bpl b * 2 ^ blen b) as E256.
  { rewrite pow2_8 by lia. rewrite <- Z.pow_add_r by lia. f_equal. lia. }
  repeat split; auto; try lia; unfold num; destruct (bside b); try lia.
  - apply Z.div_pos; lia.
  - apply Z.div_lt_upper_bound; lia.
  - pose proof (Z.div_mod (val (content b)) (2 ^ bpl b) ltac:(lia)). lia.
Qed.

Lemma b_new_left_T c L T : bytes_ok c -> 0 <= L -> 0 <= T < 2 ^ L -> val c mod 2 ^ L = T ->
  exists r, b_new c L LEFT = Ok r /\ canon r /\ bside r = LEFT /\ blen r = L /\ num r = T.
Proof.
  intros Hc HL HT E. destruct (b_new_left c L Hc HL) as (r & Er & Cr & Sr & Lr & Nr).
  exists r. repeat split; auto; try apply Cr. congruence.
Qed.

Lemma b_new_right_T c L T : bytes_ok c -> 0 <= L <= 8 * zlen c -> val c = T * 2 ^ (8 * zlen c - L) ->
  exists r, b_new c L RIGHT = Ok r /\ canon r /\ bside r = RIGHT /\ blen r = L /\ num r = T.
Proof.
  intros Hc HL E. destruct (b_new_right c L Hc ltac:(lia)) as (r & Er & Cr & Sr & Lr & Nr).
  exists r. repeat split; auto; try apply Cr. rewrite Nr.
  assert ((L + 7) / 8 <= zlen c) as Hk.
  { assert ((L + 7) / 8 < zlen c + 1) by (apply Z.div_lt_upper_bound; lia). lia. }
  set (k := (L + 7) / 8) in *. clearbody k.
  replace (Z.max 0 (k - zlen c)) with 0 by lia. replace (Z.max (zlen c) k) with (zlen c) by lia.
  rewrite Z.pow_0_r, Z.mul_1_r, E. apply Z.div_mul.
  pose proof (pow2_pos (8 * zlen c - L) ltac:(lia)). lia.
Qed.

(* left.content[0:-1] + (left.content[-1] + nc[0]).to_bytes(1) + nc[1:] *)
Lemma merge_spec lc nc p : bytes_ok lc -> bytes_ok nc -> 1 <= zlen lc -> 1 <= zlen nc -> 0 <= p <= 8 ->
  val lc mod 2 ^ p = 0 -> val nc < 2 ^ p * 256 ^ (zlen nc - 1) ->
  exists m, merge_last_first lc nc = Ok m /\ bytes_ok m /\ zlen m = zlen lc + zlen nc - 1 /\
            val m = val lc * 256 ^ (zlen nc - 1) + val nc.
Proof.
  intros Hlc Hnc Llc Lnc Hp Hmod Hlt.
  assert (lc <> []) as Hne by (intros ->; unfold zlen in Llc; cbn in Llc; lia).
  destruct (exists_last Hne) as [lc' [ll ->]].
  destruct nc as [|n0 t]; [unfold zlen in Lnc; cbn in Lnc; lia|].
  apply bytes_ok_app in Hlc as [Hlc' Hll]. apply bytes_ok_cons in Hll as [Hll _].
  apply bytes_ok_cons in Hnc as [Hn0 Ht].
  pose proof (pow_256_split p Hp) as H256.
  pose proof (pow2_pos p ltac:(lia)) as Hq. pose proof (pow2_pos (8 - p) ltac:(lia)) as Hq'.
  rewrite val_app, val_single in Hmod. change (zlen [ll]) with 1 in Hmod. rewrite Z.pow_1_r in Hmod.
  replace (val lc' * 256 + ll) with (ll + (val lc' * 2 ^ (8 - p)) * 2 ^ p) in Hmod by (rewrite H256; ring).
  rewrite Z.mod_add in Hmod by lia.
  pose proof (Z.div_mod ll (2 ^ p) ltac:(lia)) as Hdm. rewrite Hmod, Z.add_0_r in Hdm.
  assert (ll / 2 ^ p < 2 ^ (8 - p)) as Hd by (apply Z.div_lt_upper_bound; lia).
  assert (ll <= 256 - 2 ^ p) as Hll' by nia.
  rewrite zlen_cons in Hlt. replace (1 + zlen t - 1) with (zlen t) in Hlt by lia.
  rewrite val_cons in Hlt. pose proof (val_bound t Ht) as Bt.
  pose proof (zlen_nonneg t) as Zt. pose proof (pow256_pos' (zlen t) Zt) as HP.
  assert (n0 < 2 ^ p) as Hn0' by nia.
  unfold merge_last_first. rewrite py_index_last, py_index_0. cbn [bind].
  rewrite to_byte_ok by lia. cbn [bind].
  rewrite py_slice_0_drop_last by (destruct lc'; discriminate). rewrite removelast_last, py_slice_tail.
  cbn [app]. eexists. split; [reflexivity|]. split; [|split].
  - apply bytes_ok_app. split; auto. apply bytes_ok_cons. split; [lia|auto].
  - rewrite !zlen_app, !zlen_cons. change (zlen (@nil Z)) with 0. lia.
  - rewrite !val_app, !val_cons, !zlen_cons. change (zlen (@nil Z)) with 0. cbn [val].
    replace (1 + zlen t - 1) with (zlen t) by lia.
    replace (1 + zlen t) with (zlen t + 1) by lia. rewrite pow256_succ by lia.
    rewrite Z.pow_1_r. ring.
Qed.

Lemma pow256_as k L pl : L + pl = 8 * k -> 0 <= L -> 0 <= pl -> 256 ^ k = 2 ^ L * 2 ^ pl.
Proof. intros E HL Hp. rewrite pow2_8 by lia. rewrite <- Z.pow_add_r by lia. f_equal. lia. Qed.

Lemma concat_bound nl nr Ll Lr : 0 <= Ll -> 0 <= Lr -> 0 <= nl < 2 ^ Ll -> 0 <= nr < 2 ^ Lr ->
  0 <= nl * 2 ^ Lr + nr < 2 ^ (Ll + Lr).
Proof. intros. rewrite pow2_split by lia. pose proof (pow2_pos Lr ltac:(lia)). nia. Qed.

Lemma zlen_pos_ne {A} (l : list A) : 1 <= zlen l -> exists x t, l = x :: t.
Proof. destruct l as [|x t]; [unfold zlen; cbn; lia|eauto]. Qed.

Definition add_post (l r x : buf) : Prop :=
  canon x /\ bside x = bside l /\ blen x = blen l + blen r /\ num x = num l * 2 ^ blen r + num r.

(* right operand empty *)
Lemma b_add_empty l r : canon l -> canon r -> blen r = 0 -> exists x, b_add l r = Ok x /\ add_post l r x.
Proof.
  intros Cl Cr E. unfold b_add. rewrite E. cbn [Z.eqb]. rewrite b_copy_canon by auto.
  exists l. split; auto. unfold add_post. rewrite E.
  destruct (canon_facts r Cr) as (_ & _ & _ & _ & Nb & _). rewrite E in Nb. cbn in Nb.
  split; [auto|]. split; [auto|]. split; [lia|]. rewrite Z.pow_0_r. lia.
Qed.

(* (a) left LEFT-padded, right byte aligned *)
Lemma b_add_left_aligned l r : canon l -> canon r -> blen r <> 0 -> bside l = LEFT -> bpl r = 0 ->
  exists x, b_add l r = Ok x /\ add_post l r x.
Proof.
  intros Cl Cr Hne Sl Hpr. unfold b_add, add_post.
  rewrite (proj2 (Z.eqb_neq _ _) Hne), Sl, Hpr. cbn [Z.eqb bind].
  destruct (canon_facts l Cl) as (Ll0 & Pll & Lenl & Okl & Nbl & Vl & Cpll).
  destruct (canon_facts r Cr) as (Lr0 & Plr & Lenr & Okr & Nbr & Vr & Cplr).
  rewrite Sl in Vl. rewrite Hpr in Vr, Lenr. rewrite Z.pow_0_r in Vr.
  assert (val (content r) = num r) as Vr' by (destruct (bside r); lia).
  apply b_new_left_T.
  - apply bytes_ok_app; auto.
  - lia.
  - apply concat_bound; auto.
  - rewrite val_app, Vl, Vr', (pow256_as _ (blen r) 0) by lia. rewrite Z.pow_0_r, !Z.mul_1_r.
    apply Z.mod_small. apply concat_bound; auto.
Qed.

(* (b) left LEFT-padded, right not aligned: left content shifted right by the padding of right *)
Lemma b_add_left_unaligned : pad_ok -> forall l r, canon l -> canon r -> blen r <> 0 -> bside l = LEFT -> bpl r <> 0 ->
  exists x, b_add l r = Ok x /\ add_post l r x.
Proof.
  intros Hpad l r Cl Cr Hne Sl Hpr. unfold b_add, add_post.
  rewrite (proj2 (Z.eqb_neq _ _) Hne), Sl, (proj2 (Z.eqb_neq _ _) Hpr).
  destruct (Hpad r LEFT false Cr) as (r' & Er & Cr' & Sr' & Lr' & Nr'). rewrite Er. cbn [bind].
  destruct (canon_facts l Cl) as (Ll0 & Pll & Lenl & Okl & Nbl & Vl & Cpll).
  destruct (canon_facts r Cr) as (Lr0 & Plr & Lenr & Okr & Nbr & Vr & Cplr).
  destruct (canon_facts r' Cr') as (_ & Plr' & Lenr' & Okr' & _ & Vr' & Cplr').
  rewrite Sl in Vl. rewrite Sr', Nr' in Vr'. rewrite Lr' in *. rewrite <- Cplr in Cplr'.
  rewrite Cplr' in *. clear Cplr'. rewrite !Z.mul_1_r in *.
  set (bs := bpl r) in *. set (kl := zlen (content l)) in *. set (kr := zlen (content r')) in *.
  assert (0 < bs < 8) as Hbs by lia.
  pose proof (pow2_pos (8 - bs) ltac:(lia)) as Hp8.
  destruct (shr_stream_spec bs (content l) ltac:(lia) Okl 0 ltac:(change 256 with (2 ^ 8);
    pose proof (Z.pow_le_mono_r 2 (8 - bs) 8 ltac:(lia) ltac:(lia)); lia)) as (SL & SO & SC & SE).
  destruct (shr_stream bs 0 (content l)) as [out carry]. cbn [fst snd] in *.
  rewrite check_bytes_ok by auto. cbn [bind].
  assert (1 <= kr) as Hkr by lia.
  destruct (zlen_pos_ne (content r') Hkr) as (r0 & t & Ec). rewrite Ec in *.
  rewrite py_index_0. cbn [bind].
  apply bytes_ok_cons in Okr' as [Hr0 Ht].
  assert (zlen t = kr - 1) as Lt by (unfold kr; rewrite Ec, zlen_cons; lia).
  pose proof (val_bound t Ht) as Bt. rewrite Lt in Bt.
  pose proof (pow256_pos' (kr - 1) ltac:(lia)) as HP.
  assert (2 ^ blen r = 2 ^ (8 - bs) * 256 ^ (kr - 1)) as EpLr.
  { rewrite pow2_8 by lia. rewrite <- Z.pow_add_r by lia. f_equal. lia. }
  rewrite val_cons, Lt in Vr'.
  assert (r0 < 2 ^ (8 - bs)) as Hr0' by nia.
  rewrite to_byte_ok by lia. cbn [bind]. rewrite py_slice_tail. cbn [app].
  set (nc := out ++ (r0 + carry) :: t).
  assert (bytes_ok nc) as Hnc.
  { apply bytes_ok_app. split; auto. apply bytes_ok_cons. split; [lia|auto]. }
  assert (zlen nc = kl + kr) as Lnc by (unfold nc; rewrite zlen_app, zlen_cons; lia).
  assert (val nc = num l * 2 ^ blen r + num r) as Vnc.
  { unfold nc. rewrite val_app, val_cons, zlen_cons, Lt.
    replace (1 + (kr - 1)) with (kr - 1 + 1) by lia. rewrite pow256_succ by lia.
    rewrite Z.mul_0_l, Z.add_0_r in SE.
    transitivity ((val out * 256 + carry) * 256 ^ (kr - 1) + (r0 * 256 ^ (kr - 1) + val t)); [ring|].
    rewrite SE, Vr', Vl, EpLr. ring. }
  pose proof (concat_bound (num l) (num r) (blen l) (blen r) Ll0 Lr0 Nbl Nbr) as HT.
  destruct (Z.ltb_spec 7 (bpl l + bs)) as [Hdrop|Hkeep].
  - apply b_new_left_T; auto; try lia.
    + rewrite py_slice_from by lia. apply bytes_ok_skipn; auto.
    + rewrite py_slice_from by lia.
      replace (Z.to_nat 1) with (length nc - Z.to_nat (kl + kr - 1))%nat by (unfold zlen in Lnc; lia).
      rewrite val_skipn_mod by (auto; unfold zlen in Lnc; lia).
      rewrite Z2Nat.id by lia. rewrite pow2_8 by lia. rewrite mod_mod_pow2 by lia.
      rewrite Vnc. apply Z.mod_small; auto.
  - apply b_new_left_T; auto; try lia. rewrite Vnc. apply Z.mod_small; auto.
Qed.

(* (c) left RIGHT-padded and byte aligned *)
Lemma b_add_right_aligned_core l r r' : canon l -> canon r' -> bside l = RIGHT -> bpl l = 0 ->
  bpl r' = 0 \/ bside r' = RIGHT -> blen r' = blen r -> num r' = num r ->
  exists x, b_new (content l ++ content r') (blen l + blen r) RIGHT = Ok x /\ add_post l r x.
Proof.
  intros Cl Cr Sl Hpl Hr EL EN. unfold add_post. rewrite Sl, <- EL, <- EN.
  destruct (canon_facts l Cl) as (Ll0 & Pll & Lenl & Okl & Nbl & Vl & Cpll).
  destruct (canon_facts r' Cr) as (Lr0 & Plr & Lenr & Okr & Nbr & Vr & Cplr).
  rewrite Sl, Hpl in Vl. rewrite Z.pow_0_r, Z.mul_1_r in Vl.
  assert (val (content r') = num r' * 2 ^ bpl r') as Vr'.
  { destruct Hr as [E|E]; [rewrite E in *; rewrite Z.pow_0_r; destruct (bside r'); lia|rewrite E in Vr; auto]. }
  apply b_new_right_T.
  - apply bytes_ok_app; auto.
  - rewrite zlen_app. lia.
  - rewrite zlen_app, val_app, Vl, Vr', (pow256_as _ (blen r') (bpl r')) by lia.
    replace (8 * (zlen (content l) + zlen (content r')) - (blen l + blen r')) with (bpl r') by lia. ring.
Qed.

Lemma b_add_right_aligned : pad_ok -> forall l r, canon l -> canon r -> blen r <> 0 -> bside l = RIGHT -> bpl l = 0 ->
  exists x, b_add l r = Ok x /\ add_post l r x.
Proof.
  intros Hpad l r Cl Cr Hne Sl Hpl. unfold b_add.
  rewrite (proj2 (Z.eqb_neq _ _) Hne), Sl, Hpl. cbn [Z.eqb].
  destruct ((bpl r =? 0) || side_eqb (bside r) RIGHT) eqn:E.
  - cbn [bind]. apply b_add_right_aligned_core; auto.
    apply orb_true_iff in E as [E|E]; [left; apply Z.eqb_eq; auto|right; destruct (bside r); auto; discriminate].
  - destruct (Hpad r RIGHT false Cr) as (r' & Er & Cr' & Sr' & Lr' & Nr'). rewrite Er. cbn [bind].
    apply b_add_right_aligned_core; auto.
Qed.

(* ---- left RIGHT-padded, not byte aligned ----------------------------------------------------- *)
Lemma mod8_of_pl L pl k : L + pl = 8 * k -> 0 < pl < 8 -> L mod 8 = 8 - pl.
Proof.
  intros E H. replace L with ((8 - pl) + (k - 1) * 8) by lia. rewrite Z.mod_add by lia. apply Z.mod_small. lia.
Qed.

(* (d) the paddings add up to one byte *)
Lemma b_add_right_merge l r : canon l -> canon r -> blen r <> 0 -> bside l = RIGHT -> bpl l <> 0 ->
  bside r = LEFT -> bpl l + bpl r = 8 -> exists x, b_add l r = Ok x /\ add_post l r x.
Proof.
  intros Cl Cr Hne Sl Hpl Sr H8. unfold b_add, add_post.
  rewrite (proj2 (Z.eqb_neq _ _) Hne), Sl, (proj2 (Z.eqb_neq _ _) Hpl), Sr, (proj2 (Z.eqb_eq _ _) H8).
  destruct (canon_facts l Cl) as (Ll0 & Pll & Lenl & Okl & Nbl & Vl & Cpll).
  destruct (canon_facts r Cr) as (Lr0 & Plr & Lenr & Okr & Nbr & Vr & Cplr).
  rewrite Sl in Vl. rewrite Sr, Z.mul_1_r in Vr.
  set (kl := zlen (content l)) in *. set (kr := zlen (content r)) in *.
  pose proof (pow2_pos (bpl l) ltac:(lia)) as Hppl.
  assert (2 ^ blen r = 2 ^ bpl l * 256 ^ (kr - 1)) as EpLr.
  { rewrite pow2_8 by lia. rewrite <- Z.pow_add_r by lia. f_equal. lia. }
  destruct (merge_spec (content l) (content r) (bpl l)) as (m & Em & Om & Lm & Vm); auto; try (fold kl; fold kr; lia).
  { rewrite Vl. apply Z.mod_mul. lia. }
  rewrite Em. cbn [bind]. fold kl kr in Lm, Vm. apply b_new_right_T; auto; try lia.
  rewrite Lm. replace (8 * (kl + kr - 1) - (blen l + blen r)) with 0 by lia.
  rewrite Vm, Vl, Vr, EpLr, Z.pow_0_r. ring.
Qed.

(* (f), (g): right content shifted right by bs, merged, carry byte appended *)
Lemma add_shr_core l r bs : canon l -> canon r -> blen r <> 0 -> bside l = RIGHT -> bpl l <> 0 -> 0 < bs < 8 ->
  val (content r) * 2 ^ (8 - bs) = num r * 2 ^ (bpl l + bpl r) ->
  exists x,
    (do nc0 <- (let '(nc, carry) := shr_stream bs 0 (content r) in
                do nc <- check_bytes nc ;;
                do m <- merge_last_first (content l) nc ;;
                do cb <- to_byte carry ;;
                Ok (m ++ [cb])) ;;
     b_new nc0 (blen l + blen r) RIGHT) = Ok x /\ add_post l r x.
Proof.
  intros Cl Cr Hne Sl Hpl Hbs Hv. unfold add_post. rewrite Sl.
  destruct (canon_facts l Cl) as (Ll0 & Pll & Lenl & Okl & Nbl & Vl & Cpll).
  destruct (canon_facts r Cr) as (Lr0 & Plr & Lenr & Okr & Nbr & Vr & Cplr).
  rewrite Sl in Vl. clear Vr.
  set (kl := zlen (content l)) in *. set (kr := zlen (content r)) in *.
  pose proof (pow2_pos (bpl l) ltac:(lia)) as Hppl. pose proof (pow2_pos (bpl r) ltac:(lia)) as Hppr.
  pose proof (pow2_pos (8 - bs) ltac:(lia)) as Hp8.
  pose proof (pow2_pos (blen r) ltac:(lia)) as HpLr.
  assert (1 <= kr) as Hkr by lia. assert (1 <= kl) as Hkl by lia.
  pose proof (pow256_pos' (kr - 1) ltac:(lia)) as HP.
  assert (256 ^ kr = 256 ^ (kr - 1) * 256) as Ekr.
  { replace kr with (kr - 1 + 1) at 1 by lia. apply pow256_succ. lia. }
  pose proof (pow256_as kr (blen r) (bpl r) ltac:(lia) ltac:(lia) ltac:(lia)) as E256.
  rewrite pow2_split in Hv by lia.
  destruct (shr_stream_spec bs (content r) ltac:(lia) Okr 0 ltac:(change 256 with (2 ^ 8);
    pose proof (Z.pow_le_mono_r 2 (8 - bs) 8 ltac:(lia) ltac:(lia)); lia)) as (SL & SO & SC & SE).
  destruct (shr_stream bs 0 (content r)) as [nc carry]. cbn [fst snd] in *.
  rewrite Z.mul_0_l, Z.add_0_r, Hv in SE. fold kr in SL.
  rewrite check_bytes_ok by auto. cbn [bind].
  destruct (merge_spec (content l) nc (bpl l)) as (m & Em & Om & Lm & Vm); auto; try (fold kl; lia).
  { rewrite Vl. apply Z.mod_mul. lia. }
  { rewrite SL. assert (val nc * 256 < 2 ^ bpl l * 256 ^ (kr - 1) * 256); [|lia].
    rewrite <- Z.mul_assoc, <- Ekr, E256. nia. }
  rewrite Em. cbn [bind]. rewrite to_byte_ok by lia. cbn [bind]. fold kl in Lm, Vm. rewrite SL in Lm, Vm.
  apply b_new_right_T.
  - apply bytes_ok_app. split; auto. apply bytes_ok_cons. split; [lia|constructor].
  - rewrite zlen_app. change (zlen [carry]) with 1. lia.
  - rewrite zlen_app, val_app, val_single. change (zlen [carry]) with 1. rewrite Z.pow_1_r.
    replace (8 * (zlen m + 1) - (blen l + blen r)) with (bpl l + bpl r) by lia.
    rewrite pow2_split by lia. rewrite Vm, Vl.
    transitivity (num l * 2 ^ bpl l * (256 ^ (kr - 1) * 256) + (val nc * 256 + carry)); [ring|].
    rewrite <- Ekr, E256, SE. ring.
Qed.

(* (g) right RIGHT-padded *)
Lemma b_add_right_right l r : canon l -> canon r -> blen r <> 0 -> bside l = RIGHT -> bpl l <> 0 ->
  bside r = RIGHT -> exists x, b_add l r = Ok x /\ add_post l r x.
Proof.
  intros Cl Cr Hne Sl Hpl Sr. unfold b_add.
  rewrite (proj2 (Z.eqb_neq _ _) Hne), Sl, (proj2 (Z.eqb_neq _ _) Hpl), Sr.
  destruct (canon_facts l Cl) as (Ll0 & Pll & _).
  destruct (canon_facts r Cr) as (Lr0 & Plr & Lenr & Okr & Nbr & Vr & Cplr).
  apply add_shr_core; auto; try lia.
  replace (8 - (8 - bpl l)) with (bpl l) by lia. rewrite Vr, Sr, pow2_split by lia. ring.
Qed.

(* (f) right LEFT-padded, paddings together shorter than a byte *)
Lemma b_add_right_left_shr l r : canon l -> canon r -> blen r <> 0 -> bside l = RIGHT -> bpl l <> 0 ->
  bside r = LEFT -> bpl l + bpl r < 8 -> exists x, b_add l r = Ok x /\ add_post l r x.
Proof.
  intros Cl Cr Hne Sl Hpl Sr H8. unfold b_add.
  destruct (canon_facts l Cl) as (Ll0 & Pll & Lenl & _).
  destruct (canon_facts r Cr) as (Lr0 & Plr & Lenr & Okr & Nbr & Vr & Cplr).
  rewrite (proj2 (Z.eqb_neq _ _) Hne), Sl, (proj2 (Z.eqb_neq _ _) Hpl), Sr.
  rewrite (proj2 (Z.eqb_neq (bpl l + bpl r) 8)) by lia.
  rewrite (mod8_of_pl _ _ _ Lenl) by lia.
  rewrite (proj2 (Z.ltb_ge (8 - bpl l) (bpl r))) by lia.
  apply add_shr_core; auto; try lia.
  replace (8 - (8 - bpl l - bpl r)) with (bpl l + bpl r) by lia. rewrite Vr, Sr. ring.
Qed.

(* (e) right LEFT-padded, paddings together longer than a byte: right content shifted left *)
Lemma b_add_right_left_shl l r : canon l -> canon r -> blen r <> 0 -> bside l = RIGHT -> bpl l <> 0 ->
  bside r = LEFT -> 8 < bpl l + bpl r -> exists x, b_add l r = Ok x /\ add_post l r x.
Proof.
  intros Cl Cr Hne Sl Hpl Sr H8. unfold b_add, add_post.
  destruct (canon_facts l Cl) as (Ll0 & Pll & Lenl & Okl & Nbl & Vl & Cpll).
  destruct (canon_facts r Cr) as (Lr0 & Plr & Lenr & Okr & Nbr & Vr & Cplr).
  rewrite (proj2 (Z.eqb_neq _ _) Hne), Sl, (proj2 (Z.eqb_neq _ _) Hpl), Sr.
  rewrite (proj2 (Z.eqb_neq (bpl l + bpl r) 8)) by lia.
  rewrite (mod8_of_pl _ _ _ Lenl) by lia.
  rewrite (proj2 (Z.ltb_lt (8 - bpl l) (bpl r))) by lia.
  rewrite Sl in Vl. rewrite Sr, Z.mul_1_r in Vr.
  set (bs := bpl r - (8 - bpl l)) in *. assert (0 < bs < 8) as Hbs by (unfold bs; lia).
  set (kl := zlen (content l)) in *. set (kr := zlen (content r)) in *.
  assert (1 <= kr) as Hkr by lia. assert (1 <= kl) as Hkl by lia.
  pose proof (pow2_pos (bpl l) ltac:(lia)) as Hppl. pose proof (pow2_pos bs ltac:(lia)) as Hpbs.
  pose proof (pow256_pos' (kr - 1) ltac:(lia)) as HP.
  assert (256 ^ kr = 256 ^ (kr - 1) * 256) as Ekr.
  { replace kr with (kr - 1 + 1) at 1 by lia. apply pow256_succ. lia. }
  assert (2 ^ blen r * 2 ^ bs = 2 ^ bpl l * 256 ^ (kr - 1)) as EpLr.
  { rewrite pow2_8 by lia. rewrite <- !Z.pow_add_r by lia. f_equal. unfold bs. lia. }
  assert (2 ^ bpl l <= 256) as Hle.
  { change 256 with (2 ^ 8). apply Z.pow_le_mono_r; lia. }
  assert (bytes_ok (rev (content r))) as Okrev by (apply Forall_rev; auto).
  destruct (shl_stream_rev_spec bs (rev (content r)) ltac:(lia) Okrev 0 [] bytes_ok_nil ltac:(lia))
    as (SL & SO & SC & SE).
  destruct (shl_stream_rev bs 0 (rev (content r)) []) as [nc cf]. cbn [fst snd] in *.
  rewrite rev_involutive in SE. change (zlen (@nil Z)) with 0 in *. cbn [val] in SE.
  assert (zlen (rev (content r)) = kr) as Lrev by (unfold kr, zlen; rewrite rev_length; reflexivity).
  rewrite Lrev, Z.add_0_l in *. rewrite Z.pow_0_r, Z.mul_0_l, !Z.add_0_r, Z.mul_1_r, Vr in SE.
  pose proof (val_bound nc SO) as Bnc. rewrite SL in Bnc.
  assert (num r * 2 ^ bs < 2 ^ bpl l * 256 ^ (kr - 1)) as Hlt by (rewrite <- EpLr; nia).
  assert (cf = 0) as Ecf by nia. rewrite Ecf, Z.mul_0_l, Z.add_0_r in SE.
  rewrite check_bytes_ok by auto. cbn [bind].
  destruct (merge_spec (content l) nc (bpl l)) as (m & Em & Om & Lm & Vm); auto; try (fold kl; lia).
  { rewrite Vl. apply Z.mod_mul. lia. }
  { rewrite SL, SE. exact Hlt. }
  rewrite Em. fold kl in Lm, Vm. rewrite SL in Lm, Vm.
  apply b_new_right_T; auto; try lia.
  rewrite Lm. replace (8 * (kl + kr - 1) - (blen l + blen r)) with bs by (unfold bs; lia).
  rewrite Vm, Vl, SE.
  transitivity (num l * (2 ^ bpl l * 256 ^ (kr - 1)) + num r * 2 ^ bs); [ring|]. rewrite <- EpLr. ring.
Qed.

(* ---- all branches together -------------------------------------------------------------------- *)
Theorem b_add_spec : pad_ok -> forall l r, canon l -> canon r ->
  exists x, b_add l r = Ok x /\ canon x /\ bside x = bside l /\ blen x = blen l + blen r /\
            num x = num l * 2 ^ blen r + num r.
Proof.
  intros Hpad l r Cl Cr. change (exists x, b_add l r = Ok x /\ add_post l r x).
  destruct (Z.eq_dec (blen r) 0) as [E0|Hne]; [apply b_add_empty; auto|].
  destruct (bside l) eqn:Sl.
  - destruct (Z.eq_dec (bpl r) 0); [apply b_add_left_aligned|apply b_add_left_unaligned]; auto.
  - destruct (Z.eq_dec (bpl l) 0) as [|Hpl]; [apply b_add_right_aligned; auto|].
    destruct (bside r) eqn:Sr; [|apply b_add_right_right; auto].
    destruct (Z.lt_total (bpl l + bpl r) 8) as [H|[H|H]].
    + apply b_add_right_left_shr; auto.
    + apply b_add_right_merge; auto.
    + apply b_add_right_left_shl; auto.
Qed.
