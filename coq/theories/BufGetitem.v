From Coq Require Import ZArith Znumtheory List Bool Lia.
From MS Require Import PyBase Buffer Bits ByteFacts BufferAbs BufNew.
Import ListNotations.
Open Scope Z_scope.
(* BufGetitem.v -- refinement of Buffer.__getitem__ (slice and int forms) and Buffer.__iter__:
   on a canonical buffer self[s:e] denotes bits s..e-1 of the bit sequence, i.e. the number
   (num b / 2^(blen b - e)) mod 2^(e - s), with the same padding side, and is canonical. *)

(* ---- list / index helpers --------------------------------------------------------------------- *)
Lemma py_index_mid {A} (l1 : list A) x l2 i : i = zlen l1 -> py_index (l1 ++ x :: l2) i = Ok x.
Proof.
  intros ->. unfold py_index. pose proof (zlen_nonneg l1). pose proof (zlen_nonneg l2).
  rewrite zlen_app, zlen_cons.
  destruct (Z.ltb_spec (zlen l1) 0); [lia|].
  destruct (Z.ltb_spec (zlen l1) 0); [lia|].
  destruct (Z.leb_spec (zlen l1 + (1 + zlen l2)) (zlen l1)); [lia|]. cbn [orb].
  replace (Z.to_nat (zlen l1)) with (length l1) by (unfold zlen; lia).
  rewrite nth_error_app2 by lia. rewrite Nat.sub_diag. reflexivity.
Qed.

Lemma index_range_app (l : list Z) : forall pre post i, i = zlen pre ->
  index_range (pre ++ l ++ post) i (length l) = Ok l.
Proof.
  induction l as [|x l IH]; intros pre post i Hi; cbn [index_range length]; [reflexivity|].
  cbn [app]. rewrite py_index_mid by auto. cbn [bind].
  replace (pre ++ x :: l ++ post) with ((pre ++ [x]) ++ l ++ post) by (rewrite <- app_assoc; reflexivity).
  rewrite IH by (rewrite zlen_app; subst; reflexivity). reflexivity.
Qed.

Lemma index_range_app1 (l : list Z) pre x post i : i = zlen pre + 1 ->
  index_range (pre ++ x :: l ++ post) i (length l) = Ok l.
Proof.
  intros Hi. replace (pre ++ x :: l ++ post) with ((pre ++ [x]) ++ l ++ post) by (rewrite <- app_assoc; reflexivity).
  apply index_range_app. rewrite zlen_app. exact Hi.
Qed.

Lemma split3 (l : list Z) a z : 0 <= a <= z -> z <= zlen l ->
  exists pre mid post, l = pre ++ mid ++ post /\ zlen pre = a /\ zlen mid = z - a /\ zlen post = zlen l - z /\
    py_slice l (Some a) (Some z) = mid.
Proof.
  intros H1 H2.
  exists (firstn (Z.to_nat a) l), (firstn (Z.to_nat (z - a)) (skipn (Z.to_nat a) l)),
         (skipn (Z.to_nat (z - a)) (skipn (Z.to_nat a) l)).
  split; [rewrite !firstn_skipn; reflexivity|].
  rewrite py_slice_mid by lia.
  unfold zlen in *. rewrite !firstn_length, !skipn_length. repeat split; lia.
Qed.

(* ---- the two carry loops used by __getitem__ -------------------------------------------------- *)
Lemma pow_split s : 0 <= s <= 8 -> 2 ^ s * 2 ^ (8 - s) = 256.
Proof. intros H. rewrite <- Z.pow_add_r by lia. replace (s + (8 - s)) with 8 by lia. reflexivity. Qed.

Lemma shr_stream_spec s : 0 <= s < 8 -> forall bs c out cf, bytes_ok bs -> 0 <= c < 2 ^ s ->
  shr_stream s (c * 2 ^ (8 - s)) bs = (out, cf) ->
  length out = length bs /\ bytes_ok out /\
  exists c', 0 <= c' < 2 ^ s /\ val out * 2 ^ s + c' = val bs + c * 256 ^ zlen bs.
Proof.
  intros Hs. pose proof (pow_split s ltac:(lia)) as H256.
  set (q := 2 ^ s) in *. set (p := 2 ^ (8 - s)) in *.
  assert (0 < q) as Hq by (apply Z.pow_pos_nonneg; lia).
  assert (0 < p) as Hp by (apply Z.pow_pos_nonneg; lia).
  induction bs as [|b r IH]; intros c out cf Hok Hc H.
  - cbn [shr_stream] in H. injection H as <- <-. split; [reflexivity|]. split; [constructor|].
    exists c. split; [lia|]. cbn. lia.
  - apply bytes_ok_cons in Hok as [Hb Hr]. cbn [shr_stream] in H.
    rewrite byte_shiftr, low_mask, byte_shiftl in H by lia. fold q p in H.
    destruct (shr_stream s (b mod q * p) r) as [out' cf'] eqn:E. injection H as <- <-.
    pose proof (Z.mod_pos_bound b q Hq) as Hm.
    apply IH in E; auto. destruct E as (Hlen & Hok' & c' & Hc' & Heq).
    split; [cbn [length]; lia|].
    assert (0 <= b / q < p) as Hd.
    { split; [apply Z.div_pos; lia|apply Z.div_lt_upper_bound; lia]. }
    split.
    + apply bytes_ok_cons. split; [nia|auto].
    + exists c'. split; [auto|]. rewrite !val_cons, !zlen_cons.
      assert (zlen out' = zlen r) as -> by (unfold zlen; lia).
      rewrite Z.pow_add_r, Z.pow_1_r by (try apply zlen_nonneg; lia).
      set (P := 256 ^ zlen r) in *. pose proof (Z.div_mod b q ltac:(lia)) as Hdm.
      set (d := b / q) in *. set (m := b mod q) in *. rewrite <- H256. rewrite Hdm at 1.
      clearbody d m P q p. lia.
Qed.

Lemma shl_stream_rev_m_spec s : 0 <= s < 8 -> forall rbs c acc out cf, bytes_ok rbs -> 0 <= c < 2 ^ s ->
  shl_stream_rev_m s c rbs acc = (out, cf) ->
  exists new, out = new ++ acc /\ length new = length rbs /\ bytes_ok new /\ 0 <= cf < 2 ^ s /\
    cf * 256 ^ zlen rbs + val new = val (rev rbs) * 2 ^ s + c.
Proof.
  intros Hs. pose proof (pow_split s ltac:(lia)) as H256.
  set (q := 2 ^ s) in *. set (p := 2 ^ (8 - s)) in *.
  assert (0 < q) as Hq by (apply Z.pow_pos_nonneg; lia).
  assert (0 < p) as Hp by (apply Z.pow_pos_nonneg; lia).
  induction rbs as [|b r IH]; intros c acc out cf Hok Hc H.
  - cbn [shl_stream_rev_m] in H. injection H as <- <-. exists []. cbn. repeat split; try lia. constructor.
  - apply bytes_ok_cons in Hok as [Hb Hr]. cbn [shl_stream_rev_m] in H.
    rewrite low_mask, byte_shiftl, land_255, byte_shiftr in H by lia. fold q p in H.
    assert (0 <= b / p < q) as Hd.
    { split; [apply Z.div_pos; lia|apply Z.div_lt_upper_bound; lia]. }
    rewrite (Z.mod_small (b / p) q) in H by lia.
    apply IH in H; auto. destruct H as (new' & -> & Hlen & Hok' & Hcf & Heq).
    assert ((b * q) mod 256 = (b mod p) * q) as Hbq.
    { rewrite <- H256, (Z.mul_comm q p). apply Z.mul_mod_distr_r; lia. }
    rewrite Hbq in *. pose proof (Z.mod_pos_bound b p Hp) as Hm.
    exists (new' ++ [b mod p * q + c]). split; [rewrite <- app_assoc; reflexivity|].
    split; [rewrite app_length; cbn [length]; lia|].
    split; [apply bytes_ok_app; split; auto; apply bytes_ok_cons; split; [nia|constructor]|].
    split; [auto|].
    cbn [rev]. rewrite !val_app, !val_single, zlen_cons. change (zlen [b]) with 1.
    change (zlen [b mod p * q + c]) with 1.
    rewrite Z.pow_add_r, !Z.pow_1_r by (try apply zlen_nonneg; lia).
    set (P := 256 ^ zlen r) in *. pose proof (Z.div_mod b p ltac:(lia)) as Hdm.
    set (d := b / p) in *. set (m := b mod p) in *. rewrite <- H256. rewrite Hdm at 1.
    clearbody d m P q p. nia.
Qed.

(* ---- arithmetic helpers ----------------------------------------------------------------------- *)
Lemma mod_div_pow2 x i j : 0 <= j <= i -> (x mod 2 ^ i) / 2 ^ j = (x / 2 ^ j) mod 2 ^ (i - j).
Proof.
  intros H. assert (0 < 2 ^ j) by (apply Z.pow_pos_nonneg; lia).
  assert (0 < 2 ^ (i - j)) by (apply Z.pow_pos_nonneg; lia).
  replace (2 ^ i) with (2 ^ j * 2 ^ (i - j)) by (rewrite <- Z.pow_add_r by lia; f_equal; lia).
  rewrite Z.rem_mul_r by lia. rewrite Z.add_comm, Z.mul_comm, Z.div_add_l by lia.
  rewrite (Z.div_small (x mod 2 ^ j)) by (apply Z.mod_pos_bound; lia). lia.
Qed.

Lemma num_range b : canon b -> 0 <= num b < 2 ^ blen b.
Proof.
  intros (HL & Hpl & Hlen & Hok & Hside). unfold num. pose proof (val_bound _ Hok) as Hb.
  destruct (bside b).
  - lia.
  - destruct (calc_pl_spec (blen b)) as [n [Hn Hn']]. pose proof (calc_pl_range (blen b)) as Hr.
    rewrite <- Hpl in Hn, Hr. rewrite Hlen, <- Hn' in Hb. rewrite pow2_8 in Hb by lia.
    replace (8 * n) with (bpl b + blen b) in Hb by lia. rewrite Z.pow_add_r in Hb by lia.
    assert (0 < 2 ^ bpl b) by (apply Z.pow_pos_nonneg; lia).
    split; [apply Z.div_pos; lia|apply Z.div_lt_upper_bound; lia].
Qed.

Lemma b_getitem_bits_empty b s : canon b ->
  exists r, b_getitem_bits b s s = Ok r /\ canon r /\ bside r = bside b /\ blen r = 0 /\ num r = 0.
Proof.
  intros _. unfold b_getitem_bits. rewrite Z.sub_diag. cbn [Z.eqb]. destruct (bside b).
  - destruct (b_new_left [] 0 bytes_ok_nil ltac:(lia)) as (r & Er & Cr & Sr & Lr & Nr).
    exists r. do 4 (split; [auto|]). rewrite Nr. cbn [val]. apply Zmod_0_l.
  - destruct (b_new_right [] 0 bytes_ok_nil ltac:(lia)) as (r & Er & Cr & Sr & Lr & Nr).
    exists r. do 4 (split; [auto|]). rewrite Nr. cbn [val]. rewrite Z.mul_0_l. apply Zdiv_0_l.
Qed.

(* ---- self[s:e], LEFT padded --------------------------------------------------------------------- *)
Lemma b_getitem_bits_left b s e : canon b -> bside b = LEFT -> 0 <= s < e -> e <= blen b ->
  exists r, b_getitem_bits b s e = Ok r /\ canon r /\ bside r = LEFT /\ blen r = e - s /\
            num r = (num b / 2 ^ (blen b - e)) mod 2 ^ (e - s).
Proof.
  intros (HL & Hpl & Hlen & Hok & Hside) Hsd Hse He.
  unfold b_getitem_bits. destruct b as [c L sd pl]. unfold num at 2. cbn [content blen bside bpl] in *. subst sd.
  destruct (Z.eqb_spec (e - s) 0) as [?|_]; [lia|].
  destruct (calc_pl_spec L) as [n [Hn Hn']]. pose proof (calc_pl_range L) as Hplr.
  rewrite <- Hpl in Hn, Hplr. clear Hpl. rewrite <- Hn' in Hlen. clear Hn'.
  (* index arithmetic *)
  destruct (calc_pl_spec (e + pl)) as [z [Hz Hz']]. pose proof (calc_pl_range (e + pl)) as Hsbr.
  unfold calc_pl in Hz, Hsbr. rewrite <- Hz'. clear Hz'.
  set (sb := (8 - (e + pl) mod 8) mod 8) in *.
  pose proof (Z.div_mod (s + pl) 8 ltac:(lia)) as Ha.
  pose proof (Z.mod_pos_bound (s + pl) 8 ltac:(lia)) as Hsmr.
  set (a := (s + pl) / 8) in *. set (sm := (s + pl) mod 8) in *.
  assert (0 <= a < z /\ z <= n) as (Haz & Hzn) by lia.
  destruct (split3 c a z ltac:(lia) ltac:(lia)) as (pre & mid & post & Ec & Lpre & Lmid & Lpost & _).
  destruct mid as [|b0 rest]; [unfold zlen in Lmid; cbn in Lmid; lia|].
  rewrite zlen_cons in Lmid. subst c.
  change ((b0 :: rest) ++ post) with (b0 :: rest ++ post).
  apply bytes_ok_app in Hok as [Hpre Hok]. apply bytes_ok_app in Hok as [Hmid Hpost].
  apply bytes_ok_cons in Hmid as [Hb0 Hrest].
  rewrite py_index_mid by auto. cbn [bind].
  rewrite !low_mask, byte_shiftr, byte_shiftl by lia.
  set (q := 2 ^ sb). set (p := 2 ^ (8 - sb)). set (m := 2 ^ (8 - sm)).
  assert (0 < q) as Hq by (apply Z.pow_pos_nonneg; lia).
  assert (0 < m <= 256) as Hm.
  { split; [apply Z.pow_pos_nonneg; lia|]. change 256 with (2 ^ 8). apply Z.pow_le_mono_r; lia. }
  pose proof (Z.mod_pos_bound b0 m ltac:(lia)) as Hb0m.
  pose proof (Z.mod_pos_bound b0 q ltac:(lia)) as Hb0q.
  assert (0 <= b0 mod m / q < 256) as Hfirst.
  { split; [apply Z.div_pos; lia|apply Z.div_lt_upper_bound; nia]. }
  rewrite to_byte_ok by auto. cbn [bind].
  replace (Z.to_nat (z - (a + 1))) with (length rest) by (unfold zlen in *; lia).
  rewrite index_range_app1 by lia. cbn [bind].
  destruct (shr_stream sb (b0 mod q * p) rest) as [out cf] eqn:E. cbn [fst].
  apply shr_stream_spec in E; auto. destruct E as (Lout & Hout & c' & Hc' & Eq).
  rewrite check_bytes_ok by auto. cbn [bind].
  assert (bytes_ok (b0 mod m / q :: out)) as Hokf by (apply bytes_ok_cons; auto).
  destruct (b_new_left _ (e - s) Hokf ltac:(lia)) as (r & Er & Cr & Sr & Lr & Nr).
  exists r. do 4 (split; [auto|]). rewrite Nr. clear Nr Er Cr Sr Lr r.
  (* arithmetic *)
  set (k := zlen rest) in *. set (j := zlen post) in *. set (w := e - s) in *.
  assert (0 <= k /\ 0 <= j) as (Hk & Hj) by (unfold k, j; split; apply zlen_nonneg).
  assert (zlen out = k) as Lo by (unfold k, zlen; lia).
  assert (0 < 2 ^ w) as Hw by (apply Z.pow_pos_nonneg; lia).
  assert (0 < 256 ^ k) as HPk by (apply Z.pow_pos_nonneg; lia).
  assert (0 < 256 ^ j) as HPj by (apply Z.pow_pos_nonneg; lia).
  pose proof (val_bound _ Hout) as Bout. rewrite Lo in Bout.
  pose proof (val_bound _ Hpost) as Bpost. fold j in Bpost.
  set (X := val (b0 :: rest)).
  assert (X / q = (b0 / q) * 256 ^ k + val out) as HXq.
  { unfold X. rewrite val_cons. fold k. rewrite (Z.div_mod b0 q) at 1 by lia.
    replace ((q * (b0 / q) + b0 mod q) * 256 ^ k + val rest) with ((b0 / q * 256 ^ k + val out) * q + c') by lia.
    rewrite Z.div_add_l by lia. rewrite (Z.div_small c') by lia. lia. }
  assert (val (pre ++ b0 :: rest ++ post) / 2 ^ (L - e) = val pre * 2 ^ sm * 2 ^ w + X / q) as HV.
  { change (b0 :: rest ++ post) with ((b0 :: rest) ++ post). rewrite !val_app. fold X j. rewrite zlen_app, zlen_cons. fold k j.
    replace (2 ^ (L - e)) with (256 ^ j * q)
      by (unfold q; rewrite pow2_8, <- Z.pow_add_r by lia; f_equal; lia).
    rewrite <- Z.div_div by lia.
    replace (val pre * 256 ^ (1 + k + j) + (X * 256 ^ j + val post))
      with ((val pre * 256 ^ (1 + k) + X) * 256 ^ j + val post)
      by (rewrite (Z.pow_add_r 256 (1 + k) j) by lia; ring).
    rewrite Z.div_add_l by lia. rewrite (Z.div_small (val post)) by lia. rewrite Z.add_0_r.
    replace (256 ^ (1 + k)) with (2 ^ sm * 2 ^ w * q)
      by (unfold q; rewrite pow2_8, <- !Z.pow_add_r by lia; f_equal; lia).
    replace (val pre * (2 ^ sm * 2 ^ w * q) + X) with (val pre * 2 ^ sm * 2 ^ w * q + X) by ring.
    rewrite Z.div_add_l by lia. reflexivity. }
  rewrite HV. rewrite Z.add_comm, Z.mod_add by lia. rewrite HXq.
  rewrite val_cons, Lo.
  destruct (Z_le_gt_dec sb (8 - sm)) as [Hcase|Hcase].
  - unfold m, q. rewrite mod_div_pow2 by lia. fold q.
    assert (2 ^ w = 2 ^ (8 - sm - sb) * 256 ^ k) as ->
      by (rewrite pow2_8, <- Z.pow_add_r by lia; f_equal; lia).
    assert (0 < 2 ^ (8 - sm - sb)) by (apply Z.pow_pos_nonneg; lia).
    rewrite (mod_high (b0 / q)) by lia.
    rewrite <- (mod_high (b0 / q) (val out) (256 ^ k) (2 ^ (8 - sm - sb))) by lia.
    apply Z.mod_mod. lia.
  - rewrite (Z.div_small (b0 mod m)).
    2:{ split; [lia|]. apply Z.lt_le_trans with m; [lia|]. unfold m, q. apply Z.pow_le_mono_r; lia. }
    assert (256 ^ k = 2 ^ (sb - (8 - sm)) * 2 ^ w) as ->
      by (rewrite pow2_8, <- Z.pow_add_r by lia; f_equal; lia).
    rewrite Z.mul_0_l, Z.add_0_l. rewrite Z.mul_assoc, Z.add_comm, Z.mod_add by lia. reflexivity.
Qed.

(* ---- self[s:e], RIGHT padded -------------------------------------------------------------------- *)
Lemma b_getitem_bits_right b s e : canon b -> bside b = RIGHT -> 0 <= s < e -> e <= blen b ->
  exists r, b_getitem_bits b s e = Ok r /\ canon r /\ bside r = RIGHT /\ blen r = e - s /\
            num r = (num b / 2 ^ (blen b - e)) mod 2 ^ (e - s).
Proof.
  intros (HL & Hpl & Hlen & Hok & Hside) Hsd Hse He.
  unfold b_getitem_bits. destruct b as [c L sd pl]. unfold num at 2. cbn [content blen bside bpl] in *. subst sd.
  destruct (Z.eqb_spec (e - s) 0) as [?|_]; [lia|].
  destruct (calc_pl_spec L) as [n [Hn Hn']]. pose proof (calc_pl_range L) as Hplr.
  rewrite <- Hpl in Hn, Hplr. clear Hpl. rewrite <- Hn' in Hlen. clear Hn'.
  (* index arithmetic *)
  destruct (calc_pl_spec e) as [z [Hz Hz']]. pose proof (calc_pl_range e) as Htr.
  rewrite <- Hz'. clear Hz'. set (t := calc_pl e) in *.
  pose proof (Z.div_mod s 8 ltac:(lia)) as Ha.
  pose proof (Z.mod_pos_bound s 8 ltac:(lia)) as Hsbr.
  set (a := s / 8) in *. set (sb := s mod 8) in *.
  assert (0 <= a < z /\ z <= n) as (Haz & Hzn) by lia.
  destruct (split3 c a z ltac:(lia) ltac:(lia)) as (pre & mid & post & Ec & Lpre & Lmid & Lpost & Emid).
  rewrite Emid. clear Emid.
  assert (mid <> []) as Hne by (intros ->; unfold zlen in Lmid; cbn in Lmid; lia).
  destruct (exists_last Hne) as [mid' [last Emid']].
  assert (py_index c (z - 1) = Ok last) as Hidx.
  { rewrite Ec, Emid'. replace (pre ++ (mid' ++ [last]) ++ post) with ((pre ++ mid') ++ last :: post)
      by (rewrite <- !app_assoc; reflexivity).
    apply py_index_mid. rewrite Emid' in Lmid. rewrite zlen_app in *. change (zlen [last]) with 1 in Lmid. lia. }
  rewrite Hidx. cbn [bind]. clear Hidx.
  assert (bytes_ok pre /\ bytes_ok mid /\ bytes_ok post) as (Hpre & Hmid & Hpost).
  { rewrite Ec in Hok. apply bytes_ok_app in Hok as [? Hok]. apply bytes_ok_app in Hok as [? ?]. auto. }
  assert (0 <= last < 256) as Hlast.
  { rewrite Emid' in Hmid. apply bytes_ok_app in Hmid as [_ Hl]. apply bytes_ok_cons in Hl. tauto. }
  rewrite low_mask, byte_shiftr by lia. rewrite !land_255.
  match goal with |- context [to_byte ?x] => set (lastb := x) end.
  assert (0 <= lastb < 256) as Hlastb by (apply Z.mod_pos_bound; lia).
  rewrite to_byte_ok by auto. cbn [bind].
  pose proof (pow_split sb ltac:(lia)) as H256.
  set (q := 2 ^ sb) in *. set (p := 2 ^ (8 - sb)) in *.
  assert (0 < q) as Hq by (apply Z.pow_pos_nonneg; lia).
  assert (0 < p) as Hp by (apply Z.pow_pos_nonneg; lia).
  assert (0 <= last / p < q) as Hd.
  { split; [apply Z.div_pos; lia|apply Z.div_lt_upper_bound; lia]. }
  rewrite (Z.mod_small (last / p) q) by lia.
  destruct (shl_stream_rev_m sb (last / p) (rev mid) [lastb]) as [out cf] eqn:E. cbn [fst].
  apply shl_stream_rev_m_spec in E; try lia.
  2:{ apply Forall_rev. exact Hmid. }
  destruct E as (new & -> & Lnew & Hnew & Hcf & Eq). fold q in Hcf, Eq.
  rewrite rev_involutive in Eq. rewrite rev_length in Lnew.
  assert (zlen (rev mid) = z - a) as Lrev by (unfold zlen in *; rewrite rev_length; lia).
  rewrite Lrev in Eq.
  assert (bytes_ok (new ++ [lastb])) as Hokf.
  { apply bytes_ok_app. split; auto. apply bytes_ok_cons. split; [auto|constructor]. }
  rewrite check_bytes_ok by auto. cbn [bind].
  destruct (b_new_right _ (e - s) Hokf ltac:(lia)) as (r & Er & Cr & Sr & Lr & Nr).
  exists r. do 4 (split; [auto|]). rewrite Nr. clear Nr Er Cr Sr Lr r.
  (* arithmetic *)
  set (w := e - s) in *.
  destruct (calc_pl_spec w) as [k' [Hk1 Hk2]]. pose proof (calc_pl_range w) as Hk3. rewrite <- Hk2. clear Hk2.
  assert (zlen new = z - a) as Lnew' by (unfold zlen in *; lia).
  rewrite zlen_app, Lnew'. change (zlen [lastb]) with 1.
  replace (Z.max 0 (k' - (z - a + 1))) with 0 by lia. rewrite Z.pow_0_r, Z.mul_1_r.
  replace (Z.max (z - a + 1) k') with (z - a + 1) by lia.
  set (j := zlen post) in *. assert (0 <= j) as Hj by apply zlen_nonneg.
  assert (0 < 2 ^ w) as Hw by (apply Z.pow_pos_nonneg; lia).
  assert (0 < 2 ^ t) as Ht by (apply Z.pow_pos_nonneg; lia).
  assert (0 < 256 ^ j) as HPj by (apply Z.pow_pos_nonneg; lia).
  assert (256 ^ (z - a) = 2 ^ w * (q * 2 ^ t)) as Hpow
    by (unfold q; rewrite pow2_8, <- !Z.pow_add_r by lia; f_equal; lia).
  pose proof (val_bound _ Hnew) as Bnew. rewrite Lnew', Hpow in Bnew.
  pose proof (val_bound _ Hpost) as Bpost. fold j in Bpost.
  (* left-hand side *)
  assert (val (new ++ [lastb]) / 2 ^ (8 * (z - a + 1) - w) = val new / (q * 2 ^ t)) as ->.
  { rewrite val_app, val_single. change (zlen [lastb]) with 1. rewrite Z.pow_1_r.
    replace (2 ^ (8 * (z - a + 1) - w)) with (256 * (q * 2 ^ t))
      by (unfold q; change 256 with (2 ^ 8); rewrite <- !Z.pow_add_r by lia; f_equal; lia).
    rewrite <- Z.div_div by lia. rewrite Z.div_add_l by lia. rewrite (Z.div_small lastb) by lia.
    rewrite Z.add_0_r. reflexivity. }
  assert (val new / (q * 2 ^ t) = val mid / 2 ^ t + (- cf) * 2 ^ w) as HL1.
  { rewrite <- Z.div_div by lia.
    replace (val new) with ((val mid + (- cf * 2 ^ w) * 2 ^ t) * q + last / p) by (rewrite Hpow in Eq; lia).
    rewrite Z.div_add_l by lia. rewrite (Z.div_small (last / p)) by lia. rewrite Z.add_0_r.
    rewrite Z.div_add by lia. lia. }
  assert (0 <= val new / (q * 2 ^ t) < 2 ^ w) as Hrange.
  { split; [apply Z.div_pos; lia|apply Z.div_lt_upper_bound; lia]. }
  (* right-hand side *)
  assert (val c / 2 ^ pl / 2 ^ (L - e) = val pre * q * 2 ^ w + val mid / 2 ^ t) as ->.
  { assert (0 < 2 ^ pl) by (apply Z.pow_pos_nonneg; lia).
    assert (0 < 2 ^ (L - e)) by (apply Z.pow_pos_nonneg; lia).
    rewrite Z.div_div by lia. rewrite <- Z.pow_add_r by lia.
    replace (2 ^ (pl + (L - e))) with (256 ^ j * 2 ^ t)
      by (rewrite pow2_8, <- Z.pow_add_r by lia; f_equal; lia).
    rewrite <- Z.div_div by lia.
    rewrite Ec, !val_app, zlen_app, Lmid. fold j.
    replace (val pre * 256 ^ (z - a + j) + (val mid * 256 ^ j + val post))
      with ((val pre * 256 ^ (z - a) + val mid) * 256 ^ j + val post)
      by (rewrite (Z.pow_add_r 256 (z - a) j) by lia; ring).
    rewrite Z.div_add_l by lia. rewrite (Z.div_small (val post)) by lia. rewrite Z.add_0_r.
    rewrite Hpow.
    replace (val pre * (2 ^ w * (q * 2 ^ t)) + val mid) with (val mid + (val pre * q * 2 ^ w) * 2 ^ t) by ring.
    rewrite Z.div_add by lia. lia. }
  rewrite Z.add_comm, Z.mod_add by lia.
  rewrite <- (Z.mod_small _ _ Hrange). rewrite HL1. apply Z.mod_add. lia.
Qed.

(* ---- both sides ------------------------------------------------------------------------------- *)
Lemma b_getitem_bits_spec b s e : canon b -> 0 <= s <= e -> e <= blen b ->
  exists r, b_getitem_bits b s e = Ok r /\ canon r /\ bside r = bside b /\ blen r = e - s /\
            num r = (num b / 2 ^ (blen b - e)) mod 2 ^ (e - s).
Proof.
  intros Hc Hse He. destruct (Z.eq_dec s e) as [->|Hne].
  - destruct (b_getitem_bits_empty b e Hc) as (r & Er & Cr & Sr & Lr & Nr).
    exists r. do 3 (split; [auto|]). split; [lia|].
    rewrite Nr, Z.sub_diag, Z.pow_0_r. symmetry. apply Z.mod_1_r.
  - destruct (bside b) eqn:Hsd.
    + apply b_getitem_bits_left; auto; lia.
    + apply b_getitem_bits_right; auto; lia.
Qed.

(* Python's clamping of slice bounds, for 0 <= start <= stop *)
Lemma b_getitem_spec b s e : canon b -> 0 <= s <= e ->
  let s' := Z.min s (blen b) in let e' := Z.min e (blen b) in
  exists r, b_getitem b (Some s) (Some e) = Ok r /\ canon r /\ bside r = bside b /\ blen r = e' - s' /\
            num r = (num b / 2 ^ (blen b - e')) mod 2 ^ (e' - s').
Proof.
  intros Hc Hse s' e'. pose proof Hc as (HL & _). unfold b_getitem.
  assert (slice_indices (blen b) (Some s) (Some e) = (s', e')) as ->.
  { unfold slice_indices, clamp_index, s', e'.
    destruct (Z.ltb_spec s 0); [lia|]. destruct (Z.ltb_spec e 0); [lia|].
    destruct (Z.ltb_spec (blen b) s), (Z.ltb_spec (blen b) e); f_equal; lia. }
  apply b_getitem_bits_spec; auto; lia.
Qed.

Lemma b_getitem_from_spec b s : canon b -> 0 <= s ->      (* self[s:] *)
  let s' := Z.min s (blen b) in
  exists r, b_getitem b (Some s) None = Ok r /\ canon r /\ bside r = bside b /\ blen r = blen b - s' /\
            num r = num b mod 2 ^ (blen b - s').
Proof.
  intros Hc Hs s'. pose proof Hc as (HL & _). unfold b_getitem.
  assert (slice_indices (blen b) (Some s) None = (s', blen b)) as ->.
  { unfold slice_indices, clamp_index, s'.
    destruct (Z.ltb_spec s 0); [lia|]. destruct (Z.ltb_spec (blen b) s); f_equal; lia. }
  destruct (b_getitem_bits_spec b s' (blen b) Hc ltac:(lia) ltac:(lia)) as (r & Er & Cr & Sr & Lr & Nr).
  exists r. do 4 (split; [auto|]). rewrite Nr, Z.sub_diag, Z.pow_0_r, Z.div_1_r. reflexivity.
Qed.

Lemma b_getitem_to_spec b e : canon b -> 0 <= e ->        (* self[:e] *)
  let e' := Z.min e (blen b) in
  exists r, b_getitem b None (Some e) = Ok r /\ canon r /\ bside r = bside b /\ blen r = e' /\
            num r = num b / 2 ^ (blen b - e').
Proof.
  intros Hc He e'. pose proof Hc as (HL & _). pose proof (num_range b Hc) as Hnum. unfold b_getitem.
  assert (slice_indices (blen b) None (Some e) = (0, e')) as ->.
  { unfold slice_indices, clamp_index, e'.
    destruct (Z.ltb_spec e 0); [lia|]. destruct (Z.ltb_spec (blen b) e); f_equal; lia. }
  destruct (b_getitem_bits_spec b 0 e' Hc ltac:(lia) ltac:(lia)) as (r & Er & Cr & Sr & Lr & Nr).
  exists r. do 3 (split; [auto|]). split; [lia|]. rewrite Nr, Z.sub_0_r.
  assert (0 < 2 ^ (blen b - e')) by (apply Z.pow_pos_nonneg; lia).
  apply Z.mod_small. split; [apply Z.div_pos; lia|]. apply Z.div_lt_upper_bound; [lia|].
  rewrite <- Z.pow_add_r by lia. replace (blen b - e' + e') with (blen b) by lia. lia.
Qed.

Lemma b_getitem_int_spec b i : canon b -> 0 <= i < blen b ->
  exists r, b_getitem_int b i = Ok r /\ canon r /\ bside r = bside b /\ blen r = 1 /\
            num r = (num b / 2 ^ (blen b - i - 1)) mod 2.
Proof.
  intros Hc Hi. unfold b_getitem_int.
  destruct (b_getitem_bits_spec b i (i + 1) Hc ltac:(lia) ltac:(lia)) as (r & Er & Cr & Sr & Lr & Nr).
  exists r. do 3 (split; [auto|]). split; [lia|]. rewrite Nr.
  replace (i + 1 - i) with 1 by lia. replace (blen b - (i + 1)) with (blen b - i - 1) by lia.
  rewrite Z.pow_1_r. reflexivity.
Qed.

(* ---- __iter__ --------------------------------------------------------------------------------- *)
Lemma bit_extract byte j : 0 <= byte < 256 -> 0 <= j <= 8 ->
  Z.shiftr (Z.land byte (2 ^ j)) j = Z.b2z (Z.testbit byte j).
Proof.
  intros Hb Hj. apply Z.eqb_eq.
  apply (sweep_byte_shift (fun b j => Z.shiftr (Z.land b (2 ^ j)) j =? Z.b2z (Z.testbit b j)));
    [vm_compute; reflexivity|lia|lia].
Qed.

Lemma val_testbit pre x post j : bytes_ok post -> 0 <= x < 256 -> 0 <= j < 8 ->
  Z.testbit (val (pre ++ x :: post)) (8 * zlen post + j) = Z.testbit x j.
Proof.
  intros Hpost Hx Hj. pose proof (zlen_nonneg post) as Hz. pose proof (val_bound _ Hpost) as Hb.
  assert (0 < 256 ^ zlen post) by (apply Z.pow_pos_nonneg; lia).
  replace (8 * zlen post + j) with (j + 8 * zlen post) by lia.
  rewrite <- Z.div_pow2_bits by lia. rewrite <- (Z.mod_pow2_bits_low _ 8) by lia. f_equal.
  rewrite <- pow2_8 by lia. change (2 ^ 8) with 256.
  rewrite val_app, val_cons, zlen_cons. rewrite Z.pow_add_r, Z.pow_1_r by lia.
  replace (val pre * (256 * 256 ^ zlen post) + (x * 256 ^ zlen post + val post))
    with ((val pre * 256 + x) * 256 ^ zlen post + val post) by ring.
  rewrite Z.div_add_l by lia. rewrite (Z.div_small (val post)) by lia. rewrite Z.add_0_r.
  rewrite Z.add_comm, Z.mod_add by lia. apply Z.mod_small. lia.
Qed.

Lemma iter_loop_core c L sd pl off d : bytes_ok c -> 0 <= off -> 0 <= d ->
  forall k i, 0 <= i -> i + off + Z.of_nat k + d = 8 * zlen c ->
  iter_loop (mkbuf c L sd pl) off i k = Ok (map Z.b2z (bits_of k (val c / 2 ^ d))).
Proof.
  intros Hok Hoff Hd. induction k as [|k IH]; intros i Hi Hsum; [reflexivity|].
  cbn [iter_loop bits_of map content].
  pose proof (Z.div_mod (i + off) 8 ltac:(lia)) as Hdm.
  pose proof (Z.mod_pos_bound (i + off) 8 ltac:(lia)) as Hbo.
  set (bi := (i + off) / 8) in *. set (bo := (i + off) mod 8) in *.
  destruct (split3 c bi (bi + 1) ltac:(lia) ltac:(lia)) as (pre & mid & post & Ec & Lpre & Lmid & Lpost & _).
  destruct mid as [|x [|y mid]]; try (unfold zlen in Lmid; cbn [length] in Lmid; lia).
  change ([x] ++ post) with (x :: post) in Ec.
  assert (py_index c bi = Ok x) as -> by (rewrite Ec; apply py_index_mid; auto).
  cbn [bind]. rewrite IH by lia. cbn [bind]. f_equal. f_equal.
  assert (bytes_ok post /\ 0 <= x < 256) as (Hpost & Hx).
  { rewrite Ec in Hok. apply bytes_ok_app in Hok as [_ Hok]. apply bytes_ok_cons in Hok. tauto. }
  rewrite bit_extract by lia. f_equal. rewrite Z.div_pow2_bits by lia.
  rewrite Ec. rewrite <- (val_testbit pre x post (8 - bo - 1)) by (auto; lia). f_equal. lia.
Qed.

Lemma b_iter_spec b : canon b -> b_iter b = Ok (map Z.b2z (abs b)).
Proof.
  intros (HL & Hpl & Hlen & Hok & Hside). unfold b_iter, abs, num.
  destruct b as [c L sd pl]. cbn [content blen bside bpl] in *.
  destruct (calc_pl_spec L) as [n [Hn Hn']]. pose proof (calc_pl_range L) as Hplr.
  rewrite <- Hpl in Hn, Hplr. rewrite <- Hn' in Hlen.
  destruct sd.
  - rewrite (iter_loop_core c L LEFT pl pl 0) by (auto; lia).
    rewrite Z.pow_0_r, Z.div_1_r. reflexivity.
  - rewrite (iter_loop_core c L RIGHT pl 0 pl) by (auto; lia). reflexivity.
Qed.
