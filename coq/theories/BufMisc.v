(* BufMisc.v -- refinement of value(), __eq__, __hash__ (hash key), dict key matching, the bitwise
   operators, __invert__, least_significant_bits and the prefix value, relative to an explicit premise
   describing pad(). *)
From Coq Require Import ZArith Znumtheory List Bool Lia.
From MS Require Import PyBase Buffer Bits ByteFacts BufferAbs BufNew.
Import ListNotations.
Open Scope Z_scope.

(* what b_pad does; proved elsewhere -- taken here as an explicit premise *)
Definition pad_ok : Prop := forall b sd ip, canon b ->
  exists r, b_pad b sd ip = Ok r /\ canon r /\ bside r = sd /\ blen r = blen b /\ num r = num b.

(* ---- arithmetic facts of a canonical buffer ------------------------------------------------- *)
Lemma canon_pow b : canon b ->
  0 <= bpl b < 8 /\ blen b + bpl b = 8 * zlen (content b) /\
  2 ^ blen b * 2 ^ bpl b = 256 ^ zlen (content b) /\
  0 <= val (content b) < 256 ^ zlen (content b) /\ 0 < 2 ^ blen b /\ 0 < 2 ^ bpl b.
Proof.
  intros (HL & Hpl & Hlen & Hok & _).
  destruct (calc_pl_spec (blen b)) as [k [Hk Hk']]. pose proof (calc_pl_range (blen b)) as Hr.
  pose proof (val_bound _ Hok) as Hb.
  rewrite <- Hpl in *. rewrite <- Hk' in Hlen. rewrite Hlen in *.
  assert (0 <= k) by lia.
  split; [lia|]. split; [lia|]. split.
  { rewrite <- Z.pow_add_r by lia. rewrite pow2_8 by lia. f_equal. lia. }
  split; [exact Hb|]. split; apply Z.pow_pos_nonneg; lia.
Qed.

Lemma canon_num_range b : canon b -> 0 <= num b < 2 ^ blen b.
Proof.
  intros C. destruct (canon_pow b C) as (Hpl & Hk & Hpow & Hv & HpL & Hppl).
  destruct C as (HL & _ & _ & _ & Hs). unfold num. destruct (bside b).
  - lia.
  - split; [apply Z.div_pos; lia|]. apply Z.div_lt_upper_bound; [lia|]. rewrite Z.mul_comm, Hpow. lia.
Qed.

(* a canonical buffer is determined by side, length and number *)
Lemma canon_ext a b : canon a -> canon b -> bside a = bside b -> blen a = blen b -> num a = num b -> a = b.
Proof.
  intros Ca Cb Hs Hl Hn.
  destruct (canon_pow a Ca) as (_ & _ & _ & _ & _ & Hpa).
  destruct Ca as (_ & Pa & La & Oa & Sa). destruct Cb as (_ & Pb & Lb & Ob & Sb).
  unfold num in Hn.
  destruct a as [ca la sa pa], b as [cb lb sb pb]. cbn [content blen bside bpl] in *.
  subst sb lb. subst pa pb. f_equal.
  apply val_inj; auto.
  - unfold zlen in *. lia.
  - destruct sa; [exact Hn|].
    rewrite (Z.div_mod (val ca) (2 ^ calc_pl la)), (Z.div_mod (val cb) (2 ^ calc_pl la)) by lia.
    rewrite Hn, Sa, Sb. reflexivity.
Qed.

Lemma bytes_eqb_eq a b : bytes_eqb a b = true <-> a = b.
Proof.
  unfold bytes_eqb. revert b. induction a as [|x a IH]; intros [|y b]; cbn [list_eqb]; split; intros H;
    try discriminate; auto.
  - apply andb_true_iff in H as [H1 H2]. apply Z.eqb_eq in H1. apply IH in H2. congruence.
  - injection H as -> ->. apply andb_true_iff. split; [apply Z.eqb_refl|apply IH; reflexivity].
Qed.

Lemma canon_bpl a b : canon a -> canon b -> blen a = blen b -> bpl a = bpl b.
Proof. intros (_ & Pa & _) (_ & Pb & _) E. congruence. Qed.

(* ---- __eq__ --------------------------------------------------------------------------------- *)
Lemma b_eq_spec : pad_ok -> forall a b, canon a -> canon b ->
  b_eq a b = Ok ((blen a =? blen b) && (num a =? num b)).
Proof.
  intros PO a b Ca Cb. unfold b_eq.
  destruct (Z.eqb_spec (blen a) (blen b)) as [E|E]; cbn [negb andb]; [|reflexivity].
  destruct (PO b (bside a) false Cb) as (r & Er & Cr & Sr & Lr & Nr). rewrite Er. cbn [bind]. f_equal.
  destruct (Z.eqb_spec (num a) (num b)) as [En|En].
  - assert (a = r) as <- by (apply canon_ext; auto; congruence). apply bytes_eqb_eq. reflexivity.
  - destruct (bytes_eqb (content a) (content r)) eqn:Eb; auto.
    apply bytes_eqb_eq in Eb. exfalso. apply En. rewrite <- Nr. unfold num.
    rewrite Sr, Eb. rewrite (canon_bpl a r) by (auto; congruence). reflexivity.
Qed.

(* ---- hash key ------------------------------------------------------------------------------- *)
Lemma b_hash_key_spec : pad_ok -> forall a b, canon a -> canon b -> blen a = blen b -> num a = num b ->
  exists h, b_hash_key a = Ok h /\ b_hash_key b = Ok h.
Proof.
  intros PO a b Ca Cb El En. unfold b_hash_key.
  destruct (PO a LEFT false Ca) as (ra & Era & Cra & Sra & Lra & Nra).
  destruct (PO b LEFT false Cb) as (rb & Erb & Crb & Srb & Lrb & Nrb).
  rewrite Era, Erb. cbn [bind].
  assert (ra = rb) as -> by (apply canon_ext; auto; congruence).
  eexists. split; reflexivity.
Qed.

Lemma key_match_spec : pad_ok -> forall k p, canon k -> canon p ->
  key_match k p = Ok ((blen k =? blen p) && (num k =? num p)).
Proof.
  intros PO k p Ck Cp. unfold key_match, b_hash_key.
  destruct (PO k LEFT false Ck) as (ra & Era & Cra & Sra & Lra & Nra).
  destruct (PO p LEFT false Cp) as (rb & Erb & Crb & Srb & Lrb & Nrb).
  rewrite Era, Erb. cbn [bind].
  destruct (bytes_eqb (content ra) (content rb)) eqn:Eb.
  - apply b_eq_spec; auto.
  - f_equal. symmetry. apply andb_false_iff.
    destruct (Z.eqb_spec (blen k) (blen p)) as [El|El]; [|now left].
    destruct (Z.eqb_spec (num k) (num p)) as [En|En]; [|now right].
    exfalso. assert (ra = rb) as E by (apply canon_ext; auto; congruence).
    rewrite E in Eb. assert (bytes_eqb (content rb) (content rb) = true) by (apply bytes_eqb_eq; reflexivity).
    congruence.
Qed.

(* ---- value() -------------------------------------------------------------------------------- *)
(* on a canonical LEFT buffer the first-byte mask is redundant *)
Lemma first_byte_small b0 t L pl : 0 <= pl < 8 -> 0 <= L -> L + pl = 8 * (1 + zlen t) -> bytes_ok (b0 :: t) ->
  val (b0 :: t) < 2 ^ L -> 0 <= b0 < 2 ^ (8 - pl).
Proof.
  intros Hpl HL Hk Hok Hv. apply bytes_ok_cons in Hok as [Hb0 Ht].
  split; [lia|]. rewrite val_cons in Hv. pose proof (val_bound t Ht) as Bt. pose proof (zlen_nonneg t).
  assert (2 ^ L = 2 ^ (8 - pl) * 256 ^ zlen t) as EL.
  { rewrite pow2_8 by lia. rewrite <- Z.pow_add_r by lia. f_equal. lia. }
  assert (0 < 256 ^ zlen t) by (apply Z.pow_pos_nonneg; lia).
  rewrite EL in Hv. nia.
Qed.

Lemma value_left w : canon w -> bside w = LEFT ->
  (let mask := Z.land (Z.shiftr 255 (bpl w)) 255 in
   do c <- (if 0 <? blen w then
             do b0 <- py_index (content w) 0 ;;
             do fb <- to_byte (Z.land b0 mask) ;;
             Ok (fb :: py_slice (content w) (Some 1) None)
           else Ok []) ;;
   Ok (val c)) = Ok (num w).
Proof.
  intros C Sw. destruct (canon_pow w C) as (Hpl & Hk & Hpow & Hv & HpL & Hppl).
  destruct C as (HL & Pw & Lw & Ow & Vw). rewrite Sw in Vw. unfold num. rewrite Sw. cbv zeta.
  destruct (Z.ltb_spec 0 (blen w)) as [Hpos|Hz].
  - destruct (content w) as [|b0 t] eqn:Ec.
    { change (zlen (@nil Z)) with 0 in Hk. lia. }
    rewrite py_index_0. cbn [bind]. rewrite land_left_mask by lia.
    rewrite zlen_cons in Hk.
    pose proof (first_byte_small b0 t (blen w) (bpl w) Hpl HL Hk Ow Vw) as Hb.
    rewrite Z.mod_small by lia.
    apply bytes_ok_cons in Ow as [Hb0 _]. rewrite to_byte_ok by lia. cbn [bind].
    rewrite py_slice_tail. reflexivity.
  - cbn [bind]. assert (blen w = 0) as E0 by lia. rewrite E0 in Vw. change (2 ^ 0) with 1 in Vw.
    f_equal. cbn [val]. lia.
Qed.

Lemma b_value_spec : pad_ok -> forall b, canon b -> b_value b = Ok (num b).
Proof.
  intros PO b C. unfold b_value. destruct (bside b) eqn:Sb.
  - cbn [bind]. apply value_left; auto.
  - destruct (PO b LEFT false C) as (r & Er & Cr & Sr & Lr & Nr). rewrite Er. cbn [bind].
    rewrite <- Nr. apply value_left; auto.
Qed.

Lemma prefix_value_spec : pad_ok -> forall b, canon b -> prefix_value b = Ok (num b).
Proof.
  intros PO b C. unfold prefix_value.
  destruct (PO b LEFT true C) as (r & Er & Cr & Sr & Lr & Nr). rewrite Er. cbn [bind].
  rewrite <- Nr. unfold num. rewrite Sr. reflexivity.
Qed.

(* ---- least_significant_bits ----------------------------------------------------------------- *)
Lemma skipn_nth {A} (l : list A) m d : (m < length l)%nat -> skipn m l = nth m l d :: skipn (S m) l.
Proof.
  revert m. induction l as [|x l IH]; intros m H; cbn [length] in H; [lia|].
  destruct m as [|m]; [reflexivity|]. cbn [skipn nth]. apply IH. lia.
Qed.

Lemma py_slice_neg_from {A} (l : list A) s : 0 < s <= zlen l ->
  py_slice l (Some (- s)) None = skipn (Z.to_nat (zlen l - s)) l.
Proof.
  intros H. unfold py_slice, slice_indices, clamp_index.
  destruct (Z.ltb_spec (- s) 0); [|lia]. destruct (Z.ltb_spec (- s + zlen l) 0); [lia|].
  replace (- s + zlen l) with (zlen l - s) by lia.
  apply firstn_all2. rewrite skipn_length. unfold zlen in *. lia.
Qed.

Lemma shiftr_255_ones ld : 0 < ld < 8 -> Z.shiftr 255 (8 - ld) = Z.ones ld.
Proof.
  intros H. assert (ld = 1 \/ ld = 2 \/ ld = 3 \/ ld = 4 \/ ld = 5 \/ ld = 6 \/ ld = 7) as D by lia.
  destruct D as [->|[->|[->|[->|[->|[->| ->]]]]]]; reflexivity.
Qed.

Lemma lsb_bytes_spec fv n : canon fv -> bside fv = LEFT -> 0 <= n <= blen fv ->
  exists r, lsb_bytes fv n = Ok r /\ canon r /\ bside r = LEFT /\ blen r = n /\ num r = num fv mod 2 ^ n.
Proof.
  intros C Sf Hn. destruct (canon_pow fv C) as (Hpl & Hk & Hpow & Hv & HpL & Hppl).
  destruct C as (HL & Pw & Lw & Ow & Vw). assert (num fv = val (content fv)) as -> by (unfold num; rewrite Sf; reflexivity).
  unfold lsb_bytes. cbv zeta.
  set (c := content fv) in *. set (full := n / 8). set (ld := n mod 8).
  pose proof (Z.div_mod n 8 ltac:(lia)) as Hdm. pose proof (Z.mod_pos_bound n 8 ltac:(lia)) as Hld.
  fold full ld in Hdm, Hld.
  assert (0 <= full) as Hf0 by (apply Z.div_pos; lia).
  assert (full <= zlen c) as Hfk by lia.
  set (res0 := if 0 <? full then py_slice c (Some (- full)) None else []).
  assert (res0 = skipn (Z.to_nat (zlen c - full)) c) as Er0.
  { unfold res0. destruct (Z.ltb_spec 0 full).
    - apply py_slice_neg_from. lia.
    - assert (full = 0) as -> by lia. rewrite Z.sub_0_r. symmetry. apply skipn_all2. unfold zlen. lia. }
  assert (bytes_ok res0) as Ok0 by (rewrite Er0; apply bytes_ok_skipn; auto).
  assert (zlen res0 = full) as L0 by (rewrite Er0; unfold zlen in *; rewrite skipn_length; lia).
  assert (val res0 = val c mod 256 ^ full) as V0.
  { rewrite Er0. replace (Z.to_nat (zlen c - full)) with (length c - Z.to_nat full)%nat by (unfold zlen in *; lia).
    rewrite val_skipn_mod by (auto; unfold zlen in *; lia). f_equal. f_equal. lia. }
  clearbody res0.
  assert (exists residue,
    (if 0 <? ld then
       do pb <- py_index c (- (full + 1)) ;;
       do lb <- to_byte (Z.land pb (Z.shiftr 255 (8 - ld))) ;; Ok (lb :: res0)
     else Ok res0) = Ok residue /\ bytes_ok residue /\ val residue = val c mod 2 ^ n) as (residue & Eres & Okr & Vr).
  { destruct (Z.ltb_spec 0 ld) as [Hpos|Hz].
    - assert (full + 1 <= zlen c) as Hf1 by lia.
      set (m := Z.to_nat (zlen c - (full + 1))).
      assert (py_index c (- (full + 1)) = Ok (nth m c 0)) as Ei.
      { unfold py_index. destruct (Z.ltb_spec (- (full + 1)) 0); [|lia].
        destruct (Z.ltb_spec (- (full + 1) + zlen c) 0); [lia|].
        destruct (Z.leb_spec (zlen c) (- (full + 1) + zlen c)); [lia|]. cbn [orb].
        replace (- (full + 1) + zlen c) with (zlen c - (full + 1)) by lia. fold m.
        destruct (nth_error c m) eqn:E.
        - f_equal. symmetry. apply nth_error_nth. exact E.
        - apply nth_error_None in E. unfold m, zlen in *. lia. }
      rewrite Ei. cbn [bind]. set (pb := nth m c 0).
      assert (skipn m c = pb :: res0) as Esk.
      { unfold pb. rewrite (skipn_nth c m 0) by (unfold m, zlen in *; lia). f_equal.
        rewrite Er0. f_equal. unfold m. lia. }
      assert (bytes_ok (pb :: res0)) as Okp by (rewrite <- Esk; apply bytes_ok_skipn; auto).
      apply bytes_ok_cons in Okp as [Hpb _].
      rewrite shiftr_255_ones by lia. rewrite Z.land_ones by lia.
      assert (0 < 2 ^ ld) as Hpld by (apply Z.pow_pos_nonneg; lia).
      assert (2 ^ ld <= 256) by (change 256 with (2 ^ 8); apply Z.pow_le_mono_r; lia).
      pose proof (Z.mod_pos_bound pb (2 ^ ld) ltac:(lia)) as Hm.
      rewrite to_byte_ok by lia. cbn [bind].
      eexists. split; [reflexivity|]. split; [apply bytes_ok_cons; split; [lia|auto]|].
      rewrite val_cons, L0.
      assert (0 < 256 ^ full) as Hp256 by (apply Z.pow_pos_nonneg; lia).
      pose proof (val_bound res0 Ok0) as B0. rewrite L0 in B0.
      rewrite <- (mod_high pb (val res0) (256 ^ full) (2 ^ ld)) by lia.
      assert (2 ^ ld * 256 ^ full = 2 ^ n) as ->.
      { rewrite pow2_8 by lia. rewrite <- Z.pow_add_r by lia. f_equal. lia. }
      assert (pb * 256 ^ full + val res0 = val c mod 2 ^ (8 * (full + 1))) as ->.
      { replace (pb * 256 ^ full + val res0) with (val (pb :: res0)) by (rewrite val_cons, L0; reflexivity).
        rewrite <- Esk. unfold m.
        replace (Z.to_nat (zlen c - (full + 1))) with (length c - Z.to_nat (full + 1))%nat by (unfold zlen in *; lia).
        rewrite val_skipn_mod by (auto; unfold zlen in *; lia). rewrite Z2Nat.id by lia.
        rewrite pow2_8 by lia. reflexivity. }
      apply mod_mod_pow2. lia.
    - eexists. split; [reflexivity|]. split; auto. rewrite V0. rewrite pow2_8 by lia. f_equal. f_equal. lia. }
  rewrite Eres. cbn [bind].
  destruct (b_new_left residue n Okr ltac:(lia)) as (r & Er & Cr & Sr & Lr & Nr).
  exists r. split; [exact Er|]. split; [exact Cr|]. split; [exact Sr|]. split; [exact Lr|].
  rewrite Nr, Vr. apply Z.mod_mod. apply Z.pow_nonzero; lia.
Qed.

(* ---- __invert__ ----------------------------------------------------------------------------- *)
Lemma zlen_map {A B} (f : A -> B) l : zlen (map f l) = zlen l.
Proof. unfold zlen. now rewrite map_length. Qed.

Lemma map_inv_val l : bytes_ok l ->
  bytes_ok (map inv_byte l) /\ val (map inv_byte l) = 256 ^ zlen l - 1 - val l.
Proof.
  induction l as [|x l IH]; intros H.
  - split; [constructor|reflexivity].
  - apply bytes_ok_cons in H as [Hx Hl]. destruct (IH Hl) as [IH1 IH2]. cbn [map].
    rewrite inv_byte_val by lia. split.
    + apply bytes_ok_cons. split; [lia|auto].
    + rewrite !val_cons, IH2, zlen_map, zlen_cons. pose proof (zlen_nonneg l).
      rewrite Z.pow_add_r by lia. ring.
Qed.

Lemma lnot_right_mask b pl : 0 <= pl < 8 -> 0 <= b < 256 ->
  Z.land (Z.lnot b) (Z.land (Z.shiftl 255 pl) 255) = (255 - b) - (255 - b) mod 2 ^ pl.
Proof.
  intros H Hb. apply Z.eqb_eq.
  apply (sweep_byte_shift (fun b pl => Z.land (Z.lnot b) (Z.land (Z.shiftl 255 pl) 255) =? (255 - b) - (255 - b) mod 2 ^ pl));
    [vm_compute; reflexivity|lia|lia].
Qed.

Lemma py_index_last' {A} (l : list A) (x : A) : py_index (l ++ [x]) (zlen (l ++ [x]) - 1) = Ok x.
Proof.
  unfold py_index. rewrite zlen_app. change (zlen [x]) with 1. pose proof (zlen_nonneg l).
  destruct (Z.ltb_spec (zlen l + 1 - 1) 0); [lia|].
  destruct (Z.ltb_spec (zlen l + 1 - 1) 0); [lia|]. destruct (Z.leb_spec (zlen l + 1) (zlen l + 1 - 1)); [lia|].
  cbn [orb]. replace (Z.to_nat (zlen l + 1 - 1)) with (length l) by (unfold zlen; lia).
  rewrite nth_error_app2 by lia. now rewrite Nat.sub_diag.
Qed.

Lemma firstn_app_exact {A} (l r : list A) : firstn (length l) (l ++ r) = l.
Proof. induction l; cbn; [destruct r; reflexivity|]. f_equal. auto. Qed.

Lemma b_invert_spec b : canon b ->
  exists x, b_invert b = Ok x /\ canon x /\ bside x = bside b /\ blen x = blen b /\ num x = 2 ^ blen b - 1 - num b.
Proof.
  intros C. destruct (canon_pow b C) as (Hpl & Hk & Hpow & Hv & HpL & Hppl).
  pose proof (canon_num_range b C) as Hnr.
  unfold b_invert. destruct (Z.eqb_spec (blen b) 0) as [E0|E0].
  - rewrite b_copy_canon by auto. exists b. split; [reflexivity|]. split; [exact C|].
    split; [reflexivity|]. split; [reflexivity|].
    rewrite E0 in Hnr |- *. change (2 ^ 0) with 1 in *. lia.
  - destruct C as (HL & Pb & Lb & Ob & Vb). pose proof (zlen_nonneg (content b)) as Hz.
    assert (1 <= zlen (content b)) as Hk1 by lia.
    unfold num in *. destruct (bside b) eqn:Sb.
    + (* LEFT *)
      destruct (content b) as [|b0 t] eqn:Ec; [change (zlen (@nil Z)) with 0 in Hk1; lia|].
      rewrite py_index_0. cbn [bind].
      pose proof (Z.mod_pos_bound (8 - bpl b) 8 ltac:(lia)) as Hs.
      rewrite low_mask by lia.
      assert (0 < 2 ^ ((8 - bpl b) mod 8)) as Hp by (apply Z.pow_pos_nonneg; lia).
      assert (2 ^ ((8 - bpl b) mod 8) <= 2 ^ 7) as Hp7 by (apply Z.pow_le_mono_r; lia).
      change (2 ^ 7) with 128 in Hp7.
      pose proof (Z.mod_pos_bound (Z.lnot b0) (2 ^ ((8 - bpl b) mod 8)) ltac:(lia)) as Hf.
      rewrite to_byte_ok by lia. cbn [bind].
      set (f := Z.lnot b0 mod 2 ^ ((8 - bpl b) mod 8)) in *. clearbody f.
      destruct (map_inv_val (b0 :: t) Ob) as [Om Vm].
      assert (bytes_ok (f :: map inv_byte (b0 :: t))) as Oc by (apply bytes_ok_cons; split; [lia|auto]).
      destruct (b_new_left _ (blen b) Oc HL) as (r & Er & Cr & Sr & Lr & Nr).
      exists r. split; [exact Er|]. split; [exact Cr|]. split; [exact Sr|]. split; [exact Lr|].
      unfold num in Nr. rewrite Sr in Nr. unfold num. rewrite Sr. rewrite Nr.
      rewrite val_cons, zlen_map, Vm.
      set (X := val (b0 :: t)) in *. set (P := 256 ^ zlen (b0 :: t)) in *.
      replace (f * P + (P - 1 - X)) with ((2 ^ blen b - 1 - X) + (f * 2 ^ bpl b + 2 ^ bpl b - 1) * 2 ^ blen b)
        by (rewrite <- Hpow; ring).
      rewrite Z.mod_add by lia. apply Z.mod_small. lia.
    + (* RIGHT *)
      assert (content b <> []) as Hne by (intros E; rewrite E in Hk1; change (zlen (@nil Z)) with 0 in Hk1; lia).
      destruct (exists_last Hne) as [c' [bl Ec]]. rewrite Ec in *.
      rewrite py_index_last'. cbn [bind].
      apply bytes_ok_app in Ob as [Oc' Obl]. apply bytes_ok_cons in Obl as [Hbl _].
      rewrite lnot_right_mask by lia.
      rewrite zlen_app in *. change (zlen [bl]) with 1 in *. pose proof (zlen_nonneg c') as Hzc.
      assert (2 ^ (8 - bpl b) * 2 ^ bpl b = 256) as H256
        by (rewrite <- Z.pow_add_r by lia; replace (8 - bpl b + bpl b) with 8 by lia; reflexivity).
      assert (0 < 2 ^ (8 - bpl b)) as Hp8 by (apply Z.pow_pos_nonneg; lia).
      rewrite val_app, val_single in *. change (zlen [bl]) with 1 in *. rewrite Z.pow_1_r in *.
      assert (bl mod 2 ^ bpl b = 0) as Hblm.
      { rewrite <- Vb. replace (val c' * 256 + bl) with (bl + (val c' * 2 ^ (8 - bpl b)) * 2 ^ bpl b) by (rewrite <- H256; ring).
        rewrite Z.mod_add by lia. reflexivity. }
      assert ((255 - bl) mod 2 ^ bpl b = 2 ^ bpl b - 1) as Hm.
      { pose proof (Z.div_mod bl (2 ^ bpl b) ltac:(lia)) as Hd. rewrite Hblm in Hd.
        set (q := bl / 2 ^ bpl b) in *.
        replace (255 - bl) with ((2 ^ bpl b - 1) + (2 ^ (8 - bpl b) - 1 - q) * 2 ^ bpl b) by lia.
        rewrite Z.mod_add by lia. apply Z.mod_small. lia. }
      rewrite Hm.
      assert (0 <= 255 - bl - (2 ^ bpl b - 1) < 256) as Hl.
      { pose proof (Z.mod_le (255 - bl) (2 ^ bpl b) ltac:(lia) ltac:(lia)). rewrite Hm in *. lia. }
      rewrite to_byte_ok by lia. cbn [bind].
      rewrite py_slice_to_none by (rewrite zlen_app; change (zlen [bl]) with 1; lia).
      replace (Z.to_nat (zlen c' + 1 - 1)) with (length c') by (unfold zlen; lia).
      rewrite firstn_app_exact.
      destruct (map_inv_val c' Oc') as [Om Vm].
      set (l := 255 - bl - (2 ^ bpl b - 1)) in *.
      assert (bytes_ok (map inv_byte c' ++ [l])) as Oc
        by (apply bytes_ok_app; split; [auto|apply bytes_ok_cons; split; [lia|constructor]]).
      destruct (b_new_right _ (blen b) Oc HL) as (r & Er & Cr & Sr & Lr & Nr).
      exists r. split; [exact Er|]. split; [exact Cr|]. split; [exact Sr|]. split; [exact Lr|].
      fold (num r). rewrite Nr.
      rewrite zlen_app, zlen_map. change (zlen [l]) with 1. rewrite <- Lb.
      replace (Z.max 0 (zlen c' + 1 - (zlen c' + 1))) with 0 by lia. rewrite Z.pow_0_r, Z.mul_1_r.
      replace (8 * Z.max (zlen c' + 1) (zlen c' + 1) - blen b) with (bpl b) by lia.
      rewrite val_app, val_single, Vm. change (zlen [l]) with 1. rewrite Z.pow_1_r.
      rewrite Z.pow_add_r, Z.pow_1_r in Hpow by lia.
      set (X := val c' * 256 + bl) in *.
      pose proof (Z.div_mod X (2 ^ bpl b) ltac:(lia)) as HX. rewrite Vb in HX.
      set (N := X / 2 ^ bpl b) in *.
      replace ((256 ^ zlen c' - 1 - val c') * 256 + l) with ((2 ^ blen b - 1 - N) * 2 ^ bpl b).
      * apply Z.div_mul. lia.
      * unfold l. clearbody N. unfold X in HX. clear - HX Hpow. lia.
Qed.

(* ---- bitwise operators ---------------------------------------------------------------------- *)
Lemma b_bitwise_len f a b : blen a <> blen b -> b_bitwise f a b = Exc ValueError.
Proof. intros H. unfold b_bitwise. destruct (Z.eqb_spec (blen a) (blen b)); [contradiction|reflexivity]. Qed.

(* f is a bit-by-bit operator with truth table g, g 0 0 = 0 *)
Definition bitop (f : Z -> Z -> Z) (g : bool -> bool -> bool) : Prop :=
  g false false = false /\
  (forall x y n, Z.testbit (f x y) n = g (Z.testbit x n) (Z.testbit y n)) /\
  (forall x y, 0 <= x -> 0 <= y -> 0 <= f x y).

Lemma bitop_land : bitop Z.land andb.
Proof. split; [reflexivity|]. split; [intros; apply Z.land_spec|]. intros. apply Z.land_nonneg. auto. Qed.
Lemma bitop_lor : bitop Z.lor orb.
Proof. split; [reflexivity|]. split; [intros; apply Z.lor_spec|]. intros. apply Z.lor_nonneg. auto. Qed.
Lemma bitop_lxor : bitop Z.lxor xorb.
Proof. split; [reflexivity|]. split; [intros; apply Z.lxor_spec|]. intros. apply Z.lxor_nonneg. tauto. Qed.

Lemma testbit_concat x u k n : 0 <= k -> 0 <= u < 2 ^ k -> 0 <= n ->
  Z.testbit (x * 2 ^ k + u) n = if n <? k then Z.testbit u n else Z.testbit x (n - k).
Proof.
  intros Hk Hu Hn. assert (0 < 2 ^ k) by (apply Z.pow_pos_nonneg; lia).
  destruct (Z.ltb_spec n k).
  - rewrite <- (Z.mod_pow2_bits_low (x * 2 ^ k + u) k n) by lia. f_equal.
    rewrite Z.add_comm, Z.mod_add by lia. apply Z.mod_small. lia.
  - replace n with ((n - k) + k) at 1 by lia. rewrite <- Z.div_pow2_bits by lia. f_equal.
    rewrite Z.div_add_l by lia. rewrite Z.div_small by lia. lia.
Qed.

Lemma testbit_high u k n : 0 <= k -> 0 <= u < 2 ^ k -> k <= n -> Z.testbit u n = false.
Proof. intros Hk Hu Hn. rewrite <- (Z.mod_small u (2 ^ k)) by lia. apply Z.mod_pow2_bits_high. lia. Qed.

Lemma bitop_shiftr f g x y n : bitop f g -> 0 <= n -> Z.shiftr (f x y) n = f (Z.shiftr x n) (Z.shiftr y n).
Proof.
  intros (_ & Hf & _) Hn. apply Z.bits_inj'. intros m Hm.
  rewrite Z.shiftr_spec by lia. rewrite !Hf. rewrite !Z.shiftr_spec by lia. reflexivity.
Qed.

Lemma bitop_00 f g : bitop f g -> f 0 0 = 0.
Proof. intros (H0 & Hf & _). apply Z.bits_inj'. intros m Hm. rewrite Hf, Z.bits_0. exact H0. Qed.

Lemma bitop_small f g u v k : bitop f g -> 0 <= k -> 0 <= u < 2 ^ k -> 0 <= v < 2 ^ k -> 0 <= f u v < 2 ^ k.
Proof.
  intros B Hk Hu Hv. pose proof B as (H0 & Hf & Hnn).
  assert (0 <= f u v) as Hn by (apply Hnn; lia). split; [exact Hn|].
  assert (0 < 2 ^ k) by (apply Z.pow_pos_nonneg; lia).
  assert (f u v / 2 ^ k = 0) as Hd.
  { rewrite <- Z.shiftr_div_pow2 by lia. rewrite (bitop_shiftr f g) by auto.
    rewrite !Z.shiftr_div_pow2 by lia. rewrite !Z.div_small by lia. apply (bitop_00 f g B). }
  pose proof (Z.div_mod (f u v) (2 ^ k) ltac:(lia)) as E. rewrite Hd in E.
  pose proof (Z.mod_pos_bound (f u v) (2 ^ k) ltac:(lia)). lia.
Qed.

Lemma bitop_concat f g x y u v k : bitop f g -> 0 <= k -> 0 <= u < 2 ^ k -> 0 <= v < 2 ^ k ->
  f (x * 2 ^ k + u) (y * 2 ^ k + v) = f x y * 2 ^ k + f u v.
Proof.
  intros B Hk Hu Hv. pose proof (bitop_small f g u v k B Hk Hu Hv) as Hs.
  destruct B as (H0 & Hf & Hnn). apply Z.bits_inj'. intros n Hn.
  rewrite Hf. rewrite !testbit_concat by lia. destruct (n <? k); rewrite Hf; reflexivity.
Qed.

Lemma zip_with_val f g a : bitop f g -> forall b, bytes_ok a -> bytes_ok b -> length a = length b ->
  bytes_ok (zip_with f a b) /\ length (zip_with f a b) = length a /\ val (zip_with f a b) = f (val a) (val b).
Proof.
  intros B. induction a as [|x a IH]; intros [|y b] Ha Hb Hl; try discriminate; cbn [zip_with].
  - split; [constructor|]. split; [reflexivity|]. cbn [val]. symmetry. apply (bitop_00 f g B).
  - apply bytes_ok_cons in Ha as [Hx Ha]. apply bytes_ok_cons in Hb as [Hy Hb]. injection Hl as Hl.
    destruct (IH b Ha Hb Hl) as (I1 & I2 & I3).
    split; [|split].
    + apply bytes_ok_cons. split; [|exact I1]. change 256 with (2 ^ 8).
      apply (bitop_small f g); auto; lia.
    + cbn [length]. f_equal. exact I2.
    + rewrite !val_cons. unfold zlen. rewrite I2, I3, <- Hl.
      pose proof (val_bound a Ha) as Ba. pose proof (val_bound b Hb) as Bb. unfold zlen in Ba, Bb.
      rewrite <- Hl in Bb. rewrite pow2_8 in * by lia.
      symmetry. apply (bitop_concat f g); auto. lia.
Qed.

Lemma side_eqb_true a b : side_eqb a b = true -> a = b.
Proof. destruct a, b; cbn; congruence. Qed.

Lemma b_bitwise_spec f g : bitop f g -> pad_ok -> forall a b, canon a -> canon b -> blen a = blen b ->
  exists x, b_bitwise f a b = Ok x /\ canon x /\ bside x = bside a /\ blen x = blen a /\ num x = f (num a) (num b).
Proof.
  intros B PO a b Ca Cb El. unfold b_bitwise. rewrite El, Z.eqb_refl. cbn [negb]. rewrite <- El.
  assert (exists b', (if negb (side_eqb (bside b) (bside a)) then b_pad b (bside a) false else Ok b) = Ok b' /\
            canon b' /\ bside b' = bside a /\ blen b' = blen b /\ num b' = num b) as (b' & Eb' & Cb' & Sb' & Lb' & Nb').
  { destruct (side_eqb (bside b) (bside a)) eqn:Es; cbn [negb].
    - exists b. apply side_eqb_true in Es. auto.
    - apply PO. exact Cb. }
  rewrite Eb'. cbn [bind]. rewrite <- Nb'. clear Eb' Nb' Cb.
  destruct (canon_pow a Ca) as (Hpl & Hk & Hpow & Hv & HpL & Hppl).
  destruct (canon_pow b' Cb') as (Hpl' & Hk' & Hpow' & Hv' & _ & _).
  pose proof (canon_bpl a b' Ca Cb' ltac:(congruence)) as Epl.
  destruct Ca as (HL & Pa & La & Oa & Va). destruct Cb' as (_ & Pb & Lb & Ob & Vb).
  assert (length (content a) = length (content b')) as Hlen by (unfold zlen in *; lia).
  destruct (zip_with_val f g (content a) B (content b') Oa Ob Hlen) as (Oc & Lc & Vc).
  rewrite check_bytes_ok by auto. cbn [bind].
  set (c := zip_with f (content a) (content b')) in *.
  unfold num at 2 3. rewrite Sb'. destruct (bside a) eqn:Sa.
  - destruct (b_new_left c (blen a) Oc HL) as (r & Er & Cr & Sr & Lr & Nr).
    exists r. split; [exact Er|]. split; [exact Cr|]. split; [exact Sr|]. split; [exact Lr|].
    rewrite Nr, Vc. apply Z.mod_small. rewrite Sb', Lb', <- El in Vb. pose proof (val_bound _ Ob).
    apply (bitop_small f g); auto; lia.
  - destruct (b_new_right c (blen a) Oc HL) as (r & Er & Cr & Sr & Lr & Nr).
    exists r. split; [exact Er|]. split; [exact Cr|]. split; [exact Sr|]. split; [exact Lr|].
    rewrite Nr. assert (zlen c = zlen (content a)) as -> by (unfold zlen; rewrite Lc; reflexivity).
    rewrite <- La.
    replace (Z.max 0 (zlen (content a) - zlen (content a))) with 0 by lia. rewrite Z.pow_0_r, Z.mul_1_r.
    replace (8 * Z.max (zlen (content a)) (zlen (content a)) - blen a) with (bpl a) by lia.
    rewrite Vc, <- Epl. rewrite <- !Z.shiftr_div_pow2 by lia. apply (bitop_shiftr f g); auto. lia.
Qed.

Lemma b_and_spec : pad_ok -> forall a b, canon a -> canon b -> blen a = blen b ->
  exists x, b_and a b = Ok x /\ canon x /\ bside x = bside a /\ blen x = blen a /\ num x = Z.land (num a) (num b).
Proof. intros. apply (b_bitwise_spec Z.land andb bitop_land); auto. Qed.

Lemma b_or_spec : pad_ok -> forall a b, canon a -> canon b -> blen a = blen b ->
  exists x, b_or a b = Ok x /\ canon x /\ bside x = bside a /\ blen x = blen a /\ num x = Z.lor (num a) (num b).
Proof. intros. apply (b_bitwise_spec Z.lor orb bitop_lor); auto. Qed.

Lemma b_xor_spec : pad_ok -> forall a b, canon a -> canon b -> blen a = blen b ->
  exists x, b_xor a b = Ok x /\ canon x /\ bside x = bside a /\ blen x = blen a /\ num x = Z.lxor (num a) (num b).
Proof. intros. apply (b_bitwise_spec Z.lxor xorb bitop_lxor); auto. Qed.
