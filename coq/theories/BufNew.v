(* BufNew.v -- refinement of Buffer.__init__ (b_new): for any byte string and any length >= 0 the
   result is canonical and denotes the last (LEFT) / first (RIGHT) `length` bits of the
   zero-extended content. *)
From Coq Require Import ZArith Znumtheory List Bool Lia.
From MS Require Import PyBase Buffer Bits ByteFacts BufferAbs.
Import ListNotations.
Open Scope Z_scope.

Lemma b_new_left c L : bytes_ok c -> 0 <= L ->
  exists r, b_new c L LEFT = Ok r /\ canon r /\ bside r = LEFT /\ blen r = L /\ num r = val c mod 2 ^ L.
Proof.
  intros Hc HL. unfold b_new.
  destruct (calc_pl_spec L) as [k [Hk Hk']]. pose proof (calc_pl_range L) as Hpl.
  rewrite byte_length_spec. rewrite <- Hk'. set (pl := calc_pl L) in *.
  assert (0 <= k) as Hk0 by lia.
  set (c1 := if zlen c <? k then zeros (k - zlen c) ++ c else c).
  assert (bytes_ok c1 /\ val c1 = val c /\ k <= zlen c1) as (Hc1 & Vc1 & Lc1).
  { unfold c1. destruct (Z.ltb_spec (zlen c) k).
    - split; [apply bytes_ok_app; split; [apply bytes_ok_zeros|auto]|].
      split; [rewrite val_app, val_zeros; lia|]. rewrite zlen_app, zlen_zeros. lia.
    - auto. }
  rewrite py_slice_from by lia.
  set (c2 := skipn (Z.to_nat (zlen c1 - k)) c1).
  assert (bytes_ok c2) as Hc2 by (apply bytes_ok_skipn; auto).
  assert (zlen c2 = k) as Lc2 by (unfold c2, zlen in *; rewrite skipn_length; lia).
  assert (val c2 = val c mod 256 ^ k) as Vc2.
  { unfold c2. replace (Z.to_nat (zlen c1 - k)) with (length c1 - Z.to_nat k)%nat by (unfold zlen in *; lia).
    rewrite val_skipn_mod by (auto; unfold zlen in *; lia). rewrite Vc1. f_equal. f_equal. lia. }
  assert (2 ^ L * 2 ^ pl = 256 ^ k) as Hpow.
  { rewrite <- Z.pow_add_r by lia. rewrite pow2_8 by lia. f_equal. lia. }
  assert (0 < 2 ^ L) as HpL by (apply Z.pow_pos_nonneg; lia).
  assert (0 < 2 ^ pl) as Hppl by (apply Z.pow_pos_nonneg; lia).
  destruct (Z.ltb_spec 0 pl) as [Hpos|Hzero].
  - (* padding bits to clear in the first byte *)
    assert (1 <= k) as Hk1 by lia.
    destruct c2 as [|b0 t] eqn:Ec2; [unfold zlen in Lc2; cbn in Lc2; lia|].
    rewrite py_index_0. cbn [bind]. apply bytes_ok_cons in Hc2 as [Hb0 Ht].
    rewrite land_left_mask by lia.
    assert (0 < 2 ^ (8 - pl)) by (apply Z.pow_pos_nonneg; lia).
    assert (2 ^ (8 - pl) <= 256) by (change 256 with (2 ^ 8); apply Z.pow_le_mono_r; lia).
    pose proof (Z.mod_pos_bound b0 (2 ^ (8 - pl)) ltac:(lia)) as Hm.
    rewrite to_byte_ok by lia. cbn [bind]. rewrite py_slice_tail.
    eexists. split; [reflexivity|].
    rewrite zlen_cons in Lc2. assert (zlen t = k - 1) as Lt by lia.
    assert (val ((b0 mod 2 ^ (8 - pl)) :: t) = val c mod 2 ^ L) as Vfinal.
    { rewrite val_cons, Lt. rewrite val_cons, Lt in Vc2.
      pose proof (val_bound t Ht) as Bt. rewrite Lt in Bt.
      assert (0 < 256 ^ (k - 1)) by (apply Z.pow_pos_nonneg; lia).
      rewrite <- (mod_high b0 (val t) (256 ^ (k - 1)) (2 ^ (8 - pl))) by lia.
      rewrite Vc2.
      assert (2 ^ (8 - pl) * 256 ^ (k - 1) = 2 ^ L) as ->.
      { rewrite pow2_8 by lia. rewrite <- Z.pow_add_r by lia. f_equal. lia. }
      rewrite pow2_8 by lia. apply mod_mod_pow2. lia. }
    unfold canon, num. cbn [content blen bside bpl].
    repeat split; auto; try lia.
    + rewrite zlen_cons. lia.
    + apply bytes_ok_cons. split; [lia|auto].
    + rewrite Vfinal. apply Z.mod_pos_bound. lia.
  - assert (pl = 0) as Epl by lia. cbn [bind].
    eexists. split; [reflexivity|].
    assert (L = 8 * k) as EL by lia.
    assert (val c2 = val c mod 2 ^ L) as Vfinal by (rewrite Vc2, pow2_8 by lia; f_equal; f_equal; lia).
    unfold canon, num. cbn [content blen bside bpl].
    repeat split; auto; try lia.
    rewrite Vfinal. apply Z.mod_pos_bound. lia.
Qed.

Lemma b_new_right c L : bytes_ok c -> 0 <= L ->
  let k := (L + 7) / 8 in
  exists r, b_new c L RIGHT = Ok r /\ canon r /\ bside r = RIGHT /\ blen r = L /\
            num r = (val c * 256 ^ Z.max 0 (k - zlen c)) / 2 ^ (8 * Z.max (zlen c) k - L).
Proof.
  intros Hc HL k. unfold b_new.
  destruct (calc_pl_spec L) as [k' [Hk Hk']]. pose proof (calc_pl_range L) as Hpl.
  rewrite byte_length_spec. fold k. assert (k' = k) as Ekk by (subst; reflexivity). rewrite Ekk in *. clear Ekk Hk'. clear k'.
  set (pl := calc_pl L) in *.
  assert (0 <= k) as Hk0 by lia. pose proof (zlen_nonneg c) as Hzc.
  set (c1 := if zlen c <? k then c ++ zeros (k - zlen c) else c).
  assert (bytes_ok c1 /\ val c1 = val c * 256 ^ Z.max 0 (k - zlen c) /\ zlen c1 = Z.max (zlen c) k) as (Hc1 & Vc1 & Lc1).
  { unfold c1. destruct (Z.ltb_spec (zlen c) k).
    - split; [apply bytes_ok_app; split; [auto|apply bytes_ok_zeros]|].
      split; [rewrite val_app, val_zeros, zlen_zeros; lia|]. rewrite zlen_app, zlen_zeros. lia.
    - split; auto. split; [|lia]. replace (Z.max 0 (k - zlen c)) with 0 by lia. rewrite Z.pow_0_r. lia. }
  set (n' := Z.max (zlen c) k) in *.
  rewrite py_slice_to by lia.
  set (c2 := firstn (Z.to_nat k) c1).
  assert (bytes_ok c2) as Hc2 by (apply bytes_ok_firstn; auto).
  assert (zlen c2 = k) as Lc2 by (unfold c2, zlen in *; rewrite firstn_length; lia).
  assert (val c2 = val c1 / 256 ^ (n' - k)) as Vc2.
  { unfold c2. rewrite val_firstn_div by (auto; unfold zlen in *; lia). f_equal. f_equal. unfold zlen in *. lia. }
  assert (0 < 2 ^ pl) as Hppl by (apply Z.pow_pos_nonneg; lia).
  assert (val c2 / 2 ^ pl = val c1 / 2 ^ (8 * n' - L)) as Vdiv.
  { rewrite Vc2. rewrite Z.div_div by (try apply Z.pow_pos_nonneg; lia).
    rewrite pow2_8 by lia. rewrite <- Z.pow_add_r by lia. f_equal. f_equal. lia. }
  destruct (Z.ltb_spec 0 pl) as [Hpos|Hzero].
  - assert (1 <= k) as Hk1 by lia.
    assert (c2 <> []) as Hne by (intros E; rewrite E in Lc2; unfold zlen in Lc2; cbn in Lc2; lia).
    destruct (exists_last Hne) as [c2' [bl Ec2]]. rewrite Ec2.
    rewrite py_index_last. cbn [bind]. rewrite Ec2 in Hc2. apply bytes_ok_app in Hc2 as [Hc2' Hbl].
    apply bytes_ok_cons in Hbl as [Hbl _].
    rewrite land_right_mask by lia.
    assert (2 ^ pl <= 128) by (change 128 with (2 ^ 7); apply Z.pow_le_mono_r; lia).
    pose proof (Z.mod_pos_bound bl (2 ^ pl) ltac:(lia)) as Hm.
    pose proof (Z.mod_le bl (2 ^ pl) ltac:(lia) ltac:(lia)) as Hle.
    rewrite to_byte_ok by lia. cbn [bind].
    rewrite py_slice_drop_last by (destruct c2'; discriminate). rewrite removelast_last.
    eexists. split; [reflexivity|].
    assert (val (c2' ++ [bl - bl mod 2 ^ pl]) = val c2 - val c2 mod 2 ^ pl) as Vfinal.
    { rewrite Ec2, !val_app, !val_single. change (zlen [bl]) with 1. change (zlen [bl - bl mod 2 ^ pl]) with 1.
      rewrite Z.pow_1_r.
      assert (2 ^ (8 - pl) * 2 ^ pl = 256) as H256 by (rewrite <- Z.pow_add_r by lia; replace (8 - pl + pl) with 8 by lia; reflexivity).
      replace (val c2' * 256 + bl) with (bl + (val c2' * 2 ^ (8 - pl)) * 2 ^ pl) by (rewrite <- H256; ring).
      rewrite Z.mod_add by lia. rewrite <- H256. ring. }
    assert (zlen (c2' ++ [bl - bl mod 2 ^ pl]) = k) as Lfinal.
    { rewrite Ec2 in Lc2. rewrite zlen_app in *. exact Lc2. }
    unfold canon, num. cbn [content blen bside bpl]. fold pl.
    repeat split; auto; try lia.
    + apply bytes_ok_app. split; auto. apply bytes_ok_cons. split; [lia|constructor].
    + rewrite Vfinal. rewrite Zminus_mod, Z.mod_mod, Z.sub_diag by lia. reflexivity.
    + rewrite Vfinal, <- Vc1, <- Vdiv.
      rewrite (Z.div_mod (val c2) (2 ^ pl)) at 1 by lia.
      replace (2 ^ pl * (val c2 / 2 ^ pl) + val c2 mod 2 ^ pl - val c2 mod 2 ^ pl) with ((val c2 / 2 ^ pl) * 2 ^ pl) by ring.
      apply Z.div_mul. lia.
  - assert (pl = 0) as Epl by lia. cbn [bind].
    eexists. split; [reflexivity|].
    unfold canon, num. cbn [content blen bside bpl]. fold pl.
    repeat split; auto; try lia.
    + rewrite Epl. apply Z.mod_1_r.
    + rewrite <- Vc1, <- Vdiv. reflexivity.
Qed.

(* on a canonical buffer the constructor is the identity: copy() returns an equal object *)
Lemma b_new_canon b : canon b -> b_new (content b) (blen b) (bside b) = Ok b.
Proof.
  intros (HL & Hpl & Hlen & Hok & Hside). destruct b as [c L sd pl]. cbn [content blen bside bpl] in *.
  destruct (calc_pl_spec L) as [k [Hk Hk']]. pose proof (calc_pl_range L) as Hr.
  assert (0 < 2 ^ L) by (apply Z.pow_pos_nonneg; lia).
  destruct sd.
  - destruct (b_new_left c L Hok HL) as (r & Er & Cr & Sr & Lr & Nr). rewrite Er. f_equal.
    destruct Cr as (_ & Cpl & Clen & Cok & _). destruct r as [c' L' sd' pl']. cbn [content blen bside bpl num] in *.
    subst. f_equal. symmetry. apply val_inj; auto.
    + unfold zlen in *. lia.
    + unfold num in Nr. cbn in Nr. rewrite Nr. symmetry. apply Z.mod_small. split; [apply val_bound; auto|lia].
  - destruct (b_new_right c L Hok HL) as (r & Er & Cr & Sr & Lr & Nr). rewrite Er. f_equal.
    destruct Cr as (_ & Cpl & Clen & Cok & Cside). destruct r as [c' L' sd' pl']. cbn [content blen bside bpl num] in *.
    subst. f_equal. symmetry. apply val_inj; auto.
    + unfold zlen in *. lia.
    + unfold num in Nr. cbn [bside content bpl] in Nr.
      replace (Z.max 0 ((L + 7) / 8 - zlen c)) with 0 in Nr by lia. rewrite Z.pow_0_r, Z.mul_1_r in Nr.
      replace (8 * Z.max (zlen c) ((L + 7) / 8) - L) with (calc_pl L) in Nr by lia.
      assert (0 < 2 ^ calc_pl L) by (apply Z.pow_pos_nonneg; lia).
      rewrite (Z.div_mod (val c') (2 ^ calc_pl L)), (Z.div_mod (val c) (2 ^ calc_pl L)) by lia.
      rewrite Nr, Cside, Hside. reflexivity.
Qed.

Lemma b_copy_canon b : canon b -> b_copy b = Ok b.
Proof. apply b_new_canon. Qed.
