(* BufShiftPad.v -- refinement of Buffer._shift_left / _shift_right / shift / pad
   (b_shift_left, b_shift_right, b_shift, b_pad of Buffer.v). *)
From Coq Require Import ZArith Znumtheory List Bool Lia.
From MS Require Import PyBase Buffer Bits ByteFacts BufferAbs BufNew.
Import ListNotations.
Open Scope Z_scope.

(* canonical form except that the cached padding_length may be stale: b_shift* never read bpl *)
Definition canon' (b : buf) : Prop :=
  0 <= blen b /\ zlen (content b) = (blen b + 7) / 8 /\ bytes_ok (content b) /\
  match bside b with
  | LEFT => val (content b) < 2 ^ blen b
  | RIGHT => val (content b) mod 2 ^ calc_pl (blen b) = 0
  end.
Definition num' (b : buf) : Z :=   (* num computed from the length, not from the cached bpl *)
  match bside b with LEFT => val (content b) | RIGHT => val (content b) / 2 ^ calc_pl (blen b) end.

Lemma canon_canon' b : canon b -> canon' b.
Proof.
  intros (H0 & Hpl & Hl & Hok & Hs). unfold canon'. rewrite <- Hpl. auto.
Qed.

Lemma num'_num b : canon b -> num' b = num b.
Proof. intros (H0 & Hpl & _). unfold num', num. rewrite <- Hpl. reflexivity. Qed.

(* ---- small helpers -------------------------------------------------------------------------- *)
Lemma land_mul_pow2_small a c s : 0 <= s -> 0 <= c < 2 ^ s -> Z.land (a * 2 ^ s) c = 0.
Proof.
  intros Hs Hc. apply Z.bits_inj'. intros n Hn. rewrite Z.land_spec, Z.bits_0.
  destruct (Z_lt_le_dec n s).
  - rewrite Z.mul_pow2_bits_low by lia. reflexivity.
  - rewrite <- (Z.mod_small c (2 ^ s)) by lia. rewrite Z.mod_pow2_bits_high by lia. apply andb_false_r.
Qed.

Lemma lor_add a c s : 0 <= s -> 0 <= c < 2 ^ s -> Z.lor (a * 2 ^ s) c = a * 2 ^ s + c.
Proof.
  intros Hs Hc. pose proof (land_mul_pow2_small a c s Hs Hc) as H.
  rewrite <- Z.lxor_lor by exact H. symmetry. apply Z.add_nocarry_lxor. exact H.
Qed.

Lemma pow2_split s : 0 <= s < 8 -> 256 = 2 ^ (8 - s) * 2 ^ s /\ 0 < 2 ^ s /\ 0 < 2 ^ (8 - s).
Proof.
  intros H. split.
  - rewrite <- Z.pow_add_r by lia. replace (8 - s + s) with 8 by lia. reflexivity.
  - split; apply Z.pow_pos_nonneg; lia.
Qed.

Lemma zlen_rev {A} (l : list A) : zlen (rev l) = zlen l.
Proof. unfold zlen. now rewrite rev_length. Qed.

Lemma bytes_ok_rev l : bytes_ok l -> bytes_ok (rev l).
Proof. apply Forall_rev. Qed.

Lemma py_slice_neg_from {A} (l : list A) k : 0 < k <= zlen l ->
  py_slice l (Some (- k)) None = skipn (Z.to_nat (zlen l - k)) l.
Proof.
  intros H. unfold py_slice, slice_indices, clamp_index.
  destruct (Z.ltb_spec (- k) 0); [|lia]. destruct (Z.ltb_spec (- k + zlen l) 0); [lia|].
  replace (- k + zlen l) with (zlen l - k) by lia.
  apply firstn_all2. rewrite skipn_length. unfold zlen in *. lia.
Qed.

(* ---- the two carry loops -------------------------------------------------------------------- *)
(* _shift_left, LEFT: the bytes are consumed last-to-first; the produced bytes followed by the final
   carry spell  val(bytes) * 2^s + initial carry *)
Lemma shl_stream_or_val s : 0 <= s < 8 -> forall rbs c acc out cf,
  bytes_ok rbs -> 0 <= c < 2 ^ s -> shl_stream_or s c rbs acc = (out, cf) ->
  exists pre, out = pre ++ acc /\ zlen pre = zlen rbs /\ bytes_ok pre /\ 0 <= cf < 2 ^ s /\
              cf * 256 ^ zlen rbs + val pre = val (rev rbs) * 2 ^ s + c.
Proof.
  intros Hs. destruct (pow2_split s Hs) as (H256 & Hq & Hp).
  induction rbs as [|b r IH]; intros c acc out cf Hok Hc H.
  - cbn [shl_stream_or] in H. injection H as <- <-. exists []. cbn [app rev val].
    rewrite zlen_nil, Z.pow_0_r. repeat split; try lia. constructor.
  - cbn [shl_stream_or] in H. apply bytes_ok_cons in Hok as [Hb Hr].
    rewrite land_255, (byte_shiftl b s), (byte_shiftr b (8 - s)), low_mask in H by lia.
    set (q := 2 ^ s) in *. set (p := 2 ^ (8 - s)) in *.
    assert ((b * q) mod 256 = (b mod p) * q) as E1 by (rewrite H256; apply Z.mul_mod_distr_r; lia).
    assert (b / p < q) as Hd by (apply Z.div_lt_upper_bound; lia).
    assert (0 <= b / p) as Hd0 by (apply Z.div_pos; lia).
    rewrite E1 in H. rewrite (Z.mod_small (b / p) q) in H by lia.
    pose proof (Z.mod_pos_bound b p Hp) as Hm.
    unfold q in H at 1. rewrite lor_add in H by (fold q; lia). fold q in H.
    destruct (IH _ _ _ _ Hr (conj Hd0 Hd) H) as (pre & -> & Lpre & Okpre & Hcf & Heq).
    exists (pre ++ [b mod p * q + c]).
    split; [rewrite <- app_assoc; reflexivity|].
    split; [rewrite zlen_app, zlen_cons, zlen_cons, zlen_nil; lia|].
    assert (b mod p * q + c < 256) as Hnb.
    { rewrite H256. assert (b mod p * q <= (p - 1) * q) by (apply Z.mul_le_mono_nonneg_r; lia).
      replace (p * q) with ((p - 1) * q + q) by ring. lia. }
    assert (0 <= b mod p * q) by (apply Z.mul_nonneg_nonneg; lia).
    split; [apply bytes_ok_app; split; auto; apply bytes_ok_cons; split; [lia|constructor]|].
    split; [exact Hcf|].
    cbn [rev]. rewrite !val_app, !val_single, zlen_cons.
    change (zlen [b mod p * q + c]) with 1. change (zlen [b]) with 1. rewrite Z.pow_1_r.
    pose proof (zlen_nonneg r). rewrite Z.pow_add_r, Z.pow_1_r by lia.
    set (P := 256 ^ zlen r) in *. set (A := val pre) in *. set (B := val (rev r)) in *.
    pose proof (Z.div_mod b p ltac:(lia)) as Hdm.
    set (d := b / p) in *. set (m := b mod p) in *. clearbody d m A B P.
    assert (A = B * q + d - cf * P) as -> by lia. rewrite Hdm.
    rewrite H256. ring.
Qed.

(* _shift_right, LEFT: byte i of the output is the low s bits of byte i-1 followed by the high 8-s bits
   of byte i *)
Lemma shr_pairs_val s : 0 <= s < 8 -> forall bs prev, bytes_ok bs ->
  zlen (shr_pairs s prev bs) = zlen bs /\ bytes_ok (shr_pairs s prev bs) /\
  exists rem, 0 <= rem < 2 ^ s /\
    val (shr_pairs s prev bs) * 2 ^ s + rem = (prev mod 2 ^ s) * 256 ^ zlen bs + val bs.
Proof.
  intros Hs. destruct (pow2_split s Hs) as (H256 & Hq & Hp).
  induction bs as [|b r IH]; intros prev Hok.
  - cbn [shr_pairs val]. split; [reflexivity|]. split; [constructor|].
    exists (prev mod 2 ^ s). split; [apply Z.mod_pos_bound; lia|]. rewrite (@zlen_nil Z), Z.pow_0_r. lia.
  - cbn [shr_pairs]. apply bytes_ok_cons in Hok as [Hb Hr].
    destruct (IH b Hr) as (Lo & Oko & rem & Hrem & Heq).
    rewrite low_mask, (byte_shiftl _ (8 - s)), (byte_shiftr b s) by lia.
    set (q := 2 ^ s) in *. set (p := 2 ^ (8 - s)) in *.
    pose proof (Z.mod_pos_bound prev q Hq) as Hm.
    assert (b / q < p) as Hd by (apply Z.div_lt_upper_bound; lia).
    assert (0 <= b / q) as Hd0 by (apply Z.div_pos; lia).
    assert (prev mod q * p + b / q < 256) as Hnb.
    { rewrite H256. assert (prev mod q * p <= (q - 1) * p) by (apply Z.mul_le_mono_nonneg_r; lia).
      replace (p * q) with ((q - 1) * p + p) by ring. lia. }
    assert (0 <= prev mod q * p) by (apply Z.mul_nonneg_nonneg; lia).
    split; [rewrite !zlen_cons; lia|].
    split; [apply bytes_ok_cons; split; [lia|auto]|].
    exists rem. split; [exact Hrem|].
    rewrite !val_cons, Lo, zlen_cons.
    pose proof (zlen_nonneg r). rewrite Z.pow_add_r, Z.pow_1_r by lia.
    set (P := 256 ^ zlen r) in *. set (A := val (shr_pairs s b r)) in *. set (B := val r) in *.
    pose proof (Z.div_mod b q ltac:(lia)) as Hdm.
    set (d := b / q) in *. set (m := b mod q) in *. set (m' := prev mod q) in *. clearbody d m m' A B P.
    assert (rem = m * P + B - A * q) as -> by lia. rewrite Hdm.
    rewrite H256. ring.
Qed.

(* ---- _shift_left ---------------------------------------------------------------------------- *)
Lemma b_shift_left_spec b s : canon' b -> 0 < s ->
  exists r, b_shift_left b s = Ok r /\ canon r /\ bside r = bside b /\ blen r = blen b + s /\ num r = num' b * 2 ^ s.
Proof.
  intros (HL & Hlen & Hok & Hside) Hs. unfold b_shift_left, num'.
  destruct (calc_pl_spec (blen b)) as [n [Hn Hn']]. destruct (calc_pl_spec (blen b + s)) as [n' [Hn1 Hn1']].
  pose proof (calc_pl_range (blen b)) as Rpl. pose proof (calc_pl_range (blen b + s)) as Rpl'.
  rewrite <- Hn1'. rewrite <- Hn' in Hlen.
  destruct b as [c L sd pl0]; cbn [content blen bside bpl] in *.
  remember (calc_pl L) as pl eqn:Epl in *. remember (calc_pl (L + s)) as pl' eqn:Epl' in *.
  assert (0 < 2 ^ L) as HpL by (apply Z.pow_pos_nonneg; lia).
  assert (0 < 2 ^ s) as Hps by (apply Z.pow_pos_nonneg; lia).
  pose proof (val_bound c Hok) as Bc.
  destruct sd.
  - (* LEFT *)
    pose proof (Z.div_mod s 8 ltac:(lia)) as Hsd. pose proof (Z.mod_pos_bound s 8 ltac:(lia)) as Hsb.
    assert (0 <= s / 8) as Hk by (apply Z.div_pos; lia).
    set (k := s / 8) in *. set (sb := s mod 8) in *.
    assert (2 ^ s = 2 ^ sb * 256 ^ k) as Es.
    { rewrite pow2_8 by lia. rewrite <- Z.pow_add_r by lia. f_equal. lia. }
    assert (0 < 2 ^ sb) as Hpsb by (apply Z.pow_pos_nonneg; lia).
    assert (2 ^ sb <= 128) as Hsb128 by (change 128 with (2 ^ 7); apply Z.pow_le_mono_r; lia).
    assert (0 < 256 ^ k) as Hpk by (apply Z.pow_pos_nonneg; lia).
    destruct (shl_stream_or sb 0 (rev c) (zeros k)) as [temp carry] eqn:E.
    destruct (shl_stream_or_val sb Hsb (rev c) 0 (zeros k) temp carry (bytes_ok_rev c Hok) ltac:(lia) E)
      as (pre & -> & Lpre & Okpre & Hcf & Heq).
    rewrite rev_involutive, zlen_rev, Z.add_0_r in Heq. rewrite zlen_rev in Lpre.
    assert (bytes_ok (pre ++ zeros k)) as Oktemp by (apply bytes_ok_app; split; [auto|apply bytes_ok_zeros]).
    rewrite check_bytes_ok by exact Oktemp. cbn [bind].
    rewrite zlen_app, zlen_zeros, Lpre, Hlen. replace (Z.max 0 k) with k by lia.
    pose proof (val_bound pre Okpre) as Bpre. rewrite Lpre, Hlen in Bpre. rewrite Hlen in Heq, Bc.
    assert (0 < 256 ^ n) as Hpn by (apply Z.pow_pos_nonneg; lia).
    assert (val (pre ++ zeros k) = val pre * 256 ^ k) as Vtemp.
    { rewrite val_app, val_zeros, zlen_zeros. replace (Z.max 0 k) with k by lia. lia. }
    destruct (Z.ltb_spec (n + k) n') as [Hlt|Hge].
    + rewrite to_byte_ok by lia. cbn [bind]. eexists. split; [reflexivity|].
      unfold canon, num. cbn [content blen bside bpl].
      assert (val (carry :: pre ++ zeros k) = val c * 2 ^ s) as Vfinal.
      { rewrite val_cons, Vtemp, zlen_app, zlen_zeros, Lpre, Hlen. replace (Z.max 0 k) with k by lia.
        rewrite Z.pow_add_r by lia. rewrite Es.
        replace (val c * (2 ^ sb * 256 ^ k)) with ((val c * 2 ^ sb) * 256 ^ k) by ring. rewrite <- Heq. ring. }
      repeat split; auto; try lia.
      * rewrite zlen_cons, zlen_app, zlen_zeros, Lpre, Hlen. lia.
      * apply bytes_ok_cons. split; [lia|exact Oktemp].
      * rewrite Vfinal, Z.pow_add_r by lia. apply Z.mul_lt_mono_pos_r; lia.
    + assert (n' = n + k) as En' by lia.
      assert (carry = 0) as Ecarry.
      { assert (val c * 2 ^ sb < 256 ^ n) as Hb.
        { apply Z.lt_le_trans with (2 ^ L * 2 ^ sb); [apply Z.mul_lt_mono_pos_r; lia|].
          rewrite <- Z.pow_add_r by lia. rewrite pow2_8 by lia. apply Z.pow_le_mono_r; lia. }
        destruct (Z.eq_dec carry 0) as [|Hne]; auto.
        assert (1 * 256 ^ n <= carry * 256 ^ n) by (apply Z.mul_le_mono_nonneg_r; lia). lia. }
      subst carry. eexists. split; [reflexivity|].
      unfold canon, num. cbn [content blen bside bpl].
      assert (val (pre ++ zeros k) = val c * 2 ^ s) as Vfinal.
      { rewrite Vtemp, Es. replace (val c * (2 ^ sb * 256 ^ k)) with ((val c * 2 ^ sb) * 256 ^ k) by ring.
        rewrite <- Heq. ring. }
      repeat split; auto; try lia.
      * rewrite zlen_app, zlen_zeros, Lpre, Hlen. lia.
      * rewrite Vfinal, Z.pow_add_r by lia. apply Z.mul_lt_mono_pos_r; lia.
  - (* RIGHT *)
    rewrite Hlen. destruct (Z.ltb_spec (n' - n) 0); [lia|]. cbn [bind].
    eexists. split; [reflexivity|].
    unfold canon, num. cbn [content blen bside bpl].
    assert (0 < 2 ^ pl) as Hppl by (apply Z.pow_pos_nonneg; lia).
    assert (0 < 2 ^ pl') as Hppl' by (apply Z.pow_pos_nonneg; lia).
    pose proof (Z_div_exact_full_2 (val c) (2 ^ pl) ltac:(lia) Hside) as Em.
    set (m := val c / 2 ^ pl) in *.
    assert (val (c ++ zeros (n' - n)) = (m * 2 ^ s) * 2 ^ pl') as Vfinal.
    { rewrite val_app, val_zeros, zlen_zeros, Em. replace (Z.max 0 (n' - n)) with (n' - n) by lia.
      rewrite pow2_8 by lia. rewrite Z.add_0_r.
      replace (2 ^ pl * m * 2 ^ (8 * (n' - n))) with (m * (2 ^ pl * 2 ^ (8 * (n' - n)))) by ring.
      rewrite <- Z.pow_add_r by lia. replace (pl + 8 * (n' - n)) with (s + pl') by lia.
      rewrite Z.pow_add_r by lia. ring. }
    repeat split; auto; try lia.
    + rewrite zlen_app, zlen_zeros. lia.
    + apply bytes_ok_app. split; [auto|apply bytes_ok_zeros].
    + rewrite Vfinal. apply Z.mod_mul. lia.
    + rewrite Vfinal. apply Z.div_mul. lia.
Qed.

(* ---- _shift_right --------------------------------------------------------------------------- *)
(* clearing the padding bits of the last byte (RIGHT side) *)
Lemma mask_last_right c2 pl : bytes_ok c2 -> 0 < pl < 8 -> c2 <> [] ->
  exists c3,
    (do lb <- py_index c2 (-1) ;;
     do lb' <- to_byte (Z.land lb (Z.land (Z.shiftl 255 pl) 255)) ;;
     Ok (py_slice c2 None (Some (-1)) ++ [lb'])) = Ok c3 /\
    bytes_ok c3 /\ zlen c3 = zlen c2 /\ val c3 = val c2 - val c2 mod 2 ^ pl.
Proof.
  intros Hc2 Hpl Hne. destruct (exists_last Hne) as [c2' [bl Ec2]]. subst c2.
  rewrite py_index_last. cbn [bind]. apply bytes_ok_app in Hc2 as [Hc2' Hbl].
  apply bytes_ok_cons in Hbl as [Hbl _].
  rewrite land_right_mask by lia.
  assert (0 < 2 ^ pl) as Hppl by (apply Z.pow_pos_nonneg; lia).
  assert (2 ^ pl <= 128) by (change 128 with (2 ^ 7); apply Z.pow_le_mono_r; lia).
  pose proof (Z.mod_pos_bound bl (2 ^ pl) ltac:(lia)) as Hm.
  pose proof (Z.mod_le bl (2 ^ pl) ltac:(lia) ltac:(lia)) as Hle.
  rewrite to_byte_ok by lia. cbn [bind].
  rewrite py_slice_drop_last by (destruct c2'; discriminate). rewrite removelast_last.
  eexists. split; [reflexivity|].
  split; [apply bytes_ok_app; split; auto; apply bytes_ok_cons; split; [lia|constructor]|].
  split; [rewrite !zlen_app; reflexivity|].
  rewrite !val_app, !val_single. change (zlen [bl]) with 1. change (zlen [bl - bl mod 2 ^ pl]) with 1.
  rewrite Z.pow_1_r.
  assert (2 ^ (8 - pl) * 2 ^ pl = 256) as H256 by (rewrite <- Z.pow_add_r by lia; replace (8 - pl + pl) with 8 by lia; reflexivity).
  replace (val c2' * 256 + bl) with (bl + (val c2' * 2 ^ (8 - pl)) * 2 ^ pl) by (rewrite <- H256; ring).
  rewrite Z.mod_add by lia. rewrite <- H256. ring.
Qed.

Lemma b_shift_right_spec b s : canon' b -> 0 < s ->
  exists r, b_shift_right b s = Ok r /\ canon r /\ bside r = bside b /\ blen r = Z.max 0 (blen b - s) /\ num r = num' b / 2 ^ s.
Proof.
  intros (HL & Hlen & Hok & Hside) Hs. unfold b_shift_right, num'.
  destruct (calc_pl_spec (blen b)) as [n [Hn Hn']].
  pose proof (calc_pl_range (blen b)) as Rpl.
  rewrite <- Hn' in Hlen.
  destruct b as [c L sd pl0]; cbn [content blen bside bpl] in *.
  remember (calc_pl L) as pl eqn:Epl in *.
  assert (0 < 2 ^ L) as HpL by (apply Z.pow_pos_nonneg; lia).
  assert (0 < 2 ^ s) as Hps by (apply Z.pow_pos_nonneg; lia).
  assert (0 < 2 ^ pl) as Hppl by (apply Z.pow_pos_nonneg; lia).
  pose proof (val_bound c Hok) as Bc. rewrite Hlen in Bc.
  assert (256 ^ n = 2 ^ L * 2 ^ pl) as E256n.
  { rewrite pow2_8 by lia. rewrite <- Z.pow_add_r by lia. f_equal. lia. }
  assert (0 <= match sd with LEFT => val c | RIGHT => val c / 2 ^ pl end < 2 ^ L) as Bnum.
  { destruct sd; [lia|]. split; [apply Z.div_pos; lia|]. apply Z.div_lt_upper_bound; lia. }
  destruct (Z.leb_spec L s) as [Hle|Hgt].
  - (* everything shifted out *)
    eexists. split; [reflexivity|].
    unfold canon, num. cbn [content blen bside bpl]. change (calc_pl 0) with 0.
    assert (2 ^ L <= 2 ^ s) by (apply Z.pow_le_mono_r; lia).
    repeat split; auto; try lia.
    + constructor.
    + destruct sd; cbn [val]; [lia|apply Z.mod_0_l; lia].
    + rewrite (Z.div_small _ (2 ^ s)) by lia. destruct sd; cbn [val]; [reflexivity|apply Z.div_0_l; lia].
  - destruct (calc_pl_spec (L - s)) as [n' [Hn1 Hn1']]. pose proof (calc_pl_range (L - s)) as Rpl'.
    rewrite <- Hn1'. remember (calc_pl (L - s)) as pl' eqn:Epl' in *.
    assert (0 < 2 ^ pl') as Hppl' by (apply Z.pow_pos_nonneg; lia).
    assert (0 < 2 ^ (L - s)) as HpLs by (apply Z.pow_pos_nonneg; lia).
    assert (2 ^ L = 2 ^ s * 2 ^ (L - s)) as ELs by (rewrite <- Z.pow_add_r by lia; f_equal; lia).
    destruct sd.
    + (* LEFT *)
      pose proof (Z.div_mod s 8 ltac:(lia)) as Hsd. pose proof (Z.mod_pos_bound s 8 ltac:(lia)) as Hsb.
      assert (0 <= s / 8) as Hk by (apply Z.div_pos; lia).
      set (k := s / 8) in *. set (sb := s mod 8) in *.
      assert (2 ^ s = 256 ^ k * 2 ^ sb) as Es.
      { rewrite pow2_8 by lia. rewrite <- Z.pow_add_r by lia. f_equal. lia. }
      assert (0 < 2 ^ sb) as Hpsb by (apply Z.pow_pos_nonneg; lia).
      assert (0 < 256 ^ k) as Hpk by (apply Z.pow_pos_nonneg; lia).
      rewrite Hlen. rewrite py_slice_to by lia.
      set (temp := firstn (Z.to_nat (n - k)) c).
      assert (bytes_ok temp) as Oktemp by (apply bytes_ok_firstn; auto).
      assert (zlen temp = n - k) as Ltemp by (unfold temp, zlen in *; rewrite firstn_length; lia).
      assert (val temp = val c / 256 ^ k) as Vtemp.
      { unfold temp. rewrite val_firstn_div by (auto; unfold zlen in *; lia). f_equal. f_equal. unfold zlen in *. lia. }
      assert (exists newc, (if 0 <? sb then check_bytes (shr_pairs sb 0 temp) else Ok temp) = Ok newc /\
                bytes_ok newc /\ zlen newc = n - k /\ val newc = val c / 2 ^ s) as (newc & -> & Oknew & Lnew & Vnew).
      { destruct (Z.ltb_spec 0 sb) as [Hpos|Hzero].
        - destruct (shr_pairs_val sb Hsb temp 0 Oktemp) as (Lo & Oko & rem & Hrem & Heq).
          rewrite check_bytes_ok by exact Oko. eexists. split; [reflexivity|].
          split; [exact Oko|]. split; [lia|].
          rewrite Z.mod_0_l, Z.mul_0_l, Z.add_0_l in Heq by lia.
          rewrite Es, <- Z.div_div, <- Vtemp by lia.
          apply Z.div_unique_pos with rem; lia.
        - exists temp. split; [reflexivity|]. split; [auto|]. split; [auto|].
          rewrite Vtemp, Es. replace sb with 0 by lia. rewrite Z.pow_0_r, Z.mul_1_r. reflexivity. }
      cbn [bind]. rewrite py_slice_neg_from by lia.
      eexists. split; [reflexivity|].
      unfold canon, num. cbn [content blen bside bpl].
      set (c' := skipn (Z.to_nat (zlen newc - n')) newc).
      assert (bytes_ok c') as Okc' by (apply bytes_ok_skipn; auto).
      assert (zlen c' = n') as Lc' by (unfold c', zlen in *; rewrite skipn_length; lia).
      assert (val newc < 2 ^ (L - s)) as Bnew.
      { rewrite Vnew. apply Z.div_lt_upper_bound; lia. }
      assert (2 ^ (L - s) <= 256 ^ n') as Hle'.
      { rewrite pow2_8 by lia. apply Z.pow_le_mono_r; lia. }
      pose proof (val_bound newc Oknew) as Bnew0.
      assert (val c' = val c / 2 ^ s) as Vc'.
      { unfold c'. replace (Z.to_nat (zlen newc - n')) with (length newc - Z.to_nat n')%nat by (unfold zlen in *; lia).
        rewrite val_skipn_mod by (auto; unfold zlen in *; lia). rewrite Z2Nat.id by lia.
        rewrite Z.mod_small by lia. exact Vnew. }
      repeat split; auto; try lia.
    + (* RIGHT *)
      rewrite py_slice_to_none by lia.
      set (newc := firstn (Z.to_nat n') c).
      assert (bytes_ok newc) as Oknew by (apply bytes_ok_firstn; auto).
      assert (zlen newc = n') as Lnew by (unfold newc, zlen in *; rewrite firstn_length; lia).
      assert (val newc = val c / 256 ^ (n - n')) as Vnew.
      { unfold newc. rewrite val_firstn_div by (auto; unfold zlen in *; lia). f_equal. f_equal. unfold zlen in *. lia. }
      assert (val newc / 2 ^ pl' = val c / 2 ^ pl / 2 ^ s) as Vdiv.
      { rewrite Vnew. rewrite !Z.div_div by (try apply Z.pow_pos_nonneg; lia).
        rewrite pow2_8 by lia. rewrite <- !Z.pow_add_r by lia. f_equal. f_equal. lia. }
      assert (exists c', (if 0 <? pl'
                then do lb <- py_index newc (-1) ;;
                     do lb' <- to_byte (Z.land lb (Z.land (Z.shiftl 255 pl') 255)) ;;
                     Ok (py_slice newc None (Some (-1)) ++ [lb'])
                else Ok newc) = Ok c' /\ bytes_ok c' /\ zlen c' = n' /\ val c' = val newc - val newc mod 2 ^ pl')
        as (c' & -> & Okc' & Lc' & Vc').
      { destruct (Z.ltb_spec 0 pl') as [Hpos|Hzero].
        - assert (newc <> []) as Hne by (intros E; rewrite E in Lnew; unfold zlen in Lnew; cbn in Lnew; lia).
          destruct (mask_last_right newc pl' Oknew ltac:(lia) Hne) as (c3 & E3 & Ok3 & L3 & V3).
          exists c3. split; [exact E3|]. split; [auto|]. split; [lia|auto].
        - exists newc. split; [reflexivity|]. split; [auto|]. split; [auto|].
          replace pl' with 0 by lia. rewrite Z.pow_0_r, Z.mod_1_r. lia. }
      cbn [bind]. eexists. split; [reflexivity|].
      unfold canon, num. cbn [content blen bside bpl]. rewrite <- Epl'.
      assert (val c' = (val newc / 2 ^ pl') * 2 ^ pl') as Vc''.
      { rewrite Vc'. rewrite (Z.div_mod (val newc) (2 ^ pl')) at 1 by lia. ring. }
      repeat split; auto; try lia.
      * rewrite Vc''. apply Z.mod_mul. lia.
      * rewrite Vc'', Z.div_mul by lia. exact Vdiv.
Qed.

(* ---- shift ---------------------------------------------------------------------------------- *)
Lemma b_shift_spec b s ip : canon b ->
  exists r, b_shift b s ip = Ok r /\ canon r /\ bside r = bside b /\
            (s <= 0 -> blen r = blen b - s /\ num r = num b * 2 ^ (- s)) /\
            (0 < s -> blen r = Z.max 0 (blen b - s) /\ num r = num b / 2 ^ s).
Proof.
  intros Hc. unfold b_shift.
  assert ((if ip then Ok b else b_copy b) = Ok b) as -> by (destruct ip; [reflexivity|apply b_copy_canon; auto]).
  pose proof (canon_canon' b Hc) as Hc'. pose proof (num'_num b Hc) as En.
  destruct (Z.eqb_spec s 0) as [->|Hne].
  - exists b. split; [reflexivity|]. split; [auto|]. split; [reflexivity|]. split; [|lia].
    intros _. cbn. split; lia.
  - cbn [bind]. destruct (Z.ltb_spec s 0) as [Hneg|Hpos].
    + replace (Z.abs s) with (- s) by lia.
      destruct (b_shift_left_spec b (- s) Hc' ltac:(lia)) as (r & Er & Cr & Sr & Lr & Nr).
      exists r. split; [auto|]. split; [auto|]. split; [auto|]. split; [|lia].
      intros _. rewrite <- En. split; [lia|auto].
    + destruct (b_shift_right_spec b s Hc' ltac:(lia)) as (r & Er & Cr & Sr & Lr & Nr).
      exists r. split; [auto|]. split; [auto|]. split; [auto|]. split; [lia|].
      intros _. rewrite <- En. split; auto.
Qed.

(* ---- pad ------------------------------------------------------------------------------------ *)
Lemma b_pad_spec b sd ip : canon b ->
  exists r, b_pad b sd ip = Ok r /\ canon r /\ bside r = sd /\ blen r = blen b /\ num r = num b.
Proof.
  intros Hc. unfold b_pad. pose proof (canon_canon' b Hc) as Hc'.
  destruct (side_eqb sd (bside b)) eqn:Eside.
  - assert (sd = bside b) as -> by (destruct sd, (bside b); (reflexivity || discriminate)).
    exists b. split; [destruct ip; [reflexivity|apply b_new_canon; auto]|]. auto.
  - rewrite b_copy_canon by auto. cbn [bind].
    destruct Hc as (HL & Hpl & Hlen & Hok & Hside).
    destruct (calc_pl_spec (blen b)) as [n [Hn Hn']]. pose proof (calc_pl_range (blen b)) as Rpl.
    destruct b as [c L sb pl]; cbn [content blen bside bpl] in *.
    rewrite <- Hpl in *. rewrite <- Hn' in Hlen.
    assert (0 < 2 ^ L) as HpL by (apply Z.pow_pos_nonneg; lia).
    assert (0 < 2 ^ pl) as Hppl by (apply Z.pow_pos_nonneg; lia).
    pose proof (val_bound c Hok) as Bc. rewrite Hlen in Bc.
    assert (256 ^ n = 2 ^ L * 2 ^ pl) as E256n.
    { rewrite pow2_8 by lia. rewrite <- Z.pow_add_r by lia. f_equal. lia. }
    destruct sd, sb; try discriminate; clear Eside.
    + (* RIGHT -> LEFT *)
      unfold b_shift. destruct (Z.eqb_spec pl 0) as [E0|Hne].
      * cbn [bind content blen bside bpl]. eexists. split; [reflexivity|].
        unfold canon, num. cbn [content blen bside bpl]. rewrite E0 in *. rewrite Z.pow_0_r in *.
        rewrite Z.div_1_r. repeat split; auto; try lia.
      * cbn [bind]. destruct (Z.ltb_spec pl 0); [lia|].
        assert (canon' (mkbuf c (L + pl) LEFT pl)) as Hcp.
        { unfold canon'. cbn [content blen bside bpl]. repeat split; auto; try lia.
          - rewrite Hn. replace (8 * n + 7) with (7 + n * 8) by ring. rewrite Z.div_add by lia. change (7 / 8) with 0. lia.
          - rewrite Z.pow_add_r by lia. lia. }
        destruct (b_shift_right_spec _ pl Hcp ltac:(lia)) as (r & Er & Cr & Sr & Lr & Nr).
        rewrite Er. cbn [bind]. eexists. split; [reflexivity|].
        cbn [content blen bside bpl] in *. unfold num' in Nr. cbn [content blen bside bpl] in Nr.
        destruct Cr as (C0 & Cpl & Clen & Cok & Cside). replace (Z.max 0 (L + pl - pl)) with L in Lr by lia.
        unfold num in Nr. rewrite Sr in *. rewrite Lr in *.
        unfold canon, num. cbn [content blen bside bpl].
        repeat split; auto; try lia.
    + (* LEFT -> RIGHT *)
      unfold b_shift. destruct (Z.eqb_spec (- pl) 0) as [E0|Hne].
      * assert (pl = 0) as Epl by lia.
        cbn [bind content blen bside bpl]. eexists. split; [reflexivity|].
        unfold canon, num. cbn [content blen bside bpl]. rewrite Epl in *. rewrite Z.pow_0_r in *.
        rewrite Z.div_1_r, Z.mod_1_r. repeat split; auto; try lia.
      * cbn [bind]. destruct (Z.ltb_spec (- pl) 0); [|lia].
        replace (Z.abs (- pl)) with pl by lia.
        assert (canon' (mkbuf c L LEFT pl)) as Hcp.
        { unfold canon'. cbn [content blen bside bpl]. repeat split; auto; try lia. }
        destruct (b_shift_left_spec _ pl Hcp ltac:(lia)) as (r & Er & Cr & Sr & Lr & Nr).
        rewrite Er. cbn [bind]. eexists. split; [reflexivity|].
        cbn [content blen bside bpl] in *. unfold num' in Nr. cbn [content blen bside bpl] in Nr.
        destruct Cr as (C0 & Cpl & Clen & Cok & Cside).
        unfold num in Nr. rewrite Sr in *. rewrite Lr in *.
        unfold canon, num. cbn [content blen bside bpl].
        repeat split; auto; try lia.
        -- rewrite Clen. rewrite Hn. replace (8 * n + 7) with (7 + n * 8) by ring.
           rewrite Z.div_add by lia. change (7 / 8) with 0. lia.
        -- rewrite Nr. apply Z.mod_mul. lia.
        -- rewrite Nr. apply Z.div_mul. lia.
Qed.
