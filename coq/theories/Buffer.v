(* Buffer.v -- byte-level model of microschc/binary/buffer.py (class Buffer), written method by
   method, branch by branch, with the same byte loops and carries, and with every place where the
   Python code can raise.  Definitions only; the refinement proofs are in BufferSpec*.v. *)
From Coq Require Import ZArith List Bool.
From MS Require Import PyBase.
Import ListNotations.
Open Scope Z_scope.

Inductive side := LEFT | RIGHT.
Definition side_eqb (a b : side) : bool :=
  match a, b with LEFT, LEFT | RIGHT, RIGHT => true | _, _ => false end.

Record buf := mkbuf { content : list Z; blen : Z; bside : side; bpl : Z }.

(* _calculate_padding_length, buffer.py *)
Definition calc_pl (length : Z) : Z := (8 - length mod 8) mod 8.

Definition set_first (l : list Z) (x : Z) : list Z := x :: tl l.
Definition set_last (l : list Z) (x : Z) : list Z := removelast l ++ [x].

(* Buffer.__init__ *)
Definition b_new (c : list Z) (length : Z) (sd : side) : res buf :=
  let pl := calc_pl length in
  let byte_length := if pl =? 0 then length / 8 else length / 8 + 1 in
  let content_length := zlen c in
  match sd with
  | LEFT =>
    let c1 := if content_length <? byte_length then zeros (byte_length - content_length) ++ c else c in
    let c2 := py_slice c1 (Some (zlen c1 - byte_length)) None in
    do c3 <- (if 0 <? pl then
                let mask := Z.land (Z.shiftr 255 pl) 255 in
                do b0 <- py_index c2 0 ;;
                do fb <- to_byte (Z.land b0 mask) ;;
                Ok (fb :: py_slice c2 (Some 1) None)
              else Ok c2) ;;
    Ok (mkbuf c3 length LEFT pl)
  | RIGHT =>
    let c1 := if content_length <? byte_length then c ++ zeros (byte_length - content_length) else c in
    let c2 := py_slice c1 (Some 0) (Some byte_length) in
    do c3 <- (if 0 <? pl then
                let mask := Z.land (Z.shiftl 255 pl) 255 in
                do bl <- py_index c2 (-1) ;;
                do lb <- to_byte (Z.land bl mask) ;;
                Ok (py_slice c2 None (Some (-1)) ++ [lb])
              else Ok c2) ;;
    Ok (mkbuf c3 length RIGHT pl)
  end.

Definition b_copy (b : buf) : res buf := b_new (content b) (blen b) (bside b).

(* ---- the carry loops ------------------------------------------------------------------------ *)

(* for b in bs (left to right): sb = (b >> s) + carry; carry = (b & ((1<<s)-1)) << (8-s); out += sb *)
Fixpoint shr_stream (s carry : Z) (bs : list Z) : list Z * Z :=
  match bs with
  | [] => ([], carry)
  | b :: r =>
    let sb := Z.shiftr b s + carry in
    let c' := Z.shiftl (Z.land b (Z.shiftl 1 s - 1)) (8 - s) in
    let '(out, cf) := shr_stream s c' r in (sb :: out, cf)
  end.

(* for b in reversed(bs): sb = ((b << s) & 0xff) + carry; carry = b >> (8-s); out = sb :: out
   (variant used by __add__, carry not masked) *)
Fixpoint shl_stream_rev (s carry : Z) (rbs : list Z) (acc : list Z) : list Z * Z :=
  match rbs with
  | [] => (acc, carry)
  | b :: r =>
    let sb := Z.land (Z.shiftl b s) 255 + carry in
    shl_stream_rev s (Z.shiftr b (8 - s)) r (sb :: acc)
  end.

(* same with the carry masked: carry = (b >> (8-s)) & ((1<<s)-1); used by __getitem__ (RIGHT) *)
Fixpoint shl_stream_rev_m (s carry : Z) (rbs : list Z) (acc : list Z) : list Z * Z :=
  match rbs with
  | [] => (acc, carry)
  | b :: r =>
    let sb := Z.land (Z.shiftl b s) 255 + carry in
    shl_stream_rev_m s (Z.land (Z.shiftr b (8 - s)) (Z.shiftl 1 s - 1)) r (sb :: acc)
  end.

(* _shift_left, LEFT: new_byte = ((byte << s) & 0xff) | carry; carry = (byte >> (8-s)) & mask *)
Fixpoint shl_stream_or (s carry : Z) (rbs : list Z) (acc : list Z) : list Z * Z :=
  match rbs with
  | [] => (acc, carry)
  | b :: r =>
    let nb := Z.lor (Z.land (Z.shiftl b s) 255) carry in
    shl_stream_or s (Z.land (Z.shiftr b (8 - s)) (Z.shiftl 1 s - 1)) r (nb :: acc)
  end.

(* _shift_right, LEFT: for i in 1..n-1: out += ((t[i-1] & mask) << (8-s)) + (t[i] >> s) *)
Fixpoint shr_pairs (s : Z) (prev : Z) (bs : list Z) : list Z :=
  match bs with
  | [] => []
  | b :: r => (Z.shiftl (Z.land prev (Z.shiftl 1 s - 1)) (8 - s) + Z.shiftr b s) :: shr_pairs s b r
  end.

(* ---- shift ---------------------------------------------------------------------------------- *)

Definition b_shift_left (b : buf) (shift : Z) : res buf :=
  let new_length := blen b + shift in
  let new_byte_length := (new_length + 7) / 8 in
  do c <- (match bside b with
           | LEFT =>
             let temp0 := zeros (shift / 8) in
             let sb := shift mod 8 in
             let '(temp, carry) := shl_stream_or sb 0 (rev (content b)) temp0 in
             do temp <- check_bytes temp ;;
             if zlen temp <? new_byte_length then
               do cb <- to_byte carry ;; Ok (cb :: temp)
             else Ok temp
           | RIGHT =>
             let extra := new_byte_length - zlen (content b) in
             if extra <? 0 then Exc ValueError else Ok (content b ++ zeros extra)
           end) ;;
  Ok (mkbuf c new_length (bside b) (calc_pl new_length)).

Definition b_shift_right (b : buf) (shift : Z) : res buf :=
  if blen b <=? shift then Ok (mkbuf [] 0 (bside b) (calc_pl 0))
  else
    let new_length := blen b - shift in
    let new_byte_length := (new_length + 7) / 8 in
    let temp := content b in
    do c <- (match bside b with
             | LEFT =>
               let bytes_to_remove := shift / 8 in
               let temp := py_slice temp (Some 0) (Some (zlen temp - bytes_to_remove)) in
               let s := shift mod 8 in
               do newc <- (if 0 <? s then check_bytes (shr_pairs s 0 temp) else Ok temp) ;;
               Ok (py_slice newc (Some (- new_byte_length)) None)
             | RIGHT =>
               let newc := py_slice temp None (Some new_byte_length) in
               let npl := calc_pl new_length in
               if 0 <? npl then
                 let mask := Z.land (Z.shiftl 255 npl) 255 in
                 do lb <- py_index newc (-1) ;;
                 do lb' <- to_byte (Z.land lb mask) ;;
                 Ok (py_slice newc None (Some (-1)) ++ [lb'])
               else Ok newc
             end) ;;
    Ok (mkbuf c new_length (bside b) (calc_pl new_length)).

(* shift(shift, inplace): the returned buffer.  inplace=False works on copy() *)
Definition b_shift (b : buf) (shift : Z) (inplace : bool) : res buf :=
  if shift =? 0 then (if inplace then Ok b else b_copy b)
  else
    do w <- (if inplace then Ok b else b_copy b) ;;
    if shift <? 0 then b_shift_left w (Z.abs shift) else b_shift_right w shift.

(* pad(padding, inplace): the returned buffer (when inplace the receiver takes its content, length, side) *)
Definition b_pad (b : buf) (padding : side) (inplace : bool) : res buf :=
  if side_eqb padding (bside b) then
    (if inplace then Ok b else b_new (content b) (blen b) (bside b))
  else
    do cp <- b_copy b ;;
    let pl := bpl b in
    let '(cp, shift_value) :=
      match padding with
      | RIGHT => (cp, - pl)
      | LEFT => (mkbuf (content cp) (blen cp + pl) LEFT (bpl cp), pl)
      end in
    do r <- b_shift cp shift_value true ;;
    Ok (mkbuf (content r) (blen b) padding pl).

(* value(): unsigned big-endian integer *)
Definition b_value (b : buf) : res Z :=
  do w <- (match bside b with RIGHT => b_pad b LEFT false | LEFT => Ok b end) ;;
  let mask := Z.land (Z.shiftr 255 (bpl w)) 255 in
  do c <- (if 0 <? blen w then
             do b0 <- py_index (content w) 0 ;;
             do fb <- to_byte (Z.land b0 mask) ;;
             Ok (fb :: py_slice (content w) (Some 1) None)
           else Ok []) ;;
  Ok (val c).

(* ---- __getitem__ ---------------------------------------------------------------------------- *)

Fixpoint index_range (c : list Z) (from : Z) (n : nat) : res (list Z) :=
  match n with
  | O => Ok []
  | S n' => do x <- py_index c from ;; do r <- index_range c (from + 1) n' ;; Ok (x :: r)
  end.

Definition b_getitem_bits (b : buf) (start_bit stop_bit : Z) : res buf :=
  let new_length := stop_bit - start_bit in
  if new_length =? 0 then b_new [] 0 (bside b)
  else match bside b with
  | LEFT =>
    let start_bit := start_bit + bpl b in
    let stop_bit := stop_bit + bpl b in
    let start_byte := start_bit / 8 in
    let stop_byte := (stop_bit + 7) / 8 in
    let fbm := Z.shiftl 1 (8 - start_bit mod 8) - 1 in
    let sb := (8 - stop_bit mod 8) mod 8 in
    let cm := Z.shiftl 1 sb - 1 in
    do b0 <- py_index (content b) start_byte ;;
    do first <- to_byte (Z.shiftr (Z.land b0 fbm) sb) ;;
    let carry := Z.shiftl (Z.land b0 cm) (8 - sb) in
    do rest <- index_range (content b) (start_byte + 1) (Z.to_nat (stop_byte - (start_byte + 1))) ;;
    do out <- check_bytes (fst (shr_stream sb carry rest)) ;;
    b_new (first :: out) new_length LEFT
  | RIGHT =>
    let start_byte := start_bit / 8 in
    let stop_byte := (stop_bit + 7) / 8 in
    let sb := start_bit mod 8 in
    let cm := Z.shiftl 1 sb - 1 in
    let lbm := Z.land (Z.shiftl 255 (8 - stop_bit mod 8)) 255 in
    do last <- py_index (content b) (stop_byte - 1) ;;
    do lastb <- to_byte (Z.land (Z.shiftl (Z.land last lbm) sb) 255) ;;
    let carry := Z.land (Z.shiftr last (8 - sb)) cm in
    let mid := py_slice (content b) (Some start_byte) (Some stop_byte) in
    do out <- check_bytes (fst (shl_stream_rev_m sb carry (rev mid) [lastb])) ;;
    b_new out new_length RIGHT
  end.

(* self[start:stop] *)
Definition b_getitem (b : buf) (start stop : option Z) : res buf :=
  let '(s, e) := slice_indices (blen b) start stop in b_getitem_bits b s e.
(* self[i] *)
Definition b_getitem_int (b : buf) (i : Z) : res buf := b_getitem_bits b i (i + 1).

(* ---- __add__ -------------------------------------------------------------------------------- *)

Definition merge_last_first (lc nc : list Z) : res (list Z) :=
  do ll <- py_index lc (-1) ;;
  do n0 <- py_index nc 0 ;;
  do m <- to_byte (ll + n0) ;;
  Ok (py_slice lc (Some 0) (Some (-1)) ++ [m] ++ py_slice nc (Some 1) None).

Definition b_add (l r : buf) : res buf :=
  if blen r =? 0 then b_copy l
  else
    let new_length := blen l + blen r in
    do nc <-
      (match bside l with
       | LEFT =>
         if bpl r =? 0 then Ok (content l ++ content r)
         else
           do r' <- b_pad r LEFT false ;;
           let bs := bpl r' in
           let '(out, carry) := shr_stream bs 0 (content l) in
           do out <- check_bytes out ;;
           do r0 <- py_index (content r') 0 ;;
           do m <- to_byte (r0 + carry) ;;
           let nc := out ++ [m] ++ py_slice (content r') (Some 1) None in
           if 7 <? bpl l + bs then Ok (py_slice nc (Some 1) None) else Ok nc
       | RIGHT =>
         if bpl l =? 0 then
           (if (bpl r =? 0) || side_eqb (bside r) RIGHT then Ok (content l ++ content r)
            else do r' <- b_pad r RIGHT false ;; Ok (content l ++ content r'))
         else
           match bside r with
           | LEFT =>
             if bpl l + bpl r =? 8 then merge_last_first (content l) (content r)
             else if blen l mod 8 <? bpl r then
               let bs := bpl r - blen l mod 8 in
               let '(nc, _) := shl_stream_rev bs 0 (rev (content r)) [] in
               do nc <- check_bytes nc ;;
               merge_last_first (content l) nc
             else
               let bs := 8 - bpl l - bpl r in
               let '(nc, carry) := shr_stream bs 0 (content r) in
               do nc <- check_bytes nc ;;
               do m <- merge_last_first (content l) nc ;;
               do cb <- to_byte carry ;;
               Ok (m ++ [cb])
           | RIGHT =>
             let bs := 8 - bpl l in
             let '(nc, carry) := shr_stream bs 0 (content r) in
             do nc <- check_bytes nc ;;
             do m <- merge_last_first (content l) nc ;;
             do cb <- to_byte carry ;;
             Ok (m ++ [cb])
           end
       end) ;;
    b_new nc new_length (bside l).

(* ---- bitwise -------------------------------------------------------------------------------- *)

Fixpoint zip_with (f : Z -> Z -> Z) (a b : list Z) : list Z :=
  match a, b with x :: a', y :: b' => f x y :: zip_with f a' b' | _, _ => [] end.

Definition b_bitwise (f : Z -> Z -> Z) (a b : buf) : res buf :=
  if negb (blen a =? blen b) then Exc ValueError
  else
    do b' <- (if negb (side_eqb (bside b) (bside a)) then b_pad b (bside a) false else Ok b) ;;
    do c <- check_bytes (zip_with f (content a) (content b')) ;;
    b_new c (blen a) (bside a).
Definition b_and := b_bitwise Z.land.
Definition b_or := b_bitwise Z.lor.
Definition b_xor := b_bitwise Z.lxor.

Definition inv_byte (b : Z) : Z := Z.land (Z.lnot b) 255.

Definition b_invert (b : buf) : res buf :=
  if blen b =? 0 then b_copy b
  else
    do c <- (match bside b with
             | LEFT =>
               let mask := Z.shiftl 1 ((8 - bpl b) mod 8) - 1 in
               do b0 <- py_index (content b) 0 ;;
               do f <- to_byte (Z.land (Z.lnot b0) mask) ;;
               Ok (f :: map inv_byte (content b))
             | RIGHT =>
               let mask := Z.land (Z.shiftl 255 (bpl b)) 255 in
               let n := zlen (content b) in
               do bl <- py_index (content b) (n - 1) ;;
               do l <- to_byte (Z.land (Z.lnot bl) mask) ;;
               Ok (map inv_byte (py_slice (content b) None (Some (n - 1))) ++ [l])
             end) ;;
    b_new c (blen b) (bside b).

(* ---- __setitem__ (slice form and int form): the new state of the receiver ------------------- *)
Definition b_setitem_bits (b : buf) (start_bit stop_bit : Z) (v : buf) : res buf :=
  do prefix <- b_getitem b (Some 0) (Some start_bit) ;;
  do postfix <- b_getitem b (Some stop_bit) None ;;
  do pv <- b_add prefix v ;;
  do nb <- b_add pv postfix ;;
  Ok (mkbuf (content nb) (blen nb) (bside b) (bpl nb)).
Definition b_setitem (b : buf) (start stop : option Z) (v : buf) : res buf :=
  let '(s, e) := slice_indices (blen b) start stop in b_setitem_bits b s e v.
Definition b_setitem_int (b : buf) (i : Z) (v : buf) : res buf := b_setitem_bits b i (i + 1) v.

(* ---- chunks --------------------------------------------------------------------------------- *)
Fixpoint chunks_loop (b : buf) (n : Z) (cursor : Z) (k : nat) : res (list buf * Z) :=
  match k with
  | O => Ok ([], cursor)
  | S k' =>
    do c <- b_getitem b (Some cursor) (Some (cursor + n)) ;;
    do rest <- chunks_loop b n (cursor + n) k' ;;
    Ok (c :: fst rest, snd rest)
  end.

Definition b_chunks (b : buf) (n : Z) (padding : bool) : res (list buf) :=
  if n =? 0 then Exc ZeroDivisionError
  else if n <? 0 then Exc Unmodelled
  else
    let count := if blen b mod n =? 0 then blen b / n else blen b / n + 1 in
    do pre <- chunks_loop b n 0 (Z.to_nat (count - 1)) ;;
    let '(cs, cursor) := pre in
    do chunk <- b_getitem b (Some cursor) (Some (cursor + n)) ;;
    do last <- (if padding && (blen chunk <? n) then
                  let pad_content := zeros (if n mod 8 =? 0 then n / 8 else n / 8 + 1) in
                  do p <- b_new pad_content (n - blen chunk) RIGHT ;;
                  b_add chunk p
                else Ok chunk) ;;
    Ok (cs ++ [last]).

(* ---- equality, hash ------------------------------------------------------------------------- *)
Definition bytes_eqb : list Z -> list Z -> bool := list_eqb Z.eqb.

Definition b_eq (a b : buf) : res bool :=
  if negb (blen a =? blen b) then Ok false
  else do b' <- b_pad b (bside a) false ;; Ok (bytes_eqb (content a) (content b')).

(* Buffer == bytes *)
Definition b_eq_bytes (a : buf) (bs : list Z) : bool := bytes_eqb (content a) bs.

(* the byte string whose hash is the Buffer's hash *)
Definition b_hash_key (a : buf) : res (list Z) := do a' <- b_pad a LEFT false ;; Ok (content a').

(* ---- dict keyed by Buffers (CPython: same hash, then stored_key == probe); insertion ordered --- *)
Definition key_match (stored probe : buf) : res bool :=
  do hs <- b_hash_key stored ;; do hp <- b_hash_key probe ;;
  if bytes_eqb hs hp then b_eq stored probe else Ok false.

Fixpoint dict_get {V} (d : list (buf * V)) (probe : buf) : res (option V) :=
  match d with
  | [] => Ok None
  | (k, v) :: r => do m <- key_match k probe ;; if m then Ok (Some v) else dict_get r probe
  end.

Fixpoint dict_set {V} (d : list (buf * V)) (key : buf) (v : V) : res (list (buf * V)) :=
  match d with
  | [] => Ok [(key, v)]
  | (k, v0) :: r =>
    do m <- key_match k key ;;
    if m then Ok ((k, v) :: r) else do r' <- dict_set r key v ;; Ok ((k, v0) :: r')
  end.

Fixpoint dict_of_list {V} (acc : list (buf * V)) (l : list (buf * V)) : res (list (buf * V)) :=
  match l with
  | [] => Ok acc
  | (k, v) :: r => do acc' <- dict_set acc k v ;; dict_of_list acc' r
  end.

(* ---- __iter__ ------------------------------------------------------------------------------- *)
Fixpoint iter_loop (b : buf) (off : Z) (i : Z) (k : nat) : res (list Z) :=
  match k with
  | O => Ok []
  | S k' =>
    let byte_index := (i + off) / 8 in
    let bit_offset := (i + off) mod 8 in
    do byte <- py_index (content b) byte_index ;;
    let bit := Z.shiftr (Z.land byte (2 ^ (8 - bit_offset - 1))) (8 - bit_offset - 1) in
    do r <- iter_loop b off (i + 1) k' ;;
    Ok (bit :: r)
  end.
Definition b_iter (b : buf) : res (list Z) :=
  let off := match bside b with LEFT => bpl b | RIGHT => 0 end in
  iter_loop b off 0 (Z.to_nat (blen b)).

Definition b_len (b : buf) : Z := blen b.

(* ---- actions/compression.py: least_significant_bits reaches into .content -------------------- *)
Definition lsb_bytes (fv : buf) (bit_length : Z) : res buf :=
  let full := bit_length / 8 in
  let residue := if 0 <? full then py_slice (content fv) (Some (- full)) None else [] in
  let leading := bit_length mod 8 in
  do residue <- (if 0 <? leading then
                   do pb <- py_index (content fv) (- (full + 1)) ;;
                   let bitmask := Z.shiftr 255 (8 - leading) in
                   do lb <- to_byte (Z.land pb bitmask) ;;
                   Ok (lb :: residue)
                 else Ok residue) ;;
  b_new residue bit_length LEFT.

(* decompressor.py: length_buffer.pad(LEFT, inplace=True); int.from_bytes(length_buffer.content) *)
Definition prefix_value (b : buf) : res Z := do p <- b_pad b LEFT true ;; Ok (val (content p)).
