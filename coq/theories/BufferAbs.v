(* BufferAbs.v -- what a Buffer denotes (abs), the canonical-form invariant (canon), and the
   shared lemmas about Python slices / indices and modular arithmetic used by the refinement
   proofs of the individual methods. *)
From Coq Require Import ZArith Znumtheory List Bool Lia.
From MS Require Import PyBase Buffer Bits ByteFacts.
Import ListNotations.
Open Scope Z_scope.

(* the number spelled by the bits of a buffer *)
Definition num (b : buf) : Z :=
  match bside b with LEFT => val (content b) | RIGHT => val (content b) / 2 ^ bpl b end.

Definition abs (b : buf) : bits := bits_of (Z.to_nat (blen b)) (num b).

(* canonical form: minimal byte count, padding bits zero, padding_length consistent *)
Definition canon (b : buf) : Prop :=
  0 <= blen b /\ bpl b = calc_pl (blen b) /\ zlen (content b) = (blen b + 7) / 8 /\ bytes_ok (content b) /\
  match bside b with
  | LEFT => val (content b) < 2 ^ blen b
  | RIGHT => val (content b) mod 2 ^ bpl b = 0
  end.

Lemma calc_pl_range L : 0 <= calc_pl L < 8.
Proof. unfold calc_pl. apply Z.mod_pos_bound. lia. Qed.

Lemma calc_pl_spec L : exists k, L + calc_pl L = 8 * k /\ k = (L + 7) / 8.
Proof.
  unfold calc_pl. exists ((L + 7) / 8). split; [|reflexivity].
  pose proof (Z.div_mod L 8 ltac:(lia)). pose proof (Z.mod_pos_bound L 8 ltac:(lia)).
  destruct (Z.eq_dec (L mod 8) 0) as [E|E].
  - rewrite E. change ((8 - 0) mod 8) with 0.
    replace (L + 7) with (7 + (L / 8) * 8) by lia. rewrite Z.div_add by lia. change (7 / 8) with 0. lia.
  - rewrite (Z.mod_small (8 - L mod 8)) by lia.
    replace (L + 7) with ((L mod 8 - 1) + (L / 8 + 1) * 8) by lia.
    rewrite Z.div_add by lia. rewrite (Z.div_small (L mod 8 - 1)) by lia. lia.
Qed.

Lemma byte_length_spec L :
  (if calc_pl L =? 0 then L / 8 else L / 8 + 1) = (L + 7) / 8.
Proof.
  unfold calc_pl.
  pose proof (Z.div_mod L 8 ltac:(lia)). pose proof (Z.mod_pos_bound L 8 ltac:(lia)).
  destruct (Z.eq_dec (L mod 8) 0) as [E|E].
  - rewrite E. change ((8 - 0) mod 8 =? 0) with true. cbv iota.
    replace (L + 7) with (7 + (L / 8) * 8) by lia. rewrite Z.div_add by lia. reflexivity.
  - rewrite (Z.mod_small (8 - L mod 8)) by lia.
    destruct (Z.eqb_spec (8 - L mod 8) 0); [lia|].
    replace (L + 7) with ((L mod 8 - 1) + (L / 8 + 1) * 8) by lia.
    rewrite Z.div_add by lia. rewrite (Z.div_small (L mod 8 - 1)) by lia. lia.
Qed.

(* ---- Python slices on lists ----------------------------------------------------------------- *)
Lemma py_slice_from {A} (l : list A) s : 0 <= s <= zlen l -> py_slice l (Some s) None = skipn (Z.to_nat s) l.
Proof.
  intros H. unfold py_slice, slice_indices, clamp_index.
  destruct (Z.ltb_spec s 0); [lia|]. destruct (Z.ltb_spec (zlen l) s); [lia|].
  apply firstn_all2. rewrite skipn_length. unfold zlen in *. lia.
Qed.

Lemma py_slice_to {A} (l : list A) e : 0 <= e <= zlen l -> py_slice l (Some 0) (Some e) = firstn (Z.to_nat e) l.
Proof.
  intros H. unfold py_slice, slice_indices, clamp_index. cbn [Z.ltb Z.compare].
  destruct (Z.ltb_spec (zlen l) 0); [unfold zlen in *; lia|].
  destruct (Z.ltb_spec e 0); [lia|]. destruct (Z.ltb_spec (zlen l) e); [lia|].
  cbn [skipn Z.to_nat]. now rewrite Z.sub_0_r.
Qed.

Lemma py_slice_to_none {A} (l : list A) e : 0 <= e <= zlen l -> py_slice l None (Some e) = firstn (Z.to_nat e) l.
Proof.
  intros H. unfold py_slice, slice_indices, clamp_index.
  destruct (Z.ltb_spec e 0); [lia|]. destruct (Z.ltb_spec (zlen l) e); [lia|].
  cbn [skipn Z.to_nat]. now rewrite Z.sub_0_r.
Qed.

Lemma py_slice_to_over {A} (l : list A) e : zlen l <= e -> py_slice l (Some 0) (Some e) = l.
Proof.
  intros H. unfold py_slice, slice_indices, clamp_index. cbn [Z.ltb Z.compare].
  pose proof (zlen_nonneg l).
  destruct (Z.ltb_spec (zlen l) 0); [lia|].
  destruct (Z.ltb_spec e 0); [lia|]. destruct (Z.ltb_spec (zlen l) e).
  - cbn [skipn Z.to_nat]. apply firstn_all2. unfold zlen in *. lia.
  - assert (e = zlen l) as -> by lia. cbn [skipn Z.to_nat]. apply firstn_all2. unfold zlen. lia.
Qed.

Lemma py_slice_mid {A} (l : list A) s e : 0 <= s <= e -> e <= zlen l ->
  py_slice l (Some s) (Some e) = firstn (Z.to_nat (e - s)) (skipn (Z.to_nat s) l).
Proof.
  intros H1 H2. unfold py_slice, slice_indices, clamp_index.
  destruct (Z.ltb_spec s 0); [lia|]. destruct (Z.ltb_spec (zlen l) s); [lia|].
  destruct (Z.ltb_spec e 0); [lia|]. destruct (Z.ltb_spec (zlen l) e); [lia|]. reflexivity.
Qed.

(* l[:-1] and l[-1] on non-empty lists *)
Lemma py_slice_drop_last {A} (l : list A) : l <> [] -> py_slice l None (Some (-1)) = removelast l.
Proof.
  intros H. unfold py_slice, slice_indices, clamp_index.
  assert (1 <= zlen l) by (destruct l; [congruence|unfold zlen; cbn [length]; lia]).
  change (-1 <? 0) with true. cbv iota. destruct (Z.ltb_spec (-1 + zlen l) 0); [lia|].
  cbn [skipn Z.to_nat]. rewrite Z.sub_0_r.
  rewrite <- (firstn_removelast l) by (unfold zlen in *; lia) || idtac.
  replace (Z.to_nat (-1 + zlen l)) with (length l - 1)%nat by (unfold zlen; lia).
  clear. induction l as [|x [|y l] IH]; cbn; auto. f_equal.
  cbn in IH. rewrite Nat.sub_0_r in IH. exact IH.
Qed.

Lemma py_slice_0_drop_last {A} (l : list A) : l <> [] -> py_slice l (Some 0) (Some (-1)) = removelast l.
Proof.
  intros H. rewrite <- py_slice_drop_last by auto. unfold py_slice, slice_indices, clamp_index.
  cbn [Z.ltb Z.compare]. pose proof (zlen_nonneg l). destruct (Z.ltb_spec (zlen l) 0); [lia|]. reflexivity.
Qed.

Lemma py_index_nth {A} (l : list A) i d : 0 <= i < zlen l -> py_index l i = Ok (nth (Z.to_nat i) l d).
Proof.
  intros H. unfold py_index. destruct (Z.ltb_spec i 0); [lia|].
  destruct (Z.ltb_spec i 0); [lia|]. destruct (Z.leb_spec (zlen l) i); [lia|]. cbn [orb].
  destruct (nth_error l (Z.to_nat i)) eqn:E.
  - f_equal. symmetry. apply nth_error_nth. exact E.
  - apply nth_error_None in E. unfold zlen in *. lia.
Qed.

Lemma py_index_0 {A} (x : A) l : py_index (x :: l) 0 = Ok x.
Proof. unfold py_index. rewrite zlen_cons. pose proof (zlen_nonneg l). cbn [Z.ltb Z.compare].
  destruct (Z.leb_spec (1 + zlen l) 0); [lia|]. reflexivity. Qed.

Lemma py_index_last {A} (l : list A) (x : A) : py_index (l ++ [x]) (-1) = Ok x.
Proof.
  unfold py_index. change (-1 <? 0) with true. cbv iota. rewrite zlen_app. change (zlen [x]) with 1.
  pose proof (zlen_nonneg l).
  destruct (Z.ltb_spec (-1 + (zlen l + 1)) 0); [lia|]. destruct (Z.leb_spec (zlen l + 1) (-1 + (zlen l + 1))); [lia|].
  cbn [orb]. replace (Z.to_nat (-1 + (zlen l + 1))) with (length l) by (unfold zlen; lia).
  rewrite nth_error_app2 by lia. now rewrite Nat.sub_diag.
Qed.

Lemma py_slice_tail {A} (x : A) l : py_slice (x :: l) (Some 1) None = l.
Proof. rewrite py_slice_from; [reflexivity|]. rewrite zlen_cons. pose proof (zlen_nonneg l). lia. Qed.

(* ---- modular arithmetic --------------------------------------------------------------------- *)
Lemma pow2_8 k : 0 <= k -> 256 ^ k = 2 ^ (8 * k).
Proof. intros. change 256 with (2 ^ 8). rewrite <- Z.pow_mul_r by lia. reflexivity. Qed.

(* x = h * P + t with 0 <= t < P: reducing the high part modulo m *)
Lemma mod_high h t P m : 0 < P -> 0 < m -> 0 <= t < P -> (h * P + t) mod (m * P) = (h mod m) * P + t.
Proof.
  intros HP Hm Ht. rewrite (Z.mul_comm m P). rewrite Z.rem_mul_r by lia.
  replace (h * P + t) with (t + h * P) by ring.
  rewrite Z.mod_add by lia. rewrite Z.mod_small by lia.
  rewrite Z.div_add by lia. rewrite Z.div_small by lia. rewrite Z.add_0_l. ring.
Qed.

Lemma mod_mod_pow2 x a b : 0 <= a <= b -> (x mod 2 ^ b) mod 2 ^ a = x mod 2 ^ a.
Proof.
  intros H. symmetry. apply Zmod_div_mod; try (apply Z.pow_pos_nonneg; lia).
  exists (2 ^ (b - a)). rewrite <- Z.pow_add_r by lia. f_equal. lia.
Qed.

(* the last k bytes of a byte string *)
Lemma val_skipn_mod l k : bytes_ok l -> (k <= length l)%nat ->
  val (skipn (length l - k) l) = val l mod 256 ^ Z.of_nat k.
Proof.
  intros Hl Hk. pose proof (val_firstn_skipn (length l - k) l) as E0.
  assert (zlen (skipn (length l - k) l) = Z.of_nat k) as E by (unfold zlen; rewrite skipn_length; lia).
  rewrite E in E0. rewrite E0. rewrite Z.add_comm, Z.mod_add by (apply Z.pow_nonzero; lia).
  symmetry. apply Z.mod_small. rewrite <- E. apply val_bound, bytes_ok_skipn, Hl.
Qed.

(* the first k bytes *)
Lemma val_firstn_div l k : bytes_ok l -> (k <= length l)%nat ->
  val (firstn k l) = val l / 256 ^ Z.of_nat (length l - k).
Proof.
  intros Hl Hk. pose proof (val_firstn_skipn k l) as E0.
  assert (zlen (skipn k l) = Z.of_nat (length l - k)) as E by (unfold zlen; rewrite skipn_length; lia).
  rewrite E in E0. rewrite E0. rewrite Z.div_add_l by (apply Z.pow_nonzero; lia).
  rewrite Z.div_small; [lia|]. rewrite <- E. apply val_bound, bytes_ok_skipn, Hl.
Qed.
