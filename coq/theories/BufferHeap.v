(* BufferHeap.v -- the Buffer class of microschc/binary/buffer.py as a class of MUTABLE OBJECTS.
   Buffer.v models each method as a function from values to values; Python objects are not values:
   a method may assign attributes of self, of an argument, or of an object it created, and may return
   one of its operands instead of a new object.  This file writes every method once more, statement by
   statement as far as objects are concerned: a heap of Buffer objects (an object is identified by its
   index; the constructor appends), attribute reads, attribute assignments, constructor calls and the
   method calls between them exactly where the Python code has them -- self.copy(), Buffer(...),
   right = right.pad(Padding.LEFT, inplace=False), buffer = self if inplace else self.copy(),
   self.content = ..., return self / return buffer.  The byte computations between two object
   operations are the ones of Buffer.v (shl_stream_or, shr_pairs, b_new ...), reused, not rewritten.
   An exception keeps the heap as it is at the raise (hm returns the heap in every case).
   Definitions only; the theorems (frame, aliasing, agreement with Buffer.v) are in BufferHeapSpec.v.
   Used for property C16 (operations are pure: inputs never modified). *)
From Coq Require Import ZArith List Bool.
From MS Require Import PyBase Buffer.
Import ListNotations.
Open Scope Z_scope.

Definition oref := nat.
Definition heap := list buf.

(* computations on the heap: the heap survives an exception *)
Definition hm (A : Type) := heap -> res A * heap.
Definition hret {A} (a : A) : hm A := fun h => (Ok a, h).
Definition hlift {A} (r : res A) : hm A := fun h => (r, h).
Definition hbind {A B} (m : hm A) (f : A -> hm B) : hm B :=
  fun h => let '(r, h') := m h in
           match r with Ok a => f a h' | Exc e => (Exc e, h') | Diverge => (Diverge, h') end.
Notation "'hdo' x <- m ;; k" := (hbind m (fun x => k)) (at level 200, x pattern, m at level 100, k at level 200).

(* attribute access: the model never reads a reference it did not obtain from the heap; a dangling
   one is Unmodelled (proved impossible for well-scoped programs) *)
Definition hget (r : oref) : hm buf :=
  fun h => (match nth_error h r with Some b => Ok b | None => Exc Unmodelled end, h).
Fixpoint upd (h : heap) (r : oref) (b : buf) : heap :=
  match h, r with
  | [], _ => []
  | _ :: t, O => b :: t
  | x :: t, S r' => x :: upd t r' b
  end.
(* assignment of (some of) the four attributes of object r: the new record is given whole, the caller
   keeps the attributes the Python statement does not assign *)
Definition hset (r : oref) (b : buf) : hm unit := fun h => (Ok tt, upd h r b).
(* object creation: the new object's index is the size of the heap *)
Definition halloc (b : buf) : hm oref := fun h => (Ok (length h), h ++ [b]).

(* Buffer(content, length, padding): __init__ computes the four attributes (b_new) and assigns them to a new object *)
Definition h_new (c : list Z) (n : Z) (sd : side) : hm oref := hdo v <- hlift (b_new c n sd) ;; halloc v.

(* copy(): return Buffer(content=self.content, length=self.length, padding=self.padding) *)
Definition h_copy (r : oref) : hm oref := hdo b <- hget r ;; h_new (content b) (blen b) (bside b).

(* _shift_left / _shift_right: compute, then self.content = ...; self.length = ...; self._update_padding(); return self.
   Every raise of the computation precedes the first assignment. *)
Definition h_shift_left (r : oref) (shift : Z) : hm oref :=
  hdo b <- hget r ;; hdo v <- hlift (b_shift_left b shift) ;; hdo _ <- hset r v ;; hret r.
Definition h_shift_right (r : oref) (shift : Z) : hm oref :=
  hdo b <- hget r ;; hdo v <- hlift (b_shift_right b shift) ;; hdo _ <- hset r v ;; hret r.

(* shift(shift, inplace) *)
Definition h_shift (r : oref) (shift : Z) (inplace : bool) : hm oref :=
  if shift =? 0 then (if inplace then hret r else h_copy r)
  else
    hdo w <- (if inplace then hret r else h_copy r) ;;
    if shift <? 0 then h_shift_left w (Z.abs shift) else h_shift_right w shift.

(* pad(padding, inplace) *)
Definition h_pad (r : oref) (padding : side) (inplace : bool) : hm oref :=
  hdo b <- hget r ;;
  if inplace && side_eqb padding (bside b) then hret r
  else if negb inplace && side_eqb padding (bside b) then h_new (content b) (blen b) (bside b)
  else
    hdo cp <- h_copy r ;;                                   (* self_copy = self.copy() *)
    let pl := bpl b in                                      (* padding_length = self.padding_length *)
    hdo sv <- (match padding with
               | RIGHT => hret (- pl)
               | LEFT =>                                    (* self_copy.padding = padding; self_copy.length += shift_value *)
                 hdo c <- hget cp ;;
                 hdo _ <- hset cp (mkbuf (content c) (blen c + pl) LEFT (bpl c)) ;;
                 hret pl
               end) ;;
    hdo buffer <- h_shift cp sv true ;;                     (* buffer = self_copy.shift(shift=shift_value, inplace=True) *)
    hdo bb <- hget buffer ;;
    hdo s <- hget r ;;
    hdo _ <- hset buffer (mkbuf (content bb) (blen s) padding pl) ;;   (* buffer.length = self.length; .padding; .padding_length *)
    hdo _ <- (if inplace then
                hdo b2 <- hget buffer ;;
                hdo s2 <- hget r ;;
                hset r (mkbuf (content b2) (blen b2) (bside b2) (bpl s2))   (* self.content / length / padding; padding_length kept *)
              else hret tt) ;;
    hret buffer.                                            (* return buffer: a new object even when inplace *)

(* value(): buffer = self.pad(LEFT, inplace=False) when right padded, else self; the rest reads buffer *)
Definition h_value (r : oref) : hm Z :=
  hdo b <- hget r ;;
  hdo w <- (match bside b with RIGHT => h_pad r LEFT false | LEFT => hret r end) ;;
  hdo wb <- hget w ;;
  let mask := Z.land (Z.shiftr 255 (bpl wb)) 255 in
  hdo c <- hlift (if 0 <? blen wb then
                    do b0 <- py_index (content wb) 0 ;;
                    do fb <- to_byte (Z.land b0 mask) ;;
                    Ok (fb :: py_slice (content wb) (Some 1) None)
                  else Ok []) ;;
  hret (val c).

(* __getitem__: reads self, returns Buffer(...) *)
Definition h_getitem_bits (r : oref) (start_bit stop_bit : Z) : hm oref :=
  hdo b <- hget r ;; hdo v <- hlift (b_getitem_bits b start_bit stop_bit) ;; halloc v.
Definition h_getitem (r : oref) (start stop : option Z) : hm oref :=
  hdo b <- hget r ;; let '(s, e) := slice_indices (blen b) start stop in h_getitem_bits r s e.
Definition h_getitem_int (r : oref) (i : Z) : hm oref := h_getitem_bits r i (i + 1).

(* __add__: left = self; right = other, rebound to right.pad(..., inplace=False) in two branches *)
Definition h_add (l r : oref) : hm oref :=
  hdo lb <- hget l ;; hdo rb <- hget r ;;
  if blen rb =? 0 then h_copy l
  else
    let new_length := blen lb + blen rb in
    hdo nc <-
      (match bside lb with
       | LEFT =>
         if bpl rb =? 0 then hret (content lb ++ content rb)
         else
           hdo r' <- h_pad r LEFT false ;;
           hdo rb' <- hget r' ;;
           hdo lb <- hget l ;;            (* left.content is read after the call (left may be the same object as other) *)
           hlift (let bs := bpl rb' in
                  let '(out, carry) := shr_stream bs 0 (content lb) in
                  do out <- check_bytes out ;;
                  do r0 <- py_index (content rb') 0 ;;
                  do m <- to_byte (r0 + carry) ;;
                  let nc := out ++ [m] ++ py_slice (content rb') (Some 1) None in
                  if 7 <? bpl lb + bs then Ok (py_slice nc (Some 1) None) else Ok nc)
       | RIGHT =>
         if bpl lb =? 0 then
           (if (bpl rb =? 0) || side_eqb (bside rb) RIGHT then hret (content lb ++ content rb)
            else hdo r' <- h_pad r RIGHT false ;; hdo rb' <- hget r' ;; hdo lb <- hget l ;; hret (content lb ++ content rb'))
         else
           hlift (match bside rb with
                  | LEFT =>
                    if bpl lb + bpl rb =? 8 then merge_last_first (content lb) (content rb)
                    else if blen lb mod 8 <? bpl rb then
                      let bs := bpl rb - blen lb mod 8 in
                      let '(nc, _) := shl_stream_rev bs 0 (rev (content rb)) [] in
                      do nc <- check_bytes nc ;;
                      merge_last_first (content lb) nc
                    else
                      let bs := 8 - bpl lb - bpl rb in
                      let '(nc, carry) := shr_stream bs 0 (content rb) in
                      do nc <- check_bytes nc ;;
                      do m <- merge_last_first (content lb) nc ;;
                      do cb <- to_byte carry ;;
                      Ok (m ++ [cb])
                  | RIGHT =>
                    let bs := 8 - bpl lb in
                    let '(nc, carry) := shr_stream bs 0 (content rb) in
                    do nc <- check_bytes nc ;;
                    do m <- merge_last_first (content lb) nc ;;
                    do cb <- to_byte carry ;;
                    Ok (m ++ [cb])
                  end)
       end) ;;
    hdo lb <- hget l ;;
    h_new nc new_length (bside lb).

(* __and__ / __or__ / __xor__: another rebound to another.pad(self.padding, inplace=False) when the sides differ *)
Definition h_bitwise (f : Z -> Z -> Z) (a b : oref) : hm oref :=
  hdo ab <- hget a ;; hdo bb <- hget b ;;
  if negb (blen ab =? blen bb) then hlift (Exc ValueError)
  else
    hdo b' <- (if negb (side_eqb (bside bb) (bside ab)) then h_pad b (bside ab) false else hret b) ;;
    hdo ab <- hget a ;; hdo bb' <- hget b' ;;
    hdo c <- hlift (check_bytes (zip_with f (content ab) (content bb'))) ;;
    h_new c (blen ab) (bside ab).
Definition h_and := h_bitwise Z.land.
Definition h_or := h_bitwise Z.lor.
Definition h_xor := h_bitwise Z.lxor.

(* __invert__ *)
Definition h_invert (r : oref) : hm oref :=
  hdo b <- hget r ;;
  if blen b =? 0 then h_copy r
  else
    hdo c <- hlift (match bside b with
                    | LEFT =>
                      let mask := Z.shiftl 1 ((8 - bpl b) mod 8) - 1 in
                      do b0 <- py_index (content b) 0 ;;
                      do f <- to_byte (Z.land (Z.lnot b0) mask) ;;
                      Ok (f :: map inv_byte (content b))
                    | RIGHT =>
                      let mask := Z.land (Z.shiftl 255 (bpl b)) 255 in
                      let n := zlen (content b) in
                      do bl <- py_index (content b) (n - 1) ;;
                      do l <- to_byte (Z.land (Z.lnot bl) mask) ;;
                      Ok (map inv_byte (py_slice (content b) None (Some (n - 1))) ++ [l])
                    end) ;;
    h_new c (blen b) (bside b).

(* __setitem__: prefix = self[0:start]; postfix = self[stop:]; new_buffer = prefix + values + postfix;
   self.content / length / padding_length assigned; return self.  values may be self. *)
Definition h_setitem_bits (r : oref) (start_bit stop_bit : Z) (v : oref) : hm oref :=
  hdo prefix <- h_getitem r (Some 0) (Some start_bit) ;;
  hdo postfix <- h_getitem r (Some stop_bit) None ;;
  hdo pv <- h_add prefix v ;;
  hdo nb <- h_add pv postfix ;;
  hdo n <- hget nb ;; hdo s <- hget r ;;
  hdo _ <- hset r (mkbuf (content n) (blen n) (bside s) (bpl n)) ;;
  hret r.
Definition h_setitem (r : oref) (start stop : option Z) (v : oref) : hm oref :=
  hdo b <- hget r ;; let '(s, e) := slice_indices (blen b) start stop in h_setitem_bits r s e v.
Definition h_setitem_int (r : oref) (i : Z) (v : oref) : hm oref := h_setitem_bits r i (i + 1) v.

(* chunks(length, padding): the generator run to its end; every chunk is self[cursor:cursor+length], the last one
   possibly chunk + pad (chunk += pad rebinds the name: a new object) *)
Fixpoint h_chunks_loop (r : oref) (n : Z) (cursor : Z) (k : nat) : hm (list oref * Z) :=
  match k with
  | O => hret ([], cursor)
  | S k' =>
    hdo c <- h_getitem r (Some cursor) (Some (cursor + n)) ;;
    hdo rest <- h_chunks_loop r n (cursor + n) k' ;;
    hret (c :: fst rest, snd rest)
  end.
Definition h_chunks (r : oref) (n : Z) (padding : bool) : hm (list oref) :=
  hdo b <- hget r ;;
  if n =? 0 then hlift (Exc ZeroDivisionError)
  else if n <? 0 then hlift (Exc Unmodelled)
  else
    let count := if blen b mod n =? 0 then blen b / n else blen b / n + 1 in
    hdo pre <- h_chunks_loop r n 0 (Z.to_nat (count - 1)) ;;
    let '(cs, cursor) := pre in
    hdo chunk <- h_getitem r (Some cursor) (Some (cursor + n)) ;;
    hdo cb <- hget chunk ;;
    hdo last <- (if padding && (blen cb <? n) then
                   let pad_content := zeros (if n mod 8 =? 0 then n / 8 else n / 8 + 1) in
                   hdo p <- h_new pad_content (n - blen cb) RIGHT ;;
                   h_add chunk p
                 else hret chunk) ;;
    hret (cs ++ [last]).

(* __eq__ (Buffer operand) and __hash__ *)
Definition h_eq (a b : oref) : hm bool :=
  hdo ab <- hget a ;; hdo bb <- hget b ;;
  if negb (blen ab =? blen bb) then hret false
  else hdo b' <- h_pad b (bside ab) false ;; hdo ab <- hget a ;; hdo bb' <- hget b' ;; hret (bytes_eqb (content ab) (content bb')).
Definition h_hash_key (a : oref) : hm (list Z) := hdo a' <- h_pad a LEFT false ;; hdo ab' <- hget a' ;; hret (content ab').

(* __iter__ run to its end, __len__: attribute reads only *)
Definition h_iter (r : oref) : hm (list Z) := hdo b <- hget r ;; hlift (b_iter b).
Definition h_len (r : oref) : hm Z := hdo b <- hget r ;; hret (blen b).

(* ---- programs: what the correspondence check runs ------------------------------------------- *)
Inductive hop :=
| HNew (c : list Z) (n : Z) (sd : side)
| HCopy (r : oref) | HShift (r : oref) (s : Z) (inplace : bool) | HPad (r : oref) (sd : side) (inplace : bool)
| HValue (r : oref) | HGetitem (r : oref) (s e : option Z) | HGetint (r : oref) (i : Z)
| HAdd (l r : oref) | HAnd (l r : oref) | HOr (l r : oref) | HXor (l r : oref) | HInvert (r : oref)
| HSetitem (r : oref) (s e : option Z) (v : oref) | HSetint (r : oref) (i : Z) (v : oref)
| HChunks (r : oref) (n : Z) (padding : bool) | HEq (a b : oref) | HHash (r : oref) | HIter (r : oref) | HLen (r : oref).

(* what a step returns to the caller: references (to be compared by identity with the objects the caller holds) or plain values *)
Inductive hout := ORef (r : oref) | ORefs (l : list oref) | OInt (z : Z) | OBool (b : bool) | OBytes (l : list Z).

Definition hstep (o : hop) : hm hout :=
  match o with
  | HNew c n sd => hdo r <- h_new c n sd ;; hret (ORef r)
  | HCopy r => hdo x <- h_copy r ;; hret (ORef x)
  | HShift r s ip => hdo x <- h_shift r s ip ;; hret (ORef x)
  | HPad r sd ip => hdo x <- h_pad r sd ip ;; hret (ORef x)
  | HValue r => hdo z <- h_value r ;; hret (OInt z)
  | HGetitem r s e => hdo x <- h_getitem r s e ;; hret (ORef x)
  | HGetint r i => hdo x <- h_getitem_int r i ;; hret (ORef x)
  | HAdd l r => hdo x <- h_add l r ;; hret (ORef x)
  | HAnd l r => hdo x <- h_and l r ;; hret (ORef x)
  | HOr l r => hdo x <- h_or l r ;; hret (ORef x)
  | HXor l r => hdo x <- h_xor l r ;; hret (ORef x)
  | HInvert r => hdo x <- h_invert r ;; hret (ORef x)
  | HSetitem r s e v => hdo x <- h_setitem r s e v ;; hret (ORef x)
  | HSetint r i v => hdo x <- h_setitem_int r i v ;; hret (ORef x)
  | HChunks r n p => hdo l <- h_chunks r n p ;; hret (ORefs l)
  | HEq a b => hdo x <- h_eq a b ;; hret (OBool x)
  | HHash r => hdo k <- h_hash_key r ;; hret (OBytes k)
  | HIter r => hdo l <- h_iter r ;; hret (OBytes l)
  | HLen r => hdo z <- h_len r ;; hret (OInt z)
  end.

(* a program from a heap: the outcome of every step and the heap after it (an exception does not stop the caller) *)
Fixpoint hrun (ops : list hop) (h : heap) : list (res hout * heap) :=
  match ops with
  | [] => []
  | o :: rest => let '(r, h') := hstep o h in (r, h') :: hrun rest h'
  end.

(* the operations that are not explicitly in place: everything but shift / pad with inplace=True and item assignment *)
Definition hop_pure (o : hop) : bool :=
  match o with
  | HShift _ _ true | HPad _ _ true | HSetitem _ _ _ _ | HSetint _ _ _ => false
  | _ => true
  end.
(* the receiver of an in-place operation *)
Definition hop_receiver (o : hop) : option oref :=
  match o with
  | HShift r _ true | HPad r _ true | HSetitem r _ _ _ | HSetint r _ _ => Some r
  | _ => None
  end.
