(* Buffer OBJECTS against bit sequences: the statements of C05 / C06 / C13 (BufferSpec.v: methods on VALUES are list operations on
   `abs`) carried to the heap model of BufferHeap.v through the refinement theorems of BufferHeapSpec.v.  For every heap, every pair
   of references in it -- the operands may be the SAME object --: the method returns (a reference to) an object whose bits are the
   list operation on the operands' bits, and says what happened to the objects that were there. *)
From Coq Require Import ZArith List Bool Lia Arith.
From MS Require Import PyBase Buffer Bits ByteFacts BufferAbs Schc Compute BufferSpec BufferHeap BufferHeapSpec.
Import ListNotations.
Open Scope Z_scope.

(* == : bit equality of the two objects, no object touched (a padded copy may be allocated) *)
Theorem obj_eq a b h ab bb : nth_error h a = Some ab -> nth_error h b = Some bb -> canon ab -> canon bb ->
  fst (h_eq a b h) = Ok (bits_eqb (abs ab) (abs bb)) /\ extends h (snd (h_eq a b h)).
Proof.
  intros Ea Eb Ca Cb. destruct (h_eq_refines a b h ab bb Ea Eb) as [E X]. split; [|exact X].
  rewrite E. apply eq_bits; assumption.
Qed.

(* hash: objects with the same bits have the same hash key, on either padding side *)
Theorem obj_hash a b h ab bb : nth_error h a = Some ab -> nth_error h b = Some bb -> canon ab -> canon bb -> abs ab = abs bb ->
  exists k, fst (h_hash_key a h) = Ok k /\ fst (h_hash_key b h) = Ok k /\
            extends h (snd (h_hash_key a h)) /\ extends h (snd (h_hash_key b h)).
Proof.
  intros Ea Eb Ca Cb E. destruct (hash_bits ab bb Ca Cb E) as (k & Ka & Kb).
  destruct (h_hash_key_refines a h ab Ea) as [Ra Xa]. destruct (h_hash_key_refines b h bb Eb) as [Rb Xb].
  exists k. rewrite Ra, Rb. auto.
Qed.

(* slicing: a NEW object (the next free id) holding the slice; every object that was there is as it was *)
Theorem obj_getitem r s e h b : nth_error h r = Some b -> canon b -> 0 <= s <= e ->
  exists v, h_getitem r (Some s) (Some e) h = (Ok (length h), h ++ [v]) /\ canon v /\ bside v = bside b /\
            abs v = firstn (Z.to_nat (e - s)) (skipn (Z.to_nat s) (abs b)).
Proof.
  intros Er C R. destruct (getitem_bits b s e C R) as (v & Ev & Cv & Sv & Av).
  pose proof (h_getitem_refines r (Some s) (Some e) h b Er) as H.
  destruct (h_getitem r (Some s) (Some e) h) as [[x|x|] h']; rewrite Ev in H.
  - destruct H as (w & Ew & _ & -> & ->). injection Ew as <-. exists v. auto.
  - destruct H as [H _]. discriminate H.
  - destruct H as [H _]. discriminate H.
Qed.

(* concatenation: the result holds left bits ++ right bits; the operands (possibly one object) and all others are unchanged *)
Theorem obj_add l r h lb rb : nth_error h l = Some lb -> nth_error h r = Some rb -> canon lb -> canon rb ->
  exists x v h', h_add l r h = (Ok x, h') /\ extends h h' /\ nth_error h' x = Some v /\ canon v /\ bside v = bside lb /\
                 abs v = abs lb ++ abs rb.
Proof.
  intros El Er Cl Cr. destruct (add_bits lb rb Cl Cr) as (v & Ev & Cv & Sv & Av).
  pose proof (h_add_full l r lb rb h El Er) as H. unfold ref_refines in H.
  destruct (h_add l r h) as [[x|x|] h']; rewrite Ev in H.
  - destruct H as (X & w & Ew & Nw). injection Ew as <-. exists x, v, h'. auto 8.
  - destruct H as [_ H]. discriminate H.
  - destruct H as [_ H]. discriminate H.
Qed.

(* and / or / xor on objects of equal length (the same object twice included) *)
Lemma obj_bitwise f g a b h ab bb :
  (forall x y, canon x -> canon y -> blen x = blen y ->
     exists v, b_bitwise f x y = Ok v /\ canon v /\ bside v = bside x /\ abs v = map2 g (abs x) (abs y)) ->
  nth_error h a = Some ab -> nth_error h b = Some bb -> canon ab -> canon bb -> blen ab = blen bb ->
  exists x v h', h_bitwise f a b h = (Ok x, h') /\ extends h h' /\ nth_error h' x = Some v /\ canon v /\ bside v = bside ab /\
                 abs v = map2 g (abs ab) (abs bb).
Proof.
  intros S Ea Eb Ca Cb L. destruct (S ab bb Ca Cb L) as (v & Ev & Cv & Sv & Av).
  pose proof (h_bitwise_full f a b ab bb h Ea Eb) as H. unfold ref_refines in H.
  destruct (h_bitwise f a b h) as [[x|x|] h']; rewrite Ev in H.
  - destruct H as (X & w & Ew & Nw). injection Ew as <-. exists x, v, h'. auto 8.
  - destruct H as [_ H]. discriminate H.
  - destruct H as [_ H]. discriminate H.
Qed.

Theorem obj_and a b h ab bb : nth_error h a = Some ab -> nth_error h b = Some bb -> canon ab -> canon bb -> blen ab = blen bb ->
  exists x v h', h_and a b h = (Ok x, h') /\ extends h h' /\ nth_error h' x = Some v /\ canon v /\ bside v = bside ab /\
                 abs v = map2 andb (abs ab) (abs bb).
Proof. apply obj_bitwise. exact and_bits. Qed.
Theorem obj_or a b h ab bb : nth_error h a = Some ab -> nth_error h b = Some bb -> canon ab -> canon bb -> blen ab = blen bb ->
  exists x v h', h_or a b h = (Ok x, h') /\ extends h h' /\ nth_error h' x = Some v /\ canon v /\ bside v = bside ab /\
                 abs v = map2 orb (abs ab) (abs bb).
Proof. apply obj_bitwise. exact or_bits. Qed.
Theorem obj_xor a b h ab bb : nth_error h a = Some ab -> nth_error h b = Some bb -> canon ab -> canon bb -> blen ab = blen bb ->
  exists x v h', h_xor a b h = (Ok x, h') /\ extends h h' /\ nth_error h' x = Some v /\ canon v /\ bside v = bside ab /\
                 abs v = map2 xorb (abs ab) (abs bb).
Proof. apply obj_bitwise. exact xor_bits. Qed.

(* shifts: not in place, a NEW object holds the shifted bits and the heap is otherwise the same; in place, the receiver holds them
   afterwards, is the object returned, and no other object changed *)
Theorem obj_shift_left r s ip h b : nth_error h r = Some b -> canon b -> 0 <= s ->
  exists v, canon v /\ bside v = bside b /\ abs v = abs b ++ repeat false (Z.to_nat s) /\
            h_shift r (- s) ip h = (if ip then (Ok r, upd h r v) else (Ok (length h), h ++ [v])).
Proof.
  intros Er C S. destruct (shift_left_bits b s ip C S) as (v & Ev & Cv & Sv & Av).
  pose proof (h_shift_refines r (- s) ip h b Er) as H.
  destruct (h_shift r (- s) ip h) as [[x|x|] h']; rewrite Ev in H.
  - destruct H as (w & Ew & _ & T). injection Ew as <-. exists v. split; [exact Cv|]. split; [exact Sv|]. split; [exact Av|].
    destruct ip; destruct T as [-> ->]; reflexivity.
  - destruct H as [H _]. discriminate H.
  - destruct H as [H _]. discriminate H.
Qed.

Theorem obj_shift_right r s ip h b : nth_error h r = Some b -> canon b -> 0 <= s ->
  exists v, canon v /\ bside v = bside b /\ abs v = firstn (Z.to_nat (blen b - s)) (abs b) /\
            h_shift r s ip h = (if ip then (Ok r, upd h r v) else (Ok (length h), h ++ [v])).
Proof.
  intros Er C S. destruct (shift_right_bits b s ip C S) as (v & Ev & Cv & Sv & Av).
  pose proof (h_shift_refines r s ip h b Er) as H.
  destruct (h_shift r s ip h) as [[x|x|] h']; rewrite Ev in H.
  - destruct H as (w & Ew & _ & T). injection Ew as <-. exists v. split; [exact Cv|]. split; [exact Sv|]. split; [exact Av|].
    destruct ip; destruct T as [-> ->]; reflexivity.
  - destruct H as [H _]. discriminate H.
  - destruct H as [H _]. discriminate H.
Qed.

(* slice assignment: the receiver afterwards holds prefix ++ value bits ++ suffix -- also when the value IS the receiver *)
Theorem obj_setitem r s e v h b vb : nth_error h r = Some b -> nth_error h v = Some vb -> canon b -> canon vb ->
  0 <= s <= e -> e <= blen b ->
  exists w h', h_setitem r (Some s) (Some e) v h = (Ok r, h') /\ nth_error h' r = Some w /\ canon w /\ bside w = bside b /\
               abs w = firstn (Z.to_nat s) (abs b) ++ abs vb ++ skipn (Z.to_nat e) (abs b).
Proof.
  intros Er Ev C Cv R L. destruct (setitem_bits b s e vb C Cv R L) as (w & Ew & Cw & Sw & Aw).
  pose proof (h_setitem_refines r (Some s) (Some e) v h b vb Er Ev) as H.
  destruct (h_setitem r (Some s) (Some e) v h) as [[x|x|] h']; rewrite Ew in H.
  - destruct H as (-> & w' & E' & N). injection E' as <-. exists w, h'. auto 8.
  - discriminate H.
  - discriminate H.
Qed.

(* ~ : a new object with every bit flipped; value(): the integer the bits spell, no object touched; chunks(): new objects, one per piece *)
Theorem obj_invert r h b : nth_error h r = Some b -> canon b ->
  exists x v h', h_invert r h = (Ok x, h') /\ nth_error h' x = Some v /\ canon v /\ bside v = bside b /\ abs v = map negb (abs b).
Proof.
  intros Er C. destruct (invert_bits b C) as (v & Ev & Cv & Sv & Av).
  pose proof (h_invert_refines h r b Er) as H.
  destruct (h_invert r h) as [[x|x|] h']; rewrite Ev in H.
  - destruct H as (w & Ew & Nw). injection Ew as <-. exists x, v, h'. auto.
  - discriminate H.
  - discriminate H.
Qed.

Theorem obj_value r h b : nth_error h r = Some b -> canon b ->
  fst (h_value r h) = Ok (Z_of_bits (abs b)) /\ extends h (snd (h_value r h)).
Proof.
  intros Er C. destruct (h_value_refines r h b Er) as [E X]. split; [|exact X]. rewrite E. apply value_bits. exact C.
Qed.

Theorem obj_chunks r n p h b : nth_error h r = Some b -> canon b -> 0 < n ->
  exists l vs h', h_chunks r n p h = (Ok l, h') /\ extends h h' /\ Forall2 (fun x v => nth_error h' x = Some v) l vs /\
                  Forall canon vs /\ map abs vs = Compute.chunks (Z.to_nat n) p (abs b).
Proof.
  intros Er C N. destruct (chunks_bits b n p C N) as (vs & Ev & Cv & Av).
  pose proof (h_chunks_refines r n p h b Er) as H.
  destruct (h_chunks r n p h) as [[l|x|] h']; rewrite Ev in H.
  - destruct H as (X & ws & Ew & F). injection Ew as <-. exists l, vs, h'. auto 6.
  - destruct H as [_ H]. discriminate H.
  - destruct H as [_ H]. discriminate H.
Qed.

(* copy(): the next free object, equal to the original; single-bit indexing: a new one-bit object; single-bit assignment: the receiver *)
Theorem obj_copy r h b : nth_error h r = Some b -> canon b -> h_copy r h = (Ok (length h), h ++ [b]).
Proof.
  intros Er C. pose proof (h_copy_refines r h b Er) as H. rewrite (copy_bits b C) in H.
  destruct (h_copy r h) as [[x|x|] h'].
  - destruct H as (w & Ew & _ & -> & ->). injection Ew as <-. reflexivity.
  - destruct H as [H _]. discriminate H.
  - destruct H as [H _]. discriminate H.
Qed.

Theorem obj_index r i h b : nth_error h r = Some b -> canon b -> 0 <= i < blen b ->
  exists v, h_getitem_int r i h = (Ok (length h), h ++ [v]) /\ canon v /\ bside v = bside b /\
            abs v = [nth (Z.to_nat i) (abs b) false].
Proof.
  intros Er C R. destruct (getint_bits b i C R) as (v & Ev & Cv & Sv & Av).
  pose proof (h_getitem_int_refines r i h b Er) as H.
  destruct (h_getitem_int r i h) as [[x|x|] h']; rewrite Ev in H.
  - destruct H as (w & Ew & _ & -> & ->). injection Ew as <-. exists v. auto.
  - destruct H as [H _]. discriminate H.
  - destruct H as [H _]. discriminate H.
Qed.

Theorem obj_setint r i v h b vb : nth_error h r = Some b -> nth_error h v = Some vb -> canon b -> canon vb -> 0 <= i < blen b ->
  exists w h', h_setitem_int r i v h = (Ok r, h') /\ nth_error h' r = Some w /\ canon w /\ bside w = bside b /\
               abs w = firstn (Z.to_nat i) (abs b) ++ abs vb ++ skipn (Z.to_nat (i + 1)) (abs b).
Proof.
  intros Er Ev C Cv R. destruct (setint_bits b i vb C Cv R) as (w & Ew & Cw & Sw & Aw).
  pose proof (h_setitem_int_refines r i v h b vb Er Ev) as H.
  destruct (h_setitem_int r i v h) as [[x|x|] h']; rewrite Ew in H.
  - destruct H as (-> & w' & E' & N). injection E' as <-. exists w, h'. auto 8.
  - discriminate H.
  - discriminate H.
Qed.

(* pad(): not in place a new object on the requested side with the same bits, the heap otherwise as it was *)
Theorem obj_pad_copy r sd h b : nth_error h r = Some b -> canon b ->
  exists v, h_pad r sd false h = (Ok (length h), h ++ [v]) /\ canon v /\ bside v = sd /\ abs v = abs b.
Proof.
  intros Er C. destruct (pad_bits b sd false C) as (v & Ev & Cv & Sv & Av).
  pose proof (h_pad_refines r sd false h b Er) as H.
  destruct (h_pad r sd false h) as [[x|x|] h']; rewrite Ev in H.
  - destruct H as (w & Ew & _ & -> & ->). injection Ew as <-. exists v. auto.
  - destruct H as [H _]. discriminate H.
  - destruct H as [H _]. discriminate H.
Qed.

(* non-vacuity: one object used as both operands of + and of ^; an in-place shift of object 0 leaves object 1 alone *)
Example obj_ex :
  let h := [mkbuf [160] 3 RIGHT 5; mkbuf [5] 3 LEFT 5] in
  h_add 0%nat 0%nat h = (Ok 2%nat, h ++ [mkbuf [180] 6 RIGHT 2]) /\
  fst (h_eq 0%nat 1%nat h) = Ok true /\
  snd (h_shift 0%nat (-2) true h) = [mkbuf [160] 5 RIGHT 3; mkbuf [5] 3 LEFT 5].
Proof. vm_compute. repeat split; reflexivity. Qed.
