(* BufferHeapSpec.v -- theorems about the heap-level model of the Buffer class (BufferHeap.v):
   A. frame of the operations that are not in place (every outcome, exceptions included),
   B. in-place operations change at most their receiver,
   C. aliasing of results (fresh / receiver; pad in place returns a NEW object when the side differs),
   D. agreement with the value-level model Buffer.v, method by method, aliasing of operands included,
   E. programs (hrun).
   Used for property C16. *)
From Coq Require Import ZArith List Bool Lia Arith.
From MS Require Import PyBase Buffer BufferHeap.
Import ListNotations.
Open Scope Z_scope.

(* ================================================================================================ *)
(* 0. lists, upd, extends                                                                           *)
(* ================================================================================================ *)

Definition extends (h h' : heap) : Prop := exists ext, h' = h ++ ext.

Lemma extends_refl h : extends h h.
Proof. exists []. now rewrite app_nil_r. Qed.
Lemma extends_trans h1 h2 h3 : extends h1 h2 -> extends h2 h3 -> extends h1 h3.
Proof. intros [a ->] [b ->]. exists (a ++ b). now rewrite app_assoc. Qed.
Lemma extends_app h e : extends h (h ++ e).
Proof. now exists e. Qed.
Lemma extends_length h h' : extends h h' -> (length h <= length h')%nat.
Proof. intros [e ->]. rewrite app_length. lia. Qed.
Lemma extends_nth h h' x : extends h h' -> (x < length h)%nat -> nth_error h' x = nth_error h x.
Proof. intros [e ->] H. now apply nth_error_app1. Qed.
Lemma extends_nth_some h h' x (b : buf) : extends h h' -> nth_error h x = Some b -> nth_error h' x = Some b.
Proof.
  intros E H. rewrite (extends_nth _ _ _ E); auto. apply nth_error_Some. congruence.
Qed.

Lemma nth_some_lt (h : heap) x b : nth_error h x = Some b -> (x < length h)%nat.
Proof. intro H. apply nth_error_Some. congruence. Qed.

Lemma upd_length h : forall r b, length (upd h r b) = length h.
Proof. induction h; intros [|r] b; simpl; auto. Qed.
Lemma upd_nth_same h : forall r b, (r < length h)%nat -> nth_error (upd h r b) r = Some b.
Proof. induction h; intros [|r] b H; simpl in *; try lia; auto. apply IHh; lia. Qed.
Lemma upd_nth_other h : forall r b x, x <> r -> nth_error (upd h r b) x = nth_error h x.
Proof. induction h; intros [|r] b [|x] H; simpl; auto; congruence. Qed.
Lemma upd_oob h : forall r b, (length h <= r)%nat -> upd h r b = h.
Proof. induction h; intros [|r] b H; simpl in *; auto; try lia. f_equal. apply IHh. lia. Qed.
Lemma upd_same h : forall r b, nth_error h r = Some b -> upd h r b = h.
Proof. induction h; intros [|r] b H; simpl in *; auto; try congruence. f_equal. auto. Qed.
Lemma upd_upd h : forall r a b, upd (upd h r a) r b = upd h r b.
Proof. induction h; intros [|r] x y; simpl; auto. f_equal. auto. Qed.
Lemma upd_app_r h : forall ext k v, upd (h ++ ext) (length h + k)%nat v = h ++ upd ext k v.
Proof. induction h; intros; simpl; auto. f_equal. apply IHh. Qed.
Lemma upd_app_l h : forall ext r v, (r < length h)%nat -> upd (h ++ ext) r v = upd h r v ++ ext.
Proof. induction h; intros ext [|r] v H; simpl in *; try lia; auto. f_equal. apply IHh. lia. Qed.

Lemma nth_snoc_last (h : heap) v : nth_error (h ++ [v]) (length h) = Some v.
Proof. rewrite nth_error_app2 by lia. now rewrite Nat.sub_diag. Qed.
Lemma nth_snoc_old (h : heap) v r b : nth_error h r = Some b -> nth_error (h ++ [v]) r = Some b.
Proof. intro H. rewrite nth_error_app1; auto. eapply nth_some_lt; eauto. Qed.
Lemma upd_snoc_last (h : heap) v w : upd (h ++ [v]) (length h) w = h ++ [w].
Proof. replace (length h) with (length h + 0)%nat by lia. now rewrite upd_app_r. Qed.
Lemma upd_snoc_old (h : heap) v r w : (r < length h)%nat -> upd (h ++ [v]) r w = upd h r w ++ [v].
Proof. apply upd_app_l. Qed.

Lemma extends_upd_fresh h h1 w v : extends h h1 -> (length h <= w)%nat -> extends h (upd h1 w v).
Proof.
  intros [e ->] H. replace w with (length h + (w - length h))%nat by lia.
  rewrite upd_app_r. apply extends_app.
Qed.

(* the conclusion of B *)
Definition frame_except (r : oref) (h h' : heap) : Prop :=
  (length h <= length h')%nat /\ forall y, (y < length h)%nat -> y <> r -> nth_error h' y = nth_error h y.

Lemma extends_frame_except r h h' : extends h h' -> frame_except r h h'.
Proof. intro E. split. now apply extends_length. intros. now apply extends_nth. Qed.
Lemma frame_except_refl r h : frame_except r h h.
Proof. split; auto. Qed.
Lemma frame_except_trans r h1 h2 h3 : frame_except r h1 h2 -> frame_except r h2 h3 -> frame_except r h1 h3.
Proof. intros [L1 F1] [L2 F2]. split. lia. intros y Hy Hn. rewrite F2, F1; auto. lia. Qed.
Lemma frame_except_upd r h v : frame_except r h (upd h r v).
Proof. split. rewrite upd_length; lia. intros. now apply upd_nth_other. Qed.

(* ================================================================================================ *)
(* 1. the monad: running forwards                                                                   *)
(* ================================================================================================ *)

Lemma hbind_eq {A B} (m : hm A) (f : A -> hm B) h :
  hbind m f h = match m h with
                | (Ok a, h1) => f a h1
                | (Exc e, h1) => (Exc e, h1)
                | (Diverge, h1) => (Diverge, h1)
                end.
Proof. unfold hbind. destruct (m h) as [[a|e|] h1]; reflexivity. Qed.
Lemma hbind_assoc {A B C} (m : hm A) (f : A -> hm B) (g : B -> hm C) h :
  hbind (hbind m f) g h = hbind m (fun a => hbind (f a) g) h.
Proof. unfold hbind. destruct (m h) as [[a|e|] h1]; reflexivity. Qed.
Lemma hbind_get {B} r (f : buf -> hm B) h b : nth_error h r = Some b -> hbind (hget r) f h = f b h.
Proof. intro H. unfold hbind, hget. now rewrite H. Qed.
Lemma hbind_get_none {B} r (f : buf -> hm B) h : nth_error h r = None -> hbind (hget r) f h = (Exc Unmodelled, h).
Proof. intro H. unfold hbind, hget. now rewrite H. Qed.
Lemma hbind_ret {A B} (a : A) (f : A -> hm B) h : hbind (hret a) f h = f a h.
Proof. reflexivity. Qed.
Lemma hbind_set {B} r v (f : unit -> hm B) h : hbind (hset r v) f h = f tt (upd h r v).
Proof. reflexivity. Qed.
Lemma hbind_alloc {B} v (f : oref -> hm B) h : hbind (halloc v) f h = f (length h) (h ++ [v]).
Proof. reflexivity. Qed.
Lemma hbind_lift {A B} (x : res A) (f : A -> hm B) h :
  hbind (hlift x) f h = match x with Ok a => f a h | Exc e => (Exc e, h) | Diverge => (Diverge, h) end.
Proof. unfold hbind, hlift. destruct x; reflexivity. Qed.

(* going backwards *)
Lemma hbind_inv {A B} (m : hm A) (f : A -> hm B) h r h' :
  hbind m f h = (r, h') ->
  (exists a h1, m h = (Ok a, h1) /\ f a h1 = (r, h')) \/
  (exists e, m h = (Exc e, h') /\ r = Exc e) \/
  (m h = (Diverge, h') /\ r = Diverge).
Proof.
  rewrite hbind_eq. destruct (m h) as [[a|e|] h1]; intro H.
  - left; eauto.
  - right; left; inversion H; eauto.
  - right; right; inversion H; eauto.
Qed.

(* exact descriptions of the methods that are a read, a value computation and one allocation / assignment *)
Lemma h_new_eq c n sd h :
  h_new c n sd h = match b_new c n sd with
                   | Ok v => (Ok (length h), h ++ [v]) | Exc e => (Exc e, h) | Diverge => (Diverge, h) end.
Proof. unfold h_new. rewrite hbind_lift. destruct (b_new c n sd); reflexivity. Qed.

Lemma h_copy_eq r h :
  h_copy r h = match nth_error h r with
               | None => (Exc Unmodelled, h)
               | Some b => match b_copy b with
                           | Ok v => (Ok (length h), h ++ [v]) | Exc e => (Exc e, h) | Diverge => (Diverge, h) end
               end.
Proof.
  unfold h_copy. destruct (nth_error h r) as [b|] eqn:E.
  - rewrite (hbind_get _ _ _ _ E). apply h_new_eq.
  - now rewrite hbind_get_none.
Qed.

Lemma h_shift_left_eq r s h :
  h_shift_left r s h = match nth_error h r with
                       | None => (Exc Unmodelled, h)
                       | Some b => match b_shift_left b s with
                                   | Ok v => (Ok r, upd h r v) | Exc e => (Exc e, h) | Diverge => (Diverge, h) end
                       end.
Proof.
  unfold h_shift_left. destruct (nth_error h r) as [b|] eqn:E.
  - rewrite (hbind_get _ _ _ _ E), hbind_lift. destruct (b_shift_left b s); reflexivity.
  - now rewrite hbind_get_none.
Qed.
Lemma h_shift_right_eq r s h :
  h_shift_right r s h = match nth_error h r with
                        | None => (Exc Unmodelled, h)
                        | Some b => match b_shift_right b s with
                                    | Ok v => (Ok r, upd h r v) | Exc e => (Exc e, h) | Diverge => (Diverge, h) end
                        end.
Proof.
  unfold h_shift_right. destruct (nth_error h r) as [b|] eqn:E.
  - rewrite (hbind_get _ _ _ _ E), hbind_lift. destruct (b_shift_right b s); reflexivity.
  - now rewrite hbind_get_none.
Qed.

Lemma h_getitem_bits_eq r s e h :
  h_getitem_bits r s e h = match nth_error h r with
                           | None => (Exc Unmodelled, h)
                           | Some b => match b_getitem_bits b s e with
                                       | Ok v => (Ok (length h), h ++ [v]) | Exc x => (Exc x, h) | Diverge => (Diverge, h) end
                           end.
Proof.
  unfold h_getitem_bits. destruct (nth_error h r) as [b|] eqn:E.
  - rewrite (hbind_get _ _ _ _ E), hbind_lift. destruct (b_getitem_bits b s e); reflexivity.
  - now rewrite hbind_get_none.
Qed.

Lemma h_getitem_eq r s e h :
  h_getitem r s e h = match nth_error h r with
                      | None => (Exc Unmodelled, h)
                      | Some b => match b_getitem b s e with
                                  | Ok v => (Ok (length h), h ++ [v]) | Exc x => (Exc x, h) | Diverge => (Diverge, h) end
                      end.
Proof.
  unfold h_getitem, b_getitem. destruct (nth_error h r) as [b|] eqn:E.
  - rewrite (hbind_get _ _ _ _ E). destruct (slice_indices (blen b) s e) as [s' e'].
    rewrite h_getitem_bits_eq, E. reflexivity.
  - now rewrite hbind_get_none.
Qed.

(* shift in place, receiver in scope *)
Lemma h_shift_inplace_eq r s h b : nth_error h r = Some b ->
  h_shift r s true h = match b_shift b s true with
                       | Ok v => (Ok r, upd h r v) | Exc e => (Exc e, h) | Diverge => (Diverge, h) end.
Proof.
  intro E. unfold h_shift, b_shift. destruct (s =? 0).
  - unfold hret. now rewrite (upd_same _ _ _ E).
  - rewrite hbind_ret. cbn [bind]. destruct (s <? 0).
    + now rewrite h_shift_left_eq, E.
    + now rewrite h_shift_right_eq, E.
Qed.
Lemma h_shift_inplace_none r s h : nth_error h r = None ->
  h_shift r s true h = if s =? 0 then (Ok r, h) else (Exc Unmodelled, h).
Proof.
  intro E. unfold h_shift. destruct (s =? 0); auto. rewrite hbind_ret.
  destruct (s <? 0); [rewrite h_shift_left_eq | rewrite h_shift_right_eq]; now rewrite E.
Qed.

(* shift on a copy, receiver in scope: the copy stays behind when the shift raises *)
Lemma h_shift_copy_eq r s h b : nth_error h r = Some b ->
  h_shift r s false h =
  match b_copy b with
  | Ok cv => if s =? 0 then (Ok (length h), h ++ [cv])
             else match (if s <? 0 then b_shift_left cv (Z.abs s) else b_shift_right cv s) with
                  | Ok v => (Ok (length h), h ++ [v])
                  | Exc e => (Exc e, h ++ [cv])
                  | Diverge => (Diverge, h ++ [cv])
                  end
  | Exc e => (Exc e, h)
  | Diverge => (Diverge, h)
  end.
Proof.
  intro E. unfold h_shift. destruct (s =? 0).
  - rewrite h_copy_eq, E. destruct (b_copy b); reflexivity.
  - rewrite hbind_eq, h_copy_eq, E. destruct (b_copy b) as [cv|e|]; auto.
    destruct (s <? 0).
    + rewrite h_shift_left_eq, nth_snoc_last. destruct (b_shift_left cv (Z.abs s)); auto.
      now rewrite upd_snoc_last.
    + rewrite h_shift_right_eq, nth_snoc_last. destruct (b_shift_right cv s); auto.
      now rewrite upd_snoc_last.
Qed.

(* ================================================================================================ *)
(* 2. pad, receiver in scope: everything about it in one statement                                  *)
(* ================================================================================================ *)

Lemma h_pad_spec r sd ip h b : nth_error h r = Some b ->
  match h_pad r sd ip h with
  | (Ok y, h') => exists v, b_pad b sd ip = Ok v /\
      if side_eqb sd (bside b) then
        (if ip then y = r /\ h' = h /\ v = b else y = length h /\ h' = h ++ [v])
      else y = length h /\
           h' = (if ip then upd h r (mkbuf (content v) (blen v) (bside v) (bpl b)) else h) ++ [v]
  | (Exc e, h') => b_pad b sd ip = Exc e /\ extends h h'
  | (Diverge, h') => b_pad b sd ip = Diverge /\ extends h h'
  end.
Proof.
  intro E. unfold h_pad, b_pad. rewrite (hbind_get _ _ _ _ E).
  destruct (side_eqb sd (bside b)) eqn:Hs.
  - destruct ip; cbn [andb negb].
    + unfold hret. eexists; split; eauto.
    + rewrite h_new_eq. destruct (b_new (content b) (blen b) (bside b)).
      * eexists; split; eauto.
      * split; auto using extends_refl.
      * split; auto using extends_refl.
  - rewrite !andb_false_r.
    rewrite hbind_eq, h_copy_eq, E. destruct (b_copy b) as [cv|e|] eqn:Hc; cbn [bind];
      [ | split; auto using extends_refl ..].
    assert (Hlt : (r < length h)%nat) by (eapply nth_some_lt; eauto).
    destruct sd.
    + rewrite hbind_assoc, (hbind_get _ _ _ _ (nth_snoc_last h cv)), hbind_assoc, hbind_set, hbind_ret.
      rewrite upd_snoc_last.
      rewrite hbind_eq, (h_shift_inplace_eq _ _ _ _ (nth_snoc_last h _)).
      destruct (b_shift (mkbuf (content cv) (blen cv + bpl b) LEFT (bpl cv)) (bpl b) true) as [v|e|];
        cbn [bind]; [ | split; auto using extends_app ..].
      rewrite upd_snoc_last.
      rewrite (hbind_get _ _ _ _ (nth_snoc_last h v)), (hbind_get _ _ _ _ (nth_snoc_old h v r b E)).
      rewrite hbind_set, upd_snoc_last.
      destruct ip.
      * rewrite hbind_assoc, (hbind_get _ _ _ _ (nth_snoc_last h _)).
        rewrite hbind_assoc, (hbind_get _ _ _ _ (nth_snoc_old h _ r b E)).
        rewrite hbind_set, upd_snoc_old by exact Hlt. unfold hret.
        eexists; split; [reflexivity | split; reflexivity].
      * rewrite hbind_ret. unfold hret. eexists; split; [reflexivity | split; reflexivity].
    + rewrite hbind_ret.
      rewrite hbind_eq, (h_shift_inplace_eq _ _ _ _ (nth_snoc_last h _)).
      destruct (b_shift cv (- bpl b) true) as [v|e|];
        cbn [bind]; [ | split; auto using extends_app ..].
      rewrite upd_snoc_last.
      rewrite (hbind_get _ _ _ _ (nth_snoc_last h v)), (hbind_get _ _ _ _ (nth_snoc_old h v r b E)).
      rewrite hbind_set, upd_snoc_last.
      destruct ip.
      * rewrite hbind_assoc, (hbind_get _ _ _ _ (nth_snoc_last h _)).
        rewrite hbind_assoc, (hbind_get _ _ _ _ (nth_snoc_old h _ r b E)).
        rewrite hbind_set, upd_snoc_old by exact Hlt. unfold hret.
        eexists; split; [reflexivity | split; reflexivity].
      * rewrite hbind_ret. unfold hret. eexists; split; [reflexivity | split; reflexivity].
Qed.

(* ================================================================================================ *)
(* 3. frame calculus                                                                                *)
(* ================================================================================================ *)

(* a computation that only allocates (or assigns to what it allocated) *)
Definition pure_val {A} (m : hm A) : Prop := forall h x h', m h = (x, h') -> extends h h'.
(* ... and returns, if anything, an object it allocated *)
Definition pure_ref (m : hm oref) : Prop :=
  forall h x h', m h = (x, h') -> extends h h' /\ forall y, x = Ok y -> (length h <= y < length h')%nat.

Lemma pure_ref_val m : pure_ref m -> pure_val m.
Proof. intros H h x h' E. now apply H in E. Qed.
Lemma pv_ret {A} (a : A) : pure_val (hret a).
Proof. intros h x h' E. inversion E. apply extends_refl. Qed.
Lemma pv_lift {A} (a : res A) : pure_val (hlift a).
Proof. intros h x h' E. inversion E. apply extends_refl. Qed.
Lemma pv_get r : pure_val (hget r).
Proof. intros h x h' E. inversion E. apply extends_refl. Qed.
Lemma pr_alloc v : pure_ref (halloc v).
Proof.
  intros h x h' E. inversion E; subst. split. apply extends_app.
  intros y Hy. inversion Hy; subst. rewrite app_length; simpl; lia.
Qed.
Lemma pv_bind {A B} (m : hm A) (f : A -> hm B) : pure_val m -> (forall a, pure_val (f a)) -> pure_val (hbind m f).
Proof.
  intros Hm Hf h x h' H. apply hbind_inv in H.
  destruct H as [(a & h1 & Hm1 & Hf1) | [(e & Hm1 & ->) | (Hm1 & ->)]].
  - eapply extends_trans. eapply Hm; eauto. eapply Hf; eauto.
  - eapply Hm; eauto.
  - eapply Hm; eauto.
Qed.
Lemma pr_bind {A} (m : hm A) (f : A -> hm oref) : pure_val m -> (forall a, pure_ref (f a)) -> pure_ref (hbind m f).
Proof.
  intros Hm Hf h x h' H. apply hbind_inv in H.
  destruct H as [(a & h1 & Hm1 & Hf1) | [(e & Hm1 & ->) | (Hm1 & ->)]].
  - apply Hm in Hm1. destruct (Hf a _ _ _ Hf1) as [E2 F]. split. eapply extends_trans; eauto.
    intros y Hy. specialize (F y Hy). apply extends_length in Hm1. lia.
  - split. eapply Hm; eauto. discriminate.
  - split. eapply Hm; eauto. discriminate.
Qed.

Lemma pr_lift_exc e : pure_ref (hlift (Exc e)).
Proof. intros h x h' E. inversion E; subst. split. apply extends_refl. discriminate. Qed.
Lemma pr_new c n sd : pure_ref (h_new c n sd).
Proof. unfold h_new. apply pr_bind. apply pv_lift. intro. apply pr_alloc. Qed.
Lemma pr_copy r : pure_ref (h_copy r).
Proof. unfold h_copy. apply pr_bind. apply pv_get. intro. apply pr_new. Qed.
Lemma pr_getitem_bits r s e : pure_ref (h_getitem_bits r s e).
Proof. unfold h_getitem_bits. apply pr_bind. apply pv_get. intro. apply pr_bind. apply pv_lift. intro. apply pr_alloc. Qed.
Lemma pr_getitem r s e : pure_ref (h_getitem r s e).
Proof.
  unfold h_getitem. apply pr_bind. apply pv_get. intro b.
  destruct (slice_indices (blen b) s e). apply pr_getitem_bits.
Qed.
Lemma pr_getitem_int r i : pure_ref (h_getitem_int r i).
Proof. apply pr_getitem_bits. Qed.

Lemma pr_shift_copy r s : pure_ref (h_shift r s false).
Proof.
  intros h x h' H. destruct (nth_error h r) as [b|] eqn:E.
  - rewrite (h_shift_copy_eq _ _ _ _ E) in H.
    destruct (b_copy b) as [cv|e|].
    + destruct (s =? 0).
      * inversion H; subst. split. apply extends_app. intros y Hy; inversion Hy; subst.
        rewrite app_length; simpl; lia.
      * destruct (if s <? 0 then b_shift_left cv (Z.abs s) else b_shift_right cv s);
          inversion H; subst; (split; [apply extends_app | ]); try discriminate.
        intros y Hy; inversion Hy; subst. rewrite app_length; simpl; lia.
    + inversion H; subst. split. apply extends_refl. discriminate.
    + inversion H; subst. split. apply extends_refl. discriminate.
  - unfold h_shift in H. destruct (s =? 0).
    + now apply pr_copy in H.
    + rewrite hbind_eq, h_copy_eq, E in H. inversion H; subst. split. apply extends_refl. discriminate.
Qed.

Lemma h_pad_none r sd ip h : nth_error h r = None -> h_pad r sd ip h = (Exc Unmodelled, h).
Proof. intro E. unfold h_pad. now rewrite hbind_get_none. Qed.

Lemma pr_pad r sd : pure_ref (h_pad r sd false).
Proof.
  intros h x h' H. destruct (nth_error h r) as [b|] eqn:E.
  - pose proof (h_pad_spec r sd false h b E) as S. rewrite H in S. destruct x as [y|e|].
    + destruct S as (v & _ & S).
      assert (y = length h /\ h' = h ++ [v]) as [-> ->] by (destruct (side_eqb sd (bside b)); tauto).
      split. apply extends_app. intros y Hy; inversion Hy; subst. rewrite app_length; simpl; lia.
    + split. tauto. discriminate.
    + split. tauto. discriminate.
  - rewrite (h_pad_none _ _ _ _ E) in H. inversion H; subst. split. apply extends_refl. discriminate.
Qed.

Ltac pure_step :=
  first
    [ apply pv_ret | apply pv_lift | apply pv_get
    | apply pr_alloc | apply pr_lift_exc | apply pr_new | apply pr_copy | apply pr_pad | apply pr_getitem | apply pr_getitem_bits
    | apply pure_ref_val; first [ apply pr_new | apply pr_copy | apply pr_pad | apply pr_getitem | apply pr_getitem_bits ]
    | apply pv_bind; [ | intro ]
    | apply pr_bind; [ | intro ]
    | match goal with
      | |- pure_val (if ?c then _ else _) => destruct c
      | |- pure_ref (if ?c then _ else _) => destruct c
      | |- pure_val (match ?s with LEFT => _ | RIGHT => _ end) => destruct s
      | |- pure_ref (match ?s with LEFT => _ | RIGHT => _ end) => destruct s
      end ].
Ltac pure_tac := repeat pure_step.

Lemma pv_value r : pure_val (h_value r).
Proof. unfold h_value. pure_tac. Qed.
Lemma pr_add l r : pure_ref (h_add l r).
Proof. unfold h_add. pure_tac. Qed.
Lemma pr_bitwise f a b : pure_ref (h_bitwise f a b).
Proof. unfold h_bitwise. pure_tac. Qed.
Lemma pr_invert r : pure_ref (h_invert r).
Proof. unfold h_invert. pure_tac. Qed.
Lemma pv_eq a b : pure_val (h_eq a b).
Proof. unfold h_eq. pure_tac. Qed.
Lemma pv_hash a : pure_val (h_hash_key a).
Proof. unfold h_hash_key. pure_tac. Qed.
Lemma pv_iter r : pure_val (h_iter r).
Proof. unfold h_iter. pure_tac. Qed.
Lemma pv_len r : pure_val (h_len r).
Proof. unfold h_len. pure_tac. Qed.

Ltac ext_solve :=
  repeat match goal with
         | H : extends ?a ?b |- extends ?a ?c => first [ exact H | apply (extends_trans a b c H); clear H ]
         end;
  try apply extends_refl.

(* chunks: the references returned are new, in the heap, pairwise different *)
Definition fresh_list (h : heap) (l : list oref) (h' : heap) : Prop :=
  Forall (fun y => (length h <= y < length h')%nat) l /\ NoDup l.

Lemma chunks_loop_frame r n : forall k cursor h x h', h_chunks_loop r n cursor k h = (x, h') ->
  extends h h' /\ forall l c, x = Ok (l, c) -> fresh_list h l h'.
Proof.
  induction k; intros cursor h x h' H; cbn [h_chunks_loop] in H.
  - unfold hret in H. inversion H; subst. split. apply extends_refl.
    intros l c E; inversion E; subst. split; constructor.
  - apply hbind_inv in H. destruct H as [(c & h1 & Hc & H) | [(e & Hc & ->) | (Hc & ->)]];
      [ | split; [eapply pr_getitem; eauto | discriminate] ..].
    apply pr_getitem in Hc. destruct Hc as [E1 F1]. specialize (F1 c eq_refl).
    apply hbind_inv in H. destruct H as [(rest & h2 & Hr & H) | [(e & Hr & ->) | (Hr & ->)]];
      [ | apply IHk in Hr; destruct Hr as [E2 _]; split; [ext_solve | discriminate] ..].
    apply IHk in Hr. destruct Hr as [E2 F2]. unfold hret in H. inversion H; subst.
    split. ext_solve.
    intros l c0 E; inversion E; subst. destruct rest as [l0 c1]. destruct (F2 l0 c1 eq_refl) as [FA ND].
    cbn [fst snd]. apply extends_length in E1, E2. split.
    + constructor. lia. eapply Forall_impl; [ | exact FA]. cbn beta. intros; lia.
    + constructor; auto. intro IN. rewrite Forall_forall in FA. apply FA in IN. lia.
Qed.

Lemma chunks_frame r n p h x h' : h_chunks r n p h = (x, h') ->
  extends h h' /\ forall l, x = Ok l -> fresh_list h l h'.
Proof.
  intro H. unfold h_chunks in H.
  apply hbind_inv in H. destruct H as [(b & h0 & Hb & H) | [(e & Hb & ->) | (Hb & ->)]];
    [ | apply pv_get in Hb; split; [ext_solve | discriminate] ..].
  apply pv_get in Hb.
  destruct (n =? 0). { unfold hlift in H. inversion H; subst. split. ext_solve. discriminate. }
  destruct (n <? 0). { unfold hlift in H. inversion H; subst. split. ext_solve. discriminate. }
  apply hbind_inv in H. destruct H as [(pre & h1 & Hp & H) | [(e & Hp & ->) | (Hp & ->)]];
    [ | apply chunks_loop_frame in Hp; destruct Hp as [Hp _]; split; [ext_solve | discriminate] ..].
  apply chunks_loop_frame in Hp. destruct Hp as [E1 F1]. destruct pre as [cs cursor].
  specialize (F1 cs cursor eq_refl). destruct F1 as [FA ND].
  apply hbind_inv in H. destruct H as [(chunk & h2 & Hc & H) | [(e & Hc & ->) | (Hc & ->)]];
    [ | apply pr_getitem in Hc; destruct Hc as [Hc _]; split; [ext_solve | discriminate] ..].
  apply pr_getitem in Hc. destruct Hc as [E2 F2]. specialize (F2 chunk eq_refl).
  apply hbind_inv in H. destruct H as [(cb & h3 & Hcb & H) | [(e & Hcb & ->) | (Hcb & ->)]];
    [ | apply pv_get in Hcb; split; [ext_solve | discriminate] ..].
  apply pv_get in Hcb.
  assert (HL : forall (m : hm oref) y h4, m h3 = (y, h4) ->
               (m = hret chunk \/ pure_ref m) ->
               extends h3 h4 /\ forall z, y = Ok z -> (length h1 <= z < length h4)%nat).
  { intros m y h4 Hm [-> | PR].
    - unfold hret in Hm. inversion Hm; subst. split. apply extends_refl.
      intros z Hz; inversion Hz; subst. apply extends_length in Hcb. lia.
    - apply PR in Hm. destruct Hm as [E4 F4]. split; auto. intros z Hz. specialize (F4 z Hz).
      apply extends_length in E2, Hcb. lia. }
  apply hbind_inv in H. destruct H as [(last & h4 & Hl & H) | [(e & Hl & ->) | (Hl & ->)]].
  - apply HL in Hl.
    + destruct Hl as [E4 F4]. specialize (F4 last eq_refl). unfold hret in H. inversion H; subst.
      split. ext_solve. intros l E; inversion E; subst.
      apply extends_length in E1, E2, Hcb, E4, Hb. split.
      * apply Forall_app. split.
        -- eapply Forall_impl; [ | exact FA]. cbn beta. intros; lia.
        -- constructor; [ lia | constructor ].
      * apply NoDup_rev in ND. rewrite <- (rev_involutive (cs ++ [last])). apply NoDup_rev.
        rewrite rev_app_distr. cbn [rev app]. constructor; auto.
        rewrite <- in_rev. intro IN. rewrite Forall_forall in FA. apply FA in IN. lia.
    + destruct (p && (blen cb <? n)); [right | left; reflexivity].
      apply pr_bind. apply pure_ref_val, pr_new. intro. apply pr_add.
  - apply HL in Hl. destruct Hl as [E4 _]. split. ext_solve. discriminate.
    destruct (p && (blen cb <? n)); [right | left; reflexivity].
    apply pr_bind. apply pure_ref_val, pr_new. intro. apply pr_add.
  - apply HL in Hl. destruct Hl as [E4 _]. split. ext_solve. discriminate.
    destruct (p && (blen cb <? n)); [right | left; reflexivity].
    apply pr_bind. apply pure_ref_val, pr_new. intro. apply pr_add.
Qed.

(* in place *)
Definition inplace_on {A} (r : oref) (m : hm A) : Prop := forall h x h', m h = (x, h') -> frame_except r h h'.
Definition inplace_ref (r : oref) (m : hm oref) : Prop :=
  forall h x h', m h = (x, h') -> frame_except r h h' /\ forall y, x = Ok y -> y = r.

Lemma io_pure {A} r (m : hm A) : pure_val m -> inplace_on r m.
Proof. intros P h x h' H. apply extends_frame_except. eapply P; eauto. Qed.
Lemma io_set r v : inplace_on r (hset r v).
Proof. intros h x h' H. inversion H; subst. apply frame_except_upd. Qed.
Lemma io_bind {A B} r (m : hm A) (f : A -> hm B) : inplace_on r m -> (forall a, inplace_on r (f a)) -> inplace_on r (hbind m f).
Proof.
  intros Hm Hf h x h' H. apply hbind_inv in H.
  destruct H as [(a & h1 & Hm1 & Hf1) | [(e & Hm1 & ->) | (Hm1 & ->)]].
  - eapply frame_except_trans. eapply Hm; eauto. eapply Hf; eauto.
  - eapply Hm; eauto.
  - eapply Hm; eauto.
Qed.
Lemma ir_on r m : inplace_ref r m -> inplace_on r m.
Proof. intros H h x h' E. now apply H in E. Qed.
Lemma ir_ret r : inplace_ref r (hret r).
Proof. intros h x h' H. inversion H; subst. split. apply frame_except_refl. intros y E; now inversion E. Qed.
Lemma ir_bind {A} r (m : hm A) (f : A -> hm oref) : inplace_on r m -> (forall a, inplace_ref r (f a)) -> inplace_ref r (hbind m f).
Proof.
  intros Hm Hf h x h' H. apply hbind_inv in H.
  destruct H as [(a & h1 & Hm1 & Hf1) | [(e & Hm1 & ->) | (Hm1 & ->)]].
  - destruct (Hf a _ _ _ Hf1) as [F R]. split; auto. eapply frame_except_trans; [eapply Hm; eauto | exact F].
  - split. eapply Hm; eauto. discriminate.
  - split. eapply Hm; eauto. discriminate.
Qed.

Lemma ir_shift r s : inplace_ref r (h_shift r s true).
Proof.
  intros h x h' H. destruct (nth_error h r) as [b|] eqn:E.
  - rewrite (h_shift_inplace_eq _ _ _ _ E) in H. destruct (b_shift b s true); inversion H; subst.
    + split. apply frame_except_upd. intros y Hy; now inversion Hy.
    + split. apply frame_except_refl. discriminate.
    + split. apply frame_except_refl. discriminate.
  - rewrite (h_shift_inplace_none _ _ _ E) in H. destruct (s =? 0); inversion H; subst.
    + split. apply frame_except_refl. intros y Hy; now inversion Hy.
    + split. apply frame_except_refl. discriminate.
Qed.

Lemma ir_setitem_bits r s e v : inplace_ref r (h_setitem_bits r s e v).
Proof.
  unfold h_setitem_bits.
  apply ir_bind. apply io_pure, pure_ref_val, pr_getitem. intro.
  apply ir_bind. apply io_pure, pure_ref_val, pr_getitem. intro.
  apply ir_bind. apply io_pure, pure_ref_val, pr_add. intro.
  apply ir_bind. apply io_pure, pure_ref_val, pr_add. intro.
  apply ir_bind. apply io_pure, pv_get. intro.
  apply ir_bind. apply io_pure, pv_get. intro.
  apply ir_bind. apply io_set. intro. apply ir_ret.
Qed.
Lemma ir_setitem r s e v : inplace_ref r (h_setitem r s e v).
Proof.
  unfold h_setitem. apply ir_bind. apply io_pure, pv_get. intro b.
  destruct (slice_indices (blen b) s e). apply ir_setitem_bits.
Qed.
Lemma ir_setitem_int r i v : inplace_ref r (h_setitem_int r i v).
Proof. apply ir_setitem_bits. Qed.

Lemma pad_inplace_frame r sd h x h' : h_pad r sd true h = (x, h') ->
  frame_except r h h' /\ forall y, x = Ok y -> (y < length h')%nat /\ (y = r \/ (length h <= y)%nat).
Proof.
  intro H. destruct (nth_error h r) as [b|] eqn:E.
  - pose proof (h_pad_spec r sd true h b E) as S. rewrite H in S.
    assert (Hlt := nth_some_lt _ _ _ E). destruct x as [y|e|].
    + destruct S as (v & _ & S). destruct (side_eqb sd (bside b)).
      * destruct S as (-> & -> & _). split. apply frame_except_refl. intros y Hy; inversion Hy; subst. auto.
      * destruct S as (-> & ->). split.
        -- split. rewrite app_length, upd_length. lia.
           intros y Hy Hn. rewrite nth_error_app1 by (rewrite upd_length; lia). now apply upd_nth_other.
        -- intros y Hy; inversion Hy; subst. rewrite app_length, upd_length. simpl. lia.
    + split. apply extends_frame_except; tauto. discriminate.
    + split. apply extends_frame_except; tauto. discriminate.
  - rewrite (h_pad_none _ _ _ _ E) in H. inversion H; subst. split. apply frame_except_refl. discriminate.
Qed.

(* ================================================================================================ *)
(* A, B, C: steps                                                                                   *)
(* ================================================================================================ *)

Lemma hstep_map_inv {A} (m : hm A) (g : A -> hout) h x h' :
  (hdo y <- m ;; hret (g y)) h = (x, h') ->
  exists r, m h = (r, h') /\ x = match r with Ok a => Ok (g a) | Exc e => Exc e | Diverge => Diverge end.
Proof.
  rewrite hbind_eq. destruct (m h) as [[a|e|] h1]; unfold hret; intro H; inversion H; subst;
    eexists; split; eauto.
Qed.

Lemma hstep_pure_val o : hop_pure o = true -> pure_val (hstep o).
Proof.
  destruct o; cbn [hop_pure]; intro Hp; try discriminate Hp; unfold hstep, h_and, h_or, h_xor;
    (apply pv_bind; [ | intro; apply pv_ret]).
  - apply pure_ref_val, pr_new.
  - apply pure_ref_val, pr_copy.
  - destruct inplace; try discriminate. apply pure_ref_val, pr_shift_copy.
  - destruct inplace; try discriminate. apply pure_ref_val, pr_pad.
  - apply pv_value.
  - apply pure_ref_val, pr_getitem.
  - apply pure_ref_val, pr_getitem_int.
  - apply pure_ref_val, pr_add.
  - apply pure_ref_val, pr_bitwise.
  - apply pure_ref_val, pr_bitwise.
  - apply pure_ref_val, pr_bitwise.
  - apply pure_ref_val, pr_invert.
  - intros h x h' H. now apply chunks_frame in H.
  - apply pv_eq.
  - apply pv_hash.
  - apply pv_iter.
  - apply pv_len.
Qed.

(* A *)
Theorem hstep_pure_frame o h r h' : hop_pure o = true -> hstep o h = (r, h') -> extends h h'.
Proof. intros Hp H. eapply hstep_pure_val; eauto. Qed.

(* B *)
Lemma hstep_inplace_on o r : hop_receiver o = Some r -> inplace_on r (hstep o).
Proof.
  destruct o; cbn [hop_receiver]; intro Hr; try discriminate Hr; unfold hstep.
  - destruct inplace; inversion Hr; subst. apply io_bind. apply ir_on, ir_shift. intro. apply io_pure, pv_ret.
  - destruct inplace; inversion Hr; subst. apply io_bind.
    + intros h x h' H. now apply pad_inplace_frame in H.
    + intro. apply io_pure, pv_ret.
  - inversion Hr; subst. apply io_bind. apply ir_on, ir_setitem. intro. apply io_pure, pv_ret.
  - inversion Hr; subst. apply io_bind. apply ir_on, ir_setitem_int. intro. apply io_pure, pv_ret.
Qed.

Theorem hstep_inplace_frame o r h x h' : hop_receiver o = Some r -> hstep o h = (x, h') ->
  (length h <= length h')%nat /\ forall y, (y < length h)%nat -> y <> r -> nth_error h' y = nth_error h y.
Proof. intros Hr H. exact (hstep_inplace_on o r Hr h x h' H). Qed.

(* C *)
Definition fresh_out (h : heap) (o : hout) : Prop :=
  match o with
  | ORef x => (length h <= x)%nat
  | ORefs l => Forall (fun x => (length h <= x)%nat) l
  | _ => True
  end.

Lemma step_ref_fresh (m : hm oref) h x h' : pure_ref m ->
  (hdo y <- m ;; hret (ORef y)) h = (Ok x, h') -> exists y, x = ORef y /\ (length h <= y < length h')%nat.
Proof.
  intros P H. apply hstep_map_inv in H. destruct H as (r & Hm & E).
  destruct r; inversion E; subst. eexists; split; eauto. eapply P; eauto.
Qed.

Theorem hstep_pure_fresh o h x h' : hop_pure o = true -> hstep o h = (Ok x, h') ->
  fresh_out h x /\
  (match x with
   | ORef y => (y < length h')%nat
   | ORefs l => Forall (fun y => (y < length h')%nat) l /\ NoDup l
   | _ => True
   end).
Proof.
  intros Hp H.
  assert (R : forall m : hm oref, pure_ref m -> (hdo y <- m ;; hret (ORef y)) h = (Ok x, h') ->
              fresh_out h x /\ match x with
                               | ORef y => (y < length h')%nat
                               | ORefs l => Forall (fun y => (y < length h')%nat) l /\ NoDup l
                               | _ => True end).
  { intros m P E. apply step_ref_fresh in E; auto. destruct E as (y & -> & B). simpl. lia. }
  destruct o; cbn [hop_pure] in Hp; try discriminate Hp; unfold hstep, h_and, h_or, h_xor in H.
  - eapply R; eauto. apply pr_new.
  - eapply R; eauto. apply pr_copy.
  - destruct inplace; try discriminate. eapply R; eauto. apply pr_shift_copy.
  - destruct inplace; try discriminate. eapply R; eauto. apply pr_pad.
  - apply hstep_map_inv in H. destruct H as (r0 & _ & E). destruct r0; inversion E; subst. simpl; auto.
  - eapply R; eauto. apply pr_getitem.
  - eapply R; eauto. apply pr_getitem_int.
  - eapply R; eauto. apply pr_add.
  - eapply R; eauto. apply pr_bitwise.
  - eapply R; eauto. apply pr_bitwise.
  - eapply R; eauto. apply pr_bitwise.
  - eapply R; eauto. apply pr_invert.
  - apply hstep_map_inv in H. destruct H as (r0 & Hm & E). destruct r0 as [l| |]; inversion E; subst.
    apply chunks_frame in Hm. destruct Hm as [_ F]. destruct (F l eq_refl) as [FA ND]. simpl.
    repeat split; auto; eapply Forall_impl; try exact FA; cbn beta; intros; lia.
  - apply hstep_map_inv in H. destruct H as (r0 & _ & E). destruct r0; inversion E; subst. simpl; auto.
  - apply hstep_map_inv in H. destruct H as (r0 & _ & E). destruct r0; inversion E; subst. simpl; auto.
  - apply hstep_map_inv in H. destruct H as (r0 & _ & E). destruct r0; inversion E; subst. simpl; auto.
  - apply hstep_map_inv in H. destruct H as (r0 & _ & E). destruct r0; inversion E; subst. simpl; auto.
Qed.

Theorem hstep_inplace_result o r h x h' : hop_receiver o = Some r -> hstep o h = (Ok (ORef x), h') ->
  x = r \/ ((length h <= x)%nat /\ exists sd, o = HPad r sd true).
Proof.
  intros Hr H.
  destruct o; cbn [hop_receiver] in Hr; try discriminate Hr; unfold hstep in H;
    apply hstep_map_inv in H; destruct H as (rr & Hm & E); destruct rr as [y| |]; inversion E; subst.
  - destruct inplace; inversion Hr; subst. left. eapply ir_shift; eauto.
  - destruct inplace; inversion Hr; subst. apply pad_inplace_frame in Hm. destruct Hm as [_ F].
    destruct (F y eq_refl) as [_ [-> | L]]; [now left | right]. split; eauto.
  - inversion Hr; subst. left. eapply ir_setitem; eauto.
  - inversion Hr; subst. left. eapply ir_setitem_int; eauto.
Qed.

(* pad in place, precisely *)
Lemma side_eqb_true a b : side_eqb a b = true <-> a = b.
Proof. destruct a, b; simpl; split; congruence. Qed.
Lemma side_eqb_false a b : side_eqb a b = false <-> a <> b.
Proof. destruct a, b; simpl; split; congruence. Qed.

(* the value pad returns when the side changes: length, side, padding length *)
Lemma b_pad_differ_attrs b sd ip v : side_eqb sd (bside b) = false -> b_pad b sd ip = Ok v ->
  blen v = blen b /\ bside v = sd /\ bpl v = bpl b.
Proof.
  unfold b_pad. intros ->. destruct (b_copy b) as [cv| |]; cbn [bind]; try discriminate.
  destruct sd.
  - destruct (b_shift _ (bpl b) true); cbn [bind]; try discriminate. intro H; inversion H; subst. auto.
  - destruct (b_shift cv (- bpl b) true); cbn [bind]; try discriminate. intro H; inversion H; subst. auto.
Qed.

(* pad(padding, inplace=True) on an object of the other side returns a NEW object; afterwards the receiver and the
   new object have the same four attributes (the receiver's padding_length is not assigned, but the new object's
   padding_length was set to the receiver's) *)
Theorem h_pad_inplace_alias r sd h b x h' : nth_error h r = Some b -> h_pad r sd true h = (Ok x, h') ->
  (bside b = sd /\ x = r /\ h' = h) \/
  (bside b <> sd /\ x = length h /\
   exists v, b_pad b sd true = Ok v /\ bside v = sd /\ blen v = blen b /\ bpl v = bpl b /\
             h' = upd h r v ++ [v]).
Proof.
  intros E H. pose proof (h_pad_spec r sd true h b E) as S. rewrite H in S. destruct S as (v & Hv & S).
  destruct (side_eqb sd (bside b)) eqn:Hs.
  - left. apply side_eqb_true in Hs. cbv iota in S. intuition congruence.
  - right. cbv iota in S. destruct (b_pad_differ_attrs _ _ _ _ Hs Hv) as (B1 & B2 & B3). apply side_eqb_false in Hs.
    destruct S as (-> & ->). split. congruence. split. reflexivity. exists v. repeat split; auto.
    rewrite <- B3. destruct v; reflexivity.
Qed.

Theorem hstep_pad_inplace_new r sd h x h' v w : hstep (HPad r sd true) h = (Ok (ORef x), h') -> x <> r ->
  nth_error h' x = Some v -> nth_error h' r = Some w ->
  v = w /\ bside v = sd /\ (length h <= x)%nat /\
  exists b, nth_error h r = Some b /\ bside b <> sd /\ blen v = blen b /\ bpl v = bpl b /\ b_pad b sd true = Ok v.
Proof.
  intros H Hx Hv Hw. unfold hstep in H. apply hstep_map_inv in H. destruct H as (r0 & Hm & E).
  destruct r0 as [y| |]; inversion E; subst.
  destruct (nth_error h r) as [b|] eqn:Eb.
  - destruct (h_pad_inplace_alias _ _ _ _ _ _ Eb Hm) as [(_ & -> & _) | (Hs & -> & v0 & P & B1 & B2 & B3 & ->)].
    + congruence.
    + assert (Hlt := nth_some_lt _ _ _ Eb).
      rewrite nth_error_app2 in Hv by (rewrite upd_length; lia).
      rewrite upd_length, Nat.sub_diag in Hv. inversion Hv; subst.
      rewrite nth_error_app1 in Hw by (rewrite upd_length; lia).
      rewrite upd_nth_same in Hw by lia. inversion Hw; subst.
      repeat split; auto. exists b. repeat split; auto.
  - rewrite (h_pad_none _ _ _ _ Eb) in Hm. discriminate.
Qed.

(* ================================================================================================ *)
(* E: programs                                                                                      *)
(* ================================================================================================ *)

Theorem hrun_pure_frame ops h : forallb hop_pure ops = true -> Forall (fun rh => extends h (snd rh)) (hrun ops h).
Proof.
  assert (G : forall ops h0 h, extends h0 h -> forallb hop_pure ops = true ->
                               Forall (fun rh => extends h0 (snd rh)) (hrun ops h)).
  { induction ops0 as [|o ops0 IH]; intros h0 h1 E Hp; cbn [hrun]. constructor.
    cbn [forallb] in Hp. apply andb_true_iff in Hp. destruct Hp as [Ho Hp].
    destruct (hstep o h1) as [r h'] eqn:Hs. pose proof (hstep_pure_frame _ _ _ _ Ho Hs) as E'.
    assert (extends h0 h') by (eapply extends_trans; eauto).
    constructor; auto. }
  intros. apply G; auto. apply extends_refl.
Qed.

Lemma hop_pure_or_receiver o : hop_pure o = true \/ exists r, hop_receiver o = Some r.
Proof. destruct o; simpl; eauto; destruct inplace; eauto. Qed.

Lemma hstep_keeps o h x h' y : (y < length h)%nat -> hop_receiver o <> Some y -> hstep o h = (x, h') ->
  nth_error h' y = nth_error h y /\ (y < length h')%nat.
Proof.
  intros Hy Hn H. destruct (hop_pure_or_receiver o) as [Hp | [r Hr]].
  - pose proof (hstep_pure_frame _ _ _ _ Hp H) as E. split. now apply extends_nth.
    apply extends_length in E. lia.
  - destruct (hstep_inplace_frame _ _ _ _ _ Hr H) as [L F]. split. apply F; auto. intro; subst; auto. lia.
Qed.

Theorem hrun_frame ops h y : (y < length h)%nat -> Forall (fun o => hop_receiver o <> Some y) ops ->
  Forall (fun rh => nth_error (snd rh) y = nth_error h y) (hrun ops h).
Proof.
  assert (G : forall ops h0 h, (y < length h)%nat -> nth_error h y = nth_error h0 y ->
                               Forall (fun o => hop_receiver o <> Some y) ops ->
                               Forall (fun rh => nth_error (snd rh) y = nth_error h0 y) (hrun ops h)).
  { induction ops0 as [|o ops0 IH]; intros h0 h1 Hy E F; cbn [hrun]. constructor.
    inversion F; subst.
    destruct (hstep o h1) as [r h'] eqn:Hs. destruct (hstep_keeps _ _ _ _ _ Hy H1 Hs) as [K L].
    constructor. cbn [snd]. congruence. apply IH; auto. congruence. }
  intros. apply G; auto.
Qed.

(* ================================================================================================ *)
(* D: agreement with the value-level model Buffer.v                                                 *)
(* ================================================================================================ *)

Definition deref (h : heap) (r : oref) : res buf :=
  match nth_error h r with Some b => Ok b | None => Exc Unmodelled end.

Lemma deref_some h r b : deref h r = Ok b <-> nth_error h r = Some b.
Proof. unfold deref. destruct (nth_error h r); split; congruence. Qed.

(* a method returning a reference against a function returning a value: same outcome (result value found in the
   new heap, same exception, same divergence), and the heap only grew *)
Definition ref_refines (h : heap) (p : res oref * heap) (q : res buf) : Prop :=
  match p with
  | (Ok x, h') => extends h h' /\ exists v, q = Ok v /\ nth_error h' x = Some v
  | (Exc e, h') => extends h h' /\ q = Exc e
  | (Diverge, h') => extends h h' /\ q = Diverge
  end.

(* what the task asks for is a consequence *)
Lemma ref_refines_weaken h p q : ref_refines h p q ->
  match p with
  | (Ok x, h') => exists v, q = Ok v /\ nth_error h' x = Some v
  | (Exc e, _) => q = Exc e
  | (Diverge, _) => q = Diverge
  end.
Proof. destruct p as [[x|e|] h']; simpl; tauto. Qed.

Lemma ref_refines_new c n sd h : ref_refines h (h_new c n sd h) (b_new c n sd).
Proof.
  rewrite h_new_eq. unfold ref_refines.
  destruct (b_new c n sd); (split; [first [apply extends_refl | apply extends_app] | ]); eauto using nth_snoc_last.
Qed.

Lemma ref_refines_bind_val {A} (P : heap -> Prop) (m : hm A) (q : res A) (K : A -> hm oref) (Kb : A -> res buf) h :
  (match m h with (x, h1) => extends h h1 /\ x = q /\ P h1 end) ->
  (forall a h1, P h1 -> ref_refines h1 (K a h1) (Kb a)) ->
  ref_refines h (hbind m K h) (bind q Kb).
Proof.
  intros Hm HK. rewrite hbind_eq. destruct (m h) as [[a|e|] h1]; destruct Hm as (E & Hq & HP); rewrite <- Hq; cbn [bind].
  - specialize (HK a h1 HP). unfold ref_refines in *.
    destruct (K a h1) as [[x|e|] h2]; destruct HK; split; eauto using extends_trans.
  - split; auto.
  - split; auto.
Qed.

(* pad on a copy, receiver in scope: the three outcomes *)
Lemma h_pad_copy_cases r sd h b : nth_error h r = Some b ->
  (exists v, b_pad b sd false = Ok v /\ h_pad r sd false h = (Ok (length h), h ++ [v])) \/
  (exists e h', b_pad b sd false = Exc e /\ h_pad r sd false h = (Exc e, h') /\ extends h h') \/
  (exists h', b_pad b sd false = Diverge /\ h_pad r sd false h = (Diverge, h') /\ extends h h').
Proof.
  intro E. pose proof (h_pad_spec r sd false h b E) as S.
  destruct (h_pad r sd false h) as [[y|e|] h1].
  - left. destruct S as (v & Hv & S). exists v. split; auto.
    assert (y = length h /\ h1 = h ++ [v]) as [-> ->] by (destruct (side_eqb sd (bside b)); tauto). reflexivity.
  - right; left. exists e, h1. tauto.
  - right; right. exists h1. tauto.
Qed.

(* ---- constructor, copy ---- *)
Theorem h_new_refines c n sd h :
  match h_new c n sd h with
  | (Ok x, h') => exists v, b_new c n sd = Ok v /\ nth_error h' x = Some v /\ x = length h /\ h' = h ++ [v]
  | (Exc e, h') => b_new c n sd = Exc e /\ h' = h
  | (Diverge, h') => b_new c n sd = Diverge /\ h' = h
  end.
Proof. rewrite h_new_eq. destruct (b_new c n sd); eauto using nth_snoc_last. Qed.

Theorem h_copy_refines r h b : nth_error h r = Some b ->
  match h_copy r h with
  | (Ok x, h') => exists v, b_copy b = Ok v /\ nth_error h' x = Some v /\ x = length h /\ h' = h ++ [v]
  | (Exc e, h') => b_copy b = Exc e /\ h' = h
  | (Diverge, h') => b_copy b = Diverge /\ h' = h
  end.
Proof. intro E. rewrite h_copy_eq, E. destruct (b_copy b); eauto using nth_snoc_last. Qed.

(* ---- shift ---- *)
Theorem h_shift_refines r s ip h b : nth_error h r = Some b ->
  match h_shift r s ip h with
  | (Ok x, h') => exists v, b_shift b s ip = Ok v /\ nth_error h' x = Some v /\
                            (if ip then x = r /\ h' = upd h r v else x = length h /\ h' = h ++ [v])
  | (Exc e, h') => b_shift b s ip = Exc e /\ (if ip then h' = h else extends h h')
  | (Diverge, h') => b_shift b s ip = Diverge /\ (if ip then h' = h else extends h h')
  end.
Proof.
  intro E. destruct ip.
  - rewrite (h_shift_inplace_eq _ _ _ _ E). destruct (b_shift b s true); auto.
    eexists; repeat split; auto. apply upd_nth_same. eapply nth_some_lt; eauto.
  - rewrite (h_shift_copy_eq _ _ _ _ E). unfold b_shift. destruct (b_copy b) as [cv|e|]; cbn [bind];
      destruct (s =? 0); auto using extends_refl.
    + eauto using nth_snoc_last.
    + destruct (if s <? 0 then b_shift_left cv (Z.abs s) else b_shift_right cv s);
        eauto using nth_snoc_last, extends_app.
Qed.

(* ---- pad ---- *)
Theorem h_pad_refines r sd ip h b : nth_error h r = Some b ->
  match h_pad r sd ip h with
  | (Ok x, h') =>
    exists v, b_pad b sd ip = Ok v /\ nth_error h' x = Some v /\
      (if ip then
         if side_eqb sd (bside b) then x = r /\ h' = h /\ v = b
         else x = length h /\ h' = upd h r (mkbuf (content v) (blen v) (bside v) (bpl b)) ++ [v] /\
              nth_error h' r = Some (mkbuf (content v) (blen v) (bside v) (bpl b))
       else x = length h /\ h' = h ++ [v])
  | (Exc e, h') => b_pad b sd ip = Exc e /\ extends h h'
  | (Diverge, h') => b_pad b sd ip = Diverge /\ extends h h'
  end.
Proof.
  intro E. pose proof (h_pad_spec r sd ip h b E) as S. assert (Hlt := nth_some_lt _ _ _ E).
  destruct (h_pad r sd ip h) as [[y|e|] h1]; auto.
  destruct S as (v & Hv & S). exists v. split; auto.
  destruct (side_eqb sd (bside b)), ip; cbv iota in *.
  - destruct S as (-> & -> & ->). auto.
  - destruct S as (-> & ->). auto using nth_snoc_last.
  - destruct S as (-> & ->). split.
    + rewrite nth_error_app2 by (rewrite upd_length; lia). now rewrite upd_length, Nat.sub_diag.
    + repeat split; auto. rewrite nth_error_app1 by (rewrite upd_length; lia). now apply upd_nth_same.
  - destruct S as (-> & ->). auto using nth_snoc_last.
Qed.

(* ---- value ---- *)
Theorem h_value_refines r h b : nth_error h r = Some b ->
  fst (h_value r h) = b_value b /\ extends h (snd (h_value r h)).
Proof.
  intro E. unfold h_value, b_value. rewrite (hbind_get _ _ _ _ E).
  destruct (bside b).
  - rewrite hbind_ret, (hbind_get _ _ _ _ E), hbind_lift. cbn [bind].
    destruct (if 0 <? blen b then _ else _); cbn [bind fst snd hret]; auto using extends_refl.
  - destruct (h_pad_copy_cases r LEFT h b E) as [(v & Hv & Hp) | [(e & h1 & Hv & Hp & Hx) | (h1 & Hv & Hp & Hx)]];
      rewrite hbind_eq, Hp, Hv; cbn [bind fst snd]; auto.
    rewrite (hbind_get _ _ _ _ (nth_snoc_last h v)), hbind_lift.
    destruct (if 0 <? blen v then _ else _); cbn [bind fst snd hret]; auto using extends_app.
Qed.

(* ---- getitem ---- *)
Theorem h_getitem_bits_refines r s e h b : nth_error h r = Some b ->
  match h_getitem_bits r s e h with
  | (Ok x, h') => exists v, b_getitem_bits b s e = Ok v /\ nth_error h' x = Some v /\ x = length h /\ h' = h ++ [v]
  | (Exc x, h') => b_getitem_bits b s e = Exc x /\ h' = h
  | (Diverge, h') => b_getitem_bits b s e = Diverge /\ h' = h
  end.
Proof. intro E. rewrite h_getitem_bits_eq, E. destruct (b_getitem_bits b s e); eauto using nth_snoc_last. Qed.

Theorem h_getitem_refines r s e h b : nth_error h r = Some b ->
  match h_getitem r s e h with
  | (Ok x, h') => exists v, b_getitem b s e = Ok v /\ nth_error h' x = Some v /\ x = length h /\ h' = h ++ [v]
  | (Exc x, h') => b_getitem b s e = Exc x /\ h' = h
  | (Diverge, h') => b_getitem b s e = Diverge /\ h' = h
  end.
Proof. intro E. rewrite h_getitem_eq, E. destruct (b_getitem b s e); eauto using nth_snoc_last. Qed.

Theorem h_getitem_int_refines r i h b : nth_error h r = Some b ->
  match h_getitem_int r i h with
  | (Ok x, h') => exists v, b_getitem_int b i = Ok v /\ nth_error h' x = Some v /\ x = length h /\ h' = h ++ [v]
  | (Exc x, h') => b_getitem_int b i = Exc x /\ h' = h
  | (Diverge, h') => b_getitem_int b i = Diverge /\ h' = h
  end.
Proof. apply h_getitem_bits_refines. Qed.

(* ---- add: the operands may be the same object ---- *)
Lemma h_add_full l r lb rb h : nth_error h l = Some lb -> nth_error h r = Some rb ->
  ref_refines h (h_add l r h) (b_add lb rb).
Proof.
  intros El Er. unfold h_add, b_add.
  rewrite (hbind_get _ _ _ _ El), (hbind_get _ _ _ _ Er).
  destruct (blen rb =? 0).
  { rewrite h_copy_eq, El. unfold ref_refines.
    destruct (b_copy lb); (split; [first [apply extends_refl | apply extends_app] | ]); eauto using nth_snoc_last. }
  cbv zeta.
  apply ref_refines_bind_val with (P := fun h1 => nth_error h1 l = Some lb).
  2:{ intros c h1 E1. rewrite (hbind_get _ _ _ _ E1). apply ref_refines_new. }
  destruct (bside lb).
  - destruct (bpl rb =? 0).
    + unfold hret. auto using extends_refl.
    + destruct (h_pad_copy_cases r LEFT h rb Er) as [(v & Hv & Hp) | [(e & h1 & Hv & Hp & Hx) | (h1 & Hv & Hp & Hx)]];
        rewrite hbind_eq, Hp, Hv; cbn [bind].
      * rewrite (hbind_get _ _ _ _ (nth_snoc_last h v)), (hbind_get _ _ _ _ (nth_snoc_old h v l lb El)).
        unfold hlift. split; [apply extends_app | split; [reflexivity | apply nth_snoc_old; exact El]].
      * split; [exact Hx | split; [reflexivity | eapply extends_nth_some; eauto]].
      * split; [exact Hx | split; [reflexivity | eapply extends_nth_some; eauto]].
  - destruct (bpl lb =? 0).
    + destruct ((bpl rb =? 0) || side_eqb (bside rb) RIGHT).
      * unfold hret. auto using extends_refl.
      * destruct (h_pad_copy_cases r RIGHT h rb Er) as [(v & Hv & Hp) | [(e & h1 & Hv & Hp & Hx) | (h1 & Hv & Hp & Hx)]];
          rewrite hbind_eq, Hp, Hv; cbn [bind].
        -- rewrite (hbind_get _ _ _ _ (nth_snoc_last h v)), (hbind_get _ _ _ _ (nth_snoc_old h v l lb El)).
           unfold hret. split; [apply extends_app | split; [reflexivity | apply nth_snoc_old; exact El]].
        -- split; [exact Hx | split; [reflexivity | eapply extends_nth_some; eauto]].
        -- split; [exact Hx | split; [reflexivity | eapply extends_nth_some; eauto]].
    + unfold hlift. auto using extends_refl.
Qed.

Theorem h_add_refines h l r lb rb : nth_error h l = Some lb -> nth_error h r = Some rb ->
  match h_add l r h with
  | (Ok x, h') => exists v, b_add lb rb = Ok v /\ nth_error h' x = Some v
  | (Exc e, _) => b_add lb rb = Exc e
  | (Diverge, _) => b_add lb rb = Diverge
  end.
Proof. intros El Er. apply ref_refines_weaken with (h := h). now apply h_add_full. Qed.

(* ---- and / or / xor: the operands may be the same object ---- *)
Lemma h_bitwise_full f a b ab bb h : nth_error h a = Some ab -> nth_error h b = Some bb ->
  ref_refines h (h_bitwise f a b h) (b_bitwise f ab bb).
Proof.
  intros Ea Eb. unfold h_bitwise, b_bitwise.
  rewrite (hbind_get _ _ _ _ Ea), (hbind_get _ _ _ _ Eb).
  destruct (negb (blen ab =? blen bb)).
  { unfold hlift, ref_refines. auto using extends_refl. }
  assert (T : forall h1 bv, extends h h1 ->
              ref_refines h ((hdo c <- hlift (check_bytes (zip_with f (content ab) (content bv))) ;;
                              h_new c (blen ab) (bside ab)) h1)
                          (do c <- check_bytes (zip_with f (content ab) (content bv)) ;; b_new c (blen ab) (bside ab))).
  { intros h1 bv X. rewrite hbind_lift. destruct (check_bytes _) as [c|e|]; cbn [bind].
    - pose proof (ref_refines_new c (blen ab) (bside ab) h1) as R. unfold ref_refines in *.
      destruct (h_new c (blen ab) (bside ab) h1) as [[x|e|] h2]; destruct R; split; eauto using extends_trans.
    - split; auto.
    - split; auto. }
  destruct (negb (side_eqb (bside bb) (bside ab))).
  - destruct (h_pad_copy_cases b (bside ab) h bb Eb) as [(v & Hv & Hp) | [(e & h1 & Hv & Hp & Hx) | (h1 & Hv & Hp & Hx)]];
      rewrite hbind_eq, Hp, Hv; cbn [bind].
    + rewrite (hbind_get _ _ _ _ (nth_snoc_old h v a ab Ea)), (hbind_get _ _ _ _ (nth_snoc_last h v)).
      apply T. apply extends_app.
    + split; auto.
    + split; auto.
  - rewrite hbind_ret, (hbind_get _ _ _ _ Ea), (hbind_get _ _ _ _ Eb). cbn [bind]. apply T. apply extends_refl.
Qed.

Theorem h_bitwise_refines f h a b ab bb : nth_error h a = Some ab -> nth_error h b = Some bb ->
  match h_bitwise f a b h with
  | (Ok x, h') => exists v, b_bitwise f ab bb = Ok v /\ nth_error h' x = Some v
  | (Exc e, _) => b_bitwise f ab bb = Exc e
  | (Diverge, _) => b_bitwise f ab bb = Diverge
  end.
Proof. intros Ea Eb. apply ref_refines_weaken with (h := h). now apply h_bitwise_full. Qed.

Corollary h_and_refines h a b ab bb : nth_error h a = Some ab -> nth_error h b = Some bb ->
  match h_and a b h with
  | (Ok x, h') => exists v, b_and ab bb = Ok v /\ nth_error h' x = Some v
  | (Exc e, _) => b_and ab bb = Exc e
  | (Diverge, _) => b_and ab bb = Diverge
  end.
Proof. apply h_bitwise_refines. Qed.
Corollary h_or_refines h a b ab bb : nth_error h a = Some ab -> nth_error h b = Some bb ->
  match h_or a b h with
  | (Ok x, h') => exists v, b_or ab bb = Ok v /\ nth_error h' x = Some v
  | (Exc e, _) => b_or ab bb = Exc e
  | (Diverge, _) => b_or ab bb = Diverge
  end.
Proof. apply h_bitwise_refines. Qed.
Corollary h_xor_refines h a b ab bb : nth_error h a = Some ab -> nth_error h b = Some bb ->
  match h_xor a b h with
  | (Ok x, h') => exists v, b_xor ab bb = Ok v /\ nth_error h' x = Some v
  | (Exc e, _) => b_xor ab bb = Exc e
  | (Diverge, _) => b_xor ab bb = Diverge
  end.
Proof. apply h_bitwise_refines. Qed.

(* ---- invert ---- *)
Lemma h_invert_full r b h : nth_error h r = Some b -> ref_refines h (h_invert r h) (b_invert b).
Proof.
  intro E. unfold h_invert, b_invert. rewrite (hbind_get _ _ _ _ E).
  destruct (blen b =? 0).
  { rewrite h_copy_eq, E. unfold ref_refines.
    destruct (b_copy b); (split; [first [apply extends_refl | apply extends_app] | ]); eauto using nth_snoc_last. }
  rewrite hbind_lift.
  destruct (match bside b with LEFT => _ | RIGHT => _ end) as [c|e|]; cbn [bind].
  - apply ref_refines_new.
  - split; auto using extends_refl.
  - split; auto using extends_refl.
Qed.

Theorem h_invert_refines h r b : nth_error h r = Some b ->
  match h_invert r h with
  | (Ok x, h') => exists v, b_invert b = Ok v /\ nth_error h' x = Some v
  | (Exc e, _) => b_invert b = Exc e
  | (Diverge, _) => b_invert b = Diverge
  end.
Proof. intro E. apply ref_refines_weaken with (h := h). now apply h_invert_full. Qed.

(* ---- eq, hash, iter, len: plain values ---- *)
Theorem h_eq_refines a b h ab bb : nth_error h a = Some ab -> nth_error h b = Some bb ->
  fst (h_eq a b h) = b_eq ab bb /\ extends h (snd (h_eq a b h)).
Proof.
  intros Ea Eb. unfold h_eq, b_eq. rewrite (hbind_get _ _ _ _ Ea), (hbind_get _ _ _ _ Eb).
  destruct (negb (blen ab =? blen bb)).
  { unfold hret. cbn [fst snd]. auto using extends_refl. }
  destruct (h_pad_copy_cases b (bside ab) h bb Eb) as [(v & Hv & Hp) | [(e & h1 & Hv & Hp & Hx) | (h1 & Hv & Hp & Hx)]];
    rewrite hbind_eq, Hp, Hv; cbn [bind fst snd]; auto.
  rewrite (hbind_get _ _ _ _ (nth_snoc_old h v a ab Ea)), (hbind_get _ _ _ _ (nth_snoc_last h v)).
  unfold hret. cbn [fst snd]. auto using extends_app.
Qed.

Theorem h_hash_key_refines a h ab : nth_error h a = Some ab ->
  fst (h_hash_key a h) = b_hash_key ab /\ extends h (snd (h_hash_key a h)).
Proof.
  intros Ea. unfold h_hash_key, b_hash_key.
  destruct (h_pad_copy_cases a LEFT h ab Ea) as [(v & Hv & Hp) | [(e & h1 & Hv & Hp & Hx) | (h1 & Hv & Hp & Hx)]];
    rewrite hbind_eq, Hp, Hv; cbn [bind fst snd]; auto.
  rewrite (hbind_get _ _ _ _ (nth_snoc_last h v)).
  unfold hret. cbn [fst snd]. auto using extends_app.
Qed.

Theorem h_iter_refines r h b : nth_error h r = Some b -> h_iter r h = (b_iter b, h).
Proof. intro E. unfold h_iter. now rewrite (hbind_get _ _ _ _ E). Qed.

Theorem h_len_refines r h b : nth_error h r = Some b -> h_len r h = (Ok (b_len b), h).
Proof. intro E. unfold h_len. now rewrite (hbind_get _ _ _ _ E). Qed.

(* ---- setitem: values may be the receiver itself ---- *)
Theorem h_setitem_bits_refines r s e v h b vb : nth_error h r = Some b -> nth_error h v = Some vb ->
  match h_setitem_bits r s e v h with
  | (Ok x, h') => x = r /\ exists w, b_setitem_bits b s e vb = Ok w /\ nth_error h' r = Some w
  | (Exc x, _) => b_setitem_bits b s e vb = Exc x
  | (Diverge, _) => b_setitem_bits b s e vb = Diverge
  end.
Proof.
  intros Er Ev. unfold h_setitem_bits, b_setitem_bits.
  rewrite hbind_eq, h_getitem_eq, Er.
  destruct (b_getitem b (Some 0) (Some s)) as [pre| |]; cbn [bind]; auto.
  assert (Er1 := nth_snoc_old h pre r b Er). assert (Ev1 := nth_snoc_old h pre v vb Ev).
  assert (Ep1 := nth_snoc_last h pre). set (h1 := h ++ [pre]) in *.
  rewrite hbind_eq, h_getitem_eq, Er1.
  destruct (b_getitem b (Some e) None) as [post| |]; cbn [bind]; auto.
  assert (Er2 := nth_snoc_old h1 post r b Er1). assert (Ev2 := nth_snoc_old h1 post v vb Ev1).
  assert (Ep2 := nth_snoc_old h1 post _ pre Ep1). assert (Eq2 := nth_snoc_last h1 post).
  set (h2 := h1 ++ [post]) in *.
  rewrite hbind_eq. pose proof (h_add_full (length h) v pre vb h2 Ep2 Ev2) as A1. unfold ref_refines in A1.
  destruct (h_add (length h) v h2) as [[pv|x|] h3];
    [ | destruct A1 as [_ ->]; reflexivity | destruct A1 as [_ ->]; reflexivity ].
  destruct A1 as (X3 & pvv & -> & Epv). cbn [bind].
  rewrite hbind_eq.
  pose proof (h_add_full pv (length h1) pvv post h3 Epv (extends_nth_some _ _ _ _ X3 Eq2)) as A2.
  unfold ref_refines in A2.
  destruct (h_add pv (length h1) h3) as [[nb|x|] h4];
    [ | destruct A2 as [_ ->]; reflexivity | destruct A2 as [_ ->]; reflexivity ].
  destruct A2 as (X4 & n & -> & En). cbn [bind].
  assert (Er4 : nth_error h4 r = Some b) by eauto using extends_nth_some.
  rewrite (hbind_get _ _ _ _ En), (hbind_get _ _ _ _ Er4), hbind_set. unfold hret.
  split; auto. eexists; split; [reflexivity | ]. apply upd_nth_same. eapply nth_some_lt; eauto.
Qed.

Theorem h_setitem_refines r s e v h b vb : nth_error h r = Some b -> nth_error h v = Some vb ->
  match h_setitem r s e v h with
  | (Ok x, h') => x = r /\ exists w, b_setitem b s e vb = Ok w /\ nth_error h' r = Some w
  | (Exc x, _) => b_setitem b s e vb = Exc x
  | (Diverge, _) => b_setitem b s e vb = Diverge
  end.
Proof.
  intros Er Ev. unfold h_setitem, b_setitem. rewrite (hbind_get _ _ _ _ Er).
  destruct (slice_indices (blen b) s e) as [s' e']. now apply h_setitem_bits_refines.
Qed.

Theorem h_setitem_int_refines r i v h b vb : nth_error h r = Some b -> nth_error h v = Some vb ->
  match h_setitem_int r i v h with
  | (Ok x, h') => x = r /\ exists w, b_setitem_int b i vb = Ok w /\ nth_error h' r = Some w
  | (Exc x, _) => b_setitem_int b i vb = Exc x
  | (Diverge, _) => b_setitem_int b i vb = Diverge
  end.
Proof. apply h_setitem_bits_refines. Qed.

(* ---- chunks ---- *)
Lemma Forall2_heap_mono h h' (l : list oref) (vs : list buf) : extends h h' ->
  Forall2 (fun x v => nth_error h x = Some v) l vs -> Forall2 (fun x v => nth_error h' x = Some v) l vs.
Proof. intros X F. induction F; constructor; eauto using extends_nth_some. Qed.

Lemma chunks_loop_refines r n b : forall k cursor h, nth_error h r = Some b ->
  match h_chunks_loop r n cursor k h with
  | (Ok (l, c), h') => extends h h' /\ exists vs, chunks_loop b n cursor k = Ok (vs, c) /\
                                                 Forall2 (fun x v => nth_error h' x = Some v) l vs
  | (Exc e, h') => extends h h' /\ chunks_loop b n cursor k = Exc e
  | (Diverge, h') => extends h h' /\ chunks_loop b n cursor k = Diverge
  end.
Proof.
  induction k; intros cursor h E; cbn [h_chunks_loop chunks_loop].
  - unfold hret. split. apply extends_refl. exists []. split; auto.
  - rewrite hbind_eq, h_getitem_eq, E.
    destruct (b_getitem b (Some cursor) (Some (cursor + n))) as [cv| |]; cbn [bind]; auto using extends_refl.
    rewrite hbind_eq. specialize (IHk (cursor + n) (h ++ [cv]) (nth_snoc_old h cv r b E)).
    assert (X1 : extends h (h ++ [cv])) by apply extends_app.
    destruct (h_chunks_loop r n (cursor + n) k (h ++ [cv])) as [[[l c]|e|] h2].
    + destruct IHk as (X2 & vs & -> & F2). cbn [bind fst snd]. unfold hret. split. ext_solve.
      exists (cv :: vs). split; auto. constructor; auto. eapply extends_nth_some; eauto. apply nth_snoc_last.
    + destruct IHk as (X2 & ->). cbn [bind]. split; auto. ext_solve.
    + destruct IHk as (X2 & ->). cbn [bind]. split; auto. ext_solve.
Qed.

Theorem h_chunks_refines r n p h b : nth_error h r = Some b ->
  match h_chunks r n p h with
  | (Ok l, h') => extends h h' /\ exists vs, b_chunks b n p = Ok vs /\
                                            Forall2 (fun x v => nth_error h' x = Some v) l vs
  | (Exc e, h') => extends h h' /\ b_chunks b n p = Exc e
  | (Diverge, h') => extends h h' /\ b_chunks b n p = Diverge
  end.
Proof.
  intro E. unfold h_chunks, b_chunks. rewrite (hbind_get _ _ _ _ E).
  destruct (n =? 0). { unfold hlift. auto using extends_refl. }
  destruct (n <? 0). { unfold hlift. auto using extends_refl. }
  cbv zeta. rewrite hbind_eq.
  match goal with |- context [h_chunks_loop r n 0 ?k h] => pose proof (chunks_loop_refines r n b k 0 h E) as L end.
  destruct (h_chunks_loop r n 0 _ h) as [[[cs cursor]|e|] h1];
    [ | destruct L as [X ->]; cbn [bind]; auto | destruct L as [X ->]; cbn [bind]; auto ].
  destruct L as (X1 & vs & -> & F1). cbn [bind].
  assert (E1 := extends_nth_some _ _ _ _ X1 E).
  rewrite hbind_eq, h_getitem_eq, E1.
  destruct (b_getitem b (Some cursor) (Some (cursor + n))) as [cv| |]; cbn [bind]; auto.
  assert (X2 : extends h1 (h1 ++ [cv])) by apply extends_app.
  assert (Ec := nth_snoc_last h1 cv).
  rewrite (hbind_get _ _ _ _ Ec).
  destruct (p && (blen cv <? n)).
  - rewrite hbind_assoc, hbind_eq, h_new_eq.
    destruct (b_new _ (n - blen cv) RIGHT) as [pv| |]; cbn [bind]; [ | split; auto; ext_solve ..].
    assert (X3 : extends (h1 ++ [cv]) ((h1 ++ [cv]) ++ [pv])) by apply extends_app.
    rewrite hbind_eq.
    pose proof (h_add_full (length h1) (length (h1 ++ [cv])) cv pv ((h1 ++ [cv]) ++ [pv])
                           (nth_snoc_old _ pv _ _ Ec) (nth_snoc_last _ pv)) as A.
    unfold ref_refines in A.
    destruct (h_add (length h1) (length (h1 ++ [cv])) ((h1 ++ [cv]) ++ [pv])) as [[last|e|] h4].
    + destruct A as (X4 & lv & -> & El). cbn [bind]. unfold hret. split. ext_solve.
      exists (vs ++ [lv]). split; auto. apply Forall2_app.
      * eapply Forall2_heap_mono; [ | exact F1]. ext_solve.
      * constructor; auto.
    + destruct A as (X4 & ->). cbn [bind]. split; auto. ext_solve.
    + destruct A as (X4 & ->). cbn [bind]. split; auto. ext_solve.
  - rewrite hbind_ret. unfold hret. cbn [bind]. split. ext_solve.
    exists (vs ++ [cv]). split; auto. apply Forall2_app.
    + eapply Forall2_heap_mono; [ | exact F1]. ext_solve.
    + constructor; auto.
Qed.

(* ---- what C16 uses: a step that is not in place leaves every existing object as it was, whatever the outcome ---- *)
Corollary hstep_pure_keeps o h r h' y : hop_pure o = true -> hstep o h = (r, h') -> (y < length h)%nat ->
  nth_error h' y = nth_error h y.
Proof. intros Hp H Hy. apply extends_nth; auto. eapply hstep_pure_frame; eauto. Qed.
