(* BufferSpec.v -- the Buffer methods of the byte-level model, stated on the bit sequence
   `abs b : list bool`: every method does exactly what the same operation does on a plain list
   of bits.  Lifts the numeric (`num`) specifications of BufNew / BufShiftPad / BufGetitem /
   BufAdd / BufMisc through the Bits.v algebra. *)
From Coq Require Import ZArith Znumtheory List Bool Lia.
From MS Require Import PyBase Buffer Bits ByteFacts BufferAbs BufNew BufShiftPad BufGetitem BufAdd BufMisc Schc Compute.
Import ListNotations.
Open Scope Z_scope.

Lemma pad_ok_add : BufAdd.pad_ok.
Proof. exact b_pad_spec. Qed.
Lemma pad_ok_misc : BufMisc.pad_ok.
Proof. exact b_pad_spec. Qed.

(* ---- missing pieces of the bits_of algebra -------------------------------------------------- *)

Lemma Z_of_bits_of_small n x : 0 <= x < 2 ^ Z.of_nat n -> Z_of_bits (bits_of n x) = x.
Proof. intros H. rewrite Z_of_bits_of. apply Z.mod_small. exact H. Qed.

Lemma bits_of_mod_Z L x : 0 <= L -> bits_of (Z.to_nat L) (x mod 2 ^ L) = bits_of (Z.to_nat L) x.
Proof. intros H. rewrite <- (Z2Nat.id L) at 2 by lia. apply bits_of_mod. Qed.

Fixpoint map2 (f : bool -> bool -> bool) (a b : list bool) : list bool :=
  match a, b with x :: a', y :: b' => f x y :: map2 f a' b' | _, _ => [] end.

Lemma bits_of_bitop f g n x y : (forall x y i, Z.testbit (f x y) i = g (Z.testbit x i) (Z.testbit y i)) ->
  bits_of n (f x y) = map2 g (bits_of n x) (bits_of n y).
Proof. intros H. induction n as [|n IH]; cbn [bits_of map2]; [reflexivity|]. rewrite H, IH. reflexivity. Qed.

Lemma bits_of_land n x y : bits_of n (Z.land x y) = map2 andb (bits_of n x) (bits_of n y).
Proof. apply bits_of_bitop. intros. apply Z.land_spec. Qed.
Lemma bits_of_lor n x y : bits_of n (Z.lor x y) = map2 orb (bits_of n x) (bits_of n y).
Proof. apply bits_of_bitop. intros. apply Z.lor_spec. Qed.
Lemma bits_of_lxor n x y : bits_of n (Z.lxor x y) = map2 xorb (bits_of n x) (bits_of n y).
Proof. apply bits_of_bitop. intros. apply Z.lxor_spec. Qed.

Lemma bits_of_lnot n x : bits_of n (Z.lnot x) = map negb (bits_of n x).
Proof. induction n as [|n IH]; cbn [bits_of map]; [reflexivity|]. rewrite Z.lnot_spec by lia. now rewrite IH. Qed.

(* one's complement on n bits *)
Lemma bits_of_compl n x : bits_of n (2 ^ Z.of_nat n - 1 - x) = map negb (bits_of n x).
Proof.
  rewrite <- bits_of_lnot. rewrite <- (bits_of_mod n (2 ^ Z.of_nat n - 1 - x)), <- (bits_of_mod n (Z.lnot x)).
  f_equal. unfold Z.lnot. replace (2 ^ Z.of_nat n - 1 - x) with (Z.pred (- x) + 1 * 2 ^ Z.of_nat n) by lia.
  apply Z.mod_add. apply Z.pow_nonzero; lia.
Qed.

(* shifting left appends zeros *)
Lemma bits_of_mul_pow2 n s x : bits_of (n + s) (x * 2 ^ Z.of_nat s) = bits_of n x ++ repeat false s.
Proof.
  rewrite <- bits_of_zero. rewrite <- bits_of_app.
  - f_equal. lia.
  - split; [lia|apply Z.pow_pos_nonneg; lia].
Qed.

Lemma nth_bits_of n x d : forall i, (i < n)%nat -> nth i (bits_of n x) d = Z.testbit x (Z.of_nat (n - 1 - i)).
Proof.
  induction n as [|n IH]; intros i Hi; [lia|]. cbn [bits_of]. destruct i as [|i]; cbn [nth].
  - f_equal. lia.
  - rewrite IH by lia. f_equal. lia.
Qed.

Lemma skipn_skipn' {A} (l : list A) : forall x y, skipn x (skipn y l) = skipn (y + x) l.
Proof.
  induction l as [|a l IH]; intros x y.
  - now rewrite !skipn_nil.
  - destruct y as [|y]; [reflexivity|]. cbn [skipn Nat.add]. apply IH.
Qed.

Lemma firstn_repeat {A} (x : A) k m : (k <= m)%nat -> firstn k (repeat x m) = repeat x k.
Proof.
  revert m. induction k as [|k IH]; intros m H; [reflexivity|]. destruct m as [|m]; [lia|].
  cbn [repeat firstn]. f_equal. apply IH. lia.
Qed.

(* cutting inside a zero tail: only the cut position matters *)
Lemma firstn_app_repeat {A} (x : A) (a : list A) : forall L p, (L <= length a + p)%nat ->
  firstn L (a ++ repeat x p) = firstn L (a ++ repeat x L).
Proof.
  induction a as [|y a IH]; intros L p H; cbn [app length] in *.
  - rewrite !firstn_repeat by lia. reflexivity.
  - destruct L as [|L]; [reflexivity|]. cbn [firstn]. f_equal.
    rewrite (IH L p) by lia. symmetry.
    rewrite (IH L (S L)) by lia. reflexivity.
Qed.

(* the bits s..e-1 (clamped to the length, as list slicing does) of an B-bit number *)
Lemma bits_slice B s e x : 0 <= B -> 0 <= s <= e ->
  firstn (Z.to_nat (e - s)) (skipn (Z.to_nat s) (bits_of (Z.to_nat B) x)) =
  bits_of (Z.to_nat (Z.min e B - Z.min s B)) (x / 2 ^ (B - Z.min e B)).
Proof.
  intros HB Hse. destruct (Z_le_gt_dec s B) as [HsB|HsB].
  - rewrite bits_of_skipn by lia. rewrite (Z.min_l s B) by lia.
    destruct (Z_le_gt_dec e B) as [HeB|HeB].
    + rewrite (Z.min_l e B) by lia. rewrite bits_of_firstn by lia.
      replace (Z.to_nat (e - s)) with (Z.to_nat e - Z.to_nat s)%nat by lia.
      f_equal. f_equal. f_equal. lia.
    + rewrite (Z.min_r e B) by lia. rewrite firstn_all2 by (rewrite bits_of_length; lia).
      rewrite Z.sub_diag, Z.pow_0_r, Z.div_1_r. f_equal. lia.
  - rewrite skipn_all2 by (rewrite bits_of_length; lia). rewrite firstn_nil.
    rewrite !Z.min_r by lia. rewrite Z.sub_diag. reflexivity.
Qed.

(* ---- abs ------------------------------------------------------------------------------------ *)

Lemma abs_length b : canon b -> length (abs b) = Z.to_nat (blen b).
Proof. intros _. unfold abs. apply bits_of_length. Qed.

Lemma abs_num b : canon b -> Z_of_bits (abs b) = num b.
Proof.
  intros H. pose proof (num_range b H) as R. unfold abs. apply Z_of_bits_of_small.
  destruct H as (H0 & _). rewrite Z2Nat.id by lia. exact R.
Qed.

Lemma abs_blen a b : canon a -> canon b -> abs a = abs b -> blen a = blen b.
Proof.
  intros Ha Hb E. apply (f_equal (@length bool)) in E. rewrite !abs_length in E by auto.
  destruct Ha as (Ha & _), Hb as (Hb & _). lia.
Qed.

Lemma abs_inj a b : canon a -> canon b -> bside a = bside b -> abs a = abs b -> a = b.
Proof.
  intros Ha Hb Hs E. apply canon_ext; auto.
  - apply abs_blen; auto.
  - rewrite <- !abs_num by auto. now rewrite E.
Qed.

Lemma abs_of r L n : blen r = L -> num r = n -> abs r = bits_of (Z.to_nat L) n.
Proof. intros <- <-. reflexivity. Qed.

Lemma zlen_abs b : canon b -> zlen (abs b) = blen b.
Proof. intros H. unfold zlen. rewrite abs_length by auto. destruct H as (H & _). lia. Qed.

(* ---- C05 ------------------------------------------------------------------------------------ *)

Theorem new_left_bits c L : bytes_ok c -> 0 <= L ->
  exists r, b_new c L LEFT = Ok r /\ canon r /\ bside r = LEFT /\ blen r = L /\ abs r = bits_of (Z.to_nat L) (val c).
Proof.
  intros Hc HL. destruct (b_new_left c L Hc HL) as (r & E & C & S & Lr & N).
  exists r. split; [exact E|]. split; [exact C|]. split; [exact S|]. split; [exact Lr|]. rewrite (abs_of r L _ Lr N).
  rewrite <- (bits_of_mod (Z.to_nat L) (val c)). rewrite Z2Nat.id by lia. reflexivity.
Qed.

(* RIGHT: the first L bits of the content, zero-extended on the right *)
Theorem new_right_bits c L : bytes_ok c -> 0 <= L ->
  exists r, b_new c L RIGHT = Ok r /\ canon r /\ bside r = RIGHT /\ blen r = L /\
            abs r = firstn (Z.to_nat L) (bits_of (8 * length c) (val c) ++ repeat false (Z.to_nat L)).
Proof.
  intros Hc HL. destruct (b_new_right c L Hc HL) as (r & E & C & S & Lr & N).
  exists r. split; [exact E|]. split; [exact C|]. split; [exact S|]. split; [exact Lr|]. rewrite (abs_of r L _ Lr N). clear N.
  set (k := (L + 7) / 8). pose proof (zlen_nonneg c) as Hz.
  assert (L <= 8 * k) as HLk.
  { destruct (calc_pl_spec L) as (k' & Hk & Hk'). pose proof (calc_pl_range L). unfold k. lia. }
  set (m := Z.max 0 (k - zlen c)). assert (0 <= m) by lia.
  assert (Z.max (zlen c) k = zlen c + m) as -> by lia.
  set (nn := (8 * length c)%nat). set (mm := Z.to_nat (8 * m)).
  assert (256 ^ m = 2 ^ Z.of_nat mm) as -> by (rewrite pow2_8 by lia; f_equal; lia).
  assert (8 * (zlen c + m) - L = Z.of_nat ((nn + mm) - Z.to_nat L)) as -> by (unfold zlen, nn, mm in *; lia).
  rewrite <- bits_of_firstn by (unfold zlen, nn, mm in *; lia).
  rewrite bits_of_mul_pow2. apply firstn_app_repeat. rewrite bits_of_length. unfold zlen, nn, mm in *. lia.
Qed.

Theorem copy_bits b : canon b -> b_copy b = Ok b.
Proof. apply b_copy_canon. Qed.

Theorem iter_bits b : canon b -> b_iter b = Ok (map Z.b2z (abs b)) /\ b_len b = Z.of_nat (length (abs b)).
Proof.
  intros H. split; [apply b_iter_spec; auto|]. unfold b_len. rewrite abs_length by auto.
  destruct H as (H & _). lia.
Qed.

Theorem getitem_bits b s e : canon b -> 0 <= s <= e ->
  exists r, b_getitem b (Some s) (Some e) = Ok r /\ canon r /\ bside r = bside b /\
            abs r = firstn (Z.to_nat (e - s)) (skipn (Z.to_nat s) (abs b)).
Proof.
  intros Hb Hse. destruct (b_getitem_spec b s e Hb Hse) as (r & E & C & S & Lr & N). cbv zeta in *.
  exists r. split; [exact E|]. split; [exact C|]. split; [exact S|]. rewrite (abs_of r _ _ Lr N). unfold abs.
  destruct Hb as (HB & _). rewrite bits_slice by lia.
  set (k := Z.min e (blen b) - Z.min s (blen b)). assert (0 <= k) by lia.
  rewrite <- (bits_of_mod (Z.to_nat k) (num b / _)). rewrite Z2Nat.id by lia. reflexivity.
Qed.

Theorem getitem_from_bits b s : canon b -> 0 <= s ->
  exists r, b_getitem b (Some s) None = Ok r /\ canon r /\ bside r = bside b /\ abs r = skipn (Z.to_nat s) (abs b).
Proof.
  intros Hb Hs. destruct (b_getitem_from_spec b s Hb Hs) as (r & E & C & S & Lr & N). cbv zeta in *.
  exists r. split; [exact E|]. split; [exact C|]. split; [exact S|]. rewrite (abs_of r _ _ Lr N). unfold abs.
  destruct Hb as (HB & _). destruct (Z_le_gt_dec s (blen b)).
  - rewrite Z.min_l by lia. rewrite bits_of_skipn by lia.
    replace (Z.to_nat (blen b) - Z.to_nat s)%nat with (Z.to_nat (blen b - s)) by lia.
    rewrite <- (bits_of_mod (Z.to_nat (blen b - s)) (num b)). rewrite Z2Nat.id by lia. reflexivity.
  - rewrite Z.min_r by lia. rewrite skipn_all2 by (rewrite bits_of_length; lia).
    rewrite Z.sub_diag. reflexivity.
Qed.

Theorem getitem_to_bits b e : canon b -> 0 <= e ->
  exists r, b_getitem b None (Some e) = Ok r /\ canon r /\ bside r = bside b /\ abs r = firstn (Z.to_nat e) (abs b).
Proof.
  intros Hb He. destruct (b_getitem_to_spec b e Hb He) as (r & E & C & S & Lr & N). cbv zeta in *.
  exists r. split; [exact E|]. split; [exact C|]. split; [exact S|]. rewrite (abs_of r _ _ Lr N). unfold abs.
  destruct Hb as (HB & _). destruct (Z_le_gt_dec e (blen b)).
  - rewrite Z.min_l by lia. rewrite bits_of_firstn by lia. f_equal. f_equal. f_equal. lia.
  - rewrite Z.min_r by lia. rewrite firstn_all2 by (rewrite bits_of_length; lia).
    rewrite Z.sub_diag, Z.pow_0_r, Z.div_1_r. reflexivity.
Qed.

Theorem getitem_all_bits b : canon b -> exists r, b_getitem b None None = Ok r /\ canon r /\ bside r = bside b /\ abs r = abs b.
Proof.
  intros Hb. assert (0 <= blen b) as HB by (destruct Hb; auto).
  unfold b_getitem, slice_indices, clamp_index.
  destruct (b_getitem_bits_spec b 0 (blen b) Hb ltac:(lia) ltac:(lia)) as (r & E & C & S & Lr & N).
  exists r. split; [exact E|]. split; [exact C|]. split; [exact S|]. rewrite (abs_of r _ _ Lr N). unfold abs.
  rewrite Z.sub_diag, Z.pow_0_r, Z.div_1_r, Z.sub_0_r.
  apply bits_of_mod_Z. lia.
Qed.

Theorem getint_bits b i : canon b -> 0 <= i < blen b ->
  exists r, b_getitem_int b i = Ok r /\ canon r /\ bside r = bside b /\ abs r = [nth (Z.to_nat i) (abs b) false].
Proof.
  intros Hb Hi. destruct (b_getitem_int_spec b i Hb Hi) as (r & E & C & S & Lr & N).
  exists r. split; [exact E|]. split; [exact C|]. split; [exact S|]. rewrite (abs_of r _ _ Lr N). unfold abs.
  rewrite nth_bits_of by lia. change (Z.to_nat 1) with 1%nat.
  change 2 with (2 ^ Z.of_nat 1) at 2. rewrite bits_of_mod. cbn [bits_of]. f_equal.
  change (Z.of_nat 0) with 0. rewrite Z.div_pow2_bits by lia. f_equal. lia.
Qed.

Theorem add_bits l r : canon l -> canon r ->
  exists x, b_add l r = Ok x /\ canon x /\ bside x = bside l /\ abs x = abs l ++ abs r.
Proof.
  intros Hl Hr. destruct (b_add_spec pad_ok_add l r Hl Hr) as (x & E & C & S & Lx & N).
  exists x. split; [exact E|]. split; [exact C|]. split; [exact S|]. rewrite (abs_of x _ _ Lx N). unfold abs.
  pose proof (num_range r Hr) as R. destruct Hl as (HL & _). destruct Hr as (HR & _).
  rewrite Z2Nat.inj_add by lia.
  rewrite <- (Z2Nat.id (blen r)) at 2 by lia. apply bits_of_app. rewrite Z2Nat.id by lia. exact R.
Qed.

Lemma setitem_bits_core b s e v : canon b -> canon v -> 0 <= s <= e ->
  exists r, b_setitem_bits b s e v = Ok r /\ canon r /\ bside r = bside b /\
            abs r = firstn (Z.to_nat s) (abs b) ++ abs v ++ skipn (Z.to_nat e) (abs b).
Proof.
  intros Hb Hv Hse. unfold b_setitem_bits.
  destruct (getitem_bits b 0 s Hb ltac:(lia)) as (pre & E1 & C1 & S1 & A1). rewrite E1. cbn [bind].
  destruct (getitem_from_bits b e Hb ltac:(lia)) as (post & E2 & C2 & S2 & A2). rewrite E2. cbn [bind].
  destruct (add_bits pre v C1 Hv) as (pv & E3 & C3 & S3 & A3). rewrite E3. cbn [bind].
  destruct (add_bits pv post C3 C2) as (nb & E4 & C4 & S4 & A4). rewrite E4. cbn [bind].
  assert (bside nb = bside b) as Sn by congruence.
  exists nb. split; [f_equal; destruct nb as [c0 l0 s0 p0]; cbn [content blen bside bpl] in *; now rewrite Sn|].
  split; [exact C4|]. split; [exact Sn|]. rewrite A4, A3, A1, A2. rewrite Z.sub_0_r. cbn [Z.to_nat skipn].
  now rewrite <- app_assoc.
Qed.

Theorem setitem_bits b s e v : canon b -> canon v -> 0 <= s <= e -> e <= blen b ->
  exists r, b_setitem b (Some s) (Some e) v = Ok r /\ canon r /\ bside r = bside b /\
            abs r = firstn (Z.to_nat s) (abs b) ++ abs v ++ skipn (Z.to_nat e) (abs b).
Proof.
  intros Hb Hv Hse He. unfold b_setitem, slice_indices, clamp_index.
  destruct (Z.ltb_spec s 0); [lia|]. destruct (Z.ltb_spec (blen b) s); [lia|].
  destruct (Z.ltb_spec e 0); [lia|]. destruct (Z.ltb_spec (blen b) e); [lia|].
  apply setitem_bits_core; auto.
Qed.

Theorem setint_bits b i v : canon b -> canon v -> 0 <= i < blen b ->
  exists r, b_setitem_int b i v = Ok r /\ canon r /\ bside r = bside b /\
            abs r = firstn (Z.to_nat i) (abs b) ++ abs v ++ skipn (Z.to_nat (i + 1)) (abs b).
Proof. intros Hb Hv Hi. unfold b_setitem_int. apply setitem_bits_core; auto. lia. Qed.

Theorem pad_bits b sd ip : canon b -> exists r, b_pad b sd ip = Ok r /\ canon r /\ bside r = sd /\ abs r = abs b.
Proof.
  intros Hb. destruct (b_pad_spec b sd ip Hb) as (r & E & C & S & Lr & N).
  exists r. split; [exact E|]. split; [exact C|]. split; [exact S|]. apply abs_of; auto.
Qed.

(* ---- C06 ------------------------------------------------------------------------------------ *)

Theorem shift_left_bits b s ip : canon b -> 0 <= s ->
  exists r, b_shift b (- s) ip = Ok r /\ canon r /\ bside r = bside b /\ abs r = abs b ++ repeat false (Z.to_nat s).
Proof.
  intros Hb Hs. destruct (b_shift_spec b (- s) ip Hb) as (r & E & C & S & Hneg & _).
  destruct (Hneg ltac:(lia)) as (Lr & N).
  exists r. split; [exact E|]. split; [exact C|]. split; [exact S|].
  rewrite (abs_of r _ _ Lr N). unfold abs. destruct Hb as (HB & _).
  replace (blen b - - s) with (blen b + s) by lia. rewrite Z.opp_involutive.
  rewrite Z2Nat.inj_add by lia. rewrite <- (Z2Nat.id s) at 2 by lia. apply bits_of_mul_pow2.
Qed.

Theorem shift_right_bits b s ip : canon b -> 0 <= s ->
  exists r, b_shift b s ip = Ok r /\ canon r /\ bside r = bside b /\ abs r = firstn (Z.to_nat (blen b - s)) (abs b).
Proof.
  intros Hb Hs. destruct (b_shift_spec b s ip Hb) as (r & E & C & S & Hneg & Hpos).
  exists r. split; [exact E|]. split; [exact C|]. split; [exact S|].
  assert (0 <= blen b) as HB by (destruct Hb; auto). unfold abs at 2.
  destruct (Z.eq_dec s 0) as [->|Hne].
  - destruct (Hneg ltac:(lia)) as (Lr & N). rewrite (abs_of r _ _ Lr N).
    rewrite firstn_all2 by (rewrite bits_of_length; lia).
    change (- 0) with 0. rewrite Z.pow_0_r, Z.mul_1_r, Z.sub_0_r. reflexivity.
  - destruct (Hpos ltac:(lia)) as (Lr & N). rewrite (abs_of r _ _ Lr N).
    destruct (Z_le_gt_dec (blen b) s).
    + replace (Z.max 0 (blen b - s)) with 0 by lia. replace (Z.to_nat (blen b - s)) with 0%nat by lia. reflexivity.
    + replace (Z.max 0 (blen b - s)) with (blen b - s) by lia.
      rewrite bits_of_firstn by lia. f_equal. f_equal. f_equal. lia.
Qed.

Theorem shift_inplace_irrelevant b s : canon b -> b_shift b s true = b_shift b s false.
Proof. intros Hb. unfold b_shift. rewrite (b_copy_canon b Hb). reflexivity. Qed.

Theorem pad_inplace_irrelevant b sd : canon b -> b_pad b sd true = b_pad b sd false.
Proof. intros Hb. unfold b_pad. rewrite (b_new_canon b Hb). reflexivity. Qed.

Theorem and_bits a b : canon a -> canon b -> blen a = blen b ->
  exists x, b_and a b = Ok x /\ canon x /\ bside x = bside a /\ abs x = map2 andb (abs a) (abs b).
Proof.
  intros Ha Hb HL. destruct (b_and_spec pad_ok_misc a b Ha Hb HL) as (x & E & C & S & Lx & N).
  exists x. split; [exact E|]. split; [exact C|]. split; [exact S|].
  rewrite (abs_of x _ _ Lx N). unfold abs. rewrite <- HL. apply bits_of_land.
Qed.

Theorem or_bits a b : canon a -> canon b -> blen a = blen b ->
  exists x, b_or a b = Ok x /\ canon x /\ bside x = bside a /\ abs x = map2 orb (abs a) (abs b).
Proof.
  intros Ha Hb HL. destruct (b_or_spec pad_ok_misc a b Ha Hb HL) as (x & E & C & S & Lx & N).
  exists x. split; [exact E|]. split; [exact C|]. split; [exact S|].
  rewrite (abs_of x _ _ Lx N). unfold abs. rewrite <- HL. apply bits_of_lor.
Qed.

Theorem xor_bits a b : canon a -> canon b -> blen a = blen b ->
  exists x, b_xor a b = Ok x /\ canon x /\ bside x = bside a /\ abs x = map2 xorb (abs a) (abs b).
Proof.
  intros Ha Hb HL. destruct (b_xor_spec pad_ok_misc a b Ha Hb HL) as (x & E & C & S & Lx & N).
  exists x. split; [exact E|]. split; [exact C|]. split; [exact S|].
  rewrite (abs_of x _ _ Lx N). unfold abs. rewrite <- HL. apply bits_of_lxor.
Qed.

Theorem bitwise_len_mismatch f a b : blen a <> blen b -> b_bitwise f a b = Exc ValueError.
Proof. apply b_bitwise_len. Qed.

Theorem invert_bits b : canon b -> exists x, b_invert b = Ok x /\ canon x /\ bside x = bside b /\ abs x = map negb (abs b).
Proof.
  intros Hb. destruct (b_invert_spec b Hb) as (x & E & C & S & Lx & N).
  exists x. split; [exact E|]. split; [exact C|]. split; [exact S|].
  rewrite (abs_of x _ _ Lx N). unfold abs. destruct Hb as (HB & _).
  rewrite <- (Z2Nat.id (blen b)) at 2 by lia. apply bits_of_compl.
Qed.

Theorem value_bits b : canon b -> b_value b = Ok (Z_of_bits (abs b)).
Proof. intros Hb. rewrite abs_num by auto. apply b_value_spec; auto. exact pad_ok_misc. Qed.

(* ---- chunks --------------------------------------------------------------------------------- *)
(* characterisation of the fuelled Compute.chunks *)
Lemma chunks_fuel_S f n p b : chunks_fuel (S f) n p b =
  if (length b <=? n)%nat then [if p then b ++ repeat false (n - length b) else b]
  else firstn n b :: chunks_fuel f n p (skipn n b).
Proof. reflexivity. Qed.

Lemma chunks_fuel_enough n p : (0 < n)%nat -> forall f1 f2 l, (length l < f1)%nat -> (length l < f2)%nat ->
  chunks_fuel f1 n p l = chunks_fuel f2 n p l.
Proof.
  intros Hn. induction f1 as [|f1 IH]; intros f2 l H1 H2; [lia|]. destruct f2 as [|f2]; [lia|].
  rewrite !chunks_fuel_S. destruct (Nat.leb_spec (length l) n); [reflexivity|].
  f_equal. apply IH; rewrite skipn_length; lia.
Qed.

Lemma chunks_le n p l : (length l <= n)%nat -> chunks n p l = [if p then l ++ repeat false (n - length l) else l].
Proof. intros H. unfold chunks. rewrite chunks_fuel_S. destruct (Nat.leb_spec (length l) n); [reflexivity|lia]. Qed.

Lemma chunks_gt n p l : (0 < n)%nat -> (n < length l)%nat -> chunks n p l = firstn n l :: chunks n p (skipn n l).
Proof.
  intros Hn H. unfold chunks. rewrite (chunks_fuel_S (length l)). destruct (Nat.leb_spec (length l) n); [lia|].
  f_equal. apply chunks_fuel_enough; auto; rewrite skipn_length; lia.
Qed.

Lemma chunks_loop_spec b n p : canon b -> 0 < n -> forall k cursor, 0 <= cursor ->
  (k = O \/ cursor + Z.of_nat k * n < blen b) ->
  exists cs, chunks_loop b n cursor k = Ok (cs, cursor + Z.of_nat k * n) /\ Forall canon cs /\
    chunks (Z.to_nat n) p (skipn (Z.to_nat cursor) (abs b)) =
    map abs cs ++ chunks (Z.to_nat n) p (skipn (Z.to_nat (cursor + Z.of_nat k * n)) (abs b)).
Proof.
  intros Hb Hn. induction k as [|k IH]; intros cursor Hc Hk.
  - exists []. replace (cursor + Z.of_nat 0 * n) with cursor by lia.
    split; [reflexivity|]. split; [constructor|reflexivity].
  - destruct Hk as [Hk|Hk]; [discriminate|].
    assert (0 <= Z.of_nat k * n) as Hkn by (apply Z.mul_nonneg_nonneg; lia).
    replace (cursor + Z.of_nat (S k) * n) with (cursor + n + Z.of_nat k * n) in * by lia.
    cbn [chunks_loop].
    destruct (getitem_bits b cursor (cursor + n) Hb ltac:(lia)) as (c & E & C & _ & A). rewrite E. cbn [bind].
    destruct (IH (cursor + n) ltac:(lia) ltac:(right; lia)) as (cs & E' & F & A'). rewrite E'. cbn [bind fst snd].
    exists (c :: cs). split; [reflexivity|]. split; [constructor; auto|].
    cbn [map app]. rewrite <- A'. rewrite A.
    replace (Z.to_nat (cursor + n - cursor)) with (Z.to_nat n) by lia.
    rewrite chunks_gt; [|lia|rewrite skipn_length, abs_length by auto; lia].
    rewrite skipn_skipn'. do 3 f_equal. lia.
Qed.

(* chunks: Compute.chunks is the plain list version (also used by the checksum model) *)
Theorem chunks_bits b n padding : canon b -> 0 < n ->
  exists cs, b_chunks b n padding = Ok cs /\ Forall canon cs /\ map abs cs = chunks (Z.to_nat n) padding (abs b).
Proof.
  intros Hb Hn. assert (0 <= blen b) as HB by (destruct Hb; auto). unfold b_chunks.
  destruct (Z.eqb_spec n 0); [lia|]. destruct (Z.ltb_spec n 0); [lia|].
  set (count := if blen b mod n =? 0 then blen b / n else blen b / n + 1).
  set (K := Z.to_nat (count - 1)).
  assert ((K = O \/ Z.of_nat K * n < blen b) /\ 0 <= Z.of_nat K * n <= blen b /\ blen b - Z.of_nat K * n <= n) as (HK1 & HK2 & HK3).
  { pose proof (Z.div_mod (blen b) n ltac:(lia)) as Hdm. pose proof (Z.mod_pos_bound (blen b) n ltac:(lia)) as Hr.
    pose proof (Z.div_pos (blen b) n ltac:(lia) ltac:(lia)) as Hq.
    unfold K, count. set (q := blen b / n) in *. set (r := blen b mod n) in *. clearbody q r.
    destruct (Z.eqb_spec r 0) as [Hr0|Hr0].
    - destruct (Z.eq_dec q 0) as [Hq0|Hq0].
      + rewrite Hq0. cbn. rewrite Hq0 in Hdm. lia.
      + assert (Z.of_nat (Z.to_nat (q - 1)) = q - 1) as -> by lia.
        pose proof (Z.mul_nonneg_nonneg (q - 1) n ltac:(lia) ltac:(lia)). split; [right|]; lia.
    - assert (Z.of_nat (Z.to_nat (q + 1 - 1)) = q) as -> by lia.
      pose proof (Z.mul_nonneg_nonneg q n ltac:(lia) ltac:(lia)). split; [right|]; lia. }
  clearbody K. clear count.
  destruct (chunks_loop_spec b n padding Hb Hn K 0 ltac:(lia) ltac:(lia)) as (cs & E & F & A).
  rewrite E. cbn [bind]. rewrite Z.add_0_l in *. set (cur := Z.of_nat K * n) in *.
  destruct (getitem_bits b cur (cur + n) Hb ltac:(lia)) as (c & Ec & Cc & _ & Ac). rewrite Ec. cbn [bind].
  set (rem := skipn (Z.to_nat cur) (abs b)) in *.
  assert (length rem = Z.to_nat (blen b - cur)) as Lrem by (unfold rem; rewrite skipn_length, abs_length by auto; lia).
  assert (abs c = rem) as Ac'.
  { rewrite Ac. apply firstn_all2. lia. }
  assert (blen c = blen b - cur) as Lc.
  { pose proof (abs_length c Cc) as Hl. rewrite Ac', Lrem in Hl. destruct Cc as (Hc0 & _). lia. }
  cbn [Z.to_nat skipn] in A. rewrite A, chunks_le by lia.
  destruct padding; cbn [andb].
  - destruct (Z.ltb_spec (blen c) n) as [Hlt|Hge].
    + pose proof (b_new_right (zeros (if n mod 8 =? 0 then n / 8 else n / 8 + 1)) (n - blen c) (bytes_ok_zeros _) ltac:(lia)) as Hnew.
      cbv zeta in Hnew. destruct Hnew as (pz & Ep & Cp & _ & Lp & Np). rewrite Ep. cbn [bind].
      rewrite val_zeros, Z.mul_0_l, Zdiv_0_l in Np.
      destruct (add_bits c pz Cc Cp) as (x & Ex & Cx & _ & Ax). rewrite Ex. cbn [bind].
      exists (cs ++ [x]). split; [reflexivity|]. split; [apply Forall_app; split; [auto|constructor; auto]|].
      rewrite map_app. cbn [map]. do 2 f_equal. rewrite Ax, Ac'. f_equal.
      rewrite (abs_of pz _ _ Lp Np), bits_of_zero. f_equal. lia.
    + exists (cs ++ [c]). split; [reflexivity|]. split; [apply Forall_app; split; [auto|constructor; auto]|].
      rewrite map_app. cbn [map]. do 2 f_equal. rewrite Ac'.
      replace (Z.to_nat n - length rem)%nat with 0%nat by lia. cbn [repeat]. now rewrite app_nil_r.
  - exists (cs ++ [c]). split; [reflexivity|]. split; [apply Forall_app; split; [auto|constructor; auto]|].
    rewrite map_app. cbn [map]. now rewrite Ac'.
Qed.

(* ---- C13 ------------------------------------------------------------------------------------ *)

Lemma bits_eqb_eq x y : bits_eqb x y = true <-> x = y.
Proof.
  unfold bits_eqb. revert y. induction x as [|a x IH]; intros [|c y]; cbn [list_eqb]; split; intros H;
    try discriminate; try reflexivity.
  - apply andb_true_iff in H as [H1 H2]. apply (proj1 (eqb_true_iff a c)) in H1. apply (proj1 (IH y)) in H2. subst. reflexivity.
  - injection H as -> ->. apply andb_true_iff. split; [apply eqb_reflx|apply IH; reflexivity].
Qed.

(* equal length and equal number  <->  equal bit sequences *)
Lemma len_num_bits_eqb a b : canon a -> canon b ->
  (blen a =? blen b) && (num a =? num b) = bits_eqb (abs a) (abs b).
Proof.
  intros Ha Hb. apply eq_true_iff_eq. rewrite andb_true_iff, !Z.eqb_eq, bits_eqb_eq. split.
  - intros [HL HN]. unfold abs. now rewrite HL, HN.
  - intros E. split; [apply abs_blen; auto|]. rewrite <- !abs_num by auto. now rewrite E.
Qed.

Theorem eq_bits a b : canon a -> canon b -> b_eq a b = Ok (bits_eqb (abs a) (abs b)).
Proof. intros Ha Hb. rewrite (b_eq_spec pad_ok_misc a b Ha Hb). f_equal. apply len_num_bits_eqb; auto. Qed.

Theorem hash_bits a b : canon a -> canon b -> abs a = abs b -> exists h, b_hash_key a = Ok h /\ b_hash_key b = Ok h.
Proof.
  intros Ha Hb E. apply (b_hash_key_spec pad_ok_misc); auto.
  - apply abs_blen; auto.
  - rewrite <- !abs_num by auto. now rewrite E.
Qed.

Definition abs_keys {V} (d : list (buf * V)) : list (bits * V) := map (fun kv => (abs (fst kv), snd kv)) d.

Lemma key_match_bits k p : canon k -> canon p -> key_match k p = Ok (bits_eqb (abs k) (abs p)).
Proof. intros Hk Hp. rewrite (key_match_spec pad_ok_misc k p Hk Hp). f_equal. apply len_num_bits_eqb; auto. Qed.

Theorem dict_get_bits {V} (d : list (buf * V)) p : Forall (fun kv => canon (fst kv)) d -> canon p ->
  dict_get d p = Ok (assoc_get (abs_keys d) (abs p)).
Proof.
  intros Hd Hp. induction d as [|[k v] d IH]; [reflexivity|].
  inversion Hd as [|? ? Hk Hd']; subst. cbn [fst] in Hk.
  cbn [dict_get abs_keys map assoc_get fst snd]. rewrite key_match_bits by auto. cbn [bind].
  destruct (bits_eqb (abs k) (abs p)); [reflexivity|]. apply IH; auto.
Qed.

Theorem dict_set_bits {V} (d : list (buf * V)) k (v : V) : Forall (fun kv => canon (fst kv)) d -> canon k ->
  exists d', dict_set d k v = Ok d' /\ Forall (fun kv => canon (fst kv)) d' /\ abs_keys d' = assoc_set (abs_keys d) (abs k) v.
Proof.
  intros Hd Hk. induction d as [|[k0 v0] d IH].
  - exists [(k, v)]. split; [reflexivity|]. split; [constructor; auto|reflexivity].
  - inversion Hd as [|? ? Hk0 Hd']; subst. cbn [fst] in Hk0.
    cbn [dict_set abs_keys map assoc_set fst snd]. rewrite key_match_bits by auto. cbn [bind].
    destruct (bits_eqb (abs k0) (abs k)).
    + exists ((k0, v) :: d). split; [reflexivity|]. split; [constructor; auto|reflexivity].
    + destruct (IH Hd') as (d' & E & F & A). rewrite E. cbn [bind].
      exists ((k0, v0) :: d'). split; [reflexivity|]. split; [constructor; auto|].
      cbn [abs_keys map fst snd]. f_equal. exact A.
Qed.

(* ---- pieces of other modules that reach into .content ---------------------------------------- *)

Theorem lsb_bits_spec fv n : canon fv -> bside fv = LEFT -> 0 <= n <= blen fv ->
  exists r, lsb_bytes fv n = Ok r /\ canon r /\ bside r = LEFT /\ lsb_bits (abs fv) n = Ok (abs r).
Proof.
  intros Hf Hs Hn. destruct (lsb_bytes_spec fv n Hf Hs Hn) as (r & E & C & S & Lr & N).
  exists r. split; [exact E|]. split; [exact C|]. split; [exact S|].
  unfold lsb_bits. rewrite zlen_abs by auto.
  destruct (Z.ltb_spec n 0); [lia|]. destruct (Z.ltb_spec (blen fv) n); [lia|]. cbn [orb]. f_equal.
  rewrite (abs_of r _ _ Lr N). unfold abs. rewrite bits_of_skipn by lia.
  replace (Z.to_nat (blen fv) - Z.to_nat (blen fv - n))%nat with (Z.to_nat n) by lia.
  symmetry. apply bits_of_mod_Z. lia.
Qed.

Theorem prefix_value_bits b : canon b -> prefix_value b = Ok (Z_of_bits (abs b)).
Proof. intros Hb. rewrite abs_num by auto. apply prefix_value_spec; auto. exact pad_ok_misc. Qed.
