(* ByteFacts.v -- byte strings as big-endian numbers: facts about val, the carry loops of buffer.py,
   single-byte shift/mask identities.  Proof file. *)
From Coq Require Import ZArith List Bool Lia.
From MS Require Import PyBase Buffer.
Import ListNotations.
Open Scope Z_scope.

Definition bytes_ok (bs : list Z) : Prop := Forall (fun b => 0 <= b < 256) bs.

Lemma bytes_ok_app a b : bytes_ok (a ++ b) <-> bytes_ok a /\ bytes_ok b.
Proof. unfold bytes_ok. apply Forall_app. Qed.

Lemma bytes_ok_cons x l : bytes_ok (x :: l) <-> 0 <= x < 256 /\ bytes_ok l.
Proof. unfold bytes_ok. split; intros H. inversion H; auto. constructor; tauto. Qed.

Lemma bytes_ok_nil : bytes_ok []. Proof. constructor. Qed.

Lemma is_byte_true x : is_byte x = true <-> 0 <= x < 256.
Proof. unfold is_byte. rewrite andb_true_iff, Z.leb_le, Z.ltb_lt. tauto. Qed.

Lemma check_bytes_ok l : bytes_ok l -> check_bytes l = Ok l.
Proof.
  intros H. unfold check_bytes. replace (forallb is_byte l) with true; auto.
  symmetry. apply forallb_forall. intros x Hx. apply is_byte_true.
  unfold bytes_ok in H. rewrite Forall_forall in H. auto.
Qed.

Lemma to_byte_ok x : 0 <= x < 256 -> to_byte x = Ok x.
Proof. intros H. unfold to_byte. apply is_byte_true in H. now rewrite H. Qed.

Lemma zlen_app {A} (a b : list A) : zlen (a ++ b) = zlen a + zlen b.
Proof. unfold zlen. rewrite app_length. lia. Qed.
Lemma zlen_cons {A} (x : A) l : zlen (x :: l) = 1 + zlen l.
Proof. unfold zlen. cbn [length]. lia. Qed.
Lemma zlen_nonneg {A} (l : list A) : 0 <= zlen l.
Proof. unfold zlen. lia. Qed.
Lemma zlen_nil {A} : zlen (@nil A) = 0. Proof. reflexivity. Qed.

Lemma val_app a b : val (a ++ b) = val a * 256 ^ zlen b + val b.
Proof.
  unfold zlen. induction a as [|x a IH]; cbn [val app]; [lia|].
  rewrite IH, app_length, Nat2Z.inj_add, Z.pow_add_r by lia. ring.
Qed.

Lemma val_cons x l : val (x :: l) = x * 256 ^ zlen l + val l.
Proof. reflexivity. Qed.

Lemma val_single x : val [x] = x.
Proof. cbn. lia. Qed.

Lemma pow256_pos n : 0 < 256 ^ n \/ n < 0.
Proof. destruct (Z_lt_le_dec n 0); [right; lia|left; apply Z.pow_pos_nonneg; lia]. Qed.

Lemma val_bound bs : bytes_ok bs -> 0 <= val bs < 256 ^ zlen bs.
Proof.
  unfold zlen. induction bs as [|x l IH]; intros H.
  - cbn. lia.
  - apply bytes_ok_cons in H as [Hx Hl]. specialize (IH Hl). cbn [val length].
    rewrite Nat2Z.inj_succ, Z.pow_succ_r by lia. nia.
Qed.

Lemma val_zeros n : val (zeros n) = 0.
Proof. unfold zeros. induction (Z.to_nat n); cbn [repeat val]; lia. Qed.

Lemma zlen_zeros n : zlen (zeros n) = Z.max 0 n.
Proof. unfold zlen, zeros. rewrite repeat_length. lia. Qed.

Lemma bytes_ok_zeros n : bytes_ok (zeros n).
Proof. unfold zeros, bytes_ok. induction (Z.to_nat n); cbn; constructor; auto; lia. Qed.

(* uniqueness of the base-256 representation *)
Lemma val_inj a b : bytes_ok a -> bytes_ok b -> length a = length b -> val a = val b -> a = b.
Proof.
  revert b. induction a as [|x a IH]; intros [|y b] Ha Hb Hl Hv; try discriminate; auto.
  apply bytes_ok_cons in Ha as [Hx Ha]. apply bytes_ok_cons in Hb as [Hy Hb].
  injection Hl as Hl. rewrite !val_cons in Hv.
  pose proof (val_bound a Ha) as Ba. pose proof (val_bound b Hb) as Bb.
  unfold zlen in *. rewrite Hl in *.
  set (P := 256 ^ Z.of_nat (length b)) in *.
  assert (x = y) by nia. subst y. f_equal. apply IH; auto. lia.
Qed.

(* firstn/skipn on byte strings *)
Lemma val_firstn_skipn n l : val l = val (firstn n l) * 256 ^ zlen (skipn n l) + val (skipn n l).
Proof. rewrite <- val_app, firstn_skipn. reflexivity. Qed.

Lemma bytes_ok_firstn n l : bytes_ok l -> bytes_ok (firstn n l).
Proof. intros H. rewrite <- (firstn_skipn n l) in H. apply bytes_ok_app in H. tauto. Qed.
Lemma bytes_ok_skipn n l : bytes_ok l -> bytes_ok (skipn n l).
Proof. intros H. rewrite <- (firstn_skipn n l) in H. apply bytes_ok_app in H. tauto. Qed.

(* single byte shift / mask identities *)
Lemma byte_shiftr b s : 0 <= s -> Z.shiftr b s = b / 2 ^ s.
Proof. intros. apply Z.shiftr_div_pow2; lia. Qed.
Lemma byte_shiftl b s : 0 <= s -> Z.shiftl b s = b * 2 ^ s.
Proof. intros. apply Z.shiftl_mul_pow2; lia. Qed.
Lemma low_mask b s : 0 <= s -> Z.land b (Z.shiftl 1 s - 1) = b mod 2 ^ s.
Proof.
  intros Hs. rewrite Z.shiftl_1_l.
  replace (2 ^ s - 1) with (Z.ones s) by (rewrite Z.ones_equiv; lia). apply Z.land_ones; lia.
Qed.
Lemma land_255 b : Z.land b 255 = b mod 256.
Proof. change 255 with (Z.ones 8). rewrite Z.land_ones by lia. reflexivity. Qed.

(* (0xff >> pl) & 0xff = 2^(8-pl) - 1  and  (0xff << pl) & 0xff = 256 - 2^pl, pl in 0..7 *)
Lemma left_mask pl : 0 <= pl < 8 -> Z.land (Z.shiftr 255 pl) 255 = Z.ones (8 - pl).
Proof. intros H. assert (pl = 0 \/ pl = 1 \/ pl = 2 \/ pl = 3 \/ pl = 4 \/ pl = 5 \/ pl = 6 \/ pl = 7) as D by lia.
  destruct D as [->|[->|[->|[->|[->|[->|[->| ->]]]]]]]; reflexivity. Qed.
Lemma land_left_mask b pl : 0 <= pl < 8 -> Z.land b (Z.land (Z.shiftr 255 pl) 255) = b mod 2 ^ (8 - pl).
Proof. intros H. rewrite left_mask by lia. apply Z.land_ones. lia. Qed.

(* finite sweeps over one byte and one shift amount, lifted to all bytes/shifts by forallb_forall *)
Definition zrange (n : nat) : list Z := map Z.of_nat (seq 0 n).
Lemma in_zrange n x : 0 <= x < Z.of_nat n -> In x (zrange n).
Proof.
  intros H. unfold zrange. apply in_map_iff. exists (Z.to_nat x). split; [lia|].
  apply in_seq. lia.
Qed.
Lemma sweep_byte_shift (P : Z -> Z -> bool) :
  forallb (fun b => forallb (P b) (zrange 9)) (zrange 256) = true ->
  forall b s, 0 <= b < 256 -> 0 <= s <= 8 -> P b s = true.
Proof.
  intros H b s Hb Hs. rewrite forallb_forall in H.
  specialize (H b (in_zrange 256 b ltac:(lia))). rewrite forallb_forall in H.
  apply H. apply in_zrange. lia.
Qed.
Lemma sweep_byte (P : Z -> bool) :
  forallb P (zrange 256) = true -> forall b, 0 <= b < 256 -> P b = true.
Proof. intros H b Hb. rewrite forallb_forall in H. apply H, in_zrange. lia. Qed.

Lemma land_right_mask b pl : 0 <= pl < 8 -> 0 <= b < 256 ->
  Z.land b (Z.land (Z.shiftl 255 pl) 255) = b - b mod 2 ^ pl.
Proof.
  intros H Hb. apply Z.eqb_eq.
  apply (sweep_byte_shift (fun b pl => Z.land b (Z.land (Z.shiftl 255 pl) 255) =? b - b mod 2 ^ pl)); [vm_compute; reflexivity|lia|lia].
Qed.

Lemma inv_byte_val b : 0 <= b < 256 -> inv_byte b = 255 - b.
Proof.
  intros Hb. apply Z.eqb_eq. apply (sweep_byte (fun b => inv_byte b =? 255 - b)); [vm_compute; reflexivity|lia].
Qed.
