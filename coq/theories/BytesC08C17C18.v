(* BytesC08C17C18.v -- byte-level statements for the properties C17 (size prefix of the residues sent with their length),
   C18 (direction indicators) and C08 (parsers cut at the RFC field boundaries).
   The byte-level functions (SchcBytes.v, ParserBytes.v: written with the Buffer operations of
   Buffer.v) are composed with the refinement theorems (SchcRefine.v, ParserRefine.v) and with the
   bit-level property theorems (SchcCodec.v, SchcRules.v, SchcRoundtrip.v, ParserRfc.v,
   ParserRfcSctp.v).  Every statement speaks about Buffers (canonical: minimal byte count, zero
   padding bits) and about what they denote through abs. *)
From Coq Require Import ZArith List Bool Lia.
From MS Require Import PyBase Buffer Bits ByteFacts BufferAbs BufNew BufferSpec Schc SchcSpec SchcCodec SchcRules
  SchcRoundtrip SchcBytes SchcRefine Parsers ParserTiling ParserBytes ParserRefine Compute ComputeBytes EndToEnd
  ComputeRefine ManagerBytes ManagerRefine RfcHeaders ParserRfc ParserRfcSctp.
Import ListNotations.
Open Scope Z_scope.

(* ================================================================================================ *)
(* C17 -- the size announcement of a residue sent with its length, at the byte level                *)
(* ================================================================================================ *)

(* _encode_length builds its Buffer with left padding *)
Lemma bencode_length_side n p : bencode_length n = Ok p -> bside p = LEFT.
Proof.
  unfold bencode_length. destruct (negb (n <? 65536)); [discriminate|].
  assert (forall c L, b_new c L LEFT = Ok p -> bside p = LEFT) as H.
  { intros c L. unfold b_new.
    repeat match goal with
           | |- context [bind ?x _] => destruct x; cbn [bind]; try discriminate
           | |- context [if ?c then _ else _] => destruct c
           end; intros [= <-]; reflexivity. }
  destruct (n <? 15); [eapply H|destruct (n <? 255); eapply H].
Qed.

(* the announcement of a size below 2^16: a canonical left-padded Buffer of 4 / 12 / 28 bits spelling
   the RFC 8724 announcement *)
Theorem c17b_encode n : 0 <= n < 65536 ->
  exists p, bencode_length n = Ok p /\ canon p /\ bside p = LEFT /\ abs p = spec_size n /\
            blen p = (if n <? 15 then 4 else if n <? 255 then 12 else 28).
Proof.
  intros H. destruct (bencode_length_refines n _ (encode_length_spec n H)) as (p & E & C & A).
  exists p. split; [exact E|]. split; [exact C|]. split; [exact (bencode_length_side n p E)|].
  split; [exact A|]. rewrite <- (zlen_abs p C), A. exact (spec_size_len n H).
Qed.

(* sizes beyond 16 bits are refused with the exception of the bit-level model (props/C17.v c17_overflow) *)
Theorem c17b_overflow n : 65536 <= n -> bencode_length n = Exc AssertionError.
Proof. intros H. unfold bencode_length. destruct (Z.ltb_spec n 65536); [lia|]. reflexivity. Qed.

(* the two models refuse the same sizes with the same exception *)
Corollary c17b_overflow_agrees n : 65536 <= n -> bencode_length n = Exc AssertionError /\ encode_length n = Exc AssertionError.
Proof. intros H. split; [exact (c17b_overflow n H)|exact (encode_length_overflow n H)]. Qed.

(* l[s:e] for 0 <= s <= e, whatever the length of l (Python clamps both bounds) *)
Lemma py_slice_mid_gen {A} (l : list A) s e : 0 <= s <= e ->
  py_slice l (Some s) (Some e) = firstn (Z.to_nat (e - s)) (skipn (Z.to_nat s) l).
Proof.
  intros H. pose proof (zlen_nonneg l) as HL. unfold py_slice, slice_indices, clamp_index.
  destruct (Z.ltb_spec s 0); [lia|]. destruct (Z.ltb_spec e 0); [lia|].
  destruct (Z.ltb_spec (zlen l) s) as [Hs|Hs]; destruct (Z.ltb_spec (zlen l) e) as [He|He]; try lia.
  - rewrite (skipn_all2 l (n := Z.to_nat s)) by (unfold zlen in *; lia). rewrite firstn_nil.
    rewrite skipn_all2 by (unfold zlen in *; lia). now rewrite firstn_nil.
  - rewrite !firstn_all2; [reflexivity| |]; rewrite skipn_length; unfold zlen in *; lia.
  - reflexivity.
Qed.

(* the bit-level decoder on an announcement followed by ANY bits (SchcCodec.decode_var_spec asks for at
   least n bits after the announcement): fewer than n bits are returned as they are, without an
   exception, and width + n bits are still reported as consumed *)
Theorem decode_var_any n rest : 0 <= n < 65536 ->
  decode_var (spec_size n ++ rest) = (firstn (Z.to_nat n) rest, spec_size_width n + n).
Proof.
  intros Hn. unfold spec_size, spec_size_width, decode_var. cbv zeta.
  destruct (Z.ltb_spec n 15) as [H15|H15]; [|destruct (Z.ltb_spec n 255) as [H255|H255]].
  - rewrite (py_slice_app_to (bits_of 4 n)) by reflexivity.
    rewrite (Z_of_bits_of_small 4) by (change (2 ^ Z.of_nat 4) with 16; lia).
    destruct (Z.ltb_spec n 15); [|lia].
    rewrite py_slice_mid_gen by lia. rewrite skipn_app_len by reflexivity. do 3 f_equal. lia.
  - rewrite <- app_assoc.
    rewrite (py_slice_app_to (repeat true 4)) by reflexivity.
    change (Z_of_bits (repeat true 4) <? 15) with false. cbv iota.
    rewrite (py_slice_app_mid (repeat true 4) (bits_of 8 n) rest 4 12) by reflexivity.
    rewrite (Z_of_bits_of_small 8) by (change (2 ^ Z.of_nat 8) with 256; lia).
    destruct (Z.ltb_spec n 255); [|lia].
    rewrite app_assoc. rewrite py_slice_mid_gen by lia.
    rewrite skipn_app_len by reflexivity. do 3 f_equal. lia.
  - rewrite <- app_assoc.
    set (X := bits_of 16 n ++ rest).
    assert (E1 : py_slice (repeat true 12 ++ X) (Some 0) (Some 4) = repeat true 4)
      by (apply (py_slice_app_to (repeat true 4) (repeat true 8 ++ X)); reflexivity).
    assert (E2 : py_slice (repeat true 12 ++ X) (Some 4) (Some 12) = repeat true 8)
      by (apply (py_slice_app_mid (repeat true 4) (repeat true 8) X); reflexivity).
    rewrite E1, E2. clear E1 E2. unfold X. clear X.
    change (Z_of_bits (repeat true 4) <? 15) with false.
    change (Z_of_bits (repeat true 8) <? 255) with false. cbv iota.
    rewrite (py_slice_app_mid (repeat true 12) (bits_of 16 n) rest 12 28) by reflexivity.
    rewrite (Z_of_bits_of_small 16) by (change (2 ^ Z.of_nat 16) with 65536; lia).
    rewrite (app_assoc (repeat true 12)). rewrite py_slice_mid_gen by lia.
    rewrite skipn_app_len by reflexivity. do 3 f_equal. lia.
Qed.

(* the announcement followed by ANY canonical Buffer: the decoder returns the n first bits of that
   Buffer (all of them if there are fewer than n) and reports width + n bits as consumed -- whatever
   the padding side of rest, whatever follows the n bits *)
Theorem c17b_roundtrip_any n p rest s : 0 <= n < 65536 -> canon rest ->
  bencode_length n = Ok p -> b_add p rest = Ok s ->
  exists r, bdecode_var s = Ok (r, spec_size_width n + n) /\ canon r /\ blen r = Z.min n (blen rest) /\
            abs r = firstn (Z.to_nat n) (abs rest).
Proof.
  intros Hn Cr Ep Es.
  destruct (c17b_encode n Hn) as (p' & Ep' & Cp & _ & Ap & _). rewrite Ep in Ep'. injection Ep' as <-.
  destruct (add_bits p rest Cp Cr) as (s' & Es' & Cs & _ & As). rewrite Es in Es'. injection Es' as <-.
  destruct (bdecode_var_refines s Cs) as (r & k & E & C & D).
  rewrite As, Ap, (decode_var_any n _ Hn) in D. injection D as D1 D2. subst k.
  exists r. split; [exact E|]. split; [exact C|]. split; [|now symmetry].
  rewrite <- (zlen_abs r C), <- D1. pose proof (zlen_abs rest Cr) as Z. unfold zlen in *. rewrite firstn_length. lia.
Qed.

(* with at least n bits after the announcement: exactly n bits come back *)
Corollary c17b_roundtrip n p rest s : 0 <= n < 65536 -> canon rest -> n <= blen rest ->
  bencode_length n = Ok p -> b_add p rest = Ok s ->
  exists r, bdecode_var s = Ok (r, spec_size_width n + n) /\ canon r /\ blen r = n /\
            abs r = firstn (Z.to_nat n) (abs rest).
Proof.
  intros Hn Cr Hl Ep Es. destruct (c17b_roundtrip_any n p rest s Hn Cr Ep Es) as (r & E & C & L & A).
  exists r. split; [exact E|]. split; [exact C|]. split; [lia|exact A].
Qed.

(* the same, with the existence of the concatenation made explicit (nothing is assumed to succeed) *)
Corollary c17b_roundtrip_total n rest : 0 <= n < 65536 -> canon rest -> n <= blen rest ->
  exists p s r, bencode_length n = Ok p /\ b_add p rest = Ok s /\ canon s /\
                blen s = spec_size_width n + blen rest /\
                bdecode_var s = Ok (r, spec_size_width n + n) /\ canon r /\ blen r = n /\
                abs r = firstn (Z.to_nat n) (abs rest).
Proof.
  intros Hn Cr Hl. destruct (c17b_encode n Hn) as (p & Ep & Cp & _ & Ap & _).
  destruct (add_bits p rest Cp Cr) as (s & Es & Cs & _ & As).
  destruct (c17b_roundtrip n p rest s Hn Cr Hl Ep Es) as (r & H).
  exists p, s, r. split; [exact Ep|]. split; [exact Es|]. split; [exact Cs|]. split; [|exact H].
  rewrite <- (zlen_abs s Cs), As, zlen_app, Ap, (spec_size_len n Hn), (zlen_abs rest Cr). reflexivity.
Qed.

(* a residue Buffer r of n bits followed by anything: exactly r (as bits) comes back *)
Corollary c17b_roundtrip_residue n p r tail rest s : 0 <= n < 65536 -> canon r -> canon tail -> blen r = n ->
  bencode_length n = Ok p -> b_add r tail = Ok rest -> b_add p rest = Ok s ->
  exists r', bdecode_var s = Ok (r', spec_size_width n + n) /\ canon r' /\ abs r' = abs r.
Proof.
  intros Hn Cr Ct Lr Ep Er Es.
  destruct (add_bits r tail Cr Ct) as (x & Ex & Cx & _ & Ax). rewrite Er in Ex. injection Ex as <-.
  assert (n <= blen rest) as Hl.
  { rewrite <- (zlen_abs rest Cx), Ax, zlen_app, (zlen_abs r Cr). pose proof (zlen_nonneg (abs tail)). lia. }
  destruct (c17b_roundtrip n p rest s Hn Cx Hl Ep Es) as (r' & E & C & _ & A).
  exists r'. split; [exact E|]. split; [exact C|]. rewrite A, Ax.
  apply firstn_app_len. rewrite abs_length by exact Cr. now rewrite Lr.
Qed.

(* injectivity at the byte level: two sizes whose announcements spell the same bits are equal; more
   generally no announcement is a prefix of the announcement of another size *)
Theorem c17b_prefix_free n m p q : 0 <= n < 65536 -> 0 <= m < 65536 ->
  bencode_length n = Ok p -> bencode_length m = Ok q -> is_prefix (abs p) (abs q) = true -> n = m.
Proof.
  intros Hn Hm Ep Eq H.
  destruct (c17b_encode n Hn) as (p' & Ep' & _ & _ & Ap & _). rewrite Ep in Ep'. injection Ep' as <-.
  destruct (c17b_encode m Hm) as (q' & Eq' & _ & _ & Aq & _). rewrite Eq in Eq'. injection Eq' as <-.
  rewrite Ap, Aq in H. exact (spec_size_prefix_free n m Hn Hm H).
Qed.

Theorem c17b_injective n m p q : 0 <= n < 65536 -> 0 <= m < 65536 ->
  bencode_length n = Ok p -> bencode_length m = Ok q -> abs p = abs q -> n = m.
Proof.
  intros Hn Hm Ep Eq H. apply (c17b_prefix_free n m p q Hn Hm Ep Eq). rewrite H. apply is_prefix_refl.
Qed.

(* both announcements are canonical left-padded Buffers, so equal bits mean equal Buffers: the
   announcement Buffer determines the size, and the size determines the Buffer *)
Corollary c17b_injective_buf n m p : 0 <= n < 65536 -> 0 <= m < 65536 ->
  bencode_length n = Ok p -> bencode_length m = Ok p -> n = m.
Proof. intros Hn Hm Ep Eq. exact (c17b_injective n m p p Hn Hm Ep Eq eq_refl). Qed.

(* non-vacuity: the three width classes as bytes, and a round trip with a right-padded rest *)
Example c17b_ex_widths :
  bencode_length 14 = Ok (mkbuf [14] 4 LEFT 4) /\ bencode_length 15 = Ok (mkbuf [15; 15] 12 LEFT 4) /\
  bencode_length 254 = Ok (mkbuf [15; 254] 12 LEFT 4) /\ bencode_length 255 = Ok (mkbuf [15; 255; 0; 255] 28 LEFT 4) /\
  bencode_length 65535 = Ok (mkbuf [15; 255; 255; 255] 28 LEFT 4).
Proof. vm_compute. repeat split; reflexivity. Qed.

Example c17b_ex_roundtrip :
  let rest := mkbuf [172; 224] 11 RIGHT 5 in
  (do p <- bencode_length 9 ;; do s <- b_add p rest ;; do x <- bdecode_var s ;; Ok (content s, blen s, x)) =
  Ok ([77; 103], 15, (mkbuf [1; 89] 9 LEFT 7, 13)).
Proof. vm_compute. reflexivity. Qed.

(* a truncated residue is not detected: 9 bits are announced, 5 follow; the decoder returns the 5 bits
   and says 13 bits were consumed (of a 9-bit Buffer) *)
Example c17b_ex_truncated :
  let rest := mkbuf [21] 5 LEFT 3 in
  (do p <- bencode_length 9 ;; do s <- b_add p rest ;; do x <- bdecode_var s ;; Ok (content s, blen s, x)) =
  Ok ([1; 53], 9, (mkbuf [21] 5 LEFT 3, 13)).
Proof. vm_compute. reflexivity. Qed.

(* the bounds on the size are needed: Buffer.__init__ masks the single content byte, so negative sizes
   (never produced by the compressor: a size is a Buffer length) give announcements too, not injectively *)
Example c17b_ex_negative :
  bencode_length (-1) = Ok (mkbuf [15] 4 LEFT 4) /\ bencode_length (-17) = Ok (mkbuf [15] 4 LEFT 4).
Proof. vm_compute. split; reflexivity. Qed.

(* ================================================================================================ *)
(* C18 -- direction indicators, at the byte level                                                    *)
(* ================================================================================================ *)

(* the descriptors used for direction d: exactly those marked d or Bi, in rule order *)
Theorem c18b_select d fds :
  bselect_fds (Some d) fds = filter (fun f => dir_eqb (br_dir f) d || dir_eqb (br_dir f) Bi) fds.
Proof. reflexivity. Qed.

Theorem c18b_select_in d fds f :
  In f (bselect_fds (Some d) fds) <-> In f fds /\ (br_dir f = d \/ br_dir f = Bi).
Proof.
  rewrite c18b_select, filter_In, orb_true_iff, !dir_eqb_true. reflexivity.
Qed.

(* in order: the selection of a concatenation is the concatenation of the selections; a descriptor
   marked d or Bi is kept at its place, one marked otherwise is dropped *)
Theorem c18b_select_app d a b : bselect_fds (Some d) (a ++ b) = bselect_fds (Some d) a ++ bselect_fds (Some d) b.
Proof. cbn [bselect_fds]. apply filter_app. Qed.
Theorem c18b_select_cons d f fds :
  bselect_fds (Some d) (f :: fds) =
  if dir_eqb (br_dir f) d || dir_eqb (br_dir f) Bi then f :: bselect_fds (Some d) fds else bselect_fds (Some d) fds.
Proof. reflexivity. Qed.

(* without a direction every descriptor is used *)
Theorem c18b_select_none fds : bselect_fds None fds = fds.
Proof. reflexivity. Qed.

(* the byte-level selection denotes the bit-level selection *)
Theorem c18b_select_abs d fds : map (abs_rfd abs) (bselect_fds d fds) = select_fds d (map (abs_rfd abs) fds).
Proof. symmetry. apply select_fds_abs. Qed.

(* the three stages use the same selection.  Compressor and decompressor: by definition *)
Theorem c18b_compress_uses_select pd r d : brule_nature r = Compression ->
  bcompress pd r (Some d) =
  (do e <- b_new [] 0 RIGHT ;; do s0 <- b_add e (brule_id r) ;;
   do body <- bcompress_fields (bpd_fields pd) (bselect_fds (Some d) (brule_fds r)) s0 ;; b_add body (bpd_payload pd)).
Proof. intros H. unfold bcompress. rewrite H. reflexivity. Qed.

Theorem c18b_decompress_uses_select s r d :
  bdecompress s r (Some d) =
  (do s1 <- b_getitem s (Some (blen (brule_id r))) None ;;
   do x <- bdecompress_fields (bselect_fds (Some d) (brule_fds r)) s1 ;;
   do e <- b_new [] 0 RIGHT ;; badd_all e (fst x ++ [snd x])).
Proof. reflexivity. Qed.

(* the matcher (Ruler.match_packet_descriptor, one rule): the packet fields are compared, pairwise and
   in order, with the descriptors selected for the direction of the packet descriptor *)
Theorem c18b_matcher_uses_select pd r : brule_nature r = Compression ->
  brule_matches pd r =
  let rfs := bselect_fds (Some (bpd_dir pd)) (brule_fds r) in
  if negb (length (bpd_fields pd) =? length rfs)%nat then Ok false
  else do mm <- bany_mismatch (bpd_fields pd) rfs ;; Ok (negb mm).
Proof. intros H. unfold brule_matches. rewrite H. reflexivity. Qed.

(* and its verdict is the specification's, on the selected descriptors *)
Theorem c18b_matcher pd r : canon_pdesc pd -> canon_rule r ->
  brule_nature r = Compression -> rule_typed (abs_rule abs r) = true ->
  brule_matches pd r =
  Ok (forallb2 spec_field_applies (map (abs_field abs) (bpd_fields pd))
        (map (abs_rfd abs) (bselect_fds (Some (bpd_dir pd)) (brule_fds r)))).
Proof.
  intros Hp Hr N T. rewrite (brule_matches_refines pd r Hp Hr).
  rewrite (matcher_uses_select (abs_pdesc abs pd) (abs_rule abs r) N T). cbn [abs_pdesc abs_rule pd_fields pd_dir rule_fds].
  now rewrite select_fds_abs.
Qed.

Theorem c18b_matcher_applies pd r : canon_pdesc pd -> canon_rule r -> rule_typed (abs_rule abs r) = true ->
  brule_matches pd r = Ok (spec_rule_applies (abs_pdesc abs pd) (abs_rule abs r)).
Proof. intros Hp Hr T. rewrite (brule_matches_refines pd r Hp Hr). exact (rule_matches_spec _ _ T). Qed.

(* "no compute action among the selected descriptors", read at the byte level *)
Definition bno_compute (d : dir) (r : brule) : bool :=
  forallb (fun rf => match br_cda rf with Compute => false | _ => true end) (bselect_fds (Some d) (brule_fds r)).

(* the packet a byte-level descriptor denotes *)
Definition bpacket_bits (pd : bpdesc) : bits :=
  concat (map (fun f => abs (bf_val f)) (bpd_fields pd)) ++ abs (bpd_payload pd).

Lemma bpacket_bits_abs pd :
  concat (map f_val (pd_fields (abs_pdesc abs pd))) ++ pd_payload (abs_pdesc abs pd) = bpacket_bits pd.
Proof. unfold bpacket_bits. cbn [abs_pdesc pd_fields pd_payload]. now rewrite map_map. Qed.

(* byte-level mirror of c18_roundtrip: a canonical packet descriptor travelling in direction d, a
   canonical rule with Up / Dw alternatives that is rule_ok_dec for d (read through abs) and applies:
   byte-level compress then byte-level decompress with the same d restore the packet *)
Theorem c18b_roundtrip ct d pd r : canon_pdesc pd -> canon_rule r -> bpd_dir pd = d ->
  rule_ok_dec ct d (abs_pdesc abs pd) (abs_rule abs r) ->
  spec_rule_applies (abs_pdesc abs pd) (abs_rule abs r) = true ->
  bno_compute d r = true ->
  exists x y, bcompress pd r (Some d) = Ok x /\ canon x /\
              bdecompress x r (Some d) = Ok y /\ canon y /\ abs y = bpacket_bits pd.
Proof.
  intros Hp Hr Hd Hok HA HNC. unfold bno_compute in HNC.
  assert (pd_dir (abs_pdesc abs pd) = d) as Hd' by exact Hd.
  assert (forallb (fun rf => match r_cda rf with Compute => false | _ => true end)
            (select_fds (Some d) (rule_fds (abs_rule abs r))) = true) as HNC'.
  { cbn [abs_rule rule_fds]. rewrite no_compute_abs. exact HNC. }
  destruct (c01_roundtrip_nocompute ct d _ _ Hd' Hok HA HNC') as (s0 & Ec & Ed).
  destruct (bcompress_refines pd r (Some d) s0 Hp Hr Ec) as (x & Ex & Cx & Ax).
  rewrite <- Ax in Ed.
  destruct (bdecompress_refines ct x r (Some d) _ Cx Hr HNC Ed) as (y & Ey & Cy & Ay).
  exists x, y. split; [exact Ex|]. split; [exact Cx|]. split; [exact Ey|]. split; [exact Cy|].
  rewrite Ay. apply bpacket_bits_abs.
Qed.

(* the same with the verdict of the byte-level matcher in place of the specification's *)
Corollary c18b_roundtrip_matched ct d pd r : canon_pdesc pd -> canon_rule r -> bpd_dir pd = d ->
  rule_ok_dec ct d (abs_pdesc abs pd) (abs_rule abs r) ->
  brule_matches pd r = Ok true ->
  bno_compute d r = true ->
  exists x y, bcompress pd r (Some d) = Ok x /\ canon x /\
              bdecompress x r (Some d) = Ok y /\ canon y /\ abs y = bpacket_bits pd.
Proof.
  intros Hp Hr Hd Hok HM HNC. apply (c18b_roundtrip ct d pd r Hp Hr Hd Hok); [|exact HNC].
  destruct Hok as [(_ & T & _) _]. rewrite (c18b_matcher_applies pd r Hp Hr T) in HM. now injection HM.
Qed.

(* through the complete decompressor (compute stage included, protocol/__init__.py ComputeFunctions):
   any bit-level round trip of the denoted descriptor and rule is a byte-level round trip *)
Lemma c18b_from_bits d pd r : canon_pdesc pd -> canon_rule r ->
  (exists s0, compress (abs_pdesc abs pd) (abs_rule abs r) (Some d) = Ok s0 /\
              decompress compute_functions s0 (abs_rule abs r) (Some d) =
              Ok (concat (map f_val (pd_fields (abs_pdesc abs pd))) ++ pd_payload (abs_pdesc abs pd))) ->
  exists x y, bcompress pd r (Some d) = Ok x /\ canon x /\
              bdecompress_c x r (Some d) = Ok y /\ canon y /\ abs y = bpacket_bits pd.
Proof.
  intros Hp Hr (s0 & Ec & Ed).
  destruct (bcompress_refines pd r (Some d) s0 Hp Hr Ec) as (x & Ex & Cx & Ax).
  rewrite <- Ax in Ed.
  destruct (bdecompress_c_refines x r (Some d) _ Cx Hr Ed) as (y & Ey & Cy & Ay).
  exists x, y. split; [exact Ex|]. split; [exact Cx|]. split; [exact Ey|]. split; [exact Cy|].
  rewrite Ay. apply bpacket_bits_abs.
Qed.

Theorem c18b_roundtrip_c d pd r : canon_pdesc pd -> canon_rule r -> bpd_dir pd = d ->
  rule_ok_dec compute_functions d (abs_pdesc abs pd) (abs_rule abs r) ->
  spec_rule_applies (abs_pdesc abs pd) (abs_rule abs r) = true ->
  bno_compute d r = true ->
  exists x y, bcompress pd r (Some d) = Ok x /\ canon x /\
              bdecompress_c x r (Some d) = Ok y /\ canon y /\ abs y = bpacket_bits pd.
Proof.
  intros Hp Hr Hd Hok HA HNC. apply (c18b_from_bits d pd r Hp Hr).
  apply (c01_roundtrip_nocompute compute_functions d (abs_pdesc abs pd) (abs_rule abs r) Hd Hok HA).
  cbn [abs_rule rule_fds]. rewrite no_compute_abs. exact HNC.
Qed.

(* with compute actions among the selected descriptors: provided the compute stage, run on the selected
   descriptors in the order list.sort puts them in, regenerates the original values (C09) *)
Theorem c18b_roundtrip_compute d pd r ces : canon_pdesc pd -> canon_rule r -> bpd_dir pd = d ->
  let pd' := abs_pdesc abs pd in
  let rfs := map (abs_rfd abs) (bselect_fds (Some d) (brule_fds r)) in
  let ids := map r_id rfs in
  rule_ok_dec compute_functions d pd' (abs_rule abs r) ->
  spec_rule_applies pd' (abs_rule abs r) = true ->
  py_sort_ces (centries_of compute_functions 0 rfs) = Some ces ->
  run_computes ces (combine ids (map2 pre_value rfs (pd_fields pd')) ++ [(payload_fid, pd_payload pd')])
    = Ok (combine ids (map f_val (pd_fields pd')) ++ [(payload_fid, pd_payload pd')]) ->
  exists x y, bcompress pd r (Some d) = Ok x /\ canon x /\
              bdecompress_c x r (Some d) = Ok y /\ canon y /\ abs y = bpacket_bits pd.
Proof.
  intros Hp Hr Hd pd' rfs ids Hok HA HS HR. apply (c18b_from_bits d pd r Hp Hr).
  apply (c01_roundtrip_sort compute_functions d pd' (abs_rule abs r) ces Hd Hok HA);
    cbn [abs_rule rule_fds]; rewrite select_fds_abs; assumption.
Qed.

(* non-vacuity: one field with an Up descriptor (equal / not-sent, target 0b11) and a Dw descriptor
   (ignore / value-sent); a downlink packet uses the second, an uplink packet the first *)
Definition c18b_ex_rule : brule :=
  mkbrule (mkbuf [1] 1 LEFT 7) Compression
    [mkbrfd (mkfid P_Other 1) 2 0 Up (BTVbuf (mkbuf [3] 2 LEFT 6)) MO_equal NotSent;
     mkbrfd (mkfid P_Other 1) 2 0 Dw (BTVbuf (mkbuf [] 0 LEFT 0)) MO_ignore ValueSent].
Definition c18b_ex_pd (d : dir) (v : Z) : bpdesc :=
  mkbpdesc d [mkbfield (mkfid P_Other 1) (mkbuf [v] 2 LEFT 6) 0] (mkbuf [165] 8 LEFT 0).

Example c18b_ex_rule_canon : canon_rule c18b_ex_rule.
Proof.
  unfold c18b_ex_rule. split; cbn [brule_id brule_fds]; [canon_concrete|].
  repeat constructor; unfold canon_rfd; cbn [br_tv canon_tv fst snd]; canon_concrete.
Qed.
Example c18b_ex_pd_canon d v : v = 1 \/ v = 3 -> canon_pdesc (c18b_ex_pd d v).
Proof.
  intros [-> | ->]; unfold c18b_ex_pd; split; cbn [bpd_fields bpd_payload].
  - repeat constructor; cbn [bf_val]; canon_concrete.
  - canon_concrete.
  - repeat constructor; cbn [bf_val]; canon_concrete.
  - canon_concrete.
Qed.

Example c18b_ex_dw : exists x y,
  bcompress (c18b_ex_pd Dw 1) c18b_ex_rule (Some Dw) = Ok x /\ canon x /\
  bdecompress x c18b_ex_rule (Some Dw) = Ok y /\ canon y /\ abs y = bpacket_bits (c18b_ex_pd Dw 1).
Proof.
  apply (c18b_roundtrip (fun _ => None) Dw (c18b_ex_pd Dw 1) c18b_ex_rule
           (c18b_ex_pd_canon Dw 1 (or_introl eq_refl)) c18b_ex_rule_canon eq_refl).
  - vm_compute. repeat split.
  - vm_compute. reflexivity.
  - vm_compute. reflexivity.
Qed.

Example c18b_ex_values :
  (brule_matches (c18b_ex_pd Dw 1) c18b_ex_rule, brule_matches (c18b_ex_pd Up 1) c18b_ex_rule,
   brule_matches (c18b_ex_pd Up 3) c18b_ex_rule,
   shown (bcompress (c18b_ex_pd Dw 1) c18b_ex_rule (Some Dw)), shown (bcompress (c18b_ex_pd Up 3) c18b_ex_rule (Some Up)),
   shown (do x <- bcompress (c18b_ex_pd Dw 1) c18b_ex_rule (Some Dw) ;; bdecompress x c18b_ex_rule (Some Dw)),
   shown (do x <- bcompress (c18b_ex_pd Up 3) c18b_ex_rule (Some Up) ;; bdecompress x c18b_ex_rule (Some Up))) =
  (Ok true, Ok false, Ok true,
   Ok ([180; 160], 11, RIGHT, 5), Ok ([210; 128], 9, RIGHT, 7),
   Ok ([105; 64], 10, RIGHT, 6), Ok ([233; 64], 10, RIGHT, 6)).
Proof. vm_compute. reflexivity. Qed.

(* ================================================================================================ *)
(* C08 -- the parsers cut at the RFC field boundaries, at the byte level                             *)
(* ================================================================================================ *)

(* what a byte-level parse result must be, for a given RFC field list: the field Buffers are canonical
   and left-padded, and their identifiers, positions and bits (abs) are exactly the RFC fields *)
Definition bfields_are (bfs : list bfield) (fs : list field) : Prop :=
  Forall canon_bfield bfs /\ map (abs_field abs) bfs = fs.
Definition bpayload_is (bpl : buf) (pl : bits) : Prop := canon bpl /\ bside bpl = LEFT /\ abs bpl = pl.

(* the generic lemmas: the byte-level parse of a Buffer whose bits are X is the bit-level parse of X,
   fieldwise *)
Lemma bhparse_of_bits (bp : bhparser) (p : hparser) b X fs n :
  (forall b, canon b -> bside b = LEFT -> same_outcome hdr_rel (bp b) (p (abs b))) ->
  canon b -> bside b = LEFT -> abs b = X -> p X = Ok (fs, n) ->
  exists bfs, bp b = Ok (bfs, n) /\ bfields_are bfs fs.
Proof.
  intros R Hb Hs <- E. pose proof (R b Hb Hs) as H. rewrite E in H.
  destruct (bp b) as [[bfs k]| |]; cbn [same_outcome] in H; try contradiction.
  destruct H as (Hf & Hn & Hc). cbn [fst snd] in *. subst k.
  exists bfs. split; [reflexivity|]. split; assumption.
Qed.

Lemma bfactory_of_bits s b X fs pl : canon b -> bside b = LEFT -> abs b = X -> factory s X = Ok (fs, pl) ->
  exists bfs bpl, bfactory s b = Ok (bfs, bpl) /\ bfields_are bfs fs /\ bpayload_is bpl pl.
Proof.
  intros Hb Hs <- E. pose proof (bfactory_refines s b Hb Hs) as H. rewrite E in H.
  destruct (bfactory s b) as [[bfs bpl]| |]; cbn [same_outcome] in H; try contradiction.
  destruct H as (Hf & Hp & Hc & Cp & Sp). cbn [fst snd] in *.
  exists bfs, bpl. split; [reflexivity|]. split; split; auto.
Qed.

(* canonical left-padded Buffers are determined by their bits: the results above are unique *)
Lemma bfields_are_unique a b fs : bfields_are a fs -> bfields_are b fs -> a = b.
Proof.
  intros [Ca Ea] [Cb Eb]. rewrite <- Eb in Ea. clear Eb fs. revert b Cb Ea.
  induction Ca as [|x a [Cx Sx] Ca IH]; intros b Cb E; destruct b as [|y b]; try discriminate E; [reflexivity|].
  inversion Cb as [|? ? [Cy Sy] Cb']; subst. cbn [map] in E.
  destruct x as [ix vx px], y as [iy vy py]. cbn [bf_id bf_val bf_pos] in *.
  injection E as -> A -> E2. f_equal; [|apply IH; assumption].
  f_equal. apply abs_inj; congruence.
Qed.
Lemma bpayload_is_unique a b pl : bpayload_is a pl -> bpayload_is b pl -> a = b.
Proof. intros (Ca & Sa & Aa) (Cb & Sb & Ab). apply abs_inj; congruence. Qed.

(* every bit sequence is the content of exactly one canonical left-padded Buffer: the statements below
   are about that Buffer (none is vacuous) *)
Lemma buffer_of_bits (X : bits) : exists b, canon b /\ bside b = LEFT /\ abs b = X.
Proof.
  set (k := Z.to_nat ((zlen X + 7) / 8)).
  pose proof (zlen_nonneg X) as HL.
  destruct (new_left_bits (bytes_of k (Z_of_bits X)) (zlen X) (bytes_ok_bytes_of _ _) HL) as (b & _ & C & S & _ & A).
  exists b. split; [exact C|]. split; [exact S|]. rewrite A, val_bytes_of.
  rewrite pow2_8 by lia. rewrite zlen_to_nat.
  rewrite bits_of_mod_ge; [apply bits_of_Z_of_bits|].
  unfold k. fold (zlen X). rewrite Z2Nat.id by (apply Z.div_pos; lia).
  pose proof (Z.div_mod (zlen X + 7) 8 ltac:(lia)). pose proof (Z.mod_pos_bound (zlen X + 7) 8 ltac:(lia)). lia.
Qed.
Lemma buffer_of_bits_unique a b : canon a -> bside a = LEFT -> canon b -> bside b = LEFT -> abs a = abs b -> a = b.
Proof. intros Ca Sa Cb Sb E. apply abs_inj; congruence. Qed.

(* ---- the header parsers ---------------------------------------------------------------------------- *)
Theorem c08b_ipv6_header h rest b : ipv6_wf h -> canon b -> bside b = LEFT -> abs b = ipv6_encode h ++ rest ->
  exists bfs, bparse_ipv6 false b = Ok (bfs, 320) /\ bfields_are bfs (ipv6_fields h).
Proof.
  intros Hh Hb Hs A.
  exact (bhparse_of_bits _ _ b _ _ _ (bparse_ipv6_refines false) Hb Hs A (c08_ipv6 h rest Hh)).
Qed.

Theorem c08b_ipv4_header h rest b : ipv4_wf h -> canon b -> bside b = LEFT -> abs b = ipv4_encode h ++ rest ->
  exists bfs, bparse_ipv4 false b = Ok (bfs, 160) /\ bfields_are bfs (ipv4_fields h).
Proof.
  intros Hh Hb Hs A.
  exact (bhparse_of_bits _ _ b _ _ _ (bparse_ipv4_refines false) Hb Hs A (c08_ipv4 h rest Hh)).
Qed.

Theorem c08b_udp_header h rest b : udp_wf h -> canon b -> bside b = LEFT -> abs b = udp_encode h ++ rest ->
  exists bfs, bparse_udp false b = Ok (bfs, 64) /\ bfields_are bfs (udp_fields h).
Proof.
  intros Hh Hb Hs A.
  exact (bhparse_of_bits _ _ b _ _ _ (bparse_udp_refines false) Hb Hs A (c08_udp h rest Hh)).
Qed.

Theorem c08b_coap_message m b : coap_wf m -> canon b -> bside b = LEFT -> abs b = coap_encode m ->
  exists bfs, bparse_coap b = Ok (bfs, coap_header_len m) /\ bfields_are bfs (coap_fields m).
Proof.
  intros Hm Hb Hs A.
  exact (bhparse_of_bits _ _ b _ _ _ bparse_coap_refines Hb Hs A (c08_coap m Hm)).
Qed.

Theorem c08b_sctp_packet p b : sctp_wf p -> canon b -> bside b = LEFT -> abs b = sctp_encode p ->
  exists bfs, bparse_sctp b = Ok (bfs, blen b) /\ bfields_are bfs (sctp_fields p).
Proof.
  intros Hp Hb Hs A. rewrite <- (zlen_abs b Hb), A.
  exact (bhparse_of_bits _ _ b _ _ _ bparse_sctp_refines Hb Hs A (c08_sctp p Hp)).
Qed.

(* ---- the explicit stacks --------------------------------------------------------------------------- *)
Definition coap_payload_bits (m : coap_msg) : bits := match c_payload m with Some p => p | None => [] end.

Theorem c08b_stack_v6 h u m b : ipv6_wf h -> udp_wf u -> coap_wf m ->
  canon b -> bside b = LEFT -> abs b = ipv6_encode h ++ udp_encode u ++ coap_encode m ->
  exists bfs bpl, bfactory IPv6_UDP_CoAP b = Ok (bfs, bpl) /\
                  bfields_are bfs (ipv6_fields h ++ udp_fields u ++ coap_fields m) /\
                  bpayload_is bpl (coap_payload_bits m).
Proof.
  intros Hh Hu Hm Hb Hs A.
  exact (bfactory_of_bits _ b _ _ _ Hb Hs A (c08_stack_ipv6_udp_coap h u m Hh Hu Hm)).
Qed.

Theorem c08b_stack_v4 h u m b : ipv4_wf h -> udp_wf u -> coap_wf m ->
  canon b -> bside b = LEFT -> abs b = ipv4_encode h ++ udp_encode u ++ coap_encode m ->
  exists bfs bpl, bfactory IPv4_UDP_CoAP b = Ok (bfs, bpl) /\
                  bfields_are bfs (ipv4_fields h ++ udp_fields u ++ coap_fields m) /\
                  bpayload_is bpl (coap_payload_bits m).
Proof.
  intros Hh Hu Hm Hb Hs A.
  exact (bfactory_of_bits _ b _ _ _ Hb Hs A (c08_stack_ipv4_udp_coap h u m Hh Hu Hm)).
Qed.

(* ---- next-protocol prediction ---------------------------------------------------------------------- *)
(* the predicting parser returns the RFC field list, and the very same Buffers as the explicit stack *)
Theorem c08b_predict_v6_udp_coap h u m b : ipv6_wf h -> udp_wf u -> coap_wf m ->
  Z_of_bits (v6_nh h) = 17 -> Z_of_bits (u_dport u) = 5683 ->
  canon b -> bside b = LEFT -> abs b = ipv6_encode h ++ udp_encode u ++ coap_encode m ->
  (exists bfs bpl, bfactory S_IPv6 b = Ok (bfs, bpl) /\
                   bfields_are bfs (ipv6_fields h ++ udp_fields u ++ coap_fields m) /\
                   bpayload_is bpl (coap_payload_bits m)) /\
  bfactory S_IPv6 b = bfactory IPv6_UDP_CoAP b.
Proof.
  intros Hh Hu Hm Hn Hp Hb Hs A.
  pose proof (c08_stack_ipv6_udp_coap h u m Hh Hu Hm) as E2.
  pose proof (c08_predict_ipv6_udp_coap h u m Hh Hu Hm Hn Hp) as E1. rewrite E2 in E1.
  destruct (bfactory_of_bits _ b _ _ _ Hb Hs A E1) as (f1 & p1 & B1 & F1 & P1).
  destruct (bfactory_of_bits _ b _ _ _ Hb Hs A E2) as (f2 & p2 & B2 & F2 & P2).
  split; [exists f1, p1; auto|].
  rewrite B1, B2, (bfields_are_unique _ _ _ F1 F2), (bpayload_is_unique _ _ _ P1 P2). reflexivity.
Qed.

Theorem c08b_predict_v4_udp_coap h u m b : ipv4_wf h -> udp_wf u -> coap_wf m ->
  Z_of_bits (v4_proto h) = 17 -> Z_of_bits (u_dport u) = 5683 ->
  canon b -> bside b = LEFT -> abs b = ipv4_encode h ++ udp_encode u ++ coap_encode m ->
  (exists bfs bpl, bfactory S_IPv4 b = Ok (bfs, bpl) /\
                   bfields_are bfs (ipv4_fields h ++ udp_fields u ++ coap_fields m) /\
                   bpayload_is bpl (coap_payload_bits m)) /\
  bfactory S_IPv4 b = bfactory IPv4_UDP_CoAP b.
Proof.
  intros Hh Hu Hm Hn Hp Hb Hs A.
  pose proof (c08_stack_ipv4_udp_coap h u m Hh Hu Hm) as E2.
  pose proof (c08_predict_ipv4_udp_coap h u m Hh Hu Hm Hn Hp) as E1. rewrite E2 in E1.
  destruct (bfactory_of_bits _ b _ _ _ Hb Hs A E1) as (f1 & p1 & B1 & F1 & P1).
  destruct (bfactory_of_bits _ b _ _ _ Hb Hs A E2) as (f2 & p2 & B2 & F2 & P2).
  split; [exists f1, p1; auto|].
  rewrite B1, B2, (bfields_are_unique _ _ _ F1 F2), (bpayload_is_unique _ _ _ P1 P2). reflexivity.
Qed.

Theorem c08b_predict_udp u m b : udp_wf u -> coap_wf m -> Z_of_bits (u_dport u) = 5683 ->
  canon b -> bside b = LEFT -> abs b = udp_encode u ++ coap_encode m ->
  exists bfs bpl, bfactory S_UDP b = Ok (bfs, bpl) /\
                  bfields_are bfs (udp_fields u ++ coap_fields m) /\ bpayload_is bpl (coap_payload_bits m).
Proof.
  intros Hu Hm Hp Hb Hs A.
  exact (bfactory_of_bits _ b _ _ _ Hb Hs A (c08_predict_udp_coap u m Hu Hm Hp)).
Qed.

Theorem c08b_predict_v6_sctp h p b : ipv6_wf h -> sctp_wf p -> Z_of_bits (v6_nh h) = 132 ->
  canon b -> bside b = LEFT -> abs b = ipv6_encode h ++ sctp_encode p ->
  exists bfs bpl, bfactory S_IPv6 b = Ok (bfs, bpl) /\
                  bfields_are bfs (ipv6_fields h ++ sctp_fields p) /\ bpayload_is bpl [] /\ blen bpl = 0.
Proof.
  intros Hh Hp Hn Hb Hs A.
  destruct (bfactory_of_bits _ b _ _ _ Hb Hs A (c08_predict_ipv6_sctp h p Hh Hp Hn)) as (bfs & bpl & E & F & P).
  exists bfs, bpl. split; [exact E|]. split; [exact F|]. split; [exact P|].
  destruct P as (C & _ & Ab). rewrite <- (zlen_abs bpl C), Ab. reflexivity.
Qed.

Theorem c08b_predict_v4_sctp h p b : ipv4_wf h -> sctp_wf p -> Z_of_bits (v4_proto h) = 132 ->
  canon b -> bside b = LEFT -> abs b = ipv4_encode h ++ sctp_encode p ->
  exists bfs bpl, bfactory S_IPv4 b = Ok (bfs, bpl) /\
                  bfields_are bfs (ipv4_fields h ++ sctp_fields p) /\ bpayload_is bpl [] /\ blen bpl = 0.
Proof.
  intros Hh Hp Hn Hb Hs A.
  destruct (bfactory_of_bits _ b _ _ _ Hb Hs A (c08_predict_ipv4_sctp h p Hh Hp Hn)) as (bfs & bpl & E & F & P).
  exists bfs, bpl. split; [exact E|]. split; [exact F|]. split; [exact P|].
  destruct P as (C & _ & Ab). rewrite <- (zlen_abs bpl C), Ab. reflexivity.
Qed.

(* none of the statements is vacuous: for every message there is a (unique) packet Buffer, e.g. *)
Corollary c08b_udp_header_exists h rest : udp_wf h ->
  exists b bfs, canon b /\ bside b = LEFT /\ abs b = udp_encode h ++ rest /\
                bparse_udp false b = Ok (bfs, 64) /\ bfields_are bfs (udp_fields h).
Proof.
  intros Hh. destruct (buffer_of_bits (udp_encode h ++ rest)) as (b & C & S & A).
  destruct (c08b_udp_header h rest b Hh C S A) as (bfs & E & F). exists b, bfs. splits; assumption.
Qed.

Corollary c08b_stack_v6_exists h u m : ipv6_wf h -> udp_wf u -> coap_wf m ->
  exists b bfs bpl, canon b /\ bside b = LEFT /\ abs b = ipv6_encode h ++ udp_encode u ++ coap_encode m /\
                    bfactory IPv6_UDP_CoAP b = Ok (bfs, bpl) /\
                    bfields_are bfs (ipv6_fields h ++ udp_fields u ++ coap_fields m) /\
                    bpayload_is bpl (coap_payload_bits m).
Proof.
  intros Hh Hu Hm. destruct (buffer_of_bits (ipv6_encode h ++ udp_encode u ++ coap_encode m)) as (b & C & S & A).
  destruct (c08b_stack_v6 h u m b Hh Hu Hm C S A) as (bfs & bpl & E & F & P). exists b, bfs, bpl. splits; assumption.
Qed.

(* a concrete instance: the UDP header 12 34 00 07 00 0b 00 00 followed by three payload bytes *)
Example c08b_ex :
  let h := mk_udp (bits_of 16 4660) (bits_of 16 7) (bits_of 16 11) (bits_of 16 0) in
  let b := mkbuf [18; 52; 0; 7; 0; 11; 0; 0; 1; 2; 3] 88 LEFT 0 in
  udp_wf h /\ canon b /\ abs b = udp_encode h ++ bits_of 24 66051 /\
  bparse_udp false b = Ok ([BFD P_UDP 0 0 (mkbuf [18; 52] 16 LEFT 0); BFD P_UDP 1 0 (mkbuf [0; 7] 16 LEFT 0);
                            BFD P_UDP 2 0 (mkbuf [0; 11] 16 LEFT 0); BFD P_UDP 3 0 (mkbuf [0; 0] 16 LEFT 0)], 64).
Proof.
  cbv zeta. split; [repeat split|]. split; [canon_concrete|]. split; vm_compute; reflexivity.
Qed.
