(* CoapSemantic.v -- model of the semantic option mode of protocol/coap.py: _parse_options with
   mode=SEMANTIC (options exposed by name, with their value) and CoAPParser.unparse (rebuild the
   syntactic option fields: delta, length, extended delta/length, value).  Definitions only. *)
From Coq Require Import ZArith List Bool.
From MS Require Import PyBase Bits Schc Parsers.
Import ListNotations.
Open Scope Z_scope.

(* COAP_OPTIONS_NUMBER_TO_NAME: option number -> rank of the CoAPFields member (Block2 = 23 is absent from the table) *)
Definition coap_option_name (n : Z) : option Z :=
  if n =? 1 then Some 12 else if n =? 3 then Some 13 else if n =? 4 then Some 14 else if n =? 5 then Some 15
  else if n =? 7 then Some 16 else if n =? 8 then Some 17 else if n =? 11 then Some 18 else if n =? 12 then Some 19
  else if n =? 14 then Some 20 else if n =? 15 then Some 21 else if n =? 17 then Some 22 else if n =? 20 then Some 23
  else if n =? 27 then Some 25 else if n =? 35 then Some 26 else if n =? 39 then Some 27 else if n =? 60 then Some 28
  else None.
(* COAP_OPTIONS_NAME_TO_NUMBER *)
Definition coap_option_number (rank : Z) : option Z :=
  if rank =? 12 then Some 1 else if rank =? 13 then Some 3 else if rank =? 14 then Some 4 else if rank =? 15 then Some 5
  else if rank =? 16 then Some 7 else if rank =? 17 then Some 8 else if rank =? 18 then Some 11 else if rank =? 19 then Some 12
  else if rank =? 20 then Some 14 else if rank =? 21 then Some 15 else if rank =? 22 then Some 17 else if rank =? 23 then Some 20
  else if rank =? 25 then Some 27 else if rank =? 26 then Some 35 else if rank =? 27 then Some 39 else if rank =? 28 then Some 60
  else None.
(* field id of option number n: its name, or 'CoAP:Option Unknown(n)' = rank 1000 + n *)
Definition semantic_fid (n : Z) : fid :=
  match coap_option_name n with Some r => mkfid P_CoAP r | None => mkfid P_CoAP (1000 + n) end.

Definition count_fid (f : fid) (l : list field) : Z := zlen (filter (fun x => fid_eqb (f_id x) f) l).

(* the options walk in semantic mode; last_dext is the (possibly stale) variable option_delta_extended *)
Fixpoint coap_semantic_loop (fuel : nat) (b : bits) (cursor : Z) (index : Z) (last_dext : option bits) (acc : list field)
  : res (list field * Z) :=
  match fuel with
  | O => Diverge
  | S f =>
    if (cursor <? zlen b) && negb (eq_byte (sl b cursor (cursor + 8)) 255) then
      let ob := sl_from b cursor in
      let delta := sl ob 0 4 in
      let olen := sl ob 4 8 in
      let olen_int := Z_of_bits olen in
      let d8 := eq_byte delta 13 in
      let d16 := eq_byte delta 14 in
      let '(dext, off) :=
        if d8 then (Some (sl ob 8 16), 16)
        else if d16 then (Some (sl ob 8 24), 24)
        else (last_dext, 8) in
      let l8 := eq_byte olen 13 in
      let l16 := eq_byte olen 14 in
      let '(ext_int, off) :=
        if l8 then (Z_of_bits (sl ob off (off + 8)), off + 8)
        else if l16 then (Z_of_bits (sl ob off (off + 16)) + 255, off + 16)
        else (0, off) in
      let vlen := (olen_int + ext_int) * 8 in
      let value := sl ob off (off + vlen) in
      let cursor' := cursor + off + vlen in
      if zlen b <? cursor' then Exc ParserError
      else
        let delta_int := Z_of_bits delta in
        do index' <- (if delta_int <? 13 then Ok (index + delta_int)
                      else match dext with
                           | None => Exc UnboundLocalError
                           | Some e => Ok (index + Z_of_bits e + (if delta_int =? 13 then 13 else 269))
                           end) ;;
        let id := semantic_fid index' in
        coap_semantic_loop f b cursor' index' dext (acc ++ [mkfield id value (count_fid id acc + 1)])
    else
      if cursor <? zlen b then Ok (acc ++ [FD P_CoAP 6 0 (bits_of 8 255)], cursor + 8)
      else Ok (acc, cursor)
  end.

Definition parse_coap_semantic : hparser := fun b =>
  if zlen b <? 32 then Exc ParserError
  else
    let tkl := sl b 4 8 in
    let tkl_int := Z_of_bits tkl in
    let token := sl b 32 (32 + tkl_int * 8) in
    let hf := [FD P_CoAP 0 0 (sl b 0 2); FD P_CoAP 1 0 (sl b 2 4); FD P_CoAP 2 0 tkl;
               FD P_CoAP 3 0 (sl b 8 16); FD P_CoAP 4 0 (sl b 16 32)]
              ++ (if 0 <? tkl_int then [FD P_CoAP 5 0 token] else []) in
    let ob := sl_from b (32 + tkl_int * 8) in
    do o <- (if 0 <? zlen ob then catch_all (coap_semantic_loop (S (length ob)) ob 0 0 None []) ParserError else Ok ([], 0)) ;;
    Ok (hf ++ fst o, 32 + zlen token + snd o).

(* ---- CoAPParser.unparse (semantic mode) over (field id, value) pairs ------------------------- *)
(* n.to_bytes(k) as a left-padded Buffer of w bits: OverflowError outside 0 .. 256^k - 1 *)
Definition uint_field (k : Z) (w : nat) (n : Z) : res bits :=
  if (0 <=? n) && (n <? 256 ^ k) then Ok (bits_of w n) else Exc OverflowError.

Definition unparse_option (number prev : Z) (value : bits) : res (list (fid * bits)) :=
  let d := number - prev in
  let l := zlen value / 8 in
  do dn <- (if d <? 13 then uint_field 1 4 d else if d <? 269 then Ok (bits_of 4 13) else Ok (bits_of 4 14)) ;;
  do ln <- (if l <? 13 then uint_field 1 4 l else if l <? 269 then Ok (bits_of 4 13) else Ok (bits_of 4 14)) ;;
  do de <- (if (12 <? d) && (d <? 269) then do e <- uint_field 1 8 (d - 13) ;; Ok [(mkfid P_CoAP 9, e)]
            else if 268 <? d then do e <- uint_field 2 16 (d - 269) ;; Ok [(mkfid P_CoAP 9, e)]
            else Ok []) ;;
  do le <- (if (12 <? l) && (l <? 269) then do e <- uint_field 1 8 (l - 13) ;; Ok [(mkfid P_CoAP 10, e)]
            else if 268 <? l then do e <- uint_field 2 16 (l - 269) ;; Ok [(mkfid P_CoAP 10, e)]
            else Ok []) ;;
  Ok ([(mkfid P_CoAP 7, dn); (mkfid P_CoAP 8, ln)] ++ de ++ le ++ (if 0 <? l then [(mkfid P_CoAP 11, value)] else [])).

(* option number named by a semantic field id *)
Definition number_of_fid (f : fid) : option Z :=
  match fproto f with
  | P_CoAP => if 1000 <=? fidx f then Some (fidx f - 1000) else coap_option_number (fidx f)
  | _ => None
  end.
Definition is_fixed_coap (f : fid) : bool :=
  match fproto f with P_CoAP => (0 <=? fidx f) && (fidx f <=? 6) | _ => false end.

(* The body of the for loop of CoAPParser.unparse, for a field that is not one of the fixed ones, is
       try:
           option_number = COAP_OPTIONS_NAME_TO_NUMBER[field_id]
       except KeyError:
           match = re.match(self.unknown_option_pattern, field_id)
           if match: option_number = int(match.group(1))
           else: raise UnparserError(...)
       finally:
           option_delta = option_number - previous_option_number
           ... append delta, length, extended delta / length, value ...   (unparse_option)
           previous_option_number = option_number
   so the option fields are built inside the finally clause, which also runs while the UnparserError of an
   unrecognised identifier is pending.  The local name option_number is then
   * unbound when no option came before (seen = false): reading it raises UnboundLocalError, which replaces
     the pending UnparserError;
   * stale otherwise (seen = true): it still holds the number of the previous option, which is also
     previous_option_number (prev), so the clause builds an option of delta 0 with the value of the
     unrecognised field.  If that raises (only possible exception: OverflowError of
     (length - 269).to_bytes(2) for a value of 65805 bytes or more) the new exception replaces the pending
     UnparserError; otherwise the UnparserError propagates when the clause ends (the fields appended to
     the local list unparsed_fields are lost with it). *)
Fixpoint coap_unparse_loop (fs : list (fid * bits)) (prev : Z) (seen : bool) : res (list (fid * bits)) :=
  match fs with
  | [] => Ok []
  | (f, v) :: r =>
    if is_fixed_coap f then do rest <- coap_unparse_loop r prev seen ;; Ok ((f, v) :: rest)
    else match number_of_fid f with
         | None => if seen then do _ <- unparse_option prev prev v ;; Exc UnparserError
                   else Exc UnboundLocalError
         | Some n =>
           do o <- unparse_option n prev v ;;
           do rest <- coap_unparse_loop r n true ;;
           Ok (o ++ rest)
         end
  end.
Definition coap_unparse (fs : list (fid * bits)) : res (list (fid * bits)) := coap_unparse_loop fs 0 false.
