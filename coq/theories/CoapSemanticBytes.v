(* CoapSemanticBytes.v -- the semantic option mode of protocol/coap.py written once more at the BYTE
   level, i.e. with the Buffer operations of Buffer.v (b_getitem, b_value, b_eq_bytes, b_new) exactly
   where the Python code (CoAPParser.parse with interpret_options=SEMANTIC, _parse_options in its
   semantic branch, CoAPParser.unparse) slices, compares, reads integers and builds Buffer objects.
   The structure is the one of the bit-level transcription CoapSemantic.v (same stale variables, same
   exception sites in the same order, including the finally clause of unparse, which builds the option
   fields and also runs, with the stale option_number, when an unrecognised field identifier has just
   raised UnparserError; see bcoap_unparse_loop and CoapSemantic.coap_unparse_loop).
   CoapSemanticRefine.v proves that on canonical buffers these functions return (through abs) what the
   bit-level ones return, with no side condition.
   Definitions only, plus evaluated examples compared with the Python results. *)
From Coq Require Import ZArith List Bool.
From MS Require Import PyBase Buffer Bits Schc Parsers SchcBytes ParserBytes CoapSemantic ComputeBytes.
Import ListNotations.
Open Scope Z_scope.

(* option_field_positions[id] after its "+= 1": occurrences of the id among the fields appended so far, plus one
   (the semantic names are never touched by the other increments of _parse_options) *)
Definition bcount_fid (f : fid) (l : list bfield) : Z := zlen (filter (fun x => fid_eqb (bf_id x) f) l).

(* ---- _parse_options, mode SEMANTIC -------------------------------------------------------------- *)
(* last_dext: the local name option_delta_extended, unbound (None) until first assigned and then kept
   from one iteration to the next (it is read when the delta nibble is 15) *)
Fixpoint bcoap_semantic_loop (fuel : nat) (b : buf) (cursor : Z) (index : Z) (last_dext : option buf)
    (acc : list bfield) : res (list bfield * Z) :=
  match fuel with
  | O => Diverge
  | S f =>
    (* while cursor < buffer.length and buffer[cursor:cursor+8] != b'\xff' *)
    do continue <- (if cursor <? blen b then
                      do m <- bsl b cursor (cursor + 8) ;; Ok (negb (b_eq_bytes m [255]))
                    else Ok false) ;;
    if continue then
      do ob <- bsl_from b cursor ;;                      (* option_bytes = buffer[cursor:] *)
      do delta <- bsl ob 0 4 ;;                          (* option_delta = option_bytes[0:4] *)
      do olen <- bsl ob 4 8 ;;                           (* option_length = option_bytes[4:8] *)
      do olen_int <- b_value olen ;;                     (* option_length.value() *)
      let off := 8 in
      do dx <- (if b_eq_bytes delta [13] then            (* option_delta == b'\x0d' *)
                  do x <- bsl ob off (off + 8) ;; Ok (Some x, off + 8)
                else if b_eq_bytes delta [14] then       (* option_delta == b'\x0e' *)
                  do x <- bsl ob off (off + 16) ;; Ok (Some x, off + 16)
                else Ok (last_dext, off)) ;;
      let '(dext, off) := dx in
      do lx <- (if b_eq_bytes olen [13] then             (* option_length == b'\x0d' *)
                  do x <- bsl ob off (off + 8) ;; do v <- b_value x ;; Ok (v, off + 8)
                else if b_eq_bytes olen [14] then        (* option_length == b'\x0e' *)
                  do x <- bsl ob off (off + 16) ;; do v <- b_value x ;; Ok (v + 255, off + 16)
                else Ok (0, off)) ;;
      let '(ext_int, off) := lx in
      let vlen := (olen_int + ext_int) * 8 in
      do value <- bsl ob off (off + vlen) ;;             (* option_value = option_bytes[off:off+vlen] *)
      let cursor' := cursor + off + vlen in
      if blen b <? cursor' then Exc ParserError
      else
        do delta_int <- b_value delta ;;                 (* option_delta.value() *)
        do index' <- (if delta_int <? 13 then Ok (index + delta_int)
                      else match dext with
                           | None => Exc UnboundLocalError
                           | Some e =>                   (* option_delta_extended.value() *)
                             do ev <- b_value e ;; Ok (index + ev + (if delta_int =? 13 then 13 else 269))
                           end) ;;
        let id := semantic_fid index' in
        bcoap_semantic_loop f b cursor' index' dext (acc ++ [mkbfield id value (bcount_fid id acc + 1)])
    else
      if cursor <? blen b then
        (* Buffer(content=b'\xff', length=8) *)
        do marker <- b_new [255] 8 LEFT ;;
        Ok (acc ++ [BFD P_CoAP 6 0 marker], cursor + 8)
      else Ok (acc, cursor)
  end.

Definition bcoap_parse_options_semantic (b : buf) : res (list bfield * Z) :=
  bcoap_semantic_loop (S (Z.to_nat (blen b))) b 0 0 None [].

(* CoAPParser(interpret_options=SEMANTIC).parse *)
Definition bparse_coap_semantic : bhparser := fun b =>
  if blen b <? 32 then Exc ParserError
  else
    do version <- bsl b 0 2 ;;
    do type <- bsl b 2 4 ;;
    do tkl <- bsl b 4 8 ;;
    do tkl_int <- py_index (content tkl) 0 ;;           (* token_length.content[0] *)
    do code <- bsl b 8 16 ;;
    do mid <- bsl b 16 32 ;;
    do token <- catch_all (bsl b 32 (32 + tkl_int * 8)) ParserError ;;
    let hf := [BFD P_CoAP 0 0 version; BFD P_CoAP 1 0 type; BFD P_CoAP 2 0 tkl;
               BFD P_CoAP 3 0 code; BFD P_CoAP 4 0 mid]
              ++ (if 0 <? tkl_int then [BFD P_CoAP 5 0 token] else []) in
    do ob <- bsl_from b (32 + tkl_int * 8) ;;
    do o <- (if 0 <? blen ob then catch_all (bcoap_parse_options_semantic ob) ParserError else Ok ([], 0)) ;;
    Ok (hf ++ fst o, 32 + blen token + snd o).

(* ---- CoAPParser.unparse (semantic mode) over (field id, value) pairs ------------------------------ *)
(* Buffer(content=n.to_bytes(length=k, ...), length=w, padding=Padding.LEFT); byteorder 'little' is only
   used with length=1, where it is 'big' *)
Definition buint_field (k : nat) (w : Z) (n : Z) : res buf :=
  do c <- to_bytes k n ;; b_new c w LEFT.

(* the body of the finally clause for one option: delta nibble, length nibble, extended delta,
   extended length, value; in this order, each with its to_bytes *)
Definition bunparse_option (number prev : Z) (value : buf) : res (list (fid * buf)) :=
  let d := number - prev in                               (* option_delta *)
  do dn <- (if d <? 13 then buint_field 1 4 d else if d <? 269 then buint_field 1 4 13 else buint_field 1 4 14) ;;
  let l := blen value / 8 in                              (* option_length_bytes = field_value.length // 8 *)
  do ln <- (if l <? 13 then buint_field 1 4 l else if l <? 269 then buint_field 1 4 13 else buint_field 1 4 14) ;;
  do de <- (if (12 <? d) && (d <? 269) then do e <- buint_field 1 8 (d - 13) ;; Ok [(mkfid P_CoAP 9, e)]
            else if 268 <? d then do e <- buint_field 2 16 (d - 269) ;; Ok [(mkfid P_CoAP 9, e)]
            else Ok []) ;;
  do le <- (if (12 <? l) && (l <? 269) then do e <- buint_field 1 8 (l - 13) ;; Ok [(mkfid P_CoAP 10, e)]
            else if 268 <? l then do e <- buint_field 2 16 (l - 269) ;; Ok [(mkfid P_CoAP 10, e)]
            else Ok []) ;;
  Ok ([(mkfid P_CoAP 7, dn); (mkfid P_CoAP 8, ln)] ++ de ++ le ++ (if 0 <? l then [(mkfid P_CoAP 11, value)] else [])).

(* the loop over decompressed_fields.  prev is previous_option_number; seen tells whether the local
   name option_number is bound (then option_number = previous_option_number = prev).
   A field id that is neither a fixed field, nor a known option name, nor 'Option Unknown(n)' raises
   UnparserError inside try/except, but the finally clause runs first with the stale option_number:
   unbound -> UnboundLocalError; bound -> the option fields are built once more with delta 0 (what
   they raise replaces the pending UnparserError), then UnparserError propagates. *)
Fixpoint bcoap_unparse_loop (fs : list (fid * buf)) (prev : Z) (seen : bool) : res (list (fid * buf)) :=
  match fs with
  | [] => Ok []
  | (f, v) :: r =>
    if is_fixed_coap f then do rest <- bcoap_unparse_loop r prev seen ;; Ok ((f, v) :: rest)
    else match number_of_fid f with
         | None => if seen then do _ <- bunparse_option prev prev v ;; Exc UnparserError
                   else Exc UnboundLocalError
         | Some n =>
           do o <- bunparse_option n prev v ;;
           do rest <- bcoap_unparse_loop r n true ;;
           Ok (o ++ rest)
         end
  end.
Definition bcoap_unparse (fs : list (fid * buf)) : res (list (fid * buf)) := bcoap_unparse_loop fs 0 false.

(* ---- validation against the Python code ------------------------------------------------------------- *)
(* Each example is the result of the Python call quoted above it (microschc at HEAD, Python 3.12), with
   Buffer(content, length, padding, padding_length) printed as mkbuf content length side padding_length,
   CoAPFields members as their rank in the enumeration and 'CoAP:Option Unknown(n)' as rank 1000 + n
   (an identifier outside the CoAP tables as mkfid P_Other 0).  p stands for
   CoAPParser(interpret_options=CoAPOptionMode.SEMANTIC).  The same generator (scratch) compared 1233
   further random cases (well-formed, truncated, noisy and nibble-15 messages; random field lists for
   unparse with left- and right-padded values) with the Python results by vm_compute: no difference. *)
(* Uri-Path twice, Content-Format with an empty value, Accept, payload:
   CoAPParser(interpret_options=CoAPOptionMode.SEMANTIC).parse(Buffer(content=bytes.fromhex('42011234aabbb2616203636465105101ff706179'), length=160)) *)
Example ex1_parse :
  bparse_coap_semantic (mkbuf [66; 1; 18; 52; 170; 187; 178; 97; 98; 3; 99; 100; 101; 16; 81; 1; 255; 112; 97; 121] 160 LEFT 0) =
  Ok ([mkbfield (mkfid P_CoAP 0) (mkbuf [1] 2 LEFT 6) 0;
       mkbfield (mkfid P_CoAP 1) (mkbuf [0] 2 LEFT 6) 0;
       mkbfield (mkfid P_CoAP 2) (mkbuf [2] 4 LEFT 4) 0;
       mkbfield (mkfid P_CoAP 3) (mkbuf [1] 8 LEFT 0) 0;
       mkbfield (mkfid P_CoAP 4) (mkbuf [18; 52] 16 LEFT 0) 0;
       mkbfield (mkfid P_CoAP 5) (mkbuf [170; 187] 16 LEFT 0) 0;
       mkbfield (mkfid P_CoAP 18) (mkbuf [97; 98] 16 LEFT 0) 1;
       mkbfield (mkfid P_CoAP 18) (mkbuf [99; 100; 101] 24 LEFT 0) 2;
       mkbfield (mkfid P_CoAP 19) (mkbuf [] 0 LEFT 0) 1;
       mkbfield (mkfid P_CoAP 22) (mkbuf [1] 8 LEFT 0) 1;
       mkbfield (mkfid P_CoAP 6) (mkbuf [255] 8 LEFT 0) 0], 136).
Proof. vm_compute. reflexivity. Qed.
(* CoAPParser(interpret_options=CoAPOptionMode.SEMANTIC).unparse([(f.id, f.value) for f in h.fields]) for the descriptor h above *)
Example ex1_unparse :
  bcoap_unparse
    [(mkfid P_CoAP 0, mkbuf [1] 2 LEFT 6);
     (mkfid P_CoAP 1, mkbuf [0] 2 LEFT 6);
     (mkfid P_CoAP 2, mkbuf [2] 4 LEFT 4);
     (mkfid P_CoAP 3, mkbuf [1] 8 LEFT 0);
     (mkfid P_CoAP 4, mkbuf [18; 52] 16 LEFT 0);
     (mkfid P_CoAP 5, mkbuf [170; 187] 16 LEFT 0);
     (mkfid P_CoAP 18, mkbuf [97; 98] 16 LEFT 0);
     (mkfid P_CoAP 18, mkbuf [99; 100; 101] 24 LEFT 0);
     (mkfid P_CoAP 19, mkbuf [] 0 LEFT 0);
     (mkfid P_CoAP 22, mkbuf [1] 8 LEFT 0);
     (mkfid P_CoAP 6, mkbuf [255] 8 LEFT 0)] =
  Ok [(mkfid P_CoAP 0, mkbuf [1] 2 LEFT 6);
      (mkfid P_CoAP 1, mkbuf [0] 2 LEFT 6);
      (mkfid P_CoAP 2, mkbuf [2] 4 LEFT 4);
      (mkfid P_CoAP 3, mkbuf [1] 8 LEFT 0);
      (mkfid P_CoAP 4, mkbuf [18; 52] 16 LEFT 0);
      (mkfid P_CoAP 5, mkbuf [170; 187] 16 LEFT 0);
      (mkfid P_CoAP 7, mkbuf [11] 4 LEFT 4);
      (mkfid P_CoAP 8, mkbuf [2] 4 LEFT 4);
      (mkfid P_CoAP 11, mkbuf [97; 98] 16 LEFT 0);
      (mkfid P_CoAP 7, mkbuf [0] 4 LEFT 4);
      (mkfid P_CoAP 8, mkbuf [3] 4 LEFT 4);
      (mkfid P_CoAP 11, mkbuf [99; 100; 101] 24 LEFT 0);
      (mkfid P_CoAP 7, mkbuf [1] 4 LEFT 4);
      (mkfid P_CoAP 8, mkbuf [0] 4 LEFT 4);
      (mkfid P_CoAP 7, mkbuf [5] 4 LEFT 4);
      (mkfid P_CoAP 8, mkbuf [1] 4 LEFT 4);
      (mkfid P_CoAP 11, mkbuf [1] 8 LEFT 0);
      (mkfid P_CoAP 6, mkbuf [255] 8 LEFT 0)].
Proof. vm_compute. reflexivity. Qed.
(* delta 13 (unknown number 13) with a 13-byte value, delta 10 (Block2 = 23 is not in the table: Unknown(23)), delta 268 (Unknown(291)), no payload:
   CoAPParser(interpret_options=CoAPOptionMode.SEMANTIC).parse(Buffer(content=bytes.fromhex('40011234dd000078787878787878787878787878a107ddff077979797979797979797979797979797979797979'), length=360)) *)
Example ex2_parse :
  bparse_coap_semantic (mkbuf [64; 1; 18; 52; 221; 0; 0; 120; 120; 120; 120; 120; 120; 120; 120; 120; 120; 120; 120; 120; 161; 7; 221; 255; 7; 121; 121; 121; 121; 121; 121; 121; 121; 121; 121; 121; 121; 121; 121; 121; 121; 121; 121; 121; 121] 360 LEFT 0) =
  Ok ([mkbfield (mkfid P_CoAP 0) (mkbuf [1] 2 LEFT 6) 0;
       mkbfield (mkfid P_CoAP 1) (mkbuf [0] 2 LEFT 6) 0;
       mkbfield (mkfid P_CoAP 2) (mkbuf [0] 4 LEFT 4) 0;
       mkbfield (mkfid P_CoAP 3) (mkbuf [1] 8 LEFT 0) 0;
       mkbfield (mkfid P_CoAP 4) (mkbuf [18; 52] 16 LEFT 0) 0;
       mkbfield (mkfid P_CoAP 1013) (mkbuf [120; 120; 120; 120; 120; 120; 120; 120; 120; 120; 120; 120; 120] 104 LEFT 0) 1;
       mkbfield (mkfid P_CoAP 1023) (mkbuf [7] 8 LEFT 0) 1;
       mkbfield (mkfid P_CoAP 1291) (mkbuf [121; 121; 121; 121; 121; 121; 121; 121; 121; 121; 121; 121; 121; 121; 121; 121; 121; 121; 121; 121] 160 LEFT 0) 1], 360).
Proof. vm_compute. reflexivity. Qed.
(* CoAPParser(interpret_options=CoAPOptionMode.SEMANTIC).unparse([(f.id, f.value) for f in h.fields]) for the descriptor h above *)
Example ex2_unparse :
  bcoap_unparse
    [(mkfid P_CoAP 0, mkbuf [1] 2 LEFT 6);
     (mkfid P_CoAP 1, mkbuf [0] 2 LEFT 6);
     (mkfid P_CoAP 2, mkbuf [0] 4 LEFT 4);
     (mkfid P_CoAP 3, mkbuf [1] 8 LEFT 0);
     (mkfid P_CoAP 4, mkbuf [18; 52] 16 LEFT 0);
     (mkfid P_CoAP 1013, mkbuf [120; 120; 120; 120; 120; 120; 120; 120; 120; 120; 120; 120; 120] 104 LEFT 0);
     (mkfid P_CoAP 1023, mkbuf [7] 8 LEFT 0);
     (mkfid P_CoAP 1291, mkbuf [121; 121; 121; 121; 121; 121; 121; 121; 121; 121; 121; 121; 121; 121; 121; 121; 121; 121; 121; 121] 160 LEFT 0)] =
  Ok [(mkfid P_CoAP 0, mkbuf [1] 2 LEFT 6);
      (mkfid P_CoAP 1, mkbuf [0] 2 LEFT 6);
      (mkfid P_CoAP 2, mkbuf [0] 4 LEFT 4);
      (mkfid P_CoAP 3, mkbuf [1] 8 LEFT 0);
      (mkfid P_CoAP 4, mkbuf [18; 52] 16 LEFT 0);
      (mkfid P_CoAP 7, mkbuf [13] 4 LEFT 4);
      (mkfid P_CoAP 8, mkbuf [13] 4 LEFT 4);
      (mkfid P_CoAP 9, mkbuf [0] 8 LEFT 0);
      (mkfid P_CoAP 10, mkbuf [0] 8 LEFT 0);
      (mkfid P_CoAP 11, mkbuf [120; 120; 120; 120; 120; 120; 120; 120; 120; 120; 120; 120; 120] 104 LEFT 0);
      (mkfid P_CoAP 7, mkbuf [10] 4 LEFT 4);
      (mkfid P_CoAP 8, mkbuf [1] 4 LEFT 4);
      (mkfid P_CoAP 11, mkbuf [7] 8 LEFT 0);
      (mkfid P_CoAP 7, mkbuf [13] 4 LEFT 4);
      (mkfid P_CoAP 8, mkbuf [13] 4 LEFT 4);
      (mkfid P_CoAP 9, mkbuf [255] 8 LEFT 0);
      (mkfid P_CoAP 10, mkbuf [7] 8 LEFT 0);
      (mkfid P_CoAP 11, mkbuf [121; 121; 121; 121; 121; 121; 121; 121; 121; 121; 121; 121; 121; 121; 121; 121; 121; 121; 121; 121] 160 LEFT 0)].
Proof. vm_compute. reflexivity. Qed.
(* delta 269 with a 269-byte value, delta 300 with an empty value, marker and empty payload:
   CoAPParser(interpret_options=CoAPOptionMode.SEMANTIC).parse(Buffer(content=bytes.fromhex('4101123499ee000000007a7a7a7a7a7a7a7a7a7a7a7a7a7a7a7a7a7a7a7a7a7a7a7a7a7a7a7a7a7a7a7a7a7a7a7a7a7a7a7a7a7a7a7a7a7a7a7a7a7a7a7a7a7a7a7a7a7a7a7a7a7a7a7a7a7a7a7a7a7a7a7a7a7a7a7a7a7a7a7a7a7a7a7a7a7a7a7a7a7a7a7a7a7a7a7a7a7a7a7a7a7a7a7a7a7a7a7a7a7a7a7a7a7a7a7a7a7a7a7a7a7a7a7a7a7a7a7a7a7a7a7a7a7a7a7a7a7a7a7a7a7a7a7a7a7a7a7a7a7a7a7a7a7a7a7a7a7a7a7a7a7a7a7a7a7a7a7a7a7a7a7a7a7a7a7a7a7a7a7a7a7a7a7a7a7a7a7a7a7a7a7a7a7a7a7a7a7a7a7a7a7a7a7a7a7a7a7a7a7a7a7a7a7a7a7a7a7a7a7a7a7a7a7a7a7a7a7a7a7a7a7a7a7a7a7a7a7a7a7a7a7a7a7a7a7a7a7a7a7a7a7a7a7a7a7a7a7a7a7a7a7a7a7a7a7a7a7a7ae0001fff'), length=2264)) *)
Example ex3_parse :
  bparse_coap_semantic (mkbuf [65; 1; 18; 52; 153; 238; 0; 0; 0; 0; 122; 122; 122; 122; 122; 122; 122; 122; 122; 122; 122; 122; 122; 122; 122; 122; 122; 122; 122; 122; 122; 122; 122; 122; 122; 122; 122; 122; 122; 122; 122; 122; 122; 122; 122; 122; 122; 122; 122; 122; 122; 122; 122; 122; 122; 122; 122; 122; 122; 122; 122; 122; 122; 122; 122; 122; 122; 122; 122; 122; 122; 122; 122; 122; 122; 122; 122; 122; 122; 122; 122; 122; 122; 122; 122; 122; 122; 122; 122; 122; 122; 122; 122; 122; 122; 122; 122; 122; 122; 122; 122; 122; 122; 122; 122; 122; 122; 122; 122; 122; 122; 122; 122; 122; 122; 122; 122; 122; 122; 122; 122; 122; 122; 122; 122; 122; 122; 122; 122; 122; 122; 122; 122; 122; 122; 122; 122; 122; 122; 122; 122; 122; 122; 122; 122; 122; 122; 122; 122; 122; 122; 122; 122; 122; 122; 122; 122; 122; 122; 122; 122; 122; 122; 122; 122; 122; 122; 122; 122; 122; 122; 122; 122; 122; 122; 122; 122; 122; 122; 122; 122; 122; 122; 122; 122; 122; 122; 122; 122; 122; 122; 122; 122; 122; 122; 122; 122; 122; 122; 122; 122; 122; 122; 122; 122; 122; 122; 122; 122; 122; 122; 122; 122; 122; 122; 122; 122; 122; 122; 122; 122; 122; 122; 122; 122; 122; 122; 122; 122; 122; 122; 122; 122; 122; 122; 122; 122; 122; 122; 122; 122; 122; 122; 122; 122; 122; 122; 122; 122; 122; 122; 122; 122; 122; 122; 122; 122; 122; 122; 122; 122; 122; 122; 122; 122; 122; 122; 122; 122; 122; 122; 122; 122; 122; 122; 122; 122; 122; 122; 224; 0; 31; 255] 2264 LEFT 0) =
  Ok ([mkbfield (mkfid P_CoAP 0) (mkbuf [1] 2 LEFT 6) 0;
       mkbfield (mkfid P_CoAP 1) (mkbuf [0] 2 LEFT 6) 0;
       mkbfield (mkfid P_CoAP 2) (mkbuf [1] 4 LEFT 4) 0;
       mkbfield (mkfid P_CoAP 3) (mkbuf [1] 8 LEFT 0) 0;
       mkbfield (mkfid P_CoAP 4) (mkbuf [18; 52] 16 LEFT 0) 0;
       mkbfield (mkfid P_CoAP 5) (mkbuf [153] 8 LEFT 0) 0;
       mkbfield (mkfid P_CoAP 1269) (mkbuf [122; 122; 122; 122; 122; 122; 122; 122; 122; 122; 122; 122; 122; 122; 122; 122; 122; 122; 122; 122; 122; 122; 122; 122; 122; 122; 122; 122; 122; 122; 122; 122; 122; 122; 122; 122; 122; 122; 122; 122; 122; 122; 122; 122; 122; 122; 122; 122; 122; 122; 122; 122; 122; 122; 122; 122; 122; 122; 122; 122; 122; 122; 122; 122; 122; 122; 122; 122; 122; 122; 122; 122; 122; 122; 122; 122; 122; 122; 122; 122; 122; 122; 122; 122; 122; 122; 122; 122; 122; 122; 122; 122; 122; 122; 122; 122; 122; 122; 122; 122; 122; 122; 122; 122; 122; 122; 122; 122; 122; 122; 122; 122; 122; 122; 122; 122; 122; 122; 122; 122; 122; 122; 122; 122; 122; 122; 122; 122; 122; 122; 122; 122; 122; 122; 122; 122; 122; 122; 122; 122; 122; 122; 122; 122; 122; 122; 122; 122; 122; 122; 122; 122; 122; 122; 122; 122; 122; 122; 122; 122; 122; 122; 122; 122; 122; 122; 122; 122; 122; 122; 122; 122; 122; 122; 122; 122; 122; 122; 122; 122; 122; 122; 122; 122; 122; 122; 122; 122; 122; 122; 122; 122; 122; 122; 122; 122; 122; 122; 122; 122; 122; 122; 122; 122; 122; 122; 122; 122; 122; 122; 122; 122; 122; 122; 122; 122; 122; 122; 122; 122; 122; 122; 122; 122; 122; 122; 122; 122; 122; 122; 122; 122; 122; 122; 122; 122; 122; 122; 122; 122; 122; 122; 122; 122; 122; 122; 122; 122; 122; 122; 122; 122; 122; 122; 122; 122; 122; 122; 122; 122; 122; 122; 122; 122; 122; 122; 122; 122; 122] 2152 LEFT 0) 1;
       mkbfield (mkfid P_CoAP 1569) (mkbuf [] 0 LEFT 0) 1;
       mkbfield (mkfid P_CoAP 6) (mkbuf [255] 8 LEFT 0) 0], 2264).
Proof. vm_compute. reflexivity. Qed.
(* CoAPParser(interpret_options=CoAPOptionMode.SEMANTIC).unparse([(f.id, f.value) for f in h.fields]) for the descriptor h above *)
Example ex3_unparse :
  bcoap_unparse
    [(mkfid P_CoAP 0, mkbuf [1] 2 LEFT 6);
     (mkfid P_CoAP 1, mkbuf [0] 2 LEFT 6);
     (mkfid P_CoAP 2, mkbuf [1] 4 LEFT 4);
     (mkfid P_CoAP 3, mkbuf [1] 8 LEFT 0);
     (mkfid P_CoAP 4, mkbuf [18; 52] 16 LEFT 0);
     (mkfid P_CoAP 5, mkbuf [153] 8 LEFT 0);
     (mkfid P_CoAP 1269, mkbuf [122; 122; 122; 122; 122; 122; 122; 122; 122; 122; 122; 122; 122; 122; 122; 122; 122; 122; 122; 122; 122; 122; 122; 122; 122; 122; 122; 122; 122; 122; 122; 122; 122; 122; 122; 122; 122; 122; 122; 122; 122; 122; 122; 122; 122; 122; 122; 122; 122; 122; 122; 122; 122; 122; 122; 122; 122; 122; 122; 122; 122; 122; 122; 122; 122; 122; 122; 122; 122; 122; 122; 122; 122; 122; 122; 122; 122; 122; 122; 122; 122; 122; 122; 122; 122; 122; 122; 122; 122; 122; 122; 122; 122; 122; 122; 122; 122; 122; 122; 122; 122; 122; 122; 122; 122; 122; 122; 122; 122; 122; 122; 122; 122; 122; 122; 122; 122; 122; 122; 122; 122; 122; 122; 122; 122; 122; 122; 122; 122; 122; 122; 122; 122; 122; 122; 122; 122; 122; 122; 122; 122; 122; 122; 122; 122; 122; 122; 122; 122; 122; 122; 122; 122; 122; 122; 122; 122; 122; 122; 122; 122; 122; 122; 122; 122; 122; 122; 122; 122; 122; 122; 122; 122; 122; 122; 122; 122; 122; 122; 122; 122; 122; 122; 122; 122; 122; 122; 122; 122; 122; 122; 122; 122; 122; 122; 122; 122; 122; 122; 122; 122; 122; 122; 122; 122; 122; 122; 122; 122; 122; 122; 122; 122; 122; 122; 122; 122; 122; 122; 122; 122; 122; 122; 122; 122; 122; 122; 122; 122; 122; 122; 122; 122; 122; 122; 122; 122; 122; 122; 122; 122; 122; 122; 122; 122; 122; 122; 122; 122; 122; 122; 122; 122; 122; 122; 122; 122; 122; 122; 122; 122; 122; 122; 122; 122; 122; 122; 122; 122] 2152 LEFT 0);
     (mkfid P_CoAP 1569, mkbuf [] 0 LEFT 0);
     (mkfid P_CoAP 6, mkbuf [255] 8 LEFT 0)] =
  Ok [(mkfid P_CoAP 0, mkbuf [1] 2 LEFT 6);
      (mkfid P_CoAP 1, mkbuf [0] 2 LEFT 6);
      (mkfid P_CoAP 2, mkbuf [1] 4 LEFT 4);
      (mkfid P_CoAP 3, mkbuf [1] 8 LEFT 0);
      (mkfid P_CoAP 4, mkbuf [18; 52] 16 LEFT 0);
      (mkfid P_CoAP 5, mkbuf [153] 8 LEFT 0);
      (mkfid P_CoAP 7, mkbuf [14] 4 LEFT 4);
      (mkfid P_CoAP 8, mkbuf [14] 4 LEFT 4);
      (mkfid P_CoAP 9, mkbuf [0; 0] 16 LEFT 0);
      (mkfid P_CoAP 10, mkbuf [0; 0] 16 LEFT 0);
      (mkfid P_CoAP 11, mkbuf [122; 122; 122; 122; 122; 122; 122; 122; 122; 122; 122; 122; 122; 122; 122; 122; 122; 122; 122; 122; 122; 122; 122; 122; 122; 122; 122; 122; 122; 122; 122; 122; 122; 122; 122; 122; 122; 122; 122; 122; 122; 122; 122; 122; 122; 122; 122; 122; 122; 122; 122; 122; 122; 122; 122; 122; 122; 122; 122; 122; 122; 122; 122; 122; 122; 122; 122; 122; 122; 122; 122; 122; 122; 122; 122; 122; 122; 122; 122; 122; 122; 122; 122; 122; 122; 122; 122; 122; 122; 122; 122; 122; 122; 122; 122; 122; 122; 122; 122; 122; 122; 122; 122; 122; 122; 122; 122; 122; 122; 122; 122; 122; 122; 122; 122; 122; 122; 122; 122; 122; 122; 122; 122; 122; 122; 122; 122; 122; 122; 122; 122; 122; 122; 122; 122; 122; 122; 122; 122; 122; 122; 122; 122; 122; 122; 122; 122; 122; 122; 122; 122; 122; 122; 122; 122; 122; 122; 122; 122; 122; 122; 122; 122; 122; 122; 122; 122; 122; 122; 122; 122; 122; 122; 122; 122; 122; 122; 122; 122; 122; 122; 122; 122; 122; 122; 122; 122; 122; 122; 122; 122; 122; 122; 122; 122; 122; 122; 122; 122; 122; 122; 122; 122; 122; 122; 122; 122; 122; 122; 122; 122; 122; 122; 122; 122; 122; 122; 122; 122; 122; 122; 122; 122; 122; 122; 122; 122; 122; 122; 122; 122; 122; 122; 122; 122; 122; 122; 122; 122; 122; 122; 122; 122; 122; 122; 122; 122; 122; 122; 122; 122; 122; 122; 122; 122; 122; 122; 122; 122; 122; 122; 122; 122; 122; 122; 122; 122; 122; 122] 2152 LEFT 0);
      (mkfid P_CoAP 7, mkbuf [14] 4 LEFT 4);
      (mkfid P_CoAP 8, mkbuf [0] 4 LEFT 4);
      (mkfid P_CoAP 9, mkbuf [0; 31] 16 LEFT 0);
      (mkfid P_CoAP 6, mkbuf [255] 8 LEFT 0)].
Proof. vm_compute. reflexivity. Qed.
(* delta nibble 15 reads the option_delta_extended of the previous option (20 + 7 + 269 = 296):
   CoAPParser(interpret_options=CoAPOptionMode.SEMANTIC).parse(Buffer(content=bytes.fromhex('40010001d10755f0'), length=64)) *)
Example ex4_parse :
  bparse_coap_semantic (mkbuf [64; 1; 0; 1; 209; 7; 85; 240] 64 LEFT 0) =
  Ok ([mkbfield (mkfid P_CoAP 0) (mkbuf [1] 2 LEFT 6) 0;
       mkbfield (mkfid P_CoAP 1) (mkbuf [0] 2 LEFT 6) 0;
       mkbfield (mkfid P_CoAP 2) (mkbuf [0] 4 LEFT 4) 0;
       mkbfield (mkfid P_CoAP 3) (mkbuf [1] 8 LEFT 0) 0;
       mkbfield (mkfid P_CoAP 4) (mkbuf [0; 1] 16 LEFT 0) 0;
       mkbfield (mkfid P_CoAP 23) (mkbuf [85] 8 LEFT 0) 1;
       mkbfield (mkfid P_CoAP 1296) (mkbuf [] 0 LEFT 0) 1], 64).
Proof. vm_compute. reflexivity. Qed.
(* CoAPParser(interpret_options=CoAPOptionMode.SEMANTIC).unparse([(f.id, f.value) for f in h.fields]) for the descriptor h above *)
Example ex4_unparse :
  bcoap_unparse
    [(mkfid P_CoAP 0, mkbuf [1] 2 LEFT 6);
     (mkfid P_CoAP 1, mkbuf [0] 2 LEFT 6);
     (mkfid P_CoAP 2, mkbuf [0] 4 LEFT 4);
     (mkfid P_CoAP 3, mkbuf [1] 8 LEFT 0);
     (mkfid P_CoAP 4, mkbuf [0; 1] 16 LEFT 0);
     (mkfid P_CoAP 23, mkbuf [85] 8 LEFT 0);
     (mkfid P_CoAP 1296, mkbuf [] 0 LEFT 0)] =
  Ok [(mkfid P_CoAP 0, mkbuf [1] 2 LEFT 6);
      (mkfid P_CoAP 1, mkbuf [0] 2 LEFT 6);
      (mkfid P_CoAP 2, mkbuf [0] 4 LEFT 4);
      (mkfid P_CoAP 3, mkbuf [1] 8 LEFT 0);
      (mkfid P_CoAP 4, mkbuf [0; 1] 16 LEFT 0);
      (mkfid P_CoAP 7, mkbuf [13] 4 LEFT 4);
      (mkfid P_CoAP 8, mkbuf [1] 4 LEFT 4);
      (mkfid P_CoAP 9, mkbuf [7] 8 LEFT 0);
      (mkfid P_CoAP 11, mkbuf [85] 8 LEFT 0);
      (mkfid P_CoAP 7, mkbuf [14] 4 LEFT 4);
      (mkfid P_CoAP 8, mkbuf [0] 4 LEFT 4);
      (mkfid P_CoAP 9, mkbuf [0; 7] 16 LEFT 0)].
Proof. vm_compute. reflexivity. Qed.
(* delta nibble 15 in the first option: option_delta_extended is unbound:
   CoAPParser(interpret_options=CoAPOptionMode.SEMANTIC).parse(Buffer(content=bytes.fromhex('40010001f0'), length=40)) *)
Example ex5_parse :
  bparse_coap_semantic (mkbuf [64; 1; 0; 1; 240] 40 LEFT 0) =
  Exc ParserError.
Proof. vm_compute. reflexivity. Qed.
(* truncated option value:
   CoAPParser(interpret_options=CoAPOptionMode.SEMANTIC).parse(Buffer(content=bytes.fromhex('40010001130102'), length=56)) *)
Example ex6_parse :
  bparse_coap_semantic (mkbuf [64; 1; 0; 1; 19; 1; 2] 56 LEFT 0) =
  Exc ParserError.
Proof. vm_compute. reflexivity. Qed.
(* too short:
   CoAPParser(interpret_options=CoAPOptionMode.SEMANTIC).parse(Buffer(content=bytes.fromhex('400100'), length=24)) *)
Example ex7_parse :
  bparse_coap_semantic (mkbuf [64; 1; 0] 24 LEFT 0) =
  Exc ParserError.
Proof. vm_compute. reflexivity. Qed.
(* token longer than the buffer (the slice is clamped), no options:
   CoAPParser(interpret_options=CoAPOptionMode.SEMANTIC).parse(Buffer(content=bytes.fromhex('48010001aa'), length=40)) *)
Example ex8_parse :
  bparse_coap_semantic (mkbuf [72; 1; 0; 1; 170] 40 LEFT 0) =
  Ok ([mkbfield (mkfid P_CoAP 0) (mkbuf [1] 2 LEFT 6) 0;
       mkbfield (mkfid P_CoAP 1) (mkbuf [0] 2 LEFT 6) 0;
       mkbfield (mkfid P_CoAP 2) (mkbuf [8] 4 LEFT 4) 0;
       mkbfield (mkfid P_CoAP 3) (mkbuf [1] 8 LEFT 0) 0;
       mkbfield (mkfid P_CoAP 4) (mkbuf [0; 1] 16 LEFT 0) 0;
       mkbfield (mkfid P_CoAP 5) (mkbuf [170] 8 LEFT 0) 0], 40).
Proof. vm_compute. reflexivity. Qed.
(* CoAPParser(interpret_options=CoAPOptionMode.SEMANTIC).unparse([(f.id, f.value) for f in h.fields]) for the descriptor h above *)
Example ex8_unparse :
  bcoap_unparse
    [(mkfid P_CoAP 0, mkbuf [1] 2 LEFT 6);
     (mkfid P_CoAP 1, mkbuf [0] 2 LEFT 6);
     (mkfid P_CoAP 2, mkbuf [8] 4 LEFT 4);
     (mkfid P_CoAP 3, mkbuf [1] 8 LEFT 0);
     (mkfid P_CoAP 4, mkbuf [0; 1] 16 LEFT 0);
     (mkfid P_CoAP 5, mkbuf [170] 8 LEFT 0)] =
  Ok [(mkfid P_CoAP 0, mkbuf [1] 2 LEFT 6);
      (mkfid P_CoAP 1, mkbuf [0] 2 LEFT 6);
      (mkfid P_CoAP 2, mkbuf [8] 4 LEFT 4);
      (mkfid P_CoAP 3, mkbuf [1] 8 LEFT 0);
      (mkfid P_CoAP 4, mkbuf [0; 1] 16 LEFT 0);
      (mkfid P_CoAP 5, mkbuf [170] 8 LEFT 0)].
Proof. vm_compute. reflexivity. Qed.
(* 53 bits:
   CoAPParser(interpret_options=CoAPOptionMode.SEMANTIC).parse(Buffer(content=bytes.fromhex('40010001b1617f'), length=53)) *)
Example ex9_parse :
  bparse_coap_semantic (mkbuf [0; 1; 0; 1; 177; 97; 127] 53 LEFT 3) =
  Exc ParserError.
Proof. vm_compute. reflexivity. Qed.
(* p.unparse([('bogus', Buffer(b'\x01', 8))]): option_number unbound in the finally clause *)
Example un1 :
  bcoap_unparse
    [(mkfid P_Other 0, mkbuf [1] 8 LEFT 0)] =
  Exc UnboundLocalError.
Proof. vm_compute. reflexivity. Qed.
(* unrecognised id after an option: the finally clause completes, UnparserError *)
Example un2 :
  bcoap_unparse
    [(mkfid P_CoAP 18, mkbuf [1] 8 LEFT 0);
     (mkfid P_Other 0, mkbuf [1] 8 LEFT 0)] =
  Exc UnparserError.
Proof. vm_compute. reflexivity. Qed.
(* decreasing option numbers: (-10).to_bytes *)
Example un3 :
  bcoap_unparse
    [(mkfid P_CoAP 18, mkbuf [1] 8 LEFT 0);
     (mkfid P_CoAP 12, mkbuf [1] 8 LEFT 0)] =
  Exc OverflowError.
Proof. vm_compute. reflexivity. Qed.
(* delta 70000: (70000-269).to_bytes(2) *)
Example un4 :
  bcoap_unparse
    [(mkfid P_CoAP 71000, mkbuf [1] 8 LEFT 0)] =
  Exc OverflowError.
Proof. vm_compute. reflexivity. Qed.
(* a syntactic option field id first *)
Example un5 :
  bcoap_unparse
    [(mkfid P_CoAP 7, mkbuf [1] 4 LEFT 4)] =
  Exc UnboundLocalError.
Proof. vm_compute. reflexivity. Qed.
(* a 21-bit value (length 21 // 8 = 2), a fixed field between options, an empty value *)
Example un6 :
  bcoap_unparse
    [(mkfid P_CoAP 0, mkbuf [1] 2 LEFT 6);
     (mkfid P_CoAP 18, mkbuf [1; 2; 3] 21 LEFT 3);
     (mkfid P_CoAP 6, mkbuf [1] 8 LEFT 0);
     (mkfid P_CoAP 18, mkbuf [] 0 LEFT 0)] =
  Ok [(mkfid P_CoAP 0, mkbuf [1] 2 LEFT 6);
      (mkfid P_CoAP 7, mkbuf [11] 4 LEFT 4);
      (mkfid P_CoAP 8, mkbuf [2] 4 LEFT 4);
      (mkfid P_CoAP 11, mkbuf [1; 2; 3] 21 LEFT 3);
      (mkfid P_CoAP 6, mkbuf [1] 8 LEFT 0);
      (mkfid P_CoAP 7, mkbuf [0] 4 LEFT 4);
      (mkfid P_CoAP 8, mkbuf [0] 4 LEFT 4)].
Proof. vm_compute. reflexivity. Qed.
(* right-padded values are kept as they are; Unknown(11) names option 11 too *)
Example un7 :
  bcoap_unparse
    [(mkfid P_CoAP 18, mkbuf [240] 8 RIGHT 0);
     (mkfid P_CoAP 1011, mkbuf [128] 3 RIGHT 5)] =
  Ok [(mkfid P_CoAP 7, mkbuf [11] 4 LEFT 4);
      (mkfid P_CoAP 8, mkbuf [1] 4 LEFT 4);
      (mkfid P_CoAP 11, mkbuf [240] 8 RIGHT 0);
      (mkfid P_CoAP 7, mkbuf [0] 4 LEFT 4);
      (mkfid P_CoAP 8, mkbuf [0] 4 LEFT 4)].
Proof. vm_compute. reflexivity. Qed.
