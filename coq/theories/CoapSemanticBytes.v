(* CoapSemanticBytes.v -- the semantic option mode of protocol/coap.py written once more at the BYTE
   level, i.e. with the Buffer operations of Buffer.v (b_getitem, b_value, b_eq_bytes, b_new) exactly
   where the Python code (CoAPParser.parse with interpret_options=SEMANTIC, _parse_options in its
   semantic branch, CoAPParser.unparse) slices, compares, reads integers and builds Buffer objects.
   The structure is the one of the bit-level transcription CoapSemantic.v (same stale variables, same
   exception sites in the same order); CoapSemanticRefine.v proves that on canonical buffers these
   functions return (through abs) what the bit-level ones return.
   Definitions only, plus evaluated examples compared with the Python results. *)
From Coq Require Import ZArith List Bool.
From MS Require Import PyBase Buffer Bits Schc Parsers SchcBytes ParserBytes CoapSemantic ComputeBytes.
Import ListNotations.
Open Scope Z_scope.

(* option_field_positions[id] after its "+= 1": occurrences of the id among the fields appended so far, plus one
   (the semantic names are never touched by the other increments of _parse_options) *)
Definition bcount_fid (f : fid) (l : list bfield) : Z := zlen (filter (fun x => fid_eqb (bf_id x) f) l).

(* ---- _parse_options, mode SEMANTIC -------------------------------------------------------------- *)
(* last_dext: the local name option_delta_extended, unbound (None) until first assigned and then kept
   from one iteration to the next (it is read when the delta nibble is 15) *)
Fixpoint bcoap_semantic_loop (fuel : nat) (b : buf) (cursor : Z) (index : Z) (last_dext : option buf)
    (acc : list bfield) : res (list bfield * Z) :=
  match fuel with
  | O => Diverge
  | S f =>
    (* while cursor < buffer.length and buffer[cursor:cursor+8] != b'\xff' *)
    do continue <- (if cursor <? blen b then
                      do m <- bsl b cursor (cursor + 8) ;; Ok (negb (b_eq_bytes m [255]))
                    else Ok false) ;;
    if continue then
      do ob <- bsl_from b cursor ;;                      (* option_bytes = buffer[cursor:] *)
      do delta <- bsl ob 0 4 ;;                          (* option_delta = option_bytes[0:4] *)
      do olen <- bsl ob 4 8 ;;                           (* option_length = option_bytes[4:8] *)
      do olen_int <- b_value olen ;;                     (* option_length.value() *)
      let off := 8 in
      do dx <- (if b_eq_bytes delta [13] then            (* option_delta == b'\x0d' *)
                  do x <- bsl ob off (off + 8) ;; Ok (Some x, off + 8)
                else if b_eq_bytes delta [14] then       (* option_delta == b'\x0e' *)
                  do x <- bsl ob off (off + 16) ;; Ok (Some x, off + 16)
                else Ok (last_dext, off)) ;;
      let '(dext, off) := dx in
      do lx <- (if b_eq_bytes olen [13] then             (* option_length == b'\x0d' *)
                  do x <- bsl ob off (off + 8) ;; do v <- b_value x ;; Ok (v, off + 8)
                else if b_eq_bytes olen [14] then        (* option_length == b'\x0e' *)
                  do x <- bsl ob off (off + 16) ;; do v <- b_value x ;; Ok (v + 255, off + 16)
                else Ok (0, off)) ;;
      let '(ext_int, off) := lx in
      let vlen := (olen_int + ext_int) * 8 in
      do value <- bsl ob off (off + vlen) ;;             (* option_value = option_bytes[off:off+vlen] *)
      let cursor' := cursor + off + vlen in
      if blen b <? cursor' then Exc ParserError
      else
        do delta_int <- b_value delta ;;                 (* option_delta.value() *)
        do index' <- (if delta_int <? 13 then Ok (index + delta_int)
                      else match dext with
                           | None => Exc UnboundLocalError
                           | Some e =>                   (* option_delta_extended.value() *)
                             do ev <- b_value e ;; Ok (index + ev + (if delta_int =? 13 then 13 else 269))
                           end) ;;
        let id := semantic_fid index' in
        bcoap_semantic_loop f b cursor' index' dext (acc ++ [mkbfield id value (bcount_fid id acc + 1)])
    else
      if cursor <? blen b then
        (* Buffer(content=b'\xff', length=8) *)
        do marker <- b_new [255] 8 LEFT ;;
        Ok (acc ++ [BFD P_CoAP 6 0 marker], cursor + 8)
      else Ok (acc, cursor)
  end.

Definition bcoap_parse_options_semantic (b : buf) : res (list bfield * Z) :=
  bcoap_semantic_loop (S (Z.to_nat (blen b))) b 0 0 None [].

(* CoAPParser(interpret_options=SEMANTIC).parse *)
Definition bparse_coap_semantic : bhparser := fun b =>
  if blen b <? 32 then Exc ParserError
  else
    do version <- bsl b 0 2 ;;
    do type <- bsl b 2 4 ;;
    do tkl <- bsl b 4 8 ;;
    do tkl_int <- py_index (content tkl) 0 ;;           (* token_length.content[0] *)
    do code <- bsl b 8 16 ;;
    do mid <- bsl b 16 32 ;;
    do token <- catch_all (bsl b 32 (32 + tkl_int * 8)) ParserError ;;
    let hf := [BFD P_CoAP 0 0 version; BFD P_CoAP 1 0 type; BFD P_CoAP 2 0 tkl;
               BFD P_CoAP 3 0 code; BFD P_CoAP 4 0 mid]
              ++ (if 0 <? tkl_int then [BFD P_CoAP 5 0 token] else []) in
    do ob <- bsl_from b (32 + tkl_int * 8) ;;
    do o <- (if 0 <? blen ob then catch_all (bcoap_parse_options_semantic ob) ParserError else Ok ([], 0)) ;;
    Ok (hf ++ fst o, 32 + blen token + snd o).

(* ---- CoAPParser.unparse (semantic mode) over (field id, value) pairs ------------------------------ *)
(* Buffer(content=n.to_bytes(length=k, ...), length=w, padding=Padding.LEFT); byteorder 'little' is only
   used with length=1, where it is 'big' *)
Definition buint_field (k : nat) (w : Z) (n : Z) : res buf :=
  do c <- to_bytes k n ;; b_new c w LEFT.

(* the body of the finally clause for one option: delta nibble, length nibble, extended delta,
   extended length, value; in this order, each with its to_bytes *)
Definition bunparse_option (number prev : Z) (value : buf) : res (list (fid * buf)) :=
  let d := number - prev in                               (* option_delta *)
  do dn <- (if d <? 13 then buint_field 1 4 d else if d <? 269 then buint_field 1 4 13 else buint_field 1 4 14) ;;
  let l := blen value / 8 in                              (* option_length_bytes = field_value.length // 8 *)
  do ln <- (if l <? 13 then buint_field 1 4 l else if l <? 269 then buint_field 1 4 13 else buint_field 1 4 14) ;;
  do de <- (if (12 <? d) && (d <? 269) then do e <- buint_field 1 8 (d - 13) ;; Ok [(mkfid P_CoAP 9, e)]
            else if 268 <? d then do e <- buint_field 2 16 (d - 269) ;; Ok [(mkfid P_CoAP 9, e)]
            else Ok []) ;;
  do le <- (if (12 <? l) && (l <? 269) then do e <- buint_field 1 8 (l - 13) ;; Ok [(mkfid P_CoAP 10, e)]
            else if 268 <? l then do e <- buint_field 2 16 (l - 269) ;; Ok [(mkfid P_CoAP 10, e)]
            else Ok []) ;;
  Ok ([(mkfid P_CoAP 7, dn); (mkfid P_CoAP 8, ln)] ++ de ++ le ++ (if 0 <? l then [(mkfid P_CoAP 11, value)] else [])).

(* the loop over decompressed_fields.  prev is previous_option_number; seen tells whether the local
   name option_number is bound (then option_number = previous_option_number = prev).
   A field id that is neither a fixed field, nor a known option name, nor 'Option Unknown(n)' raises
   UnparserError inside try/except, but the finally clause runs first with the stale option_number:
   unbound -> UnboundLocalError; bound -> the option fields are built once more with delta 0 (what
   they raise replaces the pending UnparserError), then UnparserError propagates. *)
Fixpoint bcoap_unparse_loop (fs : list (fid * buf)) (prev : Z) (seen : bool) : res (list (fid * buf)) :=
  match fs with
  | [] => Ok []
  | (f, v) :: r =>
    if is_fixed_coap f then do rest <- bcoap_unparse_loop r prev seen ;; Ok ((f, v) :: rest)
    else match number_of_fid f with
         | None => if seen then do _ <- bunparse_option prev prev v ;; Exc UnparserError
                   else Exc UnboundLocalError
         | Some n =>
           do o <- bunparse_option n prev v ;;
           do rest <- bcoap_unparse_loop r n true ;;
           Ok (o ++ rest)
         end
  end.
Definition bcoap_unparse (fs : list (fid * buf)) : res (list (fid * buf)) := bcoap_unparse_loop fs 0 false.
