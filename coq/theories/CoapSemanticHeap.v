(* CoapSemanticHeap.v -- the semantic option mode of the CoAP parser (CoapSemanticBytes.v: CoAPParser.parse with
   interpret_options=SEMANTIC, _parse_options in its semantic branch) over the heap of Buffer OBJECTS, in the style of
   ParserHeap.v (which has the syntactic mode): frame, freshness (the field values are new objects in allocation
   order; the stale local option_delta_extended is only read through .value(), never returned), refinement to
   bparse_coap_semantic, and PacketParser.parse over it.  Used for property C16 (first sentence). *)
From Coq Require Import ZArith List Bool Lia Arith.
From MS Require Import PyBase Buffer Bits Schc Parsers SchcBytes ParserBytes CoapSemantic CoapSemanticBytes.
From MS Require Import BufferHeap BufferHeapSpec SchcHeap ParserHeap.
Import ListNotations.
Open Scope Z_scope.

Definition ocount_fid (f : fid) (l : list ofield) : Z := zlen (filter (fun x => fid_eqb (of_id x) f) l).

Fixpoint h_coap_semantic_loop (fuel : nat) (b : oref) (cursor : Z) (index : Z) (last_dext : option oref)
    (acc : list ofield) : hm (list ofield * Z) :=
  match fuel with
  | O => hlift Diverge
  | S f =>
    hdo bl <- h_len b ;;
    hdo continue <- (if cursor <? bl then
                       hdo m <- hsl b cursor (cursor + 8) ;; hdo e <- h_eq_bytes m [255] ;; hret (negb e)
                     else hret false) ;;
    if continue then
      hdo ob <- hsl_from b cursor ;;
      hdo delta <- hsl ob 0 4 ;;
      hdo olen <- hsl ob 4 8 ;;
      hdo olen_int <- h_value olen ;;
      let off := 8 in
      hdo d13 <- h_eq_bytes delta [13] ;;
      hdo dx <- (if d13 then hdo x <- hsl ob off (off + 8) ;; hret (Some x, off + 8)
                 else
                   hdo d14 <- h_eq_bytes delta [14] ;;
                   if d14 then hdo x <- hsl ob off (off + 16) ;; hret (Some x, off + 16)
                   else hret (last_dext, off)) ;;
      let '(dext, off) := dx in
      hdo l13 <- h_eq_bytes olen [13] ;;
      hdo lx <- (if l13 then hdo x <- hsl ob off (off + 8) ;; hdo v <- h_value x ;; hret (v, off + 8)
                 else
                   hdo l14 <- h_eq_bytes olen [14] ;;
                   if l14 then hdo x <- hsl ob off (off + 16) ;; hdo v <- h_value x ;; hret (v + 255, off + 16)
                   else hret (0, off)) ;;
      let '(ext_int, off) := lx in
      let vlen := (olen_int + ext_int) * 8 in
      hdo value <- hsl ob off (off + vlen) ;;
      let cursor' := cursor + off + vlen in
      hdo bl2 <- h_len b ;;
      if bl2 <? cursor' then hlift (Exc ParserError)
      else
        hdo delta_int <- h_value delta ;;
        hdo index' <- (if delta_int <? 13 then hret (index + delta_int)
                       else match dext with
                            | None => hlift (Exc UnboundLocalError)
                            | Some e => hdo ev <- h_value e ;; hret (index + ev + (if delta_int =? 13 then 13 else 269))
                            end) ;;
        let id := semantic_fid index' in
        h_coap_semantic_loop f b cursor' index' dext (acc ++ [mkofield id value (ocount_fid id acc + 1)])
    else
      hdo bl3 <- h_len b ;;
      if cursor <? bl3 then
        hdo marker <- h_new [255] 8 LEFT ;;
        hret (acc ++ [OFD P_CoAP 6 0 marker], cursor + 8)
      else hret (acc, cursor)
  end.

Definition h_coap_parse_options_semantic (b : oref) : hm (list ofield * Z) :=
  hdo bl <- h_len b ;; h_coap_semantic_loop (S (Z.to_nat bl)) b 0 0 None [].

Definition h_parse_coap_semantic : ohparser := fun b =>
  hdo bl <- h_len b ;;
  if bl <? 32 then hlift (Exc ParserError)
  else
    hdo version <- hsl b 0 2 ;;
    hdo type <- hsl b 2 4 ;;
    hdo tkl <- hsl b 4 8 ;;
    hdo tklb <- hget tkl ;;
    hdo tkl_int <- hlift (py_index (content tklb) 0) ;;
    hdo code <- hsl b 8 16 ;;
    hdo mid <- hsl b 16 32 ;;
    hdo token <- h_catch_all (hsl b 32 (32 + tkl_int * 8)) ParserError ;;
    let hf := [OFD P_CoAP 0 0 version; OFD P_CoAP 1 0 type; OFD P_CoAP 2 0 tkl;
               OFD P_CoAP 3 0 code; OFD P_CoAP 4 0 mid]
              ++ (if 0 <? tkl_int then [OFD P_CoAP 5 0 token] else []) in
    hdo ob <- hsl_from b (32 + tkl_int * 8) ;;
    hdo obl <- h_len ob ;;
    hdo o <- (if 0 <? obl then h_catch_all (h_coap_parse_options_semantic ob) ParserError else hret ([], 0)) ;;
    hdo tl <- h_len token ;;
    hret (hf ++ fst o, 32 + tl + snd o).

(* ---- frame ---- *)
Lemma pv_coap_semantic_loop : forall fuel b cursor index dext acc, pure_val (h_coap_semantic_loop fuel b cursor index dext acc).
Proof.
  induction fuel as [|f IH]; intros; cbn [h_coap_semantic_loop]. apply pv_lift.
  ppure_using (apply IH).
Qed.
Lemma pv_coap_parse_options_semantic b : pure_val (h_coap_parse_options_semantic b).
Proof. unfold h_coap_parse_options_semantic. apply pv_bind. apply pv_len. intro. apply pv_coap_semantic_loop. Qed.
Lemma pv_parse_coap_semantic b : pure_val (h_parse_coap_semantic b).
Proof. unfold h_parse_coap_semantic. ppure_using (apply pv_coap_parse_options_semantic). Qed.

Theorem h_parse_coap_semantic_frame b h res h' : h_parse_coap_semantic b h = (res, h') -> extends h h'.
Proof. apply pv_parse_coap_semantic. Qed.

(* ---- refinement and freshness ---- *)
Lemma count_fid_rel h f acc accb : Forall2 (Rfield h) acc accb -> bcount_fid f accb = ocount_fid f acc.
Proof.
  intro F. unfold bcount_fid, ocount_fid, zlen. f_equal.
  induction F; simpl; auto. destruct H as (-> & _). destruct (fid_eqb (of_id x) f); simpl; auto.
Qed.

Lemma refines_coap_semantic_loop : forall fuel b bb cursor index dext dextb acc accb lo h,
  Rref h b bb -> Ropt Rref h dext dextb -> Rfl lo h acc accb ->
  refines (Rhd lo) h (h_coap_semantic_loop fuel b cursor index dext acc h)
          (bcoap_semantic_loop fuel bb cursor index dextb accb).
Proof.
  induction fuel as [|f IH]; intros b bb cursor index dext dextb acc accb lo h Eb Rd Ra;
    cbn [h_coap_semantic_loop bcoap_semantic_loop].
  apply refines_div.
  rd_len.
  apply refines_bind with (R := Rval).
  { destruct (cursor <? blen bb).
    - step_sl as m mb hm Xm Em Fm. rd_eqb. apply refines_ret. reflexivity.
    - apply refines_ret. reflexivity. }
  intros c c' h1 X1 Ec. unfold Rval in Ec; subst c'. destruct c.
  2:{ rd_len. destruct (cursor <? blen bb).
      - eapply refines_bind with (R := Rnew _). apply refines_new_fresh.
        intros mk mkb h2 X2 [Em Fm]. apply refines_ret. split; [ | reflexivity ]. cbn [fst].
        eapply (Rfl_app _ h); [ exact Ra | apply Nat.le_refl | ext | fin_fields ].
      - apply refines_ret. split; [ | reflexivity ]. eapply Rfl_mono; [ | exact Ra ]. ext. }
  destruct dext as [d0|], dextb as [d0b|]; simpl in Rd; try contradiction.
  all: step_sl as ob obb h2 X2 Eob Fob;
       step_sl as delta deltab h3 X3 Edelta Fdelta;
       step_sl as olen olenb h4 X4 Eolen Folen;
       step_val as olen_int h5 X5;
       cbv zeta; rd_eqb.
  all: (destruct (b_eq_bytes deltab [13]) eqn:T13;
        [ rewrite hbind_assoc, bind_assoc; step_sl as dxr dxrb h6 X6 Edx Fdx; rewrite hbind_ret; cbn [bind]
        | rewrite hbind_assoc; rd_eqb; destruct (b_eq_bytes deltab [14]) eqn:T14;
          [ rewrite hbind_assoc, bind_assoc; step_sl as dxr dxrb h6 X6 Edx Fdx; rewrite hbind_ret; cbn [bind]
          | rewrite hbind_ret; cbn [bind] ] ]).
  all: rd_eqb;
    (destruct (b_eq_bytes olenb [13]) eqn:L13;
     [ rewrite hbind_assoc, bind_assoc; step_sl as lxr lxrb h7 X7 Elx Flx;
       rewrite hbind_assoc, bind_assoc; step_val as lxval h8 X8; rewrite hbind_ret; cbn [bind]
     | rewrite hbind_assoc; rd_eqb; destruct (b_eq_bytes olenb [14]) eqn:L14;
       [ rewrite hbind_assoc, bind_assoc; step_sl as lxr lxrb h7 X7 Elx Flx;
         rewrite hbind_assoc, bind_assoc; step_val as lxval h8 X8; rewrite hbind_ret; cbn [bind]
       | rewrite hbind_ret; cbn [bind] ] ]).
  all: step_sl as value valueb hv Xv Evalue Fvalue; rd_len.
  all: match goal with |- refines _ _ ((if ?c then _ else _) _) _ => destruct c end; [ apply refines_exc | ].
  all: step_val as delta_int hd Xd.
  all: apply refines_bind with (R := Rval);
       [ destruct (delta_int <? 13);
         [ apply refines_ret; reflexivity
         | first [ apply refines_exc
                 | apply refines_bind with (R := Rval);
                   [ apply refines_value; mono
                   | let ev := fresh "ev" in let ev' := fresh "ev" in let hh := fresh "hh" in let XX := fresh "XX" in
                     let EE := fresh "EE" in
                     intros ev ev' hh XX EE; unfold Rval in EE; subst ev'; apply refines_ret; reflexivity ] ] ]
       | ].
  all: intros index' index'' hi Xi Ei; unfold Rval in Ei; subst index''.
  all: apply IH;
       [ mono
       | first [ exact I | cbn [Ropt]; mono ]
       | eapply (Rfl_app _ h); [ exact Ra | apply Nat.le_refl | ext | ];
         destruct Ra as [Fa _]; rewrite (count_fid_rel h _ _ _ Fa);
         split;
         [ apply Forall2_cons; [ split; [ reflexivity | split; [ reflexivity | cbn [of_val bf_val]; mono ] ] | apply Forall2_nil ]
         | cbn [sorted_in map of_val]; lens; lia ] ].
Qed.

Lemma refines_coap_parse_options_semantic b bb h : Rref h b bb ->
  refines (Rhd (length h)) h (h_coap_parse_options_semantic b h) (bcoap_parse_options_semantic bb).
Proof.
  intro Eb. unfold h_coap_parse_options_semantic, bcoap_parse_options_semantic. rd_len.
  apply refines_coap_semantic_loop; auto; try exact I. apply Rfl_nil. lia.
Qed.

Lemma refines_parse_coap_semantic b bb h : Rref h b bb ->
  refines (Rhd (length h)) h (h_parse_coap_semantic b h) (bparse_coap_semantic bb).
Proof.
  intro Eb. unfold h_parse_coap_semantic, bparse_coap_semantic. rd_len.
  destruct (blen bb <? 32). apply refines_exc.
  step_sl as version versionb h1 X1 E1 F1.
  step_sl as type typeb h2 X2 E2 F2.
  step_sl as tkl tklb h3 X3 E3 F3.
  erewrite hbind_getR by mono. rewrite hbind_lift.
  destruct (py_index (content tklb) 0) as [tkl_int|e|]; cbn [bind]; [ | split; [ext | reflexivity] .. ].
  step_sl as code codeb h4 X4 E4 F4.
  step_sl as mid midb h5 X5 E5 F5.
  eapply refines_bind with (R := Rnew _). { apply refines_catch_all. apply refines_sl. mono. }
  intros token tokenb h6 X6 [E6 F6]. cbv zeta.
  step_sl as ob obb h7 X7 E7 F7. rd_len.
  apply refines_bind with (R := Rhd (length h7)).
  { destruct (0 <? blen obb).
    - apply refines_catch_all. now apply refines_coap_parse_options_semantic.
    - apply refines_ret. split; [ apply Rfl_nil; lia | reflexivity ]. }
  intros o o' h8 X8 [Ro Ez]. rd_len. apply refines_ret. split; [ | rewrite Ez; reflexivity ]. cbn [fst].
  eapply (Rfl_app _ h7); [ | apply Nat.le_refl | ext | exact Ro ].
  destruct (0 <? tkl_int); cbn [app]; fin_fields.
Qed.
Lemma Rparser_coap_semantic : Rparser h_parse_coap_semantic bparse_coap_semantic.
Proof. intros x xb h E. now apply refines_parse_coap_semantic. Qed.

(* the header parser on a buffer in scope: same fields (dereferenced), same header length, same exception as
   bparse_coap_semantic; the field values are objects created by the call, in order of creation *)
Theorem h_parse_coap_semantic_refines b h bb : nth_error h b = Some bb ->
  match h_parse_coap_semantic b h with
  | (Ok (fs, n), h') =>
    exists bfs, bparse_coap_semantic bb = Ok (bfs, n) /\ deref_list (deref_field h') fs = Some bfs /\
                sorted_in (length h) (map of_val fs) (length h')
  | (Exc e, _) => bparse_coap_semantic bb = Exc e
  | (Diverge, _) => bparse_coap_semantic bb = Diverge
  end.
Proof.
  intro Eb. pose proof (refines_parse_coap_semantic b bb h Eb) as R. unfold refines in R.
  destruct (h_parse_coap_semantic b h) as [[[fs n]|e|] h']; try tauto.
  destruct R as (X & [bfs n'] & Ef & [Ff Srt] & En). cbn [fst snd] in *. subst n'.
  exists bfs. repeat split; auto. now apply Rfields_deref.
Qed.

(* PacketParser('CoAP', [CoAPParser(interpret_options=SEMANTIC)]).parse *)
Definition h_packet_parse_semantic : oref -> hm (list ofield * oref * oref) := h_packet_parse [h_parse_coap_semantic].

Lemma pv_packet_parse_semantic b : pure_val (h_packet_parse_semantic b).
Proof.
  unfold h_packet_parse_semantic, h_packet_parse. apply pv_bind. apply pure_ref_val, pr_copy. intro.
  apply pv_bind. apply pv_packet_parse_loop. intros p x [<- | []]. apply pv_parse_coap_semantic. intro. apply pv_ret.
Qed.
Theorem h_packet_parse_semantic_frame b h res h' : h_packet_parse_semantic b h = (res, h') -> extends h h'.
Proof. apply pv_packet_parse_semantic. Qed.

Lemma refines_packet_parse_semantic b bb h : Rref h b bb ->
  refines (Rpacket bb (length h)) h (h_packet_parse_semantic b h) (bpacket_parse [bparse_coap_semantic] bb).
Proof.
  intro Eb. unfold h_packet_parse_semantic, h_packet_parse, bpacket_parse.
  apply refines_bind with (R := fun h' x v => Rnew (length h) h' x v /\ b_copy bb = Ok v).
  { pose proof (h_copy_refines b h bb Eb) as C. unfold refines. destruct (h_copy b h) as [[x|e|] h1].
    - destruct C as (v & Cv & Hx & -> & ->). split. apply extends_app. exists v. repeat split; auto.
      rewrite app_length; simpl; lia.
    - destruct C as (-> & ->). split. apply extends_refl. auto.
    - destruct C as (-> & ->). split. apply extends_refl. auto. }
  intros raw rawb h1 X1 [[Er Fr] Ec].
  eapply refines_map.
  { apply (refines_packet_parse_loop_top h_parse_coap_semantic [] bparse_coap_semantic [] b bb (length h1) h1); auto.
    apply Rparser_coap_semantic. mono. }
  intros r rb h2 X2 (Ff & Epl & Srt). split; [ exact Ff | split; [ exact Epl | split ] ]; cbn [fst snd].
  - exists rawb. split; auto. mono.
  - cbn [sorted_in]. split. lia. eapply sorted_in_weaken; [ exact Srt | lia | lia ].
Qed.

Theorem h_packet_parse_semantic_refines b h bb : nth_error h b = Some bb ->
  match h_packet_parse_semantic b h with
  | (Ok (fs, pl, raw), h') =>
    exists bfs plb rawb, bpacket_parse [bparse_coap_semantic] bb = Ok (bfs, plb) /\
                         deref_list (deref_field h') fs = Some bfs /\ nth_error h' pl = Some plb /\
                         b_copy bb = Ok rawb /\ nth_error h' raw = Some rawb
  | (Exc e, _) => bpacket_parse [bparse_coap_semantic] bb = Exc e
  | (Diverge, _) => bpacket_parse [bparse_coap_semantic] bb = Diverge
  end.
Proof.
  intro Eb. pose proof (refines_packet_parse_semantic b bb h Eb) as R. unfold refines in R.
  destruct (h_packet_parse_semantic b h) as [[[[fs pl] raw]|e|] h']; try tauto.
  destruct R as (X & [bfs plb] & Ef & Ff & Epl & (rawb & Ec & Er) & Srt). cbn [fst snd] in *.
  exists bfs, plb, rawb. repeat split; auto. now apply Rfields_deref.
Qed.

Theorem h_packet_parse_semantic_fresh b h fs pl raw h' : h_packet_parse_semantic b h = (Ok (fs, pl, raw), h') ->
  let l := raw :: map of_val fs ++ [pl] in
  sorted_in (length h) l (length h') /\ NoDup l /\ Forall (fun x => (length h <= x < length h')%nat) l /\
  (b < length h)%nat /\ ~ In b l.
Proof.
  intro H. destruct (nth_error h b) as [bb|] eqn:Eb.
  - pose proof (refines_packet_parse_semantic b bb h Eb) as R. rewrite H in R.
    destruct R as (X & [bfs plb] & Ef & Ff & Epl & _ & Srt). cbn [fst snd] in Srt. cbv zeta.
    pose proof (sorted_in_range _ _ _ Srt) as Rg. pose proof (nth_some_lt _ _ _ Eb) as Lb.
    split; [ exact Srt | split; [ eapply sorted_in_NoDup; eauto | split; [ exact Rg | split; [ exact Lb | ] ] ] ].
    intro I. rewrite Forall_forall in Rg. apply Rg in I. lia.
  - unfold h_packet_parse_semantic, h_packet_parse in H. rewrite hbind_eq, h_copy_eq, Eb in H. discriminate.
Qed.

(* the CoAP message of ParserHeap.ex_coap (token, option 15 through an extended delta, marker, payload) in semantic mode *)
Example ex_coap_semantic_parse :
  let p := h_packet_parse_semantic 0%nat [ex_coap] in
  match fst p with
  | Ok (fs, pl, raw) =>
    map of_id fs = [mkfid P_CoAP 0; mkfid P_CoAP 1; mkfid P_CoAP 2; mkfid P_CoAP 3; mkfid P_CoAP 4; mkfid P_CoAP 5;
                    semantic_fid 15; mkfid P_CoAP 6] /\
    sorted_in 1 (raw :: map of_val fs ++ [pl]) (length (snd p)) /\
    firstn 1 (snd p) = [ex_coap] /\
    match bpacket_parse [bparse_coap_semantic] ex_coap with
    | Ok (bfs, plb) => deref_list (deref_field (snd p)) fs = Some bfs /\ nth_error (snd p) pl = Some plb
    | _ => False
    end
  | _ => False
  end.
Proof. vm_compute. repeat split; try reflexivity; lia. Qed.
