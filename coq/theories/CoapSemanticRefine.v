(* CoapSemanticRefine.v -- the byte-level semantic CoAP option parser and un-parser of
   CoapSemanticBytes.v (written with the Buffer operations) refine the bit-level ones of
   CoapSemantic.v through abs, and the C19 statements of CoapSemanticSpec.v lifted to bytes. *)
From Coq Require Import ZArith List Bool Lia.
From MS Require Import PyBase Buffer Bits ByteFacts BufferAbs BufNew BufferSpec Schc SchcBytes SchcRefine
  Parsers ParserBytes ParserRefine CoapSemantic ComputeBytes ComputeRefine CoapSemanticBytes.
Import ListNotations.
Open Scope Z_scope.

(* ---- semantic parsing ---------------------------------------------------------------------------- *)
(* the carried local name option_delta_extended *)
Definition dext_rel (x : option buf) (y : option bits) : Prop :=
  match x, y with
  | Some a, Some v => canon a /\ abs a = v
  | None, None => True
  | _, _ => False
  end.

Lemma count_fid_abs f l : count_fid f (map (abs_field abs) l) = bcount_fid f l.
Proof.
  unfold count_fid, bcount_fid. f_equal.
  induction l as [|x l IH]; [reflexivity|]. cbn [map filter abs_field f_id].
  destruct (fid_eqb (bf_id x) f); cbn [length]; now rewrite IH.
Qed.

Lemma fields_rel_sem id pos pos' x v : canon x -> bside x = LEFT -> abs x = v -> pos = pos' ->
  fields_rel [mkbfield id x pos] [mkfield id v pos'].
Proof. intros C S <- <-. split; [reflexivity|]. constructor; [split; assumption|constructor]. Qed.

Lemma bcoap_semantic_loop_refines fuel : forall b cursor index dext dext' acc acc',
  canon b -> bside b = LEFT -> 0 <= cursor -> dext_rel dext dext' -> fields_rel acc acc' ->
  same_outcome hdr_rel (bcoap_semantic_loop fuel b cursor index dext acc)
                       (coap_semantic_loop fuel (abs b) cursor index dext' acc').
Proof.
  induction fuel as [|f IH]; intros b cursor index dext dext' acc acc' Hb Hs Hc Hd Hacc; [exact I|].
  cbn [bcoap_semantic_loop coap_semantic_loop]. rewrite zlen_abs by assumption.
  destruct (cursor <? blen b) eqn:Hcur; cbn [andb].
  2:{ cbn [bind same_outcome]. hdr_solve. }
  step_sl as mk. rewrite eq_byte_refines by assumption.
  destruct (eq_byte (abs mk) 255); cbn [negb].
  { destruct marker_ok as (m & Em & Cm & Sm & Am). rewrite Em. cbn [bind same_outcome]. rewrite <- Am. hdr_solve. }
  cbv zeta. step_from as ob. step_sl as delta. step_sl as olen. step_val.
  rewrite !eq_byte_refines by assumption.
Admitted.
