(* CoapSemanticRefine.v -- the byte-level semantic CoAP option parser and un-parser of
   CoapSemanticBytes.v (written with the Buffer operations) refine the bit-level ones of CoapSemantic.v
   through abs, and the C19 statements of CoapSemanticSpec.v lifted to bytes.
   * bparse_coap_semantic_refines: on canonical left-padded buffers the byte-level semantic parser returns
     the bit-level outcome (same exception / divergence, or fields denoting the bit-level ones, canonical
     and left padded, and the same header length).
   * bcoap_unparse_refines: on canonical field values the byte-level un-parser returns the outcome of
     the bit-level un-parser, with no side condition (both levels have the finally clause of coap.py);
     bcoap_unparse_ok, bcoap_unparse_ok_inv (successes); coap_unparse_loop_unknown,
     bcoap_unparse_loop_unknown: what an unrecognised identifier answers (UnboundLocalError before any
     option, then UnparserError below 65805 bytes of value and OverflowError from there on); the boundary
     evaluated on both levels (cex_bytes, cex_bits, cex_bytes_short, cex_bits_short).
   * bc19_semantic_parse, bc19_unparse, bc19_lossless, bc19_lossless_exists: C19 on packet bytes. *)
From Coq Require Import ZArith List Bool Lia.
From MS Require Import PyBase Buffer Bits ByteFacts BufferAbs BufNew BufferSpec Schc SchcBytes SchcRefine
  Parsers ParserBytes ParserRefine CoapSemantic ComputeBytes ComputeRefine CoapSemanticBytes
  RfcHeaders ParserRfc CoapSemanticSpec.
Import ListNotations.
Open Scope Z_scope.

(* ---- semantic parsing ---------------------------------------------------------------------------- *)
(* the carried local name option_delta_extended *)
Definition dext_rel (x : option buf) (y : option bits) : Prop :=
  match x, y with
  | Some a, Some v => canon a /\ abs a = v
  | None, None => True
  | _, _ => False
  end.

Lemma count_fid_abs f l : count_fid f (map (abs_field abs) l) = bcount_fid f l.
Proof.
  unfold count_fid, bcount_fid, zlen. f_equal.
  induction l as [|x l IH]; [reflexivity|]. cbn [map filter abs_field f_id].
  destruct (fid_eqb (bf_id x) f); cbn [length]; now rewrite IH.
Qed.

Lemma fields_rel_sem id pos pos' x v : canon x -> bside x = LEFT -> abs x = v -> pos = pos' ->
  fields_rel [mkbfield id x pos] [mkfield id v pos'].
Proof. intros C S <- <-. split; [reflexivity|]. constructor; [split; assumption|constructor]. Qed.

Lemma bcoap_semantic_loop_refines fuel : forall b cursor index dext dext' acc acc',
  canon b -> bside b = LEFT -> 0 <= cursor -> dext_rel dext dext' -> fields_rel acc acc' ->
  same_outcome hdr_rel (bcoap_semantic_loop fuel b cursor index dext acc)
                       (coap_semantic_loop fuel (abs b) cursor index dext' acc').
Proof.
  induction fuel as [|f IH]; intros b cursor index dext dext' acc acc' Hb Hs Hc Hd Hacc; [exact I|].
  cbn [bcoap_semantic_loop coap_semantic_loop]. rewrite zlen_abs by assumption.
  destruct (cursor <? blen b) eqn:Hcur; cbn [andb].
  2:{ cbn [bind same_outcome]. hdr_solve. }
  step_sl as mk. rewrite eq_byte_refines by assumption.
  destruct (eq_byte (abs mk) 255); cbn [negb].
  { destruct marker_ok as (m & Em & Cm & Sm & Am). rewrite Em. cbn [bind same_outcome]. rewrite <- Am. hdr_solve. }
  cbv zeta. step_from as ob. step_sl as delta. step_sl as olen. step_val.
  rewrite !eq_byte_refines by assumption.
  change (8 + 8) with 16. change (8 + 16) with 24.
  assert (Hcnt : forall id, bcount_fid id acc + 1 = count_fid id acc' + 1).
  { intros id. destruct Hacc as [<- _]. now rewrite count_fid_abs. }
  destruct dext as [dx0|], dext' as [dv0|]; cbn [dext_rel] in Hd; try contradiction;
    [destruct Hd as [Cdx0 <-]|];
  (destruct (eq_byte (abs delta) 13) eqn:D8; [|destruct (eq_byte (abs delta) 14) eqn:D16]);
  (try step_sl as dx); cbn [bind];
  (destruct (eq_byte (abs olen) 13) eqn:L8; [|destruct (eq_byte (abs olen) 14) eqn:L16]);
  (try (step_sl as lx; step_val)); cbn [bind]; note_ranges; step_sl as value;
  (match goal with |- context [blen b <? ?c] => destruct (blen b <? c) eqn:Hover end; [reflexivity|]);
  step_val;
  (destruct (Z_of_bits (abs delta) <? 13); cbn [bind]; (try step_val); (try reflexivity));
  (apply IH; [assumption|assumption|lia|cbn [dext_rel]; auto|]);
  (apply fields_rel_app; [assumption|apply fields_rel_sem; [assumption|assumption|reflexivity|apply Hcnt]]).
Qed.


Lemma bcoap_parse_options_semantic_refines b : canon b -> bside b = LEFT ->
  same_outcome hdr_rel (bcoap_parse_options_semantic b) (coap_semantic_loop (S (length (abs b))) (abs b) 0 0 None []).
Proof.
  intros Hb Hs. unfold bcoap_parse_options_semantic. rewrite length_abs by assumption.
  apply bcoap_semantic_loop_refines; [assumption|assumption|lia|exact I|apply fields_rel_nil].
Qed.

Theorem bparse_coap_semantic_refines : refines bparse_coap_semantic parse_coap_semantic.
Proof.
  intros b Hb Hs. unfold bparse_coap_semantic, parse_coap_semantic. rewrite zlen_abs by assumption.
  destruct (Z.ltb_spec (blen b) 32) as [|Hlen]; [reflexivity|]. cbv zeta.
  step_sl as version. step_sl as type. step_sl as tkl.
  assert (blen tkl = 4) as Htkl.
  { rewrite <- (zlen_abs tkl) by assumption. rewrite Atkl. rewrite zlen_sl_exact; rewrite ?zlen_abs by assumption; lia. }
  rewrite (content0_refines tkl) by (try assumption; lia). cbn [bind].
  step_sl as code. step_sl as mid. note_ranges. step_sl as token. cbn [catch_all bind]. step_from as ob.
  rewrite !zlen_abs by assumption.
  apply same_outcome_bind with (R := hdr_rel).
  - destruct (0 <? blen ob).
    + apply same_outcome_catch. apply bcoap_parse_options_semantic_refines; assumption.
    + cbn [same_outcome]. hdr_solve.
  - intros o o' (Of & Ol & Oc). cbn [same_outcome]. apply hdr_rel_intro; [|congruence].
    apply fields_rel_app; [|split; assumption].
    destruct (0 <? _); fr_solve.
Qed.

(* ---- un-parsing ------------------------------------------------------------------------------------ *)
(* results related field-wise: same identifiers, canonical buffers denoting the bit-level values *)
Definition unp_rel (r : list (fid * buf)) (r' : list (fid * bits)) : Prop := canonf r /\ absf r = r'.

Lemma unp_rel_nil : unp_rel [] [].
Proof. split; [constructor|reflexivity]. Qed.
Lemma unp_rel_one i x v : bval_rel x v -> unp_rel [(i, x)] [(i, v)].
Proof. intros [C <-]. split; [constructor; [exact C|constructor]|reflexivity]. Qed.
Lemma unp_rel_app a a' c c' : unp_rel a a' -> unp_rel c c' -> unp_rel (a ++ c) (a' ++ c').
Proof. intros [C1 <-] [C2 <-]. split; [apply Forall_app; auto|unfold absf; now rewrite map_app]. Qed.
Lemma unp_rel_cons i x v a a' : bval_rel x v -> unp_rel a a' -> unp_rel ((i, x) :: a) ((i, v) :: a').
Proof. intros H1 H2. apply (unp_rel_app [_] [_]); [apply unp_rel_one; exact H1|exact H2]. Qed.

(* Buffer(content=n.to_bytes(k), length=w) *)
Lemma buint_field_refines k kz w wn n : kz = Z.of_nat k -> wn = Z.to_nat w -> 0 <= w ->
  same_outcome bval_rel (buint_field k w n) (uint_field kz wn n).
Proof.
  intros -> -> Hw. unfold buint_field, to_bytes, uint_field.
  destruct ((0 <=? n) && (n <? 256 ^ Z.of_nat k)) eqn:E; [|reflexivity]. cbn [bind].
  apply andb_true_iff in E. destruct E as [E1 E2]. apply Z.leb_le in E1. apply Z.ltb_lt in E2.
  destruct (new_left_bits (bytes_of k n) w (bytes_ok_bytes_of k n) Hw) as (r & E & C & _ & _ & A).
  rewrite E. cbn [same_outcome]. split; [exact C|]. rewrite A, val_bytes_of, Z.mod_small by lia. reflexivity.
Qed.

(* Buffer(content=(13).to_bytes(1), length=4) *)
Lemma bnibble_const c : 0 <= c < 256 -> same_outcome bval_rel (buint_field 1 4 c) (Ok (bits_of 4 c)).
Proof.
  intros Hc. pose proof (buint_field_refines 1 1 4 4 c eq_refl eq_refl ltac:(lia)) as H.
  unfold uint_field in H. change (256 ^ 1) with 256 in H.
  destruct (Z.leb_spec 0 c); [|lia]. destruct (Z.ltb_spec c 256); [|lia]. exact H.
Qed.

Lemma bnibble_refines x : 
  same_outcome bval_rel
    (if x <? 13 then buint_field 1 4 x else if x <? 269 then buint_field 1 4 13 else buint_field 1 4 14)
    (if x <? 13 then uint_field 1 4 x else if x <? 269 then Ok (bits_of 4 13) else Ok (bits_of 4 14)).
Proof.
  destruct (x <? 13); [apply buint_field_refines; [reflexivity|reflexivity|lia]|].
  destruct (x <? 269); apply bnibble_const; lia.
Qed.

Lemma bextension_refines i x :
  same_outcome unp_rel
    (if (12 <? x) && (x <? 269) then do e <- buint_field 1 8 (x - 13) ;; Ok [(i, e)]
     else if 268 <? x then do e <- buint_field 2 16 (x - 269) ;; Ok [(i, e)] else Ok [])
    (if (12 <? x) && (x <? 269) then do e <- uint_field 1 8 (x - 13) ;; Ok [(i, e)]
     else if 268 <? x then do e <- uint_field 2 16 (x - 269) ;; Ok [(i, e)] else Ok []).
Proof.
  destruct ((12 <? x) && (x <? 269)); [|destruct (268 <? x)].
  - apply same_outcome_bind with (R := bval_rel); [apply buint_field_refines; [reflexivity|reflexivity|lia]|].
    intros e e' He. apply unp_rel_one. exact He.
  - apply same_outcome_bind with (R := bval_rel); [apply buint_field_refines; [reflexivity|reflexivity|lia]|].
    intros e e' He. apply unp_rel_one. exact He.
  - apply unp_rel_nil.
Qed.

Lemma bunparse_option_refines n p v : canon v ->
  same_outcome unp_rel (bunparse_option n p v) (unparse_option n p (abs v)).
Proof.
  intros Hv. unfold bunparse_option, unparse_option. cbv zeta. rewrite zlen_abs by exact Hv.
  apply same_outcome_bind with (R := bval_rel); [apply bnibble_refines|]. intros dn dn' Hdn.
  apply same_outcome_bind with (R := bval_rel); [apply bnibble_refines|]. intros ln ln' Hln.
  apply same_outcome_bind with (R := unp_rel); [apply bextension_refines|]. intros de de' Hde.
  apply same_outcome_bind with (R := unp_rel); [apply bextension_refines|]. intros le le' Hle.
  cbn [same_outcome app]. apply unp_rel_cons; [exact Hdn|]. apply unp_rel_cons; [exact Hln|].
  apply unp_rel_app; [exact Hde|]. apply unp_rel_app; [exact Hle|].
  destruct (0 <? blen v / 8); [apply unp_rel_one; split; [exact Hv|reflexivity]|apply unp_rel_nil].
Qed.

(* The finally clause of CoAPParser.unparse (the option fields are built once more, with the stale
   option_number, while the UnparserError of an unrecognised identifier is pending) is part of both
   levels: CoapSemantic.coap_unparse_loop and CoapSemanticBytes.bcoap_unparse_loop have the same shape,
   and the refinement needs no side condition. *)
Lemma canonf_cons p l : canonf (p :: l) -> canon (snd p) /\ canonf l.
Proof. intros H. inversion H; subst. auto. Qed.

Lemma bcoap_unparse_loop_refines bfs : forall prev seen, canonf bfs ->
  same_outcome unp_rel (bcoap_unparse_loop bfs prev seen) (coap_unparse_loop (absf bfs) prev seen).
Proof.
  induction bfs as [|[f v] bfs IH]; intros prev seen Hc; [apply unp_rel_nil|].
  apply canonf_cons in Hc. cbn [snd] in Hc. destruct Hc as [Hv Hc].
  cbn [absf map fst snd bcoap_unparse_loop coap_unparse_loop]. fold (absf bfs).
  destruct (is_fixed_coap f).
  { apply same_outcome_bind with (R := unp_rel); [apply IH; exact Hc|].
    intros r r' Hr. apply unp_rel_cons; [split; [exact Hv|reflexivity]|exact Hr]. }
  destruct (number_of_fid f) as [n|].
  - apply same_outcome_bind with (R := unp_rel); [apply bunparse_option_refines; exact Hv|].
    intros o o' Ho. apply same_outcome_bind with (R := unp_rel); [apply IH; exact Hc|].
    intros r r' Hr. apply unp_rel_app; assumption.
  - destruct seen; [|reflexivity].
    apply same_outcome_bind with (R := unp_rel); [apply bunparse_option_refines; exact Hv|].
    intros o o' Ho. reflexivity.
Qed.

Theorem bcoap_unparse_refines bfs : canonf bfs ->
  same_outcome unp_rel (bcoap_unparse bfs) (coap_unparse (absf bfs)).
Proof. apply bcoap_unparse_loop_refines. Qed.

(* whenever the bit-level un-parser succeeds, so does the byte-level one, with the fields it denotes *)
Corollary bcoap_unparse_ok bfs r' : canonf bfs -> coap_unparse (absf bfs) = Ok r' ->
  exists r, bcoap_unparse bfs = Ok r /\ canonf r /\ absf r = r'.
Proof.
  intros Hc E. pose proof (bcoap_unparse_refines bfs Hc) as H.
  destruct (same_outcome_ok _ _ _ _ H E) as (r & Er & Cr & Ar). exists r. auto.
Qed.

Corollary bcoap_unparse_ok_inv bfs r : canonf bfs -> bcoap_unparse bfs = Ok r ->
  coap_unparse (absf bfs) = Ok (absf r) /\ canonf r.
Proof.
  intros Hc E. pose proof (bcoap_unparse_refines bfs Hc) as H.
  rewrite E in H. destruct (coap_unparse (absf bfs)) as [r'| |]; cbn [same_outcome] in H; try contradiction.
  destruct H as [Cr <-]. auto.
Qed.

(* ---- what the finally clause answers ------------------------------------------------------------------ *)
(* the clause with the stale option number: delta 0, only the length of the value matters *)
Lemma unparse_option_stale p v :
  (zlen v / 8 < 65805 /\ exists r, unparse_option p p v = Ok r) \/
  (65805 <= zlen v / 8 /\ unparse_option p p v = Exc OverflowError).
Proof.
  unfold unparse_option. cbv zeta. rewrite Z.sub_diag. set (l := zlen v / 8).
  assert (0 <= l) by (apply Z.div_pos; [apply zlen_nonneg|lia]).
  change (0 <? 13) with true. change ((12 <? 0) && (0 <? 269)) with false. change (268 <? 0) with false.
  cbv iota. unfold uint_field. change (256 ^ 1) with 256. change (256 ^ 2) with 65536.
  change ((0 <=? 0) && (0 <? 256)) with true. cbv iota. cbn [bind].
  destruct (Z.ltb_spec l 13).
  { left. split; [lia|]. destruct (Z.leb_spec 0 l); [|lia]. destruct (Z.ltb_spec l 256); [|lia]. cbn [andb bind].
    destruct (Z.ltb_spec 12 l); [lia|]. cbn [andb]. destruct (Z.ltb_spec 268 l); [lia|]. cbn [bind]. eexists. reflexivity. }
  destruct (Z.ltb_spec l 269).
  { left. split; [lia|]. cbn [bind]. destruct (Z.ltb_spec 12 l); [|lia]. cbn [andb].
    destruct (Z.leb_spec 0 (l - 13)); [|lia]. destruct (Z.ltb_spec (l - 13) 256); [|lia]. cbn [andb bind].
    eexists. reflexivity. }
  cbn [bind]. destruct (Z.ltb_spec 12 l); [|lia]. cbn [andb]. destruct (Z.ltb_spec 268 l); [|lia].
  destruct (Z.leb_spec 0 (l - 269)); [|lia]. cbn [andb].
  destruct (Z.ltb_spec (l - 269) 65536).
  - left. split; [lia|]. cbn [bind]. eexists. reflexivity.
  - right. split; [lia|]. reflexivity.
Qed.

(* an unrecognised identifier met by the loop: UnboundLocalError before any option; after an option
   UnparserError for a value shorter than 65805 bytes and OverflowError from 65805 bytes on *)
Lemma coap_unparse_loop_unknown f v r prev seen : is_fixed_coap f = false -> number_of_fid f = None ->
  coap_unparse_loop ((f, v) :: r) prev seen =
  if seen then (if zlen v / 8 <? 65805 then Exc UnparserError else Exc OverflowError) else Exc UnboundLocalError.
Proof.
  intros H1 H2. cbn [coap_unparse_loop]. rewrite H1, H2. destruct seen; [|reflexivity].
  destruct (unparse_option_stale prev v) as [(Hl & o & ->)|(Hl & ->)]; cbn [bind];
    destruct (Z.ltb_spec (zlen v / 8) 65805); try lia; reflexivity.
Qed.

Lemma bcoap_unparse_loop_unknown f v r prev seen : canon v -> is_fixed_coap f = false -> number_of_fid f = None ->
  bcoap_unparse_loop ((f, v) :: r) prev seen =
  if seen then (if blen v / 8 <? 65805 then Exc UnparserError else Exc OverflowError) else Exc UnboundLocalError.
Proof.
  intros Hv H1 H2. cbn [bcoap_unparse_loop]. rewrite H1, H2. destruct seen; [|reflexivity].
  pose proof (bunparse_option_refines prev prev v Hv) as H. rewrite <- (zlen_abs v Hv).
  destruct (unparse_option_stale prev (abs v)) as [(Hl & o & E)|(Hl & E)]; rewrite E in H;
    destruct (Z.ltb_spec (zlen (abs v) / 8) 65805); try lia.
  - destruct (bunparse_option prev prev v); cbn [same_outcome] in H; try contradiction. reflexivity.
  - destruct (bunparse_option prev prev v) as [?|e|]; cbn [same_outcome] in H; try contradiction. subst e. reflexivity.
Qed.

(* ---- the boundary example ------------------------------------------------------------------------------ *)
(* CoAPParser(interpret_options=SEMANTIC).unparse([(CoAPFields.OPTION_URI_PATH, Buffer(content=b'\x01', length=8)),
     ('bogus', Buffer(content=bytes(n), length=n*8))])
   raises OverflowError for n = 65805 and UnparserError for n = 65804 (microschc at HEAD, Python 3.12);
   so do both levels of the model. *)
Definition cex_bfs_n (n : Z) : list (fid * buf) :=
  [(mkfid P_CoAP 18, mkbuf [1] 8 LEFT 0); (mkfid P_Other 0, mkbuf (zeros n) (n * 8) LEFT 0)].
Definition cex_bfs : list (fid * buf) := cex_bfs_n 65805.
Definition cex_bfs_short : list (fid * buf) := cex_bfs_n 65804.

Lemma cex_canonf n : 0 <= n -> canonf (cex_bfs_n n).
Proof.
  intros Hn. constructor; [|constructor; [|constructor]]; cbn [snd].
  - split; [cbn; lia|]. split; [reflexivity|]. split; [reflexivity|]. split; [|cbn; lia].
    apply bytes_ok_cons. split; [lia|apply bytes_ok_nil].
  - split; [cbn [blen]; lia|]. cbn [bside content blen bpl].
    split; [unfold calc_pl; rewrite Z.mod_mul by lia; reflexivity|].
    split; [rewrite zlen_zeros, Z.add_comm, Z.div_add by lia; change (7 / 8) with 0; lia|].
    split; [apply bytes_ok_zeros|rewrite val_zeros; apply Z.pow_pos_nonneg; lia].
Qed.

Lemma cex_absf n : absf (cex_bfs_n n) = [(mkfid P_CoAP 18, bits_of 8 1); (mkfid P_Other 0, repeat false (Z.to_nat (n * 8)))].
Proof.
  assert (E : abs (mkbuf (zeros n) (n * 8) LEFT 0) = repeat false (Z.to_nat (n * 8))).
  { unfold abs, num. cbn [blen bside content]. rewrite val_zeros. apply bits_of_zero. }
  unfold cex_bfs_n, absf. cbn [map fst snd]. rewrite E. generalize (repeat false (Z.to_nat (n * 8))). intros l. reflexivity.
Qed.

Example cex_bytes : bcoap_unparse cex_bfs = Exc OverflowError.
Proof. vm_compute. reflexivity. Qed.

Example cex_bits : coap_unparse (absf cex_bfs) = Exc OverflowError.
Proof. unfold cex_bfs. rewrite cex_absf. vm_compute. reflexivity. Qed.

Example cex_bytes_short : bcoap_unparse cex_bfs_short = Exc UnparserError.
Proof. vm_compute. reflexivity. Qed.

Example cex_bits_short : coap_unparse (absf cex_bfs_short) = Exc UnparserError.
Proof. unfold cex_bfs_short. rewrite cex_absf. vm_compute. reflexivity. Qed.

(* ---- the generated fields are left padded ------------------------------------------------------------ *)
Definition leftf (bfs : list (fid * buf)) : Prop := Forall (fun p => bside (snd p) = LEFT) bfs.

Lemma b_new_left_side c w r : b_new c w LEFT = Ok r -> bside r = LEFT.
Proof.
  unfold b_new. cbv zeta.
  match goal with |- bind ?X _ = _ -> _ => destruct X as [c3| |] end; cbn [bind]; intros H; inversion H; reflexivity.
Qed.

Lemma buint_field_side k w n x : buint_field k w n = Ok x -> bside x = LEFT.
Proof.
  unfold buint_field. destruct (to_bytes k n) as [c| |]; cbn [bind]; try discriminate. apply b_new_left_side.
Qed.

Lemma bnibble_side x r :
  (if x <? 13 then buint_field 1 4 x else if x <? 269 then buint_field 1 4 13 else buint_field 1 4 14) = Ok r ->
  bside r = LEFT.
Proof. destruct (x <? 13); [|destruct (x <? 269)]; apply buint_field_side. Qed.

Lemma bextension_side i x l :
  (if (12 <? x) && (x <? 269) then do e <- buint_field 1 8 (x - 13) ;; Ok [(i, e)]
   else if 268 <? x then do e <- buint_field 2 16 (x - 269) ;; Ok [(i, e)] else Ok []) = Ok l -> leftf l.
Proof.
  destruct ((12 <? x) && (x <? 269)); [|destruct (268 <? x)].
  - destruct (buint_field 1 8 (x - 13)) as [e| |] eqn:E; cbn [bind]; try discriminate.
    intros [= <-]. constructor; [exact (buint_field_side _ _ _ _ E)|constructor].
  - destruct (buint_field 2 16 (x - 269)) as [e| |] eqn:E; cbn [bind]; try discriminate.
    intros [= <-]. constructor; [exact (buint_field_side _ _ _ _ E)|constructor].
  - intros [= <-]. constructor.
Qed.

Ltac bind_case x E :=
  match goal with |- bind ?X _ = _ -> _ => destruct X as [x| |] eqn:E; cbn [bind]; [|discriminate|discriminate] end.

Lemma bunparse_option_left n p v o : bside v = LEFT -> bunparse_option n p v = Ok o -> leftf o.
Proof.
  intros Sv. unfold bunparse_option. cbv zeta.
  bind_case dnib Edn. bind_case lnib Eln. bind_case dxt Ede. bind_case lxt Ele. intros [= <-].
  apply bnibble_side in Edn, Eln. apply bextension_side in Ede, Ele. cbn [app].
  constructor; [exact Edn|]. constructor; [exact Eln|]. apply Forall_app. split; [exact Ede|].
  apply Forall_app. split; [exact Ele|]. destruct (0 <? _); [constructor; [exact Sv|constructor]|constructor].
Qed.

Lemma bcoap_unparse_loop_left bfs : forall prev seen r, leftf bfs -> bcoap_unparse_loop bfs prev seen = Ok r -> leftf r.
Proof.
  induction bfs as [|[f v] bfs IH]; intros prev seen r Hl; cbn [bcoap_unparse_loop]; [intros [= <-]; constructor|].
  inversion Hl as [|? ? Sv Hl']; subst. cbn [snd] in Sv.
  destruct (is_fixed_coap f).
  { bind_case rest Er. intros [= <-]. constructor; [exact Sv|]. eapply IH; eassumption. }
  destruct (number_of_fid f) as [n|].
  - bind_case o Eo. bind_case rest Er. intros [= <-]. apply Forall_app. split.
    + eapply bunparse_option_left; eassumption.
    + eapply IH; eassumption.
  - destruct seen; [|discriminate]. destruct (bunparse_option prev prev v); discriminate.
Qed.

(* canonical left-padded buffers are determined by their bits *)
Lemma absf_inj a : forall b, canonf a -> canonf b -> leftf a -> leftf b -> absf a = absf b -> a = b.
Proof.
  induction a as [|[i x] a IH]; intros [|[j y] b] Ca Cb La Lb E; try discriminate E; [reflexivity|].
  cbn [absf map fst snd] in E. injection E as Ei Ex Er.
  apply canonf_cons in Ca, Cb. cbn [snd] in Ca, Cb. destruct Ca as [Cx Ca], Cb as [Cy Cb].
  inversion La as [|? ? Sx La']; subst. inversion Lb as [|? ? Sy Lb']; subst. cbn [snd] in Sx, Sy.
  f_equal.
  - f_equal. apply abs_inj; [assumption|assumption|congruence|assumption].
  - apply IH; assumption.
Qed.

(* ---- C19 at the byte level ----------------------------------------------------------------------------- *)
(* (id, value) pairs of a byte-level field list: what the decompressor hands to unparse *)
Definition bpairs (bfs : list bfield) : list (fid * buf) := map (fun f => (bf_id f, bf_val f)) bfs.

Lemma absf_bpairs bfs : absf (bpairs bfs) = pairs (map (abs_field abs) bfs).
Proof. unfold absf, bpairs, pairs. rewrite !map_map. reflexivity. Qed.
Lemma canonf_bpairs bfs : Forall canon_bfield bfs -> canonf (bpairs bfs).
Proof. intros H. unfold canonf, bpairs. apply Forall_map. eapply Forall_impl; [|exact H]. intros f [C _]. exact C. Qed.
Lemma leftf_bpairs bfs : Forall canon_bfield bfs -> leftf (bpairs bfs).
Proof. intros H. unfold leftf, bpairs. apply Forall_map. eapply Forall_impl; [|exact H]. intros f [_ S]. exact S. Qed.

(* every bit string is the content of a canonical left-padded Buffer *)
Lemma buf_of_bits (l : bits) : exists b, canon b /\ bside b = LEFT /\ abs b = l.
Proof.
  set (L := zlen l). pose proof (zlen_nonneg l) as HL. fold L in HL. set (k := Z.to_nat ((L + 7) / 8)).
  destruct (new_left_bits (bytes_of k (Z_of_bits l)) L (bytes_ok_bytes_of _ _) HL) as (r & _ & C & S & _ & A).
  exists r. split; [exact C|]. split; [exact S|]. rewrite A, val_bytes_of.
  rewrite pow2_8 by lia. unfold L, zlen. rewrite Nat2Z.id. rewrite bits_of_mod_ge; [apply bits_of_Z_of_bits|].
  fold (zlen l). fold L. unfold k. rewrite Z2Nat.id by (apply Z.div_pos; lia).
  pose proof (Z.div_mod (L + 7) 8 ltac:(lia)). pose proof (Z.mod_pos_bound (L + 7) 8 ltac:(lia)). lia.
Qed.

(* 1. byte-level semantic parsing of the bytes of a well-formed message: one field per option, named after
      its number, carrying its value *)
Theorem bc19_semantic_parse m b : coap_wf m -> canon b -> bside b = LEFT -> abs b = coap_encode m ->
  exists bsem, bparse_coap_semantic b = Ok (bsem, coap_header_len m) /\
               map (abs_field abs) bsem = coap_semantic_fields m /\ Forall canon_bfield bsem.
Proof.
  intros Hm Hb Hs E. pose proof (bparse_coap_semantic_refines b Hb Hs) as H.
  rewrite E, (c19_semantic_parse m Hm) in H.
  destruct (bparse_coap_semantic b) as [[bsem n]| |]; cbn [same_outcome] in H; try contradiction.
  destruct H as (Hf & Hn & Hc). cbn [fst snd] in *. subst n. exists bsem. auto.
Qed.

(* 2. byte-level un-parsing of byte-level semantic fields denoting those of a well-formed message gives
      canonical buffers denoting the syntactic field sequence *)
Theorem bc19_unparse m bsem : coap_wf m -> Forall canon_bfield bsem ->
  map (abs_field abs) bsem = coap_semantic_fields m ->
  exists r, bcoap_unparse (bpairs bsem) = Ok r /\ canonf r /\ leftf r /\ absf r = pairs (coap_fields m).
Proof.
  intros Hm Hc E.
  destruct (bcoap_unparse_ok (bpairs bsem) (pairs (coap_fields m)) (canonf_bpairs _ Hc)) as (r & Er & Cr & Ar).
  { rewrite absf_bpairs, E. apply c19_unparse. exact Hm. }
  exists r. split; [exact Er|]. split; [exact Cr|]. split; [|exact Ar].
  eapply bcoap_unparse_loop_left; [apply leftf_bpairs; exact Hc|exact Er].
Qed.

(* 3. the property at the byte level, no abstraction left in the conclusion: on the bytes of a well-formed
      message, semantic parse then unparse returns exactly the (id, value) pairs of the syntactic parse *)
Theorem bc19_lossless m b : coap_wf m -> canon b -> bside b = LEFT -> abs b = coap_encode m ->
  exists bsem bsyn n, bparse_coap_semantic b = Ok (bsem, n) /\ bparse_coap b = Ok (bsyn, n) /\
                      bcoap_unparse (bpairs bsem) = Ok (bpairs bsyn) /\
                      absf (bpairs bsyn) = pairs (coap_fields m) /\ n = coap_header_len m.
Proof.
  intros Hm Hb Hs E.
  destruct (bc19_semantic_parse m b Hm Hb Hs E) as (bsem & Esem & Asem & Csem).
  destruct (bc19_unparse m bsem Hm Csem Asem) as (r & Er & Cr & Lr & Ar).
  pose proof (bparse_coap_refines b Hb Hs) as H. rewrite E, (c08_coap m Hm) in H.
  destruct (bparse_coap b) as [[bsyn n]| |]; cbn [same_outcome] in H; try contradiction.
  destruct H as (Hf & Hn & Hc). cbn [fst snd] in *. subst n.
  exists bsem, bsyn, (coap_header_len m). split; [exact Esem|]. split; [reflexivity|].
  assert (absf (bpairs bsyn) = pairs (coap_fields m)) as Asyn by (rewrite absf_bpairs, Hf; reflexivity).
  split; [|split; [exact Asyn|reflexivity]].
  rewrite Er. f_equal. apply absf_inj; try assumption.
  - apply canonf_bpairs; exact Hc.
  - apply leftf_bpairs; exact Hc.
  - congruence.
Qed.

(* the hypotheses are satisfiable for every well-formed message *)
Corollary bc19_lossless_exists m : coap_wf m ->
  exists b bsem bsyn n, canon b /\ bside b = LEFT /\ abs b = coap_encode m /\
    bparse_coap_semantic b = Ok (bsem, n) /\ bparse_coap b = Ok (bsyn, n) /\
    bcoap_unparse (bpairs bsem) = Ok (bpairs bsyn).
Proof.
  intros Hm. destruct (buf_of_bits (coap_encode m)) as (b & Hb & Hs & E).
  destruct (bc19_lossless m b Hm Hb Hs E) as (bsem & bsyn & n & H1 & H2 & H3 & _).
  exists b, bsem, bsyn, n. auto 7.
Qed.

(* non-vacuity on concrete bytes (the message of props/C19.c19_ex: delta 13 with an empty value, then the
   unknown option number 23, then a 12-byte value at delta 269) *)
Example bc19_ex :
  let b := mkbuf [64; 1; 0; 7; 208; 0; 161; 1; 236; 0; 0; 0; 0; 0; 0; 0; 0; 0; 0; 0; 0; 0; 3] 184 LEFT 0 in
  exists bsem bsyn n, bparse_coap_semantic b = Ok (bsem, n) /\ bparse_coap b = Ok (bsyn, n) /\
                      length bsem = 8%nat /\ length bsyn = 15%nat /\
                      bcoap_unparse (bpairs bsem) = Ok (bpairs bsyn).
Proof.
  cbv zeta. eexists. eexists. eexists.
  split; [vm_compute; reflexivity|]. split; [vm_compute; reflexivity|].
  split; [reflexivity|]. split; [reflexivity|]. vm_compute. reflexivity.
Qed.
