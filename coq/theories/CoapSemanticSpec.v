(* CoapSemanticSpec.v -- C19: the semantic option view of the CoAP parser (CoapSemantic.v) is a lossless
   re-encoding of the syntactic one: on every well-formed RFC 7252 message (RfcHeaders.v) semantic parsing
   returns one field per option, named after its option number and carrying its value, and un-parsing
   those fields gives back exactly the identifiers and values of the syntactic parse (Parsers.v). *)
From Coq Require Import ZArith List Bool Lia. From MS Require Import PyBase Bits ByteFacts BufferAbs Schc Parsers ParserTiling RfcHeaders CoapSemantic. Import ListNotations. Open Scope Z_scope.
(* reused: opt_encode facts, slice tactics and c08_coap (the syntactic parse of a well-formed message) *)
From MS Require Import ParserRfc.

(* ---- statements ---------------------------------------------------------------------------------- *)
(* option numbers of a message: running sums of the deltas *)
Fixpoint opt_numbers (os : list coap_opt) (prev : Z) : list Z :=
  match os with [] => [] | o :: r => (prev + o_delta o) :: opt_numbers r (prev + o_delta o) end.

(* what semantic parsing must return for the options: one field per option, named after its number,
   carrying its value, positions counting the occurrences of the same name *)
Fixpoint semantic_opt_fields (os : list coap_opt) (prev : Z) (acc : list field) : list field :=
  match os with
  | [] => acc
  | o :: r => let n := prev + o_delta o in let id := semantic_fid n in
              semantic_opt_fields r n (acc ++ [mkfield id (o_value o) (count_fid id acc + 1)])
  end.

Definition coap_semantic_fields (m : coap_msg) : list field :=
  [FD P_CoAP 0 0 (c_ver m); FD P_CoAP 1 0 (c_type m); FD P_CoAP 2 0 (bits_of 4 (c_tkl m)); FD P_CoAP 3 0 (c_code m); FD P_CoAP 4 0 (c_mid m)]
  ++ (if 0 <? c_tkl m then [FD P_CoAP 5 0 (c_token m)] else [])
  ++ semantic_opt_fields (c_opts m) 0 []
  ++ match c_payload m with Some _ => [FD P_CoAP 6 0 (bits_of 8 255)] | None => [] end.

Definition pairs (fs : list field) : list (fid * bits) := map (fun f => (f_id f, f_val f)) fs.

(* ---- the two option tables ----------------------------------------------------------------------- *)
Lemma name_cases n :
  coap_option_name n = None \/
  exists r, coap_option_name n = Some r /\ 12 <= r <= 28 /\ coap_option_number r = Some n.
Proof.
  unfold coap_option_name.
  repeat match goal with |- context [n =? ?k] =>
    destruct (Z.eqb_spec n k) as [->|?]; [right; eexists; split; [reflexivity|split; [lia|reflexivity]]|] end.
  left. reflexivity.
Qed.

Lemma number_of_semantic_fid n : 0 <= n -> number_of_fid (semantic_fid n) = Some n.
Proof.
  intros Hn. unfold semantic_fid.
  destruct (name_cases n) as [->|(r & -> & Hr & Hnum)]; unfold number_of_fid; cbn [fproto fidx].
  - destruct (Z.leb_spec 1000 (1000 + n)); [f_equal; lia|lia].
  - destruct (Z.leb_spec 1000 r); [lia|exact Hnum].
Qed.

Lemma semantic_fid_not_fixed n : 0 <= n -> is_fixed_coap (semantic_fid n) = false.
Proof.
  intros Hn. unfold semantic_fid.
  destruct (name_cases n) as [->|(r & -> & Hr & _)]; unfold is_fixed_coap; cbn [fproto fidx];
    apply andb_false_intro2; apply Z.leb_gt; lia.
Qed.

(* the semantic field name determines the option number (names are not shared) *)
Lemma semantic_fid_inj n n' : 0 <= n -> 0 <= n' -> semantic_fid n = semantic_fid n' -> n = n'.
Proof.
  intros H H' E. pose proof (number_of_semantic_fid n H) as A. rewrite E, number_of_semantic_fid in A by exact H'.
  now inversion A.
Qed.

(* ---- un-parsing one option ------------------------------------------------------------------------ *)
Definition opt_pairs (o : coap_opt) : list (fid * bits) :=
  [(mkfid P_CoAP 7, bits_of 4 (nibble (o_delta o))); (mkfid P_CoAP 8, bits_of 4 (nibble (o_len o)))]
  ++ (if 13 <=? o_delta o then [(mkfid P_CoAP 9, extension (o_delta o))] else [])
  ++ (if 13 <=? o_len o then [(mkfid P_CoAP 10, extension (o_len o))] else [])
  ++ (if 0 <? o_len o then [(mkfid P_CoAP 11, o_value o)] else []).

Lemma pairs_app a b : pairs (a ++ b) = pairs a ++ pairs b.
Proof. apply map_app. Qed.

Lemma pairs_one_opt_fields o nd nde nle nv : pairs (one_opt_fields o nd nde nle nv) = opt_pairs o.
Proof.
  unfold one_opt_fields, opt_pairs.
  destruct (13 <=? o_delta o), (13 <=? o_len o), (0 <? o_len o); reflexivity.
Qed.

Lemma unparse_option_ok o prev : opt_wf o ->
  unparse_option (prev + o_delta o) prev (o_value o) = Ok (opt_pairs o).
Proof.
  intros Hwf. destruct (opt_value_len o Hwf) as [_ Hl0]. destruct Hwf as (Hd & _ & Hl).
  assert (Hl' : 0 <= o_len o < 269 + 65536) by lia. clear Hl Hl0.
  unfold unparse_option, opt_pairs. replace (prev + o_delta o - prev) with (o_delta o) by lia.
  fold (o_len o). set (d := o_delta o) in *. set (l := o_len o) in *. set (v := o_value o). clearbody d l v.
  unfold uint_field. change (256 ^ 1) with 256. change (256 ^ 2) with 65536.
  destruct (nibble_cases d Hd) as [(Cd & Ed & Xd)|[(Cd & Ed & Xd)|(Cd & Ed & Xd)]];
  destruct (nibble_cases l Hl') as [(Cl & El & Xl)|[(Cl & El & Xl)|(Cl & El & Xl)]];
  rewrite Ed, El, ?Xd, ?Xl; destruct (Z.ltb_spec 0 l); try (exfalso; lia); ltb_dec; cbn [andb bind app]; reflexivity.
Qed.

(* ---- un-parsing the whole field list ------------------------------------------------------------------ *)
Fixpoint sem_pairs (os : list coap_opt) (prev : Z) : list (fid * bits) :=
  match os with
  | [] => []
  | o :: r => (semantic_fid (prev + o_delta o), o_value o) :: sem_pairs r (prev + o_delta o)
  end.

Lemma pairs_semantic_opt_fields os : forall prev acc,
  pairs (semantic_opt_fields os prev acc) = pairs acc ++ sem_pairs os prev.
Proof.
  induction os as [|o os IH]; intros prev acc; cbn [semantic_opt_fields sem_pairs].
  - now rewrite app_nil_r.
  - rewrite IH, pairs_app, <- app_assoc. reflexivity.
Qed.

(* the names of the semantic option fields are those of the option numbers *)
Lemma sem_pairs_ids os prev : map fst (sem_pairs os prev) = map semantic_fid (opt_numbers os prev).
Proof. revert prev. induction os as [|o os IH]; intros prev; cbn [sem_pairs opt_numbers map fst]; [reflexivity|now rewrite IH]. Qed.

Lemma unparse_fixed_cons i v r p s : 0 <= i <= 6 ->
  coap_unparse_loop ((mkfid P_CoAP i, v) :: r) p s =
  (do rest <- coap_unparse_loop r p s ;; Ok ((mkfid P_CoAP i, v) :: rest)).
Proof.
  intros Hi. cbn [coap_unparse_loop]. unfold is_fixed_coap. cbn [fproto fidx]. ltb_dec. reflexivity.
Qed.

Lemma unparse_sem os : forall prev seen nd nde nle nv tl tl',
  0 <= prev -> Forall opt_wf os -> (forall p s, coap_unparse_loop tl p s = Ok tl') ->
  coap_unparse_loop (sem_pairs os prev ++ tl) prev seen = Ok (pairs (opt_fields os nd nde nle nv) ++ tl').
Proof.
  induction os as [|o os IH]; intros prev seen nd nde nle nv tl tl' Hp Hwf Htl.
  - cbn [sem_pairs opt_fields pairs map app]. apply Htl.
  - inversion Hwf as [|? ? Ho Hos]; subst. pose proof Ho as (Hd & _).
    cbn [sem_pairs app coap_unparse_loop].
    rewrite semantic_fid_not_fixed, number_of_semantic_fid by lia.
    rewrite unparse_option_ok by exact Ho. cbn [bind].
    rewrite (IH _ true (nd + 1) (if 13 <=? o_delta o then nde + 1 else nde) (if 13 <=? o_len o then nle + 1 else nle)
                (if 0 <? o_len o then nv + 1 else nv) tl tl') by (try assumption; lia).
    cbn [bind]. rewrite opt_fields_cons, pairs_app, pairs_one_opt_fields, app_assoc. reflexivity.
Qed.

Theorem c19_unparse m : coap_wf m -> coap_unparse (pairs (coap_semantic_fields m)) = Ok (pairs (coap_fields m)).
Proof.
  intros (_ & _ & _ & _ & _ & _ & Hos).
  unfold coap_unparse, coap_semantic_fields, coap_fields.
  rewrite !pairs_app, pairs_semantic_opt_fields.
  set (mk := match c_payload m with Some _ => [FD P_CoAP 6 0 (bits_of 8 255)] | None => [] end).
  assert (Hmk : forall p s, coap_unparse_loop (pairs mk) p s = Ok (pairs mk)).
  { intros p s. unfold mk. destruct (c_payload m); reflexivity. }
  pose proof (fun seen => unparse_sem (c_opts m) 0 seen 0 0 0 0 (pairs mk) (pairs mk) ltac:(lia) Hos Hmk) as Hopt.
  destruct (0 <? c_tkl m); cbn [pairs map app f_id f_val FD fd];
    rewrite !unparse_fixed_cons by lia; rewrite Hopt; reflexivity.
Qed.

(* ---- semantic parsing: one option ------------------------------------------------------------------- *)
(* the parser's local option_delta_extended after an option: overwritten only by an extended delta *)
Definition next_dext (o : coap_opt) (last : option bits) : option bits :=
  if 13 <=? o_delta o then Some (extension (o_delta o)) else last.

Lemma sem_step f b cursor index last acc o r :
  0 <= cursor -> sl_from b cursor = opt_encode o ++ r -> opt_wf o ->
  coap_semantic_loop (S f) b cursor index last acc =
  coap_semantic_loop f b (cursor + zlen (opt_encode o)) (index + o_delta o) (next_dext o last)
    (acc ++ [mkfield (semantic_fid (index + o_delta o)) (o_value o) (count_fid (semantic_fid (index + o_delta o)) acc + 1)]).
Proof.
  intros Hc Hob Hwf. destruct (opt_value_len o Hwf) as [Hvl Hl0]. destruct Hwf as (Hd & _ & Hl).
  assert (Hl' : 0 <= o_len o < 269 + 65536) by lia. clear Hl Hl0.
  unfold next_dext, opt_encode in *.
  set (d := o_delta o) in *. set (l := o_len o) in *. set (v := o_value o) in *. clearbody d l v.
  assert (Nd : 0 <= nibble d <= 14) by (unfold nibble; destruct (d <? 13) eqn:E; [apply Z.ltb_lt in E; lia|destruct (d <? 269); lia]).
  assert (Nl : 0 <= nibble l <= 14) by (unfold nibble; destruct (l <? 13) eqn:E; [apply Z.ltb_lt in E; lia|destruct (l <? 269); lia]).
  cbn [coap_semantic_loop].
  assert (Hb8 : sl b cursor (cursor + 8) = sl (sl_from b cursor) 0 8) by (rewrite sl_sl_from by lia; f_equal; lia).
  pose proof (zlen_sl_from b cursor Hc) as Hz.
  rewrite Hb8, Hob. rewrite Hob in Hz. clear Hb8 Hob.
  rewrite <- !app_assoc in *.
  rewrite !zlen_app, !zlen_bits_of in *. cbn [Z.of_nat Pos.of_succ_nat Pos.succ] in *.
  pose proof (zlen_nonneg (extension d)). pose proof (zlen_nonneg (extension l)). pose proof (zlen_nonneg r).
  assert (Hlt : cursor < zlen b) by lia.
  destruct (Z.ltb_spec cursor (zlen b)) as [_|]; [|lia]. cbn [andb].
  rewrite <- (sl_app _ 0 4 8) by lia.
  match goal with |- context [sl ?E 0 4] =>
    assert (H04 : sl E 0 4 = bits_of 4 (nibble d)) by sl_solve;
    assert (H48 : sl E 4 8 = bits_of 4 (nibble l)) by sl_solve end.
  rewrite H04, H48. rewrite first_byte_not_ff by lia. cbn [negb].
  rewrite !eq_byte_nib by lia. rewrite !Z_of_bits_small by (cbn; lia).
  clear H04 H48.
  destruct (nibble_cases d Hd) as [(Cd & Ed & Xd)|[(Cd & Ed & Xd)|(Cd & Ed & Xd)]];
  destruct (nibble_cases l Hl') as [(Cl & El & Xl)|[(Cl & El & Xl)|(Cl & El & Xl)]];
  rewrite Ed, El, Xd, Xl; rewrite Xd, Xl in Hz; rewrite ?zlen_bits_of in Hz;
  cbn [Z.of_nat Pos.of_succ_nat Pos.succ app] in Hz; change (zlen (@nil bool)) with 0 in Hz |- *;
  eqb_dec; cbv beta iota zeta; cbn [app];
  repeat sl_rw; rewrite ?Z_of_bits_small by (cbn; lia);
  ltb_dec; cbv beta iota zeta; cbn [bind]; repeat sl_rw.
  all: cbn [app]; rewrite ?zlen_bits_of; cbn [Z.of_nat Pos.of_succ_nat Pos.succ].
  all: rewrite ?Z_of_bits_small by (cbn; lia); ltb_dec; eqb_dec; cbv beta iota zeta; cbn [bind].
  all: repeat match goal with |- context [?i + (?x - ?c) + ?k] => replace (i + (x - c) + k) with (i + x) by lia end.
  all: f_equal; try reflexivity; lia.
Qed.

(* ---- semantic parsing: the options walk --------------------------------------------------------------- *)
Lemma sem_loop_ok os : forall fuel b cursor index last acc pl,
  0 <= cursor <= zlen b -> sl_from b cursor = concat (map opt_encode os) ++ coap_tail pl ->
  Forall opt_wf os -> (length os < fuel)%nat ->
  coap_semantic_loop fuel b cursor index last acc =
  Ok (semantic_opt_fields os index acc ++ marker_fields pl,
      cursor + zlen (concat (map opt_encode os)) + marker_len pl).
Proof.
  induction os as [|o os IH]; intros fuel b cursor index last acc pl Hc Hob Hwf Hf;
    (destruct fuel as [|f]; [lia|]).
  - cbn [map concat app] in *. change (zlen (@nil bool)) with 0. cbn [semantic_opt_fields].
    pose proof (zlen_sl_from b cursor ltac:(lia)) as Hz. rewrite Hob in Hz.
    cbn [coap_semantic_loop].
    destruct pl as [p|]; cbn [coap_tail marker_fields marker_len] in *.
    + rewrite zlen_app, zlen_bits_of in Hz. cbn [Z.of_nat Pos.of_succ_nat Pos.succ] in Hz.
      pose proof (zlen_nonneg p).
      assert (Hb8 : sl b cursor (cursor + 8) = bits_of 8 255).
      { replace (sl b cursor (cursor + 8)) with (sl (sl_from b cursor) 0 8) by (rewrite sl_sl_from by lia; f_equal; lia).
        rewrite Hob. apply sl_here0. reflexivity. }
      rewrite Hb8. change (eq_byte (bits_of 8 255) 255) with true.
      destruct (Z.ltb_spec cursor (zlen b)); [|lia]. cbn [andb negb].
      f_equal. f_equal. lia.
    + change (zlen (@nil bool)) with 0 in Hz.
      destruct (Z.ltb_spec cursor (zlen b)); [lia|]. cbn [andb].
      rewrite app_nil_r. f_equal. f_equal. lia.
  - inversion Hwf as [|? ? Ho Hos]; subst.
    cbn [map concat] in *. rewrite <- app_assoc in Hob.
    rewrite (sem_step f b cursor index last acc o _ ltac:(lia) Hob Ho).
    pose proof (zlen_sl_from b cursor ltac:(lia)) as Hz. rewrite Hob in Hz. rewrite zlen_app in Hz.
    pose proof (zlen_nonneg (opt_encode o)). pose proof (zlen_nonneg (concat (map opt_encode os) ++ coap_tail pl)).
    rewrite IH with (pl := pl); cbn [length] in *; try lia; try assumption.
    + cbn [semantic_opt_fields]. rewrite zlen_app. f_equal. f_equal. lia.
    + rewrite <- sl_from_from by lia. rewrite Hob. apply sl_from_here. reflexivity.
Qed.

Lemma sem_options_ok os pl : Forall opt_wf os ->
  (if 0 <? zlen (concat (map opt_encode os) ++ coap_tail pl)
   then catch_all (coap_semantic_loop (S (length (concat (map opt_encode os) ++ coap_tail pl)))
                                      (concat (map opt_encode os) ++ coap_tail pl) 0 0 None []) ParserError
   else Ok ([], 0)) =
  Ok (semantic_opt_fields os 0 [] ++ marker_fields pl, zlen (concat (map opt_encode os)) + marker_len pl).
Proof.
  intros Hwf. set (ob := concat (map opt_encode os) ++ coap_tail pl).
  destruct (Z.ltb_spec 0 (zlen ob)) as [Hp|Hz].
  - rewrite (sem_loop_ok os (S (length ob)) ob 0 0 None [] pl).
    + reflexivity.
    + lia.
    + rewrite sl_from_eq by lia. reflexivity.
    + exact Hwf.
    + unfold ob. rewrite app_length. pose proof (opts_len os). lia.
  - apply zlen_0_nil in Hz. unfold ob in Hz. apply app_eq_nil in Hz. destruct Hz as [Ho Ht].
    destruct os as [|o os].
    + destruct pl as [p|]; [discriminate Ht|]. reflexivity.
    + cbn [map concat] in Ho. apply app_eq_nil in Ho. destruct Ho as [Ho _].
      pose proof (opt_encode_len o) as Hl. rewrite Ho in Hl. cbn in Hl. lia.
Qed.

(* 1. semantic parsing of a well-formed message *)
Theorem c19_semantic_parse m : coap_wf m ->
  parse_coap_semantic (coap_encode m) = Ok (coap_semantic_fields m, coap_header_len m).
Proof.
  intros (H1 & H2 & Ht & H3 & H4 & Htok & Hos).
  apply has_len_zlen in H1, H2, H3, H4. cbn [Z.of_nat Pos.of_succ_nat Pos.succ] in *.
  set (os := concat (map opt_encode (c_opts m))). set (tl := coap_tail (c_payload m)).
  pose proof (zlen_nonneg os) as Hos0. pose proof (zlen_nonneg tl) as Htl0.
  assert (S0 : forall b, b = c_ver m ++ c_type m ++ bits_of 4 (c_tkl m) ++ c_code m ++ c_mid m ++ c_token m ++ os ++ tl ->
     32 <= zlen b /\
     sl b 0 2 = c_ver m /\ sl b 2 4 = c_type m /\ sl b 4 8 = bits_of 4 (c_tkl m) /\ sl b 8 16 = c_code m /\
     sl b 16 32 = c_mid m /\ sl b 32 (32 + c_tkl m * 8) = c_token m /\ sl_from b (32 + c_tkl m * 8) = os ++ tl).
  { intros b ->. repeat split; try sl_solve; [zl|sl_from_find]. }
  destruct (S0 (coap_encode m) eq_refl) as (E & E0 & E1 & E2 & E3 & E4 & E5 & E6).
  unfold parse_coap_semantic. destruct (Z.ltb_spec (zlen (coap_encode m)) 32) as [|_]; [lia|].
  cbv zeta. rewrite E2. rewrite Z_of_bits_small by (cbn; lia).
  rewrite E0, E1, E3, E4, E5, E6.
  unfold os, tl. rewrite sem_options_ok by exact Hos. cbn [bind fst snd].
  unfold coap_semantic_fields, coap_header_len. apply f_equal. apply f_equal2.
  - rewrite <- !app_assoc. unfold marker_fields. reflexivity.
  - unfold coap_encode. fold os. rewrite !zlen_app, zlen_bits_of, H1, H2, H3, H4, Htok.
    cbn [Z.of_nat Pos.of_succ_nat Pos.succ].
    destruct (c_payload m) as [p|]; cbn [marker_len]; rewrite ?zlen_app, ?zlen_bits_of;
      cbn [Z.of_nat Pos.of_succ_nat Pos.succ]; change (zlen (@nil bool)) with 0; lia.
Qed.

(* 3. combined, as the property states it: parse semantically, un-parse, compare with the syntactic parse
   (the syntactic result is ParserRfc.c08_coap) *)
Theorem c19_lossless m : coap_wf m ->
  exists sem syn n, parse_coap_semantic (coap_encode m) = Ok (sem, n) /\ parse_coap (coap_encode m) = Ok (syn, n) /\
                    coap_unparse (pairs sem) = Ok (pairs syn).
Proof.
  intros Hwf. exists (coap_semantic_fields m), (coap_fields m), (coap_header_len m).
  split; [now apply c19_semantic_parse|]. split; [now apply c08_coap|now apply c19_unparse].
Qed.

(* ---- what the semantic fields are ------------------------------------------------------------------------ *)
(* names and values of the semantic option fields: the option numbers (running sums of the deltas) and the
   option values, in order *)
Lemma semantic_opt_fields_ids os prev :
  map f_id (semantic_opt_fields os prev []) = map semantic_fid (opt_numbers os prev).
Proof.
  rewrite <- sem_pairs_ids. pose proof (pairs_semantic_opt_fields os prev []) as H. cbn [pairs map app] in H.
  rewrite <- H. unfold pairs. rewrite map_map. reflexivity.
Qed.

Lemma semantic_opt_fields_vals os prev :
  map f_val (semantic_opt_fields os prev []) = map o_value os.
Proof.
  pose proof (pairs_semantic_opt_fields os prev []) as H. cbn [pairs map app] in H.
  assert (E : map f_val (semantic_opt_fields os prev []) = map snd (pairs (semantic_opt_fields os prev []))).
  { unfold pairs. rewrite map_map. reflexivity. }
  rewrite E, H. clear. revert prev. induction os as [|o os IH]; intros prev; cbn [sem_pairs map snd]; [reflexivity|now rewrite IH].
Qed.
