(* Compute.v -- model of the compute functions (CDA compute) over bit sequences:
   protocol/ipv6.py _compute_payload_length, protocol/ipv4.py _compute_total_length/_compute_checksum,
   protocol/udp.py _compute_length/_compute_checksum, protocol/sctp.py _compute_checksum with
   crypto/crc.py crc32c, and the table protocol/__init__.py ComputeFunctions.  Definitions only. *)
From Coq Require Import ZArith List Bool.
From MS Require Import PyBase Bits Schc Crc32cTable.
Import ListNotations.
Open Scope Z_scope.

(* ranks of the enum members the compute functions look for (order of the Python enums) *)
Definition IPV4_TOTAL_LENGTH := mkfid P_IPv4 3.
Definition IPV4_HEADER_CHECKSUM := mkfid P_IPv4 9.
Definition IPV4_SRC_ADDRESS := mkfid P_IPv4 10.
Definition IPV4_DST_ADDRESS := mkfid P_IPv4 11.
Definition IPV6_PAYLOAD_LENGTH := mkfid P_IPv6 3.
Definition IPV6_SRC_ADDRESS := mkfid P_IPv6 6.
Definition IPV6_DST_ADDRESS := mkfid P_IPv6 7.
Definition UDP_LENGTH := mkfid P_UDP 2.
Definition UDP_CHECKSUM := mkfid P_UDP 3.
Definition SCTP_CHECKSUM := mkfid P_SCTP 3.

(* length in bytes, rounded up *)
Definition byte_len (b : bits) : Z := let n := zlen b in if n mod 8 =? 0 then n / 8 else n / 8 + 1.

(* n.to_bytes(k,'big') as a Buffer of 8k bits *)
Definition uint_bits (k : nat) (n : Z) : res bits :=
  if (0 <=? n) && (n <? 2 ^ Z.of_nat k) then Ok (bits_of k n) else Exc OverflowError.

Definition vals (fs : list (fid * bits)) : list bits := map snd fs.
Definition ids (fs : list (fid * bits)) : list fid := map fst fs.

(* functools.reduce(lambda x, y: x + y, l) without initial value *)
Definition reduce_concat (l : list bits) : res bits :=
  match l with [] => Exc TypeError | _ => Ok (concat l) end.

Definition ipv6_payload_length : compute_fn := fun fs pos =>
  uint_bits 16 (byte_len (concat (py_slice (vals fs) (Some (pos + 5)) None))).

Definition ipv4_total_length : compute_fn := fun fs pos =>
  uint_bits 16 (byte_len (concat (py_slice (vals fs) (Some (pos - 2)) None))).

Definition udp_length : compute_fn := fun fs pos =>
  do b <- reduce_concat (py_slice (vals fs) (Some (pos - 2)) None) ;;
  uint_bits 16 (byte_len b).

(* Buffer.chunks(n, padding) on a bit sequence (n > 0).  The empty buffer yields one chunk. *)
Fixpoint chunks_fuel (fuel : nat) (n : nat) (padding : bool) (b : bits) : list bits :=
  match fuel with
  | O => []
  | S f =>
    if (length b <=? n)%nat then
      [if padding then b ++ repeat false (n - length b) else b]
    else firstn n b :: chunks_fuel f n padding (skipn n b)
  end.
Definition chunks (n : nat) (padding : bool) (b : bits) : list bits := chunks_fuel (S (length b)) n padding b.

(* for chunk in ...: s += chunk.value(); carry = s >> 16; s = (s + carry) & 0xffff *)
Definition ones_add (s : Z) (c : bits) : Z :=
  let s := s + Z_of_bits c in
  Z.land (s + Z.shiftr s 16) 65535.
Definition ones_sum (cs : list bits) : Z := fold_left ones_add cs 0.

Definition ipv4_checksum : compute_fn := fun fs pos =>
  let hdr := concat (py_slice (vals fs) (Some (pos - 9)) (Some (pos + 3))) in
  let s := ones_sum (chunks 16 false hdr) in
  uint_bits 16 (Z.land (Z.lnot s) 65535).

Fixpoint find_index (p : fid -> bool) (l : list fid) (i : Z) : option Z :=
  match l with [] => None | x :: r => if p x then Some i else find_index p r (i + 1) end.

Definition udp_checksum : compute_fn := fun fs pos =>
  let plp := pos - 4 in
  do last_id <- py_index (ids fs) plp ;;
  do hp <- reduce_concat (py_slice (vals fs) (Some (pos - 3)) None) ;;
  let total := byte_len hp in
  if plp <? 0 then Exc Unmodelled
  else
    (* fields_ids[plp:0:-1]: indices plp, plp-1, ..., 1 *)
    let rev_ids := rev (skipn 1 (firstn (Z.to_nat (plp + 1)) (ids fs))) in
    do pseudo <-
      (match fproto last_id with
       | P_IPv6 =>
         match find_index (fid_eqb IPV6_SRC_ADDRESS) rev_ids 0 with
         | None => Exc StopIteration
         | Some off =>
           let sp := plp - off in
           do src <- py_index (vals fs) sp ;;
           do dst <- py_index (vals fs) (sp + 1) ;;
           do l32 <- uint_bits 32 total ;;
           Ok (src ++ dst ++ l32 ++ repeat false 24 ++ bits_of 8 17)
         end
       | P_IPv4 =>
         match find_index (fid_eqb IPV4_SRC_ADDRESS) rev_ids 0 with
         | None => Exc StopIteration
         | Some off =>
           let sp := plp - off in
           do src <- py_index (vals fs) sp ;;
           do dst <- py_index (vals fs) (sp + 1) ;;
           do l16 <- uint_bits 16 total ;;
           Ok (src ++ dst ++ repeat false 8 ++ bits_of 8 17 ++ l16)
         end
       | _ => Exc UnboundLocalError
       end) ;;
    let s1 := ones_sum (chunks 16 false pseudo) in
    let s2 := ones_sum (chunks 16 true hp) in
    let c := s1 + s2 in
    let c := Z.land (c + Z.shiftr c 16) 65535 in
    let c := Z.land (Z.lnot c) 65535 in
    let c := if c =? 0 then 65535 else c in
    uint_bits 16 c.

(* crypto/crc.py crc32c: table driven, one 8-bit chunk (zero padded) at a time *)
Definition crc_step (crc : Z) (c : bits) : Z :=
  Z.lxor (Z.shiftr crc 8) (nth (Z.to_nat (Z.land (Z.lxor crc (Z_of_bits c)) 255)) crc32c_table 0).
Definition crc32c (b : bits) (init : Z) : Z := fold_left crc_step (chunks 8 true b) init.

Definition sctp_checksum : compute_fn := fun fs pos =>
  do b <- reduce_concat (py_slice (vals fs) (Some (pos - 3)) None) ;;
  let crc := crc32c b 4294967295 in
  do cb <- uint_bits 32 crc ;;
  let inv := map negb cb in
  (* reduce(+, list(checksum.chunks(8))[::-1]): the four bytes in reverse order *)
  Ok (concat (rev (chunks 8 false inv))).

(* protocol/__init__.py ComputeFunctions *)
Definition SCTP_ALL_BUT_CHECKSUM : list fid :=
  map (fun i => mkfid P_SCTP (Z.of_nat i)) ([0; 1; 2] ++ seq 4 33)%nat.

(* protocol/udp.py UDPComputeFunctions[UDPFields.CHECKSUM]: the checksum of an SCTP packet carried in the
   datagram is covered by the UDP checksum, so it is a dependency *)
Definition UDP_CHECKSUM_DEPS : list fid :=
  [UDP_LENGTH; IPV6_SRC_ADDRESS; IPV6_DST_ADDRESS; IPV4_SRC_ADDRESS; IPV4_DST_ADDRESS; SCTP_CHECKSUM].

Definition compute_functions : compute_table := fun f =>
  if fid_eqb f IPV4_TOTAL_LENGTH then Some (ipv4_total_length, [])
  else if fid_eqb f IPV4_HEADER_CHECKSUM then
    Some (ipv4_checksum, map (fun i => mkfid P_IPv4 i) [0; 1; 2; 3; 4; 5; 6; 7; 8; 10; 11])
  else if fid_eqb f IPV6_PAYLOAD_LENGTH then Some (ipv6_payload_length, [])
  else if fid_eqb f UDP_LENGTH then Some (udp_length, [])
  else if fid_eqb f UDP_CHECKSUM then
    Some (udp_checksum, UDP_CHECKSUM_DEPS)
  else if fid_eqb f SCTP_CHECKSUM then Some (sctp_checksum, SCTP_ALL_BUT_CHECKSUM)
  else None.
