(* ComputeBytes.v -- the compute functions (CDA compute) and the compute stage of decompress written
   at the BYTE level, i.e. with the Buffer operations of Buffer.v exactly where the Python code uses
   Buffer objects:
     protocol/ipv6.py _compute_payload_length, protocol/ipv4.py _compute_total_length / _compute_checksum,
     protocol/udp.py _compute_length / _compute_checksum, protocol/sctp.py _compute_checksum,
     crypto/crc.py crc32c, protocol/__init__.py ComputeFunctions,
     decompressor/decompressor.py decompress (placeholders, ComputeEntry list, compute_function_sort,
     the loop running the compute functions, the final concatenation).
   The structure is the one of the bit-level transcription (Compute.v, Schc.decompress); ComputeRefine.v
   proves that, on canonical buffers, these functions denote the bit-level ones through abs.
   Definitions only (plus evaluated examples compared with the Python results). *)
From Coq Require Import ZArith List Bool.
From MS Require Import PyBase Buffer Bits PySort Schc Crc32cTable Compute SchcBytes.
Import ListNotations.
Open Scope Z_scope.

(* a compute function: (all decompressed fields incl. the payload entry, position) -> field value *)
Definition bcompute_fn := list (fid * buf) -> Z -> res buf.
(* ComputeFunctions[field_id]: function and the ids it depends on (None = KeyError) *)
Definition bcompute_table := fid -> option (bcompute_fn * list fid).

Definition bvals (fs : list (fid * buf)) : list buf := map snd fs.
Definition bids (fs : list (fid * buf)) : list fid := map fst fs.

(* n.to_bytes(k, 'big'): OverflowError outside 0 .. 256^k - 1 *)
Definition to_bytes (k : nat) (n : Z) : res (list Z) :=
  if (0 <=? n) && (n <? 256 ^ Z.of_nat k) then Ok (bytes_of k n) else Exc OverflowError.

(* b.length // 8 if b.length % 8 == 0 else b.length // 8 + 1 *)
Definition blen_bytes (b : buf) : Z := if blen b mod 8 =? 0 then blen b / 8 else blen b / 8 + 1.

(* functools.reduce(lambda x, y: x + y, l) without initial value: TypeError on the empty list, the
   single element itself (no copy) on a one-element list.  With an initial value: SchcBytes.badd_all *)
Definition breduce_add (l : list buf) : res buf :=
  match l with [] => Exc TypeError | x :: r => badd_all x r end.

(* Buffer(content=n.to_bytes(k, 'big'), length=8k, padding=LEFT) *)
Definition buint (k : nat) (n : Z) : res buf :=
  do c <- to_bytes k n ;; b_new c (8 * Z.of_nat k) LEFT.

(* ---- protocol/ipv6.py ------------------------------------------------------------------------- *)
Definition bipv6_payload_length : bcompute_fn := fun fs pos =>
  do e <- b_new [] 0 LEFT ;;
  do pb <- badd_all e (py_slice (bvals fs) (Some (pos + 5)) None) ;;
  buint 2 (blen_bytes pb).

(* ---- protocol/ipv4.py ------------------------------------------------------------------------- *)
Definition bipv4_total_length : bcompute_fn := fun fs pos =>
  do e <- b_new [] 0 LEFT ;;
  do ib <- badd_all e (py_slice (bvals fs) (Some (pos - 2)) None) ;;
  buint 2 (blen_bytes ib).

(* for chunk in cs: s += chunk.value(); carry = s >> 16; s = (s + carry) & 0xffff
   (Buffer.chunks is a generator; b_chunks builds the whole list first: no difference when no chunk
   operation raises) *)
Fixpoint bones_sum (cs : list buf) (s : Z) : res Z :=
  match cs with
  | [] => Ok s
  | c :: r =>
    do v <- b_value c ;;
    let s := s + v in
    bones_sum r (Z.land (s + Z.shiftr s 16) 65535)
  end.

Definition bipv4_checksum : bcompute_fn := fun fs pos =>
  (* [field_value for _, field_value in decompressed_fields[pos-9:pos+3]] *)
  let hfs := map snd (py_slice fs (Some (pos - 9)) (Some (pos + 3))) in
  do e <- b_new [] 0 LEFT ;;
  do hdr <- badd_all e hfs ;;
  do cs <- b_chunks hdr 16 false ;;
  do s <- bones_sum cs 0 ;;
  buint 2 (Z.land (Z.lnot s) 65535).

(* ---- protocol/udp.py -------------------------------------------------------------------------- *)
Definition budp_length : bcompute_fn := fun fs pos =>
  do b <- breduce_add (py_slice (bvals fs) (Some (pos - 2)) None) ;;
  buint 2 (blen_bytes b).

Definition budp_checksum : bcompute_fn := fun fs pos =>
  let plp := pos - 4 in
  do last_id <- py_index (bids fs) plp ;;
  do hp <- breduce_add (py_slice (bvals fs) (Some (pos - 3)) None) ;;
  let total := blen_bytes hp in
  if plp <? 0 then Exc Unmodelled
  else
    (* fields_ids[plp:0:-1]: indices plp, plp-1, ..., 1 *)
    let rev_ids := rev (skipn 1 (firstn (Z.to_nat (plp + 1)) (bids fs))) in
    do pseudo <-
      (match fproto last_id with
       | P_IPv6 =>
         match find_index (fid_eqb IPV6_SRC_ADDRESS) rev_ids 0 with
         | None => Exc StopIteration
         | Some off =>
           let sp := plp - off in
           do src <- py_index (bvals fs) sp ;;
           do dst <- py_index (bvals fs) (sp + 1) ;;
           do l32 <- buint 4 total ;;
           do zero <- b_new [0; 0; 0] 24 LEFT ;;
           do nh <- b_new [17] 8 LEFT ;;
           do p1 <- b_add src dst ;;
           do p2 <- b_add p1 l32 ;;
           do p3 <- b_add p2 zero ;;
           b_add p3 nh
         end
       | P_IPv4 =>
         match find_index (fid_eqb IPV4_SRC_ADDRESS) rev_ids 0 with
         | None => Exc StopIteration
         | Some off =>
           let sp := plp - off in
           do src <- py_index (bvals fs) sp ;;
           do dst <- py_index (bvals fs) (sp + 1) ;;
           do zero <- b_new [0] 8 LEFT ;;
           do pr <- b_new [17] 8 LEFT ;;
           do l16 <- buint 2 total ;;
           do p1 <- b_add src dst ;;
           do p2 <- b_add p1 zero ;;
           do p3 <- b_add p2 pr ;;
           b_add p3 l16
         end
       | _ => Exc UnboundLocalError
       end) ;;
    do cs1 <- b_chunks pseudo 16 false ;;
    do s1 <- bones_sum cs1 0 ;;
    do cs2 <- b_chunks hp 16 true ;;
    do s2 <- bones_sum cs2 0 ;;
    let c := s1 + s2 in
    let c := Z.land (c + Z.shiftr c 16) 65535 in
    let c := Z.land (Z.lnot c) 65535 in
    let c := if c =? 0 then 65535 else c in
    buint 2 c.

(* ---- crypto/crc.py ---------------------------------------------------------------------------- *)
Definition bcrc_step (crc : Z) (b : Z) : Z :=
  Z.lxor (Z.shiftr crc 8) (nth (Z.to_nat (Z.land (Z.lxor crc b) 255)) crc32c_table 0).
Fixpoint bcrc_loop (cs : list buf) (crc : Z) : res Z :=
  match cs with
  | [] => Ok crc
  | c :: r => do b <- b_value c ;; bcrc_loop r (bcrc_step crc b)
  end.
Definition bcrc32c (b : buf) (init : Z) : res buf :=
  do cs <- b_chunks b 8 true ;;
  do crc <- bcrc_loop cs init ;;
  buint 4 crc.

(* ---- protocol/sctp.py ------------------------------------------------------------------------- *)
Definition bsctp_checksum : bcompute_fn := fun fs pos =>
  do b <- breduce_add (py_slice (bvals fs) (Some (pos - 3)) None) ;;
  do ck <- bcrc32c b 4294967295 ;;
  do inv <- b_invert ck ;;
  (* reduce(+, list(checksum.chunks(length=8))[::-1]) *)
  do cs <- b_chunks inv 8 false ;;
  breduce_add (rev cs).

(* ---- protocol/__init__.py ComputeFunctions ---------------------------------------------------- *)
Definition bcompute_functions : bcompute_table := fun f =>
  if fid_eqb f IPV4_TOTAL_LENGTH then Some (bipv4_total_length, [])
  else if fid_eqb f IPV4_HEADER_CHECKSUM then
    Some (bipv4_checksum, map (fun i => mkfid P_IPv4 i) [0; 1; 2; 3; 4; 5; 6; 7; 8; 10; 11])
  else if fid_eqb f IPV6_PAYLOAD_LENGTH then Some (bipv6_payload_length, [])
  else if fid_eqb f UDP_LENGTH then Some (budp_length, [])
  else if fid_eqb f UDP_CHECKSUM then
    Some (budp_checksum, UDP_CHECKSUM_DEPS)
  else if fid_eqb f SCTP_CHECKSUM then Some (bsctp_checksum, SCTP_ALL_BUT_CHECKSUM)
  else None.

(* ---- decompressor/decompressor.py with the compute stage --------------------------------------- *)
Record bcentry := mkbcentry { bce_pos : Z; bce_id : fid; bce_fn : bcompute_fn; bce_deps : list fid }.

(* decompress one field: (field value, residue bits consumed, compute entry) *)
Definition bdecompress_field_c (ct : bcompute_table) (pos : Z) (rf : brfd) (s : buf) : res (buf * Z * option bcentry) :=
  match br_cda rf with
  | Compute =>
    do e <- b_new [] 0 RIGHT ;;                      (* decompressed_field = Buffer(b'', 0, RIGHT), replaced below *)
    if br_len rf <? 0 then Exc Unmodelled
    else
      (* Buffer(content=bytes(1 + field_length // 8), length=field_length) *)
      do ph <- b_new (zeros (1 + br_len rf / 8)) (br_len rf) LEFT ;;
      match ct (br_id rf) with
      | None => Exc KeyError
      | Some (fn, deps) => Ok (ph, 0, Some (mkbcentry pos (br_id rf) fn deps))
      end
  | _ => do x <- bdecompress_field rf s ;; Ok (fst x, snd x, None)
  end.

Fixpoint bdecompress_fields_c (ct : bcompute_table) (pos : Z) (rfs : list brfd) (s : buf)
  : res (list (fid * buf) * list bcentry * buf) :=
  match rfs with
  | [] => Ok ([], [], s)
  | rf :: rfs' =>
    do x <- bdecompress_field_c ct pos rf s ;;
    let '(v, rb, ce) := x in
    do s' <- b_getitem s (Some rb) None ;;
    do rest <- bdecompress_fields_c ct (pos + 1) rfs' s' ;;
    let '(fs, ces, s'') := rest in
    Ok ((br_id rf, v) :: fs, (match ce with Some e => [e] | None => [] end) ++ ces, s'')
  end.

(* compute_function_sort *)
Definition bce_cmp (e1 e2 : bcentry) : Z :=
  if in_fids (bce_id e1) (bce_deps e2) then -1
  else if in_fids (bce_id e2) (bce_deps e1) then 1
  else bce_pos e1 - bce_pos e2.
(* compute_entries.sort(key=cmp_to_key(compute_function_sort)): the same algorithm as at the bit level
   (PySort.py_sort), with the comparison on the byte-level entries *)
Definition bce_lt (e1 e2 : bcentry) : bool := bce_cmp e1 e2 <? 0.
Definition py_sort_bces (l : list bcentry) : option (list bcentry) := py_sort bce_lt l.
(* as in Schc.ce_sorted: list.sort leaves alone a list in which no element compares below its predecessor *)
Fixpoint bce_sorted (l : list bcentry) : bool :=
  match l with
  | e1 :: ((e2 :: _) as r) => negb (bce_cmp e2 e1 <? 0) && bce_sorted r
  | _ => true
  end.

Fixpoint brun_computes (ces : list bcentry) (fields : list (fid * buf)) : res (list (fid * buf)) :=
  match ces with
  | [] => Ok fields
  | e :: r =>
    do v <- bce_fn e fields (bce_pos e) ;;
    brun_computes r (list_set fields (Z.to_nat (bce_pos e)) (bce_id e, v))
  end.

Definition bdecompress_ct (ct : bcompute_table) (s : buf) (r : brule) (direction : option dir) : res buf :=
  do s1 <- b_getitem s (Some (blen (brule_id r))) None ;;
  do x <- bdecompress_fields_c ct 0 (bselect_fds direction (brule_fds r)) s1 ;;
  let '(fs, ces, rest) := x in
  let fs := fs ++ [(payload_fid, rest)] in
  match py_sort_bces ces with
  | None => Exc Unmodelled
  | Some ces' =>
    do fs' <- brun_computes ces' fs ;;
    do e <- b_new [] 0 RIGHT ;;
    badd_all e (map snd fs')
  end.

Definition bdecompress_c (s : buf) (r : brule) (direction : option dir) : res buf :=
  bdecompress_ct bcompute_functions s r direction.

(* ---- the transcription evaluated and compared with the Python results -------------------------- *)
(* Field lists as the decompressor builds them: (field id, Buffer) pairs, placeholders of zero bits for
   the computed fields, the payload entry last.  Each expected value below is what the Python function
   of /repo returns on the same list (Buffer printed as content, length, padding, padding_length). *)
Definition exb6 : list (fid * buf) :=
  [(mkfid P_IPv6 0, mkbuf [6] 4 LEFT 4);
   (mkfid P_IPv6 1, mkbuf [0] 8 LEFT 0);
   (mkfid P_IPv6 2, mkbuf [10; 188; 222] 20 LEFT 4);
   (mkfid P_IPv6 3, mkbuf [0; 0] 16 LEFT 0);
   (mkfid P_IPv6 4, mkbuf [17] 8 LEFT 0);
   (mkfid P_IPv6 5, mkbuf [64] 8 LEFT 0);
   (mkfid P_IPv6 6, mkbuf [32; 1; 13; 184; 0; 0; 0; 0; 0; 0; 0; 0; 0; 0; 0; 1] 128 LEFT 0);
   (mkfid P_IPv6 7, mkbuf [32; 1; 13; 184; 0; 0; 0; 0; 0; 0; 0; 0; 0; 0; 0; 2] 128 LEFT 0);
   (mkfid P_UDP 0, mkbuf [22; 51] 16 LEFT 0);
   (mkfid P_UDP 1, mkbuf [22; 52] 16 LEFT 0);
   (mkfid P_UDP 2, mkbuf [0; 0] 16 LEFT 0);
   (mkfid P_UDP 3, mkbuf [0; 0] 16 LEFT 0);
   (payload_fid, mkbuf [1; 2; 3] 24 RIGHT 0)].

(* microschc.protocol.ipv6._compute_payload_length(exb6, 3) *)
Example exb6_payload_length : bipv6_payload_length exb6 3 = Ok (mkbuf [0; 11] 16 LEFT 0).
Proof. vm_compute. reflexivity. Qed.
(* microschc.protocol.udp._compute_length(exb6, 10) *)
Example exb6_udp_length : budp_length exb6 10 = Ok (mkbuf [0; 11] 16 LEFT 0).
Proof. vm_compute. reflexivity. Qed.
(* microschc.protocol.udp._compute_checksum(exb6, 11), the UDP length still a placeholder *)
Example exb6_udp_checksum_0 : budp_checksum exb6 11 = Ok (mkbuf [116; 5] 16 LEFT 0).
Proof. vm_compute. reflexivity. Qed.
(* the same after decompressed_fields[10] = (UDP:Length, _compute_length(exb6, 10)) *)
Example exb6_udp_checksum :
  budp_checksum (list_set exb6 10 (mkfid P_UDP 2, mkbuf [0; 11] 16 LEFT 0)) 11 = Ok (mkbuf [115; 250] 16 LEFT 0).
Proof. vm_compute. reflexivity. Qed.
(* one more entry of 3 bits (Buffer(b'\xa0', 3, RIGHT)) after the payload: the UDP data is not a whole
   number of bytes, nor of 16-bit words (chunks(16, padding=True) pads the last chunk) *)
Example exb6_udp_odd :
  let fl := list_set exb6 10 (mkfid P_UDP 2, mkbuf [0; 11] 16 LEFT 0) ++ [(payload_fid, mkbuf [160] 3 RIGHT 5)] in
  (budp_length fl 10, budp_checksum fl 11) = (Ok (mkbuf [0; 12] 16 LEFT 0), Ok (mkbuf [115; 89] 16 LEFT 0)).
Proof. vm_compute. reflexivity. Qed.

Definition exb4 : list (fid * buf) :=
  [(mkfid P_IPv4 0, mkbuf [4] 4 LEFT 4);
   (mkfid P_IPv4 1, mkbuf [5] 4 LEFT 4);
   (mkfid P_IPv4 2, mkbuf [0] 8 LEFT 0);
   (mkfid P_IPv4 3, mkbuf [0; 0] 16 LEFT 0);
   (mkfid P_IPv4 4, mkbuf [18; 52] 16 LEFT 0);
   (mkfid P_IPv4 5, mkbuf [2] 3 LEFT 5);
   (mkfid P_IPv4 6, mkbuf [0; 0] 13 LEFT 3);
   (mkfid P_IPv4 7, mkbuf [64] 8 LEFT 0);
   (mkfid P_IPv4 8, mkbuf [17] 8 LEFT 0);
   (mkfid P_IPv4 9, mkbuf [0; 0] 16 LEFT 0);
   (mkfid P_IPv4 10, mkbuf [192; 0; 2; 1] 32 LEFT 0);
   (mkfid P_IPv4 11, mkbuf [192; 0; 2; 2] 32 LEFT 0);
   (mkfid P_UDP 0, mkbuf [22; 51] 16 LEFT 0);
   (mkfid P_UDP 1, mkbuf [22; 52] 16 LEFT 0);
   (mkfid P_UDP 2, mkbuf [0; 0] 16 LEFT 0);
   (mkfid P_UDP 3, mkbuf [0; 0] 16 LEFT 0);
   (payload_fid, mkbuf [1; 2; 3] 24 RIGHT 0)].

(* microschc.protocol.ipv4._compute_total_length(exb4, 3) *)
Example exb4_total_length : bipv4_total_length exb4 3 = Ok (mkbuf [0; 31] 16 LEFT 0).
Proof. vm_compute. reflexivity. Qed.
(* with decompressed_fields[3] replaced by that value: microschc.protocol.ipv4._compute_checksum(.., 9) and
   microschc.protocol.udp._compute_checksum(.., 15) (IPv4 pseudo header) *)
Example exb4_checksums :
  let fl := list_set exb4 3 (mkfid P_IPv4 3, mkbuf [0; 31] 16 LEFT 0) in
  (bipv4_checksum fl 9, budp_checksum fl 15) = (Ok (mkbuf [164; 150] 16 LEFT 0), Ok (mkbuf [75; 118] 16 LEFT 0)).
Proof. vm_compute. reflexivity. Qed.

Definition exbs : list (fid * buf) :=
  [(mkfid P_SCTP 0, mkbuf [4; 210] 16 LEFT 0);
   (mkfid P_SCTP 1, mkbuf [22; 46] 16 LEFT 0);
   (mkfid P_SCTP 2, mkbuf [222; 173; 190; 239] 32 LEFT 0);
   (mkfid P_SCTP 3, mkbuf [0; 0; 0; 0] 32 LEFT 0);
   (mkfid P_SCTP 4, mkbuf [1] 8 LEFT 0);
   (mkfid P_SCTP 5, mkbuf [0] 8 LEFT 0);
   (payload_fid, mkbuf [1; 2; 3; 4; 5] 40 RIGHT 0)].

(* microschc.protocol.sctp._compute_checksum(exbs, 3) *)
Example exbs_checksum : bsctp_checksum exbs 3 = Ok (mkbuf [218; 33; 247; 142] 32 LEFT 0).
Proof. vm_compute. reflexivity. Qed.
(* microschc.crypto.crc.crc32c(Buffer(b'\x01\x02\x03', 24), 0xffffffff) *)
Example ex_crc32c : bcrc32c (mkbuf [1; 2; 3] 24 LEFT 0) 4294967295 = Ok (mkbuf [14; 207; 13; 225] 32 LEFT 0).
Proof. vm_compute. reflexivity. Qed.
