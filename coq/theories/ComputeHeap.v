(* ComputeHeap.v -- the compute stage of decompress (ComputeBytes.v) over the heap of Buffer OBJECTS: the placeholders
   Buffer(bytes(1 + n // 8), n), the six compute functions with their reduce of +, chunks(), value(), ~, the sort of
   the compute entries, the write-back of the computed values into the LOCAL list decompressed_fields, the final
   concatenation.  h_decompress_ct extends SchcHeap.h_decompress (field stage) to ComputeBytes.bdecompress_ct, and is
   plugged into ManagerHeap (ContextManager.decompress, SCHC.decompress) through Rdecompress.
   Buffer.chunks is a generator consumed lazily by the Python loops; as in ComputeBytes (b_chunks) the chunks are built
   first here (BufferHeap.h_chunks): the objects created are the same, in another order.
   Theorems: frame, freshness of the result, refinement.  Used for property C16 (first sentence). *)
From Coq Require Import ZArith List Bool Lia Arith.
From MS Require Import PyBase Buffer Bits PySort Schc Crc32cTable Compute SchcBytes Parsers ParserBytes ComputeBytes ManagerBytes.
From MS Require Import BufferHeap BufferHeapSpec SchcHeap ParserHeap ManagerHeap.
Import ListNotations.
Open Scope Z_scope.

(* ================================================================================================ *)
(* 1. definitions                                                                                   *)
(* ================================================================================================ *)

(* decompressed_fields: a list of (field id, Buffer object) *)
Definition ocompute_fn := list (fid * oref) -> Z -> hm oref.
Definition ocompute_table := fid -> option (ocompute_fn * list fid).
Definition ovals (fs : list (fid * oref)) : list oref := map snd fs.
Definition oids (fs : list (fid * oref)) : list fid := map fst fs.

(* reduce(lambda x, y: x + y, l): the single element ITSELF (no copy) on a one-element list *)
Definition h_reduce_add (l : list oref) : hm oref :=
  match l with [] => hlift (Exc TypeError) | x :: r => h_add_all x r end.
(* Buffer(content=n.to_bytes(k, 'big'), length=8k, padding=LEFT) *)
Definition h_uint (k : nat) (n : Z) : hm oref := hdo c <- hlift (to_bytes k n) ;; h_new c (8 * Z.of_nat k) LEFT.
(* b.length // 8 if b.length % 8 == 0 else b.length // 8 + 1 *)
Definition h_blen_bytes (x : oref) : hm Z := hdo b <- hget x ;; hret (blen_bytes b).

Definition h_ipv6_payload_length : ocompute_fn := fun fs pos =>
  hdo e <- h_new [] 0 LEFT ;;
  hdo pb <- h_add_all e (py_slice (ovals fs) (Some (pos + 5)) None) ;;
  hdo n <- h_blen_bytes pb ;;
  h_uint 2 n.

Definition h_ipv4_total_length : ocompute_fn := fun fs pos =>
  hdo e <- h_new [] 0 LEFT ;;
  hdo ib <- h_add_all e (py_slice (ovals fs) (Some (pos - 2)) None) ;;
  hdo n <- h_blen_bytes ib ;;
  h_uint 2 n.

Fixpoint h_ones_sum (cs : list oref) (s : Z) : hm Z :=
  match cs with
  | [] => hret s
  | c :: r =>
    hdo v <- h_value c ;;
    let s := s + v in
    h_ones_sum r (Z.land (s + Z.shiftr s 16) 65535)
  end.

Definition h_ipv4_checksum : ocompute_fn := fun fs pos =>
  let hfs := map snd (py_slice fs (Some (pos - 9)) (Some (pos + 3))) in
  hdo e <- h_new [] 0 LEFT ;;
  hdo hdr <- h_add_all e hfs ;;
  hdo cs <- h_chunks hdr 16 false ;;
  hdo s <- h_ones_sum cs 0 ;;
  h_uint 2 (Z.land (Z.lnot s) 65535).

Definition h_udp_length : ocompute_fn := fun fs pos =>
  hdo b <- h_reduce_add (py_slice (ovals fs) (Some (pos - 2)) None) ;;
  hdo n <- h_blen_bytes b ;;
  h_uint 2 n.

Definition h_udp_checksum : ocompute_fn := fun fs pos =>
  let plp := pos - 4 in
  hdo last_id <- hlift (py_index (oids fs) plp) ;;
  hdo hp <- h_reduce_add (py_slice (ovals fs) (Some (pos - 3)) None) ;;
  hdo total <- h_blen_bytes hp ;;
  if plp <? 0 then hlift (Exc Unmodelled)
  else
    let rev_ids := rev (skipn 1 (firstn (Z.to_nat (plp + 1)) (oids fs))) in
    hdo pseudo <-
      (match fproto last_id with
       | P_IPv6 =>
         match find_index (fid_eqb IPV6_SRC_ADDRESS) rev_ids 0 with
         | None => hlift (Exc StopIteration)
         | Some off =>
           let sp := plp - off in
           hdo src <- hlift (py_index (ovals fs) sp) ;;
           hdo dst <- hlift (py_index (ovals fs) (sp + 1)) ;;
           hdo l32 <- h_uint 4 total ;;
           hdo zero <- h_new [0; 0; 0] 24 LEFT ;;
           hdo nh <- h_new [17] 8 LEFT ;;
           hdo p1 <- h_add src dst ;;
           hdo p2 <- h_add p1 l32 ;;
           hdo p3 <- h_add p2 zero ;;
           h_add p3 nh
         end
       | P_IPv4 =>
         match find_index (fid_eqb IPV4_SRC_ADDRESS) rev_ids 0 with
         | None => hlift (Exc StopIteration)
         | Some off =>
           let sp := plp - off in
           hdo src <- hlift (py_index (ovals fs) sp) ;;
           hdo dst <- hlift (py_index (ovals fs) (sp + 1)) ;;
           hdo zero <- h_new [0] 8 LEFT ;;
           hdo pr <- h_new [17] 8 LEFT ;;
           hdo l16 <- h_uint 2 total ;;
           hdo p1 <- h_add src dst ;;
           hdo p2 <- h_add p1 zero ;;
           hdo p3 <- h_add p2 pr ;;
           h_add p3 l16
         end
       | _ => hlift (Exc UnboundLocalError)
       end) ;;
    hdo cs1 <- h_chunks pseudo 16 false ;;
    hdo s1 <- h_ones_sum cs1 0 ;;
    hdo cs2 <- h_chunks hp 16 true ;;
    hdo s2 <- h_ones_sum cs2 0 ;;
    let c := s1 + s2 in
    let c := Z.land (c + Z.shiftr c 16) 65535 in
    let c := Z.land (Z.lnot c) 65535 in
    let c := if c =? 0 then 65535 else c in
    h_uint 2 c.

Fixpoint h_crc_loop (cs : list oref) (crc : Z) : hm Z :=
  match cs with
  | [] => hret crc
  | c :: r => hdo b <- h_value c ;; h_crc_loop r (bcrc_step crc b)
  end.
Definition h_crc32c (b : oref) (init : Z) : hm oref :=
  hdo cs <- h_chunks b 8 true ;;
  hdo crc <- h_crc_loop cs init ;;
  h_uint 4 crc.

Definition h_sctp_checksum : ocompute_fn := fun fs pos =>
  hdo b <- h_reduce_add (py_slice (ovals fs) (Some (pos - 3)) None) ;;
  hdo ck <- h_crc32c b 4294967295 ;;
  hdo inv <- h_invert ck ;;
  hdo cs <- h_chunks inv 8 false ;;
  h_reduce_add (rev cs).

Definition h_compute_functions : ocompute_table := fun f =>
  if fid_eqb f IPV4_TOTAL_LENGTH then Some (h_ipv4_total_length, [])
  else if fid_eqb f IPV4_HEADER_CHECKSUM then
    Some (h_ipv4_checksum, map (fun i => mkfid P_IPv4 i) [0; 1; 2; 3; 4; 5; 6; 7; 8; 10; 11])
  else if fid_eqb f IPV6_PAYLOAD_LENGTH then Some (h_ipv6_payload_length, [])
  else if fid_eqb f UDP_LENGTH then Some (h_udp_length, [])
  else if fid_eqb f UDP_CHECKSUM then Some (h_udp_checksum, UDP_CHECKSUM_DEPS)
  else if fid_eqb f SCTP_CHECKSUM then Some (h_sctp_checksum, SCTP_ALL_BUT_CHECKSUM)
  else None.

(* ---- decompress with the compute stage ---- *)
Record ocentry := mkocentry { oce_pos : Z; oce_id : fid; oce_fn : ocompute_fn; oce_deps : list fid }.

Definition h_decompress_field_c (ct : ocompute_table) (pos : Z) (rf : orfd) (s : oref) : hm (oref * Z * option ocentry) :=
  match or_cda rf with
  | Compute =>
    hdo e <- h_new [] 0 RIGHT ;;             (* decompressed_field = Buffer(b'', 0, RIGHT), dropped *)
    if or_len rf <? 0 then hlift (Exc Unmodelled)
    else
      hdo ph <- h_new (zeros (1 + or_len rf / 8)) (or_len rf) LEFT ;;
      match ct (or_id rf) with
      | None => hlift (Exc KeyError)
      | Some (fn, deps) => hret (ph, 0, Some (mkocentry pos (or_id rf) fn deps))
      end
  | _ => hdo x <- h_decompress_field rf s ;; hret (fst x, snd x, None)
  end.

Fixpoint h_decompress_fields_c (ct : ocompute_table) (pos : Z) (rfs : list orfd) (s : oref)
  : hm (list (fid * oref) * list ocentry * oref) :=
  match rfs with
  | [] => hret ([], [], s)
  | rf :: rfs' =>
    hdo x <- h_decompress_field_c ct pos rf s ;;
    let '(v, rb, ce) := x in
    hdo s' <- h_getitem s (Some rb) None ;;
    hdo rest <- h_decompress_fields_c ct (pos + 1) rfs' s' ;;
    let '(fs, ces, s'') := rest in
    hret ((or_id rf, v) :: fs, (match ce with Some e => [e] | None => [] end) ++ ces, s'')
  end.

Definition oce_cmp (e1 e2 : ocentry) : Z :=
  if in_fids (oce_id e1) (oce_deps e2) then -1
  else if in_fids (oce_id e2) (oce_deps e1) then 1
  else oce_pos e1 - oce_pos e2.
Definition oce_lt (e1 e2 : ocentry) : bool := oce_cmp e1 e2 <? 0.

(* decompressed_fields[field_position] = (field_id, compute_function(decompressed_fields, field_position)):
   the list is local to decompress; the objects it holds are not touched *)
Fixpoint h_run_computes (ces : list ocentry) (fields : list (fid * oref)) : hm (list (fid * oref)) :=
  match ces with
  | [] => hret fields
  | e :: r =>
    hdo v <- oce_fn e fields (oce_pos e) ;;
    h_run_computes r (list_set fields (Z.to_nat (oce_pos e)) (oce_id e, v))
  end.

Definition h_decompress_ct (ct : ocompute_table) (s : oref) (r : orule) (direction : option dir) : hm oref :=
  hdo rb <- hget (orule_id r) ;;
  hdo s1 <- h_getitem s (Some (blen rb)) None ;;
  hdo x <- h_decompress_fields_c ct 0 (oselect_fds direction (orule_fds r)) s1 ;;
  let '(fs, ces, rest) := x in
  let fs := fs ++ [(payload_fid, rest)] in
  match py_sort oce_lt ces with
  | None => hlift (Exc Unmodelled)
  | Some ces' =>
    hdo fs' <- h_run_computes ces' fs ;;
    hdo e <- h_new [] 0 RIGHT ;;
    h_add_all e (map snd fs')
  end.

Definition h_decompress_c : odecompress := h_decompress_ct h_compute_functions.

(* ================================================================================================ *)
(* 2. frame                                                                                         *)
(* ================================================================================================ *)

Lemma pv_chunks r n p : pure_val (h_chunks r n p).
Proof. intros h x h' H. now apply chunks_frame in H. Qed.
Lemma pr_uint k n : pure_ref (h_uint k n).
Proof. unfold h_uint. apply pr_bind. apply pv_lift. intro. apply pr_new. Qed.
Lemma pv_blen_bytes x : pure_val (h_blen_bytes x).
Proof. unfold h_blen_bytes. apply pv_bind. apply pv_get. intro. apply pv_ret. Qed.
Lemma pv_reduce_add l : pure_val (h_reduce_add l).
Proof. destruct l; simpl. apply pv_lift. apply pv_add_all. Qed.
Lemma pv_ones_sum : forall cs s, pure_val (h_ones_sum cs s).
Proof. induction cs as [|c cs IH]; intro s; cbn [h_ones_sum]. apply pv_ret. apply pv_bind. apply pv_value. intro. apply IH. Qed.
Lemma pv_crc_loop : forall cs s, pure_val (h_crc_loop cs s).
Proof. induction cs as [|c cs IH]; intro s; cbn [h_crc_loop]. apply pv_ret. apply pv_bind. apply pv_value. intro. apply IH. Qed.

Ltac cpure_step :=
  first
    [ apply pv_ret | apply pv_lift | apply pv_get | apply pv_value | apply pv_chunks | apply pv_blen_bytes
    | apply pv_reduce_add | apply pv_add_all | apply pv_ones_sum | apply pv_crc_loop
    | apply pure_ref_val; first [ apply pr_new | apply pr_add | apply pr_uint | apply pr_invert | apply pr_getitem ]
    | apply pv_bind; [ | intro ]
    | match goal with |- pure_val (match ?c with _ => _ end) => destruct c end ].
Ltac cpure := repeat cpure_step.

Lemma pv_crc32c b init : pure_val (h_crc32c b init).
Proof. unfold h_crc32c. cpure. Qed.

Definition table_pure (ct : ocompute_table) : Prop :=
  forall f fn deps, ct f = Some (fn, deps) -> forall fs pos, pure_val (fn fs pos).

Lemma pv_ipv6_payload_length fs pos : pure_val (h_ipv6_payload_length fs pos).
Proof. unfold h_ipv6_payload_length. cpure. Qed.
Lemma pv_ipv4_total_length fs pos : pure_val (h_ipv4_total_length fs pos).
Proof. unfold h_ipv4_total_length. cpure. Qed.
Lemma pv_ipv4_checksum fs pos : pure_val (h_ipv4_checksum fs pos).
Proof. unfold h_ipv4_checksum. cbv zeta. cpure. Qed.
Lemma pv_udp_length fs pos : pure_val (h_udp_length fs pos).
Proof. unfold h_udp_length. cpure. Qed.
Lemma pv_udp_checksum fs pos : pure_val (h_udp_checksum fs pos).
Proof. unfold h_udp_checksum. cbv zeta. cpure. Qed.
Lemma pv_sctp_checksum fs pos : pure_val (h_sctp_checksum fs pos).
Proof. unfold h_sctp_checksum. repeat first [ apply pv_crc32c | cpure_step ]. Qed.

Lemma compute_functions_pure : table_pure h_compute_functions.
Proof.
  intros f fn deps H fs pos. unfold h_compute_functions in H.
  repeat match type of H with (if ?c then _ else _) = _ => destruct c end; inversion H; subst;
    first [ apply pv_ipv4_total_length | apply pv_ipv4_checksum | apply pv_ipv6_payload_length
          | apply pv_udp_length | apply pv_udp_checksum | apply pv_sctp_checksum ].
Qed.

Lemma pv_decompress_field_c ct pos rf s : pure_val (h_decompress_field_c ct pos rf s).
Proof.
  unfold h_decompress_field_c.
  destruct (or_cda rf); try (apply pv_bind; [ apply pv_decompress_field | intro; apply pv_ret ]).
  apply pv_bind. apply pure_ref_val, pr_new. intro. destruct (or_len rf <? 0). apply pv_lift.
  apply pv_bind. apply pure_ref_val, pr_new. intro. destruct (ct (or_id rf)) as [[fn deps]|]. apply pv_ret. apply pv_lift.
Qed.
Lemma pv_decompress_fields_c ct : forall rfs pos s, pure_val (h_decompress_fields_c ct pos rfs s).
Proof.
  induction rfs as [|rf rfs IH]; intros pos s; cbn [h_decompress_fields_c]. apply pv_ret.
  apply pv_bind. apply pv_decompress_field_c. intros [[v rb] ce].
  apply pv_bind. apply pure_ref_val, pr_getitem. intro s'.
  apply pv_bind. apply IH. intros [[fs ces] s'']. apply pv_ret.
Qed.
Lemma pv_run_computes : forall ces fields, (forall e, In e ces -> forall fs pos, pure_val (oce_fn e fs pos)) ->
  pure_val (h_run_computes ces fields).
Proof.
  induction ces as [|e ces IH]; intros fields P; cbn [h_run_computes]. apply pv_ret.
  apply pv_bind. apply P. now left. intro. apply IH. intros e' I. apply P. now right.
Qed.

(* the entries collected by the field stage carry functions of the table *)
Lemma decompress_fields_c_entries ct : forall rfs pos s h fs ces rest h',
  h_decompress_fields_c ct pos rfs s h = (Ok (fs, ces, rest), h') ->
  forall e, In e ces -> exists deps, ct (oce_id e) = Some (oce_fn e, deps).
Proof.
  induction rfs as [|rf rfs IH]; intros pos s h fs ces rest h' H e I; cbn [h_decompress_fields_c] in H.
  - unfold hret in H. inversion H; subst. contradiction.
  - apply hbind_inv in H. destruct H as [([[v rb] ce] & h1 & Hx & H) | [(x & _ & E) | (_ & E)]]; try discriminate.
    apply hbind_inv in H. destruct H as [(s' & h2 & Hs & H) | [(x & _ & E) | (_ & E)]]; try discriminate.
    apply hbind_inv in H. destruct H as [([[fs' ces'] s''] & h3 & Hr & H) | [(x & _ & E) | (_ & E)]]; try discriminate.
    unfold hret in H. inversion H; subst. apply in_app_or in I. destruct I as [I | I].
    + destruct ce as [e0|]; [ | contradiction ]. destruct I as [<- | []].
      unfold h_decompress_field_c in Hx. destruct (or_cda rf);
        [ apply hbind_inv in Hx; destruct Hx as [(y & hy & _ & Hx) | [(x & _ & E) | (_ & E)]]; try discriminate;
          unfold hret in Hx; inversion Hx .. | ].
      apply hbind_inv in Hx. destruct Hx as [(e1 & hy & _ & Hx) | [(x & _ & E) | (_ & E)]]; try discriminate.
      destruct (or_len rf <? 0). { unfold hlift in Hx. discriminate. }
      apply hbind_inv in Hx. destruct Hx as [(ph & hz & _ & Hx) | [(x & _ & E) | (_ & E)]]; try discriminate.
      destruct (ct (or_id rf)) as [[fn deps]|] eqn:Ect; [ | unfold hlift in Hx; discriminate ].
      unfold hret in Hx. inversion Hx; subst. simpl. eauto.
    + eapply IH; eauto.
Qed.

Lemma add_all_result : forall l acc h x h', h_add_all acc l h = (Ok x, h') -> x = acc \/ (length h <= x < length h')%nat.
Proof.
  induction l as [|y l IH]; intros acc h x h' H; cbn [h_add_all] in H.
  - unfold hret in H. inversion H; subst. now left.
  - apply hbind_inv in H. destruct H as [(a & h1 & Ha & H) | [(e & _ & E) | (_ & E)]]; try discriminate.
    apply pr_add in Ha. destruct Ha as [X F]. specialize (F a eq_refl). apply extends_length in X.
    pose proof (pv_add_all _ _ _ _ _ H) as X2. apply extends_length in X2.
    apply IH in H. destruct H as [-> | L]; right; lia.
Qed.

Lemma pr_decompress_ct ct s r d : table_pure ct -> pure_ref (h_decompress_ct ct s r d).
Proof.
  intros TP h x h' H. unfold h_decompress_ct in H.
  apply hbind_inv in H. destruct H as [(rb & h0 & Hg & H) | [(e & Hg & ->) | (Hg & ->)]];
    [ | apply pv_get in Hg; split; [ exact Hg | discriminate ] .. ].
  apply pv_get in Hg.
  apply hbind_inv in H. destruct H as [(s1 & h1 & Hs & H) | [(e & Hs & ->) | (Hs & ->)]];
    [ | apply pr_getitem in Hs; destruct Hs as [Hs _]; split; [ ext_solve | discriminate ] .. ].
  apply pr_getitem in Hs. destruct Hs as [Hs _].
  apply hbind_inv in H. destruct H as [([[fs ces] rest] & h2 & Hf & H) | [(e & Hf & ->) | (Hf & ->)]];
    [ | apply pv_decompress_fields_c in Hf; split; [ ext_solve | discriminate ] .. ].
  pose proof (decompress_fields_c_entries _ _ _ _ _ _ _ _ _ Hf) as EN.
  apply pv_decompress_fields_c in Hf. cbv zeta in H.
  destruct (py_sort oce_lt ces) as [ces'|] eqn:Es.
  2:{ unfold hlift in H. inversion H; subst. split. ext_solve. discriminate. }
  assert (PC : forall e, In e ces' -> forall fs pos, pure_val (oce_fn e fs pos)).
  { intros e I. apply py_sort_perm in Es. apply Permutation.Permutation_sym in Es.
    pose proof (Permutation.Permutation_in _ Es I) as I'. destruct (EN e I') as [deps Hd]. eapply TP; eauto. }
  apply hbind_inv in H. destruct H as [(fs' & h3 & Hr & H) | [(e & Hr & ->) | (Hr & ->)]];
    [ | apply (pv_run_computes _ _ PC) in Hr; split; [ ext_solve | discriminate ] .. ].
  apply (pv_run_computes _ _ PC) in Hr.
  apply hbind_inv in H. destruct H as [(e & h4 & He & H) | [(e & He & ->) | (He & ->)]];
    [ | apply pr_new in He; destruct He as [He _]; split; [ ext_solve | discriminate ] .. ].
  apply pr_new in He. destruct He as [He Fe]. specialize (Fe e eq_refl).
  pose proof (pv_add_all _ _ _ _ _ H) as Xa.
  split. ext_solve.
  intros y Ey. subst x. apply add_all_result in H.
  apply extends_length in Hg, Hs, Hf, Hr, He, Xa. destruct H as [-> | L]; lia.
Qed.

(* decompress with the compute stage changes no existing object, and returns a NEW object *)
Theorem h_decompress_c_frame s r d h res h' : h_decompress_c s r d h = (res, h') -> extends h h'.
Proof. intro H. apply (pr_decompress_ct _ _ _ _ compute_functions_pure) in H. apply H. Qed.
Theorem h_decompress_c_fresh s r d h x h' : h_decompress_c s r d h = (Ok x, h') -> (length h <= x < length h')%nat.
Proof. intro H. apply (pr_decompress_ct _ _ _ _ compute_functions_pure) in H. now apply H. Qed.

(* ================================================================================================ *)
(* 3. refinement                                                                                    *)
(* ================================================================================================ *)

Definition Rfids (h : heap) (fs : list (fid * oref)) (bfs : list (fid * buf)) : Prop :=
  Forall2 (fun a b => fst a = fst b /\ Rref h (snd a) (snd b)) fs bfs.
Definition Rfn (f : ocompute_fn) (bf : bcompute_fn) : Prop :=
  forall fs bfs pos h, Rfids h fs bfs -> refines Rref h (f fs pos h) (bf bfs pos).

Lemma Rfids_mono h h' fs bfs : extends h h' -> Rfids h fs bfs -> Rfids h' fs bfs.
Proof. intro X. apply Forall2_mono. intros a b [A B]. split; auto. eapply Rref_mono; eauto. Qed.
Lemma Rfids_vals h fs bfs : Rfids h fs bfs -> Forall2 (Rref h) (ovals fs) (bvals bfs).
Proof. intro F. induction F; simpl; constructor; auto. apply H. Qed.
Lemma Rfids_ids h fs bfs : Rfids h fs bfs -> oids fs = bids bfs.
Proof. intro F. induction F; simpl; auto. destruct H as [-> _]. now f_equal. Qed.

Lemma zlen_Forall2 {A B} (R : A -> B -> Prop) l l' : Forall2 R l l' -> zlen l = zlen l'.
Proof. intro F. unfold zlen. now rewrite (Forall2_length_eq R l l' F). Qed.
Lemma Forall2_py_slice {A B} (R : A -> B -> Prop) l l' s e : Forall2 R l l' -> Forall2 R (py_slice l s e) (py_slice l' s e).
Proof.
  intro F. unfold py_slice. rewrite (zlen_Forall2 R l l' F). destruct (slice_indices (zlen l') s e).
  apply Forall2_firstn. now apply Forall2_skipn.
Qed.
Lemma py_index_rel {A B} (R : A -> B -> Prop) l l' i : Forall2 R l l' ->
  match py_index l i, py_index l' i with
  | Ok a, Ok b => R a b
  | Exc e, Exc e' => e = e'
  | _, _ => False
  end.
Proof.
  intro F. unfold py_index. rewrite (zlen_Forall2 R l l' F).
  destruct ((_ <? 0) || (zlen l' <=? _)); auto.
  pose proof (Forall2_nth_error R l l' F (Z.to_nat (if i <? 0 then i + zlen l' else i))) as N.
  destruct (nth_error l _), (nth_error l' _); simpl in N; try contradiction; auto.
Qed.
Lemma refines_lift_index h l lb i : Forall2 (Rref h) l lb -> refines Rref h (hlift (py_index l i) h) (py_index lb i).
Proof.
  intro F. pose proof (py_index_rel _ _ _ i F) as P. unfold hlift, refines.
  destruct (py_index l i), (py_index lb i); try contradiction; (split; [ apply extends_refl | ]); eauto. now subst.
Qed.
Lemma Forall2_list_set {A B} (R : A -> B -> Prop) l l' : Forall2 R l l' -> forall k x x', R x x' ->
  Forall2 R (list_set l k x) (list_set l' k x').
Proof. induction 1; intros [|k] x0 x0' Hx; cbn [list_set]; constructor; auto. Qed.

Definition Rrefs (h : heap) (l : list oref) (lb : list buf) : Prop := Forall2 (Rref h) l lb.

Lemma refines_chunks r b n p h : Rref h r b -> refines Rrefs h (h_chunks r n p h) (b_chunks b n p).
Proof. intro E. exact (h_chunks_refines r n p h b E). Qed.
Lemma refines_invert r b h : Rref h r b -> refines Rref h (h_invert r h) (b_invert b).
Proof. apply h_invert_full. Qed.
Lemma refines_uint k n h : refines Rref h (h_uint k n h) (buint k n).
Proof.
  unfold h_uint, buint. rewrite hbind_lift. destruct (to_bytes k n); cbn [bind].
  apply refines_new. split; auto using extends_refl. split; auto using extends_refl.
Qed.
Lemma refines_reduce_add l lb h : Forall2 (Rref h) l lb -> refines Rref h (h_reduce_add l h) (breduce_add lb).
Proof.
  intro F. destruct F; cbn [h_reduce_add breduce_add]. apply refines_exc. now apply refines_add_all.
Qed.
Lemma hbind_blen_bytes {B} x xb (K : Z -> hm B) h : Rref h x xb -> hbind (h_blen_bytes x) K h = K (blen_bytes xb) h.
Proof. intro E. unfold h_blen_bytes. rewrite hbind_assoc, (hbind_getR _ _ _ _ E). reflexivity. Qed.
Lemma refines_ones_sum : forall cs csb s h, Forall2 (Rref h) cs csb -> refines Rval h (h_ones_sum cs s h) (bones_sum csb s).
Proof.
  induction cs as [|c cs IH]; intros csb s h F; inversion F as [|? cb ? csb' Hc F']; subst; cbn [h_ones_sum bones_sum].
  - apply refines_ret. reflexivity.
  - apply refines_bind with (R := Rval). now apply refines_value.
    intros v v' h1 X1 E. unfold Rval in E; subst v'. cbv zeta. apply IH. mono.
Qed.
Lemma refines_crc_loop : forall cs csb s h, Forall2 (Rref h) cs csb -> refines Rval h (h_crc_loop cs s h) (bcrc_loop csb s).
Proof.
  induction cs as [|c cs IH]; intros csb s h F; inversion F as [|? cb ? csb' Hc F']; subst; cbn [h_crc_loop bcrc_loop].
  - apply refines_ret. reflexivity.
  - apply refines_bind with (R := Rval). now apply refines_value.
    intros v v' h1 X1 E. unfold Rval in E; subst v'. apply IH. mono.
Qed.
Lemma refines_crc32c b bb init h : Rref h b bb -> refines Rref h (h_crc32c b init h) (bcrc32c bb init).
Proof.
  intro E. unfold h_crc32c, bcrc32c.
  apply refines_bind with (R := Rrefs). now apply refines_chunks.
  intros cs csb h1 X1 F. apply refines_bind with (R := Rval). now apply refines_crc_loop.
  intros crc crc' h2 X2 Ec. unfold Rval in Ec; subst crc'. apply refines_uint.
Qed.

(* ---- the six compute functions ---- *)
Lemma Rfn_ipv6_payload_length : Rfn h_ipv6_payload_length bipv6_payload_length.
Proof.
  intros fs bfs pos h F. unfold h_ipv6_payload_length, bipv6_payload_length.
  apply refines_bind with (R := Rref). apply refines_new.
  intros e eb h1 X1 Ee. apply refines_bind with (R := Rref).
  { apply refines_add_all; auto. apply Forall2_py_slice. apply Rfids_vals. eapply Rfids_mono; eauto. }
  intros pb pbb h2 X2 Ep. rewrite (hbind_blen_bytes _ _ _ _ Ep). apply refines_uint.
Qed.
Lemma Rfn_ipv4_total_length : Rfn h_ipv4_total_length bipv4_total_length.
Proof.
  intros fs bfs pos h F. unfold h_ipv4_total_length, bipv4_total_length.
  apply refines_bind with (R := Rref). apply refines_new.
  intros e eb h1 X1 Ee. apply refines_bind with (R := Rref).
  { apply refines_add_all; auto. apply Forall2_py_slice. apply Rfids_vals. eapply Rfids_mono; eauto. }
  intros pb pbb h2 X2 Ep. rewrite (hbind_blen_bytes _ _ _ _ Ep). apply refines_uint.
Qed.
Lemma Rfn_ipv4_checksum : Rfn h_ipv4_checksum bipv4_checksum.
Proof.
  intros fs bfs pos h F. unfold h_ipv4_checksum, bipv4_checksum. cbv zeta.
  apply refines_bind with (R := Rref). apply refines_new.
  intros e eb h1 X1 Ee. apply refines_bind with (R := Rref).
  { apply refines_add_all; auto.
    apply (Rfids_vals h1 (py_slice fs (Some (pos - 9)) (Some (pos + 3))) (py_slice bfs (Some (pos - 9)) (Some (pos + 3)))).
    apply Forall2_py_slice. eapply Rfids_mono; eauto. }
  intros hdr hdrb h2 X2 Eh. apply refines_bind with (R := Rrefs). now apply refines_chunks.
  intros cs csb h3 X3 Fc. apply refines_bind with (R := Rval). now apply refines_ones_sum.
  intros s s' h4 X4 Es. unfold Rval in Es; subst s'. apply refines_uint.
Qed.
Lemma Rfn_udp_length : Rfn h_udp_length budp_length.
Proof.
  intros fs bfs pos h F. unfold h_udp_length, budp_length.
  apply refines_bind with (R := Rref). { apply refines_reduce_add. apply Forall2_py_slice. now apply Rfids_vals. }
  intros b bb h1 X1 Eb. rewrite (hbind_blen_bytes _ _ _ _ Eb). apply refines_uint.
Qed.
Lemma Rfn_sctp_checksum : Rfn h_sctp_checksum bsctp_checksum.
Proof.
  intros fs bfs pos h F. unfold h_sctp_checksum, bsctp_checksum.
  apply refines_bind with (R := Rref). { apply refines_reduce_add. apply Forall2_py_slice. now apply Rfids_vals. }
  intros b bb h1 X1 Eb. apply refines_bind with (R := Rref). now apply refines_crc32c.
  intros ck ckb h2 X2 Ec. apply refines_bind with (R := Rref). now apply refines_invert.
  intros inv invb h3 X3 Ei. apply refines_bind with (R := Rrefs). now apply refines_chunks.
  intros cs csb h4 X4 Fc. apply refines_reduce_add. now apply Forall2_rev_acc.
Qed.

Lemma Rfn_udp_checksum : Rfn h_udp_checksum budp_checksum.
Proof.
  intros fs bfs pos h F. unfold h_udp_checksum, budp_checksum. cbv zeta.
  rewrite (Rfids_ids _ _ _ F). rewrite hbind_lift.
  destruct (py_index (bids bfs) (pos - 4)) as [last_id|e|]; cbn [bind];
    [ | split; [ apply extends_refl | reflexivity ] .. ].
  apply refines_bind with (R := Rref). { apply refines_reduce_add. apply Forall2_py_slice. now apply Rfids_vals. }
  intros hp hpb h1 X1 Ehp. rewrite (hbind_blen_bytes _ _ _ _ Ehp).
  destruct (pos - 4 <? 0). apply refines_exc.
  assert (F1 : Forall2 (Rref h1) (ovals fs) (bvals bfs)). { apply Rfids_vals. eapply Rfids_mono; eauto. }
  apply refines_bind with (R := Rref).
  { destruct (fproto last_id); try apply refines_exc.
    - destruct (find_index (fid_eqb IPV4_SRC_ADDRESS) _ 0) as [off|]; [ | apply refines_exc ].
      apply refines_bind with (R := Rref). now apply refines_lift_index.
      intros src srcb h2 X2 Es. apply refines_bind with (R := Rref). { apply refines_lift_index. mono. }
      intros dst dstb h3 X3 Ed. apply refines_bind with (R := Rref). apply refines_new.
      intros zero zerob h4 X4 Ez. apply refines_bind with (R := Rref). apply refines_new.
      intros pr prb h5 X5 Epr. apply refines_bind with (R := Rref). apply refines_uint.
      intros l16 l16b h6 X6 El. apply refines_bind with (R := Rref). apply refines_add; mono.
      intros p1 p1b h7 X7 E1. apply refines_bind with (R := Rref). apply refines_add; mono.
      intros p2 p2b h8 X8 E2. apply refines_bind with (R := Rref). apply refines_add; mono.
      intros p3 p3b h9 X9 E3. apply refines_add; mono.
    - destruct (find_index (fid_eqb IPV6_SRC_ADDRESS) _ 0) as [off|]; [ | apply refines_exc ].
      apply refines_bind with (R := Rref). now apply refines_lift_index.
      intros src srcb h2 X2 Es. apply refines_bind with (R := Rref). { apply refines_lift_index. mono. }
      intros dst dstb h3 X3 Ed. apply refines_bind with (R := Rref). apply refines_uint.
      intros l32 l32b h4 X4 El. apply refines_bind with (R := Rref). apply refines_new.
      intros zero zerob h5 X5 Ez. apply refines_bind with (R := Rref). apply refines_new.
      intros nh nhb h6 X6 En. apply refines_bind with (R := Rref). apply refines_add; mono.
      intros p1 p1b h7 X7 E1. apply refines_bind with (R := Rref). apply refines_add; mono.
      intros p2 p2b h8 X8 E2. apply refines_bind with (R := Rref). apply refines_add; mono.
      intros p3 p3b h9 X9 E3. apply refines_add; mono. }
  intros pseudo pseudob h2 X2 Eps. apply refines_bind with (R := Rrefs). now apply refines_chunks.
  intros cs1 cs1b h3 X3 F3. apply refines_bind with (R := Rval). now apply refines_ones_sum.
  intros s1 s1' h4 X4 E1. unfold Rval in E1; subst s1'.
  apply refines_bind with (R := Rrefs). { apply refines_chunks. mono. }
  intros cs2 cs2b h5 X5 F5. apply refines_bind with (R := Rval). now apply refines_ones_sum.
  intros s2 s2' h6 X6 E2. unfold Rval in E2; subst s2'. apply refines_uint.
Qed.

(* ---- decompress with the compute stage ---- *)
Definition Rce (e : ocentry) (be : bcentry) : Prop :=
  oce_pos e = bce_pos be /\ oce_id e = bce_id be /\ oce_deps e = bce_deps be /\ Rfn (oce_fn e) (bce_fn be).
Definition Rtable (ct : ocompute_table) (bct : bcompute_table) : Prop :=
  forall f, match ct f, bct f with
            | Some (fn, deps), Some (bfn, bdeps) => deps = bdeps /\ Rfn fn bfn
            | None, None => True
            | _, _ => False
            end.

Lemma Rtable_compute_functions : Rtable h_compute_functions bcompute_functions.
Proof.
  intro f. unfold h_compute_functions, bcompute_functions.
  repeat match goal with |- context [if ?c then _ else _] => destruct c end; auto; split; auto;
    first [ apply Rfn_ipv4_total_length | apply Rfn_ipv4_checksum | apply Rfn_ipv6_payload_length
          | apply Rfn_udp_length | apply Rfn_udp_checksum | apply Rfn_sctp_checksum ].
Qed.

Definition Rfc (h' : heap) (x : oref * Z * option ocentry) (y : buf * Z * option bcentry) : Prop :=
  Rref h' (fst (fst x)) (fst (fst y)) /\ snd (fst x) = snd (fst y) /\ opt_rel Rce (snd x) (snd y).

Lemma refines_decompress_field_c ct bct pos rf brf s sb h : Rtable ct bct -> Rrfd h rf brf -> Rref h s sb ->
  refines Rfc h (h_decompress_field_c ct pos rf s h) (bdecompress_field_c bct pos brf sb).
Proof.
  intros T Hr Es. pose proof Hr as (A1 & A2 & A3 & A4 & A5 & A6 & Tv).
  unfold h_decompress_field_c, bdecompress_field_c. rewrite A6.
  destruct (or_cda rf);
    try (apply refines_bind with (R := Rpz); [ now apply refines_decompress_field
                                            | intros x xb h1 X1 [Ex Ez]; apply refines_ret; repeat split; auto ]).
  apply refines_bind with (R := Rref). apply refines_new.
  intros e eb h1 X1 Ee. rewrite A2. destruct (or_len rf <? 0). apply refines_exc.
  apply refines_bind with (R := Rref). apply refines_new.
  intros ph phb h2 X2 Ep. rewrite A1. specialize (T (or_id rf)).
  destruct (ct (or_id rf)) as [[fn deps]|], (bct (or_id rf)) as [[bfn bdeps]|]; try contradiction.
  - destruct T as [-> Tf]. apply refines_ret. repeat split; auto.
  - apply refines_exc.
Qed.

Definition Rfcs (h' : heap) (x : list (fid * oref) * list ocentry * oref) (y : list (fid * buf) * list bcentry * buf) : Prop :=
  Rfids h' (fst (fst x)) (fst (fst y)) /\ Forall2 Rce (snd (fst x)) (snd (fst y)) /\ Rref h' (snd x) (snd y).

Lemma refines_decompress_fields_c ct bct : Rtable ct bct -> forall rfs brfs pos s sb h,
  Forall2 (Rrfd h) rfs brfs -> Rref h s sb ->
  refines Rfcs h (h_decompress_fields_c ct pos rfs s h) (bdecompress_fields_c bct pos brfs sb).
Proof.
  intro T. induction rfs as [|rf rfs IH]; intros brfs pos s sb h F Es; inversion F as [|? brf ? brfs' Hr F']; subst;
    cbn [h_decompress_fields_c bdecompress_fields_c].
  - apply refines_ret. repeat split; cbn [fst snd]; auto; constructor.
  - apply refines_bind with (R := Rfc). now apply refines_decompress_field_c.
    intros [[v rb] ce] [[vb rbb] ceb] h1 X1 (Ev & Ez & Ec). cbn [fst snd] in *. subst rbb.
    apply refines_bind with (R := Rref). apply refines_getitem; mono.
    intros s' sb' h2 X2 Es'. apply refines_bind with (R := Rfcs). apply IH; mono.
    intros [[fs ces] s''] [[bfs bces] sb''] h3 X3 (Rf & Rc & Rs). cbn [fst snd] in *.
    apply refines_ret. repeat split; cbn [fst snd]; auto.
    + constructor; auto. split; cbn [fst snd]. symmetry; apply Hr. mono.
    + apply Forall2_app; auto. destruct ce, ceb; simpl in Ec; try contradiction; constructor; auto.
Qed.

Lemma refines_run_computes : forall ces bces fields bfields h, Forall2 Rce ces bces -> Rfids h fields bfields ->
  refines Rfids h (h_run_computes ces fields h) (brun_computes bces bfields).
Proof.
  induction ces as [|e ces IH]; intros bces fields bfields h F Rf; inversion F as [|? be ? bces' He F']; subst;
    cbn [h_run_computes brun_computes].
  - apply refines_ret. exact Rf.
  - destruct He as (P1 & P2 & P3 & P4). rewrite <- P1.
    apply refines_bind with (R := Rref). now apply P4.
    intros v vb h1 X1 Ev. apply IH; auto. rewrite <- P2.
    apply Forall2_list_set. eapply Rfids_mono; eauto. split; auto.
Qed.

Lemma oce_lt_rel a b a' b' : Rce a a' -> Rce b b' -> oce_lt a b = bce_lt a' b'.
Proof.
  intros (P1 & P2 & P3 & _) (Q1 & Q2 & Q3 & _). unfold oce_lt, bce_lt, oce_cmp, bce_cmp.
  now rewrite P1, P2, P3, Q1, Q2, Q3.
Qed.

Lemma refines_decompress_ct ct bct : Rtable ct bct -> Rdecompress (h_decompress_ct ct) (bdecompress_ct bct).
Proof.
  intros T s r d sb br h Es (R1 & R2 & RF). unfold h_decompress_ct, bdecompress_ct.
  rewrite (hbind_getR _ _ _ _ R1).
  apply refines_bind with (R := Rref). now apply refines_getitem.
  intros s1 s1b h1 X1 E1. apply refines_bind with (R := Rfcs).
  { apply refines_decompress_fields_c; auto. apply Rselect_fds. mono. }
  intros [[fs ces] rest] [[bfs bces] restb] h2 X2 (Rf & Rc & Rs). cbn [fst snd] in *. cbv zeta.
  pose proof (py_sort_rel Rce oce_lt bce_lt oce_lt_rel ces bces Rc) as Hs. unfold py_sort_bces.
  destruct (py_sort oce_lt ces) as [ces'|], (py_sort bce_lt bces) as [bces'|]; simpl in Hs; try contradiction.
  2: apply refines_exc.
  apply refines_bind with (R := Rfids).
  { apply refines_run_computes; auto. unfold Rfids. apply Forall2_app. exact Rf.
    apply Forall2_cons. split; [ reflexivity | exact Rs ]. apply Forall2_nil. }
  intros fs' bfs' h3 X3 Rf'. apply refines_bind with (R := Rref). apply refines_new.
  intros e eb h4 X4 Ee. apply refines_add_all; auto.
  apply (Rfids_vals h4 fs' bfs'). eapply Rfids_mono; eauto.
Qed.

Lemma Rdecompress_c : Rdecompress h_decompress_c bdecompress_c.
Proof. apply refines_decompress_ct. apply Rtable_compute_functions. Qed.

(* ================================================================================================ *)
(* 4. the theorems: decompress, ContextManager.decompress, SCHC.decompress with the compute stage   *)
(* ================================================================================================ *)

Theorem h_decompress_c_refines s r d h sb br : nth_error h s = Some sb -> deref_rule h r = Some br ->
  match h_decompress_c s r d h with
  | (Ok x, h') => exists v, bdecompress_c sb br d = Ok v /\ nth_error h' x = Some v
  | (Exc e, _) => bdecompress_c sb br d = Exc e
  | (Diverge, _) => bdecompress_c sb br d = Diverge
  end.
Proof. intros Hs Hr. apply (refines_Rref_out h). apply Rdecompress_c; auto. now apply deref_rule_inv. Qed.

Definition h_cm_decompress : list orule -> oref -> option dir -> hm oref := h_cm_decompress_with h_decompress_c.
Definition h_schc_decompress : list octx -> oref -> hm oref := h_schc_decompress_with h_decompress_c.

Lemma pv_decompress_c s r d : pure_val (h_decompress_c s r d).
Proof. apply pure_ref_val. apply pr_decompress_ct. apply compute_functions_pure. Qed.

Theorem h_cm_decompress_c_frame rules s d h res h' : h_cm_decompress rules s d h = (res, h') -> extends h h'.
Proof. apply pv_cm_decompress_with. apply pv_decompress_c. Qed.
Theorem h_schc_decompress_c_frame ctxs packet h res h' : h_schc_decompress ctxs packet h = (res, h') -> extends h h'.
Proof. apply pv_schc_decompress_with. apply pv_decompress_c. Qed.

Theorem h_cm_decompress_c_fresh rules s d h x h' : h_cm_decompress rules s d h = (Ok x, h') -> (length h <= x < length h')%nat.
Proof.
  unfold h_cm_decompress, h_cm_decompress_with. intro H.
  apply hbind_inv in H. destruct H as [(r & h1 & Hr & H) | [(e & _ & E) | (_ & E)]]; try discriminate.
  apply pv_match_schc_packet' in Hr. apply extends_length in Hr.
  apply h_decompress_c_fresh in H. lia.
Qed.
(* SCHC.decompress returns a new object, or THE PACKET OBJECT ITSELF when every context manager raised RuleIDMatchError *)
Theorem h_schc_decompress_c_result packet : forall ctxs h x h', h_schc_decompress ctxs packet h = (Ok x, h') ->
  x = packet \/ (length h <= x < length h')%nat.
Proof.
  unfold h_schc_decompress.
  induction ctxs as [|c cs IH]; intros h x h' H; cbn [h_schc_decompress_with] in H.
  - unfold hret in H. inversion H; subst. now left.
  - destruct (h_cm_decompress_with h_decompress_c (octx_rules c) packet (Some Up) h) as [r h1] eqn:E.
    destruct r as [a|e|].
    + inversion H; subst. right. eapply h_cm_decompress_c_fresh; eauto.
    + pose proof (h_cm_decompress_c_frame _ _ _ _ _ _ E) as X. apply extends_length in X.
      destruct e; try discriminate H; (apply IH in H; destruct H as [-> | L]; [ now left | right; lia ]).
    + discriminate.
Qed.

Theorem h_cm_decompress_c_refines rules s d h brules sb :
  deref_list (deref_rule h) rules = Some brules -> nth_error h s = Some sb ->
  match h_cm_decompress rules s d h with
  | (Ok x, h') => exists v, bcm_decompress brules sb d = Ok v /\ nth_error h' x = Some v
  | (Exc e, _) => bcm_decompress brules sb d = Exc e
  | (Diverge, _) => bcm_decompress brules sb d = Diverge
  end.
Proof.
  intros Hr Hs. apply (refines_Rref_out h). unfold h_cm_decompress, bcm_decompress.
  apply refines_cm_decompress_with; auto. apply Rdecompress_c. now apply Rrules_of_deref.
Qed.

Theorem h_schc_decompress_c_refines ctxs packet h bctxs pb :
  deref_list (deref_ctx h) ctxs = Some bctxs -> nth_error h packet = Some pb ->
  match h_schc_decompress ctxs packet h with
  | (Ok x, h') => exists v, bschc_decompress bctxs pb = Ok v /\ nth_error h' x = Some v
  | (Exc e, _) => bschc_decompress bctxs pb = Exc e
  | (Diverge, _) => bschc_decompress bctxs pb = Diverge
  end.
Proof.
  intros Hc Hp. apply (refines_Rref_out h). unfold h_schc_decompress, bschc_decompress.
  rewrite bschc_decompress_ct_with. apply refines_schc_decompress_with; auto.
  apply Rdecompress_c. now apply Rctxs_of_deref.
Qed.

(* ---- instance: rule 2 of ManagerBytes (UDP length computed) as objects, after the objects of ManagerHeap.mh_heap ---- *)
Definition ch_heap : heap :=
  mh_heap ++
  [ mkbuf [6] 3 LEFT 5;            (* 12 id of rule 2 *)
    mkbuf [18; 52] 16 LEFT 0;      (* 13 target value of the source port *)
    mkbuf [0; 7] 16 LEFT 0;        (* 14 target value of the destination port *)
    mkbuf [] 0 LEFT 0;             (* 15 target value of the length and of the checksum: one object for both *)
    mkbuf [192; 0; 0; 32; 64; 96] 43 RIGHT 5 ].   (* 16 the SCHC packet BEST produces (mex_best_A) *)
Definition ch_rule2 : orule :=
  mkorule 12%nat Compression
    [mkorfd (mkfid P_UDP 0) 16 0 Bi (OTVbuf 13%nat) MO_equal NotSent;
     mkorfd (mkfid P_UDP 1) 16 0 Bi (OTVbuf 14%nat) MO_equal NotSent;
     mkorfd (mkfid P_UDP 2) 16 0 Bi (OTVbuf 15%nat) MO_ignore Compute;
     mkorfd (mkfid P_UDP 3) 16 0 Bi (OTVbuf 15%nat) MO_ignore ValueSent].

Example ch_deref : deref_rule ch_heap ch_rule2 = Some mex_rule2.
Proof. vm_compute. reflexivity. Qed.

(* BEST over [rule 1, rule 2, no compression] picks rule 2 (43 bits); the result is a new object *)
Example ch_compress_best :
  let p := h_cm_compress S_UDP [mh_rule1; ch_rule2; mh_nocomp] 0%nat Up BEST ch_heap in
  match fst p with
  | Ok x => (length ch_heap <= x)%nat /\ firstn (length ch_heap) (snd p) = ch_heap /\
            nth_error (snd p) x = Some (mkbuf [192; 0; 0; 32; 64; 96] 43 RIGHT 5)
  | _ => False
  end.
Proof. vm_compute. repeat split; try reflexivity; lia. Qed.

(* decompress with the compute stage: the UDP length placeholder is replaced in the local list by the computed value *)
Example ch_decompress :
  let p := h_cm_decompress [mh_rule1; ch_rule2; mh_nocomp] 16%nat (Some Up) ch_heap in
  match fst p with
  | Ok x => (length ch_heap <= x)%nat /\ firstn (length ch_heap) (snd p) = ch_heap /\
            nth_error (snd p) x = Some (mkbuf [18; 52; 0; 7; 0; 11; 0; 0; 1; 2; 3] 88 RIGHT 0) /\
            bcm_decompress [mex_rule1; mex_rule2; mex_nocomp] (mkbuf [192; 0; 0; 32; 64; 96] 43 RIGHT 5) (Some Up) =
            Ok (mkbuf [18; 52; 0; 7; 0; 11; 0; 0; 1; 2; 3] 88 RIGHT 0)
  | _ => False
  end.
Proof. vm_compute. repeat split; try reflexivity; lia. Qed.

(* the front end: a packet whose leading bits match no rule id of any context comes back as THE SAME OBJECT *)
Example ch_front_passthrough :
  let p := h_schc_decompress [mkoctx S_UDP [mh_other]] 16%nat ch_heap in
  fst p = Ok 16%nat /\ firstn (length ch_heap) (snd p) = ch_heap.
Proof. vm_compute. split; reflexivity. Qed.

(* reduce(+) over a one-element list hands on the element itself: the last entry alone gives udp_length its own
   object as `udp_header_and_payload` (only its length is read) *)
Example ch_reduce_single : h_reduce_add [3%nat] ch_heap = (Ok 3%nat, ch_heap).
Proof. reflexivity. Qed.
