(* ComputeRefine.v -- the byte-level compute functions and the byte-level decompressor with its compute
   stage (ComputeBytes.v, written with the Buffer operations) refine the bit-level ones (Compute.v,
   Schc.decompress) through abs: on canonical buffers they return exactly the bit-level outcome -- the
   same exception, or a canonical buffer that denotes the bit-level value.  With SchcRefine (compressor),
   ParserRefine (parsers), SchcRoundtrip / StackRoundtrip (bit-level round trips with computed fields)
   this gives the byte-level end-to-end round trip for rules with compute actions. *)
From Coq Require Import ZArith List Bool Lia.
From MS Require Import PySort PyBase Buffer Bits ByteFacts BufferAbs BufNew BufMisc BufferSpec Schc SchcBytes SchcRefine
  Crc32cTable Compute ComputeBytes Parsers ParserBytes ParserRefine SchcSpec SchcRoundtrip StackRoundtrip EndToEnd.
Import ListNotations.
Open Scope Z_scope.

(* ---- the refinement relations ------------------------------------------------------------------- *)
(* the bit-level field list denoted by a byte-level one *)
Definition absf (bfs : list (fid * buf)) : list (fid * bits) := map (fun p => (fst p, abs (snd p))) bfs.
Definition canonf (bfs : list (fid * buf)) : Prop := Forall (fun p => canon (snd p)) bfs.
Definition bval_rel (x : buf) (v : bits) : Prop := canon x /\ abs x = v.
(* same outcome: Ok x / Ok v with bval_rel x v, or the same exception (ParserRefine.same_outcome) *)
Definition fn_refines (bf : bcompute_fn) (f : compute_fn) : Prop :=
  forall bfs pos, canonf bfs -> same_outcome bval_rel (bf bfs pos) (f (absf bfs) pos).

(* reading same_outcome as the two implications *)
Lemma same_outcome_ok {A B} (R : A -> B -> Prop) x y v : same_outcome R x y -> y = Ok v -> exists a, x = Ok a /\ R a v.
Proof. intros H ->. destruct x as [a| |]; cbn [same_outcome] in H; try contradiction. exists a. auto. Qed.
Lemma same_outcome_exc {A B} (R : A -> B -> Prop) x y e : same_outcome R x y -> y = Exc e -> x = Exc e.
Proof. intros H ->. destruct x as [a|e'|]; cbn [same_outcome] in H; try contradiction. now subst. Qed.

(* ---- lists --------------------------------------------------------------------------------------- *)
Lemma vals_absf bfs : vals (absf bfs) = map abs (bvals bfs).
Proof. unfold vals, absf, bvals. now rewrite !map_map. Qed.
Lemma ids_absf bfs : ids (absf bfs) = bids bfs.
Proof. unfold ids, absf, bids. now rewrite map_map. Qed.
Lemma canon_bvals bfs : canonf bfs -> Forall canon (bvals bfs).
Proof. intros H. unfold bvals. apply Forall_map. exact H. Qed.

Lemma py_slice_map {A B} (f : A -> B) l a b : py_slice (map f l) a b = map f (py_slice l a b).
Proof.
  unfold py_slice. rewrite zlen_map. destruct (slice_indices (zlen l) a b) as [s e].
  now rewrite skipn_map, firstn_map.
Qed.

Lemma Forall_firstn' {A} (P : A -> Prop) n l : Forall P l -> Forall P (firstn n l).
Proof. intros H. rewrite <- (firstn_skipn n l) in H. apply Forall_app in H. tauto. Qed.
Lemma Forall_skipn' {A} (P : A -> Prop) n l : Forall P l -> Forall P (skipn n l).
Proof. intros H. rewrite <- (firstn_skipn n l) in H. apply Forall_app in H. tauto. Qed.
Lemma Forall_py_slice {A} (P : A -> Prop) l a b : Forall P l -> Forall P (py_slice l a b).
Proof.
  intros H. unfold py_slice. destruct (slice_indices (zlen l) a b) as [s e].
  apply Forall_firstn', Forall_skipn'. exact H.
Qed.

Lemma py_index_map {A B} (f : A -> B) l i : py_index (map f l) i = rmap f (py_index l i).
Proof.
  unfold py_index, rmap. rewrite zlen_map. set (j := if i <? 0 then i + zlen l else i).
  destruct ((j <? 0) || (zlen l <=? j)); [reflexivity|].
  rewrite nth_error_map. destruct (nth_error l (Z.to_nat j)); reflexivity.
Qed.
Lemma py_index_In {A} (l : list A) i x : py_index l i = Ok x -> In x l.
Proof.
  unfold py_index. set (j := if i <? 0 then i + zlen l else i).
  destruct ((j <? 0) || (zlen l <=? j)); [discriminate|].
  destruct (nth_error l (Z.to_nat j)) eqn:E; [|discriminate]. intros [= <-]. eapply nth_error_In. exact E.
Qed.

Lemma list_set_absf bfs n i x : list_set (absf bfs) n (i, abs x) = absf (list_set bfs n (i, x)).
Proof.
  revert n. induction bfs as [|p bfs IH]; intros n; [reflexivity|].
  destruct n as [|n]; cbn [absf map list_set fst snd]; [reflexivity|]. f_equal. apply IH.
Qed.
Lemma list_set_canonf bfs n i x : canonf bfs -> canon x -> canonf (list_set bfs n (i, x)).
Proof.
  intros H Hx. revert n. induction H as [|p bfs Hp H IH]; intros n; [constructor|].
  destruct n as [|n]; cbn [list_set].
  - constructor; [exact Hx|exact H].
  - constructor; [exact Hp|apply IH].
Qed.

(* ---- small Buffer facts -------------------------------------------------------------------------- *)
(* Buffer(content=b'', length=0) *)
Lemma empty_left : exists e, b_new [] 0 LEFT = Ok e /\ canon e /\ abs e = [].
Proof.
  destruct (new_left_bits [] 0 bytes_ok_nil ltac:(lia)) as (e & E & C & _ & _ & A).
  exists e. split; [exact E|]. split; [exact C|]. rewrite A. reflexivity.
Qed.

Lemma blen_bytes_abs x : canon x -> blen_bytes x = byte_len (abs x).
Proof. intros H. unfold blen_bytes, byte_len. cbv zeta. now rewrite zlen_abs by exact H. Qed.

(* n.to_bytes(k, 'big') *)
Lemma zlen_bytes_of k n : zlen (bytes_of k n) = Z.of_nat k.
Proof. unfold zlen. induction k as [|k IH]; [reflexivity|]. cbn [bytes_of length]. lia. Qed.
Lemma bytes_ok_bytes_of k n : bytes_ok (bytes_of k n).
Proof.
  induction k as [|k IH]; [apply bytes_ok_nil|]. cbn [bytes_of]. apply bytes_ok_cons. split; [|exact IH].
  apply Z.mod_pos_bound. lia.
Qed.
Lemma val_bytes_of k n : val (bytes_of k n) = n mod 256 ^ Z.of_nat k.
Proof.
  induction k as [|k IH]; [cbn [bytes_of val]; now rewrite Z.mod_1_r|].
  cbn [bytes_of]. rewrite val_cons, zlen_bytes_of, IH.
  rewrite Nat2Z.inj_succ, Z.pow_succ_r by lia. set (P := 256 ^ Z.of_nat k).
  assert (0 < P) by (apply Z.pow_pos_nonneg; lia).
  rewrite (Z.mul_comm 256 P), Z.rem_mul_r by lia. lia.
Qed.

Lemma buint_refines k kb n : kb = (8 * k)%nat -> same_outcome bval_rel (buint k n) (uint_bits kb n).
Proof.
  intros ->. unfold buint, to_bytes, uint_bits.
  assert (256 ^ Z.of_nat k = 2 ^ Z.of_nat (8 * k)) as HP by (rewrite pow2_8 by lia; f_equal; lia).
  rewrite <- HP. destruct (Z.leb_spec 0 n) as [H0|H0]; cbn [andb]; [|reflexivity].
  destruct (Z.ltb_spec n (256 ^ Z.of_nat k)) as [H1|H1]; [|reflexivity]. cbn [bind].
  destruct (new_left_bits (bytes_of k n) (8 * Z.of_nat k) (bytes_ok_bytes_of k n) ltac:(lia)) as (r & E & C & _ & _ & A).
  rewrite E. cbn [same_outcome]. split; [exact C|]. rewrite A, val_bytes_of, Z.mod_small by lia.
  f_equal. lia.
Qed.

(* the length fields: Buffer(content=(byte length of x).to_bytes(2, 'big'), length=16) *)
Lemma blength_refines x v : bval_rel x v -> same_outcome bval_rel (buint 2 (blen_bytes x)) (uint_bits 16 (byte_len v)).
Proof. intros [C <-]. rewrite blen_bytes_abs by exact C. apply buint_refines. reflexivity. Qed.

(* reduce(lambda x, y: x + y, l) *)
Lemma breduce_refines l : Forall canon l -> same_outcome bval_rel (breduce_add l) (reduce_concat (map abs l)).
Proof.
  intros H. destruct H as [|x l Hx Hl]; [reflexivity|]. cbn [breduce_add map reduce_concat].
  destruct (badd_all_bits l Hl x Hx) as (y & E & C & A). rewrite E. cbn [same_outcome]. split; [exact C|]. exact A.
Qed.

(* reduce(lambda x, y: x + y, l, Buffer(content=b'', length=0)) *)
Lemma breduce_init_refines l : Forall canon l ->
  exists y, (do e <- b_new [] 0 LEFT ;; badd_all e l) = Ok y /\ canon y /\ abs y = concat (map abs l).
Proof.
  intros H. destruct empty_left as (e & Ee & Ce & Ae). rewrite Ee. cbn [bind].
  destruct (badd_all_bits l H e Ce) as (y & E & C & A). exists y. split; [exact E|]. split; [exact C|].
  rewrite A, Ae. reflexivity.
Qed.

(* the one's complement sums and the CRC loop *)
Lemma bones_sum_refines cs : Forall canon cs -> forall s, bones_sum cs s = Ok (fold_left ones_add (map abs cs) s).
Proof.
  induction 1 as [|c cs Hc H IH]; intros s; [reflexivity|]. cbn [bones_sum map fold_left].
  rewrite (value_bits c Hc). cbn [bind]. rewrite IH. reflexivity.
Qed.

Lemma bcrc_loop_refines cs : Forall canon cs -> forall crc, bcrc_loop cs crc = Ok (fold_left crc_step (map abs cs) crc).
Proof.
  induction 1 as [|c cs Hc H IH]; intros crc; [reflexivity|]. cbn [bcrc_loop map fold_left].
  rewrite (value_bits c Hc). cbn [bind]. rewrite IH. reflexivity.
Qed.

Lemma chunks_nonempty n p l : chunks n p l <> [].
Proof. unfold chunks. rewrite chunks_fuel_S. destruct (length l <=? n)%nat; discriminate. Qed.

(* ---- (a) the compute functions ------------------------------------------------------------------- *)
Theorem bipv6_payload_length_refines : fn_refines bipv6_payload_length ipv6_payload_length.
Proof.
  intros bfs pos Hc. unfold bipv6_payload_length, ipv6_payload_length. rewrite vals_absf, py_slice_map.
  destruct (breduce_init_refines _ (Forall_py_slice _ _ (Some (pos + 5)) None (canon_bvals bfs Hc))) as (y & E & C & A).
  cbn [bind] in E |- *. destruct (b_new [] 0 LEFT) as [e| |]; try discriminate E. cbn [bind] in E |- *. rewrite E. cbn [bind].
  apply blength_refines. split; assumption.
Qed.

Theorem bipv4_total_length_refines : fn_refines bipv4_total_length ipv4_total_length.
Proof.
  intros bfs pos Hc. unfold bipv4_total_length, ipv4_total_length. rewrite vals_absf, py_slice_map.
  destruct (breduce_init_refines _ (Forall_py_slice _ _ (Some (pos - 2)) None (canon_bvals bfs Hc))) as (y & E & C & A).
  cbn [bind] in E |- *. destruct (b_new [] 0 LEFT) as [e| |]; try discriminate E. cbn [bind] in E |- *. rewrite E. cbn [bind].
  apply blength_refines. split; assumption.
Qed.

Theorem budp_length_refines : fn_refines budp_length udp_length.
Proof.
  intros bfs pos Hc. unfold budp_length, udp_length. rewrite vals_absf, py_slice_map.
  apply same_outcome_bind with (R := bval_rel).
  - apply breduce_refines. apply Forall_py_slice, canon_bvals, Hc.
  - intros x v Hxv. apply blength_refines. exact Hxv.
Qed.

(* chunks + one's complement sum of a canonical buffer *)
Lemma bsum16_refines x p : canon x ->
  exists cs, b_chunks x 16 p = Ok cs /\ bones_sum cs 0 = Ok (ones_sum (chunks 16 p (abs x))).
Proof.
  intros C. destruct (chunks_bits x 16 p C ltac:(lia)) as (cs & E & F & A). exists cs. split; [exact E|].
  rewrite (bones_sum_refines cs F). unfold ones_sum. rewrite A. reflexivity.
Qed.

Theorem bipv4_checksum_refines : fn_refines bipv4_checksum ipv4_checksum.
Proof.
  intros bfs pos Hc. unfold bipv4_checksum, ipv4_checksum. cbv zeta. rewrite vals_absf, py_slice_map.
  rewrite <- (py_slice_map snd bfs). fold (bvals bfs).
  destruct (breduce_init_refines _ (Forall_py_slice _ _ (Some (pos - 9)) (Some (pos + 3)) (canon_bvals bfs Hc))) as (y & E & C & A).
  cbn [bind] in E |- *. destruct (b_new [] 0 LEFT) as [e| |]; try discriminate E. cbn [bind] in E |- *. rewrite E. cbn [bind].
  destruct (bsum16_refines y false C) as (cs & Ec & Es). rewrite Ec. cbn [bind]. rewrite Es. cbn [bind].
  rewrite A. apply buint_refines. reflexivity.
Qed.

Ltac so_triv := cbn [bind same_outcome]; try reflexivity; try exact I.

(* constant buffers Buffer(content=c, length=L) *)
Lemma const_left c L v : bytes_ok c -> 0 <= L -> bits_of (Z.to_nat L) (val c) = v ->
  exists r, b_new c L LEFT = Ok r /\ canon r /\ abs r = v.
Proof.
  intros Hc HL <-. destruct (new_left_bits c L Hc HL) as (r & E & C & _ & _ & A). exists r. auto.
Qed.

Lemma canon_py_index bfs i x : canonf bfs -> py_index (bvals bfs) i = Ok x -> canon x.
Proof.
  intros Hc E. apply py_index_In in E. pose proof (canon_bvals bfs Hc) as F.
  rewrite Forall_forall in F. apply F. exact E.
Qed.

Theorem budp_checksum_refines : fn_refines budp_checksum udp_checksum.
Proof.
  intros bfs pos Hc. unfold budp_checksum, udp_checksum. cbv zeta. rewrite ids_absf, vals_absf.
  destruct (py_index (bids bfs) (pos - 4)) as [last_id|e|]; so_triv.
  rewrite py_slice_map.
  apply same_outcome_bind with (R := bval_rel); [apply breduce_refines, Forall_py_slice, canon_bvals, Hc|].
  intros hp hpv [Chp Ahp].
  destruct (pos - 4 <? 0); so_triv.
  rewrite (blen_bytes_abs hp Chp), Ahp.
  apply same_outcome_bind with (R := bval_rel).
  - destruct (fproto last_id); so_triv.
    + (* IPv4 pseudo header *)
      destruct (find_index (fid_eqb IPV4_SRC_ADDRESS) _ 0) as [off|]; so_triv.
      rewrite !py_index_map. unfold rmap.
      destruct (py_index (bvals bfs) (pos - 4 - off)) as [src|e|] eqn:Es; so_triv.
      destruct (py_index (bvals bfs) (pos - 4 - off + 1)) as [dst|e|] eqn:Ed; so_triv.
      pose proof (canon_py_index _ _ _ Hc Es) as Cs. pose proof (canon_py_index _ _ _ Hc Ed) as Cd.
      destruct (const_left [0] 8 (repeat false 8)) as (z & Ez & Cz & Az);
        [repeat constructor; lia|lia|reflexivity|]. rewrite Ez. cbn [bind].
      destruct (const_left [17] 8 (bits_of 8 17)) as (pr & Ep & Cp & Ap);
        [repeat constructor; lia|lia|reflexivity|]. rewrite Ep. cbn [bind].
      apply same_outcome_bind with (R := bval_rel); [apply buint_refines; reflexivity|].
      intros l16 l16v [Cl Al].
      destruct (add_bits src dst Cs Cd) as (p1 & E1 & C1 & _ & A1). rewrite E1. cbn [bind].
      destruct (add_bits p1 z C1 Cz) as (p2 & E2 & C2 & _ & A2). rewrite E2. cbn [bind].
      destruct (add_bits p2 pr C2 Cp) as (p3 & E3 & C3 & _ & A3). rewrite E3. cbn [bind].
      destruct (add_bits p3 l16 C3 Cl) as (p4 & E4 & C4 & _ & A4). rewrite E4. cbn [same_outcome].
      split; [exact C4|]. rewrite A4, A3, A2, A1, Az, Ap, Al. now rewrite <- !app_assoc.
    + (* IPv6 pseudo header *)
      destruct (find_index (fid_eqb IPV6_SRC_ADDRESS) _ 0) as [off|]; so_triv.
      rewrite !py_index_map. unfold rmap.
      destruct (py_index (bvals bfs) (pos - 4 - off)) as [src|e|] eqn:Es; so_triv.
      destruct (py_index (bvals bfs) (pos - 4 - off + 1)) as [dst|e|] eqn:Ed; so_triv.
      pose proof (canon_py_index _ _ _ Hc Es) as Cs. pose proof (canon_py_index _ _ _ Hc Ed) as Cd.
      apply same_outcome_bind with (R := bval_rel); [apply buint_refines; reflexivity|].
      intros l32 l32v [Cl Al].
      destruct (const_left [0; 0; 0] 24 (repeat false 24)) as (z & Ez & Cz & Az);
        [repeat constructor; lia|lia|reflexivity|]. rewrite Ez. cbn [bind].
      destruct (const_left [17] 8 (bits_of 8 17)) as (nh & En & Cn & An);
        [repeat constructor; lia|lia|reflexivity|]. rewrite En. cbn [bind].
      destruct (add_bits src dst Cs Cd) as (p1 & E1 & C1 & _ & A1). rewrite E1. cbn [bind].
      destruct (add_bits p1 l32 C1 Cl) as (p2 & E2 & C2 & _ & A2). rewrite E2. cbn [bind].
      destruct (add_bits p2 z C2 Cz) as (p3 & E3 & C3 & _ & A3). rewrite E3. cbn [bind].
      destruct (add_bits p3 nh C3 Cn) as (p4 & E4 & C4 & _ & A4). rewrite E4. cbn [same_outcome].
      split; [exact C4|]. rewrite A4, A3, A2, A1, Az, An, Al. now rewrite <- !app_assoc.
  - intros ps psv [Cps Aps].
    destruct (bsum16_refines ps false Cps) as (cs1 & E1 & S1). rewrite E1. cbn [bind]. rewrite S1. cbn [bind].
    destruct (bsum16_refines hp true Chp) as (cs2 & E2 & S2). rewrite E2. cbn [bind]. rewrite S2. cbn [bind].
    rewrite Aps, Ahp. apply buint_refines. reflexivity.
Qed.

(* crypto/crc.py crc32c: the 32-bit register as a Buffer *)
Lemma bcrc32c_refines b init : canon b -> same_outcome bval_rel (bcrc32c b init) (uint_bits 32 (crc32c (abs b) init)).
Proof.
  intros C. unfold bcrc32c, crc32c.
  destruct (chunks_bits b 8 true C ltac:(lia)) as (cs & E & F & A). rewrite E. cbn [bind].
  rewrite (bcrc_loop_refines cs F). cbn [bind]. rewrite A. apply buint_refines. reflexivity.
Qed.

Theorem bsctp_checksum_refines : fn_refines bsctp_checksum sctp_checksum.
Proof.
  intros bfs pos Hc. unfold bsctp_checksum, sctp_checksum. cbv zeta. rewrite vals_absf, py_slice_map.
  apply same_outcome_bind with (R := bval_rel); [apply breduce_refines, Forall_py_slice, canon_bvals, Hc|].
  intros b bv [Cb <-].
  apply same_outcome_bind with (R := bval_rel); [apply bcrc32c_refines; exact Cb|].
  intros ck cb [Cck <-].
  destruct (invert_bits ck Cck) as (inv & Ei & Ci & _ & Ai). rewrite Ei. cbn [bind].
  destruct (chunks_bits inv 8 false Ci ltac:(lia)) as (cs & Ec & Fc & Ac). rewrite Ec. cbn [bind].
  pose proof (breduce_refines (rev cs) (Forall_rev Fc)) as H.
  rewrite map_rev, Ac, Ai in H. change (Z.to_nat 8) with 8%nat in H.
  destruct (rev (chunks 8 false (map negb (abs ck)))) as [|c0 r0] eqn:Er.
  - exfalso. apply (f_equal (@rev bits)) in Er. rewrite rev_involutive in Er. cbn [rev] in Er.
    exact (chunks_nonempty _ _ _ Er).
  - exact H.
Qed.

(* the registry protocol/__init__.py ComputeFunctions *)
Definition table_refines (bct : bcompute_table) (ct : compute_table) : Prop :=
  forall f, match bct f, ct f with
            | Some (bf, bd), Some (g, d) => bd = d /\ fn_refines bf g
            | None, None => True
            | _, _ => False
            end.

Theorem bcompute_functions_refines : table_refines bcompute_functions compute_functions.
Proof.
  intros f. unfold bcompute_functions, compute_functions.
  destruct (fid_eqb f IPV4_TOTAL_LENGTH); [split; [reflexivity|exact bipv4_total_length_refines]|].
  destruct (fid_eqb f IPV4_HEADER_CHECKSUM); [split; [reflexivity|exact bipv4_checksum_refines]|].
  destruct (fid_eqb f IPV6_PAYLOAD_LENGTH); [split; [reflexivity|exact bipv6_payload_length_refines]|].
  destruct (fid_eqb f UDP_LENGTH); [split; [reflexivity|exact budp_length_refines]|].
  destruct (fid_eqb f UDP_CHECKSUM); [split; [reflexivity|exact budp_checksum_refines]|].
  destruct (fid_eqb f SCTP_CHECKSUM); [split; [reflexivity|exact bsctp_checksum_refines]|].
  exact I.
Qed.

(* ---- (b) the decompressor with its compute stage --------------------------------------------------- *)
Definition centry_rel (be : bcentry) (e : centry) : Prop :=
  bce_pos be = ce_pos e /\ bce_id be = ce_id e /\ bce_deps be = ce_deps e /\ fn_refines (bce_fn be) (ce_fn e).
Definition ocentry_rel (a : option bcentry) (b : option centry) : Prop :=
  match a, b with Some x, Some y => centry_rel x y | None, None => True | _, _ => False end.
Definition dfield_rel (x : buf * Z * option bcentry) (y : bits * Z * option centry) : Prop :=
  canon (fst (fst x)) /\ abs (fst (fst x)) = fst (fst y) /\ snd (fst x) = snd (fst y) /\ ocentry_rel (snd x) (snd y).
Definition dfields_rel (x : list (fid * buf) * list bcentry * buf) (y : list (fid * bits) * list centry * bits) : Prop :=
  canonf (fst (fst x)) /\ absf (fst (fst x)) = fst (fst y) /\ Forall2 centry_rel (snd (fst x)) (snd (fst y)) /\
  canon (snd x) /\ abs (snd x) = snd y.

(* the non-compute actions never diverge and raise the same exceptions at both levels
   (the Ok case is SchcRefine.bdecompress_field_refines) *)
Lemma bdecompress_field_exc ct pos rf s : canon s -> canon_rfd rf ->
  match br_cda rf with Compute => false | _ => true end = true ->
  match decompress_field ct pos (abs_rfd abs rf) (abs s) with
  | Ok _ => True
  | Exc e => bdecompress_field rf s = Exc e
  | Diverge => False
  end.
Proof.
  intros Hs Hrf Hnc. unfold decompress_field, bdecompress_field, canon_rfd in *. cbn [abs_rfd r_cda r_tv r_len r_id].
  destruct empty_buf as (e & Ee & Ce & Ae). rewrite Ee. cbn [bind].
  destruct (br_cda rf); try discriminate Hnc; destruct (br_tv rf) as [t|fw]; cbn [abs_tv]; try exact I; try reflexivity.
  - destruct (negb (br_len rf =? 0)); [exact I|]. destruct (decode_var (abs s)); exact I.
  - destruct (reverse_lookup _ (abs s)) as [[k v]|]; exact I.
  - destruct (negb (br_len rf =? 0)); [exact I|]. destruct (decode_var (abs s)); exact I.
Qed.

Lemma bdecompress_field_c_refines bct ct pos rf s : table_refines bct ct -> canon s -> canon_rfd rf ->
  same_outcome dfield_rel (bdecompress_field_c bct pos rf s) (decompress_field ct pos (abs_rfd abs rf) (abs s)).
Proof.
  intros HT Hs Hrf.
  assert (match br_cda rf with Compute => false | _ => true end = true ->
          same_outcome dfield_rel (do x <- bdecompress_field rf s ;; Ok (fst x, snd x, None))
                                  (decompress_field ct pos (abs_rfd abs rf) (abs s))) as Hplain.
  { intros Hnc. pose proof (bdecompress_field_exc ct pos rf s Hs Hrf Hnc) as Hx.
    destruct (decompress_field ct pos (abs_rfd abs rf) (abs s)) as [[[v rb] ce]|e|] eqn:E.
    - destruct (bdecompress_field_refines ct pos rf s v rb ce Hs Hrf Hnc E) as (f & Ef & Cf & Af & ->).
      rewrite Ef. cbn [bind same_outcome fst snd]. unfold dfield_rel. cbn [fst snd ocentry_rel]. auto.
    - rewrite Hx. so_triv.
    - contradiction. }
  unfold bdecompress_field_c. destruct (br_cda rf) eqn:Hcda; try (apply Hplain; reflexivity).
  clear Hplain. unfold decompress_field. cbn [abs_rfd r_cda r_len r_id]. rewrite Hcda.
  destruct empty_buf as (e & Ee & Ce & Ae). rewrite Ee. cbn [bind].
  destruct (Z.ltb_spec (br_len rf) 0) as [Hl|Hl]; so_triv.
  destruct (const_left (zeros (1 + br_len rf / 8)) (br_len rf) (repeat false (Z.to_nat (br_len rf))))
    as (ph & Ep & Cp & Ap); [apply bytes_ok_zeros|exact Hl|rewrite val_zeros; apply bits_of_zero|].
  rewrite Ep. cbn [bind]. specialize (HT (br_id rf)).
  destruct (bct (br_id rf)) as [[bf bd]|], (ct (br_id rf)) as [[g d]|]; try contradiction; so_triv.
  destruct HT as [-> Hf]. unfold dfield_rel. cbn [fst snd ocentry_rel].
  split; [exact Cp|]. split; [exact Ap|]. split; [reflexivity|]. unfold centry_rel. cbn [bce_pos bce_id bce_deps bce_fn ce_pos ce_id ce_deps ce_fn]. auto.
Qed.

Lemma bdecompress_fields_c_refines bct ct rfs : table_refines bct ct -> forall pos s, canon s -> Forall canon_rfd rfs ->
  same_outcome dfields_rel (bdecompress_fields_c bct pos rfs s) (decompress_fields ct pos (map (abs_rfd abs) rfs) (abs s)).
Proof.
  intros HT. induction rfs as [|rf rfs IH]; intros pos s Hs Hr; cbn [map bdecompress_fields_c decompress_fields].
  - cbn [same_outcome]. unfold dfields_rel. cbn [fst snd]. repeat split; try constructor; destruct Hs; tauto.
  - inversion Hr as [|? ? Hrf Hr']; subst.
    apply same_outcome_bind with (R := dfield_rel); [apply bdecompress_field_c_refines; assumption|].
    intros [[f rb] oce] [[v rb'] oce'] (Cf & Af & Erb & Ho). cbn [fst snd] in *. subst rb' v.
    destruct (getitem_slice s (Some rb) None Hs (ordered_from _ _ (canon_nonneg s Hs))) as (s1 & E1 & C1 & _ & A1).
    rewrite E1. cbn [bind]. rewrite <- A1.
    apply same_outcome_bind with (R := dfields_rel); [apply IH; assumption|].
    intros [[bfs bces] bs] [[fs ces] s'] (Cfs & Afs & Hces & Cbs & Abs). cbn [fst snd] in *. subst fs s'.
    cbn [same_outcome]. unfold dfields_rel. cbn [fst snd abs_rfd r_id].
    split; [constructor; [exact Cf|exact Cfs]|]. split; [reflexivity|]. split; [|split; [exact Cbs|reflexivity]].
    apply Forall2_app; [|exact Hces].
    destruct oce as [be|], oce' as [e|]; cbn [ocentry_rel] in Ho; try contradiction; constructor; [exact Ho|constructor].
Qed.

Lemma bce_cmp_rel b1 e1 b2 e2 : centry_rel b1 e1 -> centry_rel b2 e2 -> bce_cmp b1 b2 = ce_cmp e1 e2.
Proof. intros (P1 & I1 & D1 & _) (P2 & I2 & D2 & _). unfold bce_cmp, ce_cmp. now rewrite P1, I1, D1, P2, I2, D2. Qed.

Lemma bce_sorted_rel bces ces : Forall2 centry_rel bces ces -> bce_sorted bces = ce_sorted ces.
Proof.
  induction 1 as [|b1 e1 bl el H1 H IH]; [reflexivity|].
  destruct H as [|b2 e2 bl' el' H2 H']; [reflexivity|].
  change (bce_sorted (b1 :: b2 :: bl')) with (negb (bce_cmp b2 b1 <? 0) && bce_sorted (b2 :: bl')).
  change (ce_sorted (e1 :: e2 :: el')) with (negb (ce_cmp e2 e1 <? 0) && ce_sorted (e2 :: el')).
  now rewrite IH, (bce_cmp_rel _ _ _ _ H2 H1).
Qed.

(* list.sort makes the same moves on both entry lists *)
Lemma bce_lt_rel b1 e1 b2 e2 : centry_rel b1 e1 -> centry_rel b2 e2 -> bce_lt b1 b2 = ce_lt e1 e2.
Proof. intros H1 H2. unfold bce_lt, ce_lt. now rewrite (bce_cmp_rel _ _ _ _ H1 H2). Qed.

Lemma py_sort_bces_rel bces ces : Forall2 centry_rel bces ces ->
  opt_rel (Forall2 centry_rel) (py_sort_bces bces) (py_sort_ces ces).
Proof. apply py_sort_rel. intros a b a' b'. apply bce_lt_rel. Qed.

Definition cfields_rel (x : list (fid * buf)) (y : list (fid * bits)) : Prop := canonf x /\ absf x = y.

Lemma brun_computes_refines bces ces : Forall2 centry_rel bces ces -> forall bfs, canonf bfs ->
  same_outcome cfields_rel (brun_computes bces bfs) (run_computes ces (absf bfs)).
Proof.
  induction 1 as [|be e bl el (P & Hi & D & Hf) H IH]; intros bfs Hc; cbn [brun_computes run_computes].
  - cbn [same_outcome]. split; [exact Hc|reflexivity].
  - rewrite <- P, <- Hi. apply same_outcome_bind with (R := bval_rel); [apply Hf; exact Hc|].
    intros x v [Cx <-]. rewrite list_set_absf. apply IH. apply list_set_canonf; assumption.
Qed.

(* for every pair of compute tables related by table_refines *)
Theorem bdecompress_ct_refines bct ct s r d : table_refines bct ct -> canon s -> canon_rule r ->
  same_outcome bval_rel (bdecompress_ct bct s r d) (decompress ct (abs s) (abs_rule abs r) d).
Proof.
  intros HT Hs [Hid Hfds]. unfold decompress, bdecompress_ct. cbv zeta.
  cbn [abs_rule rule_id rule_fds]. rewrite zlen_abs by assumption. rewrite select_fds_abs.
  destruct (getitem_slice s (Some (blen (brule_id r))) None Hs (ordered_from _ _ (canon_nonneg s Hs))) as (s1 & E1 & C1 & _ & A1).
  rewrite E1. cbn [bind]. rewrite <- A1.
  apply same_outcome_bind with (R := dfields_rel);
    [apply bdecompress_fields_c_refines; [exact HT|exact C1|apply bselect_fds_canon; exact Hfds]|].
  intros [[bfs bces] bs] [[fs ces] s'] (Cfs & Afs & Hces & Cbs & Abs). cbn [fst snd] in *. subst fs s'.
  pose proof (py_sort_bces_rel _ _ Hces) as Hsort.
  destruct (py_sort_bces bces) as [bces'|], (py_sort_ces ces) as [ces'|]; cbn [opt_rel] in Hsort; try contradiction; so_triv.
  assert (canonf (bfs ++ [(payload_fid, bs)])) as Call by (apply Forall_app; split; [exact Cfs|constructor; [exact Cbs|constructor]]).
  replace (absf bfs ++ [(payload_fid, abs bs)]) with (absf (bfs ++ [(payload_fid, bs)])) by (unfold absf; now rewrite map_app).
  apply same_outcome_bind with (R := cfields_rel); [apply brun_computes_refines; assumption|].
  intros bfs' fs' [Cf' <-].
  destruct empty_buf as (e & Ee & Ce & Ae). rewrite Ee. cbn [bind].
  destruct (badd_all_bits (map snd bfs') (canon_bvals _ Cf') e Ce) as (x & Ex & Cx & Ax). rewrite Ex. cbn [same_outcome].
  split; [exact Cx|]. rewrite Ax, Ae. cbn [app]. unfold absf. now rewrite !map_map.
Qed.

Theorem bdecompress_c_outcome s r d : canon s -> canon_rule r ->
  same_outcome bval_rel (bdecompress_c s r d) (decompress compute_functions (abs s) (abs_rule abs r) d).
Proof. intros Hs Hr. apply bdecompress_ct_refines; [exact bcompute_functions_refines|exact Hs|exact Hr]. Qed.

Theorem bdecompress_c_refines s r d p : canon s -> canon_rule r ->
  decompress compute_functions (abs s) (abs_rule abs r) d = Ok p ->
  exists x, bdecompress_c s r d = Ok x /\ canon x /\ abs x = p.
Proof. intros Hs Hr E. exact (same_outcome_ok _ _ _ _ (bdecompress_c_outcome s r d Hs Hr) E). Qed.

(* every exception of the bit-level decompressor is the exception of the byte-level one (the marker
   Unmodelled included: ComputeBytes puts it at the same places as Schc.v / Compute.v) *)
Theorem bdecompress_c_exc s r d e : canon s -> canon_rule r ->
  decompress compute_functions (abs s) (abs_rule abs r) d = Exc e -> bdecompress_c s r d = Exc e.
Proof. intros Hs Hr E. exact (same_outcome_exc _ _ _ _ (bdecompress_c_outcome s r d Hs Hr) E). Qed.

(* ---- (c) byte-level end-to-end round trips with computed fields ------------------------------------ *)
(* packet bytes --parse--> byte-level descriptor --compress--> SCHC packet --decompress (compute stage
   included)--> packet bytes.  From any bit-level round trip of the denoted descriptor and rule: *)
Lemma bytes_roundtrip_from_bits s b bfs bpl r d :
  canon b -> bside b = LEFT -> canon_rule r -> bfactory s b = Ok (bfs, bpl) ->
  let pd := abs_pdesc abs (mkbpdesc d bfs bpl) in
  let r' := abs_rule abs r in
  (exists s0, compress pd r' (Some d) = Ok s0 /\
              decompress compute_functions s0 r' (Some d) = Ok (concat (map f_val (pd_fields pd)) ++ pd_payload pd)) ->
  exists x y, bcompress (mkbpdesc d bfs bpl) r (Some d) = Ok x /\ canon x /\
              bdecompress_c x r (Some d) = Ok y /\ canon y /\ abs y = abs b /\ b_eq y b = Ok true.
Proof.
  intros Hb Hs Hr E pd r' (s0 & Ec & Ed).
  destruct (bfactory_pdesc s b bfs bpl d Hb Hs E) as (Cpd & Apd).
  pose proof (bfactory_tiles s b bfs bpl Hb Hs E) as T.
  destruct (bcompress_refines _ r (Some d) s0 Cpd Hr Ec) as (x & Ex & Cx & Ax).
  rewrite <- Ax in Ed.
  destruct (bdecompress_c_refines x r (Some d) _ Cx Hr Ed) as (y & Ey & Cy & Ay).
  assert (abs y = abs b) as Ab by (rewrite Ay; subst pd; rewrite Apd; cbn [pd_fields pd_payload]; rewrite map_map; exact T).
  exists x, y. split; [exact Ex|]. split; [exact Cx|]. split; [exact Ey|]. split; [exact Cy|].
  split; [exact Ab|apply b_eq_same_bits; assumption].
Qed.

(* IPv6 / UDP packets whose computable fields carry the RFC values (StackRoundtrip.c01_roundtrip_ipv6_udp) *)
Theorem bytes_roundtrip_ipv6_udp s b bfs bpl r d :
  canon b -> bside b = LEFT -> canon_rule r -> bfactory s b = Ok (bfs, bpl) ->
  let pd := abs_pdesc abs (mkbpdesc d bfs bpl) in
  let r' := abs_rule abs r in
  rule_ok_dec compute_functions d pd r' -> spec_rule_applies pd r' = true ->
  v6_shape (pd_fields pd) -> v6_correct (pd_fields pd) (pd_payload pd) ->
  exists x y, bcompress (mkbpdesc d bfs bpl) r (Some d) = Ok x /\ canon x /\
              bdecompress_c x r (Some d) = Ok y /\ canon y /\ abs y = abs b /\ b_eq y b = Ok true.
Proof.
  intros Hb Hs Hr E pd r' Hok HA HS HC.
  apply (bytes_roundtrip_from_bits s b bfs bpl r d Hb Hs Hr E).
  exact (c01_roundtrip_ipv6_udp d pd r' eq_refl Hok HA HS HC).
Qed.

(* IPv4 / UDP (StackRoundtrip.c01_roundtrip_ipv4_udp) *)
Theorem bytes_roundtrip_ipv4_udp s b bfs bpl r d :
  canon b -> bside b = LEFT -> canon_rule r -> bfactory s b = Ok (bfs, bpl) ->
  let pd := abs_pdesc abs (mkbpdesc d bfs bpl) in
  let r' := abs_rule abs r in
  rule_ok_dec compute_functions d pd r' -> spec_rule_applies pd r' = true ->
  v4_shape (pd_fields pd) -> v4_correct (pd_fields pd) (pd_payload pd) ->
  exists x y, bcompress (mkbpdesc d bfs bpl) r (Some d) = Ok x /\ canon x /\
              bdecompress_c x r (Some d) = Ok y /\ canon y /\ abs y = abs b /\ b_eq y b = Ok true.
Proof.
  intros Hb Hs Hr E pd r' Hok HA HS HC.
  apply (bytes_roundtrip_from_bits s b bfs bpl r d Hb Hs Hr E).
  exact (c01_roundtrip_ipv4_udp d pd r' eq_refl Hok HA HS HC).
Qed.

(* the general statement: whenever the (bit-level) compute stage regenerates the original values
   (SchcRoundtrip.c01_roundtrip).  ADDED premise, as there: fewer than 64 compute entries *)
Theorem bytes_roundtrip_compute s b bfs bpl r d :
  canon b -> bside b = LEFT -> canon_rule r -> bfactory s b = Ok (bfs, bpl) ->
  let pd := abs_pdesc abs (mkbpdesc d bfs bpl) in
  let r' := abs_rule abs r in
  rule_ok_dec compute_functions d pd r' -> spec_rule_applies pd r' = true ->
  let rfs := select_fds (Some d) (rule_fds r') in
  let ids := map r_id rfs in
  ce_sorted (centries_of compute_functions 0 rfs) = true ->
  (length (centries_of compute_functions 0 rfs) < 64)%nat ->
  run_computes (centries_of compute_functions 0 rfs)
               (combine ids (SchcRoundtrip.map2 pre_value rfs (pd_fields pd)) ++ [(payload_fid, pd_payload pd)])
    = Ok (combine ids (map f_val (pd_fields pd)) ++ [(payload_fid, pd_payload pd)]) ->
  exists x y, bcompress (mkbpdesc d bfs bpl) r (Some d) = Ok x /\ canon x /\
              bdecompress_c x r (Some d) = Ok y /\ canon y /\ abs y = abs b /\ b_eq y b = Ok true.
Proof.
  intros Hb Hs Hr E pd r' Hok HA rfs ids HSo Hn HRun.
  apply (bytes_roundtrip_from_bits s b bfs bpl r d Hb Hs Hr E).
  exact (c01_roundtrip compute_functions d pd r' eq_refl Hok HA HSo Hn HRun).
Qed.

(* with the entries in the order list.sort puts them in (SchcRoundtrip.c01_roundtrip_sort) *)
Theorem bytes_roundtrip_compute_sort s b bfs bpl r d ces :
  canon b -> bside b = LEFT -> canon_rule r -> bfactory s b = Ok (bfs, bpl) ->
  let pd := abs_pdesc abs (mkbpdesc d bfs bpl) in
  let r' := abs_rule abs r in
  rule_ok_dec compute_functions d pd r' -> spec_rule_applies pd r' = true ->
  let rfs := select_fds (Some d) (rule_fds r') in
  let ids := map r_id rfs in
  py_sort_ces (centries_of compute_functions 0 rfs) = Some ces ->
  run_computes ces
               (combine ids (SchcRoundtrip.map2 pre_value rfs (pd_fields pd)) ++ [(payload_fid, pd_payload pd)])
    = Ok (combine ids (map f_val (pd_fields pd)) ++ [(payload_fid, pd_payload pd)]) ->
  exists x y, bcompress (mkbpdesc d bfs bpl) r (Some d) = Ok x /\ canon x /\
              bdecompress_c x r (Some d) = Ok y /\ canon y /\ abs y = abs b /\ b_eq y b = Ok true.
Proof.
  intros Hb Hs Hr E pd r' Hok HA rfs ids HSo HRun.
  apply (bytes_roundtrip_from_bits s b bfs bpl r d Hb Hs Hr E).
  exact (c01_roundtrip_sort compute_functions d pd r' ces eq_refl Hok HA HSo HRun).
Qed.

(* ---- (d) non-vacuity: an IPv6 / UDP packet of 51 bytes (40 + 8 header bytes, 3 payload bytes, correct
        UDP checksum 0x73fa) and a rule that sends every field as is except the IPv6 payload length, the
        UDP length and the UDP checksum, which are computed by the decompressor ------------------------- *)
Definition ex6b_packet : buf :=
  mkbuf [96; 0; 0; 0; 0; 11; 17; 64;
         32; 1; 13; 184; 0; 0; 0; 0; 0; 0; 0; 0; 0; 0; 0; 1;
         32; 1; 13; 184; 0; 0; 0; 0; 0; 0; 0; 0; 0; 0; 0; 2;
         22; 51; 22; 52; 0; 11; 115; 250; 1; 2; 3] 408 LEFT 0.
Definition ex6b_rule : brule :=
  mkbrule (mkbuf [2] 2 LEFT 6) Compression
    (map (fun i => mkbrfd (mkfid P_IPv6 i) (if i =? 3 then 16 else 0) 1 Bi (BTVbuf (mkbuf [] 0 LEFT 0)) MO_ignore
                          (if i =? 3 then Compute else ValueSent)) [0; 1; 2; 3; 4; 5; 6; 7]
     ++ map (fun i => mkbrfd (mkfid P_UDP i) 16 1 Bi (BTVbuf (mkbuf [] 0 LEFT 0)) MO_ignore
                          (if i <? 2 then ValueSent else Compute)) [0; 1; 2; 3]).

Example ex6b_packet_canon : canon ex6b_packet.
Proof. unfold ex6b_packet. canon_concrete. Qed.

Example ex6b_rule_canon : canon_rule ex6b_rule.
Proof.
  unfold ex6b_rule. split; cbn [brule_id brule_fds]; [canon_concrete|].
  cbn [map app]. repeat constructor; unfold canon_rfd; cbn [br_tv canon_tv]; canon_concrete.
Qed.

(* bytes_roundtrip_ipv6_udp applies: every hypothesis holds for the example *)
Example bytes_roundtrip_ipv6_udp_ex : exists bfs bpl x y,
  bfactory S_IPv6 ex6b_packet = Ok (bfs, bpl) /\
  bcompress (mkbpdesc Up bfs bpl) ex6b_rule (Some Up) = Ok x /\ canon x /\
  bdecompress_c x ex6b_rule (Some Up) = Ok y /\ canon y /\ abs y = abs ex6b_packet /\ b_eq y ex6b_packet = Ok true.
Proof.
  destruct (bfactory S_IPv6 ex6b_packet) as [[bfs bpl]| |] eqn:E; vm_compute in E; try discriminate E.
  injection E as <- <-. do 2 eexists.
  match goal with |- exists x y, _ = Ok (?f, ?p) /\ _ =>
    destruct (bytes_roundtrip_ipv6_udp S_IPv6 ex6b_packet f p ex6b_rule Up ex6b_packet_canon eq_refl ex6b_rule_canon)
      as (x & y & H) end.
  - vm_compute. reflexivity.
  - vm_compute. repeat split.
  - vm_compute. reflexivity.
  - unfold v6_shape. split; [vm_compute; reflexivity|]. split; [vm_compute; lia|].
    split; [match goal with |- Forall _ ?l => replace l with (@nil field) by (vm_compute; reflexivity) end; constructor|].
    repeat split; vm_compute; reflexivity.
  - unfold v6_correct. cbv zeta. repeat split; vm_compute; reflexivity.
  - exists x, y. split; [reflexivity|exact H].
Qed.

(* and the computation itself, compared with the Python library: for
     pd = factory('IPv6').parse(Buffer(packet, 408)); sp = compress(pd, rule); out = decompress(sp, rule)
   Python gives sp = the 52 bytes below (414 bits: 2 rule id + 9 x 4 size bits + 376 field bits) and
   out.content == packet. *)
Example bytes_roundtrip_ipv6_udp_values :
  (do p <- bfactory S_IPv6 ex6b_packet ;;
   do x <- bcompress (mkbpdesc Up (fst p) (snd p)) ex6b_rule (Some Up) ;;
   do y <- bdecompress_c x ex6b_rule (Some Up) ;; Ok (content x, blen x, content y, blen y)) =
  Ok ([145; 160; 3; 197; 0; 0; 2; 4; 97; 3; 224; 8; 0; 67; 110; 0; 0; 0; 0; 0; 0; 0; 0; 0; 0; 0; 0; 126; 0; 128; 4; 54;
       224; 0; 0; 0; 0; 0; 0; 0; 0; 0; 0; 0; 8; 88; 204; 88; 208; 4; 8; 12], 414, content ex6b_packet, blen ex6b_packet).
Proof. vm_compute. reflexivity. Qed.

(* the same for an IPv4 (no options) / UDP packet of 31 bytes (header checksum 0xa496, UDP checksum 0x4b6b);
   the rule computes the IPv4 total length, the IPv4 header checksum, the UDP length and the UDP checksum *)
Definition ex4b_packet : buf :=
  mkbuf [69; 0; 0; 31; 18; 52; 64; 0; 64; 17; 164; 150; 192; 0; 2; 1; 192; 0; 2; 2;
         22; 51; 22; 52; 0; 11; 75; 107; 1; 2; 3] 248 LEFT 0.
Definition ex4b_rule : brule :=
  mkbrule (mkbuf [3] 2 LEFT 6) Compression
    (map (fun i => mkbrfd (mkfid P_IPv4 i) (if (i =? 3) || (i =? 9) then 16 else 0) 1 Bi (BTVbuf (mkbuf [] 0 LEFT 0)) MO_ignore
                          (if (i =? 3) || (i =? 9) then Compute else ValueSent)) [0; 1; 2; 3; 4; 5; 6; 7; 8; 9; 10; 11]
     ++ map (fun i => mkbrfd (mkfid P_UDP i) 16 1 Bi (BTVbuf (mkbuf [] 0 LEFT 0)) MO_ignore
                          (if i <? 2 then ValueSent else Compute)) [0; 1; 2; 3]).

Example ex4b_packet_canon : canon ex4b_packet.
Proof. unfold ex4b_packet. canon_concrete. Qed.

Example ex4b_rule_canon : canon_rule ex4b_rule.
Proof.
  unfold ex4b_rule. split; cbn [brule_id brule_fds]; [canon_concrete|].
  cbn [map app]. repeat constructor; unfold canon_rfd; cbn [br_tv canon_tv]; canon_concrete.
Qed.

Example bytes_roundtrip_ipv4_udp_ex : exists bfs bpl x y,
  bfactory S_IPv4 ex4b_packet = Ok (bfs, bpl) /\
  bcompress (mkbpdesc Up bfs bpl) ex4b_rule (Some Up) = Ok x /\ canon x /\
  bdecompress_c x ex4b_rule (Some Up) = Ok y /\ canon y /\ abs y = abs ex4b_packet /\ b_eq y ex4b_packet = Ok true.
Proof.
  destruct (bfactory S_IPv4 ex4b_packet) as [[bfs bpl]| |] eqn:E; vm_compute in E; try discriminate E.
  injection E as <- <-. do 2 eexists.
  match goal with |- exists x y, _ = Ok (?f, ?p) /\ _ =>
    destruct (bytes_roundtrip_ipv4_udp S_IPv4 ex4b_packet f p ex4b_rule Up ex4b_packet_canon eq_refl ex4b_rule_canon)
      as (x & y & H) end.
  - vm_compute. reflexivity.
  - vm_compute. repeat split.
  - vm_compute. reflexivity.
  - unfold v4_shape. split; [vm_compute; reflexivity|]. split; [vm_compute; lia|].
    split; [match goal with |- Forall _ ?l => replace l with (@nil field) by (vm_compute; reflexivity) end; constructor|].
    repeat split; vm_compute; reflexivity.
  - unfold v4_correct. cbv zeta. repeat split; vm_compute; reflexivity.
  - exists x, y. split; [reflexivity|exact H].
Qed.

(* Python: compress(factory('IPv4').parse(Buffer(packet, 248)), rule) = the 32 bytes below (250 bits);
   decompress(.., rule).content == packet *)
Example bytes_roundtrip_ipv4_udp_values :
  (do p <- bfactory S_IPv4 ex4b_packet ;;
   do x <- bcompress (mkbpdesc Up (fst p) (snd p)) ex4b_rule (Some Up) ;;
   do y <- bdecompress_c x ex4b_rule (Some Up) ;; Ok (content x, blen x, content y, blen y)) =
  Ok ([209; 17; 96; 3; 196; 4; 141; 13; 104; 0; 33; 2; 4; 124; 131; 0; 0; 8; 7; 200; 48; 0; 0; 128; 133; 140; 197; 141;
       0; 64; 128; 192], 250, content ex4b_packet, blen ex4b_packet).
Proof. vm_compute. reflexivity. Qed.
