(* ComputeSpec.v -- property C09: each compute function of Compute.v returns the value its RFC
   defines (RfcChecksum.v).  Proof file. *)
From Coq Require Import ZArith List Bool Lia.
From MS Require Import PyBase Bits ByteFacts BufferAbs Schc Crc32cTable Compute RfcChecksum.
From MS Require Import BufferSpec.
Import ListNotations.
Open Scope Z_scope.

(* ---- small list / nat facts ------------------------------------------------------------------ *)
Lemma sub_mod_same a k : (k <> 0)%nat -> (k <= a)%nat -> ((a - k) mod k = a mod k)%nat.
Proof.
  intros Hk H. replace a with ((a - k) + 1 * k)%nat at 2 by lia. now rewrite Nat.mod_add.
Qed.

Lemma add_mod_same a k : (k <> 0)%nat -> ((k + a) mod k = a mod k)%nat.
Proof. intros Hk. replace (k + a)%nat with (a + 1 * k)%nat by lia. now rewrite Nat.mod_add. Qed.

Lemma aligned_small k n : (k <> 0)%nat -> (n mod k = 0)%nat -> (n <= k)%nat -> n = 0%nat \/ n = k.
Proof.
  intros Hk Hm Hn. destruct (Nat.eq_dec n k); auto. left. rewrite Nat.mod_small in Hm by lia. exact Hm.
Qed.

Lemma nth_skipn' {A} (l : list A) d : forall k i, nth i (skipn k l) d = nth (k + i) l d.
Proof.
  induction l as [|x l IH]; intros [|k] i; cbn [skipn nth Nat.add]; auto.
  - destruct i; reflexivity.
Qed.

Lemma nth_firstn' {A} (l : list A) d : forall k i, (i < k)%nat -> nth i (firstn k l) d = nth i l d.
Proof.
  induction l as [|x l IH]; intros [|k] i H; cbn [firstn nth]; auto; try lia.
  destruct i; auto. apply IH. lia.
Qed.

Lemma skipn_nth_cons {A} (l : list A) d : forall k, (k < length l)%nat -> skipn k l = nth k l d :: skipn (S k) l.
Proof.
  induction l as [|x l IH]; intros [|k] H; cbn [length] in H; try lia; [reflexivity|].
  cbn [skipn nth]. rewrite (IH k) by lia. reflexivity.
Qed.

Lemma Z_of_bits_zeros n : Z_of_bits (repeat false n) = 0.
Proof. rewrite <- bits_of_zero, Z_of_bits_of. apply Z.mod_0_l. apply Z.pow_nonzero; lia. Qed.

Lemma Z_of_bits_lt l k : (length l <= k)%nat -> 0 <= Z_of_bits l < 2 ^ Z.of_nat k.
Proof.
  intros H. pose proof (Z_of_bits_range l).
  assert (2 ^ Z.of_nat (length l) <= 2 ^ Z.of_nat k) by (apply Z.pow_le_mono_r; lia). lia.
Qed.

(* ---- words: unfolding lemmas ----------------------------------------------------------------- *)
Lemma words_nil k : (0 < k)%nat -> words k [] = [].
Proof.
  intros Hk. unfold words, pad_to. cbn [length app].
  rewrite Nat.mod_0_l, Nat.sub_0_r, Nat.mod_same by lia. cbn [repeat length].
  rewrite Nat.div_0_l by lia. reflexivity.
Qed.

Lemma pad_to_block k a b : (0 < k)%nat -> length a = k -> pad_to k (a ++ b) = a ++ pad_to k b.
Proof.
  intros Hk Ha. unfold pad_to. rewrite app_length, Ha, add_mod_same by lia. now rewrite app_assoc.
Qed.

Lemma words_app_block k a b : (0 < k)%nat -> length a = k -> words k (a ++ b) = Z_of_bits a :: words k b.
Proof.
  intros Hk Ha. unfold words. rewrite pad_to_block by auto.
  set (p := pad_to k b). rewrite app_length, Ha.
  replace (k + length p)%nat with (1 * k + length p)%nat by lia.
  rewrite Nat.div_add_l by lia. cbn [Nat.add seq map]. f_equal.
  - unfold word. rewrite Nat.mul_0_r. cbn [skipn]. rewrite firstn_app, Ha, Nat.sub_diag.
    cbn [firstn]. rewrite app_nil_r. rewrite <- Ha. now rewrite firstn_all.
  - rewrite <- seq_shift, map_map. apply map_ext. intros i. unfold word. f_equal. f_equal.
    rewrite skipn_app. rewrite skipn_all2 by nia. cbn [app]. f_equal. rewrite Ha. nia.
Qed.

Lemma words_ge k b : (0 < k)%nat -> (k <= length b)%nat -> words k b = Z_of_bits (firstn k b) :: words k (skipn k b).
Proof.
  intros Hk H. rewrite <- (firstn_skipn k b) at 1. apply words_app_block; auto.
  rewrite firstn_length. lia.
Qed.

Lemma words_le k b : (0 < length b <= k)%nat -> words k b = [Z_of_bits (b ++ repeat false (k - length b))].
Proof.
  intros H. assert (pad_to k b = b ++ repeat false (k - length b)) as E.
  { unfold pad_to. f_equal. f_equal. destruct (Nat.eq_dec (length b) k) as [->|Hn].
    - rewrite Nat.mod_same, Nat.sub_0_r, Nat.mod_same, Nat.sub_diag by lia. reflexivity.
    - rewrite (Nat.mod_small (length b)) by lia. apply Nat.mod_small. lia. }
  unfold words. rewrite E. set (p := b ++ repeat false (k - length b)).
  assert (length p = k) as Lp by (unfold p; rewrite app_length, repeat_length; lia).
  rewrite Lp, Nat.div_same by lia. cbn [seq map]. f_equal. unfold word.
  rewrite Nat.mul_0_r. cbn [skipn]. rewrite <- Lp. now rewrite firstn_all.
Qed.

Lemma words_range k b : Forall (fun w => 0 <= w < 2 ^ Z.of_nat k) (words k b).
Proof.
  unfold words. apply Forall_forall. intros w Hw. apply in_map_iff in Hw as (i & <- & _).
  unfold word. apply Z_of_bits_lt. apply firstn_le_length.
Qed.

Lemma words_app k a b : (0 < k)%nat -> (length a mod k = 0)%nat -> words k (a ++ b) = words k a ++ words k b.
Proof.
  intros Hk. remember (length a) as n eqn:En. revert a En.
  induction n as [n IH] using lt_wf_ind. intros a En Hm.
  destruct a as [|x a'].
  - rewrite words_nil by auto. reflexivity.
  - set (a := x :: a') in *.
    assert (k <= length a)%nat as Hle.
    { destruct (le_lt_dec k (length a)); auto. rewrite En, Nat.mod_small in Hm by lia.
      unfold a in Hm. cbn [length] in Hm. lia. }
    rewrite <- (firstn_skipn k a) at 1. rewrite <- app_assoc.
    assert (length (firstn k a) = k) as Lf by (rewrite firstn_length; lia).
    rewrite words_app_block by auto.
    rewrite (IH (length (skipn k a))); [| rewrite skipn_length; lia | reflexivity |].
    + rewrite (words_ge k a) by auto. reflexivity.
    + rewrite skipn_length, sub_mod_same by lia. now rewrite <- En.
Qed.

(* ---- chunks versus words ---------------------------------------------------------------------- *)
Lemma skipn_nonempty {A} (l : list A) k : (k < length l)%nat -> skipn k l <> [].
Proof. intros H E. apply (f_equal (@length _)) in E. rewrite skipn_length in E. cbn in E. lia. Qed.

Lemma chunks_words k b : (0 < k)%nat -> b <> [] -> map Z_of_bits (chunks k true b) = words k b.
Proof.
  intros Hk. remember (length b) as n eqn:En. revert b En.
  induction n as [n IH] using lt_wf_ind. intros b En Hb.
  destruct (le_lt_dec (length b) k) as [H|H].
  - rewrite chunks_le by auto. rewrite words_le; [reflexivity|]. destruct b; [congruence|cbn [length] in *; lia].
  - rewrite chunks_gt by auto. cbn [map]. rewrite words_ge by lia. f_equal.
    apply (IH (length (skipn k b))); [rewrite skipn_length; lia|reflexivity|].
    apply skipn_nonempty. exact H.
Qed.

Lemma chunks_true_len k b : (0 < k)%nat -> Forall (fun c => length c = k) (chunks k true b).
Proof.
  intros Hk. remember (length b) as n eqn:En. revert b En.
  induction n as [n IH] using lt_wf_ind. intros b En.
  destruct (le_lt_dec (length b) k) as [H|H].
  - rewrite chunks_le by auto. constructor; [|constructor]. rewrite app_length, repeat_length. lia.
  - rewrite chunks_gt by auto. constructor; [rewrite firstn_length; lia|].
    apply (IH (length (skipn k b))); [rewrite skipn_length; lia|reflexivity].
Qed.

Lemma chunks_aligned k b : (0 < k)%nat -> b <> [] -> (length b mod k = 0)%nat -> chunks k false b = chunks k true b.
Proof.
  intros Hk. remember (length b) as n eqn:En. revert b En.
  induction n as [n IH] using lt_wf_ind. intros b En Hb Hm.
  destruct (le_lt_dec (length b) k) as [H|H].
  - rewrite !chunks_le by auto. rewrite En in Hm.
    assert (length b = 0 \/ length b = k)%nat as [E|E] by (apply aligned_small; auto; lia).
    + destruct b; [congruence|cbn [length] in E; lia].
    + rewrite E, Nat.sub_diag. cbn [repeat]. now rewrite app_nil_r.
  - rewrite (chunks_gt k false b), (chunks_gt k true b) by auto. f_equal.
    apply (IH (length (skipn k b))); [rewrite skipn_length; lia|reflexivity| |].
    + apply skipn_nonempty. exact H.
    + rewrite skipn_length, sub_mod_same by lia. now rewrite <- En.
Qed.

(* ---- the end-around-carry fold ------------------------------------------------------------------ *)
Definition fold16 (x : Z) : Z := Z.land (x + Z.shiftr x 16) 65535.
Definition rep (S : Z) : Z := if S =? 0 then 0 else (S - 1) mod 65535 + 1.

Lemma fold16_arith x : fold16 x = (x + x / 65536) mod 65536.
Proof.
  unfold fold16. change 65535 with (Z.ones 16). rewrite Z.land_ones, Z.shiftr_div_pow2 by lia. reflexivity.
Qed.

Lemma rep_range S : 0 <= S -> 0 <= rep S <= 65535.
Proof. intros H. unfold rep. destruct (Z.eqb_spec S 0); [lia|]. pose proof (Z.mod_pos_bound (S - 1) 65535). lia. Qed.

Lemma rep_small v : 0 <= v < 65536 -> rep v = v.
Proof.
  intros H. unfold rep. destruct (Z.eqb_spec v 0); [lia|]. rewrite Z.mod_small by lia. lia.
Qed.

Ltac Zify.zify_post_hook ::= Z.to_euclidean_division_equations.
Lemma fold16_rep S T : 0 <= S -> 0 <= T -> fold16 (rep S + rep T) = rep (S + T).
Proof.
  intros HS HT. rewrite fold16_arith. unfold rep.
  destruct (Z.eqb_spec S 0), (Z.eqb_spec T 0), (Z.eqb_spec (S + T) 0); try lia.
Qed.

Lemma lnot_16 s : 0 <= s <= 65535 -> Z.land (Z.lnot s) 65535 = 65535 - s.
Proof.
  intros H. change 65535 with (Z.ones 16) at 1. rewrite Z.land_ones by lia. unfold Z.lnot, Z.pred.
  change (2 ^ 16) with 65536. lia.
Qed.

Lemma byte_len_nbytes b : byte_len b = nbytes b.
Proof. unfold byte_len, nbytes. cbv zeta. destruct (Z.eqb_spec (zlen b mod 8) 0); lia. Qed.
Ltac Zify.zify_post_hook ::= idtac.

Lemma fold_ones_add cs s : fold_left ones_add cs s = fold_left (fun s v => fold16 (s + v)) (map Z_of_bits cs) s.
Proof. revert s. induction cs as [|c cs IH]; intros s; cbn [fold_left map]; [reflexivity|]. apply IH. Qed.

Lemma fold_rep ws : forall S, 0 <= S -> Forall (fun w => 0 <= w < 2 ^ Z.of_nat 16) ws ->
  fold_left (fun s v => fold16 (s + v)) ws (rep S) = rep (S + fold_right Z.add 0 ws).
Proof.
  induction ws as [|w ws IH]; intros S HS HF; cbn [fold_left fold_right].
  - now rewrite Z.add_0_r.
  - inversion HF as [|? ? Hw HF']; subst. change (2 ^ Z.of_nat 16) with 65536 in Hw.
    rewrite <- (rep_small w) at 1 by lia. rewrite fold16_rep by lia.
    rewrite IH by (auto; lia). f_equal. lia.
Qed.

Lemma ones_sum_words cs b : map Z_of_bits cs = words 16 b -> ones_sum cs = ones_complement_sum b.
Proof.
  intros E. unfold ones_sum. rewrite fold_ones_add, E. change 0 with (rep 0) at 1.
  rewrite fold_rep by (try lia; apply words_range). reflexivity.
Qed.

Theorem ones_sum_padded b : ones_sum (chunks 16 true b) = ones_complement_sum b.
Proof.
  destruct b as [|x b]; [vm_compute; reflexivity|].
  apply ones_sum_words. apply chunks_words; [lia|discriminate].
Qed.

Theorem ones_sum_aligned b : (length b mod 16 = 0)%nat -> ones_sum (chunks 16 false b) = ones_complement_sum b.
Proof.
  intros H. destruct b as [|x b]; [vm_compute; reflexivity|].
  rewrite chunks_aligned by (auto; try lia; discriminate). apply ones_sum_padded.
Qed.

Lemma sum16_app a b : (length a mod 16 = 0)%nat -> sum16 (a ++ b) = sum16 a + sum16 b.
Proof.
  intros H. unfold sum16. rewrite words_app by (auto; lia).
  induction (words 16 a) as [|w l IH]; cbn [app fold_right]; lia.
Qed.

Lemma sum16_nonneg b : 0 <= sum16 b.
Proof.
  unfold sum16. pose proof (words_range 16 b) as F. induction F as [|w l Hw F IH]; cbn [fold_right]; lia.
Qed.

Lemma ones_complement_sum_range b : 0 <= ones_complement_sum b <= 65535.
Proof. apply (rep_range (sum16 b)). apply sum16_nonneg. Qed.

Theorem ones_sum_split a b : (length a mod 16 = 0)%nat ->
  let c := ones_complement_sum a + ones_complement_sum b in
  Z.land (c + Z.shiftr c 16) 65535 = ones_complement_sum (a ++ b).
Proof.
  intros H c. subst c. change (fold16 (rep (sum16 a) + rep (sum16 b)) = rep (sum16 (a ++ b))).
  rewrite fold16_rep by apply sum16_nonneg. now rewrite sum16_app.
Qed.
