(* ComputeSpec.v -- property C09: each compute function of Compute.v returns the value its RFC
   defines (RfcChecksum.v).  Proof file. *)
From Coq Require Import ZArith List Bool Lia.
From MS Require Import PyBase Bits ByteFacts BufferAbs Schc Crc32cTable Compute RfcChecksum.
From MS Require Import BufferSpec.
Import ListNotations.
Open Scope Z_scope.

(* ---- small list / nat facts ------------------------------------------------------------------ *)
Lemma sub_mod_same a k : (k <> 0)%nat -> (k <= a)%nat -> ((a - k) mod k = a mod k)%nat.
Proof.
  intros Hk H. replace a with ((a - k) + 1 * k)%nat at 2 by lia. now rewrite Nat.mod_add.
Qed.

Lemma add_mod_same a k : (k <> 0)%nat -> ((k + a) mod k = a mod k)%nat.
Proof. intros Hk. replace (k + a)%nat with (a + 1 * k)%nat by lia. now rewrite Nat.mod_add. Qed.

Lemma aligned_small k n : (k <> 0)%nat -> (n mod k = 0)%nat -> (n <= k)%nat -> n = 0%nat \/ n = k.
Proof.
  intros Hk Hm Hn. destruct (Nat.eq_dec n k); auto. left. rewrite Nat.mod_small in Hm by lia. exact Hm.
Qed.

Lemma nth_skipn' {A} (l : list A) d : forall k i, nth i (skipn k l) d = nth (k + i) l d.
Proof.
  induction l as [|x l IH]; intros [|k] i; cbn [skipn nth Nat.add]; auto.
  - destruct i; reflexivity.
Qed.

Lemma nth_firstn' {A} (l : list A) d : forall k i, (i < k)%nat -> nth i (firstn k l) d = nth i l d.
Proof.
  induction l as [|x l IH]; intros [|k] i H; cbn [firstn nth]; auto; try lia.
  destruct i; auto. apply IH. lia.
Qed.

Lemma skipn_nth_cons {A} (l : list A) d : forall k, (k < length l)%nat -> skipn k l = nth k l d :: skipn (S k) l.
Proof.
  induction l as [|x l IH]; intros [|k] H; cbn [length] in H; try lia; [reflexivity|].
  cbn [skipn nth]. rewrite (IH k) by lia. reflexivity.
Qed.

Lemma Z_of_bits_zeros n : Z_of_bits (repeat false n) = 0.
Proof. rewrite <- bits_of_zero, Z_of_bits_of. apply Z.mod_0_l. apply Z.pow_nonzero; lia. Qed.

Lemma Z_of_bits_lt l k : (length l <= k)%nat -> 0 <= Z_of_bits l < 2 ^ Z.of_nat k.
Proof.
  intros H. pose proof (Z_of_bits_range l).
  assert (2 ^ Z.of_nat (length l) <= 2 ^ Z.of_nat k) by (apply Z.pow_le_mono_r; lia). lia.
Qed.

(* ---- words: unfolding lemmas ----------------------------------------------------------------- *)
Lemma words_nil k : (0 < k)%nat -> words k [] = [].
Proof.
  intros Hk. unfold words, pad_to. cbn [length app].
  rewrite Nat.mod_0_l, Nat.sub_0_r, Nat.mod_same by lia. cbn [repeat length].
  rewrite Nat.div_0_l by lia. reflexivity.
Qed.

Lemma pad_to_block k a b : (0 < k)%nat -> length a = k -> pad_to k (a ++ b) = a ++ pad_to k b.
Proof.
  intros Hk Ha. unfold pad_to. rewrite app_length, Ha, add_mod_same by lia. now rewrite app_assoc.
Qed.

Lemma words_app_block k a b : (0 < k)%nat -> length a = k -> words k (a ++ b) = Z_of_bits a :: words k b.
Proof.
  intros Hk Ha. unfold words. rewrite pad_to_block by auto.
  set (p := pad_to k b). rewrite app_length, Ha.
  replace (k + length p)%nat with (1 * k + length p)%nat by lia.
  rewrite Nat.div_add_l by lia. cbn [Nat.add seq map]. f_equal.
  - unfold word. rewrite Nat.mul_0_r. cbn [skipn]. rewrite firstn_app, Ha, Nat.sub_diag.
    cbn [firstn]. rewrite app_nil_r. rewrite <- Ha. now rewrite firstn_all.
  - rewrite <- seq_shift, map_map. apply map_ext. intros i. unfold word. f_equal. f_equal.
    rewrite skipn_app. rewrite skipn_all2 by nia. cbn [app]. f_equal. rewrite Ha. nia.
Qed.

Lemma words_ge k b : (0 < k)%nat -> (k <= length b)%nat -> words k b = Z_of_bits (firstn k b) :: words k (skipn k b).
Proof.
  intros Hk H. rewrite <- (firstn_skipn k b) at 1. apply words_app_block; auto.
  rewrite firstn_length. lia.
Qed.

Lemma words_le k b : (0 < length b <= k)%nat -> words k b = [Z_of_bits (b ++ repeat false (k - length b))].
Proof.
  intros H. assert (pad_to k b = b ++ repeat false (k - length b)) as E.
  { unfold pad_to. f_equal. f_equal. destruct (Nat.eq_dec (length b) k) as [->|Hn].
    - rewrite Nat.mod_same, Nat.sub_0_r, Nat.mod_same, Nat.sub_diag by lia. reflexivity.
    - rewrite (Nat.mod_small (length b)) by lia. apply Nat.mod_small. lia. }
  unfold words. rewrite E. set (p := b ++ repeat false (k - length b)).
  assert (length p = k) as Lp by (unfold p; rewrite app_length, repeat_length; lia).
  rewrite Lp, Nat.div_same by lia. cbn [seq map]. f_equal. unfold word.
  rewrite Nat.mul_0_r. cbn [skipn]. rewrite <- Lp. now rewrite firstn_all.
Qed.

Lemma words_range k b : Forall (fun w => 0 <= w < 2 ^ Z.of_nat k) (words k b).
Proof.
  unfold words. apply Forall_forall. intros w Hw. apply in_map_iff in Hw as (i & <- & _).
  unfold word. apply Z_of_bits_lt. apply firstn_le_length.
Qed.

Lemma words_app k a b : (0 < k)%nat -> (length a mod k = 0)%nat -> words k (a ++ b) = words k a ++ words k b.
Proof.
  intros Hk. remember (length a) as n eqn:En. revert a En.
  induction n as [n IH] using lt_wf_ind. intros a En Hm.
  destruct a as [|x a'].
  - rewrite words_nil by auto. reflexivity.
  - set (a := x :: a') in *.
    assert (k <= length a)%nat as Hle.
    { destruct (le_lt_dec k (length a)); auto. rewrite En, Nat.mod_small in Hm by lia.
      unfold a in Hm. cbn [length] in Hm. lia. }
    rewrite <- (firstn_skipn k a) at 1. rewrite <- app_assoc.
    assert (length (firstn k a) = k) as Lf by (rewrite firstn_length; lia).
    rewrite words_app_block by auto.
    rewrite (IH (length (skipn k a))); [| rewrite skipn_length; lia | reflexivity |].
    + rewrite (words_ge k a) by auto. reflexivity.
    + rewrite skipn_length, sub_mod_same by lia. now rewrite <- En.
Qed.

(* ---- chunks versus words ---------------------------------------------------------------------- *)
Lemma skipn_nonempty {A} (l : list A) k : (k < length l)%nat -> skipn k l <> [].
Proof. intros H E. apply (f_equal (@length _)) in E. rewrite skipn_length in E. cbn in E. lia. Qed.

Lemma chunks_words k b : (0 < k)%nat -> b <> [] -> map Z_of_bits (chunks k true b) = words k b.
Proof.
  intros Hk. remember (length b) as n eqn:En. revert b En.
  induction n as [n IH] using lt_wf_ind. intros b En Hb.
  destruct (le_lt_dec (length b) k) as [H|H].
  - rewrite chunks_le by auto. rewrite words_le; [reflexivity|]. destruct b; [congruence|cbn [length] in *; lia].
  - rewrite chunks_gt by auto. cbn [map]. rewrite words_ge by lia. f_equal.
    apply (IH (length (skipn k b))); [rewrite skipn_length; lia|reflexivity|].
    apply skipn_nonempty. exact H.
Qed.

Lemma chunks_true_len k b : (0 < k)%nat -> Forall (fun c => length c = k) (chunks k true b).
Proof.
  intros Hk. remember (length b) as n eqn:En. revert b En.
  induction n as [n IH] using lt_wf_ind. intros b En.
  destruct (le_lt_dec (length b) k) as [H|H].
  - rewrite chunks_le by auto. constructor; [|constructor]. rewrite app_length, repeat_length. lia.
  - rewrite chunks_gt by auto. constructor; [rewrite firstn_length; lia|].
    apply (IH (length (skipn k b))); [rewrite skipn_length; lia|reflexivity].
Qed.

Lemma chunks_aligned k b : (0 < k)%nat -> b <> [] -> (length b mod k = 0)%nat -> chunks k false b = chunks k true b.
Proof.
  intros Hk. remember (length b) as n eqn:En. revert b En.
  induction n as [n IH] using lt_wf_ind. intros b En Hb Hm.
  destruct (le_lt_dec (length b) k) as [H|H].
  - rewrite !chunks_le by auto. rewrite En in Hm.
    assert (length b = 0 \/ length b = k)%nat as [E|E] by (apply aligned_small; auto; lia).
    + destruct b; [congruence|cbn [length] in E; lia].
    + rewrite E, Nat.sub_diag. cbn [repeat]. now rewrite app_nil_r.
  - rewrite (chunks_gt k false b), (chunks_gt k true b) by auto. f_equal.
    apply (IH (length (skipn k b))); [rewrite skipn_length; lia|reflexivity| |].
    + apply skipn_nonempty. exact H.
    + rewrite skipn_length, sub_mod_same by lia. now rewrite <- En.
Qed.

(* ---- the end-around-carry fold ------------------------------------------------------------------ *)
Definition fold16 (x : Z) : Z := Z.land (x + Z.shiftr x 16) 65535.
Definition rep (S : Z) : Z := if S =? 0 then 0 else (S - 1) mod 65535 + 1.

Lemma fold16_arith x : fold16 x = (x + x / 65536) mod 65536.
Proof.
  unfold fold16. change 65535 with (Z.ones 16). rewrite Z.land_ones, Z.shiftr_div_pow2 by lia. reflexivity.
Qed.

Lemma rep_range S : 0 <= S -> 0 <= rep S <= 65535.
Proof. intros H. unfold rep. destruct (Z.eqb_spec S 0); [lia|]. pose proof (Z.mod_pos_bound (S - 1) 65535). lia. Qed.

Lemma rep_small v : 0 <= v < 65536 -> rep v = v.
Proof.
  intros H. unfold rep. destruct (Z.eqb_spec v 0); [lia|]. rewrite Z.mod_small by lia. lia.
Qed.

Ltac Zify.zify_post_hook ::= Z.to_euclidean_division_equations.
Lemma fold16_rep S T : 0 <= S -> 0 <= T -> fold16 (rep S + rep T) = rep (S + T).
Proof.
  intros HS HT. rewrite fold16_arith. unfold rep.
  destruct (Z.eqb_spec S 0), (Z.eqb_spec T 0), (Z.eqb_spec (S + T) 0); try lia.
Qed.

Lemma lnot_16 s : 0 <= s <= 65535 -> Z.land (Z.lnot s) 65535 = 65535 - s.
Proof.
  intros H. change 65535 with (Z.ones 16) at 1. rewrite Z.land_ones by lia. unfold Z.lnot, Z.pred.
  change (2 ^ 16) with 65536. lia.
Qed.

Lemma byte_len_nbytes b : byte_len b = nbytes b.
Proof. unfold byte_len, nbytes. cbv zeta. destruct (Z.eqb_spec (zlen b mod 8) 0); lia. Qed.
Ltac Zify.zify_post_hook ::= idtac.

Lemma fold_ones_add cs s : fold_left ones_add cs s = fold_left (fun s v => fold16 (s + v)) (map Z_of_bits cs) s.
Proof. revert s. induction cs as [|c cs IH]; intros s; cbn [fold_left map]; [reflexivity|]. apply IH. Qed.

Lemma fold_rep ws : forall S, 0 <= S -> Forall (fun w => 0 <= w < 2 ^ Z.of_nat 16) ws ->
  fold_left (fun s v => fold16 (s + v)) ws (rep S) = rep (S + fold_right Z.add 0 ws).
Proof.
  induction ws as [|w ws IH]; intros S HS HF; cbn [fold_left fold_right].
  - now rewrite Z.add_0_r.
  - inversion HF as [|? ? Hw HF']; subst. change (2 ^ Z.of_nat 16) with 65536 in Hw.
    rewrite <- (rep_small w) at 1 by lia. rewrite fold16_rep by lia.
    rewrite IH by (auto; lia). f_equal. lia.
Qed.

Lemma ones_sum_words cs b : map Z_of_bits cs = words 16 b -> ones_sum cs = ones_complement_sum b.
Proof.
  intros E. unfold ones_sum. rewrite fold_ones_add, E. change 0 with (rep 0) at 1.
  rewrite fold_rep by (try lia; apply words_range). reflexivity.
Qed.

Theorem ones_sum_padded b : ones_sum (chunks 16 true b) = ones_complement_sum b.
Proof.
  destruct b as [|x b]; [vm_compute; reflexivity|].
  apply ones_sum_words. apply chunks_words; [lia|discriminate].
Qed.

Theorem ones_sum_aligned b : (length b mod 16 = 0)%nat -> ones_sum (chunks 16 false b) = ones_complement_sum b.
Proof.
  intros H. destruct b as [|x b]; [vm_compute; reflexivity|].
  rewrite chunks_aligned by (auto; try lia; discriminate). apply ones_sum_padded.
Qed.

Lemma sum16_app a b : (length a mod 16 = 0)%nat -> sum16 (a ++ b) = sum16 a + sum16 b.
Proof.
  intros H. unfold sum16. rewrite words_app by (auto; lia).
  induction (words 16 a) as [|w l IH]; cbn [app fold_right]; lia.
Qed.

Lemma sum16_nonneg b : 0 <= sum16 b.
Proof.
  unfold sum16. pose proof (words_range 16 b) as F. induction F as [|w l Hw F IH]; cbn [fold_right]; lia.
Qed.

Lemma ones_complement_sum_range b : 0 <= ones_complement_sum b <= 65535.
Proof. apply (rep_range (sum16 b)). apply sum16_nonneg. Qed.

Theorem ones_sum_split a b : (length a mod 16 = 0)%nat ->
  let c := ones_complement_sum a + ones_complement_sum b in
  Z.land (c + Z.shiftr c 16) 65535 = ones_complement_sum (a ++ b).
Proof.
  intros H c. subst c. change (fold16 (rep (sum16 a) + rep (sum16 b)) = rep (sum16 (a ++ b))).
  rewrite fold16_rep by apply sum16_nonneg. now rewrite sum16_app.
Qed.

(* ---- helpers for the compute functions ---------------------------------------------------------- *)
Lemma uint_bits_ok k n : 0 <= n < 2 ^ Z.of_nat k -> uint_bits k n = Ok (bits_of k n).
Proof.
  intros H. unfold uint_bits. destruct (Z.leb_spec 0 n); [|lia]. destruct (Z.ltb_spec n (2 ^ Z.of_nat k)); [|lia].
  reflexivity.
Qed.

Lemma py_slice_from' {A} (l : list A) s : 0 <= s -> py_slice l (Some s) None = skipn (Z.to_nat s) l.
Proof.
  intros H. destruct (Z_le_gt_dec s (zlen l)); [apply py_slice_from; lia|].
  unfold py_slice, slice_indices, clamp_index.
  destruct (Z.ltb_spec s 0); [lia|]. destruct (Z.ltb_spec (zlen l) s); [|lia].
  rewrite Z.sub_diag. cbn [Z.to_nat firstn]. symmetry. apply skipn_all2. unfold zlen in *. lia.
Qed.

Lemma nbytes_nonneg b : 0 <= nbytes b.
Proof. unfold nbytes. pose proof (zlen_nonneg b). apply Z.div_pos; lia. Qed.

Lemma zlen_vals fs : zlen (vals fs) = zlen fs.
Proof. unfold zlen, vals. now rewrite map_length. Qed.
Lemma zlen_ids fs : zlen (ids fs) = zlen fs.
Proof. unfold zlen, ids. now rewrite map_length. Qed.

Lemma reduce_concat_skipn (l : list bits) k : (k < length l)%nat -> reduce_concat (skipn k l) = Ok (concat (skipn k l)).
Proof. intros H. pose proof (skipn_nonempty l k H). unfold reduce_concat. destruct (skipn k l); [congruence|reflexivity]. Qed.

(* ---- the three lengths ---------------------------------------------------------------------------- *)
Theorem c09_ipv6_length fs pos : 0 <= pos -> nbytes (concat (skipn (Z.to_nat (pos + 5)) (vals fs))) < 65536 ->
  ipv6_payload_length fs pos = Ok (bits_of 16 (nbytes (concat (skipn (Z.to_nat (pos + 5)) (vals fs))))).
Proof.
  intros Hp Hn. unfold ipv6_payload_length. rewrite py_slice_from' by lia. rewrite byte_len_nbytes.
  apply uint_bits_ok. change (2 ^ Z.of_nat 16) with 65536. pose proof (nbytes_nonneg (concat (skipn (Z.to_nat (pos + 5)) (vals fs)))). lia.
Qed.

Theorem c09_udp_length fs pos : 2 <= pos < zlen fs -> nbytes (concat (skipn (Z.to_nat (pos - 2)) (vals fs))) < 65536 ->
  udp_length fs pos = Ok (bits_of 16 (nbytes (concat (skipn (Z.to_nat (pos - 2)) (vals fs))))).
Proof.
  intros Hp Hn. unfold udp_length. rewrite py_slice_from' by lia.
  rewrite reduce_concat_skipn by (pose proof (zlen_vals fs); unfold zlen in *; lia).
  cbn [bind]. rewrite byte_len_nbytes.
  apply uint_bits_ok. change (2 ^ Z.of_nat 16) with 65536. pose proof (nbytes_nonneg (concat (skipn (Z.to_nat (pos - 2)) (vals fs)))). lia.
Qed.

Ltac Zify.zify_post_hook ::= Z.to_euclidean_division_equations.
Lemma nbytes_drop4 (a b : bits) : zlen a = 4 -> zlen (a ++ b) mod 8 = 0 -> nbytes b = nbytes (a ++ b).
Proof. unfold nbytes. rewrite zlen_app. intros Ha Hm. pose proof (zlen_nonneg b). lia. Qed.
Ltac Zify.zify_post_hook ::= idtac.

Theorem c09_ipv4_length fs pos : 3 <= pos < zlen fs -> zlen (nth (Z.to_nat (pos - 3)) (vals fs) []) = 4 ->
  let dgram := concat (skipn (Z.to_nat (pos - 3)) (vals fs)) in
  zlen dgram mod 8 = 0 -> nbytes dgram < 65536 ->
  ipv4_total_length fs pos = Ok (bits_of 16 (nbytes dgram)).
Proof.
  intros Hp H4 dgram Hm Hn. unfold ipv4_total_length. rewrite py_slice_from' by lia. rewrite byte_len_nbytes.
  assert (dgram = nth (Z.to_nat (pos - 3)) (vals fs) [] ++ concat (skipn (Z.to_nat (pos - 2)) (vals fs))) as E.
  { unfold dgram. rewrite (skipn_nth_cons (vals fs) []) by (pose proof (zlen_vals fs); unfold zlen in *; lia).
    cbn [concat]. do 3 f_equal. lia. }
  rewrite (nbytes_drop4 _ _ H4) by (rewrite <- E; exact Hm). rewrite <- E.
  apply uint_bits_ok. change (2 ^ Z.of_nat 16) with 65536. pose proof (nbytes_nonneg dgram). lia.
Qed.

(* ---- IPv4 header checksum ----------------------------------------------------------------------------- *)
Theorem c09_ipv4_checksum fs pos : 9 <= pos -> pos + 3 <= zlen fs ->
  let hdr := concat (firstn 12 (skipn (Z.to_nat (pos - 9)) (vals fs))) in
  (length hdr mod 16 = 0)%nat ->
  ipv4_checksum fs pos = Ok (bits_of 16 (rfc_ipv4_header_checksum hdr)).
Proof.
  intros Hp Hz hdr Hm. unfold ipv4_checksum. cbv zeta.
  rewrite py_slice_mid by (rewrite ?zlen_vals; lia).
  replace (Z.to_nat (pos + 3 - (pos - 9))) with 12%nat by lia. fold hdr.
  rewrite ones_sum_aligned by exact Hm.
  pose proof (ones_complement_sum_range hdr) as R. rewrite lnot_16 by exact R.
  unfold rfc_ipv4_header_checksum, inet_checksum. apply uint_bits_ok. change (2 ^ Z.of_nat 16) with 65536. lia.
Qed.

(* ---- UDP checksum ---------------------------------------------------------------------------------------- *)
Lemma fid_eqb_iff a b : fid_eqb a b = true <-> a = b.
Proof.
  unfold fid_eqb. rewrite andb_true_iff, Z.eqb_eq. destruct a as [pa ia], b as [pb ib]. cbn [fproto fidx].
  split.
  - intros [Hp Hi]. subst ib. f_equal. destruct pa, pb; (reflexivity || discriminate).
  - intros E. injection E as -> ->. split; [destruct pb; reflexivity|reflexivity].
Qed.

Lemma find_index_spec (p : fid -> bool) d : forall l i k, (k < length l)%nat -> p (nth k l d) = true ->
  (forall j, (j < k)%nat -> p (nth j l d) = false) -> find_index p l i = Some (i + Z.of_nat k).
Proof.
  induction l as [|x l IH]; intros i k Hk Hp Hn; cbn [length] in Hk; [lia|].
  cbn [find_index]. destruct k as [|k].
  - cbn [nth] in Hp. rewrite Hp. f_equal. lia.
  - pose proof (Hn 0%nat ltac:(lia)) as H0. cbn [nth] in H0. rewrite H0. rewrite (IH (i + 1) k); [f_equal; lia|lia|exact Hp|].
    intros j Hj. apply (Hn (S j)). lia.
Qed.

(* the reversed identifier list fields_ids[plp:0:-1]: its k-th element is ids[plp - k] *)
Lemma rev_ids_nth (l : list fid) d n k : (n < length l)%nat -> (k < n)%nat ->
  nth k (rev (skipn 1 (firstn (n + 1) l))) d = nth (n - k) l d.
Proof.
  intros Hn Hk.
  assert (length (skipn 1 (firstn (n + 1) l)) = n) as L by (rewrite skipn_length, firstn_length; lia).
  rewrite rev_nth by lia. rewrite L, nth_skipn', nth_firstn' by lia. f_equal. lia.
Qed.

Lemma find_src (l : list fid) (SRC : fid) plp sp : 0 <= plp < zlen l -> 1 <= sp <= plp ->
  nth (Z.to_nat sp) l payload_fid = SRC ->
  (forall j, sp < j <= plp -> nth (Z.to_nat j) l payload_fid <> SRC) ->
  find_index (fid_eqb SRC) (rev (skipn 1 (firstn (Z.to_nat (plp + 1)) l))) 0 = Some (plp - sp).
Proof.
  intros Hp Hs Hsrc Hno. unfold zlen in Hp.
  replace (Z.to_nat (plp + 1)) with (Z.to_nat plp + 1)%nat by lia.
  rewrite (find_index_spec _ payload_fid _ 0 (Z.to_nat (plp - sp))).
  - f_equal. lia.
  - rewrite rev_length, skipn_length, firstn_length. lia.
  - rewrite rev_ids_nth by lia. apply fid_eqb_iff. rewrite <- Hsrc. f_equal. lia.
  - intros j Hj. rewrite rev_ids_nth by lia.
    destruct (fid_eqb SRC (nth (Z.to_nat plp - j) l payload_fid)) eqn:E; [|reflexivity].
    apply fid_eqb_iff in E. exfalso. apply (Hno (plp - Z.of_nat j)); [lia|].
    rewrite E. f_equal. lia.
Qed.

Lemma udp_final pseudo udp : (length pseudo mod 16 = 0)%nat ->
  let s1 := ones_sum (chunks 16 false pseudo) in
  let s2 := ones_sum (chunks 16 true udp) in
  let c := s1 + s2 in
  let c := Z.land (c + Z.shiftr c 16) 65535 in
  let c := Z.land (Z.lnot c) 65535 in
  let c := if c =? 0 then 65535 else c in
  uint_bits 16 c = Ok (bits_of 16 (rfc_udp_checksum pseudo udp)).
Proof.
  intros Hm. cbv zeta. rewrite ones_sum_aligned by exact Hm. rewrite ones_sum_padded.
  rewrite (ones_sum_split pseudo udp Hm).
  pose proof (ones_complement_sum_range (pseudo ++ udp)) as R. rewrite lnot_16 by exact R.
  unfold rfc_udp_checksum, inet_checksum. apply uint_bits_ok. change (2 ^ Z.of_nat 16) with 65536.
  destruct (Z.eqb_spec (65535 - ones_complement_sum (pseudo ++ udp)) 0); lia.
Qed.

Lemma pseudo_v6_len src dst n : (length src mod 16 = 0)%nat -> (length dst mod 16 = 0)%nat ->
  (length (pseudo_v6 src dst n) mod 16 = 0)%nat.
Proof.
  intros Hs Hd. unfold pseudo_v6. rewrite !app_length, !bits_of_length, repeat_length.
  apply Nat.mod_divide in Hs, Hd; try lia. destruct Hs as [a Ha], Hd as [b Hb].
  apply Nat.mod_divide; [lia|]. exists (a + b + 4)%nat. lia.
Qed.

Lemma pseudo_v4_len src dst n : (length src mod 16 = 0)%nat -> (length dst mod 16 = 0)%nat ->
  (length (pseudo_v4 src dst n) mod 16 = 0)%nat.
Proof.
  intros Hs Hd. unfold pseudo_v4. rewrite !app_length, !bits_of_length, repeat_length.
  apply Nat.mod_divide in Hs, Hd; try lia. destruct Hs as [a Ha], Hd as [b Hb].
  apply Nat.mod_divide; [lia|]. exists (a + b + 2)%nat. lia.
Qed.

Theorem c09_udp_checksum_v6 fs pos sp src dst : 4 <= pos < zlen fs -> 1 <= sp -> sp + 1 <= pos - 4 ->
  fproto (nth (Z.to_nat (pos - 4)) (ids fs) payload_fid) = P_IPv6 ->
  nth (Z.to_nat sp) (ids fs) payload_fid = IPV6_SRC_ADDRESS ->
  (forall j, sp < j <= pos - 4 -> nth (Z.to_nat j) (ids fs) payload_fid <> IPV6_SRC_ADDRESS) ->
  nth (Z.to_nat sp) (vals fs) [] = src -> nth (Z.to_nat (sp + 1)) (vals fs) [] = dst ->
  (length src mod 16 = 0)%nat -> (length dst mod 16 = 0)%nat ->
  let udp := concat (skipn (Z.to_nat (pos - 3)) (vals fs)) in
  nbytes udp < 2 ^ 32 ->
  udp_checksum fs pos = Ok (bits_of 16 (rfc_udp_checksum (pseudo_v6 src dst (nbytes udp)) udp)).
Proof.
  intros Hp Hs1 Hs2 Hproto Hsrc Hno Es Ed Ls Ld udp Hn.
  pose proof (zlen_vals fs) as Zv. pose proof (zlen_ids fs) as Zi.
  unfold udp_checksum. cbv zeta.
  rewrite (py_index_nth (ids fs) (pos - 4) payload_fid) by lia. cbn [bind].
  rewrite py_slice_from' by lia.
  rewrite reduce_concat_skipn by (unfold zlen in *; lia). cbn [bind]. fold udp.
  destruct (Z.ltb_spec (pos - 4) 0); [lia|].
  rewrite Hproto.
  rewrite (find_src (ids fs) IPV6_SRC_ADDRESS (pos - 4) sp) by (auto; lia).
  replace (pos - 4 - (pos - 4 - sp)) with sp by lia.
  rewrite (py_index_nth (vals fs) sp []) by lia. cbn [bind].
  rewrite (py_index_nth (vals fs) (sp + 1) []) by lia. cbn [bind].
  rewrite Es, Ed, byte_len_nbytes.
  rewrite uint_bits_ok by (pose proof (nbytes_nonneg udp); change (2 ^ Z.of_nat 32) with (2 ^ 32); lia).
  cbn [bind]. change (src ++ dst ++ bits_of 32 (nbytes udp) ++ repeat false 24 ++ bits_of 8 17)
    with (pseudo_v6 src dst (nbytes udp)).
  apply udp_final. apply pseudo_v6_len; auto.
Qed.

Theorem c09_udp_checksum_v4 fs pos sp src dst : 4 <= pos < zlen fs -> 1 <= sp -> sp + 1 <= pos - 4 ->
  fproto (nth (Z.to_nat (pos - 4)) (ids fs) payload_fid) = P_IPv4 ->
  nth (Z.to_nat sp) (ids fs) payload_fid = IPV4_SRC_ADDRESS ->
  (forall j, sp < j <= pos - 4 -> nth (Z.to_nat j) (ids fs) payload_fid <> IPV4_SRC_ADDRESS) ->
  nth (Z.to_nat sp) (vals fs) [] = src -> nth (Z.to_nat (sp + 1)) (vals fs) [] = dst ->
  (length src mod 16 = 0)%nat -> (length dst mod 16 = 0)%nat ->
  let udp := concat (skipn (Z.to_nat (pos - 3)) (vals fs)) in
  nbytes udp < 65536 ->
  udp_checksum fs pos = Ok (bits_of 16 (rfc_udp_checksum (pseudo_v4 src dst (nbytes udp)) udp)).
Proof.
  intros Hp Hs1 Hs2 Hproto Hsrc Hno Es Ed Ls Ld udp Hn.
  pose proof (zlen_vals fs) as Zv. pose proof (zlen_ids fs) as Zi.
  unfold udp_checksum. cbv zeta.
  rewrite (py_index_nth (ids fs) (pos - 4) payload_fid) by lia. cbn [bind].
  rewrite py_slice_from' by lia.
  rewrite reduce_concat_skipn by (unfold zlen in *; lia). cbn [bind]. fold udp.
  destruct (Z.ltb_spec (pos - 4) 0); [lia|].
  rewrite Hproto.
  rewrite (find_src (ids fs) IPV4_SRC_ADDRESS (pos - 4) sp) by (auto; lia).
  replace (pos - 4 - (pos - 4 - sp)) with sp by lia.
  rewrite (py_index_nth (vals fs) sp []) by lia. cbn [bind].
  rewrite (py_index_nth (vals fs) (sp + 1) []) by lia. cbn [bind].
  rewrite Es, Ed, byte_len_nbytes.
  rewrite uint_bits_ok by (pose proof (nbytes_nonneg udp); change (2 ^ Z.of_nat 16) with 65536; lia).
  cbn [bind]. change (src ++ dst ++ repeat false 8 ++ bits_of 8 17 ++ bits_of 16 (nbytes udp))
    with (pseudo_v4 src dst (nbytes udp)).
  apply udp_final. apply pseudo_v4_len; auto.
Qed.

(* ---- CRC-32c ------------------------------------------------------------------------------------------------ *)
Theorem crc_table_correct i : 0 <= i < 256 -> nth (Z.to_nat i) crc32c_table 0 = crc_byte_step 0 i.
Proof.
  intros H. apply Z.eqb_eq.
  apply (sweep_byte (fun i => nth (Z.to_nat i) crc32c_table 0 =? crc_byte_step 0 i)); [vm_compute; reflexivity|lia].
Qed.

Lemma crc_bit_step_lxor x y : crc_bit_step (Z.lxor x y) = Z.lxor (crc_bit_step x) (crc_bit_step y).
Proof.
  unfold crc_bit_step. rewrite Z.shiftr_lxor.
  assert (Z.odd (Z.lxor x y) = xorb (Z.odd x) (Z.odd y)) as -> by (rewrite <- !Z.bit0_odd; apply Z.lxor_spec).
  destruct (Z.odd x), (Z.odd y); cbn [xorb]; apply Z.bits_inj'; intros n Hn; rewrite !Z.lxor_spec;
    destruct (Z.testbit (Z.shiftr x 1) n), (Z.testbit (Z.shiftr y 1) n), (Z.testbit 2197175160 n); reflexivity.
Qed.

Lemma iter_crc_lxor n : forall x y, iter n crc_bit_step (Z.lxor x y) = Z.lxor (iter n crc_bit_step x) (iter n crc_bit_step y).
Proof. induction n as [|n IH]; intros x y; cbn [iter]; [reflexivity|]. rewrite crc_bit_step_lxor. apply IH. Qed.

(* n steps on a register whose n low bits are zero just shift it *)
Lemma iter_crc_shift n : forall h, h mod 2 ^ Z.of_nat n = 0 -> iter n crc_bit_step h = Z.shiftr h (Z.of_nat n).
Proof.
  induction n as [|n IH]; intros h H; cbn [iter]; [now rewrite Z.shiftr_0_r|].
  rewrite Nat2Z.inj_succ, Z.pow_succ_r in H by lia.
  set (P := 2 ^ Z.of_nat n) in *. assert (0 < P) as HP by (apply Z.pow_pos_nonneg; lia).
  rewrite Z.rem_mul_r in H by lia.
  pose proof (Z.mod_pos_bound h 2 ltac:(lia)). pose proof (Z.mod_pos_bound (h / 2) P HP).
  assert (h mod 2 = 0) as H2 by nia. assert ((h / 2) mod P = 0) as H3 by nia.
  unfold crc_bit_step. rewrite Zmod_odd in H2. destruct (Z.odd h); [discriminate|].
  rewrite IH by (rewrite Z.shiftr_div_pow2 by lia; exact H3).
  rewrite Z.shiftr_shiftr by lia. f_equal. lia.
Qed.

Lemma lxor_split x : x = Z.lxor (Z.ldiff x 255) (Z.land x 255).
Proof.
  apply Z.bits_inj'. intros n Hn. rewrite Z.lxor_spec, Z.ldiff_spec, Z.land_spec.
  destruct (Z.testbit x n), (Z.testbit 255 n); reflexivity.
Qed.

Lemma ldiff_low x : Z.ldiff x 255 mod 2 ^ 8 = 0.
Proof.
  rewrite <- Z.land_ones by lia. apply Z.bits_inj'. intros n Hn.
  rewrite Z.land_spec, Z.ldiff_spec, Z.bits_0. change (Z.ones 8) with 255.
  destruct (Z.testbit x n), (Z.testbit 255 n); reflexivity.
Qed.

Lemma crc_step_correct' crc c : length c = 8%nat -> crc_step crc c = crc_byte_step crc (Z_of_bits c).
Proof.
  intros Hc. pose proof (Z_of_bits_range c) as Hv. rewrite Hc in Hv. change (2 ^ Z.of_nat 8) with 256 in Hv.
  set (v := Z_of_bits c) in *. unfold crc_step, crc_byte_step. fold v.
  set (x := Z.lxor crc v).
  rewrite (lxor_split x) at 2. rewrite iter_crc_lxor. f_equal.
  - rewrite (iter_crc_shift 8) by apply ldiff_low.
    change (Z.of_nat 8) with 8. rewrite Z.shiftr_ldiff. change (Z.shiftr 255 8) with 0. rewrite Z.ldiff_0_r.
    unfold x. rewrite Z.shiftr_lxor. rewrite (Z.shiftr_div_pow2 v) by lia. change (2 ^ 8) with 256.
    rewrite (Z.div_small v) by lia. now rewrite Z.lxor_0_r.
  - rewrite crc_table_correct by (rewrite land_255; apply Z.mod_pos_bound; lia).
    unfold crc_byte_step. now rewrite Z.lxor_0_l.
Qed.

Theorem crc_step_correct crc c : 0 <= crc < 2 ^ 32 -> length c = 8%nat -> crc_step crc c = crc_byte_step crc (Z_of_bits c).
Proof. intros _. apply crc_step_correct'. Qed.

Lemma fold_crc_step cs : Forall (fun c => length c = 8%nat) cs -> forall init,
  fold_left crc_step cs init = fold_left crc_byte_step (map Z_of_bits cs) init.
Proof.
  induction 1 as [|c cs Hc F IH]; intros init; cbn [fold_left map]; [reflexivity|].
  rewrite crc_step_correct' by exact Hc. apply IH.
Qed.

(* the model of Buffer.chunks yields one (zero) chunk for the empty buffer, so the table-driven loop
   performs one step on the empty buffer: crc32c [] 0xffffffff = 2911022254 <> 0xffffffff.  The theorem
   holds for every non-empty buffer. *)
Lemma crc32c_empty_differs : crc32c [] 4294967295 <> crc32c_register (bytes_of_bits []).
Proof. vm_compute. discriminate. Qed.

Theorem crc32c_correct b : b <> [] -> crc32c b 4294967295 = crc32c_register (bytes_of_bits b).
Proof.
  intros Hb. unfold crc32c, crc32c_register, bytes_of_bits.
  rewrite fold_crc_step by (apply chunks_true_len; lia). rewrite chunks_words by (auto; lia). reflexivity.
Qed.

(* registers stay below 2^32 *)
Lemma lxor_bound n a b : 0 <= n -> 0 <= a < 2 ^ n -> 0 <= b < 2 ^ n -> 0 <= Z.lxor a b < 2 ^ n.
Proof.
  intros Hn Ha Hb. assert (Z.lxor a b = Z.lxor a b mod 2 ^ n) as E.
  { rewrite <- Z.land_ones by lia.
    rewrite <- (Z.mod_small a (2 ^ n)), <- (Z.mod_small b (2 ^ n)) at 1 by lia.
    rewrite <- !Z.land_ones by lia. apply Z.bits_inj'. intros i Hi.
    rewrite !Z.land_spec, !Z.lxor_spec, !Z.land_spec.
    destruct (Z.testbit a i), (Z.testbit b i), (Z.testbit (Z.ones n) i); reflexivity. }
  rewrite E. apply Z.mod_pos_bound. apply Z.pow_pos_nonneg; lia.
Qed.

Lemma crc_bit_step_range x : 0 <= x < 2 ^ 32 -> 0 <= crc_bit_step x < 2 ^ 32.
Proof.
  intros H. assert (0 <= Z.shiftr x 1 < 2 ^ 32) as Hs.
  { rewrite Z.shiftr_div_pow2 by lia. change (2 ^ 1) with 2.
    pose proof (Z.div_pos x 2).
    assert (x / 2 <= x) by (apply Z.div_le_upper_bound; lia). lia. }
  unfold crc_bit_step. destruct (Z.odd x); [|exact Hs].
  apply lxor_bound; [lia|exact Hs|]. change (2 ^ 32) with 4294967296. lia.
Qed.

Lemma iter_crc_range n : forall x, 0 <= x < 2 ^ 32 -> 0 <= iter n crc_bit_step x < 2 ^ 32.
Proof. induction n as [|n IH]; intros x H; cbn [iter]; [exact H|]. apply IH, crc_bit_step_range, H. Qed.

Lemma crc_byte_step_range crc byte : 0 <= crc < 2 ^ 32 -> 0 <= byte < 256 -> 0 <= crc_byte_step crc byte < 2 ^ 32.
Proof.
  intros Hc Hb. unfold crc_byte_step. apply iter_crc_range. apply lxor_bound; [lia|exact Hc|].
  change (2 ^ 32) with 4294967296. lia.
Qed.

Lemma crc32c_register_range bs : Forall (fun w => 0 <= w < 256) bs -> 0 <= crc32c_register bs < 2 ^ 32.
Proof.
  unfold crc32c_register. assert (0 <= 4294967295 < 2 ^ 32) as H0 by (change (2 ^ 32) with 4294967296; lia).
  revert H0. generalize 4294967295 as r. intros r Hr F. revert r Hr.
  induction F as [|w l Hw F IH]; intros r Hr; cbn [fold_left]; [exact Hr|].
  apply IH. apply crc_byte_step_range; auto.
Qed.

(* ---- SCTP checksum ---------------------------------------------------------------------------------------------- *)
Lemma negb_bits_32 x : map negb (bits_of 32 x) = bits_of 32 (Z.lxor x 4294967295).
Proof.
  rewrite <- bits_of_lnot. apply bits_of_ext. intros i Hi.
  rewrite Z.lnot_spec, Z.lxor_spec by lia. change 4294967295 with (Z.ones 32).
  rewrite Z.ones_spec_low by lia. now destruct (Z.testbit x i).
Qed.

Lemma rev_chunks_32 y : concat (rev (chunks 8 false (bits_of 32 y))) = le32 y.
Proof.
  rewrite chunks_gt by (rewrite ?bits_of_length; lia).
  rewrite (bits_of_skipn 8 32), (bits_of_firstn 8 32) by lia.
  rewrite chunks_gt by (rewrite ?bits_of_length; lia).
  rewrite (bits_of_skipn 8 (32 - 8)), (bits_of_firstn 8 (32 - 8)) by lia.
  rewrite chunks_gt by (rewrite ?bits_of_length; lia).
  rewrite (bits_of_skipn 8 (32 - 8 - 8)), (bits_of_firstn 8 (32 - 8 - 8)) by lia.
  rewrite chunks_le by (rewrite ?bits_of_length; lia).
  cbn [rev app concat]. rewrite app_nil_r. unfold le32.
  rewrite !Z.shiftr_div_pow2 by lia. reflexivity.
Qed.

(* if every field from the source port on is empty the model's crc32c performs one step on a zero chunk
   (see crc32c_empty_differs): the premise pkt <> [] is needed *)
Theorem c09_sctp_checksum fs pos : 3 <= pos < zlen fs ->
  let pkt := concat (skipn (Z.to_nat (pos - 3)) (vals fs)) in
  pkt <> [] ->
  sctp_checksum fs pos = Ok (rfc_sctp_checksum_field pkt).
Proof.
  intros Hp pkt Hne. pose proof (zlen_vals fs) as Zv.
  unfold sctp_checksum. rewrite py_slice_from' by lia.
  rewrite reduce_concat_skipn by (unfold zlen in *; lia). cbn [bind]. fold pkt.
  rewrite crc32c_correct by exact Hne.
  pose proof (crc32c_register_range (bytes_of_bits pkt) (words_range 8 pkt)) as R.
  rewrite uint_bits_ok by exact R. cbn [bind].
  rewrite negb_bits_32, rev_chunks_32. reflexivity.
Qed.

(* witness for the added premise: four empty fields from the source port on *)
Lemma sctp_empty_differs : let f := mkfid P_SCTP 0 in let fs := [(f, []); (f, []); (f, []); (f, [])] in
  sctp_checksum fs 3 <> Ok (rfc_sctp_checksum_field (concat (skipn (Z.to_nat (3 - 3)) (vals fs)))).
Proof. vm_compute. discriminate. Qed.

(* ---- sanity of the RFC-side definitions on published test vectors ------------------------------------------------- *)
(* CRC-32c check value of the ASCII string "123456789" is 0xE3069283 *)
Example crc32c_check_value : crc32c_value [49; 50; 51; 52; 53; 54; 55; 56; 57] = 3808858755.
Proof. vm_compute. reflexivity. Qed.
(* the IPv4 header 4500 0073 0000 4000 4011 (0000) c0a8 0001 c0a8 00c7 has checksum 0xb861 *)
Example ipv4_header_check_value :
  rfc_ipv4_header_checksum (concat (map (bits_of 16) [17664; 115; 0; 16384; 16401; 0; 49320; 1; 49320; 199])) = 47201.
Proof. vm_compute. reflexivity. Qed.
