(* Effects.v -- the effect model used for property C16.
   Gallina values are immutable, Python objects are not.  For the Buffer class the methods that
   assign to self (shift/pad with inplace=True, __setitem__) are modelled by returning the new value
   of the receiver; every other method has no assignment to an attribute of an operand in the
   (repaired) source, which the model reflects by not returning a new receiver at all.  What can be
   stated and proved here: the value computed does not depend on whether the method worked in place
   or on a copy, copying is the identity, and a context manager -- whose methods assign nothing after
   __init__ -- answers each call of any history as a fresh one would.  That the Python objects really
   are left untouched is checked by the harness (snapshots before/after every call). *)
From Coq Require Import ZArith List Bool.
From MS Require Import PyBase Buffer Bits ByteFacts BufferAbs BufShiftPad BufferSpec Schc.
Import ListNotations.
Open Scope Z_scope.

(* receiver after the call, returned buffer *)
Definition eff_shift (b : buf) (s : Z) (inplace : bool) : res (buf * buf) :=
  do r <- b_shift b s inplace ;; Ok (if inplace then r else b, r).
Definition eff_pad (b : buf) (sd : side) (inplace : bool) : res (buf * buf) :=
  do r <- b_pad b sd inplace ;;
  Ok (if inplace then (if side_eqb sd (bside b) then b else mkbuf (content r) (blen r) (bside r) (bpl b)) else b, r).

Lemma eff_shift_copy b s : canon b ->
  exists r, eff_shift b s false = Ok (b, r) /\ eff_shift b s true = Ok (r, r).
Proof.
  intros Hc. unfold eff_shift. rewrite <- (shift_inplace_irrelevant b s Hc).
  destruct (b_shift_spec b s true Hc) as (r & Hr & _). rewrite Hr. exists r. split; reflexivity.
Qed.

Lemma eff_pad_copy b sd : canon b ->
  exists r, eff_pad b sd false = Ok (b, r) /\ exists r', eff_pad b sd true = Ok (r', r) /\ abs r' = abs b /\ abs r = abs b.
Proof.
  intros Hc. unfold eff_pad. rewrite <- (pad_inplace_irrelevant b sd Hc).
  destruct (pad_bits b sd true Hc) as (r & Hr & Cr & Sr & Ar). rewrite Hr. cbn [bind].
  exists r. split; [reflexivity|]. eexists. split; [reflexivity|]. split; [|exact Ar].
  destruct (side_eqb sd (bside b)) eqn:E; [reflexivity|].
  destruct Cr as (_ & Hpl & _). destruct (b_pad_spec b sd true Hc) as (r2 & Hr2 & _ & _ & Lr2 & _).
  assert (r2 = r) by congruence. subst r2.
  unfold abs at 1. unfold num. cbn [blen bside content bpl].
  destruct Hc as (_ & Hplb & _). rewrite Hplb, <- Lr2, <- Hpl. exact Ar.
Qed.

(* ---- a context manager over a history of calls ---------------------------------------------- *)
Inductive call := CCompress (packet : bits) (d : dir) (st : strategy) | CDecompress (s : bits) (d : option dir).
Record manager := mkmgr { m_parse : parser; m_rules : list rule }.

(* ContextManager.compress / .decompress assign no attribute of self, of the context or of a rule:
   the manager after the call is the manager before the call *)
Definition step (ct : compute_table) (m : manager) (c : call) : manager * res bits :=
  (m, match c with
      | CCompress p d st => cm_compress (m_parse m) (m_rules m) p d st
      | CDecompress s d => cm_decompress ct (m_rules m) s d
      end).

Fixpoint run (ct : compute_table) (m : manager) (h : list call) : list (res bits) :=
  match h with [] => [] | c :: r => let '(m', o) := step ct m c in o :: run ct m' r end.

Lemma run_fresh ct m h : run ct m h = map (fun c => snd (step ct m c)) h.
Proof. induction h as [|c h IH]; cbn [run map step snd]; [reflexivity|]. now rewrite IH. Qed.

Lemma run_app ct m h1 h2 : run ct m (h1 ++ h2) = run ct m h1 ++ run ct m h2.
Proof. rewrite !run_fresh. apply map_app. Qed.
