(* EndToEnd.v -- byte-level END-TO-END corollaries.  Three layers of theorems are composed:
   (a) ParserRefine : the byte-level parsers (ParserBytes.v, written with the Buffer operations)
       refine the bit-level parsers of Parsers.v on canonical left-padded packet buffers;
   (b) ParserTiling : the bit-level parsers tile the packet (C07) and are total (C14);
   (c) SchcRefine + SchcRoundtrip : the byte-level compressor / decompressor (SchcBytes.v) refine the
       bit-level ones of Schc.v, which satisfy the round-trip theorems (C01).
   The results speak about raw packet BYTES (a Buffer b, canonical, left padded: the library's
   default for a packet) and about the byte-level functions only; the bit level appears in the
   hypotheses on the rule (the domain rule_ok_dec of C01) and through abs. *)
From Coq Require Import ZArith List Bool Lia.
From MS Require Import PyBase Buffer Bits ByteFacts BufferAbs BufNew BufferSpec Schc SchcSpec SchcCodec SchcRules
  SchcRoundtrip SchcBytes SchcRefine Parsers ParserTiling ParserBytes ParserRefine.
Import ListNotations.
Open Scope Z_scope.

(* ---- transfer lemmas: from the byte-level outcome to the bit-level outcome ---------------------- *)
(* (ParserRefine.bfactory_ok / bfactory_exc go from the bit level to the byte level) *)
Lemma bfactory_ok_inv s b bfs bpl : canon b -> bside b = LEFT -> bfactory s b = Ok (bfs, bpl) ->
  factory s (abs b) = Ok (map (abs_field abs) bfs, abs bpl) /\
  Forall canon_bfield bfs /\ canon bpl /\ bside bpl = LEFT.
Proof.
  intros Hb Hs E. pose proof (bfactory_refines s b Hb Hs) as H. rewrite E in H.
  destruct (factory s (abs b)) as [[fs pl]| |]; cbn [same_outcome] in H; try contradiction.
  destruct H as (Hf & Hp & Hc & Cp & Sp). cbn [fst snd] in *. subst fs pl. auto.
Qed.

Lemma bfactory_exc_inv s b e : canon b -> bside b = LEFT -> bfactory s b = Exc e -> factory s (abs b) = Exc e.
Proof.
  intros Hb Hs E. pose proof (bfactory_refines s b Hb Hs) as H. rewrite E in H.
  destruct (factory s (abs b)) as [[fs pl]| |]; cbn [same_outcome] in H; try contradiction. now subst.
Qed.

Lemma bfactory_diverge_inv s b : canon b -> bside b = LEFT -> bfactory s b = Diverge -> factory s (abs b) = Diverge.
Proof.
  intros Hb Hs E. pose proof (bfactory_refines s b Hb Hs) as H. rewrite E in H.
  destruct (factory s (abs b)) as [[fs pl]| |]; cbn [same_outcome] in H; try contradiction. reflexivity.
Qed.

(* the byte-level packet descriptor built from the byte-level parse is canonical and denotes the
   bit-level descriptor of the bit-level parse *)
Lemma bfactory_pdesc s b bfs bpl d : canon b -> bside b = LEFT -> bfactory s b = Ok (bfs, bpl) ->
  canon_pdesc (mkbpdesc d bfs bpl) /\
  abs_pdesc abs (mkbpdesc d bfs bpl) = mkpdesc d (map (abs_field abs) bfs) (abs bpl).
Proof.
  intros Hb Hs E. destruct (bfactory_ok_inv s b bfs bpl Hb Hs E) as (_ & Hc & Cp & _).
  split; [split; [exact Hc|exact Cp]|reflexivity].
Qed.

(* ---- 1. C07 at the byte level: the parsed fields and the payload tile the packet ----------------- *)
Theorem bfactory_tiles s b bfs bpl : canon b -> bside b = LEFT -> bfactory s b = Ok (bfs, bpl) ->
  concat (map (fun f => abs (bf_val f)) bfs) ++ abs bpl = abs b.
Proof.
  intros Hb Hs E. destruct (bfactory_ok_inv s b bfs bpl Hb Hs E) as (F & _).
  apply packet_tiles in F. rewrite map_map in F. exact F.
Qed.

(* the same in bit counts: the field lengths and the payload length add up to the packet length *)
Corollary bfactory_tiles_length s b bfs bpl : canon b -> bside b = LEFT -> bfactory s b = Ok (bfs, bpl) ->
  fold_right (fun f n => blen (bf_val f) + n) 0 bfs + blen bpl = blen b.
Proof.
  intros Hb Hs E. pose proof (bfactory_tiles s b bfs bpl Hb Hs E) as T.
  destruct (bfactory_ok_inv s b bfs bpl Hb Hs E) as (_ & Hc & Cp & _).
  rewrite <- (zlen_abs b Hb), <- T. unfold zlen at 1. rewrite app_length, Nat2Z.inj_add.
  fold (zlen (abs bpl)). rewrite (zlen_abs bpl Cp).
  assert (Z.of_nat (length (concat (map (fun f => abs (bf_val f)) bfs))) =
          fold_right (fun f n => blen (bf_val f) + n) 0 bfs) as ->; [|reflexivity].
  clear E T. induction Hc as [|f l [Cf _] Hl IH]; [reflexivity|].
  cbn [map concat fold_right]. rewrite app_length, Nat2Z.inj_add, IH.
  fold (zlen (abs (bf_val f))). now rewrite (zlen_abs _ Cf).
Qed.

(* ---- 2. C14 at the byte level: Ok or ParserError, nothing else ------------------------------------ *)
Theorem bfactory_total s b : canon b -> bside b = LEFT -> parser_outcome (bfactory s b).
Proof.
  intros Hb Hs. pose proof (factory_total s (abs b)) as T.
  destruct (bfactory s b) as [[bfs bpl]|e|] eqn:E; cbn [parser_outcome]; [exact I| |].
  - rewrite (bfactory_exc_inv s b e Hb Hs E) in T. exact T.
  - rewrite (bfactory_diverge_inv s b Hb Hs E) in T. exact T.
Qed.

(* ---- bridging lemma: "no compute action" at the bit level and at the byte level ------------------- *)
Lemma no_compute_abs d fds :
  forallb (fun rf => match r_cda rf with Compute => false | _ => true end) (select_fds d (map (abs_rfd abs) fds)) =
  forallb (fun rf => match br_cda rf with Compute => false | _ => true end) (bselect_fds d fds).
Proof.
  rewrite select_fds_abs. induction (bselect_fds d fds) as [|f l IH]; [reflexivity|].
  cbn [map forallb abs_rfd r_cda]. now rewrite IH.
Qed.

(* two canonical buffers with the same bits are equal for Buffer.__eq__ (whatever their padding sides) *)
Lemma b_eq_same_bits x y : canon x -> canon y -> abs x = abs y -> b_eq x y = Ok true.
Proof. intros Hx Hy E. rewrite eq_bits by assumption. rewrite E. now rewrite SchcRules.bits_eqb_refl. Qed.

(* ---- 3. C01 end to end at the byte level, rules without compute actions --------------------------- *)
(* packet bytes --parse--> byte-level descriptor --compress--> SCHC packet --decompress--> packet bits.
   The hypotheses on the rule are those of C01.c01_roundtrip_plain, read through abs. *)
Theorem bytes_roundtrip_plain ct s b bfs bpl r d :
  canon b -> bside b = LEFT -> canon_rule r -> bfactory s b = Ok (bfs, bpl) ->
  let pd := abs_pdesc abs (mkbpdesc d bfs bpl) in
  let r' := abs_rule abs r in
  rule_ok_dec ct d pd r' -> spec_rule_applies pd r' = true ->
  forallb (fun rf => match r_cda rf with Compute => false | _ => true end) (select_fds (Some d) (rule_fds r')) = true ->
  exists x y, bcompress (mkbpdesc d bfs bpl) r (Some d) = Ok x /\ canon x /\
              bdecompress x r (Some d) = Ok y /\ canon y /\ abs y = abs b /\ b_eq y b = Ok true.
Proof.
  intros Hb Hs Hr E pd r' Hok HA HNC.
  destruct (bfactory_pdesc s b bfs bpl d Hb Hs E) as (Cpd & Apd).
  pose proof (bfactory_tiles s b bfs bpl Hb Hs E) as T.
  destruct (c01_roundtrip_nocompute ct d pd r' eq_refl Hok HA HNC) as (s0 & Ec & Ed).
  destruct (bcompress_refines _ r (Some d) s0 Cpd Hr Ec) as (x & Ex & Cx & Ax).
  subst r'. cbn [abs_rule rule_fds] in HNC. rewrite no_compute_abs in HNC.
  rewrite <- Ax in Ed.
  destruct (bdecompress_refines ct x r (Some d) _ Cx Hr HNC Ed) as (y & Ey & Cy & Ay).
  assert (abs y = abs b) as Ab by (rewrite Ay; subst pd; rewrite Apd; cbn [pd_fields pd_payload]; rewrite map_map; exact T).
  exists x, y. split; [exact Ex|]. split; [exact Cx|]. split; [exact Ey|]. split; [exact Cy|].
  split; [exact Ab|apply b_eq_same_bits; assumption].
Qed.

(* ---- 4. the same for a no-compression rule --------------------------------------------------------- *)
Theorem bytes_roundtrip_nocompression s b bfs bpl r d :
  canon b -> bside b = LEFT -> canon_rule r -> bfactory s b = Ok (bfs, bpl) ->
  brule_nature r = NoCompression -> brule_fds r = [] ->
  exists x y, bcompress (mkbpdesc d bfs bpl) r (Some d) = Ok x /\ canon x /\
              bdecompress x r (Some d) = Ok y /\ canon y /\ abs y = abs b /\ b_eq y b = Ok true.
Proof.
  intros Hb Hs Hr E HN HF.
  destruct (bfactory_pdesc s b bfs bpl d Hb Hs E) as (Cpd & Apd).
  pose proof (bfactory_tiles s b bfs bpl Hb Hs E) as T.
  set (pd := abs_pdesc abs (mkbpdesc d bfs bpl)) in *.
  assert (rule_fds (abs_rule abs r) = []) as HF' by (cbn [abs_rule rule_fds]; now rewrite HF).
  destruct (c01_roundtrip_nocompression (fun _ => None) d pd (abs_rule abs r) HN HF') as (s0 & Ec & Ed).
  destruct (bcompress_refines _ r (Some d) s0 Cpd Hr Ec) as (x & Ex & Cx & Ax).
  rewrite <- Ax in Ed.
  assert (forallb (fun rf => match br_cda rf with Compute => false | _ => true end)
            (bselect_fds (Some d) (brule_fds r)) = true) as HNC by (now rewrite HF).
  destruct (bdecompress_refines _ x r (Some d) _ Cx Hr HNC Ed) as (y & Ey & Cy & Ay).
  assert (abs y = abs b) as Ab by (rewrite Ay; subst pd; rewrite Apd; cbn [pd_fields pd_payload]; rewrite map_map; exact T).
  exists x, y. split; [exact Ex|]. split; [exact Cx|]. split; [exact Ey|]. split; [exact Cy|].
  split; [exact Ab|apply b_eq_same_bits; assumption].
Qed.

(* ---- 5. non-vacuity: a UDP packet (8 header bytes + 3 payload bytes), a rule using four pairings ---- *)
Definition ex_packet : buf := mkbuf [18; 52; 0; 7; 0; 11; 0; 0; 1; 2; 3] 88 LEFT 0.
Definition ex_rule : brule :=
  mkbrule (mkbuf [2] 2 LEFT 6) Compression
    [mkbrfd (mkfid P_UDP 0) 16 0 Bi (BTVbuf (mkbuf [18] 8 LEFT 0)) MO_msb LSB;
     mkbrfd (mkfid P_UDP 1) 16 0 Bi (BTVmap [(mkbuf [0; 9] 16 LEFT 0, mkbuf [0] 1 LEFT 7);
                                             (mkbuf [0; 7] 16 LEFT 0, mkbuf [1] 1 LEFT 7)]) MO_mapping MappingSent;
     mkbrfd (mkfid P_UDP 2) 16 0 Bi (BTVbuf (mkbuf [0; 11] 16 LEFT 0)) MO_equal NotSent;
     mkbrfd (mkfid P_UDP 3) 0 0 Bi (BTVbuf (mkbuf [] 0 LEFT 0)) MO_ignore ValueSent].


Ltac canon_concrete :=
  unfold canon; cbn [content blen bside bpl]; repeat split; try (repeat constructor; lia); try reflexivity; try lia.

Example ex_packet_canon : canon ex_packet.
Proof. unfold ex_packet. canon_concrete. Qed.

Example ex_rule_canon : canon_rule ex_rule.
Proof.
  unfold ex_rule. split; cbn [brule_id brule_fds]; [canon_concrete|].
  repeat constructor; unfold canon_rfd; cbn [br_tv canon_tv fst snd]; canon_concrete.
Qed.

(* the theorem applies: every hypothesis holds for the example (the compute table is irrelevant here) *)
Example bytes_roundtrip_ex : exists bfs bpl x y,
  bfactory S_UDP ex_packet = Ok (bfs, bpl) /\
  bcompress (mkbpdesc Up bfs bpl) ex_rule (Some Up) = Ok x /\ canon x /\
  bdecompress x ex_rule (Some Up) = Ok y /\ canon y /\ abs y = abs ex_packet /\ b_eq y ex_packet = Ok true.
Proof.
  destruct (bfactory S_UDP ex_packet) as [[bfs bpl]| |] eqn:E; vm_compute in E; try discriminate E.
  injection E as <- <-. do 2 eexists.
  match goal with |- exists x y, _ = Ok (?f, ?p) /\ _ =>
    destruct (bytes_roundtrip_plain (fun _ => None) S_UDP ex_packet f p ex_rule Up ex_packet_canon eq_refl ex_rule_canon)
      as (x & y & H) end.
  - vm_compute. reflexivity.
  - vm_compute. repeat split.
  - vm_compute. reflexivity.
  - vm_compute. reflexivity.
  - exists x, y. split; [reflexivity|exact H].
Qed.

(* and the computation itself: the SCHC packet has 63 bits (2 rule id + 8 LSB + 1 index + 4 size + 16
   checksum + 24 payload, 8 bytes instead of 11); decompression returns the packet bytes *)
Example bytes_roundtrip_ex_values :
  (do p <- bfactory S_UDP ex_packet ;;
   do x <- bcompress (mkbpdesc Up (fst p) (snd p)) ex_rule (Some Up) ;;
   do y <- bdecompress x ex_rule (Some Up) ;; Ok (content x, blen x, content y, blen y)) =
  Ok ([141; 62; 32; 0; 0; 2; 4; 6], 63, content ex_packet, blen ex_packet).
Proof. vm_compute. reflexivity. Qed.

(* tiling and totality on the example *)
Example bfactory_tiles_ex : exists bfs bpl, bfactory S_UDP ex_packet = Ok (bfs, bpl) /\
  concat (map (fun f => abs (bf_val f)) bfs) ++ abs bpl = abs ex_packet /\ length bfs = 4%nat /\ blen bpl = 24.
Proof.
  destruct (bfactory S_UDP ex_packet) as [[bfs bpl]| |] eqn:E; vm_compute in E; try discriminate E.
  exists bfs, bpl. split; [reflexivity|]. split.
  - apply (bfactory_tiles S_UDP ex_packet); [exact ex_packet_canon|reflexivity|]. rewrite <- E. vm_compute. reflexivity.
  - injection E as <- <-. split; reflexivity.
Qed.

(* ---- a no-compression rule reproduces any packet a stack parser accepts (bit level; used by props/C07.v) ---- *)
Lemma packet_no_compression ct s b fs pl r d : factory s b = Ok (fs, pl) -> rule_nature r = NoCompression -> rule_fds r = [] ->
  exists c, compress (mkpdesc Up fs pl) r d = Ok c /\ decompress ct c r d = Ok b.
Proof.
  intros H Hn Hf. exists (rule_id r ++ b). split.
  - apply compress_layout. unfold layout. rewrite Hn. cbn [pd_fields pd_payload]. now rewrite (packet_tiles s b fs pl H).
  - apply decompress_nocompression. exact Hf.
Qed.

(* ---- small corollaries used verbatim by the property files (props/C02.v, props/C15.v) ------------------- *)
Lemma compress_no_compression pd r d : rule_nature r = NoCompression ->
  compress pd r d = Ok (rule_id r ++ concat (map f_val (pd_fields pd)) ++ pd_payload pd).
Proof. intros H. apply compress_layout. unfold layout. rewrite H. reflexivity. Qed.

Lemma bcompress_layout pd r d s : canon_pdesc pd -> canon_rule r ->
  layout (abs_pdesc abs pd) (abs_rule abs r) d = Some s ->
  exists x, bcompress pd r d = Ok x /\ canon x /\ abs x = s.
Proof. intros Hp Hr Hl. apply (bcompress_refines pd r d s Hp Hr). apply compress_layout. exact Hl. Qed.

Lemma cm_compress_nomatch_first parse rules packet d fs pl :
  parse packet = Ok (fs, pl) -> forallb rule_typed rules = true ->
  filter (spec_rule_applies (mkpdesc d fs pl)) rules = [] ->
  cm_compress parse rules packet d FIRST = Exc RuleDescriptorMatchError.
Proof. intros H1 H2 H3. rewrite (cm_compress_first parse rules packet d fs pl H1 H2). cbv zeta. rewrite H3. reflexivity. Qed.

Lemma cm_compress_nomatch_best parse rules packet d fs pl :
  parse packet = Ok (fs, pl) -> forallb rule_typed rules = true ->
  filter (spec_rule_applies (mkpdesc d fs pl)) rules = [] ->
  cm_compress parse rules packet d BEST = Exc RuleDescriptorMatchError.
Proof.
  intros H1 H2 H3. pose proof (cm_compress_best parse rules packet d fs pl H1 H2) as H. cbv zeta in H.
  rewrite H3 in H. apply H. intros r [].
Qed.
