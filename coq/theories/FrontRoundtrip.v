(* C15, last clause: "what it compresses it also decompresses back" -- the multi-context front end /repo/microschc.py.
   If the front end compresses packet p with context c (the contexts before c fall through: parser error or no matching rule), then,
   provided no rule id of an EARLIER context is a prefix of the SCHC packet (rule ids prefix-free across the contexts of an interface:
   a configuration precondition, the front end has no other way to find the context again) and c's own manager round-trips (C01),
   SCHC.decompress gives p back.  The premise on earlier contexts is necessary: ManagerBytes.mex_front_passthrough is a front end whose
   first context claims the frame of another. *)
From Coq Require Import ZArith List Bool Lia.
From MS Require Import PyBase Buffer Bits ByteFacts Schc SchcSpec SchcCodec SchcRules SchcRoundtrip.
Import ListNotations.
Open Scope Z_scope.

Lemma schc_compress_reaches pre c post p :
  Forall (fun c' => falls_through (cm_compress (ctx_parse c') (ctx_rules c') p Up FIRST) = true) pre ->
  schc_compress (pre ++ c :: post) p = schc_compress (c :: post) p.
Proof.
  induction 1 as [|c' cs H _ IH]; [reflexivity|]. cbn [app]. rewrite schc_compress_skip by exact H. exact IH.
Qed.

Lemma schc_decompress_reaches ct pre c post s :
  Forall (fun c' => forall r, In r (ctx_rules c') -> is_prefix (rule_id r) s = false) pre ->
  schc_decompress ct (pre ++ c :: post) s = schc_decompress ct (c :: post) s.
Proof.
  induction 1 as [|c' cs H _ IH]; [reflexivity|]. cbn [app]. rewrite schc_decompress_skip; [exact IH|].
  unfold cm_decompress. rewrite (match_schc_packet_none (ctx_rules c') s H). reflexivity.
Qed.

Theorem front_roundtrip ct pre c post p s :
  Forall (fun c' => falls_through (cm_compress (ctx_parse c') (ctx_rules c') p Up FIRST) = true) pre ->
  cm_compress (ctx_parse c) (ctx_rules c) p Up FIRST = Ok s ->
  Forall (fun c' => forall r, In r (ctx_rules c') -> is_prefix (rule_id r) s = false) pre ->
  cm_decompress ct (ctx_rules c) s (Some Up) = Ok p ->
  schc_compress (pre ++ c :: post) p = Ok s /\ schc_decompress ct (pre ++ c :: post) s = Ok p.
Proof.
  intros F C N D. split.
  - rewrite (schc_compress_reaches pre c post p F). rewrite schc_compress_take; [exact C|]. rewrite C. reflexivity.
  - rewrite (schc_decompress_reaches ct pre c post s N). rewrite schc_decompress_take; [exact D|]. rewrite D. discriminate.
Qed.

(* with the manager round trip of C01 (SchcRules.c01_manager_rules) for the context that takes the packet *)
Theorem front_roundtrip_c01 ct pre c post p fs pl :
  Forall (fun c' => falls_through (cm_compress (ctx_parse c') (ctx_rules c') p Up FIRST) = true) pre ->
  ctx_parse c p = Ok (fs, pl) -> concat (map f_val fs) ++ pl = p ->
  prefix_free (ctx_rules c) -> forallb rule_typed (ctx_rules c) = true ->
  (forall r, In r (ctx_rules c) -> spec_rule_applies (mkpdesc Up fs pl) r = true ->
     (rule_nature r = NoCompression /\ rule_fds r = []) \/
     (rule_ok_dec ct Up (mkpdesc Up fs pl) r /\
      let rfs := select_fds (Some Up) (rule_fds r) in
      ce_sorted (centries_of ct 0 rfs) = true /\ (length (centries_of ct 0 rfs) < 64)%nat /\
      run_computes (centries_of ct 0 rfs) (combine (map r_id rfs) (map2 pre_value rfs fs) ++ [(payload_fid, pl)])
        = Ok (combine (map r_id rfs) (map f_val fs) ++ [(payload_fid, pl)]))) ->
  forall s, cm_compress (ctx_parse c) (ctx_rules c) p Up FIRST = Ok s ->
  Forall (fun c' => forall r, In r (ctx_rules c') -> is_prefix (rule_id r) s = false) pre ->
  schc_compress (pre ++ c :: post) p = Ok s /\ schc_decompress ct (pre ++ c :: post) s = Ok p.
Proof.
  intros F HP HT PF RT OK s C N. apply front_roundtrip; try assumption.
  exact (c01_manager_rules ct (ctx_parse c) (ctx_rules c) p Up FIRST fs pl HP HT PF RT OK s C).
Qed.

(* non-vacuity: the three contexts of ManagerBytes.mex_ctxs read as bit-level contexts (an IPv6 context that cannot parse the UDP packet,
   a UDP context whose only rule does not match, a UDP context that compresses) and the packet mex_packet: every premise of
   front_roundtrip holds, hence its conclusion *)
From MS Require Import BufferAbs Parsers Compute SchcBytes ManagerBytes.
Definition fr_pre : list context :=
  [mkctx (factory S_IPv6) [abs_rule abs mex_nocomp]; mkctx (factory S_UDP) [abs_rule abs mex_other]].
Definition fr_c : context := mkctx (factory S_UDP) [abs_rule abs mex_rule1; abs_rule abs mex_rule2].
Example front_roundtrip_ex : exists s,
  Forall (fun c' => falls_through (cm_compress (ctx_parse c') (ctx_rules c') (abs mex_packet) Up FIRST) = true) fr_pre /\
  cm_compress (ctx_parse fr_c) (ctx_rules fr_c) (abs mex_packet) Up FIRST = Ok s /\
  Forall (fun c' => forall r, In r (ctx_rules c') -> is_prefix (rule_id r) s = false) fr_pre /\
  cm_decompress compute_functions (ctx_rules fr_c) s (Some Up) = Ok (abs mex_packet).
Proof.
  destruct (cm_compress (ctx_parse fr_c) (ctx_rules fr_c) (abs mex_packet) Up FIRST) as [s| |] eqn:E;
    [|vm_compute in E; discriminate E|vm_compute in E; discriminate E].
  exists s. vm_compute in E. injection E as <-.
  split; [repeat constructor|]. split; [reflexivity|]. split; [|vm_compute; reflexivity].
  repeat constructor; intros r [<-|[]]; vm_compute; reflexivity.
Qed.
