(* C15 "what it compresses it also decompresses back", on Buffers: the byte-level front end (ManagerBytes.bschc_compress /
   bschc_decompress = /repo/microschc.py SCHC.compress / SCHC.decompress on Buffer values).  Whenever the bit-level front end
   round-trips (FrontRoundtrip.front_roundtrip gives the conditions), the byte-level one returns canonical Buffers with the same bits:
   b_eq of the decompressed Buffer and the packet is True. *)
From Coq Require Import ZArith List Bool Lia.
From MS Require Import PyBase Buffer Bits ByteFacts BufferAbs BufferSpec Schc SchcSpec SchcRules Compute SchcBytes SchcRefine
  ParserBytes ParserRefine ComputeBytes ComputeRefine ManagerBytes ManagerRefine FrontRoundtrip.
Import ListNotations.
Open Scope Z_scope.

Lemma ctx_rel_rules bctxs ctxs : Forall2 ctx_rel bctxs ctxs -> Forall2 ctx_rules_rel bctxs ctxs.
Proof. induction 1 as [|bc c bs cs (_ & Hr & Er) _ IH]; constructor; [split; assumption|exact IH]. Qed.

Theorem bfront_roundtrip bctxs ctxs packet s : Forall2 ctx_rel bctxs ctxs -> canon packet -> bside packet = LEFT ->
  schc_compress ctxs (abs packet) = Ok s -> schc_decompress compute_functions ctxs s = Ok (abs packet) ->
  exists x y, bschc_compress bctxs packet = Ok x /\ canon x /\ abs x = s /\
              bschc_decompress bctxs x = Ok y /\ canon y /\ abs y = abs packet /\ b_eq y packet = Ok true.
Proof.
  intros H Hp Hl C D.
  pose proof (bschc_compress_refines bctxs ctxs packet H Hp Hl) as R. rewrite C in R. specialize (R ltac:(discriminate)).
  destruct (bschc_compress bctxs packet) as [x|e|] eqn:Ex; cbn in R; try contradiction. destruct R as [Cx Ax].
  pose proof (bschc_decompress_refines bctxs ctxs x (ctx_rel_rules _ _ H) Cx) as R. rewrite Ax, D in R.
  destruct (bschc_decompress bctxs x) as [y|e|] eqn:Ey; cbn in R; try contradiction. destruct R as [Cy Ay].
  exists x, y. split; [reflexivity|]. split; [exact Cx|]. split; [exact Ax|]. split; [exact Ey|]. split; [exact Cy|]. split; [exact Ay|].
  rewrite (eq_bits y packet Cy Hp), Ay. f_equal. apply bits_eqb_eq. reflexivity.
Qed.

(* composed with FrontRoundtrip.front_roundtrip: the context that takes the packet is reached, found again, and round-trips *)
Theorem bfront_roundtrip_ctx bpre bc bpost pre c post packet s :
  Forall2 ctx_rel (bpre ++ bc :: bpost) (pre ++ c :: post) -> canon packet -> bside packet = LEFT ->
  Forall (fun c' => falls_through (cm_compress (ctx_parse c') (ctx_rules c') (abs packet) Up FIRST) = true) pre ->
  cm_compress (ctx_parse c) (ctx_rules c) (abs packet) Up FIRST = Ok s ->
  Forall (fun c' => forall r, In r (ctx_rules c') -> is_prefix (rule_id r) s = false) pre ->
  cm_decompress compute_functions (ctx_rules c) s (Some Up) = Ok (abs packet) ->
  exists x y, bschc_compress (bpre ++ bc :: bpost) packet = Ok x /\ canon x /\ abs x = s /\
              bschc_decompress (bpre ++ bc :: bpost) x = Ok y /\ canon y /\ abs y = abs packet /\ b_eq y packet = Ok true.
Proof.
  intros H Hp Hl F C N D.
  destruct (front_roundtrip compute_functions pre c post (abs packet) s F C N D) as [E1 E2].
  exact (bfront_roundtrip _ _ packet s H Hp Hl E1 E2).
Qed.
