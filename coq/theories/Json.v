(* Json.v -- model of the JSON (de)serialisation of microschc: __json__ / __from_json_object__ of
   Buffer (binary/buffer.py), MatchMapping, FieldDescriptor, HeaderDescriptor, PacketDescriptor, RuleFieldDescriptor,
   RuleDescriptor (rfc8724.py) and Context (rfc8724extras.py), over a JSON tree.  json.dumps/loads,
   bytes.hex/fromhex and the str <-> enum conversions are trusted: a hex string is represented by
   the bytes it spells, an enum value by its member.  Buffers are the byte-level buffers of Buffer.v:
   loading goes through the constructor b_new.  Definitions only. *)
From Coq Require Import ZArith List Bool.
From MS Require Import PyBase Buffer Schc.
Import ListNotations.
Open Scope Z_scope.

Inductive jkey :=
| K_content | K_length | K_padding | K_index | K_value | K_id | K_position | K_fields | K_direction | K_payload | K_raw
| K_target_value | K_matching_operator | K_cda | K_nature | K_field_descriptors
| K_description | K_interface_id | K_parser_id | K_ruleset.
Definition jkey_eqb (a b : jkey) : bool :=
  match a, b with
  | K_content, K_content | K_length, K_length | K_padding, K_padding | K_index, K_index | K_value, K_value | K_id, K_id
  | K_position, K_position | K_fields, K_fields | K_direction, K_direction | K_payload, K_payload | K_raw, K_raw
  | K_target_value, K_target_value | K_matching_operator, K_matching_operator | K_cda, K_cda | K_nature, K_nature
  | K_field_descriptors, K_field_descriptors | K_description, K_description | K_interface_id, K_interface_id
  | K_parser_id, K_parser_id | K_ruleset, K_ruleset => true
  | _, _ => false
  end.

Inductive json :=
| JHex (bs : list Z)        (* a hex string *)
| JNum (n : Z)
| JSide (s : side) | JDir (d : dir) | JMo (m : mo) | JCda (c : cda) | JNature (n : nature)   (* enum value strings *)
| JFid (f : fid)            (* a field id string *)
| JText (t : Z)             (* any other string, interned *)
| JList (l : list json)
| JObj (l : list (jkey * json)).

(* json_object[key] : KeyError when absent, TypeError when json_object is not a dict *)
Fixpoint assoc_key (l : list (jkey * json)) (k : jkey) : res json :=
  match l with
  | [] => Exc KeyError
  | (k', v) :: r => if jkey_eqb k' k then Ok v else assoc_key r k
  end.
Definition jget (j : json) (k : jkey) : res json :=
  match j with JObj l => assoc_key l k | _ => Exc TypeError end.

(* ---- the object model at the byte level ------------------------------------------------------ *)
Inductive jtv := JTVbuf (b : buf) | JTVmap (forward : list (buf * buf)).
Record jrfd := mkjrfd { j_id : fid; j_len : Z; j_pos : Z; j_dir : dir; j_tv : jtv; j_mo : mo; j_cda : cda }.
Record jrule := mkjrule { jr_id : buf; jr_nature : nature; jr_fds : list jrfd }.
Record jfield := mkjfield { jf_id : fid; jf_val : buf; jf_pos : Z }.
Record jheader := mkjheader { jh_id : Z; jh_length : Z; jh_fields : list jfield }.
Record jpdesc := mkjpdesc { jp_dir : dir; jp_fields : list jfield; jp_payload : buf; jp_raw : buf }.
Record jcontext := mkjctx { jc_id : Z; jc_description : Z; jc_interface : Z; jc_parser : Z; jc_rules : list jrule }.

(* ---- Buffer ---------------------------------------------------------------------------------- *)
Definition buf_to_json (b : buf) : json :=
  JObj [(K_content, JHex (content b)); (K_length, JNum (blen b)); (K_padding, JSide (bside b))].
Definition buf_from_json (j : json) : res buf :=
  do c <- jget j K_content ;; do l <- jget j K_length ;; do p <- jget j K_padding ;;
  match c, l, p with
  | JHex bs, JNum n, JSide s => b_new bs n s
  | _, _, _ => Exc TypeError
  end.

(* ---- MatchMapping ---------------------------------------------------------------------------- *)
(* __init__: reverse = {v: k for k, v in forward.items()} *)
Definition mm_reverse (forward : list (buf * buf)) : res (list (buf * buf)) :=
  dict_of_list [] (map (fun kv => (snd kv, fst kv)) forward).
(* __json__: [{'index': k, 'value': v} for k, v in reverse.items()] *)
Definition mm_to_json (forward : list (buf * buf)) : res json :=
  do rv <- mm_reverse forward ;;
  Ok (JList (map (fun kv => JObj [(K_index, buf_to_json (fst kv)); (K_value, buf_to_json (snd kv))]) rv)).
(* __from_json_object__: forward[value] = index for each entry *)
Fixpoint mm_from_entries (l : list json) (fw : list (buf * buf)) : res (list (buf * buf)) :=
  match l with
  | [] => Ok fw
  | e :: r =>
    do ji <- jget e K_index ;; do i <- buf_from_json ji ;;
    do jv <- jget e K_value ;; do v <- buf_from_json jv ;;
    do fw' <- dict_set fw v i ;;
    mm_from_entries r fw'
  end.
Definition mm_from_json (j : json) : res (list (buf * buf)) :=
  match j with JList l => mm_from_entries l [] | _ => Exc TypeError end.

(* ---- FieldDescriptor, PacketDescriptor ------------------------------------------------------- *)
Definition field_to_json (f : jfield) : json :=
  JObj [(K_id, JFid (jf_id f)); (K_value, buf_to_json (jf_val f)); (K_position, JNum (jf_pos f))].
Definition field_from_json (j : json) : res jfield :=
  do i <- jget j K_id ;; do jv <- jget j K_value ;; do v <- buf_from_json jv ;; do p <- jget j K_position ;;
  match i, p with JFid f, JNum n => Ok (mkjfield f v n) | _, _ => Exc TypeError end.

(* HeaderDescriptor (what a header parser returns): id (a protocol name, interned), length, fields *)
Definition header_to_json (h : jheader) : json :=
  JObj [(K_id, JText (jh_id h)); (K_length, JNum (jh_length h)); (K_fields, JList (map field_to_json (jh_fields h)))].
Definition header_from_json (j : json) : res jheader :=
  do i <- jget j K_id ;; do n <- jget j K_length ;; do fs <- jget j K_fields ;;
  match fs with
  | JList l =>
    do fl <- mapM field_from_json l ;;
    match i, n with JText t, JNum n => Ok (mkjheader t n fl) | _, _ => Exc TypeError end
  | _ => Exc TypeError
  end.

Definition pdesc_to_json (p : jpdesc) : json :=
  JObj [(K_direction, JDir (jp_dir p)); (K_fields, JList (map field_to_json (jp_fields p)));
        (K_payload, buf_to_json (jp_payload p)); (K_raw, buf_to_json (jp_raw p)); (K_length, JNum (blen (jp_raw p)))].
Definition pdesc_from_json (j : json) : res jpdesc :=
  do d <- jget j K_direction ;; do fs <- jget j K_fields ;;
  match d, fs with
  | JDir d, JList l =>
    do fl <- mapM field_from_json l ;;
    do jp <- jget j K_payload ;; do pl <- buf_from_json jp ;;
    do jr <- jget j K_raw ;; do raw <- buf_from_json jr ;;
    Ok (mkjpdesc d fl pl raw)
  | _, _ => Exc TypeError
  end.

(* ---- RuleFieldDescriptor --------------------------------------------------------------------- *)
Definition tv_to_json (t : jtv) : res json :=
  match t with JTVbuf b => Ok (buf_to_json b) | JTVmap fw => mm_to_json fw end.
Definition rfd_to_json (f : jrfd) : res json :=
  do t <- tv_to_json (j_tv f) ;;
  Ok (JObj [(K_id, JFid (j_id f)); (K_length, JNum (j_len f)); (K_position, JNum (j_pos f)); (K_direction, JDir (j_dir f));
            (K_target_value, t); (K_matching_operator, JMo (j_mo f)); (K_cda, JCda (j_cda f))]).
Definition rfd_from_json (j : json) : res jrfd :=
  do jt <- jget j K_target_value ;;
  (* a match mapping is serialised as a list, a buffer as an object *)
  do t <- (match jt with
           | JList _ => do fw <- mm_from_json jt ;; Ok (JTVmap fw)
           | _ => do b <- buf_from_json jt ;; Ok (JTVbuf b)
           end) ;;
  do i <- jget j K_id ;; do l <- jget j K_length ;; do p <- jget j K_position ;; do d <- jget j K_direction ;;
  do m <- jget j K_matching_operator ;; do c <- jget j K_cda ;;
  match i, l, p, d, m, c with
  | JFid f, JNum ln, JNum ps, JDir dr, JMo mo_, JCda cd => Ok (mkjrfd f ln ps dr t mo_ cd)
  | _, _, _, _, _, _ => Exc TypeError
  end.

(* ---- RuleDescriptor, Context ----------------------------------------------------------------- *)
Definition rule_to_json (r : jrule) : res json :=
  match jr_nature r with
  | Compression =>
    do fds <- mapM rfd_to_json (jr_fds r) ;;
    Ok (JObj [(K_id, buf_to_json (jr_id r)); (K_nature, JNature Compression); (K_field_descriptors, JList fds)])
  | NoCompression => Ok (JObj [(K_id, buf_to_json (jr_id r)); (K_nature, JNature NoCompression)])
  | Fragmentation => Exc NotImplementedError     (* raise NotImplementedError('Fragmentation/Reassembly ...') *)
  end.
Definition rule_from_json (j : json) : res jrule :=
  do n <- jget j K_nature ;;
  match n with
  | JNature Compression =>
    do fds <- jget j K_field_descriptors ;;
    match fds with
    | JList l =>
      do fl <- mapM rfd_from_json l ;;
      do ji <- jget j K_id ;; do i <- buf_from_json ji ;;
      Ok (mkjrule i Compression fl)
    | _ => Exc TypeError
    end
  | JNature NoCompression =>
    do ji <- jget j K_id ;; do i <- buf_from_json ji ;; Ok (mkjrule i NoCompression [])
  | _ => Exc NotImplementedError
  end.

Definition context_to_json (c : jcontext) : res json :=
  do rs <- mapM rule_to_json (jc_rules c) ;;
  Ok (JObj [(K_id, JText (jc_id c)); (K_description, JText (jc_description c)); (K_interface_id, JText (jc_interface c));
            (K_parser_id, JText (jc_parser c)); (K_ruleset, JList rs)]).
Definition context_from_json (j : json) : res jcontext :=
  do i <- jget j K_id ;; do d <- jget j K_description ;; do f <- jget j K_interface_id ;; do p <- jget j K_parser_id ;;
  do rs <- jget j K_ruleset ;;
  match i, d, f, p, rs with
  | JText i, JText d, JText f, JText p, JList l => do rl <- mapM rule_from_json l ;; Ok (mkjctx i d f p rl)
  | _, _, _, _, _ => Exc TypeError
  end.
