(* JsonSpec.v -- property C12: JSON serialisation followed by loading gives back the same object
   (model of Json.v), for Buffer, MatchMapping, FieldDescriptor, PacketDescriptor,
   RuleFieldDescriptor, RuleDescriptor and Context. *)
From Coq Require Import ZArith List Bool Lia.
From MS Require Import PyBase Buffer Bits ByteFacts BufferAbs BufNew BufferSpec Schc Json.
Import ListNotations.
Open Scope Z_scope.

(* well-formed objects: canonical buffers; mappings whose values are pairwise different bit sequences and whose
   indices are pairwise different bit sequences (then neither the dict comprehension building the reverse mapping
   nor the reload merges entries) *)
Fixpoint distinct_abs (l : list buf) : Prop :=
  match l with [] => True | b :: r => Forall (fun b' => abs b' <> abs b) r /\ distinct_abs r end.
Definition mapping_ok (fw : list (buf * buf)) : Prop :=
  Forall (fun kv => canon (fst kv) /\ canon (snd kv)) fw /\ distinct_abs (map fst fw) /\ distinct_abs (map snd fw).
Definition jtv_ok (t : jtv) : Prop := match t with JTVbuf b => canon b | JTVmap fw => mapping_ok fw end.
Definition jrfd_ok (f : jrfd) : Prop := jtv_ok (j_tv f).
Definition jrule_ok (r : jrule) : Prop :=
  canon (jr_id r) /\ Forall jrfd_ok (jr_fds r) /\ (jr_nature r = NoCompression -> jr_fds r = []) /\
  jr_nature r <> Fragmentation.      (* __json__ raises NotImplementedError on a fragmentation rule (below) *)
Definition jfield_ok (f : jfield) : Prop := canon (jf_val f).
Definition jheader_ok (h : jheader) : Prop := Forall jfield_ok (jh_fields h).
Definition jpdesc_ok (p : jpdesc) : Prop := Forall jfield_ok (jp_fields p) /\ canon (jp_payload p) /\ canon (jp_raw p).
Definition jcontext_ok (c : jcontext) : Prop := Forall jrule_ok (jc_rules c).

(* ---- generic list / monad facts ---------------------------------------------------------------- *)
Lemma mapM_map_rt {A B} (f : B -> res A) (g : A -> B) (l : list A) :
  Forall (fun x => f (g x) = Ok x) l -> mapM f (map g l) = Ok l.
Proof.
  induction 1 as [|x l Hx _ IH]; cbn [map mapM]; [reflexivity|].
  rewrite Hx. cbn [bind]. rewrite IH. reflexivity.
Qed.

Lemma mapM_mapM_rt {A B} (f : B -> res A) (g : A -> res B) (l : list A) :
  Forall (fun x => exists j, g x = Ok j /\ f j = Ok x) l ->
  exists js, mapM g l = Ok js /\ mapM f js = Ok l.
Proof.
  induction 1 as [|x l (j & Hg & Hf) _ (js & IHg & IHf)]; cbn [mapM].
  - exists []. split; reflexivity.
  - exists (j :: js). rewrite Hg. cbn [bind]. rewrite IHg. cbn [bind mapM]. split; [reflexivity|].
    rewrite Hf. cbn [bind]. rewrite IHf. reflexivity.
Qed.

Definition swap (kv : buf * buf) : buf * buf := (snd kv, fst kv).

Lemma swap_swap l : map swap (map swap l) = l.
Proof. induction l as [|[a b] l IH]; cbn [map swap fst snd]; [reflexivity|]. rewrite IH. reflexivity. Qed.

Lemma map_fst_swap l : map fst (map swap l) = map snd l.
Proof. induction l as [|[a b] l IH]; cbn [map swap fst snd]; [reflexivity|]. rewrite IH. reflexivity. Qed.

Lemma map_snd_swap l : map snd (map swap l) = map fst l.
Proof. induction l as [|[a b] l IH]; cbn [map swap fst snd]; [reflexivity|]. rewrite IH. reflexivity. Qed.

(* ---- dictionaries keyed by canonical buffers: a fresh key is appended --------------------------- *)
Lemma dict_set_fresh {V} (d : list (buf * V)) k (v : V) :
  Forall (fun kv => canon (fst kv)) d -> canon k ->
  Forall (fun kv => abs (fst kv) <> abs k) d ->
  dict_set d k v = Ok (d ++ [(k, v)]).
Proof.
  intros Hd Hk. induction Hd as [|[k0 v0] d Hk0 _ IH]; intros Hne; cbn [dict_set app]; [reflexivity|].
  inversion Hne as [|? ? Hn0 Hn]; subst. cbn [fst] in *.
  rewrite key_match_bits by assumption. cbn [bind].
  destruct (bits_eqb (abs k0) (abs k)) eqn:E.
  - apply bits_eqb_eq in E. contradiction.
  - rewrite (IH Hn). reflexivity.
Qed.

Lemma dict_of_list_fresh {V} (l : list (buf * V)) : forall acc,
  Forall (fun kv => canon (fst kv)) acc -> Forall (fun kv => canon (fst kv)) l ->
  distinct_abs (map fst l) ->
  (forall a k, In a acc -> In k (map fst l) -> abs (fst a) <> abs k) ->
  dict_of_list acc l = Ok (acc ++ l).
Proof.
  induction l as [|[k v] l IH]; intros acc Hacc Hl Hd Hsep; cbn [dict_of_list].
  - rewrite app_nil_r. reflexivity.
  - inversion Hl as [|? ? Hk Hl']; subst. cbn [fst map] in *. destruct Hd as [Hkl Hd].
    rewrite dict_set_fresh; try assumption.
    + cbn [bind]. rewrite IH; try assumption.
      * rewrite <- app_assoc. reflexivity.
      * apply Forall_app. split; [assumption|]. constructor; [exact Hk|constructor].
      * intros a k' Ha Hk'. apply in_app_or in Ha. destruct Ha as [Ha|[Ha|[]]].
        -- apply Hsep; [assumption|right; assumption].
        -- subst a. cbn [fst]. rewrite Forall_forall in Hkl. intro E. apply (Hkl k' Hk'). symmetry. exact E.
    + apply Forall_forall. intros a Ha. apply Hsep; [assumption|left; reflexivity].
Qed.

Lemma dict_of_list_distinct (l : list (buf * buf)) :
  Forall (fun kv => canon (fst kv)) l -> distinct_abs (map fst l) -> dict_of_list [] l = Ok l.
Proof.
  intros Hl Hd. rewrite dict_of_list_fresh; try assumption; [reflexivity|constructor|].
  intros a k [].
Qed.

(* ---- Buffer ------------------------------------------------------------------------------------ *)
Theorem buf_json_roundtrip b : canon b -> buf_from_json (buf_to_json b) = Ok b.
Proof.
  intros H. unfold buf_from_json. cbn [jget assoc_key jkey_eqb buf_to_json bind].
  apply b_new_canon. exact H.
Qed.

(* ---- MatchMapping ------------------------------------------------------------------------------ *)
Definition mm_entry (kv : buf * buf) : json :=
  JObj [(K_index, buf_to_json (fst kv)); (K_value, buf_to_json (snd kv))].

Lemma mm_from_entries_spec rv : forall acc,
  Forall (fun kv => canon (fst kv) /\ canon (snd kv)) rv ->
  mm_from_entries (map mm_entry rv) acc = dict_of_list acc (map swap rv).
Proof.
  induction rv as [|[i v] rv IH]; intros acc H; cbn [map mm_from_entries dict_of_list]; [reflexivity|].
  inversion H as [|? ? [Hi Hv] H']; subst. cbn [fst snd] in *.
  unfold mm_entry at 1 2. cbn [jget assoc_key jkey_eqb bind fst snd].
  rewrite (buf_json_roundtrip i Hi). cbn [bind].
  rewrite (buf_json_roundtrip v Hv). cbn [bind swap fst snd].
  destruct (dict_set acc v i); cbn [bind]; [|reflexivity|reflexivity].
  apply IH. exact H'.
Qed.

Lemma mm_reverse_ok fw : mapping_ok fw -> mm_reverse fw = Ok (map swap fw).
Proof.
  intros (Hc & Hk & Hv). unfold mm_reverse. change (fun kv : buf * buf => (snd kv, fst kv)) with swap.
  apply dict_of_list_distinct.
  - apply Forall_forall. intros a Ha. apply in_map_iff in Ha. destruct Ha as (x & <- & Hx).
    rewrite Forall_forall in Hc. cbn [swap fst]. apply (Hc x Hx).
  - rewrite map_fst_swap. exact Hv.
Qed.

Theorem mm_json_roundtrip fw : mapping_ok fw -> exists j, mm_to_json fw = Ok j /\ mm_from_json j = Ok fw.
Proof.
  intros H. exists (JList (map mm_entry (map swap fw))). split.
  - unfold mm_to_json. rewrite (mm_reverse_ok fw H). cbn [bind]. reflexivity.
  - destruct H as (Hc & Hk & Hv). cbn [mm_from_json]. rewrite mm_from_entries_spec.
    + rewrite swap_swap. apply dict_of_list_distinct; [|exact Hk].
      eapply Forall_impl; [|exact Hc]. intros a [Ha _]. exact Ha.
    + apply Forall_forall. intros a Ha. apply in_map_iff in Ha. destruct Ha as (x & <- & Hx).
      rewrite Forall_forall in Hc. cbn [swap fst snd]. destruct (Hc x Hx). split; assumption.
Qed.

(* ---- FieldDescriptor, PacketDescriptor --------------------------------------------------------- *)
Theorem field_json_roundtrip f : jfield_ok f -> field_from_json (field_to_json f) = Ok f.
Proof.
  intros H. unfold field_from_json, field_to_json. cbn [jget assoc_key jkey_eqb bind].
  rewrite (buf_json_roundtrip _ H). cbn [bind]. destruct f; reflexivity.
Qed.

Theorem header_json_roundtrip h : jheader_ok h -> header_from_json (header_to_json h) = Ok h.
Proof.
  intros Hf. unfold header_from_json, header_to_json. cbn [jget assoc_key jkey_eqb bind].
  rewrite mapM_map_rt.
  - cbn [bind]. destruct h; reflexivity.
  - eapply Forall_impl; [|exact Hf]. intros a Ha. apply field_json_roundtrip. exact Ha.
Qed.

Theorem pdesc_json_roundtrip p : jpdesc_ok p -> pdesc_from_json (pdesc_to_json p) = Ok p.
Proof.
  intros (Hf & Hp & Hr). unfold pdesc_from_json, pdesc_to_json. cbn [jget assoc_key jkey_eqb bind].
  rewrite mapM_map_rt.
  - cbn [bind]. rewrite (buf_json_roundtrip _ Hp). cbn [bind]. rewrite (buf_json_roundtrip _ Hr). cbn [bind].
    destruct p; reflexivity.
  - eapply Forall_impl; [|exact Hf]. intros a Ha. apply field_json_roundtrip. exact Ha.
Qed.

(* ---- RuleFieldDescriptor ----------------------------------------------------------------------- *)
Theorem rfd_json_roundtrip f : jrfd_ok f -> exists j, rfd_to_json f = Ok j /\ rfd_from_json j = Ok f.
Proof.
  destruct f as [fi fl fp fd tv fm fc]. unfold jrfd_ok. cbn [j_tv]. intros H.
  destruct tv as [b|fw]; cbn [jtv_ok] in H.
  - eexists. split.
    + unfold rfd_to_json. cbn [tv_to_json j_tv bind j_id j_len j_pos j_dir j_mo j_cda]. reflexivity.
    + unfold rfd_from_json. cbn [jget assoc_key jkey_eqb bind].
      pose proof (buf_json_roundtrip b H) as E. unfold buf_to_json in E |- *. rewrite E.
      cbn [bind]. reflexivity.
  - destruct (mm_json_roundtrip fw H) as (j & Hto & Hfrom).
    assert (Hj : exists l, j = JList l).
    { unfold mm_to_json in Hto. destruct (mm_reverse fw); cbn [bind] in Hto; try discriminate.
      inversion Hto. eexists. reflexivity. }
    destruct Hj as (l & ->).
    eexists. split.
    + unfold rfd_to_json. cbn [tv_to_json j_tv bind j_id j_len j_pos j_dir j_mo j_cda]. rewrite Hto.
      cbn [bind]. reflexivity.
    + unfold rfd_from_json. cbn [jget assoc_key jkey_eqb bind]. rewrite Hfrom. cbn [bind]. reflexivity.
Qed.

(* ---- RuleDescriptor, Context ------------------------------------------------------------------- *)
Theorem rule_json_roundtrip r : jrule_ok r -> exists j, rule_to_json r = Ok j /\ rule_from_json j = Ok r.
Proof.
  destruct r as [i n fds]. unfold jrule_ok. cbn [jr_id jr_nature jr_fds]. intros (Hi & Hf & Hn & Hnf).
  destruct n.
  - destruct (mapM_mapM_rt rfd_from_json rfd_to_json fds) as (js & Hto & Hfrom).
    { eapply Forall_impl; [|exact Hf]. intros a Ha. apply rfd_json_roundtrip. exact Ha. }
    eexists. split.
    + unfold rule_to_json. cbn [jr_id jr_nature jr_fds]. rewrite Hto. cbn [bind]. reflexivity.
    + unfold rule_from_json. cbn [jget assoc_key jkey_eqb bind]. rewrite Hfrom. cbn [bind].
      rewrite (buf_json_roundtrip i Hi). cbn [bind]. reflexivity.
  - rewrite (Hn eq_refl). eexists. split.
    + unfold rule_to_json. cbn [jr_id jr_nature jr_fds]. reflexivity.
    + unfold rule_from_json. cbn [jget assoc_key jkey_eqb bind].
      rewrite (buf_json_roundtrip i Hi). cbn [bind]. reflexivity.
  - now elim Hnf.
Qed.

(* a fragmentation rule (RuleNature.FRAGMENTATION): __json__ raises NotImplementedError whatever the id and
   the descriptors are; __from_json_object__ raises NotImplementedError on every object whose 'nature' is
   neither 'compression' nor 'no-compression' (before reading anything else); hence no loaded rule is a
   fragmentation rule, and a context holding one cannot be serialised *)
Theorem rule_to_json_fragmentation r : jr_nature r = Fragmentation -> rule_to_json r = Exc NotImplementedError.
Proof. unfold rule_to_json. intros ->. reflexivity. Qed.
Theorem rule_from_json_fragmentation j v : jget j K_nature = Ok v ->
  v <> JNature Compression -> v <> JNature NoCompression -> rule_from_json j = Exc NotImplementedError.
Proof.
  intros H H1 H2. unfold rule_from_json. rewrite H. cbn [bind].
  destruct v as [| | | | | |[| |]| | | |]; try reflexivity; [now elim H1|now elim H2].
Qed.
Theorem rule_from_json_not_fragmentation j r : rule_from_json j = Ok r -> jr_nature r <> Fragmentation.
Proof.
  unfold rule_from_json. destruct (jget j K_nature) as [v|e|]; cbn [bind]; try discriminate.
  destruct v as [| | | | | |[| |]| | | |]; try discriminate.
  - destruct (jget j K_field_descriptors) as [fds|e|]; cbn [bind]; try discriminate.
    destruct fds; try discriminate.
    destruct (mapM rfd_from_json l) as [fl|e|]; cbn [bind]; try discriminate.
    destruct (jget j K_id) as [ji|e|]; cbn [bind]; try discriminate.
    destruct (buf_from_json ji) as [i|e|]; cbn [bind]; try discriminate.
    intros [= <-]. discriminate.
  - destruct (jget j K_id) as [ji|e|]; cbn [bind]; try discriminate.
    destruct (buf_from_json ji) as [i|e|]; cbn [bind]; try discriminate.
    intros [= <-]. discriminate.
Qed.
Lemma mapM_first_exc {A B} (f : A -> res B) (pre : list A) x post e :
  Forall (fun a => exists b, f a = Ok b) pre -> f x = Exc e -> mapM f (pre ++ x :: post) = Exc e.
Proof.
  induction 1 as [|a pre [b Hb] _ IH]; intros Hx; cbn [app mapM].
  - rewrite Hx. reflexivity.
  - rewrite Hb. cbn [bind]. rewrite (IH Hx). reflexivity.
Qed.
Theorem context_to_json_fragmentation c pre r post :
  jc_rules c = pre ++ r :: post -> Forall jrule_ok pre -> jr_nature r = Fragmentation ->
  context_to_json c = Exc NotImplementedError.
Proof.
  intros E Hpre Hr. unfold context_to_json. rewrite E.
  rewrite (mapM_first_exc rule_to_json pre r post NotImplementedError); [reflexivity| |exact (rule_to_json_fragmentation r Hr)].
  eapply Forall_impl; [|exact Hpre]. intros a Ha. destruct (rule_json_roundtrip a Ha) as (j & Hj & _). now exists j.
Qed.

Theorem context_json_roundtrip c : jcontext_ok c -> exists j, context_to_json c = Ok j /\ context_from_json j = Ok c.
Proof.
  destruct c as [i d f p rs]. unfold jcontext_ok. cbn [jc_rules]. intros H.
  destruct (mapM_mapM_rt rule_from_json rule_to_json rs) as (js & Hto & Hfrom).
  { eapply Forall_impl; [|exact H]. intros a Ha. apply rule_json_roundtrip. exact Ha. }
  eexists. split.
  - unfold context_to_json. cbn [jc_id jc_description jc_interface jc_parser jc_rules]. rewrite Hto.
    cbn [bind]. reflexivity.
  - unfold context_from_json. cbn [jget assoc_key jkey_eqb bind]. rewrite Hfrom. cbn [bind]. reflexivity.
Qed.

(* serialise -> load -> serialise is the identity on the JSON text *)
Theorem context_json_stable c : jcontext_ok c ->
  exists j c', context_to_json c = Ok j /\ context_from_json j = Ok c' /\ context_to_json c' = Ok j.
Proof.
  intros H. destruct (context_json_roundtrip c H) as (j & Hto & Hfrom).
  exists j, c. split; [exact Hto|]. split; [exact Hfrom|exact Hto].
Qed.
