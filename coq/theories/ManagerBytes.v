(* ManagerBytes.v -- the rule matcher, the context manager and the multi-context front end written
   at the BYTE level, i.e. with the Buffer operations of Buffer.v exactly where the Python code uses
   Buffer objects:
     ruler/ruler.py    Ruler.match_packet_descriptor (generator), Ruler.match_schc_packet,
     manager/manager.py ContextManager.compress (strategies FIRST / BEST), ContextManager.decompress,
     /repo/microschc.py SCHC.compress / SCHC.decompress (the contexts of an interface tried in order).
   The structure is the one of the bit-level transcription (Schc.v: any_mismatch, rule_matches,
   match_packet_descriptor, match_schc_packet, best_loop, cm_compress, cm_decompress, schc_compress,
   schc_decompress); the leaves are the byte-level functions SchcBytes.bfield_match, bmatch_schc_loop,
   bcompress, ComputeBytes.bdecompress_c, and a byte-level packet parser (ParserBytes.bfactory s).
   ManagerRefine.v proves that, on canonical buffers, these functions denote the bit-level ones
   through abs.  Definitions only (plus evaluated examples compared with the Python results). *)
From Coq Require Import ZArith List Bool.
From MS Require Import PyBase Buffer Bits Schc SchcBytes Parsers ParserBytes ComputeBytes.
Import ListNotations.
Open Scope Z_scope.

(* ---- ruler/ruler.py --------------------------------------------------------------------------- *)
(* any(_field_match(packet_field=pf, rule_field=rf) == False for (pf, rf) in zip(packet_fields, rule_fields)):
   the generator expression stops at the first mismatch; an exception of _field_match leaves any() *)
Fixpoint bany_mismatch (pfs : list bfield) (rfs : list brfd) : res bool :=
  match pfs, rfs with
  | pf :: pfs', rf :: rfs' =>
    do m <- bfield_match pf rf ;;
    if m then bany_mismatch pfs' rfs' else Ok true
  | _, _ => Ok false
  end.

(* the body of the loop of match_packet_descriptor for one rule: true = the rule is yielded
   (a fragmentation rule is neither branch of the if/elif: it is skipped) *)
Definition brule_matches (pd : bpdesc) (r : brule) : res bool :=
  match brule_nature r with
  | NoCompression => Ok true                                      (* elif ... NO_COMPRESSION: yield rule *)
  | Compression =>
    (* [f for f in filter(lambda f: f.direction in {packet_direction, BIDIRECTIONAL}, rule.field_descriptors)] *)
    let rfs := filter (bapplies (bpd_dir pd)) (brule_fds r) in
    (* if len(packet_fields) != len(rule_fields): continue *)
    if negb (length (bpd_fields pd) =? length rfs)%nat then Ok false
    else do mm <- bany_mismatch (bpd_fields pd) rfs ;; Ok (negb mm)
  | Fragmentation => Ok false                                     (* neither branch: never yielded *)
  end.

(* the generator: the rules yielded in order, until the generator is exhausted or raises *)
Fixpoint bmatch_packet_descriptor (rules : list brule) (pd : bpdesc) : gen brule :=
  match rules with
  | [] => GDone
  | r :: rs =>
    match brule_matches pd r with
    | Ok true => GYield r (bmatch_packet_descriptor rs pd)
    | Ok false => bmatch_packet_descriptor rs pd
    | Exc e => GRaise e
    | Diverge => GRaise Unmodelled
    end
  end.

(* Ruler.match_schc_packet: the loop is SchcBytes.bmatch_schc_loop; after the loop
   `raise RuleIDMatchError(rule_id=rule_id)` (rule_id is bound to None before the loop since the fix of the
   empty-rule-set defect: an empty rule list raises the rule-ID error like any other list without a matching id) *)
Definition bmatch_schc_packet (rules : list brule) (s : buf) : res brule :=
  do o <- bmatch_schc_loop rules s ;;
  match o with Some r => Ok r | None => Exc RuleIDMatchError end.

(* ---- manager/manager.py ----------------------------------------------------------------------- *)
(* for rule_descriptor in self.ruler.match_packet_descriptor(...):
       compressed = compress(...)
       if schc_packet is None or compressed.length < schc_packet.length: schc_packet = compressed *)
Fixpoint bbest_loop (pd : bpdesc) (direction : dir) (g : gen brule) (best : option buf) : res (option buf) :=
  match g with
  | GDone => Ok best
  | GRaise e => Exc e
  | GYield r rest =>
    do c <- bcompress pd r (Some direction) ;;
    let best' := match best with
                 | None => Some c
                 | Some b => if blen c <? blen b then Some c else Some b
                 end in
    bbest_loop pd direction rest best'
  end.

(* a byte-level stack parser: packet Buffer -> (field descriptors, payload) *)
Definition bparser := buf -> res (list bfield * buf).

(* ContextManager.compress: parse, set the direction, then
   FIRST: next(generator, None) -- only the part of the generator up to its first yield runs;
          None (StopIteration swallowed by the default of next) -> RuleDescriptorMatchError;
   BEST : the whole generator runs, every yielded rule is compressed, strictly shorter wins *)
Definition bcm_compress (bparse : bparser) (rules : list brule) (packet : buf) (direction : dir) (st : strategy) : res buf :=
  do p <- bparse packet ;;
  let pd := mkbpdesc direction (fst p) (snd p) in
  match st with
  | FIRST =>
    match bmatch_packet_descriptor rules pd with
    | GYield r _ => bcompress pd r (Some direction)
    | GDone => Exc RuleDescriptorMatchError
    | GRaise e => Exc e
    end
  | BEST =>
    do b <- bbest_loop pd direction (bmatch_packet_descriptor rules pd) None ;;
    match b with Some s => Ok s | None => Exc RuleDescriptorMatchError end
  end.

(* ContextManager.decompress, for any compute registry, and with protocol/__init__.py ComputeFunctions *)
Definition bcm_decompress_ct (ct : bcompute_table) (rules : list brule) (s : buf) (direction : option dir) : res buf :=
  do r <- bmatch_schc_packet rules s ;; bdecompress_ct ct s r direction.
Definition bcm_decompress (rules : list brule) (s : buf) (direction : option dir) : res buf :=
  do r <- bmatch_schc_packet rules s ;; bdecompress_c s r direction.

(* ---- /repo/microschc.py: the multi-context front end ------------------------------------------ *)
(* a context manager of the interface: its parser and its rules *)
Record bctx := mkbctx { bctx_parse : bparser; bctx_rules : list brule }.

(* SCHC.compress: for context_manager in eligible_context_managers: try: return cm.compress(packet, direction)
   except ParserError: pass / except RuleDescriptorMatchError: pass; after the loop: return packet.
   (direction is the default UP and the strategy the default FIRST, as in Schc.schc_compress) *)
Fixpoint bschc_compress (ctxs : list bctx) (packet : buf) : res buf :=
  match ctxs with
  | [] => Ok packet
  | c :: cs =>
    match bcm_compress (bctx_parse c) (bctx_rules c) packet Up FIRST with
    | Exc ParserError | Exc RuleDescriptorMatchError => bschc_compress cs packet
    | r => r
    end
  end.

(* SCHC.decompress: except RuleIDMatchError: pass; after the loop: return packet *)
Fixpoint bschc_decompress_ct (ct : bcompute_table) (ctxs : list bctx) (packet : buf) : res buf :=
  match ctxs with
  | [] => Ok packet
  | c :: cs =>
    match bcm_decompress_ct ct (bctx_rules c) packet (Some Up) with
    | Exc RuleIDMatchError => bschc_decompress_ct ct cs packet
    | r => r
    end
  end.
Definition bschc_decompress (ctxs : list bctx) (packet : buf) : res buf :=
  bschc_decompress_ct bcompute_functions ctxs packet.

(* ---- the transcription evaluated and compared with the Python results -------------------------- *)
(* A UDP packet (8 header bytes, checksum 0, 3 payload bytes): Buffer(bytes([18,52,0,7,0,11,0,0,1,2,3]), 88) *)
Definition mex_packet : buf := mkbuf [18; 52; 0; 7; 0; 11; 0; 0; 1; 2; 3] 88 LEFT 0.
(* id 0b10; MSB(8)/LSB on the source port, match-mapping/mapping-sent on the destination port,
   equal/not-sent on the length, ignore/value-sent (variable length) on the checksum *)
Definition mex_rule1 : brule :=
  mkbrule (mkbuf [2] 2 LEFT 6) Compression
    [mkbrfd (mkfid P_UDP 0) 16 0 Bi (BTVbuf (mkbuf [18] 8 LEFT 0)) MO_msb LSB;
     mkbrfd (mkfid P_UDP 1) 16 0 Bi (BTVmap [(mkbuf [0; 9] 16 LEFT 0, mkbuf [0] 1 LEFT 7);
                                             (mkbuf [0; 7] 16 LEFT 0, mkbuf [1] 1 LEFT 7)]) MO_mapping MappingSent;
     mkbrfd (mkfid P_UDP 2) 16 0 Bi (BTVbuf (mkbuf [0; 11] 16 LEFT 0)) MO_equal NotSent;
     mkbrfd (mkfid P_UDP 3) 0 0 Bi (BTVbuf (mkbuf [] 0 LEFT 0)) MO_ignore ValueSent].
(* id 0b110; both ports equal/not-sent, the length ignore/compute, the checksum ignore/value-sent (16 bits) *)
Definition mex_rule2 : brule :=
  mkbrule (mkbuf [6] 3 LEFT 5) Compression
    [mkbrfd (mkfid P_UDP 0) 16 0 Bi (BTVbuf (mkbuf [18; 52] 16 LEFT 0)) MO_equal NotSent;
     mkbrfd (mkfid P_UDP 1) 16 0 Bi (BTVbuf (mkbuf [0; 7] 16 LEFT 0)) MO_equal NotSent;
     mkbrfd (mkfid P_UDP 2) 16 0 Bi (BTVbuf (mkbuf [] 0 LEFT 0)) MO_ignore Compute;
     mkbrfd (mkfid P_UDP 3) 16 0 Bi (BTVbuf (mkbuf [] 0 LEFT 0)) MO_ignore ValueSent].
(* id 0b00, no compression *)
Definition mex_nocomp : brule := mkbrule (mkbuf [0] 2 LEFT 6) NoCompression [].
(* id 0b01; one descriptor only: never matches a UDP packet (4 fields) *)
Definition mex_other : brule :=
  mkbrule (mkbuf [1] 2 LEFT 6) Compression
    [mkbrfd (mkfid P_UDP 0) 16 0 Bi (BTVbuf (mkbuf [0; 1] 16 LEFT 0)) MO_equal NotSent].

(* a Buffer as Python prints its attributes: content, length, padding, padding_length *)
Definition shown (r : res buf) : res (list Z * Z * side * Z) :=
  do b <- r ;; Ok (content b, blen b, bside b, bpl b).

(* ContextManager(ctx(ruleset=rules), parser='UDP').compress(packet, direction=UP, match_strategy=st), then
   .decompress(schc_packet, direction=UP) *)
Definition mex_roundtrip (rules : list brule) (st : strategy) :=
  let c := bcm_compress (bfactory S_UDP) rules mex_packet Up st in
  (shown c, shown (do s <- c ;; bcm_decompress rules s (Some Up))).

Definition mex_packet_back := Ok ([18; 52; 0; 7; 0; 11; 0; 0; 1; 2; 3], 88, RIGHT, 0).

(* rules [rule1, rule2, nocomp]: FIRST takes rule1 (63 bits), BEST takes rule2 (43 bits) *)
Example mex_first_A : mex_roundtrip [mex_rule1; mex_rule2; mex_nocomp] FIRST =
  (Ok ([141; 62; 32; 0; 0; 2; 4; 6], 63, RIGHT, 1), mex_packet_back).
Proof. vm_compute. reflexivity. Qed.
Example mex_best_A : mex_roundtrip [mex_rule1; mex_rule2; mex_nocomp] BEST =
  (Ok ([192; 0; 0; 32; 64; 96], 43, RIGHT, 5), mex_packet_back).
Proof. vm_compute. reflexivity. Qed.
(* rules [nocomp, rule1, rule2]: FIRST takes the no-compression rule (2 + 88 bits) *)
Example mex_first_B : mex_roundtrip [mex_nocomp; mex_rule1; mex_rule2] FIRST =
  (Ok ([4; 141; 0; 1; 192; 2; 192; 0; 0; 64; 128; 192], 90, RIGHT, 6), mex_packet_back).
Proof. vm_compute. reflexivity. Qed.
Example mex_best_B : mex_roundtrip [mex_nocomp; mex_rule1; mex_rule2] BEST =
  (Ok ([192; 0; 0; 32; 64; 96], 43, RIGHT, 5), mex_packet_back).
Proof. vm_compute. reflexivity. Qed.
(* no rule at all / no rule that applies: RuleDescriptorMatchError under both strategies *)
Example mex_norule :
  (bcm_compress (bfactory S_UDP) [] mex_packet Up FIRST, bcm_compress (bfactory S_UDP) [] mex_packet Up BEST,
   bcm_compress (bfactory S_UDP) [mex_other] mex_packet Up FIRST, bcm_compress (bfactory S_UDP) [mex_other] mex_packet Up BEST) =
  (Exc RuleDescriptorMatchError, Exc RuleDescriptorMatchError, Exc RuleDescriptorMatchError, Exc RuleDescriptorMatchError).
Proof. vm_compute. reflexivity. Qed.
(* a packet the UDP parser rejects: Buffer(bytes([1,2,3]), 24) *)
Example mex_badpacket :
  bcm_compress (bfactory S_UDP) [mex_rule1; mex_rule2] (mkbuf [1; 2; 3] 24 LEFT 0) Up FIRST = Exc ParserError.
Proof. vm_compute. reflexivity. Qed.
(* decompress: no id leads Buffer(bytes([0x10,1,2]), 24, RIGHT); a 1-bit packet is shorter than every id;
   an empty rule list *)
Example mex_noid :
  (bcm_decompress [mex_rule1; mex_rule2] (mkbuf [16; 1; 2] 24 RIGHT 0) (Some Up),
   bcm_decompress [mex_rule1; mex_rule2] (mkbuf [128] 1 RIGHT 7) (Some Up),
   bcm_decompress [] (mkbuf [16; 1; 2] 24 RIGHT 0) (Some Up)) =
  (Exc RuleIDMatchError, Exc RuleIDMatchError, Exc RuleIDMatchError).
Proof. vm_compute. reflexivity. Qed.

(* the front end SCHC([ctx('IPv6', [nocomp]), ctx('UDP', [other]), ctx('UDP', [rule1, rule2])]): the first context
   raises ParserError, the second RuleDescriptorMatchError, the third compresses; on the way back the first
   context raises RuleIDMatchError (no id 0b00), the second too (no id 0b01), the third decompresses *)
Definition mex_ctxs : list bctx :=
  [mkbctx (bfactory S_IPv6) [mex_nocomp]; mkbctx (bfactory S_UDP) [mex_other]; mkbctx (bfactory S_UDP) [mex_rule1; mex_rule2]].
Example mex_front :
  let c := bschc_compress mex_ctxs mex_packet in
  (shown c, shown (do s <- c ;; bschc_decompress mex_ctxs s)) =
  (Ok ([141; 62; 32; 0; 0; 2; 4; 6], 63, RIGHT, 1), mex_packet_back).
Proof. vm_compute. reflexivity. Qed.
(* without the third context no context accepts the packet: it is returned as it is (the same object);
   decompress then finds the id 0b00 of the first context's no-compression rule at the head of the raw
   packet (0x12 = 0b00010010) and strips two bits: the pass-through is not undone by decompress *)
Example mex_front_passthrough :
  let ctxs := [mkbctx (bfactory S_IPv6) [mex_nocomp]; mkbctx (bfactory S_UDP) [mex_other]] in
  let c := bschc_compress ctxs mex_packet in
  (c, shown (do s <- c ;; bschc_decompress ctxs s)) =
  (Ok mex_packet, Ok ([72; 208; 0; 28; 0; 44; 0; 0; 4; 8; 12], 86, RIGHT, 2)).
Proof. vm_compute. reflexivity. Qed.
