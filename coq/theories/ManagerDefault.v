(* C10, third sentence: a rule set that contains a no-compression rule (the usual default, listed last) compresses every parsable
   packet, and under BEST to at most  rule-id length + packet length  bits -- for the registry's parsers, whose fields and payload tile
   the packet (ParserTiling.packet_tiles), literally the length of the packet.  Under FIRST the packet is compressed too (by the first
   applying rule, which need not be the shortest). *)
From Coq Require Import ZArith List Bool Lia.
From MS Require Import PyBase Buffer Bits ByteFacts Schc SchcSpec SchcRules Parsers ParserTiling EndToEnd.
Import ListNotations.
Open Scope Z_scope.

Lemma default_is_candidate pd rules r0 : In r0 rules -> rule_nature r0 = NoCompression -> In r0 (filter (spec_rule_applies pd) rules).
Proof. intros H0 HN. apply filter_In. split; [exact H0|]. apply nocompression_always_applies. exact HN. Qed.

Theorem cm_compress_default_best parse rules packet d fs pl r0 :
  parse packet = Ok (fs, pl) -> forallb rule_typed rules = true ->
  (forall r, In r (filter (spec_rule_applies (mkpdesc d fs pl)) rules) -> exists s, compress (mkpdesc d fs pl) r (Some d) = Ok s) ->
  In r0 rules -> rule_nature r0 = NoCompression ->
  exists s, cm_compress parse rules packet d BEST = Ok s /\ zlen s <= zlen (rule_id r0) + zlen (concat (map f_val fs) ++ pl).
Proof.
  intros HP HT HC H0 HN.
  pose proof (cm_compress_best parse rules packet d fs pl HP HT HC) as B. cbv zeta in B.
  pose proof (default_is_candidate (mkpdesc d fs pl) rules r0 H0 HN) as I.
  destruct (filter (spec_rule_applies (mkpdesc d fs pl)) rules) as [|c cs] eqn:E; [destruct I|].
  destruct B as (r & s & _ & _ & Es & Min). exists s. split; [exact Es|].
  rewrite <- zlen_app. apply (Min r0 _ I).
  rewrite (compress_no_compression (mkpdesc d fs pl) r0 (Some d) HN). reflexivity.
Qed.

Theorem cm_compress_default_first parse rules packet d fs pl r0 :
  parse packet = Ok (fs, pl) -> forallb rule_typed rules = true ->
  (forall r, In r (filter (spec_rule_applies (mkpdesc d fs pl)) rules) -> exists s, compress (mkpdesc d fs pl) r (Some d) = Ok s) ->
  In r0 rules -> rule_nature r0 = NoCompression ->
  exists s, cm_compress parse rules packet d FIRST = Ok s.
Proof.
  intros HP HT HC H0 HN.
  pose proof (cm_compress_first parse rules packet d fs pl HP HT) as F. cbv zeta in F.
  pose proof (default_is_candidate (mkpdesc d fs pl) rules r0 H0 HN) as I.
  destruct (filter (spec_rule_applies (mkpdesc d fs pl)) rules) as [|c cs] eqn:E; [destruct I|].
  rewrite F. apply HC. left. reflexivity.
Qed.

(* with a parser of the registry the bound is the packet's own length *)
Theorem cm_compress_default_best_stack st rules packet d fs pl r0 :
  factory st packet = Ok (fs, pl) -> forallb rule_typed rules = true ->
  (forall r, In r (filter (spec_rule_applies (mkpdesc d fs pl)) rules) -> exists s, compress (mkpdesc d fs pl) r (Some d) = Ok s) ->
  In r0 rules -> rule_nature r0 = NoCompression ->
  exists s, cm_compress (factory st) rules packet d BEST = Ok s /\ zlen s <= zlen (rule_id r0) + zlen packet.
Proof.
  intros HP HT HC H0 HN.
  destruct (cm_compress_default_best (factory st) rules packet d fs pl r0 HP HT HC H0 HN) as (s & Es & B).
  exists s. split; [exact Es|]. rewrite (packet_tiles st packet fs pl HP) in B. exact B.
Qed.

(* non-vacuity: a UDP packet; the first rule sends all four header fields with variable length (a size prefix each: longer than the
   packet), the default rule has the 3-bit id 0b110.  Every premise of the theorems holds; FIRST takes the long rule (2 + 4 x (12 + 16)
   + 24 = 138 bits), BEST the default (3 + 88 = 91 bits = the bound). *)
Definition dflt_packet : bits := concat (map (bits_of 8) [18; 52; 0; 7; 0; 11; 0; 0; 1; 2; 3]).
Definition dflt_long : rule :=
  mkrule [true; false] Compression (map (fun i => mkrfd (mkfid P_UDP i) 0 1 Bi (TVbuf []) MO_ignore ValueSent) [0; 1; 2; 3]).
Definition dflt_rule : rule := mkrule [true; true; false] NoCompression [].

Example default_ex : exists fs pl s1 s2,
  factory S_UDP dflt_packet = Ok (fs, pl) /\
  cm_compress (factory S_UDP) [dflt_long; dflt_rule] dflt_packet Up FIRST = Ok s1 /\ zlen s1 = 138 /\
  cm_compress (factory S_UDP) [dflt_long; dflt_rule] dflt_packet Up BEST = Ok s2 /\ zlen s2 = 91 /\
  zlen (rule_id dflt_rule) + zlen dflt_packet = 91.
Proof. vm_compute. do 4 eexists. repeat split; reflexivity. Qed.

Example default_ex_premises : exists fs pl,
  factory S_UDP dflt_packet = Ok (fs, pl) /\ forallb rule_typed [dflt_long; dflt_rule] = true /\
  (forall r, In r (filter (spec_rule_applies (mkpdesc Up fs pl)) [dflt_long; dflt_rule]) ->
     exists s, compress (mkpdesc Up fs pl) r (Some Up) = Ok s) /\
  In dflt_rule [dflt_long; dflt_rule] /\ rule_nature dflt_rule = NoCompression.
Proof.
  destruct (factory S_UDP dflt_packet) as [[fs pl]|e|] eqn:E; [|vm_compute in E; discriminate E|vm_compute in E; discriminate E].
  exists fs, pl. split; [reflexivity|]. split; [vm_compute; reflexivity|]. split; [|split; [right; left; reflexivity|reflexivity]].
  vm_compute in E. injection E as <- <-. intros r I. vm_compute in I.
  destruct I as [<-|[<-|[]]]; vm_compute; eexists; reflexivity.
Qed.
