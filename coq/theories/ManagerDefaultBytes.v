(* C10, third sentence, on Buffers: ContextManager.compress (ManagerBytes.bcm_compress with the byte-level parsers of the registry) under
   BEST, on a rule set containing a no-compression rule: a canonical Buffer of at most  rule-id length + packet length  bits.
   ManagerDefault.cm_compress_default_best_stack carried through ManagerRefine.bcm_compress_refines. *)
From Coq Require Import ZArith List Bool Lia.
From MS Require Import PyBase Buffer Bits ByteFacts BufferAbs BufferSpec Schc SchcSpec SchcRules Parsers SchcBytes SchcRefine
  ParserBytes ParserRefine ComputeBytes ComputeRefine ManagerBytes ManagerRefine ManagerDefault.
Import ListNotations.
Open Scope Z_scope.

Theorem bcm_compress_default_best_stack st rules packet d fs pl r0 :
  Forall canon_rule rules -> canon packet -> bside packet = LEFT ->
  let arules := map (abs_rule abs) rules in
  factory st (abs packet) = Ok (fs, pl) -> forallb rule_typed arules = true ->
  (forall r, In r (filter (spec_rule_applies (mkpdesc d fs pl)) arules) -> exists s, compress (mkpdesc d fs pl) r (Some d) = Ok s) ->
  In r0 rules -> brule_nature r0 = NoCompression ->
  exists x, bcm_compress (bfactory st) rules packet d BEST = Ok x /\ canon x /\ blen x <= blen (brule_id r0) + blen packet.
Proof.
  intros Hr Hp Hl arules HP HT HC H0 HN.
  assert (I0 : In (abs_rule abs r0) arules) by (apply in_map; exact H0).
  destruct (cm_compress_default_best_stack st arules (abs packet) d fs pl (abs_rule abs r0) HP HT HC I0 HN) as (s & Es & B).
  pose proof (bcm_compress_refines (bfactory st) (factory st) rules packet d BEST (bfactory_parser_refines st) Hr Hp Hl) as R.
  fold arules in R. rewrite Es in R. specialize (R ltac:(discriminate)).
  destruct (bcm_compress (bfactory st) rules packet d BEST) as [x|e|]; cbn in R; try contradiction.
  destruct R as [Cx Ax]. exists x. split; [reflexivity|]. split; [exact Cx|].
  rewrite <- Ax in B. rewrite (zlen_abs x Cx), (zlen_abs packet Hp) in B.
  assert (Ci : canon (brule_id r0)) by (exact (proj1 (Forall_In_canon rules r0 Hr H0))).
  cbn [abs_rule rule_id] in B. rewrite (zlen_abs _ Ci) in B. exact B.
Qed.
