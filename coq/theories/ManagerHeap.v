(* ManagerHeap.v -- Ruler.match_packet_descriptor, ContextManager.compress (FIRST / BEST) and .decompress, and the
   front end loops SCHC.compress / SCHC.decompress of ManagerBytes.v over the heap of Buffer OBJECTS, composed from
   ParserHeap.h_factory, SchcHeap.h_field_match / h_compress / h_match_schc_loop and a decompress function given as
   an argument (SchcHeap.h_decompress here; the version with the compute stage is plugged in by ComputeHeap.v).
   The generator of match_packet_descriptor is lazy: FIRST runs it up to its first yield, BEST compresses with each
   yielded rule before the generator resumes.
   Theorems: frame for the whole call (packet, SCHC packet, every Buffer of every rule unchanged, whatever the outcome),
   freshness of the result -- the context manager returns a NEW object; the front end returns a new object OR THE
   PACKET OBJECT ITSELF when no context accepts it --, refinement to ManagerBytes.
   Used for property C16 (first sentence). *)
From Coq Require Import ZArith List Bool Lia Arith.
From MS Require Import PyBase Buffer Bits Schc SchcBytes Parsers ParserBytes ComputeBytes ManagerBytes.
From MS Require Import BufferHeap BufferHeapSpec SchcHeap ParserHeap.
Import ListNotations.
Open Scope Z_scope.

(* ================================================================================================ *)
(* 1. definitions                                                                                   *)
(* ================================================================================================ *)

(* any(_field_match(pf, rf) == False for (pf, rf) in zip(...)) *)
Fixpoint h_any_mismatch (pfs : list ofield) (rfs : list orfd) : hm bool :=
  match pfs, rfs with
  | pf :: pfs', rf :: rfs' =>
    hdo m <- h_field_match pf rf ;;
    if m then h_any_mismatch pfs' rfs' else hret true
  | _, _ => hret false
  end.

Definition h_rule_matches (pd : opdesc) (r : orule) : hm bool :=
  match orule_nature r with
  | NoCompression => hret true
  | Compression =>
    let rfs := filter (oapplies (opd_dir pd)) (orule_fds r) in
    if negb (length (opd_fields pd) =? length rfs)%nat then hret false
    else hdo mm <- h_any_mismatch (opd_fields pd) rfs ;; hret (negb mm)
  | Fragmentation => hret false
  end.

(* ManagerBytes.bmatch_packet_descriptor records a divergence of the loop body as GRaise Unmodelled (no Buffer
   operation diverges); the same convention here *)
Definition nodiv {A} (q : res A) : res A := match q with Diverge => Exc Unmodelled | _ => q end.
Definition h_nodiv {A} (m : hm A) : hm A := fun h => let '(r, h') := m h in (nodiv r, h').

(* next(self.ruler.match_packet_descriptor(pd), None): the generator runs up to its first yield *)
Fixpoint h_first_match (rules : list orule) (pd : opdesc) : hm (option orule) :=
  match rules with
  | [] => hret None
  | r :: rs => hdo m <- h_nodiv (h_rule_matches pd r) ;; if m then hret (Some r) else h_first_match rs pd
  end.

(* for rule_descriptor in match_packet_descriptor(pd): compressed = compress(...);
   if schc_packet is None or compressed.length < schc_packet.length: schc_packet = compressed *)
Fixpoint h_best_loop (rules : list orule) (pd : opdesc) (direction : dir) (best : option oref) : hm (option oref) :=
  match rules with
  | [] => hret best
  | r :: rs =>
    hdo m <- h_nodiv (h_rule_matches pd r) ;;
    if m then
      hdo c <- h_compress pd r (Some direction) ;;
      hdo best' <- (match best with
                    | None => hret (Some c)
                    | Some b => hdo cb <- hget c ;; hdo bb <- hget b ;;
                                hret (if blen cb <? blen bb then Some c else Some b)
                    end) ;;
      h_best_loop rs pd direction best'
    else h_best_loop rs pd direction best
  end.

(* ContextManager.compress; the parser is the one factory builds for the stack id *)
Definition h_cm_compress (s : stack) (rules : list orule) (packet : oref) (direction : dir) (st : strategy) : hm oref :=
  hdo p <- h_factory s packet ;;
  let pd := mkopdesc direction (fst (fst p)) (snd (fst p)) in
  match st with
  | FIRST =>
    hdo o <- h_first_match rules pd ;;
    match o with Some r => h_compress pd r (Some direction) | None => hlift (Exc RuleDescriptorMatchError) end
  | BEST =>
    hdo b <- h_best_loop rules pd direction None ;;
    match b with Some x => hret x | None => hlift (Exc RuleDescriptorMatchError) end
  end.

(* Ruler.match_schc_packet after the fix of the empty-rule-set defect (rule_id = None before the loop): the rule-ID
   error for every list without a matching id.  (SchcHeap.h_match_schc_packet still has the UnboundLocalError.) *)
Definition h_match_schc_packet' (rules : list orule) (s : oref) : hm orule :=
  hdo o <- h_match_schc_loop rules s ;;
  match o with Some r => hret r | None => hlift (Exc RuleIDMatchError) end.

(* ContextManager.decompress over a decompress function *)
Definition odecompress := oref -> orule -> option dir -> hm oref.
Definition h_cm_decompress_with (dec : odecompress) (rules : list orule) (s : oref) (direction : option dir) : hm oref :=
  hdo r <- h_match_schc_packet' rules s ;; dec s r direction.

(* the front end: the contexts of an interface tried in order *)
Record octx := mkoctx { octx_stack : stack; octx_rules : list orule }.

Fixpoint h_schc_compress (ctxs : list octx) (packet : oref) : hm oref :=
  match ctxs with
  | [] => hret packet                                         (* return packet: the object given *)
  | c :: cs => fun h =>
    match h_cm_compress (octx_stack c) (octx_rules c) packet Up FIRST h with
    | (Exc ParserError, h') | (Exc RuleDescriptorMatchError, h') => h_schc_compress cs packet h'
    | r => r
    end
  end.

Fixpoint h_schc_decompress_with (dec : odecompress) (ctxs : list octx) (packet : oref) : hm oref :=
  match ctxs with
  | [] => hret packet
  | c :: cs => fun h =>
    match h_cm_decompress_with dec (octx_rules c) packet (Some Up) h with
    | (Exc RuleIDMatchError, h') => h_schc_decompress_with dec cs packet h'
    | r => r
    end
  end.

Definition deref_ctx (h : heap) (c : octx) : option bctx :=
  option_map (mkbctx (bfactory (octx_stack c))) (deref_list (deref_rule h) (octx_rules c)).
Definition Rctx (h : heap) (c : octx) (bc : bctx) : Prop :=
  bctx_parse bc = bfactory (octx_stack c) /\ Forall2 (Rrule h) (octx_rules c) (bctx_rules bc).
Lemma deref_ctx_inv h c bc : deref_ctx h c = Some bc -> Rctx h c bc.
Proof.
  unfold deref_ctx. destruct (deref_list (deref_rule h) (octx_rules c)) eqn:E; simpl; intro H; inversion H; subst.
  split; auto. simpl. apply deref_list_Forall2 in E. eapply Forall2_mono; [ | exact E ]. apply deref_rule_inv.
Qed.
Lemma Rctx_mono h h' c bc : extends h h' -> Rctx h c bc -> Rctx h' c bc.
Proof. intros X [A B]. split; auto. eapply Rrules_mono; eauto. Qed.

(* ================================================================================================ *)
(* 2. frame                                                                                         *)
(* ================================================================================================ *)

Lemma pv_nodiv {A} (m : hm A) : pure_val m -> pure_val (h_nodiv m).
Proof. intros P h x h' H. unfold h_nodiv in H. destruct (m h) as [r h1] eqn:E. inversion H; subst. eapply P; eauto. Qed.
Lemma pv_any_mismatch : forall pfs rfs, pure_val (h_any_mismatch pfs rfs).
Proof.
  induction pfs as [|pf pfs IH]; intros [|rf rfs]; cbn [h_any_mismatch]; try apply pv_ret.
  apply pv_bind. apply pv_field_match. intros [|]; auto. apply pv_ret.
Qed.
Lemma pv_rule_matches pd r : pure_val (h_rule_matches pd r).
Proof.
  unfold h_rule_matches. destruct (orule_nature r); try apply pv_ret. cbv zeta.
  destruct (negb _). apply pv_ret. apply pv_bind. apply pv_any_mismatch. intro. apply pv_ret.
Qed.
Lemma pv_first_match pd : forall rules, pure_val (h_first_match rules pd).
Proof.
  induction rules as [|r rs IH]; cbn [h_first_match]. apply pv_ret.
  apply pv_bind. apply pv_nodiv, pv_rule_matches. intros [|]; auto. apply pv_ret.
Qed.
Lemma pv_best_loop pd d : forall rules best, pure_val (h_best_loop rules pd d best).
Proof.
  induction rules as [|r rs IH]; intro best; cbn [h_best_loop]. apply pv_ret.
  apply pv_bind. apply pv_nodiv, pv_rule_matches. intros [|]; auto.
  apply pv_bind. apply pure_ref_val, pr_compress. intro c. apply pv_bind.
  { destruct best. apply pv_bind. apply pv_get. intro. apply pv_bind. apply pv_get. intro. apply pv_ret. apply pv_ret. }
  intro. apply IH.
Qed.
Lemma pv_cm_compress s rules packet d st : pure_val (h_cm_compress s rules packet d st).
Proof.
  unfold h_cm_compress. apply pv_bind. apply pv_factory. intro p. cbv zeta. destruct st.
  - apply pv_bind. apply pv_first_match. intros [r|]. apply pure_ref_val, pr_compress. apply pv_lift.
  - apply pv_bind. apply pv_best_loop. intros [x|]. apply pv_ret. apply pv_lift.
Qed.
Lemma pv_match_schc_packet' rules s : pure_val (h_match_schc_packet' rules s).
Proof.
  unfold h_match_schc_packet'. apply pv_bind. apply pv_match_schc_loop. intros [r|]. apply pv_ret. apply pv_lift.
Qed.
Lemma pv_cm_decompress_with dec rules s d : (forall s r d, pure_val (dec s r d)) ->
  pure_val (h_cm_decompress_with dec rules s d).
Proof. intro P. unfold h_cm_decompress_with. apply pv_bind. apply pv_match_schc_packet'. intro. apply P. Qed.
Lemma pv_schc_compress packet : forall ctxs, pure_val (h_schc_compress ctxs packet).
Proof.
  induction ctxs as [|c cs IH]; cbn [h_schc_compress]. apply pv_ret.
  intros h x h' H.
  destruct (h_cm_compress (octx_stack c) (octx_rules c) packet Up FIRST h) as [r h1] eqn:E.
  apply pv_cm_compress in E.
  assert (D : (x, h') = (r, h1) \/ h_schc_compress cs packet h1 = (x, h')).
  { destruct r as [a|e|]; auto. destruct e; auto. }
  destruct D as [D | D]. inversion D; subst; auto. eapply extends_trans; eauto.
Qed.
Lemma pv_schc_decompress_with dec packet : (forall s r d, pure_val (dec s r d)) ->
  forall ctxs, pure_val (h_schc_decompress_with dec ctxs packet).
Proof.
  intro P. induction ctxs as [|c cs IH]; cbn [h_schc_decompress_with]. apply pv_ret.
  intros h x h' H.
  destruct (h_cm_decompress_with dec (octx_rules c) packet (Some Up) h) as [r h1] eqn:E.
  apply (pv_cm_decompress_with dec _ _ _ P) in E.
  assert (D : (x, h') = (r, h1) \/ h_schc_decompress_with dec cs packet h1 = (x, h')).
  { destruct r as [a|e|]; auto. destruct e; auto. }
  destruct D as [D | D]. inversion D; subst; auto. eapply extends_trans; eauto.
Qed.

(* the whole call changes no existing object: the packet Buffer, every Buffer of every rule (ids, target values,
   mapping keys and indices) -- every heap, every reference, every outcome *)
Theorem h_cm_compress_frame s rules packet d st h res h' :
  h_cm_compress s rules packet d st h = (res, h') -> extends h h'.
Proof. apply pv_cm_compress. Qed.
Theorem h_cm_decompress_frame rules s d h res h' :
  h_cm_decompress_with h_decompress rules s d h = (res, h') -> extends h h'.
Proof. apply pv_cm_decompress_with. intros. apply pure_ref_val, pr_decompress. Qed.
Theorem h_schc_compress_frame ctxs packet h res h' : h_schc_compress ctxs packet h = (res, h') -> extends h h'.
Proof. apply pv_schc_compress. Qed.
Theorem h_schc_decompress_frame ctxs packet h res h' :
  h_schc_decompress_with h_decompress ctxs packet h = (res, h') -> extends h h'.
Proof. apply pv_schc_decompress_with. intros. apply pure_ref_val, pr_decompress. Qed.

(* ================================================================================================ *)
(* 3. freshness of the results                                                                      *)
(* ================================================================================================ *)

Lemma best_loop_fresh pd d lo : forall rules best h x h', (lo <= length h)%nat ->
  (forall b, best = Some b -> (lo <= b < length h)%nat) ->
  h_best_loop rules pd d best h = (x, h') -> forall s, x = Ok (Some s) -> (lo <= s < length h')%nat.
Proof.
  induction rules as [|r rs IH]; intros best h x h' L B H s Es; cbn [h_best_loop] in H.
  - unfold hret in H. inversion H; subst. inversion H1; subst. auto.
  - apply hbind_inv in H. destruct H as [(m & h1 & Hm & H) | [(e & _ & ->) | (_ & ->)]]; try discriminate.
    apply (pv_nodiv _ (pv_rule_matches pd r)) in Hm. apply extends_length in Hm.
    destruct m.
    + apply hbind_inv in H. destruct H as [(c & h2 & Hc & H) | [(e & _ & ->) | (_ & ->)]]; try discriminate.
      apply pr_compress in Hc. destruct Hc as [X2 F2]. specialize (F2 c eq_refl). apply extends_length in X2.
      apply hbind_inv in H. destruct H as [(best' & h3 & Hb & H) | [(e & _ & ->) | (_ & ->)]]; try discriminate.
      assert (Hb' : h3 = h2 /\ (best' = Some c \/ best' = best /\ best <> None)).
      { destruct best as [b|].
        - apply hbind_inv in Hb. destruct Hb as [(cb & h4 & Hg & Hb) | [(e & _ & E) | (_ & E)]]; try discriminate.
          unfold hget in Hg. inversion Hg; subst h4.
          apply hbind_inv in Hb. destruct Hb as [(bb & h5 & Hg2 & Hb) | [(e & _ & E) | (_ & E)]]; try discriminate.
          unfold hget in Hg2. inversion Hg2; subst h5. unfold hret in Hb. inversion Hb; subst. split; auto.
          destruct (blen cb <? blen bb); [ left | right ]; auto. split; auto. discriminate.
        - unfold hret in Hb. inversion Hb; subst. auto. }
      destruct Hb' as [-> Hb']. eapply (IH best' h2); eauto. lia.
      intros b0 E0. destruct Hb' as [-> | [-> _]]. inversion E0; subst. lia. apply B in E0. lia.
    + eapply (IH best h1); eauto. lia. intros b0 E0. apply B in E0. lia.
Qed.

(* ContextManager.compress returns a NEW object under both strategies *)
Theorem h_cm_compress_fresh s rules packet d st h x h' :
  h_cm_compress s rules packet d st h = (Ok x, h') -> (length h <= x < length h')%nat.
Proof.
  unfold h_cm_compress. intro H.
  apply hbind_inv in H. destruct H as [(p & h1 & Hp & H) | [(e & _ & E) | (_ & E)]]; try discriminate.
  apply pv_factory in Hp. apply extends_length in Hp. cbv zeta in H. destruct st.
  - apply hbind_inv in H. destruct H as [(o & h2 & Ho & H) | [(e & _ & E) | (_ & E)]]; try discriminate.
    apply pv_first_match in Ho. apply extends_length in Ho.
    destruct o as [r|]; [ | unfold hlift in H; discriminate ].
    apply pr_compress in H. destruct H as [_ F]. specialize (F x eq_refl). lia.
  - apply hbind_inv in H. destruct H as [(o & h2 & Ho & H) | [(e & _ & E) | (_ & E)]]; try discriminate.
    destruct o as [y|]; [ | unfold hlift in H; discriminate ].
    unfold hret in H. inversion H; subst.
    pose proof (best_loop_fresh _ _ (length h1) rules None h1 _ _ (Nat.le_refl _) ltac:(discriminate) Ho x eq_refl).
    lia.
Qed.

Theorem h_cm_decompress_fresh rules s d h x h' :
  h_cm_decompress_with h_decompress rules s d h = (Ok x, h') -> (length h <= x < length h')%nat.
Proof.
  unfold h_cm_decompress_with. intro H.
  apply hbind_inv in H. destruct H as [(r & h1 & Hr & H) | [(e & _ & E) | (_ & E)]]; try discriminate.
  apply pv_match_schc_packet' in Hr. apply extends_length in Hr.
  apply pr_decompress in H. destruct H as [_ F]. specialize (F x eq_refl). lia.
Qed.

(* SCHC.compress returns a new object, or THE PACKET OBJECT ITSELF when every context manager raised ParserError or
   RuleDescriptorMatchError (`return packet`) *)
Theorem h_schc_compress_result packet : forall ctxs h x h', h_schc_compress ctxs packet h = (Ok x, h') ->
  x = packet \/ (length h <= x < length h')%nat.
Proof.
  induction ctxs as [|c cs IH]; intros h x h' H; cbn [h_schc_compress] in H.
  - unfold hret in H. inversion H; subst. now left.
  - destruct (h_cm_compress (octx_stack c) (octx_rules c) packet Up FIRST h) as [r h1] eqn:E.
    destruct r as [a|e|].
    + inversion H; subst. right. eapply h_cm_compress_fresh; eauto.
    + pose proof (pv_cm_compress _ _ _ _ _ _ _ _ E) as X. apply extends_length in X.
      destruct e; try discriminate H; (apply IH in H; destruct H as [-> | L]; [ now left | right; lia ]).
    + discriminate.
Qed.
Theorem h_schc_decompress_result packet : forall ctxs h x h',
  h_schc_decompress_with h_decompress ctxs packet h = (Ok x, h') -> x = packet \/ (length h <= x < length h')%nat.
Proof.
  induction ctxs as [|c cs IH]; intros h x h' H; cbn [h_schc_decompress_with] in H.
  - unfold hret in H. inversion H; subst. now left.
  - destruct (h_cm_decompress_with h_decompress (octx_rules c) packet (Some Up) h) as [r h1] eqn:E.
    destruct r as [a|e|].
    + inversion H; subst. right. eapply h_cm_decompress_fresh; eauto.
    + assert (X : extends h h1).
      { eapply pv_cm_decompress_with; [ | exact E ]. intros. apply pure_ref_val, pr_decompress. }
      apply extends_length in X.
      destruct e; try discriminate H; (apply IH in H; destruct H as [-> | L]; [ now left | right; lia ]).
    + discriminate.
Qed.

(* ================================================================================================ *)
(* 4. refinement to ManagerBytes                                                                    *)
(* ================================================================================================ *)

Lemma refines_nodiv {A} (m : hm A) q h : refines Rval h (m h) q -> refines Rval h (h_nodiv m h) (nodiv q).
Proof.
  unfold h_nodiv, refines. destruct (m h) as [[a|e|] h'].
  - intros (X & b & -> & E). simpl. split; eauto.
  - intros (X & ->). simpl. auto.
  - intros (X & ->). simpl. auto.
Qed.

Lemma refines_any_mismatch : forall pfs bpfs rfs brfs h, Forall2 (Rfield h) pfs bpfs -> Forall2 (Rrfd h) rfs brfs ->
  refines Rval h (h_any_mismatch pfs rfs h) (bany_mismatch bpfs brfs).
Proof.
  induction pfs as [|pf pfs IH]; intros bpfs rfs brfs h FP FR;
    inversion FP as [|? bpf ? bpfs' Hp FP']; subst;
    inversion FR as [|rf brf rfs' brfs' Hr FR']; subst; cbn [h_any_mismatch bany_mismatch];
    try (apply refines_ret; reflexivity).
  apply refines_bind with (R := Rval). now apply refines_field_match.
  intros m m' h1 X1 E. unfold Rval in E; subst m'. destruct m.
  - apply IH; mono.
  - apply refines_ret. reflexivity.
Qed.

Lemma Forall2_length' {A B} (R : A -> B -> Prop) l l' : Forall2 R l l' -> length l = length l'.
Proof. intro F. induction F; simpl; auto. Qed.

Lemma refines_rule_matches pd r bpd br h : Rpdesc h pd bpd -> Rrule h r br ->
  refines Rval h (h_rule_matches pd r h) (brule_matches bpd br).
Proof.
  intros (D1 & DF & DP) (R1 & R2 & RF). unfold h_rule_matches, brule_matches. rewrite R2, D1.
  destruct (orule_nature r); try (apply refines_ret; reflexivity). cbv zeta.
  pose proof (Rselect_fds h (Some (opd_dir pd)) _ _ RF) as FS. cbn [oselect_fds bselect_fds] in FS.
  rewrite (Forall2_length' _ _ _ DF), (Forall2_length' _ _ _ FS).
  destruct (negb _). apply refines_ret; reflexivity.
  apply refines_bind with (R := Rval). now apply refines_any_mismatch.
  intros mm mm' h1 X1 E. unfold Rval in E; subst mm'. apply refines_ret. reflexivity.
Qed.

(* the lazy generator against the list ManagerBytes computes *)
Definition gen_first {A} (g : gen A) : res (option A) :=
  match g with GYield r _ => Ok (Some r) | GDone => Ok None | GRaise e => Exc e end.
Lemma gen_first_cons bpd br brs :
  gen_first (bmatch_packet_descriptor (br :: brs) bpd) =
  do m <- nodiv (brule_matches bpd br) ;; if m then Ok (Some br) else gen_first (bmatch_packet_descriptor brs bpd).
Proof. cbn [bmatch_packet_descriptor]. destruct (brule_matches bpd br) as [[|]|e|]; reflexivity. Qed.
Lemma bbest_loop_cons bpd d br brs best :
  bbest_loop bpd d (bmatch_packet_descriptor (br :: brs) bpd) best =
  do m <- nodiv (brule_matches bpd br) ;;
  if m then
    do c <- bcompress bpd br (Some d) ;;
    bbest_loop bpd d (bmatch_packet_descriptor brs bpd)
               (match best with None => Some c | Some b => if blen c <? blen b then Some c else Some b end)
  else bbest_loop bpd d (bmatch_packet_descriptor brs bpd) best.
Proof. cbn [bmatch_packet_descriptor]. destruct (brule_matches bpd br) as [[|]|e|]; reflexivity. Qed.

Lemma refines_first_match pd bpd : forall rules brules h, Rpdesc h pd bpd -> Forall2 (Rrule h) rules brules ->
  refines (Ropt Rrule) h (h_first_match rules pd h) (gen_first (bmatch_packet_descriptor brules bpd)).
Proof.
  induction rules as [|r rs IH]; intros brules h Rp F; inversion F as [|? br ? brs Hr F']; subst.
  - apply refines_ret. exact I.
  - rewrite gen_first_cons. cbn [h_first_match].
    apply refines_bind with (R := Rval). apply refines_nodiv. now apply refines_rule_matches.
    intros m m' h1 X1 E. unfold Rval in E; subst m'.
    assert (Rp1 : Rpdesc h1 pd bpd).
    { destruct Rp as (A & B & C). repeat split; auto; mono. }
    destruct m.
    + apply refines_ret. simpl. mono.
    + apply IH; auto. mono.
Qed.

Lemma Rpdesc_mono h h' pd bpd : extends h h' -> Rpdesc h pd bpd -> Rpdesc h' pd bpd.
Proof. intros X (A & B & C). repeat split; auto; mono. Qed.

Lemma refines_best_loop pd bpd d : forall rules brules best bestb h, Rpdesc h pd bpd -> Forall2 (Rrule h) rules brules ->
  Ropt Rref h best bestb ->
  refines (Ropt Rref) h (h_best_loop rules pd d best h) (bbest_loop bpd d (bmatch_packet_descriptor brules bpd) bestb).
Proof.
  induction rules as [|r rs IH]; intros brules best bestb h Rp F Rb; inversion F as [|? br ? brs Hr F']; subst.
  - apply refines_ret. exact Rb.
  - rewrite bbest_loop_cons. cbn [h_best_loop].
    apply refines_bind with (R := Rval). apply refines_nodiv. now apply refines_rule_matches.
    intros m m' h1 X1 E. unfold Rval in E; subst m'.
    assert (Rp1 := Rpdesc_mono _ _ _ _ X1 Rp).
    destruct m.
    + apply refines_bind with (R := Rref). apply refines_compress; auto. mono.
      intros c cb h2 X2 Ec.
      destruct best as [b|], bestb as [bb|]; simpl in Rb; try contradiction.
      * assert (Eb2 : Rref h2 b bb) by mono.
        rewrite hbind_assoc, (hbind_getR _ _ _ _ Ec), hbind_assoc, (hbind_getR _ _ _ _ Eb2), hbind_ret.
        apply IH. eapply Rpdesc_mono; [ | exact Rp ]. ext. mono.
        destruct (blen cb <? blen bb); simpl; auto.
      * rewrite hbind_ret. apply IH. eapply Rpdesc_mono; [ | exact Rp ]. ext. mono. simpl. exact Ec.
    + apply IH; auto. mono. eapply Ropt_Rref_mono; eauto.
Qed.

Lemma bcm_compress_first bparse brules packet d :
  bcm_compress bparse brules packet d FIRST =
  do p <- bparse packet ;;
  let pd := mkbpdesc d (fst p) (snd p) in
  do o <- gen_first (bmatch_packet_descriptor brules pd) ;;
  match o with Some r => bcompress pd r (Some d) | None => Exc RuleDescriptorMatchError end.
Proof.
  unfold bcm_compress. destruct (bparse packet) as [p|e|]; cbn [bind]; auto.
  destruct (bmatch_packet_descriptor brules _); reflexivity.
Qed.

Lemma refines_cm_compress s rules brules packet pb d st h : Forall2 (Rrule h) rules brules -> Rref h packet pb ->
  refines Rref h (h_cm_compress s rules packet d st h) (bcm_compress (bfactory s) brules pb d st).
Proof.
  intros F Ep. destruct st.
  - rewrite bcm_compress_first. unfold h_cm_compress.
    apply refines_bind with (R := Rpacket pb (length h)). now apply refines_factory.
    intros [[fs pl] raw] [bfs plb] h1 X1 (Ff & Epl & _ & _). cbn [fst snd] in *. cbv zeta.
    assert (Rp : Rpdesc h1 (mkopdesc d fs pl) (mkbpdesc d bfs plb)) by (repeat split; auto).
    apply refines_bind with (R := Ropt Rrule). { apply refines_first_match; auto. mono. }
    intros o ob h2 X2 Ro. destruct o as [r|], ob as [br|]; simpl in Ro; try contradiction.
    + apply refines_compress; auto. eapply Rpdesc_mono; eauto.
    + apply refines_exc.
  - unfold h_cm_compress, bcm_compress.
    apply refines_bind with (R := Rpacket pb (length h)). now apply refines_factory.
    intros [[fs pl] raw] [bfs plb] h1 X1 (Ff & Epl & _ & _). cbn [fst snd] in *. cbv zeta.
    assert (Rp : Rpdesc h1 (mkopdesc d fs pl) (mkbpdesc d bfs plb)) by (repeat split; auto).
    apply refines_bind with (R := Ropt Rref). { apply refines_best_loop; auto. mono. exact I. }
    intros o ob h2 X2 Ro. destruct o as [x|], ob as [xb|]; simpl in Ro; try contradiction.
    + apply refines_ret. exact Ro.
    + apply refines_exc.
Qed.

Lemma refines_match_schc_packet' rules brules s sb h : Forall2 (Rrule h) rules brules -> Rref h s sb ->
  refines Rrule h (h_match_schc_packet' rules s h) (bmatch_schc_packet brules sb).
Proof.
  intros F Es. unfold h_match_schc_packet', bmatch_schc_packet.
  apply refines_bind with (R := Ropt Rrule). now apply refines_match_schc_loop.
  intros o ob h1 X1 Ro. destruct o as [r|], ob as [br|]; simpl in Ro; try contradiction.
  apply refines_ret. exact Ro. apply refines_exc.
Qed.

(* a decompress function over the heap against one over values *)
Definition Rdecompress (dec : odecompress) (bdec : buf -> brule -> option dir -> res buf) : Prop :=
  forall s r d sb br h, Rref h s sb -> Rrule h r br -> refines Rref h (dec s r d h) (bdec sb br d).

Lemma refines_cm_decompress_with dec bdec rules brules s sb d h : Rdecompress dec bdec ->
  Forall2 (Rrule h) rules brules -> Rref h s sb ->
  refines Rref h (h_cm_decompress_with dec rules s d h) (do r <- bmatch_schc_packet brules sb ;; bdec sb r d).
Proof.
  intros D F Es. unfold h_cm_decompress_with.
  apply refines_bind with (R := Rrule). now apply refines_match_schc_packet'.
  intros r br h1 X1 Rr. apply D; auto. mono.
Qed.
Lemma Rdecompress_fields : Rdecompress h_decompress bdecompress.
Proof. intros s r d sb br h Es Rr. now apply refines_decompress. Qed.

Lemma refines_schc_compress packet pb : forall ctxs bctxs h, Forall2 (Rctx h) ctxs bctxs -> Rref h packet pb ->
  refines Rref h (h_schc_compress ctxs packet h) (bschc_compress bctxs pb).
Proof.
  induction ctxs as [|c cs IH]; intros bctxs h F Ep; inversion F as [|? bc ? bcs [Hc1 Hc2] F']; subst;
    cbn [h_schc_compress bschc_compress].
  - apply refines_ret. exact Ep.
  - rewrite Hc1.
    pose proof (refines_cm_compress (octx_stack c) _ _ packet pb Up FIRST h Hc2 Ep) as R. unfold refines in R.
    destruct (h_cm_compress (octx_stack c) (octx_rules c) packet Up FIRST h) as [[x|e|] h1].
    + destruct R as (X & v & -> & Ex). split; eauto.
    + destruct R as (X & ->).
      assert (N : refines Rref h (h_schc_compress cs packet h1) (bschc_compress bcs pb)).
      { assert (R1 : refines Rref h1 (h_schc_compress cs packet h1) (bschc_compress bcs pb)).
        { apply IH. eapply Forall2_mono; [ | exact F' ]. intros; eapply Rctx_mono; eauto. mono. }
        unfold refines in *. destruct (h_schc_compress cs packet h1) as [[y|e'|] h2]; destruct R1 as [X2 R1];
          (split; [ eapply extends_trans; eauto | exact R1 ]). }
      destruct e; try exact N; split; auto.
    + destruct R as (X & ->). split; auto.
Qed.

(* ManagerBytes.bschc_decompress_ct over any value-level decompress function *)
Fixpoint bschc_decompress_with (bdec : buf -> brule -> option dir -> res buf) (ctxs : list bctx) (packet : buf) : res buf :=
  match ctxs with
  | [] => Ok packet
  | c :: cs =>
    match (do r <- bmatch_schc_packet (bctx_rules c) packet ;; bdec packet r (Some Up)) with
    | Exc RuleIDMatchError => bschc_decompress_with bdec cs packet
    | r => r
    end
  end.
Lemma bschc_decompress_ct_with ct ctxs packet :
  bschc_decompress_ct ct ctxs packet = bschc_decompress_with (bdecompress_ct ct) ctxs packet.
Proof. induction ctxs as [|c cs IH]; cbn [bschc_decompress_ct bschc_decompress_with]; auto. rewrite IH. reflexivity. Qed.

Lemma refines_schc_decompress_with dec bdec packet pb : Rdecompress dec bdec ->
  forall ctxs bctxs h, Forall2 (Rctx h) ctxs bctxs -> Rref h packet pb ->
  refines Rref h (h_schc_decompress_with dec ctxs packet h) (bschc_decompress_with bdec bctxs pb).
Proof.
  intro D. induction ctxs as [|c cs IH]; intros bctxs h F Ep; inversion F as [|? bc ? bcs [Hc1 Hc2] F']; subst;
    cbn [h_schc_decompress_with bschc_decompress_with].
  - apply refines_ret. exact Ep.
  - pose proof (refines_cm_decompress_with dec bdec _ _ packet pb (Some Up) h D Hc2 Ep) as R. unfold refines in R.
    destruct (h_cm_decompress_with dec (octx_rules c) packet (Some Up) h) as [[x|e|] h1].
    + destruct R as (X & v & -> & Ex). split; eauto.
    + destruct R as (X & ->).
      assert (N : refines Rref h (h_schc_decompress_with dec cs packet h1) (bschc_decompress_with bdec bcs pb)).
      { assert (R1 : refines Rref h1 (h_schc_decompress_with dec cs packet h1) (bschc_decompress_with bdec bcs pb)).
        { apply IH. eapply Forall2_mono; [ | exact F' ]. intros; eapply Rctx_mono; eauto. mono. }
        unfold refines in *. destruct (h_schc_decompress_with dec cs packet h1) as [[y|e'|] h2]; destruct R1 as [X2 R1];
          (split; [ eapply extends_trans; eauto | exact R1 ]). }
      destruct e; try exact N; split; auto.
    + destruct R as (X & ->). split; auto.
Qed.

(* ---- the statements on dereferenced inputs ---- *)
Lemma Rrules_of_deref h rules brules : deref_list (deref_rule h) rules = Some brules -> Forall2 (Rrule h) rules brules.
Proof. intro H. apply deref_list_Forall2 in H. eapply Forall2_mono; [ | exact H ]. apply deref_rule_inv. Qed.
Lemma Rctxs_of_deref h ctxs bctxs : deref_list (deref_ctx h) ctxs = Some bctxs -> Forall2 (Rctx h) ctxs bctxs.
Proof. intro H. apply deref_list_Forall2 in H. eapply Forall2_mono; [ | exact H ]. apply deref_ctx_inv. Qed.
Lemma refines_Rref_out h p q : refines Rref h p q ->
  match p with
  | (Ok x, h') => exists v, q = Ok v /\ nth_error h' x = Some v
  | (Exc e, _) => q = Exc e
  | (Diverge, _) => q = Diverge
  end.
Proof. destruct p as [[x|e|] h']; simpl; tauto. Qed.

Theorem h_cm_compress_refines s rules packet d st h brules pb :
  deref_list (deref_rule h) rules = Some brules -> nth_error h packet = Some pb ->
  match h_cm_compress s rules packet d st h with
  | (Ok x, h') => exists v, bcm_compress (bfactory s) brules pb d st = Ok v /\ nth_error h' x = Some v
  | (Exc e, _) => bcm_compress (bfactory s) brules pb d st = Exc e
  | (Diverge, _) => bcm_compress (bfactory s) brules pb d st = Diverge
  end.
Proof. intros Hr Hp. apply (refines_Rref_out h). apply refines_cm_compress; auto. now apply Rrules_of_deref. Qed.

(* ContextManager.decompress with the field stage of decompress (rules without compute actions; the compute stage
   is added in ComputeHeap.v through Rdecompress) *)
Theorem h_cm_decompress_refines rules s d h brules sb :
  deref_list (deref_rule h) rules = Some brules -> nth_error h s = Some sb ->
  match h_cm_decompress_with h_decompress rules s d h with
  | (Ok x, h') => exists v, (do r <- bmatch_schc_packet brules sb ;; bdecompress sb r d) = Ok v /\ nth_error h' x = Some v
  | (Exc e, _) => (do r <- bmatch_schc_packet brules sb ;; bdecompress sb r d) = Exc e
  | (Diverge, _) => (do r <- bmatch_schc_packet brules sb ;; bdecompress sb r d) = Diverge
  end.
Proof.
  intros Hr Hs. apply (refines_Rref_out h). apply refines_cm_decompress_with; auto.
  apply Rdecompress_fields. now apply Rrules_of_deref.
Qed.

Theorem h_schc_compress_refines ctxs packet h bctxs pb :
  deref_list (deref_ctx h) ctxs = Some bctxs -> nth_error h packet = Some pb ->
  match h_schc_compress ctxs packet h with
  | (Ok x, h') => exists v, bschc_compress bctxs pb = Ok v /\ nth_error h' x = Some v
  | (Exc e, _) => bschc_compress bctxs pb = Exc e
  | (Diverge, _) => bschc_compress bctxs pb = Diverge
  end.
Proof. intros Hc Hp. apply (refines_Rref_out h). apply refines_schc_compress; auto. now apply Rctxs_of_deref. Qed.

Theorem h_schc_decompress_refines ctxs packet h bctxs pb :
  deref_list (deref_ctx h) ctxs = Some bctxs -> nth_error h packet = Some pb ->
  match h_schc_decompress_with h_decompress ctxs packet h with
  | (Ok x, h') => exists v, bschc_decompress_with bdecompress bctxs pb = Ok v /\ nth_error h' x = Some v
  | (Exc e, _) => bschc_decompress_with bdecompress bctxs pb = Exc e
  | (Diverge, _) => bschc_decompress_with bdecompress bctxs pb = Diverge
  end.
Proof.
  intros Hc Hp. apply (refines_Rref_out h). apply refines_schc_decompress_with; auto.
  apply Rdecompress_fields. now apply Rctxs_of_deref.
Qed.

(* ---- instances: the packet and the rules of ManagerBytes (rule 1, the no-compression rule, `other`) as objects ---- *)
Definition mh_heap : heap :=
  [ mex_packet;                    (* 0  the packet *)
    mkbuf [2] 2 LEFT 6;            (* 1  id of rule 1 *)
    mkbuf [18] 8 LEFT 0;           (* 2  MSB pattern *)
    mkbuf [0; 9] 16 LEFT 0;        (* 3  mapping key *)
    mkbuf [0] 1 LEFT 7;            (* 4  its index *)
    mkbuf [0; 7] 16 LEFT 0;        (* 5  mapping key *)
    mkbuf [1] 1 LEFT 7;            (* 6  its index *)
    mkbuf [0; 11] 16 LEFT 0;       (* 7  target value of the length *)
    mkbuf [] 0 LEFT 0;             (* 8  target value of the checksum *)
    mkbuf [0] 2 LEFT 6;            (* 9  id of the no-compression rule *)
    mkbuf [1] 2 LEFT 6;            (* 10 id of `other` *)
    mkbuf [0; 1] 16 LEFT 0 ].      (* 11 its target value *)
Definition mh_rule1 : orule :=
  mkorule 1%nat Compression
    [mkorfd (mkfid P_UDP 0) 16 0 Bi (OTVbuf 2%nat) MO_msb LSB;
     mkorfd (mkfid P_UDP 1) 16 0 Bi (OTVmap [(3%nat, 4%nat); (5%nat, 6%nat)]) MO_mapping MappingSent;
     mkorfd (mkfid P_UDP 2) 16 0 Bi (OTVbuf 7%nat) MO_equal NotSent;
     mkorfd (mkfid P_UDP 3) 0 0 Bi (OTVbuf 8%nat) MO_ignore ValueSent].
Definition mh_nocomp : orule := mkorule 9%nat NoCompression [].
Definition mh_other : orule :=
  mkorule 10%nat Compression [mkorfd (mkfid P_UDP 0) 16 0 Bi (OTVbuf 11%nat) MO_equal NotSent].

Example mh_deref :
  deref_list (deref_rule mh_heap) [mh_rule1; mh_nocomp; mh_other] = Some [mex_rule1; mex_nocomp; mex_other].
Proof. vm_compute. reflexivity. Qed.

(* compress under both strategies: a new object holding what ManagerBytes computes (mex_first_A), heap only extended *)
Example mh_compress :
  let p1 := h_cm_compress S_UDP [mh_rule1; mh_nocomp] 0%nat Up FIRST mh_heap in
  let p2 := h_cm_compress S_UDP [mh_nocomp; mh_rule1] 0%nat Up BEST mh_heap in
  match fst p1, fst p2 with
  | Ok x1, Ok x2 =>
    (length mh_heap <= x1)%nat /\ (length mh_heap <= x2)%nat /\
    nth_error (snd p1) x1 = Some (mkbuf [141; 62; 32; 0; 0; 2; 4; 6] 63 RIGHT 1) /\
    nth_error (snd p2) x2 = Some (mkbuf [141; 62; 32; 0; 0; 2; 4; 6] 63 RIGHT 1) /\
    firstn (length mh_heap) (snd p1) = mh_heap /\ firstn (length mh_heap) (snd p2) = mh_heap /\
    bcm_compress (bfactory S_UDP) [mex_rule1; mex_nocomp] mex_packet Up FIRST = Ok (mkbuf [141; 62; 32; 0; 0; 2; 4; 6] 63 RIGHT 1)
  | _, _ => False
  end.
Proof. vm_compute. repeat split; try reflexivity; lia. Qed.

(* decompress (field stage) of that SCHC packet placed in the heap as object 12 *)
Example mh_decompress :
  let h := mh_heap ++ [mkbuf [141; 62; 32; 0; 0; 2; 4; 6] 63 RIGHT 1] in
  let p := h_cm_decompress_with h_decompress [mh_nocomp; mh_rule1] 12%nat (Some Up) h in
  match fst p with
  | Ok x => (length h <= x)%nat /\ firstn (length h) (snd p) = h /\
            nth_error (snd p) x = Some (mkbuf [18; 52; 0; 7; 0; 11; 0; 0; 1; 2; 3] 88 RIGHT 0)
  | _ => False
  end.
Proof. vm_compute. repeat split; try reflexivity; lia. Qed.

(* the front end: the IPv6 context raises ParserError, the `other` context RuleDescriptorMatchError, the third one
   compresses; without the third one the PACKET OBJECT ITSELF (object 0) is returned *)
Example mh_front :
  let p := h_schc_compress [mkoctx S_IPv6 [mh_nocomp]; mkoctx S_UDP [mh_other]; mkoctx S_UDP [mh_rule1]] 0%nat mh_heap in
  let q := h_schc_compress [mkoctx S_IPv6 [mh_nocomp]; mkoctx S_UDP [mh_other]] 0%nat mh_heap in
  match fst p with
  | Ok x => (length mh_heap <= x)%nat /\ nth_error (snd p) x = Some (mkbuf [141; 62; 32; 0; 0; 2; 4; 6] 63 RIGHT 1)
  | _ => False
  end /\ fst q = Ok 0%nat /\ firstn (length mh_heap) (snd q) = mh_heap /\ (length mh_heap < length (snd q))%nat.
Proof. vm_compute. repeat split; try reflexivity; lia. Qed.
