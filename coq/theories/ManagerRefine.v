(* ManagerRefine.v -- the byte-level rule matcher, context manager and front end of ManagerBytes.v
   (written with the Buffer operations) refine the bit-level ones of Schc.v through abs: on canonical
   buffers they return the bit-level outcome -- the same exception, or a canonical buffer that denotes
   the bit-level value.  Composed with the bit-level theorems of SchcRules.v / SchcRoundtrip.v this gives
   the byte-level versions of the manager properties (C01 through the manager, C11, C15).

   One restriction, on the compress side only: the bit-level compressor answers the marker
   Exc Unmodelled ("the model does not describe the code on this input") when a least-significant-bits
   action meets a pattern longer than the field value (Schc.lsb_bits); the byte-level compressor
   follows buffer.py there (IndexError on the example below).  The compress-side theorems therefore
   carry the premise that the bit-level outcome is not that marker (relation sim); the decompress side
   needs no such premise (ComputeBytes puts the marker at the same places as Schc.v). *)
From Coq Require Import ZArith List Bool Lia.
From MS Require Import PyBase Buffer Bits ByteFacts BufferAbs BufNew BufferSpec Schc SchcSpec SchcCodec SchcRules SchcRoundtrip
  SchcBytes SchcRefine Parsers ParserTiling ParserBytes ParserRefine Compute ComputeBytes EndToEnd ComputeRefine ManagerBytes.
Import ListNotations.
Open Scope Z_scope.

(* ---- the refinement relations ------------------------------------------------------------------- *)
(* same outcome unless the bit-level model declines to describe the input *)
Definition sim {A B} (R : A -> B -> Prop) (x : res A) (y : res B) : Prop :=
  y <> Exc Unmodelled -> same_outcome R x y.

Lemma sim_of_same {A B} (R : A -> B -> Prop) x y : same_outcome R x y -> sim R x y.
Proof. intros H _. exact H. Qed.

Lemma sim_bind {A B A' B'} (R : A -> A' -> Prop) (S : B -> B' -> Prop) x y f g :
  sim R x y -> (forall a a', R a a' -> sim S (f a) (g a')) -> sim S (bind x f) (bind y g).
Proof.
  intros H K M. destruct y as [b|e|]; cbn [bind] in M.
  - specialize (H ltac:(discriminate)). destruct x as [a| |]; cbn [same_outcome] in H; try contradiction.
    cbn [bind]. exact (K a b H M).
  - assert (@Exc A' e <> Exc Unmodelled) as M' by (intros [= ->]; apply M; reflexivity).
    specialize (H M'). destruct x as [a|e'|]; cbn [same_outcome] in H; try contradiction. subst e'. reflexivity.
  - specialize (H ltac:(discriminate)). destruct x as [a|e'|]; cbn [same_outcome] in H; try contradiction. exact I.
Qed.

Lemma same_outcome_impl {A B} (R S : A -> B -> Prop) x y :
  (forall a b, R a b -> S a b) -> same_outcome R x y -> same_outcome S x y.
Proof. intros H. destruct x, y; cbn [same_outcome]; auto. Qed.

(* a byte-level packet parser refines a bit-level one (ParserRefine.refines, for packet parsers) *)
Definition parser_refines (bp : bparser) (p : parser) : Prop :=
  forall b, canon b -> bside b = LEFT -> same_outcome pkt_rel (bp b) (p (abs b)).

Theorem bfactory_parser_refines s : parser_refines (bfactory s) (factory s).
Proof. intros b Hb Hs. exact (bfactory_refines s b Hb Hs). Qed.

(* what the manager needs of a parse result (pkt_rel without the padding side of the payload) *)
Definition parsed_rel (x : list bfield * buf) (y : list field * bits) : Prop :=
  map (abs_field abs) (fst x) = fst y /\ abs (snd x) = snd y /\ Forall canon_field (fst x) /\ canon (snd x).

Lemma pkt_parsed_rel x y : pkt_rel x y -> parsed_rel x y.
Proof. intros (H1 & H2 & H3 & H4 & _). split; [exact H1|]. split; [exact H2|]. split; [exact H3|exact H4]. Qed.

(* ---- the compressor: every outcome ---------------------------------------------------------------- *)
Definition ores_rel (bro : option buf) (ro : option bits) : Prop :=
  option_map abs bro = ro /\ match bro with Some x => canon x | None => True end.

Lemma bresidue_of_sim pf rf : canon_field pf -> canon_rfd rf ->
  sim ores_rel (bresidue_of pf rf) (residue_of (abs_field abs pf) (abs_rfd abs rf)).
Proof.
  intros Hpf Hrf M.
  destruct (residue_of (abs_field abs pf) (abs_rfd abs rf)) as [ro|e|] eqn:E.
  - destruct (bresidue_of_refines pf rf ro Hpf Hrf E) as (bro & Eb & A & C). rewrite Eb. cbn [same_outcome]. split; assumption.
  - destruct Hpf as [Hv Hs]. unfold residue_of, bresidue_of, canon_rfd in *.
    cbn [abs_field abs_rfd f_val r_cda r_tv] in E.
    destruct (br_cda rf); try discriminate E.
    + destruct (br_tv rf) as [pat|fw]; cbn [abs_tv canon_tv] in *.
      * unfold lsb_bits in E.
        destruct ((zlen (abs (bf_val pf)) - zlen (abs pat) <? 0) || (zlen (abs (bf_val pf)) <? zlen (abs (bf_val pf)) - zlen (abs pat)));
          cbn [bind] in E; [|discriminate E]. injection E as <-. contradiction M. reflexivity.
      * injection E as <-. reflexivity.
    + destruct (br_tv rf) as [pat|fw]; cbn [abs_tv canon_tv] in *.
      * injection E as <-. reflexivity.
      * rewrite (dict_get_bits fw (bf_val pf) (Forall_fst_canon fw Hrf) Hv). cbn [bind].
        pose proof (assoc_get_ab2 fw (abs (bf_val pf)) Hrf) as H. fold ab2 in E.
        destruct (assoc_get (abs_keys fw) (abs (bf_val pf))) as [i|].
        -- destruct H as [_ H]. rewrite H in E. discriminate E.
        -- rewrite H in E. injection E as <-. reflexivity.
  - exfalso. unfold residue_of in E. cbn [abs_field abs_rfd f_val r_cda r_tv] in E.
    destruct (br_cda rf); try discriminate E.
    + destruct (br_tv rf) as [pat|fw]; cbn [abs_tv] in E; [|discriminate E].
      unfold lsb_bits in E. destruct (_ || _); discriminate E.
    + destruct (br_tv rf) as [pat|fw]; cbn [abs_tv] in E; [discriminate E|].
      destruct (assoc_get _ _); discriminate E.
Qed.

Lemma bencode_length_outcome n : same_outcome bval_rel (bencode_length n) (encode_length n).
Proof.
  destruct (encode_length n) as [p|e|] eqn:E.
  - destruct (bencode_length_refines n p E) as (x & Ex & Cx & Ax). rewrite Ex. split; assumption.
  - unfold encode_length in E. unfold bencode_length.
    destruct (negb (n <? 65536)); [injection E as <-; reflexivity|].
    destruct (n <? 15); [discriminate E|]. destruct (n <? 255); discriminate E.
  - unfold encode_length in E. destruct (negb (n <? 65536)); [discriminate E|].
    destruct (n <? 15); [discriminate E|]. destruct (n <? 255); discriminate E.
Qed.

Lemma bcompress_fields_sim pfs : forall rfs acc,
  Forall canon_field pfs -> Forall canon_rfd rfs -> canon acc ->
  sim bval_rel (bcompress_fields pfs rfs acc) (compress_fields (map (abs_field abs) pfs) (map (abs_rfd abs) rfs) (abs acc)).
Proof.
  induction pfs as [|pf pfs IH]; intros rfs acc Hp Hr Ha.
  - cbn [map compress_fields bcompress_fields]. apply sim_of_same. split; [exact Ha|reflexivity].
  - destruct rfs as [|rf rfs].
    + cbn [map compress_fields bcompress_fields]. apply sim_of_same. split; [exact Ha|reflexivity].
    + inversion Hp as [|? ? Hpf Hp']; subst. inversion Hr as [|? ? Hrf Hr']; subst.
      cbn [map compress_fields bcompress_fields].
      apply sim_bind with (R := ores_rel); [apply bresidue_of_sim; assumption|].
      intros bro ro [<- Cb]. destruct bro as [x|]; cbn [option_map]; [|apply IH; assumption].
      change (announces_length (abs_rfd abs rf)) with (bannounces_length rf).
      rewrite zlen_abs by exact Cb.
      destruct (bannounces_length rf).
      * apply sim_bind with (R := fun a1 pre => canon a1 /\ abs a1 = abs acc ++ pre).
        -- apply sim_of_same. pose proof (bencode_length_outcome (blen x)) as Hl.
           destruct (bencode_length (blen x)) as [bp| |], (encode_length (blen x)) as [p| |];
             cbn [same_outcome bind] in *; try contradiction; try exact Hl.
           destruct Hl as [Cp <-]. destruct (add_bits acc bp Ha Cp) as (a1 & E1 & C1 & _ & A1). rewrite E1.
           split; assumption.
        -- intros a1 pre [C1 A1].
           destruct (add_bits a1 x C1 Cb) as (a2 & E2 & C2 & _ & A2). rewrite E2. cbn [bind].
           replace (abs acc ++ pre ++ abs x) with (abs a2) by (rewrite A2, A1, <- app_assoc; reflexivity).
           apply IH; assumption.
      * cbn [bind app].
        destruct (add_bits acc x Ha Cb) as (a2 & E2 & C2 & _ & A2). rewrite E2. cbn [bind]. rewrite <- A2.
        apply IH; assumption.
Qed.

Theorem bcompress_sim pd r d : canon_pdesc pd -> canon_rule r ->
  sim bval_rel (bcompress pd r d) (compress (abs_pdesc abs pd) (abs_rule abs r) d).
Proof.
  intros [Hf Hpl] [Hid Hfds]. unfold compress, bcompress.
  cbn [abs_pdesc abs_rule rule_nature rule_fds rule_id pd_fields pd_payload].
  destruct empty_buf as (e & Ee & Ce & Ae). rewrite Ee. cbn [bind].
  destruct (add_bits e (brule_id r) Ce Hid) as (s0 & E0 & C0 & _ & A0). rewrite E0. cbn [bind].
  rewrite Ae in A0. cbn [app] in A0.
  destruct (brule_nature r).
  - rewrite select_fds_abs. rewrite <- A0.
    apply sim_bind with (R := bval_rel);
      [apply bcompress_fields_sim; [exact Hf|apply bselect_fds_canon; exact Hfds|exact C0]|].
    intros bb body [Cb <-]. apply sim_of_same.
    destruct (add_bits bb _ Cb Hpl) as (x & Ex & Cx & _ & Ax). rewrite Ex. split; assumption.
  - apply sim_of_same.
    assert (Forall canon (map bf_val (bpd_fields pd))) as Hvs.
    { apply Forall_map. eapply Forall_impl; [|exact Hf]. intros f [H _]. exact H. }
    destruct (badd_all_bits _ Hvs s0 C0) as (bb & Eb & Cb & Ab). rewrite Eb. cbn [bind].
    destruct (add_bits bb _ Cb Hpl) as (x & Ex & Cx & _ & Ax). rewrite Ex. cbn [same_outcome].
    split; [exact Cx|]. rewrite Ax, Ab, A0. rewrite !map_map. cbn [abs_field f_val]. now rewrite <- app_assoc.
  - apply sim_of_same. cbn [same_outcome]. split; [exact C0|exact A0].
Qed.

(* ---- Ruler.match_packet_descriptor ------------------------------------------------------------------ *)
Lemma bany_mismatch_refines pfs : forall rfs, Forall canon_field pfs -> Forall canon_rfd rfs ->
  bany_mismatch pfs rfs = any_mismatch (map (abs_field abs) pfs) (map (abs_rfd abs) rfs).
Proof.
  induction pfs as [|pf pfs IH]; intros rfs Hp Hr; [reflexivity|].
  destruct rfs as [|rf rfs]; [reflexivity|].
  inversion Hp as [|? ? [Hv _] Hp']; subst. inversion Hr as [|? ? Hrf Hr']; subst.
  cbn [map bany_mismatch any_mismatch]. rewrite bfield_match_refines by assumption.
  destruct (field_match (abs_field abs pf) (abs_rfd abs rf)) as [[|]| |]; cbn [bind]; try reflexivity.
  apply IH; assumption.
Qed.

Theorem brule_matches_refines pd r : canon_pdesc pd -> canon_rule r ->
  brule_matches pd r = rule_matches (abs_pdesc abs pd) (abs_rule abs r).
Proof.
  intros [Hf _] [_ Hfds]. unfold brule_matches, rule_matches.
  cbn [abs_pdesc abs_rule rule_nature rule_fds pd_dir pd_fields].
  destruct (brule_nature r); [|reflexivity|reflexivity].
  pose proof (select_fds_abs (Some (bpd_dir pd)) (brule_fds r)) as Hsel. cbn [select_fds bselect_fds] in Hsel.
  rewrite Hsel, !map_length.
  destruct (negb (length (bpd_fields pd) =? length (filter (bapplies (bpd_dir pd)) (brule_fds r)))%nat); [reflexivity|].
  rewrite bany_mismatch_refines; [reflexivity|exact Hf|].
  exact (bselect_fds_canon (Some (bpd_dir pd)) _ Hfds).
Qed.

(* a fragmentation rule is never yielded by the byte-level matcher (no hypothesis on the buffers: neither the
   descriptors nor the packet are read), and the byte-level manager ignores such rules *)
Theorem bfragmentation_never_matches pd r : brule_nature r = Fragmentation -> brule_matches pd r = Ok false.
Proof. unfold brule_matches. intros ->. reflexivity. Qed.
Theorem bfragmentation_never_yielded rules pd r :
  In r (gen_list (bmatch_packet_descriptor rules pd)) -> brule_nature r <> Fragmentation.
Proof.
  induction rules as [|r0 rules IH]; cbn [bmatch_packet_descriptor gen_list]; [intros []|].
  destruct (brule_matches pd r0) as [[|]| |] eqn:E; cbn [gen_list]; try (now intros []); [|exact IH].
  intros [<-|H]; [|exact (IH H)]. intros N. rewrite (bfragmentation_never_matches pd r0 N) in E. discriminate.
Qed.
Definition bnot_fragmentation (r : brule) : bool := match brule_nature r with Fragmentation => false | _ => true end.
Theorem bmatch_packet_descriptor_skips_fragmentation rules pd :
  bmatch_packet_descriptor rules pd = bmatch_packet_descriptor (filter bnot_fragmentation rules) pd.
Proof.
  induction rules as [|r rules IH]; [reflexivity|]. cbn [filter]. unfold bnot_fragmentation at 1.
  destruct (brule_nature r) eqn:N; cbn [bmatch_packet_descriptor]; rewrite IH; try reflexivity.
  now rewrite (bfragmentation_never_matches pd r N).
Qed.
Theorem bcm_compress_ignores_fragmentation bparse rules packet d st :
  bcm_compress bparse rules packet d st = bcm_compress bparse (filter bnot_fragmentation rules) packet d st.
Proof.
  unfold bcm_compress. destruct (bparse packet) as [p|e|]; cbn [bind]; try reflexivity.
  now rewrite (bmatch_packet_descriptor_skips_fragmentation rules).
Qed.

(* the two generators: the byte-level one yields rules of the byte-level rule list whose abstractions
   the bit-level one yields, in the same order, and both end the same way (exhausted, or the same
   exception) *)
Inductive gen_rel (rules : list brule) : gen brule -> gen rule -> Prop :=
| gen_rel_done : gen_rel rules GDone GDone
| gen_rel_raise e : gen_rel rules (GRaise e) (GRaise e)
| gen_rel_yield r g g' : In r rules -> gen_rel rules g g' ->
    gen_rel rules (GYield r g) (GYield (abs_rule abs r) g').

Lemma gen_rel_incl rules rules' g g' : incl rules rules' -> gen_rel rules g g' -> gen_rel rules' g g'.
Proof. intros Hi. induction 1; constructor; auto. Qed.

Theorem bmatch_packet_descriptor_refines rules pd : canon_pdesc pd -> Forall canon_rule rules ->
  gen_rel rules (bmatch_packet_descriptor rules pd)
                (match_packet_descriptor (map (abs_rule abs) rules) (abs_pdesc abs pd)).
Proof.
  intros Hpd. induction 1 as [|r rules Hr Hrs IH]; cbn [map bmatch_packet_descriptor match_packet_descriptor].
  - constructor.
  - rewrite brule_matches_refines by assumption.
    assert (gen_rel (r :: rules) (bmatch_packet_descriptor rules pd)
              (match_packet_descriptor (map (abs_rule abs) rules) (abs_pdesc abs pd))) as IH'
      by (apply (gen_rel_incl rules); [apply incl_tl, incl_refl|exact IH]).
    destruct (rule_matches (abs_pdesc abs pd) (abs_rule abs r)) as [[|]|e|].
    + constructor; [left; reflexivity|exact IH'].
    + exact IH'.
    + constructor.
    + constructor.
Qed.

(* read as lists: the rules yielded and the way the generator ends *)
Corollary bmatch_packet_descriptor_lists rules pd : canon_pdesc pd -> Forall canon_rule rules ->
  map (abs_rule abs) (gen_list (bmatch_packet_descriptor rules pd)) =
    gen_list (match_packet_descriptor (map (abs_rule abs) rules) (abs_pdesc abs pd)) /\
  gen_raises (bmatch_packet_descriptor rules pd) =
    gen_raises (match_packet_descriptor (map (abs_rule abs) rules) (abs_pdesc abs pd)) /\
  incl (gen_list (bmatch_packet_descriptor rules pd)) rules.
Proof.
  intros Hpd Hr. pose proof (bmatch_packet_descriptor_refines rules pd Hpd Hr) as H.
  induction H as [|e|r g g' Hi H IH]; cbn [gen_list gen_raises map].
  - split; [reflexivity|]. split; [reflexivity|]. intros x [].
  - split; [reflexivity|]. split; [reflexivity|]. intros x [].
  - destruct IH as (IH1 & IH2 & IH3). split; [now rewrite IH1|]. split; [exact IH2|].
    intros x [<-|Hx]; [exact Hi|exact (IH3 x Hx)].
Qed.

(* ---- Ruler.match_schc_packet ------------------------------------------------------------------------ *)
Definition rule_rel (rules : list brule) (br : brule) (r : rule) : Prop := In br rules /\ abs_rule abs br = r.

Theorem bmatch_schc_packet_refines rules s : canon s -> Forall canon_rule rules ->
  same_outcome (rule_rel rules) (bmatch_schc_packet rules s) (match_schc_packet (map (abs_rule abs) rules) (abs s)).
Proof.
  intros Hs Hr. unfold bmatch_schc_packet, match_schc_packet.
  destruct (bmatch_schc_loop_refines rules s Hs Hr) as (o & Eo & Ao & Io).
  rewrite Eo. cbn [bind]. rewrite <- Ao.
  destruct o as [r|]; cbn [option_map same_outcome]; [split; [exact Io|reflexivity]|reflexivity].
Qed.


(* ---- ContextManager.compress ------------------------------------------------------------------------- *)
Definition obest_rel (a : option buf) (b : option bits) : Prop :=
  match a, b with Some x, Some v => bval_rel x v | None, None => True | _, _ => False end.

Lemma Forall_In_canon rules r : Forall canon_rule rules -> In r rules -> canon_rule r.
Proof. intros H I. rewrite Forall_forall in H. exact (H r I). Qed.

Lemma bbest_loop_sim rules pd d g g' : canon_pdesc pd -> Forall canon_rule rules -> gen_rel rules g g' ->
  forall best best', obest_rel best best' ->
  sim obest_rel (bbest_loop pd d g best) (best_loop (abs_pdesc abs pd) d g' best').
Proof.
  intros Hpd Hr. induction 1 as [|e|r g g' Hi H IH]; intros best best' Hb; cbn [bbest_loop best_loop].
  - apply sim_of_same. exact Hb.
  - apply sim_of_same. reflexivity.
  - apply sim_bind with (R := bval_rel); [apply bcompress_sim; [exact Hpd|exact (Forall_In_canon _ _ Hr Hi)]|].
    intros c c' [Cc <-]. apply IH.
    destruct best as [b|], best' as [b'|]; cbn [obest_rel] in Hb; try contradiction.
    + destruct Hb as [Cb <-]. rewrite !zlen_abs by assumption.
      destruct (blen c <? blen b); cbn [obest_rel]; split; auto.
    + cbn [obest_rel]. split; auto.
Qed.

(* the core: only the parse of this packet matters (the bit-level packet p' is whatever parse is applied to) *)
Lemma bcm_compress_core bparse parse rules packet p' d st : Forall canon_rule rules ->
  same_outcome parsed_rel (bparse packet) (parse p') ->
  sim bval_rel (bcm_compress bparse rules packet d st) (cm_compress parse (map (abs_rule abs) rules) p' d st).
Proof.
  intros Hr Hp. unfold bcm_compress, cm_compress.
  apply sim_bind with (R := parsed_rel); [apply sim_of_same; exact Hp|].
  intros [bfs bpl] [fs pl] (Hf & Hpl & Cf & Cpl). cbn [fst snd] in *. subst fs pl.
  set (pd := mkbpdesc d bfs bpl).
  assert (canon_pdesc pd) as Cpd by (split; [exact Cf|exact Cpl]).
  change (mkpdesc d (map (abs_field abs) bfs) (abs bpl)) with (abs_pdesc abs pd).
  pose proof (bmatch_packet_descriptor_refines rules pd Cpd Hr) as G.
  destruct st.
  - destruct G as [|e|r g g' Hi G].
    + apply sim_of_same. reflexivity.
    + apply sim_of_same. reflexivity.
    + apply bcompress_sim; [exact Cpd|exact (Forall_In_canon _ _ Hr Hi)].
  - apply sim_bind with (R := obest_rel); [apply (bbest_loop_sim rules); try assumption; exact I|].
    intros [x|] [v|] Hb; cbn [obest_rel] in Hb; try contradiction; apply sim_of_same; [exact Hb|reflexivity].
Qed.

Theorem bcm_compress_refines bparse parse rules packet d st :
  parser_refines bparse parse -> Forall canon_rule rules -> canon packet -> bside packet = LEFT ->
  cm_compress parse (map (abs_rule abs) rules) (abs packet) d st <> Exc Unmodelled ->
  same_outcome bval_rel (bcm_compress bparse rules packet d st)
                        (cm_compress parse (map (abs_rule abs) rules) (abs packet) d st).
Proof.
  intros Hp Hr Hb Hs. apply bcm_compress_core; [exact Hr|].
  eapply same_outcome_impl; [exact pkt_parsed_rel|]. apply Hp; assumption.
Qed.

(* the premise is necessary: MO ignore / CDA least-significant-bits with a 24-bit pattern on the 16-bit
   source port -- the bit-level model declines (pattern longer than the value); at the byte level
   least_significant_bits returns a Buffer of length -8 with empty content and `schc_packet += field_residue`
   raises IndexError (new_content[0] in Buffer.__add__), which is what Python does on this input *)
Definition unmodelled_rule : brule :=
  mkbrule (mkbuf [2] 2 LEFT 6) Compression
    [mkbrfd (mkfid P_UDP 0) 16 0 Bi (BTVbuf (mkbuf [18; 52; 86] 24 LEFT 0)) MO_ignore LSB;
     mkbrfd (mkfid P_UDP 1) 16 0 Bi (BTVbuf (mkbuf [] 0 LEFT 0)) MO_ignore ValueSent;
     mkbrfd (mkfid P_UDP 2) 16 0 Bi (BTVbuf (mkbuf [] 0 LEFT 0)) MO_ignore ValueSent;
     mkbrfd (mkfid P_UDP 3) 16 0 Bi (BTVbuf (mkbuf [] 0 LEFT 0)) MO_ignore ValueSent].
Example bcm_compress_unmodelled :
  bcm_compress (bfactory S_UDP) [unmodelled_rule] ex_packet Up FIRST = Exc IndexError /\
  cm_compress (factory S_UDP) (map (abs_rule abs) [unmodelled_rule]) (abs ex_packet) Up FIRST = Exc Unmodelled.
Proof. vm_compute. split; reflexivity. Qed.

(* ---- ContextManager.decompress ------------------------------------------------------------------------ *)
Theorem bcm_decompress_ct_refines bct ct rules s d : table_refines bct ct -> Forall canon_rule rules -> canon s ->
  same_outcome bval_rel (bcm_decompress_ct bct rules s d) (cm_decompress ct (map (abs_rule abs) rules) (abs s) d).
Proof.
  intros HT Hr Hs. unfold bcm_decompress_ct, cm_decompress.
  apply same_outcome_bind with (R := rule_rel rules); [apply bmatch_schc_packet_refines; assumption|].
  intros br r [Hi <-]. apply bdecompress_ct_refines; [exact HT|exact Hs|exact (Forall_In_canon _ _ Hr Hi)].
Qed.

Theorem bcm_decompress_refines rules s d : Forall canon_rule rules -> canon s ->
  same_outcome bval_rel (bcm_decompress rules s d) (cm_decompress compute_functions (map (abs_rule abs) rules) (abs s) d).
Proof. intros Hr Hs. exact (bcm_decompress_ct_refines _ _ rules s d bcompute_functions_refines Hr Hs). Qed.

(* ---- /repo/microschc.py ------------------------------------------------------------------------------- *)
(* a byte-level context and the bit-level context it denotes (a parser has no abstraction function:
   the two are related) *)
Definition ctx_rel (bc : bctx) (c : context) : Prop :=
  parser_refines (bctx_parse bc) (ctx_parse c) /\ Forall canon_rule (bctx_rules bc) /\
  ctx_rules c = map (abs_rule abs) (bctx_rules bc).

Theorem bschc_compress_refines bctxs ctxs packet : Forall2 ctx_rel bctxs ctxs -> canon packet -> bside packet = LEFT ->
  schc_compress ctxs (abs packet) <> Exc Unmodelled ->
  same_outcome bval_rel (bschc_compress bctxs packet) (schc_compress ctxs (abs packet)).
Proof.
  intros H Hb Hs. induction H as [|bc c bctxs ctxs (Hp & Hr & Er) H IH]; cbn [bschc_compress schc_compress]; intros M.
  - split; [exact Hb|reflexivity].
  - rewrite Er in *.
    pose proof (bcm_compress_refines (bctx_parse bc) (ctx_parse c) (bctx_rules bc) packet Up FIRST Hp Hr Hb Hs) as R.
    destruct (cm_compress (ctx_parse c) (map (abs_rule abs) (bctx_rules bc)) (abs packet) Up FIRST) as [v|e|].
    + specialize (R ltac:(discriminate)).
      destruct (bcm_compress (bctx_parse bc) (bctx_rules bc) packet Up FIRST) as [x| |]; cbn [same_outcome] in R;
        try contradiction. exact R.
    + assert (e <> Unmodelled) as Me by (intros ->; apply M; reflexivity).
      specialize (R ltac:(intros [= ->]; apply Me; reflexivity)).
      destruct (bcm_compress (bctx_parse bc) (bctx_rules bc) packet Up FIRST) as [x|e'|]; cbn [same_outcome] in R;
        try contradiction. subst e'.
      destruct e; try reflexivity; apply IH; exact M.
    + specialize (R ltac:(discriminate)).
      destruct (bcm_compress (bctx_parse bc) (bctx_rules bc) packet Up FIRST) as [x| |]; cbn [same_outcome] in R;
        try contradiction. exact I.
Qed.

Definition ctx_rules_rel (bc : bctx) (c : context) : Prop :=
  Forall canon_rule (bctx_rules bc) /\ ctx_rules c = map (abs_rule abs) (bctx_rules bc).

Theorem bschc_decompress_ct_refines bct ct bctxs ctxs packet : table_refines bct ct ->
  Forall2 ctx_rules_rel bctxs ctxs -> canon packet ->
  same_outcome bval_rel (bschc_decompress_ct bct bctxs packet) (schc_decompress ct ctxs (abs packet)).
Proof.
  intros HT H Hb. induction H as [|bc c bctxs ctxs (Hr & Er) H IH]; cbn [bschc_decompress_ct schc_decompress].
  - split; [exact Hb|reflexivity].
  - rewrite Er.
    pose proof (bcm_decompress_ct_refines bct ct (bctx_rules bc) packet (Some Up) HT Hr Hb) as R.
    destruct (cm_decompress ct (map (abs_rule abs) (bctx_rules bc)) (abs packet) (Some Up)) as [v|e|],
             (bcm_decompress_ct bct (bctx_rules bc) packet (Some Up)) as [x|e'|]; cbn [same_outcome] in R;
      try contradiction; try exact R. subst e'. destruct e; try reflexivity. exact IH.
Qed.

Theorem bschc_decompress_refines bctxs ctxs packet : Forall2 ctx_rules_rel bctxs ctxs -> canon packet ->
  same_outcome bval_rel (bschc_decompress bctxs packet) (schc_decompress compute_functions ctxs (abs packet)).
Proof. intros H Hb. exact (bschc_decompress_ct_refines _ _ bctxs ctxs packet bcompute_functions_refines H Hb). Qed.


(* ==== corollaries: the bit-level manager theorems (SchcRules.v, SchcRoundtrip.v; props C01, C11, C15) at the
        byte level ==================================================================================== *)
Lemma same_outcome_ok_inv {A B} (R : A -> B -> Prop) x y a : same_outcome R x y -> x = Ok a -> exists v, y = Ok v /\ R a v.
Proof. intros H ->. destruct y as [v| |]; cbn [same_outcome] in H; try contradiction. exists v. auto. Qed.

(* ---- C11: rule-id dispatch -------------------------------------------------------------------------- *)
(* prefix-free ids, read on the byte-level rules: two rules of the list whose id bits are comparable are
   the same rule (two different byte-level rules may denote the same bit-level rule -- ids with the same
   bits and different padding sides --; the loop then returns the first of them) *)
Definition bprefix_free (rules : list brule) : Prop :=
  forall r1 r2, In r1 rules -> In r2 rules -> is_prefix (abs (brule_id r1)) (abs (brule_id r2)) = true -> r1 = r2.

Lemma bprefix_free_abs rules : bprefix_free rules -> prefix_free (map (abs_rule abs) rules).
Proof.
  intros PF r1' r2' I1 I2 P. apply in_map_iff in I1 as (r1 & <- & I1). apply in_map_iff in I2 as (r2 & <- & I2).
  cbn [abs_rule rule_id] in P. now rewrite (PF r1 r2 I1 I2 P).
Qed.

(* with the bit-level hypothesis only: a rule with the same abstraction is found *)
Theorem bytes_dispatch_abs rules r s rest : prefix_free (map (abs_rule abs) rules) -> Forall canon_rule rules ->
  In r rules -> canon s -> abs s = abs (brule_id r) ++ rest ->
  exists br, bmatch_schc_packet rules s = Ok br /\ In br rules /\ abs_rule abs br = abs_rule abs r.
Proof.
  intros PF Hr Hi Hs Es.
  pose proof (match_schc_packet_dispatch (map (abs_rule abs) rules) (abs_rule abs r) rest PF (in_map _ _ _ Hi)) as D.
  cbn [abs_rule rule_id] in D. rewrite <- Es in D.
  destruct (same_outcome_ok _ _ _ _ (bmatch_schc_packet_refines rules s Hs Hr) D) as (br & E & I' & A).
  exists br. auto.
Qed.

(* prefix-free ids: the rule whose id leads the SCHC packet is found, whatever follows *)
Theorem bytes_dispatch rules r s rest : bprefix_free rules -> Forall canon_rule rules ->
  In r rules -> canon s -> abs s = abs (brule_id r) ++ rest ->
  bmatch_schc_packet rules s = Ok r.
Proof.
  intros PF Hr Hi Hs Es.
  destruct (bytes_dispatch_abs rules r s rest (bprefix_free_abs rules PF) Hr Hi Hs Es) as (br & E & I' & A).
  rewrite E. f_equal. apply (PF br r I' Hi).
  apply (f_equal rule_id) in A. cbn [abs_rule rule_id] in A. rewrite A. apply is_prefix_refl.
Qed.

(* ... and the manager decompresses it with that rule (C11 c11_manager) *)
Corollary bytes_dispatch_manager rules r s rest d : bprefix_free rules -> Forall canon_rule rules ->
  In r rules -> canon s -> abs s = abs (brule_id r) ++ rest ->
  bcm_decompress rules s d = bdecompress_c s r d.
Proof. intros PF Hr Hi Hs Es. unfold bcm_decompress. now rewrite (bytes_dispatch rules r s rest PF Hr Hi Hs Es). Qed.

(* every SCHC packet the byte-level compressor produces with a rule of the set is dispatched to that rule *)
Corollary bytes_dispatch_compressed rules r pd d x : bprefix_free rules -> Forall canon_rule rules -> In r rules ->
  canon_pdesc pd -> compress (abs_pdesc abs pd) (abs_rule abs r) d <> Exc Unmodelled ->
  bcompress pd r d = Ok x -> bmatch_schc_packet rules x = Ok r.
Proof.
  intros PF Hr Hi Hpd M E.
  destruct (same_outcome_ok_inv _ _ _ _ (bcompress_sim pd r d Hpd (Forall_In_canon _ _ Hr Hi) M) E) as (v & Ev & Cx & Ax).
  pose proof (compress_prefix _ _ _ _ Ev) as P. apply is_prefix_split in P as [rest Er]. cbn [abs_rule rule_id] in Er.
  apply (bytes_dispatch rules r x rest PF Hr Hi Cx). now rewrite Ax.
Qed.

(* no id leads the packet (C11 c11_none / C15 c15_noid) *)
Theorem bytes_noid rules s d : Forall canon_rule rules -> canon s ->
  (forall r, In r rules -> is_prefix (abs (brule_id r)) (abs s) = false) ->
  bmatch_schc_packet rules s = Exc RuleIDMatchError /\ bcm_decompress rules s d = Exc RuleIDMatchError.
Proof.
  intros Hr Hs N.
  assert (match_schc_packet (map (abs_rule abs) rules) (abs s) = Exc RuleIDMatchError) as D.
  { apply match_schc_packet_none.
    intros r' I. apply in_map_iff in I as (r & <- & I). exact (N r I). }
  pose proof (same_outcome_exc _ _ _ _ (bmatch_schc_packet_refines rules s Hs Hr) D) as E.
  split; [exact E|]. unfold bcm_decompress. now rewrite E.
Qed.

(* ---- C15: no rule applies ----------------------------------------------------------------------------- *)
Theorem bytes_nomatch bparse rules packet d st bfs bpl :
  Forall canon_rule rules -> bparse packet = Ok (bfs, bpl) -> Forall canon_field bfs -> canon bpl ->
  forallb rule_typed (map (abs_rule abs) rules) = true ->
  filter (spec_rule_applies (abs_pdesc abs (mkbpdesc d bfs bpl))) (map (abs_rule abs) rules) = [] ->
  bcm_compress bparse rules packet d st = Exc RuleDescriptorMatchError.
Proof.
  intros Hr E Cf Cp T F.
  set (parse := fun _ : bits => @Ok (list field * bits) (map (abs_field abs) bfs, abs bpl)).
  assert (cm_compress parse (map (abs_rule abs) rules) [] d st = Exc RuleDescriptorMatchError) as N.
  { destruct st; [apply (cm_compress_nomatch_first parse _ [] d (map (abs_field abs) bfs) (abs bpl))
                 |apply (cm_compress_nomatch_best parse _ [] d (map (abs_field abs) bfs) (abs bpl))];
      try reflexivity; assumption. }
  assert (same_outcome parsed_rel (bparse packet) (parse [])) as Hp.
  { rewrite E. unfold parse. cbn [same_outcome]. split; [reflexivity|]. split; [reflexivity|]. split; assumption. }
  pose proof (bcm_compress_core bparse parse rules packet [] d st Hr Hp) as S.
  rewrite N in S. exact (same_outcome_exc _ _ _ _ (S ltac:(discriminate)) eq_refl).
Qed.

Corollary bytes_nomatch_factory s rules b d st bfs bpl :
  canon b -> bside b = LEFT -> Forall canon_rule rules -> bfactory s b = Ok (bfs, bpl) ->
  forallb rule_typed (map (abs_rule abs) rules) = true ->
  filter (spec_rule_applies (abs_pdesc abs (mkbpdesc d bfs bpl))) (map (abs_rule abs) rules) = [] ->
  bcm_compress (bfactory s) rules b d st = Exc RuleDescriptorMatchError.
Proof.
  intros Hb Hs Hr E T F. destruct (bfactory_ok_inv s b bfs bpl Hb Hs E) as (_ & Cf & Cp & _).
  exact (bytes_nomatch (bfactory s) rules b d st bfs bpl Hr E Cf Cp T F).
Qed.

(* an unparsable packet: the parser's exception (C15 c15_unparsable) *)
Theorem bytes_unparsable bparse rules packet d st e : bparse packet = Exc e -> bcm_compress bparse rules packet d st = Exc e.
Proof. intros H. unfold bcm_compress. rewrite H. reflexivity. Qed.

(* ---- C01 through the manager -------------------------------------------------------------------------- *)
(* under the premises of the manager round trip the bit-level manager never answers the marker *)
Lemma cm_compress_modelled parse rules packet d st fs pl :
  parse packet = Ok (fs, pl) -> forallb rule_typed rules = true ->
  (forall r, In r rules -> spec_rule_applies (mkpdesc d fs pl) r = true -> exists s, compress (mkpdesc d fs pl) r (Some d) = Ok s) ->
  cm_compress parse rules packet d st <> Exc Unmodelled.
Proof.
  intros HP T All.
  assert (AllC : forall r, In r (filter (spec_rule_applies (mkpdesc d fs pl)) rules) ->
                           exists s0, compress (mkpdesc d fs pl) r (Some d) = Ok s0).
  { intros r I. apply filter_In in I as [I1 I2]. exact (All r I1 I2). }
  destruct st.
  - rewrite (cm_compress_first parse rules packet d fs pl HP T). cbv zeta.
    destruct (filter (spec_rule_applies (mkpdesc d fs pl)) rules) as [|r l]; [discriminate|].
    destruct (AllC r (or_introl eq_refl)) as [s0 ->]. discriminate.
  - pose proof (cm_compress_best parse rules packet d fs pl HP T) as B. cbv zeta in B. specialize (B AllC).
    destruct (filter (spec_rule_applies (mkpdesc d fs pl)) rules) as [|r l].
    + rewrite B. discriminate.
    + destruct B as (r1 & s1 & _ & _ & -> & _). discriminate.
Qed.

(* the general form (SchcRoundtrip.c01_manager_gen): every applying rule round-trips at the bit level *)
Theorem bytes_manager_roundtrip_gen bparse rules packet d st bfs bpl :
  canon packet -> Forall canon_rule rules ->
  bparse packet = Ok (bfs, bpl) -> Forall canon_field bfs -> canon bpl ->
  let pd := abs_pdesc abs (mkbpdesc d bfs bpl) in
  let rules' := map (abs_rule abs) rules in
  prefix_free rules' -> forallb rule_typed rules' = true ->
  (forall r, In r rules' -> spec_rule_applies pd r = true ->
     exists s, compress pd r (Some d) = Ok s /\ decompress compute_functions s r (Some d) = Ok (abs packet)) ->
  forall x, bcm_compress bparse rules packet d st = Ok x ->
  canon x /\ exists y, bcm_decompress rules x (Some d) = Ok y /\ canon y /\ abs y = abs packet /\ b_eq y packet = Ok true.
Proof.
  intros Hb Hr E Cf Cp pd rules' PF T All x Ex.
  set (fs := map (abs_field abs) bfs). set (pl := abs bpl).
  set (parse := fun _ : bits => @Ok (list field * bits) (fs, pl)).
  assert (parse (abs packet) = Ok (fs, pl)) as HP by reflexivity.
  assert (same_outcome parsed_rel (bparse packet) (parse (abs packet))) as Hp.
  { rewrite E. unfold parse. cbn [same_outcome]. split; [reflexivity|]. split; [reflexivity|]. split; assumption. }
  assert (cm_compress parse rules' (abs packet) d st <> Exc Unmodelled) as M.
  { apply (cm_compress_modelled parse rules' (abs packet) d st fs pl HP T).
    intros r I A. destruct (All r I A) as (s0 & H0 & _). now exists s0. }
  pose proof (bcm_compress_core bparse parse rules packet (abs packet) d st Hr Hp M) as S.
  destruct (same_outcome_ok_inv _ _ _ _ S Ex) as (v & Ev & Cx & Ax). subst v.
  pose proof (c01_manager_gen compute_functions parse rules' (abs packet) d st fs pl HP PF T All (abs x) Ev) as D.
  destruct (same_outcome_ok _ _ _ _ (bcm_decompress_refines rules x (Some d) Hr Cx) D) as (y & Ey & Cy & Ay).
  split; [exact Cx|]. exists y. split; [exact Ey|]. split; [exact Cy|]. split; [exact Ay|].
  apply b_eq_same_bits; assumption.
Qed.

(* byte-level version of props/C01.v c01_manager: every applying rule is a no-compression rule without
   descriptors or a lossless rule whose compute stage regenerates the computed fields; either strategy *)
Theorem bytes_manager_roundtrip bparse rules packet d st bfs bpl :
  canon packet -> Forall canon_rule rules ->
  bparse packet = Ok (bfs, bpl) -> Forall canon_field bfs -> canon bpl ->
  let fs := map (abs_field abs) bfs in
  let pl := abs bpl in
  let rules' := map (abs_rule abs) rules in
  concat (map f_val fs) ++ pl = abs packet ->
  prefix_free rules' -> forallb rule_typed rules' = true ->
  (forall r, In r rules' -> spec_rule_applies (mkpdesc d fs pl) r = true ->
     (rule_nature r = NoCompression /\ rule_fds r = []) \/
     (rule_ok_dec compute_functions d (mkpdesc d fs pl) r /\
      let rfs := select_fds (Some d) (rule_fds r) in
      ce_sorted (centries_of compute_functions 0 rfs) = true /\ (length (centries_of compute_functions 0 rfs) < 64)%nat /\
      run_computes (centries_of compute_functions 0 rfs) (combine (map r_id rfs) (map2 pre_value rfs fs) ++ [(payload_fid, pl)])
        = Ok (combine (map r_id rfs) (map f_val fs) ++ [(payload_fid, pl)]))) ->
  forall x, bcm_compress bparse rules packet d st = Ok x ->
  canon x /\ exists y, bcm_decompress rules x (Some d) = Ok y /\ canon y /\ abs y = abs packet /\ b_eq y packet = Ok true.
Proof.
  intros Hb Hr E Cf Cp fs pl rules' HT PF T All.
  apply (bytes_manager_roundtrip_gen bparse rules packet d st bfs bpl Hb Hr E Cf Cp PF T).
  intros r I A. rewrite <- HT. destruct (All r I A) as [[HN HF]|[Hok [HSo [Hn HRun]]]].
  - apply (c01_roundtrip_nocompression compute_functions d (mkpdesc d fs pl) r HN HF).
  - apply (c01_roundtrip compute_functions d (mkpdesc d fs pl) r eq_refl Hok A HSo Hn HRun).
Qed.

(* with a parser of the registry: canonicity of the parse result and the tiling premise are theorems *)
Corollary bytes_manager_roundtrip_factory s rules b d st bfs bpl :
  canon b -> bside b = LEFT -> Forall canon_rule rules -> bfactory s b = Ok (bfs, bpl) ->
  let fs := map (abs_field abs) bfs in
  let pl := abs bpl in
  let rules' := map (abs_rule abs) rules in
  prefix_free rules' -> forallb rule_typed rules' = true ->
  (forall r, In r rules' -> spec_rule_applies (mkpdesc d fs pl) r = true ->
     (rule_nature r = NoCompression /\ rule_fds r = []) \/
     (rule_ok_dec compute_functions d (mkpdesc d fs pl) r /\
      let rfs := select_fds (Some d) (rule_fds r) in
      ce_sorted (centries_of compute_functions 0 rfs) = true /\ (length (centries_of compute_functions 0 rfs) < 64)%nat /\
      run_computes (centries_of compute_functions 0 rfs) (combine (map r_id rfs) (map2 pre_value rfs fs) ++ [(payload_fid, pl)])
        = Ok (combine (map r_id rfs) (map f_val fs) ++ [(payload_fid, pl)]))) ->
  forall x, bcm_compress (bfactory s) rules b d st = Ok x ->
  canon x /\ exists y, bcm_decompress rules x (Some d) = Ok y /\ canon y /\ abs y = abs b /\ b_eq y b = Ok true.
Proof.
  intros Hb Hs Hr E fs pl rules' PF T All.
  destruct (bfactory_ok_inv s b bfs bpl Hb Hs E) as (_ & Cf & Cp & _).
  apply (bytes_manager_roundtrip (bfactory s) rules b d st bfs bpl Hb Hr E Cf Cp); try assumption.
  subst fs pl. rewrite map_map. cbn [abs_field f_val]. exact (bfactory_tiles s b bfs bpl Hb Hs E).
Qed.


(* ==== non-vacuity ======================================================================================= *)
(* the UDP packet and the rule of EndToEnd.v through the byte-level manager: 63 bits instead of 88, and back *)
Example bytes_manager_ex_values :
  (do x <- bcm_compress (bfactory S_UDP) [ex_rule] ex_packet Up FIRST ;;
   do y <- bcm_decompress [ex_rule] x (Some Up) ;;
   do e <- b_eq y ex_packet ;; Ok (content x, blen x, content y, blen y, e)) =
  Ok ([141; 62; 32; 0; 0; 2; 4; 6], 63, content ex_packet, blen ex_packet, true).
Proof. vm_compute. reflexivity. Qed.

Ltac rule_canon :=
  cbv delta [mex_rule1 mex_rule2 mex_nocomp mex_other]; split; cbn [brule_id brule_fds];
  [canon_concrete|repeat constructor; unfold canon_rfd; cbn [br_tv canon_tv fst snd]; canon_concrete].

(* the round-trip theorem applies to the rule set of ManagerBytes.v (a rule with four pairings, a rule with a
   computed UDP length, a no-compression rule) and the packet mex_packet, under both strategies *)
Example mex_rules_canon : Forall canon_rule [mex_rule1; mex_rule2; mex_nocomp].
Proof. repeat (apply Forall_cons; [rule_canon|]). apply Forall_nil. Qed.

Example mex_packet_canon : canon mex_packet.
Proof. unfold mex_packet. canon_concrete. Qed.

Example mex_prefix_free : bprefix_free [mex_rule1; mex_rule2; mex_nocomp].
Proof.
  intros r1 r2 I1 I2 P.
  destruct I1 as [<-|[<-|[<-|[]]]]; destruct I2 as [<-|[<-|[<-|[]]]]; try reflexivity; vm_compute in P; discriminate P.
Qed.

Example bytes_manager_roundtrip_ex st : exists x y,
  bcm_compress (bfactory S_UDP) [mex_rule1; mex_rule2; mex_nocomp] mex_packet Up st = Ok x /\ canon x /\
  bcm_decompress [mex_rule1; mex_rule2; mex_nocomp] x (Some Up) = Ok y /\ canon y /\ abs y = abs mex_packet /\
  b_eq y mex_packet = Ok true.
Proof.
  remember (bfactory S_UDP mex_packet) as p0 eqn:E. pose proof E as E'. vm_compute in E'. rewrite E' in E. clear E' p0.
  symmetry in E.
  match type of E with _ = Ok (?f, ?p) =>
    pose proof (bytes_manager_roundtrip_factory S_UDP [mex_rule1; mex_rule2; mex_nocomp] mex_packet Up st f p
                  mex_packet_canon eq_refl mex_rules_canon E) as H end.
  cbv zeta in H.
  assert (exists x, bcm_compress (bfactory S_UDP) [mex_rule1; mex_rule2; mex_nocomp] mex_packet Up st = Ok x) as [x Ex]
    by (destruct st; vm_compute; eexists; reflexivity).
  destruct (H (bprefix_free_abs _ mex_prefix_free)) with (x := x) as (Cx & y & Ey & Cy & Ay & Qy).
  - vm_compute. reflexivity.
  - intros r [<-|[<-|[<-|[]]]] _.
    + right. split; [vm_compute; repeat split|]. vm_compute. repeat split. lia.
    + right. split; [vm_compute; repeat split|]. vm_compute. repeat split. lia.
    + left. split; reflexivity.
  - exact Ex.
  - exists x, y. split; [exact Ex|]. split; [exact Cx|]. split; [exact Ey|]. split; [exact Cy|]. split; [exact Ay|exact Qy].
Qed.

(* the dispatch and no-match theorems apply *)
Example bytes_dispatch_ex : bmatch_schc_packet [mex_rule1; mex_rule2; mex_nocomp] (mkbuf [192; 0; 0; 32; 64; 96] 43 RIGHT 5) = Ok mex_rule2.
Proof.
  apply (bytes_dispatch _ mex_rule2 _ (skipn 3 (abs (mkbuf [192; 0; 0; 32; 64; 96] 43 RIGHT 5))) mex_prefix_free mex_rules_canon).
  - right. left. reflexivity.
  - canon_concrete.
  - vm_compute. reflexivity.
Qed.

Example bytes_nomatch_ex st : bcm_compress (bfactory S_UDP) [mex_other] mex_packet Up st = Exc RuleDescriptorMatchError.
Proof.
  remember (bfactory S_UDP mex_packet) as p0 eqn:E. pose proof E as E'. vm_compute in E'. rewrite E' in E. clear E' p0.
  symmetry in E.
  match type of E with _ = Ok (?f, ?p) =>
    apply (bytes_nomatch_factory S_UDP [mex_other] mex_packet Up st f p mex_packet_canon eq_refl) end.
  - apply Forall_cons; [rule_canon|apply Forall_nil].
  - exact E.
  - vm_compute. reflexivity.
  - vm_compute. reflexivity.
Qed.
