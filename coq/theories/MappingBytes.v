(* C13, last sentence: match-mapping lookups succeed for a field value whatever the padding side of the stored key or of the
   looked-up value.  The byte-level matcher (SchcBytes.bfield_match: `field.value in target_values.forward`, a dict lookup through
   hash and ==) on a canonical field value and canonical keys OF ANY SIDES answers exactly: some key has the bits of the value. *)
From Coq Require Import ZArith List Bool Lia.
From MS Require Import PyBase Buffer Bits ByteFacts BufferAbs BufferSpec Schc SchcSpec SchcRules SchcBytes SchcRefine.
Import ListNotations.
Open Scope Z_scope.

Lemma existsb_map_keys (fw : list (buf * buf)) (v : bits) :
  existsb (fun kv : bits * bits => bits_eqb (fst kv) v) (map (fun kv => (abs (fst kv), abs (snd kv))) fw) =
  existsb (fun kv => bits_eqb (abs (fst kv)) v) fw.
Proof. induction fw as [|kv fw IH]; cbn [map existsb fst]; [reflexivity|]. rewrite IH. reflexivity. Qed.

Theorem match_mapping_bytes pf rf fw : canon (bf_val pf) -> canon_rfd rf ->
  br_mo rf = MO_mapping -> br_tv rf = BTVmap fw -> bf_id pf = br_id rf ->
  bfield_match pf rf = Ok (existsb (fun kv => bits_eqb (abs (fst kv)) (abs (bf_val pf))) fw).
Proof.
  intros Cv Cr Hm Ht Hi. rewrite (bfield_match_refines pf rf Cv Cr).
  assert (T : rfd_typed (abs_rfd abs rf) = true) by (unfold rfd_typed, abs_rfd; cbn [r_mo r_tv]; rewrite Hm, Ht; reflexivity).
  rewrite (field_match_spec _ _ T). unfold spec_field_applies, abs_rfd, abs_field. cbn [r_mo r_tv r_id f_id f_val].
  rewrite Hm, Ht. cbn [abs_tv]. rewrite Hi.
  assert (F : fid_eqb (br_id rf) (br_id rf) = true) by (apply fid_eqb_true; reflexivity).
  rewrite F. cbn [andb]. rewrite existsb_map_keys. reflexivity.
Qed.

(* in particular: a value with the bits of a stored key is found, on either side of either *)
Corollary match_mapping_found pf rf fw k i : canon (bf_val pf) -> canon_rfd rf ->
  br_mo rf = MO_mapping -> br_tv rf = BTVmap fw -> bf_id pf = br_id rf ->
  In (k, i) fw -> abs k = abs (bf_val pf) -> bfield_match pf rf = Ok true.
Proof.
  intros Cv Cr Hm Ht Hi I E. rewrite (match_mapping_bytes pf rf fw Cv Cr Hm Ht Hi). f_equal.
  apply existsb_exists. exists (k, i). split; [exact I|]. cbn [fst]. rewrite E. apply bits_eqb_eq. reflexivity.
Qed.

(* non-vacuity: key 0b101 stored right-padded, value 0b101 looked up left-padded (and a value that is no key) *)
Example match_mapping_ex :
  let rf := mkbrfd (mkfid P_UDP 1) 3 0 Bi (BTVmap [(mkbuf [64] 3 RIGHT 5, mkbuf [0] 1 LEFT 7); (mkbuf [160] 3 RIGHT 5, mkbuf [1] 1 LEFT 7)])
                   MO_mapping MappingSent in
  bfield_match (mkbfield (mkfid P_UDP 1) (mkbuf [5] 3 LEFT 5) 0) rf = Ok true /\
  bfield_match (mkbfield (mkfid P_UDP 1) (mkbuf [7] 3 LEFT 5) 0) rf = Ok false.
Proof. vm_compute. split; reflexivity. Qed.
