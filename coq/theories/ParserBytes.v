(* ParserBytes.v -- the header parsers and the packet parser written once more at the BYTE level,
   i.e. with the Buffer operations of Buffer.v (b_getitem, b_value, b_eq_bytes, b_hash_key, b_new,
   b_copy) exactly where the Python code (protocol/ipv6.py, ipv4.py, udp.py, coap.py in syntactic
   option mode, sctp.py, parser/parser.py, protocol/registry.py) uses Buffer objects.
   ParserRefine.v proves that, on canonical left-padded packet buffers, these functions return
   (through abs) exactly what the bit-level parsers of Parsers.v return.  Definitions only. *)
From Coq Require Import ZArith List Bool.
From MS Require Import PyBase Buffer Bits Schc Parsers.
From MS Require Import SchcBytes.
Import ListNotations.
Open Scope Z_scope.

(* buffer[a:b], buffer[a:] *)
Definition bsl (b : buf) (s e : Z) : res buf := b_getitem b (Some s) (Some e).
Definition bsl_from (b : buf) (s : Z) : res buf := b_getitem b (Some s) None.
(* FieldDescriptor(id, position, value) *)
Definition BFD (p : proto) (i : Z) (pos : Z) (v : buf) : bfield := mkbfield (mkfid p i) v pos.

(* x in {k1, k2}: a set of two bytes objects probed with a Buffer (CPython: same hash, then ==;
   bytes.__eq__(key, x) is NotImplemented, the reflected Buffer.__eq__(x, key) decides) *)
Definition in_set2 (x : buf) (k1 k2 : list Z) : res bool :=
  do h <- b_hash_key x ;;
  Ok ((bytes_eqb h k1 && b_eq_bytes x k1) || (bytes_eqb h k2 && b_eq_bytes x k2)).

(* a header descriptor: fields and header length in bits *)
Definition bhdesc := (list bfield * Z)%type.
Definition bhparser := buf -> res bhdesc.

(* ---- CoAP (coap.py), syntactic options ------------------------------------------------------- *)
(* dxv / lxv: the local names option_delta_extended / option_length_extended of _parse_options,
   unbound (None) until first assigned and then kept from one iteration to the next *)
Fixpoint bcoap_options_loop (fuel : nat) (b : buf) (cursor : Z) (ps : opos) (dxv lxv : option buf)
    (acc : list bfield) : res (list bfield * Z) :=
  match fuel with
  | O => Diverge
  | S f =>
    (* while cursor < buffer.length and buffer[cursor:cursor+8] != b'\xff' *)
    do continue <- (if cursor <? blen b then
                      do m <- bsl b cursor (cursor + 8) ;; Ok (negb (b_eq_bytes m [255]))
                    else Ok false) ;;
    if continue then
      do ob <- bsl_from b cursor ;;
      do delta <- bsl ob 0 4 ;;
      do olen <- bsl ob 4 8 ;;
      do olen_int <- b_value olen ;;
      let off := 8 in
      do dx <- (if b_eq_bytes delta [13] then
                  do x <- bsl ob off (off + 8) ;; Ok (Some x, off + 8, p_dext ps + 1)
                else if b_eq_bytes delta [14] then
                  do x <- bsl ob off (off + 16) ;; Ok (Some x, off + 16, p_dext ps + 1)
                else Ok (dxv, off, p_dext ps)) ;;
      let '(dxv', off, pdx) := dx in
      do lx <- (if b_eq_bytes olen [13] then
                  do x <- bsl ob off (off + 8) ;; do v <- b_value x ;;
                  Ok (Some x, v, off + 8, p_lext ps + 1)
                else if b_eq_bytes olen [14] then
                  do x <- bsl ob off (off + 16) ;; do v <- b_value x ;;
                  Ok (Some x, v + 255, off + 16, p_lext ps + 1)
                else Ok (lxv, 0, off, p_lext ps)) ;;
      let '(lxv', ext_int, off, plx) := lx in
      let vlen := (olen_int + ext_int) * 8 in
      do value <- bsl ob off (off + vlen) ;;
      let pv := if 0 <? vlen then p_value ps + 1 else p_value ps in
      let cursor' := cursor + off + vlen in
      if blen b <? cursor' then Exc ParserError
      else
        let ps' := mkopos (p_delta ps + 1) (p_length ps + 1) pdx plx pv in
        do dm <- in_set2 delta [13] [14] ;;
        do dxf <- (if dm then
                     match dxv' with Some x => Ok [BFD P_CoAP 9 pdx x] | None => Exc UnboundLocalError end
                   else Ok []) ;;
        do lm <- in_set2 olen [13] [14] ;;
        do lxf <- (if lm then
                     match lxv' with Some x => Ok [BFD P_CoAP 10 plx x] | None => Exc UnboundLocalError end
                   else Ok []) ;;
        let fs := [BFD P_CoAP 7 (p_delta ps') delta; BFD P_CoAP 8 (p_length ps') olen]
                  ++ dxf ++ lxf
                  ++ (if 0 <? vlen then [BFD P_CoAP 11 pv value] else []) in
        bcoap_options_loop f b cursor' ps' dxv' lxv' (acc ++ fs)
    else
      if cursor <? blen b then
        (* Buffer(content=b'\xff', length=8) *)
        do marker <- b_new [255] 8 LEFT ;;
        Ok (acc ++ [BFD P_CoAP 6 0 marker], cursor + 8)
      else Ok (acc, cursor)
  end.

Definition bcoap_parse_options (b : buf) : res (list bfield * Z) :=
  bcoap_options_loop (S (Z.to_nat (blen b))) b 0 (mkopos 0 0 0 0 0) None None [].

Definition bparse_coap : bhparser := fun b =>
  if blen b <? 32 then Exc ParserError
  else
    do version <- bsl b 0 2 ;;
    do type <- bsl b 2 4 ;;
    do tkl <- bsl b 4 8 ;;
    do tkl_int <- py_index (content tkl) 0 ;;           (* token_length.content[0] *)
    do code <- bsl b 8 16 ;;
    do mid <- bsl b 16 32 ;;
    do token <- catch_all (bsl b 32 (32 + tkl_int * 8)) ParserError ;;
    let hf := [BFD P_CoAP 0 0 version; BFD P_CoAP 1 0 type; BFD P_CoAP 2 0 tkl;
               BFD P_CoAP 3 0 code; BFD P_CoAP 4 0 mid]
              ++ (if 0 <? tkl_int then [BFD P_CoAP 5 0 token] else []) in
    do ob <- bsl_from b (32 + tkl_int * 8) ;;
    do o <- (if 0 <? blen ob then catch_all (bcoap_parse_options ob) ParserError else Ok ([], 0)) ;;
    Ok (hf ++ fst o, 32 + blen token + snd o).

(* ---- SCTP (sctp.py) -------------------------------------------------------------------------- *)
Definition bparse_parameter (b : buf) : res (list bfield * Z) :=
  if blen b <? 32 then Exc ParserError
  else
    do ptype <- bsl b 0 16 ;;
    do plen <- bsl b 16 32 ;;
    do plen_int <- b_value plen ;;
    let plv := plen_int * 8 in
    if (plv <? 32) || (blen b <? plv) then Exc ParserError
    else
      let pvl := plv - 32 in
      do vf <- (if 0 <? pvl then do v <- bsl b 32 plv ;; Ok [BFD P_SCTP 35 0 v] else Ok []) ;;
      let fs := [BFD P_SCTP 33 0 ptype; BFD P_SCTP 34 0 plen] ++ vf in
      let ppl := (32 - pvl mod 32) mod 32 in
      do pf <- (if 0 <? ppl then do p <- bsl b plv (plv + ppl) ;; Ok [BFD P_SCTP 36 0 p] else Ok []) ;;
      let fs := fs ++ pf in
      Ok (fs, plv + ppl).

(* while parameters.length > 0: ...; parameters = parameters[bits_consumed:] *)
Fixpoint bparameters_loop (fuel : nat) (b : buf) (acc : list bfield) : res (list bfield) :=
  match fuel with
  | O => Diverge
  | S f =>
    if 0 <? blen b then
      do p <- bparse_parameter b ;;
      do rest <- bsl_from b (snd p) ;;
      bparameters_loop f rest (acc ++ fst p)
    else Ok acc
  end.
Definition bparse_parameters (b : buf) (acc : list bfield) : res (list bfield) :=
  bparameters_loop (S (Z.to_nat (blen b))) b acc.

Fixpoint bsack_gaps (n : nat) (rem : buf) (acc : list bfield) : res (list bfield * buf) :=
  match n with
  | O => Ok (acc, rem)
  | S n' =>
    do gs <- bsl rem 0 16 ;;
    do ge <- bsl rem 16 32 ;;
    do rem' <- bsl_from rem 32 ;;
    bsack_gaps n' rem' (acc ++ [BFD P_SCTP 28 0 gs; BFD P_SCTP 29 0 ge])
  end.
Fixpoint bsack_dups (n : nat) (rem : buf) (acc : list bfield) : res (list bfield * buf) :=
  match n with
  | O => Ok (acc, rem)
  | S n' =>
    do d <- bsl rem 0 32 ;;
    do rem' <- bsl_from rem 32 ;;
    bsack_dups n' rem' (acc ++ [BFD P_SCTP 30 0 d])
  end.

(* _parse_chunk_data / _init / _init_ack / _selective_ack / ... dispatched on the chunk type *)
Definition bparse_chunk_value (ctype : Z) (v : buf) : res (list bfield) :=
  if ctype =? 0 then
    do tsn <- bsl v 0 32 ;;
    do sid <- bsl v 32 48 ;;
    do ssn <- bsl v 48 64 ;;
    do ppi <- bsl v 64 96 ;;
    do ppi_value <- b_value ppi ;;       (* looked up in SCTP_SUPPORTED_PAYLOAD_PROTOCOLS = [] *)
    do user_data <- bsl_from v 96 ;;
    Ok [BFD P_SCTP 9 0 tsn; BFD P_SCTP 10 0 sid; BFD P_SCTP 11 0 ssn; BFD P_SCTP 12 0 ppi;
        BFD P_SCTP 13 0 user_data]
  else if ctype =? 1 then
    do f1 <- bsl v 0 32 ;; do f2 <- bsl v 32 64 ;; do f3 <- bsl v 64 80 ;; do f4 <- bsl v 80 96 ;;
    do f5 <- bsl v 96 128 ;;
    do params <- bsl_from v 128 ;;
    bparse_parameters params
      [BFD P_SCTP 14 0 f1; BFD P_SCTP 15 0 f2; BFD P_SCTP 16 0 f3; BFD P_SCTP 17 0 f4; BFD P_SCTP 18 0 f5]
  else if ctype =? 2 then
    do f1 <- bsl v 0 32 ;; do f2 <- bsl v 32 64 ;; do f3 <- bsl v 64 80 ;; do f4 <- bsl v 80 96 ;;
    do f5 <- bsl v 96 128 ;;
    do params <- bsl_from v 128 ;;
    bparse_parameters params
      [BFD P_SCTP 19 0 f1; BFD P_SCTP 20 0 f2; BFD P_SCTP 21 0 f3; BFD P_SCTP 22 0 f4; BFD P_SCTP 23 0 f5]
  else if ctype =? 3 then
    do cum <- bsl v 0 32 ;;
    do rwnd <- bsl v 32 64 ;;
    do ngap <- bsl v 64 80 ;;
    do ndup <- bsl v 80 96 ;;
    let hd := [BFD P_SCTP 24 0 cum; BFD P_SCTP 25 0 rwnd; BFD P_SCTP 26 0 ngap; BFD P_SCTP 27 0 ndup] in
    do rem <- bsl_from v 96 ;;
    do g <- b_value ngap ;;
    do d <- b_value ndup ;;
    if negb (blen rem =? 32 * (g + d)) then Exc ParserError
    else
      do g' <- b_value ngap ;;
      do r1 <- bsack_gaps (Z.to_nat g') rem hd ;;
      do d' <- b_value ndup ;;
      do r2 <- bsack_dups (Z.to_nat d') (snd r1) (fst r1) ;;
      Ok (fst r2)
  else if (ctype =? 4) || (ctype =? 5) || (ctype =? 6) || (ctype =? 9) then bparse_parameters v []
  else if ctype =? 7 then
    if 32 <? blen v then Exc ParserError
    else do cum <- bsl v 0 32 ;; Ok [BFD P_SCTP 31 0 cum]
  else if (ctype =? 8) || (ctype =? 11) || (ctype =? 14) then
    if 0 <? blen v then Exc ParserError else Ok []
  else if ctype =? 10 then Ok [BFD P_SCTP 32 0 v]
  else Ok [BFD P_SCTP 7 0 v].

Definition bparse_chunk (b : buf) : res (list bfield * Z) :=
  if blen b <? 32 then Exc ParserError
  else
    do ctype <- bsl b 0 8 ;;
    do cflags <- bsl b 8 16 ;;
    do clen <- bsl b 16 32 ;;
    do clen_int <- b_value clen ;;
    let clv := clen_int * 8 in
    if (clv <? 32) || (blen b <? clv) then Exc ParserError
    else
      let hd := [BFD P_SCTP 4 0 ctype; BFD P_SCTP 5 0 cflags; BFD P_SCTP 6 0 clen] in
      let cvl := clv - 32 in
      do vf <- (if 0 <? cvl then
                  do ctype_int <- b_value ctype ;;
                  do value <- bsl b 32 (32 + cvl) ;;
                  bparse_chunk_value ctype_int value
                else Ok []) ;;
      let cpl := (32 - clv mod 32) mod 32 in
      do pf <- (if 0 <? cpl then
                  do pad <- bsl b clv (clv + cpl) ;;
                  Ok (if 0 <? blen pad then [BFD P_SCTP 8 0 pad] else [])
                else Ok []) ;;
      Ok (hd ++ vf ++ pf, clv + cpl).

(* while chunks.length > 0: ...; chunks = chunks[bits_consumed:] *)
Fixpoint bchunks_loop (fuel : nat) (b : buf) (acc : list bfield) : res (list bfield) :=
  match fuel with
  | O => Diverge
  | S f =>
    if 0 <? blen b then
      do c <- bparse_chunk b ;;
      do rest <- bsl_from b (snd c) ;;
      bchunks_loop f rest (acc ++ fst c)
    else Ok acc
  end.

Definition bparse_sctp : bhparser := fun b =>
  if blen b <? 96 then Exc ParserError
  else
    do sport <- bsl b 0 16 ;;
    do dport <- bsl b 16 32 ;;
    do vtag <- bsl b 32 64 ;;
    do cksum <- bsl b 64 96 ;;
    let hd := [BFD P_SCTP 0 0 sport; BFD P_SCTP 1 0 dport; BFD P_SCTP 2 0 vtag; BFD P_SCTP 3 0 cksum] in
    do chunks <- bsl_from b 96 ;;
    do fs <- bchunks_loop (S (Z.to_nat (blen b))) chunks hd ;;
    Ok (fs, blen b).

(* ---- next-header prediction: next_parser.parse(buffer[n:]) ------------------------------------- *)
Definition bchain (h : bhdesc) (next : bhparser) (b : buf) (off : Z) : res bhdesc :=
  do rest <- bsl_from b off ;;
  do n <- next rest ;;
  Ok (fst h ++ fst n, snd h + snd n).

(* ---- UDP (udp.py) ---------------------------------------------------------------------------- *)
Definition bparse_udp (predict : bool) : bhparser := fun b =>
  if blen b <? 64 then Exc ParserError
  else
    do sport <- bsl b 0 16 ;;
    do dport <- bsl b 16 32 ;;
    do len <- bsl b 32 48 ;;
    do cksum <- bsl b 48 64 ;;
    let h := ([BFD P_UDP 0 0 sport; BFD P_UDP 1 0 dport; BFD P_UDP 2 0 len; BFD P_UDP 3 0 cksum], 64) in
    if predict then
      do p <- b_value dport ;;
      if p =? 5683 then bchain h bparse_coap b 64
      else if p =? 132 then bchain h bparse_sctp b 64
      else Ok h
    else Ok h.

(* ---- IPv6 (ipv6.py), IPv4 (ipv4.py) ------------------------------------------------------------ *)
Definition bparse_ipv6 (predict : bool) : bhparser := fun b =>
  if blen b <? 320 then Exc ParserError
  else
    do version <- bsl b 0 4 ;;
    if negb (b_eq_bytes version [6]) then Exc ParserError      (* version != b'\x06' *)
    else
      do tc <- bsl b 4 12 ;;
      do fl <- bsl b 12 32 ;;
      do plen <- bsl b 32 48 ;;
      do nh <- bsl b 48 56 ;;
      do hl <- bsl b 56 64 ;;
      do src <- bsl b 64 192 ;;
      do dst <- bsl b 192 320 ;;
      let h := ([BFD P_IPv6 0 0 version; BFD P_IPv6 1 0 tc; BFD P_IPv6 2 0 fl; BFD P_IPv6 3 0 plen;
                 BFD P_IPv6 4 0 nh; BFD P_IPv6 5 0 hl; BFD P_IPv6 6 0 src; BFD P_IPv6 7 0 dst], 320) in
      if predict then
        do p <- b_value nh ;;
        if p =? 17 then bchain h (bparse_udp true) b 320
        else if p =? 132 then bchain h bparse_sctp b 320
        else Ok h
      else Ok h.

Definition bparse_ipv4 (predict : bool) : bhparser := fun b =>
  if blen b <? 160 then Exc ParserError
  else
    do version <- bsl b 0 4 ;;
    if negb (b_eq_bytes version [4]) then Exc ParserError      (* version != b'\x04' *)
    else
      do ihl <- bsl b 4 8 ;;
      do tos <- bsl b 8 16 ;;
      do tlen <- bsl b 16 32 ;;
      do ident <- bsl b 32 48 ;;
      do flags <- bsl b 48 51 ;;
      do frag <- bsl b 51 64 ;;
      do ttl <- bsl b 64 72 ;;
      do pr <- bsl b 72 80 ;;
      do cksum <- bsl b 80 96 ;;
      do src <- bsl b 96 128 ;;
      do dst <- bsl b 128 160 ;;
      let h := ([BFD P_IPv4 0 0 version; BFD P_IPv4 1 0 ihl; BFD P_IPv4 2 0 tos; BFD P_IPv4 3 0 tlen;
                 BFD P_IPv4 4 0 ident; BFD P_IPv4 5 0 flags; BFD P_IPv4 6 0 frag; BFD P_IPv4 7 0 ttl;
                 BFD P_IPv4 8 0 pr; BFD P_IPv4 9 0 cksum; BFD P_IPv4 10 0 src; BFD P_IPv4 11 0 dst], 160) in
      if predict then
        do p <- b_value pr ;;
        if p =? 17 then bchain h (bparse_udp true) b 160
        else if p =? 132 then bchain h bparse_sctp b 160
        else Ok h
      else Ok h.

(* ---- PacketParser.parse (parser.py) -------------------------------------------------------------- *)
Fixpoint bpacket_parse_loop (ps : list bhparser) (b : buf) (acc : list bfield) : res (list bfield * buf) :=
  match ps with
  | [] => Ok (acc, b)
  | p :: ps' =>
    do h <- p b ;;
    do b' <- bsl_from b (snd h) ;;                    (* buffer = buffer[header_descriptor.length:] *)
    bpacket_parse_loop ps' b' (acc ++ fst h)
  end.

(* fields and payload of the packet descriptor (raw = buffer.copy() is built first) *)
Definition bpacket_parse (ps : list bhparser) (b : buf) : res (list bfield * buf) :=
  do raw <- b_copy b ;;
  bpacket_parse_loop ps b [].

(* protocol/registry.py factory *)
Definition bfactory (s : stack) : buf -> res (list bfield * buf) :=
  bpacket_parse
    match s with
    | IPv6_UDP_CoAP => [bparse_ipv6 false; bparse_udp false; bparse_coap]
    | IPv4_UDP_CoAP => [bparse_ipv4 false; bparse_udp false; bparse_coap]
    | S_IPv4 => [bparse_ipv4 true]
    | S_IPv6 => [bparse_ipv6 true]
    | S_UDP => [bparse_udp true]
    | S_CoAP => [bparse_coap]
    | S_SCTP => [bparse_sctp]
    end.
