(* ParserHeap.v -- the header parsers and the packet parser of ParserBytes.v over the heap of Buffer OBJECTS
   (BufferHeap.v): the packet is a reference, every buffer[a:b] is __getitem__ (a new object), every comparison with a
   bytes constant reads the operand, `x in {b'\x0d', b'\x0e'}` hashes x (pad(LEFT, inplace=False): a new object),
   .value() pads a copy when the operand is right padded, Buffer(content=b'\xff', length=8) and raw = buffer.copy()
   allocate.  Theorems for the 7 configurations of factory: frame (nothing that existed changes, whatever the outcome),
   freshness (raw, every field value and the payload are new objects, in allocation order hence pairwise distinct, none
   is the packet), refinement to ParserBytes.bfactory on the dereferenced packet.
   Used for property C16 (first sentence). *)
From Coq Require Import ZArith List Bool Lia Arith.
From MS Require Import PyBase Buffer Bits Schc Parsers SchcBytes ParserBytes BufferHeap BufferHeapSpec SchcHeap.
Import ListNotations.
Open Scope Z_scope.

(* ================================================================================================ *)
(* 1. the object-level parsers                                                                      *)
(* ================================================================================================ *)

Definition hsl (b : oref) (s e : Z) : hm oref := h_getitem b (Some s) (Some e).
Definition hsl_from (b : oref) (s : Z) : hm oref := h_getitem b (Some s) None.
Definition OFD (p : proto) (i : Z) (pos : Z) (v : oref) : ofield := mkofield (mkfid p i) v pos.

(* Buffer == bytes / Buffer != bytes: self.content == another *)
Definition h_eq_bytes (x : oref) (k : list Z) : hm bool := hdo xb <- hget x ;; hret (b_eq_bytes xb k).
(* x in {k1, k2} *)
Definition h_in_set2 (x : oref) (k1 k2 : list Z) : hm bool :=
  hdo hk <- h_hash_key x ;; hdo xb <- hget x ;;
  hret ((bytes_eqb hk k1 && b_eq_bytes xb k1) || (bytes_eqb hk k2 && b_eq_bytes xb k2)).
(* try: ... except Exception: raise e'  (the heap is what it is at the raise) *)
Definition h_catch_all {A} (m : hm A) (e' : exn) : hm A := fun h => let '(r, h') := m h in (catch_all r e', h').

Definition ohdesc := (list ofield * Z)%type.
Definition ohparser := oref -> hm ohdesc.

(* ---- CoAP, syntactic options ---- *)
Fixpoint h_coap_options_loop (fuel : nat) (b : oref) (cursor : Z) (ps : opos) (dxv lxv : option oref)
    (acc : list ofield) : hm (list ofield * Z) :=
  match fuel with
  | O => hlift Diverge
  | S f =>
    hdo bl <- h_len b ;;
    hdo continue <- (if cursor <? bl then
                       hdo m <- hsl b cursor (cursor + 8) ;; hdo e <- h_eq_bytes m [255] ;; hret (negb e)
                     else hret false) ;;
    if continue then
      hdo ob <- hsl_from b cursor ;;
      hdo delta <- hsl ob 0 4 ;;
      hdo olen <- hsl ob 4 8 ;;
      hdo olen_int <- h_value olen ;;
      let off := 8 in
      hdo d13 <- h_eq_bytes delta [13] ;;
      hdo dx <- (if d13 then
                   hdo x <- hsl ob off (off + 8) ;; hret (Some x, off + 8, p_dext ps + 1)
                 else
                   hdo d14 <- h_eq_bytes delta [14] ;;
                   if d14 then hdo x <- hsl ob off (off + 16) ;; hret (Some x, off + 16, p_dext ps + 1)
                   else hret (dxv, off, p_dext ps)) ;;
      let '(dxv', off, pdx) := dx in
      hdo l13 <- h_eq_bytes olen [13] ;;
      hdo lx <- (if l13 then
                   hdo x <- hsl ob off (off + 8) ;; hdo v <- h_value x ;;
                   hret (Some x, v, off + 8, p_lext ps + 1)
                 else
                   hdo l14 <- h_eq_bytes olen [14] ;;
                   if l14 then
                     hdo x <- hsl ob off (off + 16) ;; hdo v <- h_value x ;;
                     hret (Some x, v + 255, off + 16, p_lext ps + 1)
                   else hret (lxv, 0, off, p_lext ps)) ;;
      let '(lxv', ext_int, off, plx) := lx in
      let vlen := (olen_int + ext_int) * 8 in
      hdo value <- hsl ob off (off + vlen) ;;
      let pv := if 0 <? vlen then p_value ps + 1 else p_value ps in
      let cursor' := cursor + off + vlen in
      hdo bl2 <- h_len b ;;
      if bl2 <? cursor' then hlift (Exc ParserError)
      else
        let ps' := mkopos (p_delta ps + 1) (p_length ps + 1) pdx plx pv in
        hdo dm <- h_in_set2 delta [13] [14] ;;
        hdo dxf <- (if dm then
                      match dxv' with Some x => hret [OFD P_CoAP 9 pdx x] | None => hlift (Exc UnboundLocalError) end
                    else hret []) ;;
        hdo lm <- h_in_set2 olen [13] [14] ;;
        hdo lxf <- (if lm then
                      match lxv' with Some x => hret [OFD P_CoAP 10 plx x] | None => hlift (Exc UnboundLocalError) end
                    else hret []) ;;
        let fs := [OFD P_CoAP 7 (p_delta ps') delta; OFD P_CoAP 8 (p_length ps') olen]
                  ++ dxf ++ lxf
                  ++ (if 0 <? vlen then [OFD P_CoAP 11 pv value] else []) in
        h_coap_options_loop f b cursor' ps' dxv' lxv' (acc ++ fs)
    else
      hdo bl3 <- h_len b ;;
      if cursor <? bl3 then
        hdo marker <- h_new [255] 8 LEFT ;;
        hret (acc ++ [OFD P_CoAP 6 0 marker], cursor + 8)
      else hret (acc, cursor)
  end.

Definition h_coap_parse_options (b : oref) : hm (list ofield * Z) :=
  hdo bl <- h_len b ;;
  h_coap_options_loop (S (Z.to_nat bl)) b 0 (mkopos 0 0 0 0 0) None None [].

Definition h_parse_coap : ohparser := fun b =>
  hdo bl <- h_len b ;;
  if bl <? 32 then hlift (Exc ParserError)
  else
    hdo version <- hsl b 0 2 ;;
    hdo type <- hsl b 2 4 ;;
    hdo tkl <- hsl b 4 8 ;;
    hdo tklb <- hget tkl ;;
    hdo tkl_int <- hlift (py_index (content tklb) 0) ;;
    hdo code <- hsl b 8 16 ;;
    hdo mid <- hsl b 16 32 ;;
    hdo token <- h_catch_all (hsl b 32 (32 + tkl_int * 8)) ParserError ;;
    let hf := [OFD P_CoAP 0 0 version; OFD P_CoAP 1 0 type; OFD P_CoAP 2 0 tkl;
               OFD P_CoAP 3 0 code; OFD P_CoAP 4 0 mid]
              ++ (if 0 <? tkl_int then [OFD P_CoAP 5 0 token] else []) in
    hdo ob <- hsl_from b (32 + tkl_int * 8) ;;
    hdo obl <- h_len ob ;;
    hdo o <- (if 0 <? obl then h_catch_all (h_coap_parse_options ob) ParserError else hret ([], 0)) ;;
    hdo tl <- h_len token ;;
    hret (hf ++ fst o, 32 + tl + snd o).

(* ---- SCTP ---- *)
Definition h_parse_parameter (b : oref) : hm (list ofield * Z) :=
  hdo bl <- h_len b ;;
  if bl <? 32 then hlift (Exc ParserError)
  else
    hdo ptype <- hsl b 0 16 ;;
    hdo plen <- hsl b 16 32 ;;
    hdo plen_int <- h_value plen ;;
    let plv := plen_int * 8 in
    hdo bl2 <- h_len b ;;
    if (plv <? 32) || (bl2 <? plv) then hlift (Exc ParserError)
    else
      let pvl := plv - 32 in
      hdo vf <- (if 0 <? pvl then hdo v <- hsl b 32 plv ;; hret [OFD P_SCTP 35 0 v] else hret []) ;;
      let fs := [OFD P_SCTP 33 0 ptype; OFD P_SCTP 34 0 plen] ++ vf in
      let ppl := (32 - pvl mod 32) mod 32 in
      hdo pf <- (if 0 <? ppl then hdo p <- hsl b plv (plv + ppl) ;; hret [OFD P_SCTP 36 0 p] else hret []) ;;
      let fs := fs ++ pf in
      hret (fs, plv + ppl).

Fixpoint h_parameters_loop (fuel : nat) (b : oref) (acc : list ofield) : hm (list ofield) :=
  match fuel with
  | O => hlift Diverge
  | S f =>
    hdo bl <- h_len b ;;
    if 0 <? bl then
      hdo p <- h_parse_parameter b ;;
      hdo rest <- hsl_from b (snd p) ;;
      h_parameters_loop f rest (acc ++ fst p)
    else hret acc
  end.
Definition h_parse_parameters (b : oref) (acc : list ofield) : hm (list ofield) :=
  hdo bl <- h_len b ;; h_parameters_loop (S (Z.to_nat bl)) b acc.

Fixpoint h_sack_gaps (n : nat) (rem : oref) (acc : list ofield) : hm (list ofield * oref) :=
  match n with
  | O => hret (acc, rem)
  | S n' =>
    hdo gs <- hsl rem 0 16 ;;
    hdo ge <- hsl rem 16 32 ;;
    hdo rem' <- hsl_from rem 32 ;;
    h_sack_gaps n' rem' (acc ++ [OFD P_SCTP 28 0 gs; OFD P_SCTP 29 0 ge])
  end.
Fixpoint h_sack_dups (n : nat) (rem : oref) (acc : list ofield) : hm (list ofield * oref) :=
  match n with
  | O => hret (acc, rem)
  | S n' =>
    hdo d <- hsl rem 0 32 ;;
    hdo rem' <- hsl_from rem 32 ;;
    h_sack_dups n' rem' (acc ++ [OFD P_SCTP 30 0 d])
  end.

Definition h_parse_chunk_value (ctype : Z) (v : oref) : hm (list ofield) :=
  if ctype =? 0 then
    hdo tsn <- hsl v 0 32 ;;
    hdo sid <- hsl v 32 48 ;;
    hdo ssn <- hsl v 48 64 ;;
    hdo ppi <- hsl v 64 96 ;;
    hdo ppi_value <- h_value ppi ;;
    hdo user_data <- hsl_from v 96 ;;
    hret [OFD P_SCTP 9 0 tsn; OFD P_SCTP 10 0 sid; OFD P_SCTP 11 0 ssn; OFD P_SCTP 12 0 ppi;
          OFD P_SCTP 13 0 user_data]
  else if ctype =? 1 then
    hdo f1 <- hsl v 0 32 ;; hdo f2 <- hsl v 32 64 ;; hdo f3 <- hsl v 64 80 ;; hdo f4 <- hsl v 80 96 ;;
    hdo f5 <- hsl v 96 128 ;;
    hdo params <- hsl_from v 128 ;;
    h_parse_parameters params
      [OFD P_SCTP 14 0 f1; OFD P_SCTP 15 0 f2; OFD P_SCTP 16 0 f3; OFD P_SCTP 17 0 f4; OFD P_SCTP 18 0 f5]
  else if ctype =? 2 then
    hdo f1 <- hsl v 0 32 ;; hdo f2 <- hsl v 32 64 ;; hdo f3 <- hsl v 64 80 ;; hdo f4 <- hsl v 80 96 ;;
    hdo f5 <- hsl v 96 128 ;;
    hdo params <- hsl_from v 128 ;;
    h_parse_parameters params
      [OFD P_SCTP 19 0 f1; OFD P_SCTP 20 0 f2; OFD P_SCTP 21 0 f3; OFD P_SCTP 22 0 f4; OFD P_SCTP 23 0 f5]
  else if ctype =? 3 then
    hdo cum <- hsl v 0 32 ;;
    hdo rwnd <- hsl v 32 64 ;;
    hdo ngap <- hsl v 64 80 ;;
    hdo ndup <- hsl v 80 96 ;;
    let hd := [OFD P_SCTP 24 0 cum; OFD P_SCTP 25 0 rwnd; OFD P_SCTP 26 0 ngap; OFD P_SCTP 27 0 ndup] in
    hdo rem <- hsl_from v 96 ;;
    hdo g <- h_value ngap ;;
    hdo d <- h_value ndup ;;
    hdo reml <- h_len rem ;;
    if negb (reml =? 32 * (g + d)) then hlift (Exc ParserError)
    else
      hdo g' <- h_value ngap ;;
      hdo r1 <- h_sack_gaps (Z.to_nat g') rem hd ;;
      hdo d' <- h_value ndup ;;
      hdo r2 <- h_sack_dups (Z.to_nat d') (snd r1) (fst r1) ;;
      hret (fst r2)
  else if (ctype =? 4) || (ctype =? 5) || (ctype =? 6) || (ctype =? 9) then h_parse_parameters v []
  else if ctype =? 7 then
    hdo vl <- h_len v ;;
    if 32 <? vl then hlift (Exc ParserError)
    else hdo cum <- hsl v 0 32 ;; hret [OFD P_SCTP 31 0 cum]
  else if (ctype =? 8) || (ctype =? 11) || (ctype =? 14) then
    hdo vl <- h_len v ;;
    if 0 <? vl then hlift (Exc ParserError) else hret []
  else if ctype =? 10 then hret [OFD P_SCTP 32 0 v]
  else hret [OFD P_SCTP 7 0 v].

Definition h_parse_chunk (b : oref) : hm (list ofield * Z) :=
  hdo bl <- h_len b ;;
  if bl <? 32 then hlift (Exc ParserError)
  else
    hdo ctype <- hsl b 0 8 ;;
    hdo cflags <- hsl b 8 16 ;;
    hdo clen <- hsl b 16 32 ;;
    hdo clen_int <- h_value clen ;;
    let clv := clen_int * 8 in
    hdo bl2 <- h_len b ;;
    if (clv <? 32) || (bl2 <? clv) then hlift (Exc ParserError)
    else
      let hd := [OFD P_SCTP 4 0 ctype; OFD P_SCTP 5 0 cflags; OFD P_SCTP 6 0 clen] in
      let cvl := clv - 32 in
      hdo vf <- (if 0 <? cvl then
                   hdo ctype_int <- h_value ctype ;;
                   hdo value <- hsl b 32 (32 + cvl) ;;
                   h_parse_chunk_value ctype_int value
                 else hret []) ;;
      let cpl := (32 - clv mod 32) mod 32 in
      hdo pf <- (if 0 <? cpl then
                   hdo pad <- hsl b clv (clv + cpl) ;;
                   hdo padl <- h_len pad ;;
                   hret (if 0 <? padl then [OFD P_SCTP 8 0 pad] else [])
                 else hret []) ;;
      hret (hd ++ vf ++ pf, clv + cpl).

Fixpoint h_chunks_loop (fuel : nat) (b : oref) (acc : list ofield) : hm (list ofield) :=
  match fuel with
  | O => hlift Diverge
  | S f =>
    hdo bl <- h_len b ;;
    if 0 <? bl then
      hdo c <- h_parse_chunk b ;;
      hdo rest <- hsl_from b (snd c) ;;
      h_chunks_loop f rest (acc ++ fst c)
    else hret acc
  end.

Definition h_parse_sctp : ohparser := fun b =>
  hdo bl <- h_len b ;;
  if bl <? 96 then hlift (Exc ParserError)
  else
    hdo sport <- hsl b 0 16 ;;
    hdo dport <- hsl b 16 32 ;;
    hdo vtag <- hsl b 32 64 ;;
    hdo cksum <- hsl b 64 96 ;;
    let hd := [OFD P_SCTP 0 0 sport; OFD P_SCTP 1 0 dport; OFD P_SCTP 2 0 vtag; OFD P_SCTP 3 0 cksum] in
    hdo chunks <- hsl_from b 96 ;;
    hdo bl2 <- h_len b ;;
    hdo fs <- h_chunks_loop (S (Z.to_nat bl2)) chunks hd ;;
    hdo bl3 <- h_len b ;;
    hret (fs, bl3).

(* ---- next-header prediction: next_parser.parse(buffer[n:]) ---- *)
Definition h_chain (hd : ohdesc) (next : ohparser) (b : oref) (off : Z) : hm ohdesc :=
  hdo rest <- hsl_from b off ;;
  hdo n <- next rest ;;
  hret (fst hd ++ fst n, snd hd + snd n).

(* ---- UDP ---- *)
Definition h_parse_udp (predict : bool) : ohparser := fun b =>
  hdo bl <- h_len b ;;
  if bl <? 64 then hlift (Exc ParserError)
  else
    hdo sport <- hsl b 0 16 ;;
    hdo dport <- hsl b 16 32 ;;
    hdo len <- hsl b 32 48 ;;
    hdo cksum <- hsl b 48 64 ;;
    let hd := ([OFD P_UDP 0 0 sport; OFD P_UDP 1 0 dport; OFD P_UDP 2 0 len; OFD P_UDP 3 0 cksum], 64) in
    if predict then
      hdo p <- h_value dport ;;
      if p =? 5683 then h_chain hd h_parse_coap b 64
      else if p =? 132 then h_chain hd h_parse_sctp b 64
      else hret hd
    else hret hd.

(* ---- IPv6, IPv4 ---- *)
Definition h_parse_ipv6 (predict : bool) : ohparser := fun b =>
  hdo bl <- h_len b ;;
  if bl <? 320 then hlift (Exc ParserError)
  else
    hdo version <- hsl b 0 4 ;;
    hdo v6 <- h_eq_bytes version [6] ;;
    if negb v6 then hlift (Exc ParserError)
    else
      hdo tc <- hsl b 4 12 ;;
      hdo fl <- hsl b 12 32 ;;
      hdo plen <- hsl b 32 48 ;;
      hdo nh <- hsl b 48 56 ;;
      hdo hl <- hsl b 56 64 ;;
      hdo src <- hsl b 64 192 ;;
      hdo dst <- hsl b 192 320 ;;
      let hd := ([OFD P_IPv6 0 0 version; OFD P_IPv6 1 0 tc; OFD P_IPv6 2 0 fl; OFD P_IPv6 3 0 plen;
                  OFD P_IPv6 4 0 nh; OFD P_IPv6 5 0 hl; OFD P_IPv6 6 0 src; OFD P_IPv6 7 0 dst], 320) in
      if predict then
        hdo p <- h_value nh ;;
        if p =? 17 then h_chain hd (h_parse_udp true) b 320
        else if p =? 132 then h_chain hd h_parse_sctp b 320
        else hret hd
      else hret hd.

Definition h_parse_ipv4 (predict : bool) : ohparser := fun b =>
  hdo bl <- h_len b ;;
  if bl <? 160 then hlift (Exc ParserError)
  else
    hdo version <- hsl b 0 4 ;;
    hdo v4 <- h_eq_bytes version [4] ;;
    if negb v4 then hlift (Exc ParserError)
    else
      hdo ihl <- hsl b 4 8 ;;
      hdo tos <- hsl b 8 16 ;;
      hdo tlen <- hsl b 16 32 ;;
      hdo ident <- hsl b 32 48 ;;
      hdo flags <- hsl b 48 51 ;;
      hdo frag <- hsl b 51 64 ;;
      hdo ttl <- hsl b 64 72 ;;
      hdo pr <- hsl b 72 80 ;;
      hdo cksum <- hsl b 80 96 ;;
      hdo src <- hsl b 96 128 ;;
      hdo dst <- hsl b 128 160 ;;
      let hd := ([OFD P_IPv4 0 0 version; OFD P_IPv4 1 0 ihl; OFD P_IPv4 2 0 tos; OFD P_IPv4 3 0 tlen;
                  OFD P_IPv4 4 0 ident; OFD P_IPv4 5 0 flags; OFD P_IPv4 6 0 frag; OFD P_IPv4 7 0 ttl;
                  OFD P_IPv4 8 0 pr; OFD P_IPv4 9 0 cksum; OFD P_IPv4 10 0 src; OFD P_IPv4 11 0 dst], 160) in
      if predict then
        hdo p <- h_value pr ;;
        if p =? 17 then h_chain hd (h_parse_udp true) b 160
        else if p =? 132 then h_chain hd h_parse_sctp b 160
        else hret hd
      else hret hd.

(* ---- PacketParser.parse ---- *)
Fixpoint h_packet_parse_loop (ps : list ohparser) (b : oref) (acc : list ofield) : hm (list ofield * oref) :=
  match ps with
  | [] => hret (acc, b)
  | p :: ps' =>
    hdo hd <- p b ;;
    hdo b' <- hsl_from b (snd hd) ;;             (* buffer = buffer[header_descriptor.length:] rebinds the name *)
    h_packet_parse_loop ps' b' (acc ++ fst hd)
  end.

(* the packet descriptor: fields, payload, raw (raw = buffer.copy() is created first) *)
Definition h_packet_parse (ps : list ohparser) (b : oref) : hm (list ofield * oref * oref) :=
  hdo raw <- h_copy b ;;
  hdo r <- h_packet_parse_loop ps b [] ;;
  hret (fst r, snd r, raw).

Definition h_parsers (s : stack) : list ohparser :=
  match s with
  | IPv6_UDP_CoAP => [h_parse_ipv6 false; h_parse_udp false; h_parse_coap]
  | IPv4_UDP_CoAP => [h_parse_ipv4 false; h_parse_udp false; h_parse_coap]
  | S_IPv4 => [h_parse_ipv4 true]
  | S_IPv6 => [h_parse_ipv6 true]
  | S_UDP => [h_parse_udp true]
  | S_CoAP => [h_parse_coap]
  | S_SCTP => [h_parse_sctp]
  end.
Definition h_factory (s : stack) : oref -> hm (list ofield * oref * oref) := h_packet_parse (h_parsers s).

(* ================================================================================================ *)
(* 2. frame: every parser only allocates -- all heaps, all packets (in scope or not), all outcomes  *)
(* ================================================================================================ *)

Lemma pv_eq_bytes x k : pure_val (h_eq_bytes x k).
Proof. unfold h_eq_bytes. hpure. Qed.
Lemma pv_in_set2 x k1 k2 : pure_val (h_in_set2 x k1 k2).
Proof. unfold h_in_set2. hpure. Qed.
Lemma pv_catch_all {A} (m : hm A) e : pure_val m -> pure_val (h_catch_all m e).
Proof.
  intros P h x h' H. unfold h_catch_all in H. destruct (m h) as [r h1] eqn:E. inversion H; subst. eapply P; eauto.
Qed.

Ltac ppure_step :=
  first
    [ apply pv_ret | apply pv_lift | apply pv_get | apply pv_len | apply pv_value | apply pv_eq_bytes | apply pv_in_set2
    | apply pure_ref_val; first [ apply pr_new | apply pr_copy | apply pr_getitem ]
    | apply pv_catch_all
    | apply pv_bind; [ | intro ]
    | match goal with
      | |- pure_val (match ?c with _ => _ end) => destruct c
      | |- pure_val (hsl _ _ _) => unfold hsl
      | |- pure_val (hsl_from _ _) => unfold hsl_from
      end ].
Ltac ppure := repeat ppure_step.
Tactic Notation "ppure_using" tactic(t) := repeat first [ t | ppure_step ].

Lemma pv_coap_options_loop : forall fuel b cursor ps dxv lxv acc, pure_val (h_coap_options_loop fuel b cursor ps dxv lxv acc).
Proof.
  induction fuel as [|f IH]; intros; cbn [h_coap_options_loop]. apply pv_lift.
  ppure_using (apply IH).
Qed.
Lemma pv_coap_parse_options b : pure_val (h_coap_parse_options b).
Proof. unfold h_coap_parse_options. apply pv_bind. apply pv_len. intro. apply pv_coap_options_loop. Qed.
Lemma pv_parse_coap b : pure_val (h_parse_coap b).
Proof. unfold h_parse_coap. ppure_using (apply pv_coap_parse_options). Qed.

Lemma pv_parse_parameter b : pure_val (h_parse_parameter b).
Proof. unfold h_parse_parameter. ppure. Qed.
Lemma pv_parameters_loop : forall fuel b acc, pure_val (h_parameters_loop fuel b acc).
Proof.
  induction fuel as [|f IH]; intros; cbn [h_parameters_loop]. apply pv_lift.
  apply pv_bind. apply pv_len. intro bl. destruct (0 <? bl); [ | apply pv_ret].
  apply pv_bind. apply pv_parse_parameter. intro. apply pv_bind. unfold hsl_from. apply pure_ref_val, pr_getitem.
  intro. apply IH.
Qed.
Lemma pv_parse_parameters b acc : pure_val (h_parse_parameters b acc).
Proof. unfold h_parse_parameters. apply pv_bind. apply pv_len. intro. apply pv_parameters_loop. Qed.
Lemma pv_sack_gaps : forall n rem acc, pure_val (h_sack_gaps n rem acc).
Proof. induction n as [|n IH]; intros; cbn [h_sack_gaps]. apply pv_ret. ppure_using (apply IH). Qed.
Lemma pv_sack_dups : forall n rem acc, pure_val (h_sack_dups n rem acc).
Proof. induction n as [|n IH]; intros; cbn [h_sack_dups]. apply pv_ret. ppure_using (apply IH). Qed.
Lemma pv_parse_chunk_value c v : pure_val (h_parse_chunk_value c v).
Proof.
  unfold h_parse_chunk_value.
  ppure_using (first [ apply pv_parse_parameters | apply pv_sack_gaps | apply pv_sack_dups ]).
Qed.
Lemma pv_parse_chunk b : pure_val (h_parse_chunk b).
Proof. unfold h_parse_chunk. ppure_using (apply pv_parse_chunk_value). Qed.
Lemma pv_chunks_loop : forall fuel b acc, pure_val (h_chunks_loop fuel b acc).
Proof.
  induction fuel as [|f IH]; intros; cbn [h_chunks_loop]. apply pv_lift.
  apply pv_bind. apply pv_len. intro bl. destruct (0 <? bl); [ | apply pv_ret].
  apply pv_bind. apply pv_parse_chunk. intro. apply pv_bind. unfold hsl_from. apply pure_ref_val, pr_getitem.
  intro. apply IH.
Qed.
Lemma pv_parse_sctp b : pure_val (h_parse_sctp b).
Proof. unfold h_parse_sctp. ppure_using (apply pv_chunks_loop). Qed.
Lemma pv_chain hd next b off : (forall x, pure_val (next x)) -> pure_val (h_chain hd next b off).
Proof. intro N. unfold h_chain. ppure_using (apply N). Qed.
Lemma pv_parse_udp p b : pure_val (h_parse_udp p b).
Proof.
  unfold h_parse_udp. ppure_using (idtac; match goal with |- pure_val (h_chain _ _ _ _) => apply pv_chain; first [ apply pv_parse_coap | apply pv_parse_sctp ] end).
Qed.
Lemma pv_parse_ipv6 p b : pure_val (h_parse_ipv6 p b).
Proof.
  unfold h_parse_ipv6. ppure_using (idtac; match goal with |- pure_val (h_chain _ _ _ _) => apply pv_chain; first [ apply pv_parse_udp | apply pv_parse_sctp ] end).
Qed.
Lemma pv_parse_ipv4 p b : pure_val (h_parse_ipv4 p b).
Proof.
  unfold h_parse_ipv4. ppure_using (idtac; match goal with |- pure_val (h_chain _ _ _ _) => apply pv_chain; first [ apply pv_parse_udp | apply pv_parse_sctp ] end).
Qed.

Lemma pv_packet_parse_loop : forall ps b acc, (forall p x, In p ps -> pure_val (p x)) -> pure_val (h_packet_parse_loop ps b acc).
Proof.
  induction ps as [|p ps IH]; intros b acc N; cbn [h_packet_parse_loop]. apply pv_ret.
  apply pv_bind. apply N. now left. intro. apply pv_bind. unfold hsl_from. apply pure_ref_val, pr_getitem.
  intro. apply IH. intros q x I. apply N. now right.
Qed.
Lemma pv_parsers s p x : In p (h_parsers s) -> pure_val (p x).
Proof.
  destruct s; simpl; intros I; repeat (destruct I as [<- | I]);
    first [ apply pv_parse_ipv6 | apply pv_parse_ipv4 | apply pv_parse_udp | apply pv_parse_coap | apply pv_parse_sctp
          | contradiction ].
Qed.
Lemma pv_factory s b : pure_val (h_factory s b).
Proof.
  unfold h_factory, h_packet_parse. apply pv_bind. apply pure_ref_val, pr_copy. intro.
  apply pv_bind. apply pv_packet_parse_loop. intros; eapply pv_parsers; eauto. intro. apply pv_ret.
Qed.

(* parsing changes no existing object: the packet Buffer and everything else are as they were, for each of the 7
   configurations, every heap, every packet reference, every outcome *)
Theorem h_factory_frame s b h res h' : h_factory s b h = (res, h') -> extends h h'.
Proof. apply pv_factory. Qed.

(* ================================================================================================ *)
(* 3. refinement and freshness, packet in scope                                                     *)
(* ================================================================================================ *)

(* references in allocation order within [lo, hi): new (>= lo), in the heap (< hi), pairwise distinct *)
Fixpoint sorted_in (lo : nat) (l : list oref) (hi : nat) : Prop :=
  match l with
  | [] => (lo <= hi)%nat
  | x :: r => (lo <= x)%nat /\ sorted_in (S x) r hi
  end.
Lemma sorted_in_le : forall l lo hi, sorted_in lo l hi -> (lo <= hi)%nat.
Proof. induction l as [|x l IH]; simpl; intros lo hi H; auto. destruct H as [A B]. apply IH in B. lia. Qed.
Lemma sorted_in_weaken : forall l lo lo' hi hi', sorted_in lo l hi -> (lo' <= lo)%nat -> (hi <= hi')%nat -> sorted_in lo' l hi'.
Proof.
  induction l as [|x l IH]; simpl; intros lo lo' hi hi' H A B. lia.
  destruct H as [C D]. split. lia. eapply IH; eauto.
Qed.
Lemma sorted_in_app : forall l1 lo mid l2 hi, sorted_in lo l1 mid -> sorted_in mid l2 hi -> sorted_in lo (l1 ++ l2) hi.
Proof.
  induction l1 as [|x l1 IH]; simpl; intros lo mid l2 hi H1 H2.
  - eapply sorted_in_weaken; eauto.
  - destruct H1 as [A B]. split; auto. eapply IH; eauto.
Qed.
Lemma sorted_in_range : forall l lo hi, sorted_in lo l hi -> Forall (fun x => (lo <= x < hi)%nat) l.
Proof.
  induction l as [|x l IH]; simpl; intros lo hi H. constructor.
  destruct H as [A B]. pose proof (sorted_in_le _ _ _ B). constructor. lia.
  apply IH in B. eapply Forall_impl; [ | exact B]. cbn beta. intros; lia.
Qed.
Lemma sorted_in_NoDup : forall l lo hi, sorted_in lo l hi -> NoDup l.
Proof.
  induction l as [|x l IH]; simpl; intros lo hi H. constructor.
  destruct H as [A B]. constructor. 2: eapply IH; eauto.
  intro I. apply sorted_in_range in B. rewrite Forall_forall in B. apply B in I. lia.
Qed.

(* a list of field descriptors in scope whose value objects were allocated in order from lo on *)
Definition Rfl (lo : nat) (h' : heap) (fs : list ofield) (bfs : list bfield) : Prop :=
  Forall2 (Rfield h') fs bfs /\ sorted_in lo (map of_val fs) (length h').
Definition Rhd (lo : nat) (h' : heap) (a : ohdesc) (b : bhdesc) : Prop := Rfl lo h' (fst a) (fst b) /\ snd a = snd b.
(* an object created by the step *)
Definition Rnew (lo : nat) (h' : heap) (x : oref) (v : buf) : Prop := Rref h' x v /\ (lo <= x < length h')%nat.

Lemma Rfl_mono lo h h' fs bfs : extends h h' -> Rfl lo h fs bfs -> Rfl lo h' fs bfs.
Proof.
  intros X [F S]. split. eapply Rfields_mono; eauto.
  eapply sorted_in_weaken; eauto. now apply extends_length.
Qed.
Lemma Rfl_app lo h fs bfs gs bgs mid : Rfl lo h fs bfs -> (length h <= mid)%nat -> forall h', extends h h' ->
  Rfl mid h' gs bgs -> Rfl lo h' (fs ++ gs) (bfs ++ bgs).
Proof.
  intros [F S] L h' X [G T]. split. apply Forall2_app; auto. eapply Rfields_mono; eauto.
  rewrite map_app. eapply sorted_in_app; [ | exact T]. eapply sorted_in_weaken; eauto.
Qed.
Lemma Rfl_nil lo h : (lo <= length h)%nat -> Rfl lo h [] [].
Proof. intro L. split. constructor. exact L. Qed.

Lemma refines_sl b s e bb h : Rref h b bb -> refines (Rnew (length h)) h (hsl b s e h) (bsl bb s e).
Proof.
  intro E. pose proof (h_getitem_refines b (Some s) (Some e) h bb E) as H. unfold hsl, bsl, refines.
  destruct (h_getitem b (Some s) (Some e) h) as [[x|x|] h'].
  - destruct H as (v & -> & Hx & -> & ->). split. apply extends_app. exists v. repeat split; auto.
    rewrite app_length; simpl; lia.
  - destruct H as (-> & ->). split. apply extends_refl. auto.
  - destruct H as (-> & ->). split. apply extends_refl. auto.
Qed.
Lemma refines_sl_from b s bb h : Rref h b bb -> refines (Rnew (length h)) h (hsl_from b s h) (bsl_from bb s).
Proof.
  intro E. pose proof (h_getitem_refines b (Some s) None h bb E) as H. unfold hsl_from, bsl_from, refines.
  destruct (h_getitem b (Some s) None h) as [[x|x|] h'].
  - destruct H as (v & -> & Hx & -> & ->). split. apply extends_app. exists v. repeat split; auto.
    rewrite app_length; simpl; lia.
  - destruct H as (-> & ->). split. apply extends_refl. auto.
  - destruct H as (-> & ->). split. apply extends_refl. auto.
Qed.
Lemma refines_new_fresh c n sd h : refines (Rnew (length h)) h (h_new c n sd h) (b_new c n sd).
Proof.
  rewrite h_new_eq. unfold refines. destruct (b_new c n sd).
  - split. apply extends_app. eexists. repeat split; auto. apply nth_snoc_last. rewrite app_length; simpl; lia.
  - split. apply extends_refl. auto.
  - split. apply extends_refl. auto.
Qed.
Lemma refines_value x xb h : Rref h x xb -> refines Rval h (h_value x h) (b_value xb).
Proof. intro E. destruct (h_value_refines x h xb E). now apply refines_val. Qed.

Lemma hbind_len {B} x xb (K : Z -> hm B) h : Rref h x xb -> hbind (h_len x) K h = K (blen xb) h.
Proof. intro E. unfold h_len. rewrite hbind_assoc, (hbind_get _ _ _ _ E). reflexivity. Qed.
Lemma hbind_eq_bytes {B} x xb k (K : bool -> hm B) h : Rref h x xb -> hbind (h_eq_bytes x k) K h = K (b_eq_bytes xb k) h.
Proof. intro E. unfold h_eq_bytes. rewrite hbind_assoc, (hbind_get _ _ _ _ E). reflexivity. Qed.
Lemma hbind_getR {B} x xb (K : buf -> hm B) h : Rref h x xb -> hbind (hget x) K h = K xb h.
Proof. apply hbind_get. Qed.
Lemma bind_assoc {A B C} (m : res A) (f : A -> res B) (g : B -> res C) :
  bind (bind m f) g = bind m (fun a => bind (f a) g).
Proof. destruct m; reflexivity. Qed.

Lemma refines_catch_all {A B} (R : heap -> A -> B -> Prop) (m : hm A) q e h :
  refines R h (m h) q -> refines R h (h_catch_all m e h) (catch_all q e).
Proof.
  unfold h_catch_all, refines. destruct (m h) as [[a|x|] h'].
  - intros (X & b & -> & Rab). cbn. split; eauto.
  - intros (X & ->). cbn. split; auto.
  - intros (X & ->). cbn. split; auto.
Qed.
Lemma refines_in_set2 x xb k1 k2 h : Rref h x xb -> refines Rval h (h_in_set2 x k1 k2 h) (in_set2 xb k1 k2).
Proof.
  intro E. unfold h_in_set2, in_set2. apply refines_bind with (R := Rval). now apply refines_hash.
  intros hk hk' h1 X1 Eh. unfold Rval in Eh; subst hk'.
  assert (E1 : Rref h1 x xb) by mono. rewrite (hbind_getR _ _ _ _ E1). apply refines_ret. reflexivity.
Qed.

(* record the lengths of the heaps met so far *)
Ltac lens :=
  repeat match goal with
         | X : extends ?a ?b |- _ =>
           lazymatch goal with
           | _ : (length a <= length b)%nat |- _ => fail
           | _ => pose proof (extends_length _ _ X)
           end
         end.
Ltac step_sl :=
  eapply refines_bind with (R := Rnew _);
  [ lazymatch goal with
    | |- refines _ _ (hsl _ _ _ _) _ => apply refines_sl
    | |- refines _ _ (hsl_from _ _ _) _ => apply refines_sl_from
    end; mono
  | let x := fresh "x" in let xb := fresh "xb" in let h := fresh "h" in let X := fresh "X" in
    let E := fresh "E" in let F := fresh "F" in intros x xb h X [E F] ].
Ltac step_val :=
  apply refines_bind with (R := Rval);
  [ apply refines_value; mono
  | let v := fresh "v" in let v' := fresh "v" in let h := fresh "h" in let X := fresh "X" in
    let E := fresh "E" in intros v v' h X E; unfold Rval in E; subst v' ].
Ltac rd_len := erewrite hbind_len by mono.
Ltac rd_eqb := erewrite hbind_eq_bytes by mono.
(* a concrete list of field descriptors at the end *)
Ltac fin_fields :=
  split;
  [ repeat (apply Forall2_cons || apply Forall2_nil);
    (split; [reflexivity | split; [reflexivity | cbn [of_val OFD bf_val BFD]; mono]])
  | cbn [sorted_in map of_val OFD fst snd]; lens; lia ].

Lemma refines_parse_parameter b bb h : Rref h b bb ->
  refines (Rhd (length h)) h (h_parse_parameter b h) (bparse_parameter bb).
Proof.
  intro Eb. unfold h_parse_parameter, bparse_parameter. rd_len.
  destruct (blen bb <? 32). apply refines_exc.
  step_sl. step_sl. step_val. cbv zeta. rd_len.
  destruct ((v * 8 <? 32) || (blen bb <? v * 8)). apply refines_exc.
  apply refines_bind with (R := Rfl (length h1)).
  { destruct (0 <? v * 8 - 32).
    - step_sl. apply refines_ret. fin_fields.
    - apply refines_ret. apply Rfl_nil. lens; lia. }
  intros vf vfb h3 X3 Rv.
  apply refines_bind with (R := Rfl (length h3)).
  { destruct (0 <? (32 - (v * 8 - 32) mod 32) mod 32).
    - step_sl. apply refines_ret. fin_fields.
    - apply refines_ret. apply Rfl_nil. lens; lia. }
  intros pf pfb h4 X4 Rp. apply refines_ret. split; [ | reflexivity ]. cbn [fst].
  rewrite <- !app_assoc.
  eapply (Rfl_app _ h1 [_; _] [_; _]); [ fin_fields | apply Nat.le_refl | ext | ].
  eapply (Rfl_app _ h3); [ exact Rv | apply Nat.le_refl | ext | exact Rp ].
Qed.

Lemma refines_div {A B} (R : heap -> A -> B -> Prop) h : refines R h (hlift Diverge h) Diverge.
Proof. split. apply extends_refl. reflexivity. Qed.

Lemma refines_parameters_loop : forall fuel b bb acc accb lo h, Rref h b bb -> Rfl lo h acc accb ->
  refines (Rfl lo) h (h_parameters_loop fuel b acc h) (bparameters_loop fuel bb accb).
Proof.
  induction fuel as [|f IH]; intros b bb acc accb lo h Eb Ra; cbn [h_parameters_loop bparameters_loop].
  apply refines_div.
  rd_len. destruct (0 <? blen bb); [ | apply refines_ret; exact Ra ].
  apply refines_bind with (R := Rhd (length h)). now apply refines_parse_parameter.
  intros p pb h1 X1 [Rp Ez]. rewrite Ez. step_sl.
  apply IH. exact E.
  eapply (Rfl_app _ h); [ exact Ra | apply Nat.le_refl | ext | ]. eapply Rfl_mono; [ | exact Rp ]. ext.
Qed.
Lemma refines_parse_parameters b bb acc accb lo h : Rref h b bb -> Rfl lo h acc accb ->
  refines (Rfl lo) h (h_parse_parameters b acc h) (bparse_parameters bb accb).
Proof. intros Eb Ra. unfold h_parse_parameters, bparse_parameters. rd_len. now apply refines_parameters_loop. Qed.

(* fields and the remaining slice *)
Definition Rfr (lo : nat) (h' : heap) (a : list ofield * oref) (a' : list bfield * buf) : Prop :=
  Rfl lo h' (fst a) (fst a') /\ Rref h' (snd a) (snd a').

Lemma refines_sack_gaps : forall n rem remb acc accb lo h, Rref h rem remb -> Rfl lo h acc accb ->
  refines (Rfr lo) h (h_sack_gaps n rem acc h) (bsack_gaps n remb accb).
Proof.
  induction n as [|n IH]; intros rem remb acc accb lo h Er Ra; cbn [h_sack_gaps bsack_gaps].
  - apply refines_ret. split; assumption.
  - step_sl. step_sl. step_sl. apply IH. exact E1.
    eapply (Rfl_app _ h); [ exact Ra | apply Nat.le_refl | ext | fin_fields ].
Qed.
Lemma refines_sack_dups : forall n rem remb acc accb lo h, Rref h rem remb -> Rfl lo h acc accb ->
  refines (Rfr lo) h (h_sack_dups n rem acc h) (bsack_dups n remb accb).
Proof.
  induction n as [|n IH]; intros rem remb acc accb lo h Er Ra; cbn [h_sack_dups bsack_dups].
  - apply refines_ret. split; assumption.
  - step_sl. step_sl. apply IH. exact E0.
    eapply (Rfl_app _ h); [ exact Ra | apply Nat.le_refl | ext | fin_fields ].
Qed.

(* the value slice v was created at or after lo by the caller; chunk types 10 and unknown hand it on as a field value *)
Lemma refines_parse_chunk_value c v vb lo h : Rref h v vb -> (lo <= v < length h)%nat ->
  refines (Rfl lo) h (h_parse_chunk_value c v h) (bparse_chunk_value c vb).
Proof.
  intros Ev Lv. unfold h_parse_chunk_value, bparse_chunk_value.
  destruct (c =? 0).
  { step_sl. step_sl. step_sl. step_sl. step_val. step_sl. apply refines_ret. fin_fields. }
  destruct (c =? 1).
  { step_sl. step_sl. step_sl. step_sl. step_sl. step_sl. apply refines_parse_parameters. exact E4. fin_fields. }
  destruct (c =? 2).
  { step_sl. step_sl. step_sl. step_sl. step_sl. step_sl. apply refines_parse_parameters. exact E4. fin_fields. }
  destruct (c =? 3).
  { step_sl. step_sl. step_sl. step_sl. cbv zeta. step_sl. step_val. step_val. rd_len.
    destruct (negb (blen xb3 =? 32 * (v0 + v1))). apply refines_exc.
    step_val. apply refines_bind with (R := Rfr lo). { apply refines_sack_gaps. mono. fin_fields. }
    intros r1 r1b h8 X8 [Rl Rr]. step_val.
    apply refines_bind with (R := Rfr lo). { apply refines_sack_dups. mono. eapply Rfl_mono; [ | exact Rl ]. ext. }
    intros r2 r2b h10 X10 [Rl2 Rr2]. apply refines_ret. exact Rl2. }
  destruct ((c =? 4) || (c =? 5) || (c =? 6) || (c =? 9)).
  { apply refines_parse_parameters. exact Ev. apply Rfl_nil. lia. }
  destruct (c =? 7).
  { rd_len. destruct (32 <? blen vb). apply refines_exc. step_sl. apply refines_ret. fin_fields. }
  destruct ((c =? 8) || (c =? 11) || (c =? 14)).
  { rd_len. destruct (0 <? blen vb). apply refines_exc. apply refines_ret. apply Rfl_nil. lia. }
  destruct (c =? 10).
  { apply refines_ret. fin_fields. }
  apply refines_ret. fin_fields.
Qed.

Lemma refines_parse_chunk b bb h : Rref h b bb ->
  refines (Rhd (length h)) h (h_parse_chunk b h) (bparse_chunk bb).
Proof.
  intro Eb. unfold h_parse_chunk, bparse_chunk. rd_len.
  destruct (blen bb <? 32). apply refines_exc.
  step_sl. step_sl. step_sl. step_val. cbv zeta. rd_len.
  destruct ((v * 8 <? 32) || (blen bb <? v * 8)). apply refines_exc.
  apply refines_bind with (R := Rfl (length h3)).
  { destruct (0 <? v * 8 - 32).
    - step_val. step_sl. apply refines_parse_chunk_value. exact E2. lens; lia.
    - apply refines_ret. apply Rfl_nil. lia. }
  intros vf vfb h5 X5 Rv.
  apply refines_bind with (R := Rfl (length h5)).
  { destruct (0 <? (32 - v * 8 mod 32) mod 32).
    - step_sl. rd_len. apply refines_ret. destruct (0 <? blen xb2). fin_fields. apply Rfl_nil. lens; lia.
    - apply refines_ret. apply Rfl_nil. lia. }
  intros pf pfb h6 X6 Rp. apply refines_ret. split; [ | reflexivity ]. cbn [fst].
  eapply (Rfl_app _ h3 [_; _; _] [_; _; _]); [ fin_fields | apply Nat.le_refl | ext | ].
  eapply (Rfl_app _ h5); [ exact Rv | apply Nat.le_refl | ext | exact Rp ].
Qed.

Lemma refines_chunks_loop : forall fuel b bb acc accb lo h, Rref h b bb -> Rfl lo h acc accb ->
  refines (Rfl lo) h (h_chunks_loop fuel b acc h) (bchunks_loop fuel bb accb).
Proof.
  induction fuel as [|f IH]; intros b bb acc accb lo h Eb Ra; cbn [h_chunks_loop bchunks_loop].
  apply refines_div.
  rd_len. destruct (0 <? blen bb); [ | apply refines_ret; exact Ra ].
  apply refines_bind with (R := Rhd (length h)). now apply refines_parse_chunk.
  intros p pb h1 X1 [Rp Ez]. rewrite Ez. step_sl.
  apply IH. exact E.
  eapply (Rfl_app _ h); [ exact Ra | apply Nat.le_refl | ext | ]. eapply Rfl_mono; [ | exact Rp ]. ext.
Qed.

Lemma refines_parse_sctp b bb h : Rref h b bb ->
  refines (Rhd (length h)) h (h_parse_sctp b h) (bparse_sctp bb).
Proof.
  intro Eb. unfold h_parse_sctp, bparse_sctp. rd_len.
  destruct (blen bb <? 96). apply refines_exc.
  step_sl. step_sl. step_sl. step_sl. cbv zeta. step_sl. rd_len.
  apply refines_bind with (R := Rfl (length h)). { apply refines_chunks_loop. exact E3. fin_fields. }
  intros fs fsb h6 X6 Rf. rd_len. apply refines_ret. split; [ exact Rf | reflexivity ].
Qed.

(* ---- CoAP ---- *)
Lemma refines_in_set2_strong x xb k1 k2 h : Rref h x xb ->
  refines (fun _ a b => a = b /\ (b = true -> b_eq_bytes xb k1 || b_eq_bytes xb k2 = true)) h
          (h_in_set2 x k1 k2 h) (in_set2 xb k1 k2).
Proof.
  intro E. unfold h_in_set2, in_set2. apply refines_bind with (R := Rval). now apply refines_hash.
  intros hk hk' h1 X1 Eh. unfold Rval in Eh; subst hk'.
  assert (E1 : Rref h1 x xb) by mono. rewrite (hbind_getR _ _ _ _ E1). apply refines_ret. split. reflexivity.
  intro Hb. destruct (b_eq_bytes xb k1), (b_eq_bytes xb k2); rewrite ?andb_false_r in Hb; simpl in *; auto.
Qed.
Lemma Ropt_Rref_mono h h' o ob : extends h h' -> Ropt Rref h o ob -> Ropt Rref h' o ob.
Proof. intro X. destruct o, ob; simpl; auto. now apply Rref_mono. Qed.

Tactic Notation "step_sl" "as" ident(x) ident(xb) ident(h) ident(X) ident(E) ident(F) :=
  eapply refines_bind with (R := Rnew _);
  [ lazymatch goal with
    | |- refines _ _ (hsl _ _ _ _) _ => apply refines_sl
    | |- refines _ _ (hsl_from _ _ _) _ => apply refines_sl_from
    end; mono
  | intros x xb h X [E F] ].
Tactic Notation "step_val" "as" ident(v) ident(h) ident(X) :=
  apply refines_bind with (R := Rval);
  [ apply refines_value; mono
  | let v' := fresh "v" in let E := fresh "E" in intros v v' h X E; unfold Rval in E; subst v' ].

Ltac rw_tests := repeat match goal with T : b_eq_bytes _ _ = _ |- _ => rewrite T in * |- end.

Lemma refines_coap_options_loop : forall fuel b bb cursor ps dxv dxvb lxv lxvb acc accb lo h,
  Rref h b bb -> Ropt Rref h dxv dxvb -> Ropt Rref h lxv lxvb -> Rfl lo h acc accb ->
  refines (Rhd lo) h (h_coap_options_loop fuel b cursor ps dxv lxv acc h)
          (bcoap_options_loop fuel bb cursor ps dxvb lxvb accb).
Proof.
  induction fuel as [|f IH]; intros b bb cursor ps dxv dxvb lxv lxvb acc accb lo h Eb Rd Rl Ra;
    cbn [h_coap_options_loop bcoap_options_loop].
  apply refines_div.
  rd_len.
  apply refines_bind with (R := Rval).
  { destruct (cursor <? blen bb).
    - step_sl as m mb hm Xm Em Fm. rd_eqb. apply refines_ret. reflexivity.
    - apply refines_ret. reflexivity. }
  intros c c' h1 X1 Ec. unfold Rval in Ec; subst c'. destruct c.
  2:{ rd_len. destruct (cursor <? blen bb).
      - eapply refines_bind with (R := Rnew _). apply refines_new_fresh.
        intros mk mkb h2 X2 [Em Fm]. apply refines_ret. split; [ | reflexivity ]. cbn [fst].
        eapply (Rfl_app _ h); [ exact Ra | apply Nat.le_refl | ext | fin_fields ].
      - apply refines_ret. split; [ | reflexivity ]. eapply Rfl_mono; [ | exact Ra ]. ext. }
  step_sl as ob obb h2 X2 Eob Fob.
  step_sl as delta deltab h3 X3 Edelta Fdelta.
  step_sl as olen olenb h4 X4 Eolen Folen.
  step_val as olen_int h5 X5.
  cbv zeta. rd_eqb.
  destruct (b_eq_bytes deltab [13]) eqn:T13;
    [ rewrite hbind_assoc, bind_assoc; step_sl as dxr dxrb h6 X6 Edx Fdx; rewrite hbind_ret; cbn [bind]
    | rewrite hbind_assoc; rd_eqb; destruct (b_eq_bytes deltab [14]) eqn:T14;
      [ rewrite hbind_assoc, bind_assoc; step_sl as dxr dxrb h6 X6 Edx Fdx; rewrite hbind_ret; cbn [bind]
      | rewrite hbind_ret; cbn [bind] ] ].
  all: rd_eqb;
    (destruct (b_eq_bytes olenb [13]) eqn:L13;
     [ rewrite hbind_assoc, bind_assoc; step_sl as lxr lxrb h7 X7 Elx Flx;
       rewrite hbind_assoc, bind_assoc; step_val as lxval h8 X8; rewrite hbind_ret; cbn [bind]
     | rewrite hbind_assoc; rd_eqb; destruct (b_eq_bytes olenb [14]) eqn:L14;
       [ rewrite hbind_assoc, bind_assoc; step_sl as lxr lxrb h7 X7 Elx Flx;
         rewrite hbind_assoc, bind_assoc; step_val as lxval h8 X8; rewrite hbind_ret; cbn [bind]
       | rewrite hbind_ret; cbn [bind] ] ]).
  all: step_sl as value valueb hv Xv Evalue Fvalue; rd_len.
  all: match goal with |- refines _ _ ((if ?c then _ else _) _) _ => destruct c end; [ apply refines_exc | ].
  all: (eapply refines_bind; [ apply refines_in_set2_strong; mono | ]);
       intros dm dm' hd Xd [Edm Hdm]; subst dm'; destruct dm;
       [ try (exfalso; specialize (Hdm eq_refl); rewrite T13 in Hdm; try rewrite T14 in Hdm; discriminate Hdm) | ].
  all: rewrite hbind_ret; cbn [bind].
  all: (eapply refines_bind; [ apply refines_in_set2_strong; mono | ]);
       intros lm lm' hl Xl [Elm Hlm]; subst lm'; destruct lm;
       [ try (exfalso; specialize (Hlm eq_refl); rewrite L13 in Hlm; try rewrite L14 in Hlm; discriminate Hlm) | ].
  all: rewrite hbind_ret; cbn [bind].
  all: apply IH;
       [ mono
       | first [ cbn [Ropt]; mono | eapply Ropt_Rref_mono; [ | eassumption ]; ext ]
       | first [ cbn [Ropt]; mono | eapply Ropt_Rref_mono; [ | eassumption ]; ext ]
       | eapply (Rfl_app _ h); [ exact Ra | apply Nat.le_refl | ext | ];
         destruct (0 <? _); cbn [app]; fin_fields ].
Qed.

Lemma refines_coap_parse_options b bb h : Rref h b bb ->
  refines (Rhd (length h)) h (h_coap_parse_options b h) (bcoap_parse_options bb).
Proof.
  intro Eb. unfold h_coap_parse_options, bcoap_parse_options. rd_len.
  apply refines_coap_options_loop; auto; try exact I. apply Rfl_nil. lia.
Qed.

Lemma refines_parse_coap b bb h : Rref h b bb ->
  refines (Rhd (length h)) h (h_parse_coap b h) (bparse_coap bb).
Proof.
  intro Eb. unfold h_parse_coap, bparse_coap. rd_len.
  destruct (blen bb <? 32). apply refines_exc.
  step_sl as version versionb h1 X1 E1 F1.
  step_sl as type typeb h2 X2 E2 F2.
  step_sl as tkl tklb h3 X3 E3 F3.
  erewrite hbind_getR by mono. rewrite hbind_lift.
  destruct (py_index (content tklb) 0) as [tkl_int|e|]; cbn [bind]; [ | split; [ext | reflexivity] .. ].
  step_sl as code codeb h4 X4 E4 F4.
  step_sl as mid midb h5 X5 E5 F5.
  eapply refines_bind with (R := Rnew _). { apply refines_catch_all. apply refines_sl. mono. }
  intros token tokenb h6 X6 [E6 F6]. cbv zeta.
  step_sl as ob obb h7 X7 E7 F7. rd_len.
  apply refines_bind with (R := Rhd (length h7)).
  { destruct (0 <? blen obb).
    - apply refines_catch_all. now apply refines_coap_parse_options.
    - apply refines_ret. split; [ apply Rfl_nil; lia | reflexivity ]. }
  intros o o' h8 X8 [Ro Ez]. rd_len. apply refines_ret. split; [ | rewrite Ez; reflexivity ]. cbn [fst].
  eapply (Rfl_app _ h7); [ | apply Nat.le_refl | ext | exact Ro ].
  destruct (0 <? tkl_int); cbn [app]; fin_fields.
Qed.

(* ---- next-header prediction ---- *)
Definition Rparser (p : ohparser) (bp : bhparser) : Prop :=
  forall x xb h, Rref h x xb -> refines (Rhd (length h)) h (p x h) (bp xb).

Lemma refines_chain lo hd bhd next bnext b bb off h : Rparser next bnext ->
  Rref h b bb -> Rhd lo h hd bhd -> refines (Rhd lo) h (h_chain hd next b off h) (bchain bhd bnext bb off).
Proof.
  intros N Eb [Rh Ez]. unfold h_chain, bchain.
  step_sl as rest restb h1 X1 E1 F1.
  apply refines_bind with (R := Rhd (length h1)). now apply N.
  intros n nb h2 X2 [Rn En]. apply refines_ret. split; [ | rewrite Ez, En; reflexivity ]. cbn [fst].
  eapply (Rfl_app _ h); [ exact Rh | | ext | exact Rn ]. lens; lia.
Qed.

Lemma Rparser_coap : Rparser h_parse_coap bparse_coap.
Proof. intros x xb h E. now apply refines_parse_coap. Qed.
Lemma Rparser_sctp : Rparser h_parse_sctp bparse_sctp.
Proof. intros x xb h E. now apply refines_parse_sctp. Qed.

Lemma refines_parse_udp p b bb h : Rref h b bb ->
  refines (Rhd (length h)) h (h_parse_udp p b h) (bparse_udp p bb).
Proof.
  intro Eb. unfold h_parse_udp, bparse_udp. rd_len.
  destruct (blen bb <? 64). apply refines_exc.
  step_sl as sport sportb h1 X1 E1 F1.
  step_sl as dport dportb h2 X2 E2 F2.
  step_sl as len lenb h3 X3 E3 F3.
  step_sl as cksum cksumb h4 X4 E4 F4. cbv zeta.
  destruct p.
  - step_val as pv h5 X5.
    destruct (pv =? 5683). { apply refines_chain. apply Rparser_coap. mono. split; [ fin_fields | reflexivity ]. }
    destruct (pv =? 132). { apply refines_chain. apply Rparser_sctp. mono. split; [ fin_fields | reflexivity ]. }
    apply refines_ret. split; [ fin_fields | reflexivity ].
  - apply refines_ret. split; [ fin_fields | reflexivity ].
Qed.
Lemma Rparser_udp p : Rparser (h_parse_udp p) (bparse_udp p).
Proof. intros x xb h E. now apply refines_parse_udp. Qed.

Lemma refines_parse_ipv6 p b bb h : Rref h b bb ->
  refines (Rhd (length h)) h (h_parse_ipv6 p b h) (bparse_ipv6 p bb).
Proof.
  intro Eb. unfold h_parse_ipv6, bparse_ipv6. rd_len.
  destruct (blen bb <? 320). apply refines_exc.
  step_sl as version versionb h1 X1 E1 F1. rd_eqb.
  destruct (negb (b_eq_bytes versionb [6])). apply refines_exc.
  step_sl as tc tcb h2 X2 E2 F2.
  step_sl as fl flb h3 X3 E3 F3.
  step_sl as plen plenb h4 X4 E4 F4.
  step_sl as nh nhb h5 X5 E5 F5.
  step_sl as hl hlb h6 X6 E6 F6.
  step_sl as src srcb h7 X7 E7 F7.
  step_sl as dst dstb h8 X8 E8 F8. cbv zeta.
  destruct p.
  - step_val as pv h9 X9.
    destruct (pv =? 17). { apply refines_chain. apply Rparser_udp. mono. split; [ fin_fields | reflexivity ]. }
    destruct (pv =? 132). { apply refines_chain. apply Rparser_sctp. mono. split; [ fin_fields | reflexivity ]. }
    apply refines_ret. split; [ fin_fields | reflexivity ].
  - apply refines_ret. split; [ fin_fields | reflexivity ].
Qed.

Lemma refines_parse_ipv4 p b bb h : Rref h b bb ->
  refines (Rhd (length h)) h (h_parse_ipv4 p b h) (bparse_ipv4 p bb).
Proof.
  intro Eb. unfold h_parse_ipv4, bparse_ipv4. rd_len.
  destruct (blen bb <? 160). apply refines_exc.
  step_sl as version versionb h1 X1 E1 F1. rd_eqb.
  destruct (negb (b_eq_bytes versionb [4])). apply refines_exc.
  step_sl as ihl ihlb h2 X2 E2 F2.
  step_sl as tos tosb h3 X3 E3 F3.
  step_sl as tlen tlenb h4 X4 E4 F4.
  step_sl as ident identb h5 X5 E5 F5.
  step_sl as flags flagsb h6 X6 E6 F6.
  step_sl as frag fragb h7 X7 E7 F7.
  step_sl as ttl ttlb h8 X8 E8 F8.
  step_sl as pr prb h9 X9 E9 F9.
  step_sl as cksum cksumb h10 X10 E10 F10.
  step_sl as src srcb h11 X11 E11 F11.
  step_sl as dst dstb h12 X12 E12 F12. cbv zeta.
  destruct p.
  - step_val as pv h13 X13.
    destruct (pv =? 17). { apply refines_chain. apply Rparser_udp. mono. split; [ fin_fields | reflexivity ]. }
    destruct (pv =? 132). { apply refines_chain. apply Rparser_sctp. mono. split; [ fin_fields | reflexivity ]. }
    apply refines_ret. split; [ fin_fields | reflexivity ].
  - apply refines_ret. split; [ fin_fields | reflexivity ].
Qed.
Lemma Rparser_ipv6 p : Rparser (h_parse_ipv6 p) (bparse_ipv6 p).
Proof. intros x xb h E. now apply refines_parse_ipv6. Qed.
Lemma Rparser_ipv4 p : Rparser (h_parse_ipv4 p) (bparse_ipv4 p).
Proof. intros x xb h E. now apply refines_parse_ipv4. Qed.

(* ---- PacketParser.parse ---- *)
(* fields and payload: the payload is a slice created after every field value *)
Definition Rfp (lo : nat) (h' : heap) (a : list ofield * oref) (a' : list bfield * buf) : Prop :=
  Forall2 (Rfield h') (fst a) (fst a') /\ Rref h' (snd a) (snd a') /\
  sorted_in lo (map of_val (fst a) ++ [snd a]) (length h').

(* the loop from a buffer b that was itself created after the fields found so far *)
Lemma refines_packet_parse_loop : forall ps bps b bb acc accb lo bl h, Forall2 Rparser ps bps ->
  Rref h b bb -> Forall2 (Rfield h) acc accb -> sorted_in lo (map of_val acc) bl -> (bl <= b < length h)%nat ->
  refines (Rfp lo) h (h_packet_parse_loop ps b acc h) (bpacket_parse_loop bps bb accb).
Proof.
  induction ps as [|p ps IH]; intros bps b bb acc accb lo bl h FP Eb Fa Sa Lb;
    inversion FP as [|? bp ? bps' Hp FP']; subst; cbn [h_packet_parse_loop bpacket_parse_loop].
  - apply refines_ret. split. exact Fa. split. exact Eb. cbn [fst snd].
    eapply sorted_in_app; [ exact Sa | ]. cbn [sorted_in]. lia.
  - apply refines_bind with (R := Rhd (length h)). now apply Hp.
    intros hd hdb h1 X1 [[Fh Sh] Ez]. rewrite Ez.
    step_sl as b' bb' h2 X2 E2 F2.
    apply (IH bps' b' bb' _ _ lo (length h1) h2 FP' E2).
    + apply Forall2_app. eapply Rfields_mono; [ | exact Fa ]. ext. eapply Rfields_mono; [ | exact Fh ]. ext.
    + rewrite map_app. eapply sorted_in_app; [ exact Sa | ]. eapply sorted_in_weaken; [ exact Sh | lia | lia ].
    + exact F2.
Qed.

(* the loop from the packet itself, at least one header parser *)
Lemma refines_packet_parse_loop_top p ps bp bps b bb lo h : Rparser p bp -> Forall2 Rparser ps bps ->
  Rref h b bb -> (lo <= length h)%nat ->
  refines (Rfp lo) h (h_packet_parse_loop (p :: ps) b [] h) (bpacket_parse_loop (bp :: bps) bb []).
Proof.
  intros Hp FP Eb L. cbn [h_packet_parse_loop bpacket_parse_loop].
  apply refines_bind with (R := Rhd (length h)). now apply Hp.
  intros hd hdb h1 X1 [[Fh Sh] Ez]. rewrite Ez.
  step_sl as b' bb' h2 X2 E2 F2. cbn [app].
  apply (refines_packet_parse_loop ps bps b' bb' _ _ lo (length h1) h2 FP E2).
  - eapply Rfields_mono; [ | exact Fh ]. ext.
  - eapply sorted_in_weaken; [ exact Sh | lia | lia ].
  - exact F2.
Qed.

Definition b_parsers (s : stack) : list bhparser :=
  match s with
  | IPv6_UDP_CoAP => [bparse_ipv6 false; bparse_udp false; bparse_coap]
  | IPv4_UDP_CoAP => [bparse_ipv4 false; bparse_udp false; bparse_coap]
  | S_IPv4 => [bparse_ipv4 true]
  | S_IPv6 => [bparse_ipv6 true]
  | S_UDP => [bparse_udp true]
  | S_CoAP => [bparse_coap]
  | S_SCTP => [bparse_sctp]
  end.
Lemma bfactory_parsers s : bfactory s = bpacket_parse (b_parsers s).
Proof. destruct s; reflexivity. Qed.
Lemma Rparsers s : exists p ps bp bps, h_parsers s = p :: ps /\ b_parsers s = bp :: bps /\ Rparser p bp /\ Forall2 Rparser ps bps.
Proof.
  destruct s; simpl; do 4 eexists; (split; [reflexivity | split; [reflexivity | split]]);
    repeat first [ apply Forall2_cons | apply Forall2_nil | apply Rparser_ipv6 | apply Rparser_ipv4 | apply Rparser_udp
                 | apply Rparser_coap | apply Rparser_sctp ].
Qed.

(* the packet descriptor: fields, payload and raw in scope; raw, the field values and the payload in allocation order
   from lo on; raw holds copy() of the packet *)
Definition Rpacket (bb : buf) (lo : nat) (h' : heap) (a : list ofield * oref * oref) (a' : list bfield * buf) : Prop :=
  Forall2 (Rfield h') (fst (fst a)) (fst a') /\ Rref h' (snd (fst a)) (snd a') /\
  (exists rv, b_copy bb = Ok rv /\ Rref h' (snd a) rv) /\
  sorted_in lo (snd a :: map of_val (fst (fst a)) ++ [snd (fst a)]) (length h').

Lemma refines_map {A A' B} (R : heap -> A -> B -> Prop) (R' : heap -> A' -> B -> Prop) (m : hm A) (f : A -> A') q h :
  refines R h (m h) q -> (forall a b h', extends h h' -> R h' a b -> R' h' (f a) b) ->
  refines R' h (hbind m (fun a => hret (f a)) h) q.
Proof.
  intros Hm I. rewrite hbind_eq. unfold refines in *. destruct (m h) as [[a|e|] h1]; auto.
  destruct Hm as (X & b & -> & Rab). unfold hret. split; auto. exists b. split; auto.
Qed.

Lemma refines_factory s b bb h : Rref h b bb ->
  refines (Rpacket bb (length h)) h (h_factory s b h) (bfactory s bb).
Proof.
  intro Eb. rewrite bfactory_parsers. unfold h_factory, h_packet_parse, bpacket_parse.
  destruct (Rparsers s) as (p & ps & bp & bps & -> & -> & Hp & FP).
  apply refines_bind with (R := fun h' x v => Rnew (length h) h' x v /\ b_copy bb = Ok v).
  { pose proof (h_copy_refines b h bb Eb) as C. unfold refines. destruct (h_copy b h) as [[x|e|] h1].
    - destruct C as (v & Cv & Hx & -> & ->). split. apply extends_app. exists v. repeat split; auto.
      rewrite app_length; simpl; lia.
    - destruct C as (-> & ->). split. apply extends_refl. auto.
    - destruct C as (-> & ->). split. apply extends_refl. auto. }
  intros raw rawb h1 X1 [[Er Fr] Ec].
  eapply refines_map. { apply (refines_packet_parse_loop_top p ps bp bps b bb (length h1) h1); auto. mono. }
  intros r rb h2 X2 (Ff & Epl & Srt). split; [ exact Ff | split; [ exact Epl | split ] ]; cbn [fst snd].
  - exists rawb. split; auto. mono.
  - cbn [sorted_in]. split. lia. eapply sorted_in_weaken; [ exact Srt | lia | lia ].
Qed.

(* ================================================================================================ *)
(* 4. the theorems                                                                                  *)
(* ================================================================================================ *)

Lemma Rfield_deref h pf bpf : Rfield h pf bpf -> deref_field h pf = Some bpf.
Proof.
  intros (A & B & C). unfold deref_field. unfold Rref in C. rewrite C. destruct bpf; simpl in *. now subst.
Qed.
Lemma Rfields_deref h fs bfs : Forall2 (Rfield h) fs bfs -> deref_list (deref_field h) fs = Some bfs.
Proof. intro F. apply deref_list_Forall2. eapply Forall2_mono; [ | exact F ]. apply Rfield_deref. Qed.

(* refinement: on a packet in scope the outcome is that of ParserBytes.bfactory on the packet's value: the field
   descriptors dereference to the same fields, the payload to the same payload, raw to copy() of the packet;
   same exception, same divergence otherwise *)
Theorem h_factory_refines s b h bb : nth_error h b = Some bb ->
  match h_factory s b h with
  | (Ok (fs, pl, raw), h') =>
    exists bfs plb rawb, bfactory s bb = Ok (bfs, plb) /\ deref_list (deref_field h') fs = Some bfs /\
                         nth_error h' pl = Some plb /\ b_copy bb = Ok rawb /\ nth_error h' raw = Some rawb
  | (Exc e, _) => bfactory s bb = Exc e
  | (Diverge, _) => bfactory s bb = Diverge
  end.
Proof.
  intro Eb. pose proof (refines_factory s b bb h Eb) as R. unfold refines in R.
  destruct (h_factory s b h) as [[[[fs pl] raw]|e|] h']; try tauto.
  destruct R as (X & [bfs plb] & Ef & Ff & Epl & (rawb & Ec & Er) & Srt). cbn [fst snd] in *.
  exists bfs, plb, rawb. repeat split; auto. now apply Rfields_deref.
Qed.

(* freshness: raw, every field value and the payload are objects created by the call, in this order of creation,
   hence pairwise distinct, and none of them is the packet (which, the parse having succeeded, is in scope) *)
Theorem h_factory_fresh s b h fs pl raw h' : h_factory s b h = (Ok (fs, pl, raw), h') ->
  let l := raw :: map of_val fs ++ [pl] in
  sorted_in (length h) l (length h') /\ NoDup l /\ Forall (fun x => (length h <= x < length h')%nat) l /\
  (b < length h)%nat /\ ~ In b l.
Proof.
  intro H. destruct (nth_error h b) as [bb|] eqn:Eb.
  - pose proof (refines_factory s b bb h Eb) as R. rewrite H in R.
    destruct R as (X & [bfs plb] & Ef & Ff & Epl & _ & Srt). cbn [fst snd] in Srt. cbv zeta.
    pose proof (sorted_in_range _ _ _ Srt) as Rg. pose proof (nth_some_lt _ _ _ Eb) as Lb.
    split; [ exact Srt | split; [ eapply sorted_in_NoDup; eauto | split; [ exact Rg | split; [ exact Lb | ] ] ] ].
    intro I. rewrite Forall_forall in Rg. apply Rg in I. lia.
  - unfold h_factory, h_packet_parse in H. rewrite hbind_eq, h_copy_eq, Eb in H. discriminate.
Qed.

(* ---- instances ---- *)
(* UDP datagram, destination port 80 (no next header predicted), 2 bytes of payload *)
Definition ex_udp : buf := mkbuf [18; 52; 0; 80; 0; 10; 0; 0; 1; 2] 80 LEFT 0.
Example ex_udp_parse :
  let p := h_factory S_UDP 0%nat [ex_udp] in
  fst p = Ok ([OFD P_UDP 0 0 2%nat; OFD P_UDP 1 0 3%nat; OFD P_UDP 2 0 4%nat; OFD P_UDP 3 0 5%nat], 6%nat, 1%nat) /\
  firstn 1 (snd p) = [ex_udp] /\ length (snd p) = 7%nat /\
  nth_error (snd p) 1 = Some ex_udp /\ nth_error (snd p) 3 = Some (mkbuf [0; 80] 16 LEFT 0) /\
  nth_error (snd p) 6 = Some (mkbuf [1; 2] 16 LEFT 0) /\
  bfactory S_UDP ex_udp =
    Ok ([BFD P_UDP 0 0 (mkbuf [18; 52] 16 LEFT 0); BFD P_UDP 1 0 (mkbuf [0; 80] 16 LEFT 0);
         BFD P_UDP 2 0 (mkbuf [0; 10] 16 LEFT 0); BFD P_UDP 3 0 (mkbuf [0; 0] 16 LEFT 0)], mkbuf [1; 2] 16 LEFT 0).
Proof. vm_compute. repeat split; reflexivity. Qed.

(* CoAP: token of one byte, one option with an extended delta (13 + 2), payload marker, one byte of payload:
   hashing the option delta / length nibbles and the marker allocate objects that are not returned *)
Definition ex_coap : buf := mkbuf [65; 1; 0; 1; 170; 209; 2; 7; 255; 85] 80 LEFT 0.
Example ex_coap_parse :
  let p := h_factory S_CoAP 0%nat [ex_coap] in
  match fst p with
  | Ok (fs, pl, raw) =>
    map of_id fs = map (mkfid P_CoAP) [0; 1; 2; 3; 4; 5; 7; 8; 9; 11; 6] /\
    sorted_in 1 (raw :: map of_val fs ++ [pl]) (length (snd p)) /\
    firstn 1 (snd p) = [ex_coap] /\ nth_error (snd p) pl = Some (mkbuf [85] 8 LEFT 0) /\
    (length fs + 3 < length (snd p))%nat /\
    match bfactory S_CoAP ex_coap with
    | Ok (bfs, plb) => deref_list (deref_field (snd p)) fs = Some bfs /\ nth_error (snd p) pl = Some plb
    | _ => False
    end
  | _ => False
  end.
Proof. vm_compute. repeat split; try reflexivity; lia. Qed.

(* SCTP: common header and one DATA chunk of 17 bytes (1 byte of user data) padded to 20 *)
Definition ex_sctp : buf :=
  mkbuf [0; 7; 0; 9; 0; 0; 0; 1; 0; 0; 0; 0;  0; 3; 0; 17; 0; 0; 0; 5; 0; 1; 0; 2; 0; 0; 0; 0; 238; 0; 0; 0] 256 LEFT 0.
Example ex_sctp_parse :
  let p := h_factory S_SCTP 0%nat [ex_sctp] in
  match fst p with
  | Ok (fs, pl, raw) =>
    map of_id fs = map (mkfid P_SCTP) [0; 1; 2; 3; 4; 5; 6; 9; 10; 11; 12; 13; 8] /\
    sorted_in 1 (raw :: map of_val fs ++ [pl]) (length (snd p)) /\
    firstn 1 (snd p) = [ex_sctp] /\
    match bfactory S_SCTP ex_sctp with
    | Ok (bfs, plb) => deref_list (deref_field (snd p)) fs = Some bfs /\ nth_error (snd p) pl = Some plb
    | _ => False
    end
  | _ => False
  end.
Proof. vm_compute. repeat split; try reflexivity; lia. Qed.
